import Mixin.Model.Locks
import Mixin.Proofs.KV
import Mixin.Proofs.Locks
import Mixin.Facts.ExpectedC04
/-!
# C04 — a one-time output key is bound to at most one transaction

`GHOST[k]` is the transaction an output key is bound to.  The theorems quantify over every
database and every list of atomic calls (admissions with or without the fork flag,
`WriteTransaction`, `WriteSnapshot`), i.e. every interleaving of concurrent callers.
-/
namespace Mixin.C04
open Mixin.KV Mixin.Locks

/-- the output types as the source has them (pinned by `ExpectedC04.unspentOutputs_table`,
    `writeUTXO_body`): script 0, node pledge 163 / accept 164 / remove 166 / cancel 170,
    withdrawal claim 169, custodian update 177 are materialised; withdrawal submit 161 and
    custodian slash 178 are not -/
def kinds0 : OutKinds :=
  { materialized := [0, 163, 170, 164, 166, 169, 177], skipped := [161, 178], sideTypes := [163, 170, 164, 166, 177, 169] }

def cfg0 : Cfg := { exc := [101, 102, 103], nodes := [1, 2], kinds := kinds0 }

/-- key 7 is bound to transaction 5, whose body is stored -/
def sample : Store := { ghost := [(7, 5)], tx := [(5, ()), (6, ())] }

def okAnd (r : Res) (p : Store → Bool) : Bool :=
  match r with
  | .ok s' => p s'
  | _ => false

theorem step_ghost_mono (c : Cfg) (s : Store) (op : Op) : GhostMono s (step c s op) := by
  unfold step
  split
  · next s' h => exact exec_ghost_mono h
  · exact fun _ _ h => h

/-- `ghost_binding_immutable`: once `GHOST[k] = v`, it is `v` after any further list of calls —
    fork flag, exceptions, finalizations and prunes included. -/
theorem ghost_binding_immutable (c : Cfg) (s : Store) (ops : List Op) (k v : Nat)
    (h : s.ghost.get k = some v) : (run c s ops).ghost.get k = some v := by
  unfold run
  induction ops generalizing s with
  | nil => exact h
  | cons op rest ih => exact ih (step c s op) (step_ghost_mono c s op k v h)

example : (run cfg0 sample [.lockGhostKeys [7] 101 true, .lockGhostKeys [7, 8] 6 true,
    .snapshot 1 [{ id := 6, ins := [.genesis], outs := [⟨164, [7]⟩] }] .ok]).ghost.get 7 = some 5 := by decide

/-- `ghost_foreign_rejected`: a key list that contains a key bound to another transaction is
    refused and nothing changes — unless the call carries the fork flag *and* the requester is one
    of the hard-coded exceptions. -/
theorem ghost_foreign_rejected (c : Cfg) (s : Store) (keys : List Nat) (k t t' : Nat) (fork : Bool)
    (hk : k ∈ keys) (hg : s.ghost.get k = some t) (hne : t ≠ t') (hx : ¬ (fork = true ∧ t' ∈ c.exc)) :
    exec c s (.lockGhostKeys keys t' fork) = .err ∧ step c s (.lockGhostKeys keys t' fork) = s := by
  have h : exec c s (.lockGhostKeys keys t' fork) = .err := by
    simp only [exec, lockGhostKeys, lockGhostLoop_foreign hk hg hne hx]
  exact ⟨h, by simp [step, h]⟩

example : exec cfg0 sample (.lockGhostKeys [8, 7] 6 true) = .err := by decide
example : exec cfg0 sample (.lockGhostKeys [7] 101 false) = .err := by decide

/-- the exceptions: with the fork flag an exception transaction is accepted against a bound
    key, and the database — in particular the binding — is unchanged. -/
theorem ghost_exception_accepted_unchanged (c : Cfg) (s : Store) (k t t' : Nat)
    (hg : s.ghost.get k = some t) (h0 : t ≠ 0) (hx : t' ∈ c.exc) :
    exec c s (.lockGhostKeys [k] t' true) = .ok s := by
  simp [exec, lockGhostKeys, lockGhostLoop, lockGhostKey, hg, h0, hx]

example : exec cfg0 sample (.lockGhostKeys [7] 102 true) = .ok sample := by decide

/-- the storage-level duplicate filter: a key list with a repeated key is refused -/
theorem ghost_duplicate_rejected (c : Cfg) (s : Store) (pre mid post : List Nat) (k t : Nat) (fork : Bool) :
    exec c s (.lockGhostKeys (pre ++ k :: mid ++ k :: post) t fork) = .err := by
  simp only [exec, lockGhostKeys]
  suffices h : ∀ seen s, lockGhostLoop c.exc t fork (pre ++ k :: mid ++ k :: post) seen s = none by rw [h]
  induction pre with
  | nil =>
    intro seen s
    simp only [List.nil_append, List.cons_append]
    unfold lockGhostLoop
    split
    · rfl
    · split
      · rfl
      · exact lockGhostLoop_dup (k := k) (by simp) List.mem_cons_self
  | cons p ps ih =>
    intro seen s
    simp only [List.cons_append]
    unfold lockGhostLoop
    split
    · rfl
    · split
      · rfl
      · have := ih (p :: seen)
        simp only [List.cons_append, List.append_assoc] at this ⊢
        exact this _

example : exec cfg0 {} (.lockGhostKeys [1, 2, 1] 6 false) = .err := by decide

/-- `finalize_never_overwrites`: finalizing (`WriteSnapshot`) a transaction that is not yet
    finalized, is not an exception, and has a materialised output **of any type** (script, node
    pledge / accept / cancel / remove, custodian update, withdrawal claim — everything
    `UnspentOutputs` yields) with a key bound to another transaction does not succeed, whatever
    the side effects of the output types do; with `ghost_binding_immutable` the binding stays
    whatever the outcome. -/
theorem finalize_never_overwrites (c : Cfg) (s : Store) (node : Nat) (t' : Tx) (side : Side) (o : OutSpec) (k t : Nat)
    (ho : o ∈ t'.outs) (hmat : o.typ ∉ c.kinds.skipped) (hk : k ∈ o.keys)
    (hg : s.ghost.get k = some t) (hne : t ≠ t'.id)
    (hx : t'.id ∉ c.exc) (hfin : s.fin.get t'.id = none) :
    (∀ s', exec c s (.snapshot node [t'] side) ≠ .ok s') ∧ step c s (.snapshot node [t'] side) = s := by
  have hf : ∀ s', finalizeTransaction c.exc c.kinds side s t' ≠ .ok s' := by
    intro s' hfz
    unfold finalizeTransaction at hfz
    rw [hfin] at hfz
    simp only at hfz
    split at hfz
    · exact writeUTXOs_foreign ho hmat hk (by simpa using hg) hne hx s' hfz
    · cases hfz
  have h : ∀ s', exec c s (.snapshot node [t'] side) ≠ .ok s' := by
    intro s' he
    simp only [exec, writeSnapshot] at he
    split at he
    · cases he
    · split at he
      · unfold snapshotLoop at he
        split at he
        · next s1 h1 => exact hf s1 h1
        · next hnot => exact hnot s' he
      · cases he
  refine ⟨h, ?_⟩
  unfold step
  split
  · next s' he => exact absurd he (h s')
  · rfl

example : exec cfg0 sample (.snapshot 1 [{ id := 6, ins := [.genesis], outs := [⟨0, [8]⟩, ⟨0, [7]⟩] }] .ok) = .err := by decide
-- the same for a node-accept, a node-remove and a custodian-update output
example : exec cfg0 sample (.snapshot 1 [{ id := 6, ins := [.genesis], outs := [⟨164, [7]⟩] }] .ok) = .err := by decide
example : exec cfg0 sample (.snapshot 1 [{ id := 6, ins := [.genesis], outs := [⟨166, [8, 7]⟩] }] .ok) = .err := by decide
example : exec cfg0 sample (.snapshot 1 [{ id := 6, ins := [.genesis], outs := [⟨177, [7]⟩] }] .panic) = .err := by decide
-- and the same transaction is finalized when its keys are free or its own
example : okAnd (exec cfg0 sample (.snapshot 1 [{ id := 5, ins := [.genesis], outs := [⟨0, [8]⟩, ⟨164, [7]⟩] }] .ok))
    (fun s' => s'.ghost.get 7 == some 5 && s'.ghost.get 8 == some 5 && s'.utxo.get (5, 1) == some 0) = true := by
  decide

/-- `finalize_binds_all_keys`: after a successful finalization of a not yet finalized
    transaction (not one of the exceptions), every key of every materialised output — of every
    output type — is bound to that transaction. -/
theorem finalize_binds_all_keys (c : Cfg) (s s' : Store) (node : Nat) (t : Tx) (side : Side) (o : OutSpec) (k : Nat)
    (hok : exec c s (.snapshot node [t] side) = .ok s')
    (hfin : s.fin.get t.id = none) (hx : t.id ∉ c.exc)
    (ho : o ∈ t.outs) (hmat : o.typ ∉ c.kinds.skipped) (hk : k ∈ o.keys) :
    s'.ghost.get k = some t.id := by
  simp only [exec, writeSnapshot] at hok
  split at hok
  · cases hok
  · split at hok
    · unfold snapshotLoop at hok
      split at hok
      · next s1 h1 =>
        simp only [snapshotLoop, Res.ok.injEq] at hok
        subst hok
        unfold finalizeTransaction at h1
        rw [hfin] at h1
        simp only at h1
        split at h1
        · exact writeUTXOs_binds h1 hx o ho hmat k hk
        · cases h1
      · next hnot => exact absurd hok (hnot s')
    · cases hok

def txAllTypes : Tx :=
  { id := 6, ins := [.genesis], outs := [⟨163, [1]⟩, ⟨161, [2]⟩, ⟨166, [3, 4]⟩, ⟨177, [5]⟩, ⟨169, [6]⟩] }

example : okAnd (exec cfg0 sample (.snapshot 1 [txAllTypes] .ok))
    (fun s' => [1, 3, 4, 5, 6].all (fun k => s'.ghost.get k == some 6) && s'.ghost.get 2 == none
      && s'.utxo.get (6, 2) == some 0 && s'.utxo.get (6, 1) == none) = true := by decide

/-! ## a transaction that repeats a key among its own outputs is rejected -/

theorem scanKeys_some {valid : Nat → Bool} {ks seen seen' : List Nat} (h : scanKeys valid ks seen = some seen') :
    seen' = ks.reverse ++ seen ∧ ks.Nodup ∧ ∀ k ∈ ks, k ∉ seen := by
  induction ks generalizing seen with
  | nil => simp only [scanKeys, Option.some.injEq] at h; subst h; simp
  | cons k r ih =>
    unfold scanKeys at h
    split at h
    · cases h
    · next hk =>
      split at h
      · obtain ⟨e, nd, dj⟩ := ih h
        refine ⟨by rw [e]; simp, ?_, ?_⟩
        · rw [List.nodup_cons]
          exact ⟨fun hm => dj k hm List.mem_cons_self, nd⟩
        · intro x hx
          cases hx with
          | head => exact hk
          | tail _ hx' => exact fun hs => dj x hx' (List.mem_cons_of_mem _ hs)
      · cases h

theorem scanOuts_some {oc : OutCfg} {outs : List Out} {seen seen' : List Nat} (h : scanOuts oc outs seen = some seen') :
    (outs.flatMap (·.keys)).Nodup ∧ (∀ k ∈ outs.flatMap (·.keys), k ∉ seen) ∧
    seen' = (outs.flatMap (·.keys)).reverse ++ seen := by
  induction outs generalizing seen with
  | nil => simp only [scanOuts, Option.some.injEq] at h; subst h; simp
  | cons o os ih =>
    unfold scanOuts at h
    split at h
    · cases h
    · split at h
      · cases h
      · split at h
        · cases h
        · next s1 h1 =>
          split at h
          · obtain ⟨e1, nd1, dj1⟩ := scanKeys_some h1
            obtain ⟨nd2, dj2, e2⟩ := ih h
            subst e1
            refine ⟨?_, ?_, ?_⟩
            · simp only [List.flatMap_cons]
              rw [List.nodup_append]
              refine ⟨nd1, nd2, ?_⟩
              intro a ha b hb hab
              subst hab
              exact dj2 a hb (by simp [ha])
            · intro k hk
              simp only [List.flatMap_cons, List.mem_append] at hk
              rcases hk with hk | hk
              · exact dj1 k hk
              · exact fun hs => dj2 k hk (by simp [hs])
            · rw [e2]; simp [List.flatMap_cons]
          · cases h

/-- `in_tx_duplicate_rejected`: if some key occurs twice among the outputs of a transaction —
    inside one output or across outputs — `validateOutputs` rejects it, whatever the database,
    the amounts, the fork flag or the claimed hash, and nothing is written. -/
theorem in_tx_duplicate_rejected (exc : List Nat) (oc : OutCfg) (s : Store) (outs : List Out)
    (tx inputAmount : Nat) (fork : Bool) (hdup : ¬ (outs.flatMap (·.keys)).Nodup) :
    validateOutputs exc oc s outs tx inputAmount fork = .err := by
  unfold validateOutputs
  split
  · rfl
  · next seen h => exact absurd (scanOuts_some h).1 hdup

def oc0 : OutCfg := { limit := 256, kernelTypes := [161, 169, 163, 170, 164], keyValid := fun k => k < 900 }
def out0 (keys : List Nat) : Out :=
  { typ := 0, amount := 1, keys := keys, scriptOk := true, scriptEmpty := false, maskHas := true, maskValid := true, withdrawal := false }

example : validateOutputs [101] oc0 {} [out0 [1, 2], out0 [3, 1]] 6 2 false = .err := by decide
example : validateOutputs [101] oc0 {} [out0 [1, 1]] 6 1 true = .err := by decide
-- the same outputs without the repetition are accepted and bind their keys
example : okAnd (validateOutputs [101] oc0 {} [out0 [1, 2], out0 [3]] 6 2 false)
    (fun s' => s'.ghost.get 1 == some 6 && s'.ghost.get 3 == some 6) = true := by decide

/-- accepted outputs bind exactly through `LockGhostKeys`: everything of C04 about the durable
    lock (foreign keys rejected, bindings immutable) applies to `validateOutputs` as well. -/
theorem validateOutputs_foreign_rejected (exc : List Nat) (oc : OutCfg) (s : Store) (outs : List Out)
    (k t t' inputAmount : Nat) (fork : Bool)
    (hk : k ∈ outs.flatMap (·.keys)) (hg : s.ghost.get k = some t) (hne : t ≠ t')
    (hx : ¬ (fork = true ∧ t' ∈ exc)) :
    validateOutputs exc oc s outs t' inputAmount fork = .err := by
  unfold validateOutputs
  split
  · rfl
  · next seen h =>
    split
    · rfl
    · have e := (scanOuts_some h).2.2
      have hk' : k ∈ seen.reverse := by rw [e]; simpa using hk
      simp only [lockGhostKeys, lockGhostLoop_foreign hk' hg hne hx]

end Mixin.C04
