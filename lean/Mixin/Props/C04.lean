import Mixin.Model.Locks
namespace Mixin.C04
open Mixin.KV Mixin.Locks

theorem placeholder : True := trivial

end Mixin.C04
