import Mixin.Model.Locks
import Mixin.Proofs.KV
import Mixin.Proofs.Locks
import Mixin.Facts.ExpectedC04
/-!
# C04 — a one-time output key is bound to at most one transaction

`GHOST[k]` is the transaction an output key is bound to.  The theorems quantify over every
database and every list of atomic calls (admissions with or without the fork flag,
`WriteTransaction`, `WriteSnapshot`), i.e. every interleaving of concurrent callers.
-/
namespace Mixin.C04
open Mixin.KV Mixin.Locks

def cfg0 : Cfg := { exc := [101, 102, 103], nodes := [1, 2] }

/-- key 7 is bound to transaction 5, whose body is stored -/
def sample : Store := { ghost := [(7, 5)], tx := [(5, ()), (6, ())] }

def okAnd (r : Res) (p : Store → Bool) : Bool :=
  match r with
  | .ok s' => p s'
  | _ => false

theorem step_ghost_mono (c : Cfg) (s : Store) (op : Op) : GhostMono s (step c s op) := by
  unfold step
  split
  · next s' h => exact exec_ghost_mono h
  · exact fun _ _ h => h

/-- `ghost_binding_immutable`: once `GHOST[k] = v`, it is `v` after any further list of calls —
    fork flag, exceptions, finalizations and prunes included. -/
theorem ghost_binding_immutable (c : Cfg) (s : Store) (ops : List Op) (k v : Nat)
    (h : s.ghost.get k = some v) : (run c s ops).ghost.get k = some v := by
  unfold run
  induction ops generalizing s with
  | nil => exact h
  | cons op rest ih => exact ih (step c s op) (step_ghost_mono c s op k v h)

example : (run cfg0 sample [.lockGhostKeys [7] 101 true, .lockGhostKeys [7, 8] 6 true,
    .snapshot 1 [{ id := 6, ins := [.genesis], outs := [[7]] }]]).ghost.get 7 = some 5 := by decide

/-- `ghost_foreign_rejected`: a key list that contains a key bound to another transaction is
    refused and nothing changes — unless the call carries the fork flag *and* the requester is one
    of the hard-coded exceptions. -/
theorem ghost_foreign_rejected (c : Cfg) (s : Store) (keys : List Nat) (k t t' : Nat) (fork : Bool)
    (hk : k ∈ keys) (hg : s.ghost.get k = some t) (hne : t ≠ t') (hx : ¬ (fork = true ∧ t' ∈ c.exc)) :
    exec c s (.lockGhostKeys keys t' fork) = .err ∧ step c s (.lockGhostKeys keys t' fork) = s := by
  have h : exec c s (.lockGhostKeys keys t' fork) = .err := by
    simp only [exec, lockGhostKeys, lockGhostLoop_foreign hk hg hne hx]
  exact ⟨h, by simp [step, h]⟩

example : exec cfg0 sample (.lockGhostKeys [8, 7] 6 true) = .err := by decide
example : exec cfg0 sample (.lockGhostKeys [7] 101 false) = .err := by decide

/-- the exceptions: with the fork flag an exception transaction is accepted against a bound
    key, and the database — in particular the binding — is unchanged. -/
theorem ghost_exception_accepted_unchanged (c : Cfg) (s : Store) (k t t' : Nat)
    (hg : s.ghost.get k = some t) (h0 : t ≠ 0) (hx : t' ∈ c.exc) :
    exec c s (.lockGhostKeys [k] t' true) = .ok s := by
  simp [exec, lockGhostKeys, lockGhostLoop, lockGhostKey, hg, h0, hx]

example : exec cfg0 sample (.lockGhostKeys [7] 102 true) = .ok sample := by decide

/-- the storage-level duplicate filter: a key list with a repeated key is refused -/
theorem ghost_duplicate_rejected (c : Cfg) (s : Store) (pre mid post : List Nat) (k t : Nat) (fork : Bool) :
    exec c s (.lockGhostKeys (pre ++ k :: mid ++ k :: post) t fork) = .err := by
  simp only [exec, lockGhostKeys]
  suffices h : ∀ seen s, lockGhostLoop c.exc t fork (pre ++ k :: mid ++ k :: post) seen s = none by rw [h]
  induction pre with
  | nil =>
    intro seen s
    simp only [List.nil_append, List.cons_append]
    unfold lockGhostLoop
    split
    · rfl
    · split
      · rfl
      · exact lockGhostLoop_dup (k := k) (by simp) List.mem_cons_self
  | cons p ps ih =>
    intro seen s
    simp only [List.cons_append]
    unfold lockGhostLoop
    split
    · rfl
    · split
      · rfl
      · have := ih (p :: seen)
        simp only [List.cons_append, List.append_assoc] at this ⊢
        exact this _

example : exec cfg0 {} (.lockGhostKeys [1, 2, 1] 6 false) = .err := by decide

/-- `finalize_never_overwrites`: finalizing (`WriteSnapshot`) a transaction that is not yet
    finalized, is not an exception, and lists a key bound to another transaction does not
    succeed; with `ghost_binding_immutable` the binding stays whatever the outcome. -/
theorem finalize_never_overwrites (c : Cfg) (s : Store) (node : Nat) (t' : Tx) (ks : List Nat) (k t : Nat)
    (hks : ks ∈ t'.outs) (hk : k ∈ ks) (hg : s.ghost.get k = some t) (hne : t ≠ t'.id)
    (hx : t'.id ∉ c.exc) (hfin : s.fin.get t'.id = none) :
    (∀ s', exec c s (.snapshot node [t']) ≠ .ok s') ∧ step c s (.snapshot node [t']) = s := by
  have hf : finalizeTransaction c.exc s t' = none := by
    unfold finalizeTransaction
    rw [hfin]
    exact writeUTXOs_foreign hks hk (by simpa using hg) hne hx
  have h : ∀ s', exec c s (.snapshot node [t']) ≠ .ok s' := by
    intro s' he
    simp only [exec, writeSnapshot, snapshotLoop, hf] at he
    split at he
    · cases he
    · split at he <;> cases he
  refine ⟨h, ?_⟩
  unfold step
  split
  · next s' he => exact absurd he (h s')
  · rfl

example : exec cfg0 sample (.snapshot 1 [{ id := 6, ins := [.genesis], outs := [[8], [7]] }]) = .err := by decide
-- and the same transaction is finalized when its keys are free or its own
example : okAnd (exec cfg0 sample (.snapshot 1 [{ id := 5, ins := [.genesis], outs := [[8], [7]] }]))
    (fun s' => s'.ghost.get 7 == some 5 && s'.ghost.get 8 == some 5 && s'.utxo.get (5, 1) == some 0) = true := by
  decide

end Mixin.C04
