import Mixin.Model.NodeStore
import Mixin.Facts.Generated
/-!
# C27 — membership follows the pledge / accept / cancel / remove lifecycle

Theorems about `Mixin.Model.NodeStore` (model of `storage/badger_node.go`). The timestamp
discipline the proofs need is the explicit hypothesis `Fresh`: the operation's timestamp is
positive, larger than every recorded timestamp, and `ts + 12 h` does not wrap in `uint64`.
For consensus operations this is what C28 provides (`Mixin.C28`: every recorded consensus
operation has a strictly later snapshot timestamp than the previous one). Outside `Fresh` the
statements are false of the code (see the `…_outside_discipline` examples at the end); the
harness explores that region on the real store and reports it as an observation.
-/
namespace Mixin.C27
open Mixin.NodeStore

/-- the timestamp discipline -/
def Fresh (c : Cfg) (s : Store) (ts : Nat) : Prop :=
  0 < ts ∧ (∀ r ∈ s, 0 < r.ts ∧ r.ts < ts) ∧ ts + c.pledgePeriod < u64 ∧ ts + c.acceptPeriod < u64

/-! ## list lemmas -/

theorem put_fresh (s : Store) (r : Rec) (h : ∀ x ∈ s, x.ts < r.ts) : put s r = s ++ [r] := by
  induction s with
  | nil => rfl
  | cons x xs ih =>
    have hx : x.ts < r.ts := h x (by simp)
    have h1 : sameKey x r = false := by
      simp only [sameKey, Bool.and_eq_false_imp, beq_iff_eq]; intro h; omega
    have h2 : keyLt r x = false := by
      simp only [keyLt, Bool.or_eq_false_iff, decide_eq_false_iff_not, Bool.and_eq_false_imp, beq_iff_eq]
      constructor
      · omega
      · intro h; omega
    simp only [put, h1, h2, Bool.false_eq_true, if_false, List.cons_append]
    rw [ih (fun y hy => h y (by simp [hy]))]

theorem readAll_fresh (s : Store) (thr : Nat) (ws : Bool) (h : ∀ r ∈ s, 0 < r.ts ∧ r.ts ≤ thr) :
    readAll s thr ws = some (if ws then s else dedup s) := by
  have h0 : s.any (fun r => r.ts == 0) = false := by
    rw [List.any_eq_false]; intro r hr; have := (h r hr).1; simp; omega
  have hf : s.filter (fun r => decide (r.ts ≤ thr)) = s := by
    rw [List.filter_eq_self]; intro r hr; simpa using (h r hr).2
  simp [readAll, h0, hf]

theorem dedup_sub (l : List Rec) : ∀ r ∈ dedup l, r ∈ l := by
  induction l with
  | nil => simp [dedup]
  | cons a rest ih =>
    intro r hr
    simp only [dedup] at hr
    split at hr
    · exact List.mem_cons_of_mem _ (ih r hr)
    · rcases List.mem_cons.mp hr with h | h
      · simp [h]
      · exact List.mem_cons_of_mem _ (ih r h)

theorem dedup_cover (l : List Rec) : ∀ x ∈ l, ∃ y ∈ dedup l, y.signer = x.signer := by
  induction l with
  | nil => simp
  | cons a rest ih =>
    intro x hx
    simp only [dedup]
    rcases List.mem_cons.mp hx with h | h
    · subst h
      split
      · next hany =>
        obtain ⟨z, hz, hzs⟩ := List.any_eq_true.mp hany
        obtain ⟨y, hy, hys⟩ := ih z hz
        exact ⟨y, hy, by rw [hys]; simpa using hzs⟩
      · exact ⟨x, by simp, rfl⟩
    · obtain ⟨y, hy, hys⟩ := ih x h
      split
      · exact ⟨y, hy, hys⟩
      · exact ⟨y, List.mem_cons_of_mem _ hy, hys⟩

theorem dedup_append_one (l : List Rec) (r : Rec) :
    dedup (l ++ [r]) = (dedup l).filter (fun x => x.signer != r.signer) ++ [r] := by
  induction l with
  | nil => simp [dedup]
  | cons a rest ih =>
    simp only [List.cons_append, dedup, List.any_append, List.any_cons, List.any_nil, Bool.or_false]
    by_cases hs : r.signer = a.signer
    · have h1 : (r.signer == a.signer) = true := by simp [hs]
      simp only [h1, Bool.or_true, if_true, ih]
      split
      · rfl
      · simp [List.filter_cons, hs]
    · have h1 : (r.signer == a.signer) = false := by simp [hs]
      have h2 : (a.signer != r.signer) = true := by simp; exact fun h => hs h.symm
      simp only [h1, Bool.or_false]
      split
      · exact ih
      · simp [List.filter_cons, h2, ih]

theorem lastOf_none_iff (k : Nat) (l : List Rec) : lastOf k l = none ↔ ∀ x ∈ l, x.signer ≠ k := by
  induction l with
  | nil => simp [lastOf]
  | cons a rest ih =>
    simp only [lastOf]
    cases hl : lastOf k rest with
    | some x =>
      simp only [reduceCtorEq, false_iff]
      intro h
      have := ih.mpr (fun y hy => h y (List.mem_cons_of_mem _ hy))
      rw [hl] at this; exact absurd this (by simp)
    | none =>
      have hr := ih.mp hl
      by_cases ha : a.signer = k
      · simp [ha]
      · simp only [beq_iff_eq, ha, if_false, true_iff]
        intro x hx
        rcases List.mem_cons.mp hx with h | h
        · rw [h]; exact ha
        · exact hr x h

theorem lastOf_some_mem (k : Nat) (l : List Rec) (r : Rec) (h : lastOf k l = some r) :
    r ∈ l ∧ r.signer = k := by
  induction l with
  | nil => simp [lastOf] at h
  | cons a rest ih =>
    simp only [lastOf] at h
    cases hl : lastOf k rest with
    | some x =>
      simp only [hl, Option.some.injEq] at h
      subst h
      exact ⟨List.mem_cons_of_mem _ (ih hl).1, (ih hl).2⟩
    | none =>
      simp only [hl] at h
      split at h
      · next ha => simp only [Option.some.injEq] at h; subst h; exact ⟨by simp, by simpa using ha⟩
      · exact absurd h (by simp)

/-- the de-duplicated list holds exactly the last record of every signer -/
theorem mem_dedup_iff (l : List Rec) (r : Rec) : r ∈ dedup l ↔ lastOf r.signer l = some r := by
  induction l with
  | nil => simp [dedup, lastOf]
  | cons a rest ih =>
    simp only [dedup, lastOf]
    cases hl : lastOf r.signer rest with
    | some x =>
      have hx := lastOf_some_mem _ _ _ hl
      split
      · rw [ih, hl]
      · next hany =>
        rw [List.mem_cons, ih, hl]
        constructor
        · rintro (h | h)
          · exfalso; apply hany
            exact List.any_eq_true.mpr ⟨x, hx.1, by simp [hx.2, h]⟩
          · exact h
        · exact Or.inr
    | none =>
      have hn := (lastOf_none_iff _ _).mp hl
      split
      · next hany =>
        obtain ⟨z, hz, hzs⟩ := List.any_eq_true.mp hany
        rw [ih, hl]
        simp only [reduceCtorEq, false_iff]
        split
        · next ha =>
          exfalso; apply hn z hz
          have h1 : z.signer = a.signer := by simpa using hzs
          have h2 : a.signer = r.signer := by simpa using ha
          rw [h1, h2]
        · simp
      · rw [List.mem_cons, ih, hl]
        constructor
        · rintro (h | h)
          · subst h; simp
          · exact absurd h (by simp)
        
        · intro h
          by_cases ha : a.signer = r.signer
          · left; simp only [ha, beq_self_eq_true, if_true, Option.some.injEq] at h; exact h.symm
          · simp [ha] at h

/-! ## the writers inside the discipline -/

def mk (o : Op) (st : NState) : Rec := ⟨o.ts, o.signer, o.payee, o.tx, st⟩

theorem offset_fresh (ts p : Nat) (h : ts + p < u64) : offset ts p = ts + p := by
  unfold offset; exact Nat.mod_eq_of_lt h

theorem writePledge_fresh (c : Cfg) (s : Store) (k p t ts : Nat) (hf : Fresh c s ts) :
    writePledge c s k p t ts =
      if !((dedup s).all (fun n => isSettled n.state)) then .reject
      else if (dedup s).any (fun n => n.signer == k || n.tx == t) then .reject
      else .ok (s ++ [⟨ts, k, p, t, .pledging⟩]) := by
  obtain ⟨_, hs, hp, _⟩ := hf
  unfold writePledge
  rw [offset_fresh _ _ hp, readAll_fresh s _ false (fun r hr => ⟨(hs r hr).1, by have := (hs r hr).2; omega⟩)]
  simp only [Bool.false_eq_true, if_false]
  rw [put_fresh s _ (fun x hx => (hs x hx).2)]

theorem pledgingGuard_fresh (c : Cfg) (s : Store) (k p ts : Nat) (hf : Fresh c s ts) :
    pledgingGuard c s k p ts = pledgingGuardOn s k p := by
  obtain ⟨_, hs, _, ha⟩ := hf
  unfold pledgingGuard
  rw [offset_fresh _ _ ha, readAll_fresh s _ true (fun r hr => ⟨(hs r hr).1, by have := (hs r hr).2; omega⟩)]
  simp

theorem writeRemove_fresh (c : Cfg) (s : Store) (k p t ts : Nat) (hf : Fresh c s ts) :
    writeRemove c s k p t ts = removeOn s k p (s ++ [⟨ts, k, p, t, .removed⟩]) := by
  obtain ⟨_, hs, _, ha⟩ := hf
  unfold writeRemove
  rw [offset_fresh _ _ ha, readAll_fresh s _ true (fun r hr => ⟨(hs r hr).1, by have := (hs r hr).2; omega⟩)]
  simp only [if_true]
  rw [put_fresh s _ (fun x hx => (hs x hx).2)]

/-! ## what an accepted operation established (guards) -/

/-- **pledge_only_when_none_pending** and **pledge_new_signer_only.** An accepted pledge:
    no node's latest state is pledging; the signer key occurs in no record of the history, in
    any state; the transaction is not the latest transaction of any node; exactly one record
    is appended. -/
theorem pledge_accepted (c : Cfg) (s s' : Store) (k p t ts : Nat) (hf : Fresh c s ts)
    (h : writePledge c s k p t ts = .ok s') :
    (∀ r ∈ dedup s, r.state ≠ .pledging) ∧ (∀ r ∈ s, r.signer ≠ k) ∧ (∀ r ∈ dedup s, r.tx ≠ t) ∧
      s' = s ++ [⟨ts, k, p, t, .pledging⟩] := by
  rw [writePledge_fresh c s k p t ts hf] at h
  split at h
  · exact absurd h (by simp)
  · next h1 =>
    split at h
    · exact absurd h (by simp)
    · next h2 =>
      have h1' : ∀ r ∈ dedup s, isSettled r.state = true := by simpa using h1
      have h2' : ∀ r ∈ dedup s, ¬ (r.signer = k ∨ r.tx = t) := by simpa using h2
      refine ⟨?_, ?_, ?_, ?_⟩
      · intro r hr hp; have := h1' r hr; rw [hp] at this; simp [isSettled] at this
      · intro r hr hk
        obtain ⟨y, hy, hys⟩ := dedup_cover s r hr
        exact h2' y hy (Or.inl (by rw [hys, hk]))
      · intro r hr ht; exact h2' r hr (Or.inr ht)
      · simpa using h.symm

theorem pledge_only_when_none_pending (c : Cfg) (s s' : Store) (k p t ts : Nat) (hf : Fresh c s ts)
    (h : writePledge c s k p t ts = .ok s') : ∀ r ∈ dedup s, r.state ≠ .pledging :=
  (pledge_accepted c s s' k p t ts hf h).1

theorem pledge_new_signer_only (c : Cfg) (s s' : Store) (k p t ts : Nat) (hf : Fresh c s ts)
    (h : writePledge c s k p t ts = .ok s') : (∀ r ∈ s, r.signer ≠ k) ∧ (∀ r ∈ dedup s, r.tx ≠ t) :=
  ⟨(pledge_accepted c s s' k p t ts hf h).2.1, (pledge_accepted c s s' k p t ts hf h).2.2.1⟩

theorem guard_true (s : Store) (k p : Nat) (h : pledgingGuardOn s k p = some true) :
    ∃ last, s.getLast? = some last ∧ last.state = .pledging ∧ last.signer = k ∧ last.payee = p := by
  unfold pledgingGuardOn at h
  cases hl : s.getLast? with
  | none => simp [hl] at h
  | some last =>
    simp only [hl] at h
    split at h
    · exact absurd h (by simp)
    · next h1 =>
      split at h
      · exact absurd h (by simp)
      · next h2 =>
        refine ⟨last, rfl, by simpa using h1, ?_, ?_⟩
        · have : ¬ (last.signer ≠ k ∨ last.payee ≠ p) := by simpa using h2
          omega
        · have : ¬ (last.signer ≠ k ∨ last.payee ≠ p) := by simpa using h2
          omega

/-- **accept_cancel_only_current_pledging.** An accepted (non-genesis) accept or cancel: the
    most recent record of the history is a pledge of exactly this signer with exactly this
    payee; one record is appended. (`lifecycle_invariant` adds that this is the only node
    whose latest state is pledging.) -/
theorem accept_accepted (c : Cfg) (s s' : Store) (k p t ts : Nat) (hf : Fresh c s ts)
    (h : writeAccept c s k p t ts false = .ok s') :
    (∃ last, s.getLast? = some last ∧ last.state = .pledging ∧ last.signer = k ∧ last.payee = p) ∧
      s' = s ++ [⟨ts, k, p, t, .accepted⟩] := by
  unfold writeAccept at h
  simp only [Bool.false_eq_true, if_false] at h
  rw [pledgingGuard_fresh c s k p ts hf] at h
  cases hg : pledgingGuardOn s k p with
  | none => simp [hg] at h
  | some b =>
    cases b with
    | false => simp [hg] at h
    | true =>
      simp only [hg, Outcome.ok.injEq] at h
      rw [put_fresh s _ (fun x hx => (hf.2.1 x hx).2)] at h
      exact ⟨guard_true s k p hg, h.symm⟩

theorem cancel_accepted (c : Cfg) (s s' : Store) (k p t ts : Nat) (hf : Fresh c s ts)
    (h : writeCancel c s k p t ts = .ok s') :
    (∃ last, s.getLast? = some last ∧ last.state = .pledging ∧ last.signer = k ∧ last.payee = p) ∧
      s' = s ++ [⟨ts, k, p, t, .cancelled⟩] := by
  unfold writeCancel at h
  rw [pledgingGuard_fresh c s k p ts hf] at h
  cases hg : pledgingGuardOn s k p with
  | none => simp [hg] at h
  | some b =>
    cases b with
    | false => simp [hg] at h
    | true =>
      simp only [hg, Outcome.ok.injEq] at h
      rw [put_fresh s _ (fun x hx => (hf.2.1 x hx).2)] at h
      exact ⟨guard_true s k p hg, h.symm⟩

theorem accept_cancel_only_current_pledging (c : Cfg) (s s' : Store) (k p t ts : Nat)
    (hf : Fresh c s ts)
    (h : writeAccept c s k p t ts false = .ok s' ∨ writeCancel c s k p t ts = .ok s') :
    ∃ last, s.getLast? = some last ∧ last.state = .pledging ∧ last.signer = k ∧ last.payee = p := by
  rcases h with h | h
  · exact (accept_accepted c s s' k p t ts hf h).1
  · exact (cancel_accepted c s s' k p t ts hf h).1

/-- **remove_only_accepted_matching.** An accepted remove: the latest record of this signer
    exists, is `accepted` and has exactly this payee; moreover the most recent record of the
    whole history is not a pledge; one record is appended. -/
theorem remove_accepted (c : Cfg) (s s' : Store) (k p t ts : Nat) (hf : Fresh c s ts)
    (h : writeRemove c s k p t ts = .ok s') :
    (∃ node, lastOf k s = some node ∧ node.state = .accepted ∧ node.payee = p) ∧
      (∃ last, s.getLast? = some last ∧ isSettled last.state = true) ∧
      s' = s ++ [⟨ts, k, p, t, .removed⟩] := by
  rw [writeRemove_fresh c s k p t ts hf] at h
  unfold removeOn at h
  cases hl : s.getLast? with
  | none => simp [hl] at h
  | some last =>
    simp only [hl] at h
    split at h
    · exact absurd h (by simp)
    · next h1 =>
      cases hn : lastOf k s with
      | none => simp [hn] at h
      | some node =>
        simp only [hn] at h
        split at h
        · exact absurd h (by simp)
        · next h2 =>
          split at h
          · exact absurd h (by simp)
          · next h3 =>
            refine ⟨⟨node, rfl, by simpa using h3, by simpa using h2⟩, ⟨last, rfl, by simpa using h1⟩, ?_⟩
            simpa using h.symm

theorem remove_only_accepted_matching (c : Cfg) (s s' : Store) (k p t ts : Nat) (hf : Fresh c s ts)
    (h : writeRemove c s k p t ts = .ok s') :
    ∃ node, lastOf k s = some node ∧ node.state = .accepted ∧ node.payee = p :=
  (remove_accepted c s s' k p t ts hf h).1

/-- **rejected_op_no_write.** Whatever the timestamps: an operation that is not accepted
    (error or panic) leaves the history as it was. -/
theorem rejected_op_no_write (c : Cfg) (s : Store) (o : Op) (h : ∀ s', write c s o ≠ .ok s') :
    step c s o = s := by
  unfold step
  cases hw : write c s o with
  | ok s' => exact absurd hw (h s')
  | reject => rfl
  | panic => rfl

/-- **latest_state_reported.** Whatever the history: `ReadAllNodes(threshold, false)` returns
    exactly, for every signer, the last record (in key order, i.e. the one with the largest
    timestamp) among that signer's records visible at the threshold. -/
theorem latest_state_reported (s : Store) (thr : Nat) (out : List Rec)
    (h : readAll s thr false = some out) (r : Rec) :
    r ∈ out ↔ lastOf r.signer (s.filter (fun x => decide (x.ts ≤ thr))) = some r := by
  unfold readAll at h
  split at h
  · exact absurd h (by simp)
  · simp only [Bool.false_eq_true, if_false, Option.some.injEq] at h
    rw [← h]; exact mem_dedup_iff _ r

/-! ## the lifecycle invariant over every operation sequence -/

/-- the states recorded for signer `k`, in history order -/
def hist (s : Store) (k : Nat) : List NState := (s.filter (fun r => r.signer == k)).map (·.state)

/-- the lifecycles a signer key can have: a genesis node (accepted first) or a pledged node -/
def allowed : List (List NState) :=
  [[], [.accepted], [.accepted, .removed], [.pledging], [.pledging, .accepted],
   [.pledging, .cancelled], [.pledging, .accepted, .removed]]

structure Inv (s : Store) : Prop where
  pos : ∀ r ∈ s, 0 < r.ts
  life : ∀ k, hist s k ∈ allowed
  pendingLast : ∀ r ∈ dedup s, r.state = .pledging → s.getLast? = some r

theorem hist_append (s : Store) (r : Rec) (k : Nat) :
    hist (s ++ [r]) k = hist s k ++ (if r.signer == k then [r.state] else []) := by
  unfold hist
  rw [List.filter_append, List.map_append]
  by_cases h : (r.signer == k) = true <;> simp [List.filter_cons, h]

theorem hist_nil_of_absent (s : Store) (k : Nat) (h : ∀ r ∈ s, r.signer ≠ k) : hist s k = [] := by
  unfold hist
  rw [List.map_eq_nil_iff, List.filter_eq_nil_iff]
  intro r hr; simpa using h r hr

theorem hist_last_of_getLast (s : Store) (l : Rec) (h : s.getLast? = some l) :
    (hist s l.signer).getLast? = some l.state := by
  obtain ⟨ys, rfl⟩ := List.getLast?_eq_some_iff.mp h
  rw [hist_append]; simp

theorem hist_last_of_lastOf (s : Store) (k : Nat) (n : Rec) (h : lastOf k s = some n) :
    (hist s k).getLast? = some n.state := by
  induction s with
  | nil => simp [lastOf] at h
  | cons a rest ih =>
    have hcons : hist (a :: rest) k = (if a.signer == k then [a.state] else []) ++ hist rest k := by
      unfold hist
      by_cases ha : (a.signer == k) = true <;> simp [List.filter_cons, ha]
    simp only [lastOf] at h
    cases hl : lastOf k rest with
    | some x =>
      simp only [hl, Option.some.injEq] at h
      subst h
      have := ih hl
      rw [hcons, List.getLast?_append, this]; rfl
    | none =>
      simp only [hl] at h
      have hnil : hist rest k = [] := hist_nil_of_absent rest k ((lastOf_none_iff k rest).mp hl)
      by_cases ha : (a.signer == k) = true
      · simp only [ha, if_true, Option.some.injEq] at h
        subst h
        rw [hcons, hnil]; simp [ha]
      · simp [ha] at h

theorem allowed_last_pledging (h : List NState) (hm : h ∈ allowed)
    (hl : h.getLast? = some .pledging) : h = [.pledging] := by
  simp only [allowed, List.mem_cons, List.not_mem_nil, or_false] at hm
  rcases hm with rfl | rfl | rfl | rfl | rfl | rfl | rfl <;> simp_all

theorem allowed_last_accepted (h : List NState) (hm : h ∈ allowed)
    (hl : h.getLast? = some .accepted) : h = [.accepted] ∨ h = [.pledging, .accepted] := by
  simp only [allowed, List.mem_cons, List.not_mem_nil, or_false] at hm
  rcases hm with rfl | rfl | rfl | rfl | rfl | rfl | rfl <;> simp_all

/-- appending one record keeps the invariant when (a) the signer's lifecycle stays allowed and
    (b) no *other* node is left pending behind a non-pledging record -/
theorem inv_append (s : Store) (r : Rec) (hi : Inv s) (hpos : 0 < r.ts)
    (hlife : hist s r.signer ++ [r.state] ∈ allowed)
    (hpend : ∀ x ∈ dedup s, x.signer ≠ r.signer → x.state ≠ .pledging) : Inv (s ++ [r]) := by
  constructor
  · intro x hx
    rcases List.mem_append.mp hx with h | h
    · exact hi.pos x h
    · simp only [List.mem_singleton] at h; rw [h]; exact hpos
  · intro k
    rw [hist_append]
    by_cases hk : r.signer = k
    · subst hk; simpa using hlife
    · have : (r.signer == k) = false := by simp [hk]
      simp only [this, Bool.false_eq_true, if_false, List.append_nil]; exact hi.life k
  · intro x hx hp
    rw [dedup_append_one] at hx
    rcases List.mem_append.mp hx with h | h
    · rw [List.mem_filter] at h
      exact absurd hp (hpend x h.1 (by simpa using h.2))
    · simp only [List.mem_singleton] at h; subst h; simp

def stateOf : OpKind → NState
  | .pledge => .pledging
  | .accept => .accepted
  | .genesis => .accepted
  | .cancel => .cancelled
  | .remove => .removed

/-- **the lifecycle step.** Inside the timestamp discipline every accepted non-genesis
    operation keeps the invariant and appends exactly its own record. -/
theorem step_inv (c : Cfg) (s s' : Store) (o : Op) (hi : Inv s) (hf : Fresh c s o.ts)
    (hg : o.kind ≠ .genesis) (h : write c s o = .ok s') :
    Inv s' ∧ s' = s ++ [⟨o.ts, o.signer, o.payee, o.tx, stateOf o.kind⟩] := by
  unfold write at h
  cases hk : o.kind with
  | genesis => exact absurd hk hg
  | pledge =>
    simp only [hk] at h
    obtain ⟨h1, h2, _, h4⟩ := pledge_accepted c s s' _ _ _ _ hf h
    refine ⟨?_, h4⟩
    rw [h4]
    apply inv_append s _ hi hf.1
    · rw [hist_nil_of_absent s o.signer h2]; simp [allowed]
    · intro x hx _; exact h1 x hx
  | accept =>
    simp only [hk] at h
    obtain ⟨⟨l, hl, hls, hlk, _⟩, h4⟩ := accept_accepted c s s' _ _ _ _ hf h
    refine ⟨?_, h4⟩
    rw [h4]
    apply inv_append s _ hi hf.1
    · have := hist_last_of_getLast s l hl
      rw [hlk, hls] at this
      rw [allowed_last_pledging _ (hi.life o.signer) this]; simp [allowed]
    · intro x hx hne hp
      have := hi.pendingLast x hx hp
      rw [hl] at this; simp only [Option.some.injEq] at this
      exact hne (by rw [← this]; exact hlk)
  | cancel =>
    simp only [hk] at h
    obtain ⟨⟨l, hl, hls, hlk, _⟩, h4⟩ := cancel_accepted c s s' _ _ _ _ hf h
    refine ⟨?_, h4⟩
    rw [h4]
    apply inv_append s _ hi hf.1
    · have := hist_last_of_getLast s l hl
      rw [hlk, hls] at this
      rw [allowed_last_pledging _ (hi.life o.signer) this]; simp [allowed]
    · intro x hx hne hp
      have := hi.pendingLast x hx hp
      rw [hl] at this; simp only [Option.some.injEq] at this
      exact hne (by rw [← this]; exact hlk)
  | remove =>
    simp only [hk] at h
    obtain ⟨⟨n, hn, hns, _⟩, ⟨l, hl, hls⟩, h4⟩ := remove_accepted c s s' _ _ _ _ hf h
    refine ⟨?_, h4⟩
    rw [h4]
    apply inv_append s _ hi hf.1
    · have := hist_last_of_lastOf s o.signer n hn
      rw [hns] at this
      rcases allowed_last_accepted _ (hi.life o.signer) this with h | h <;> rw [h] <;> simp [allowed]
    · intro x hx _ hp
      have := hi.pendingLast x hx hp
      rw [hl] at this; simp only [Option.some.injEq] at this
      rw [this, hp] at hls; simp [isSettled] at hls

/-- the base case: the genesis file — accepted nodes with distinct signer keys -/
def GenesisStore (g : Store) : Prop :=
  (∀ r ∈ g, r.state = .accepted ∧ 0 < r.ts) ∧ (g.map (·.signer)).Nodup

theorem hist_cons (a : Rec) (rest : Store) (k : Nat) :
    hist (a :: rest) k = (if a.signer == k then [a.state] else []) ++ hist rest k := by
  unfold hist
  by_cases ha : (a.signer == k) = true <;> simp [List.filter_cons, ha]

theorem genesis_hist (g : Store) (k : Nat) (h1 : ∀ r ∈ g, r.state = .accepted)
    (h2 : (g.map (·.signer)).Nodup) : hist g k = [] ∨ hist g k = [.accepted] := by
  induction g with
  | nil => left; rfl
  | cons a rest ih =>
    rw [List.map_cons, List.nodup_cons] at h2
    rw [hist_cons]
    by_cases ha : a.signer = k
    · right
      have hn : hist rest k = [] := by
        apply hist_nil_of_absent
        intro r hr hk
        exact h2.1 (List.mem_map.mpr ⟨r, hr, by rw [hk, ha]⟩)
      have hs : a.state = .accepted := h1 a (by simp)
      simp [ha, hn, hs]
    · have : (a.signer == k) = false := by simp [ha]
      simp only [this, Bool.false_eq_true, if_false, List.nil_append]
      exact ih (fun r hr => h1 r (List.mem_cons_of_mem _ hr)) h2.2

theorem genesis_inv (g : Store) (hg : GenesisStore g) : Inv g := by
  obtain ⟨h1, h2⟩ := hg
  constructor
  · intro r hr; exact (h1 r hr).2
  · intro k
    rcases genesis_hist g k (fun r hr => (h1 r hr).1) h2 with h | h <;> rw [h] <;> simp [allowed]
  · intro r hr hp
    have := (h1 r (dedup_sub g r hr)).1
    rw [this] at hp; exact absurd hp (by simp)

/-- an operation sequence inside the discipline: no genesis writes, and every operation that
    the store accepts carries a timestamp fresh for the history it is applied to (rejected
    operations may carry any timestamp) -/
def Disciplined (c : Cfg) : Store → List Op → Prop
  | _, [] => True
  | s, o :: rest =>
    o.kind ≠ .genesis ∧ (∀ s', write c s o = .ok s' → Fresh c s o.ts) ∧ Disciplined c (step c s o) rest

/-- **lifecycle_invariant.** From the genesis nodes, over every operation sequence inside the
    timestamp discipline — valid and invalid operations mixed — the history keeps the
    invariant. -/
theorem lifecycle_invariant (c : Cfg) (s : Store) (ops : List Op) (hi : Inv s)
    (hd : Disciplined c s ops) : Inv (run c s ops) := by
  induction ops generalizing s with
  | nil => exact hi
  | cons o rest ih =>
    obtain ⟨hg, hfr, hrest⟩ := hd
    unfold run; rw [List.foldl_cons]
    apply ih _ _ hrest
    unfold step
    cases hw : write c s o with
    | ok s' => exact (step_inv c s s' o hi (hfr s' hw) hg hw).1
    | reject => exact hi
    | panic => exact hi

theorem reachable_inv (c : Cfg) (g : Store) (ops : List Op) (hg : GenesisStore g)
    (hd : Disciplined c g ops) : Inv (run c g ops) :=
  lifecycle_invariant c g ops (genesis_inv g hg) hd

/-- **signer_keys_unique.** In every reachable history each signer key has one of the seven
    lifecycles: it is born at most once (one genesis accept or one pledge), so signer keys
    never repeat across nodes; a pledge is followed only by its accept or cancel, an accept
    only by its remove. -/
theorem signer_keys_unique (c : Cfg) (g : Store) (ops : List Op) (hg : GenesisStore g)
    (hd : Disciplined c g ops) (k : Nat) :
    hist (run c g ops) k ∈ allowed ∧ (hist (run c g ops) k).count .pledging ≤ 1 ∧
      ((hist (run c g ops) k).drop 1).all (· != .pledging) = true := by
  have hm := (reachable_inv c g ops hg hd).life k
  refine ⟨hm, ?_, ?_⟩
  all_goals
    simp only [allowed, List.mem_cons, List.not_mem_nil, or_false] at hm
    rcases hm with h | h | h | h | h | h | h <;> rw [h] <;> decide

/-- **at_most_one_pending.** In every reachable history at most one node's latest state is
    pledging, and it is the most recent record. -/
theorem at_most_one_pending (c : Cfg) (g : Store) (ops : List Op) (hg : GenesisStore g)
    (hd : Disciplined c g ops) (r1 r2 : Rec)
    (h1 : r1 ∈ dedup (run c g ops)) (h2 : r2 ∈ dedup (run c g ops))
    (p1 : r1.state = .pledging) (p2 : r2.state = .pledging) :
    r1 = r2 ∧ (run c g ops).getLast? = some r1 := by
  have hi := reachable_inv c g ops hg hd
  have a := hi.pendingLast r1 h1 p1
  have b := hi.pendingLast r2 h2 p2
  rw [a] at b; simp only [Option.some.injEq] at b
  exact ⟨b, a⟩

/-! ## non-vacuity and the boundary of the discipline -/

def cfg12h : Cfg := ⟨43200000000000, 43200000000000⟩

/-- the regenerated constants are the periods used in the examples -/
example : cfg12h = ⟨Mixin.Facts.Gen.config_KernelNodePledgePeriodMinimum,
    Mixin.Facts.Gen.config_KernelNodeAcceptPeriodMinimum⟩ := rfl

/-- the four state strings written by the storage layer are pairwise distinct -/
theorem state_strings_distinct :
    [Mixin.Facts.Gen.common_NodeStatePledging, Mixin.Facts.Gen.common_NodeStateAccepted,
     Mixin.Facts.Gen.common_NodeStateRemoved, Mixin.Facts.Gen.common_NodeStateCancelled].Nodup := by
  decide

def g2 : Store := [⟨100, 1, 11, 21, .accepted⟩, ⟨100, 2, 12, 22, .accepted⟩]

example : GenesisStore g2 := by
  constructor
  · intro r hr; simp [g2] at hr; rcases hr with rfl | rfl <;> simp
  · decide

/-- `opsOk` below is inside the discipline from `g2` -/
example : Fresh cfg12h g2 200 := by
  refine ⟨by decide, ?_, by decide, by decide⟩
  intro r hr; simp [g2] at hr; rcases hr with rfl | rfl <;> simp

def opsOk : List Op :=
  [⟨.pledge, 3, 13, 23, 200⟩, ⟨.pledge, 4, 14, 24, 300⟩, ⟨.accept, 3, 14, 25, 400⟩,
   ⟨.accept, 3, 13, 26, 500⟩, ⟨.remove, 1, 11, 27, 600⟩, ⟨.pledge, 1, 11, 28, 700⟩,
   ⟨.pledge, 5, 15, 29, 800⟩, ⟨.cancel, 5, 15, 30, 900⟩, ⟨.pledge, 5, 15, 31, 1000⟩]

/-- a mixed sequence: the lifecycle runs, the invalid operations are rejected -/
example : (run cfg12h g2 opsOk).map (fun r => (r.signer, r.state)) =
    [(1, .accepted), (2, .accepted), (3, .pledging), (3, .accepted), (1, .removed),
     (5, .pledging), (5, .cancelled)] := by decide

/-- outside the discipline the statement fails in the model (and on the real store, see the
    harness corpus): a pledge dated more than 12 h before a pending pledge does not see it -/
theorem pledge_while_pending_outside_discipline :
    ∃ s', writePledge cfg12h [⟨100, 1, 11, 21, .accepted⟩, ⟨100000000000000, 2, 12, 22, .pledging⟩]
        3 13 23 50000000000000 = .ok s' ∧
      (s'.filter (fun r => r.state == .pledging)).length = 2 := by
  refine ⟨_, rfl, ?_⟩; decide

end Mixin.C27
