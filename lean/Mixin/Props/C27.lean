import Mixin.Model.NodeStore
import Mixin.Facts.Generated
/-!
# C27 — membership follows the pledge / accept / cancel / remove lifecycle

Theorems about `Mixin.Model.NodeStore` (model of `storage/badger_node.go`). The timestamp
discipline the proofs need is the explicit hypothesis `Fresh`: the operation's timestamp is
positive, larger than every recorded timestamp, and `ts + 12 h` does not wrap in `uint64`.
For consensus operations this is what C28 provides (`Mixin.C28`: every recorded consensus
operation has a strictly later snapshot timestamp than the previous one). Outside `Fresh` the
statements are false of the code (see the `…_outside_discipline` examples at the end); the
harness explores that region on the real store and reports it as an observation.
-/
namespace Mixin.C27
open Mixin.NodeStore

/-- the timestamp discipline -/
def Fresh (c : Cfg) (s : Store) (ts : Nat) : Prop :=
  0 < ts ∧ (∀ r ∈ s, 0 < r.ts ∧ r.ts < ts) ∧ ts + c.pledgePeriod < u64 ∧ ts + c.acceptPeriod < u64

/-! ## list lemmas -/

theorem put_fresh (s : Store) (r : Rec) (h : ∀ x ∈ s, x.ts < r.ts) : put s r = s ++ [r] := by
  induction s with
  | nil => rfl
  | cons x xs ih =>
    have hx : x.ts < r.ts := h x (by simp)
    have h1 : sameKey x r = false := by
      simp only [sameKey, Bool.and_eq_false_imp, beq_iff_eq]; intro h; omega
    have h2 : keyLt r x = false := by
      simp only [keyLt, Bool.or_eq_false_iff, decide_eq_false_iff_not, Bool.and_eq_false_imp, beq_iff_eq]
      constructor
      · omega
      · intro h; omega
    simp only [put, h1, h2, Bool.false_eq_true, if_false, List.cons_append]
    rw [ih (fun y hy => h y (by simp [hy]))]

theorem readAll_fresh (s : Store) (thr : Nat) (ws : Bool) (h : ∀ r ∈ s, 0 < r.ts ∧ r.ts ≤ thr) :
    readAll s thr ws = some (if ws then s else dedup s) := by
  have h0 : s.any (fun r => r.ts == 0) = false := by
    rw [List.any_eq_false]; intro r hr; have := (h r hr).1; simp; omega
  have hf : s.filter (fun r => decide (r.ts ≤ thr)) = s := by
    rw [List.filter_eq_self]; intro r hr; simpa using (h r hr).2
  simp [readAll, h0, hf]

theorem dedup_sub (l : List Rec) : ∀ r ∈ dedup l, r ∈ l := by
  induction l with
  | nil => simp [dedup]
  | cons a rest ih =>
    intro r hr
    simp only [dedup] at hr
    split at hr
    · exact List.mem_cons_of_mem _ (ih r hr)
    · rcases List.mem_cons.mp hr with h | h
      · simp [h]
      · exact List.mem_cons_of_mem _ (ih r h)

theorem dedup_cover (l : List Rec) : ∀ x ∈ l, ∃ y ∈ dedup l, y.signer = x.signer := by
  induction l with
  | nil => simp
  | cons a rest ih =>
    intro x hx
    simp only [dedup]
    rcases List.mem_cons.mp hx with h | h
    · subst h
      split
      · next hany =>
        obtain ⟨z, hz, hzs⟩ := List.any_eq_true.mp hany
        obtain ⟨y, hy, hys⟩ := ih z hz
        exact ⟨y, hy, by rw [hys]; simpa using hzs⟩
      · exact ⟨x, by simp, rfl⟩
    · obtain ⟨y, hy, hys⟩ := ih x h
      split
      · exact ⟨y, hy, hys⟩
      · exact ⟨y, List.mem_cons_of_mem _ hy, hys⟩

theorem dedup_append_one (l : List Rec) (r : Rec) :
    dedup (l ++ [r]) = (dedup l).filter (fun x => x.signer != r.signer) ++ [r] := by
  induction l with
  | nil => simp [dedup]
  | cons a rest ih =>
    simp only [List.cons_append, dedup, List.any_append, List.any_cons, List.any_nil, Bool.or_false]
    by_cases hs : r.signer = a.signer
    · have h1 : (r.signer == a.signer) = true := by simp [hs]
      simp only [h1, Bool.or_true, if_true, ih]
      split
      · rfl
      · simp [List.filter_cons, hs]
    · have h1 : (r.signer == a.signer) = false := by simp [hs]
      have h2 : (a.signer != r.signer) = true := by simp; exact fun h => hs h.symm
      simp only [h1, Bool.or_false]
      split
      · exact ih
      · simp [List.filter_cons, h2, ih]

theorem lastOf_none_iff (k : Nat) (l : List Rec) : lastOf k l = none ↔ ∀ x ∈ l, x.signer ≠ k := by
  induction l with
  | nil => simp [lastOf]
  | cons a rest ih =>
    simp only [lastOf]
    cases hl : lastOf k rest with
    | some x =>
      simp only [reduceCtorEq, false_iff]
      intro h
      have := ih.mpr (fun y hy => h y (List.mem_cons_of_mem _ hy))
      rw [hl] at this; exact absurd this (by simp)
    | none =>
      have hr := ih.mp hl
      by_cases ha : a.signer = k
      · simp [ha]
      · simp only [beq_iff_eq, ha, if_false, true_iff]
        intro x hx
        rcases List.mem_cons.mp hx with h | h
        · rw [h]; exact ha
        · exact hr x h

theorem lastOf_some_mem (k : Nat) (l : List Rec) (r : Rec) (h : lastOf k l = some r) :
    r ∈ l ∧ r.signer = k := by
  induction l with
  | nil => simp [lastOf] at h
  | cons a rest ih =>
    simp only [lastOf] at h
    cases hl : lastOf k rest with
    | some x =>
      simp only [hl, Option.some.injEq] at h
      subst h
      exact ⟨List.mem_cons_of_mem _ (ih hl).1, (ih hl).2⟩
    | none =>
      simp only [hl] at h
      split at h
      · next ha => simp only [Option.some.injEq] at h; subst h; exact ⟨by simp, by simpa using ha⟩
      · exact absurd h (by simp)

/-- the de-duplicated list holds exactly the last record of every signer -/
theorem mem_dedup_iff (l : List Rec) (r : Rec) : r ∈ dedup l ↔ lastOf r.signer l = some r := by
  induction l with
  | nil => simp [dedup, lastOf]
  | cons a rest ih =>
    simp only [dedup, lastOf]
    cases hl : lastOf r.signer rest with
    | some x =>
      have hx := lastOf_some_mem _ _ _ hl
      split
      · rw [ih, hl]
      · next hany =>
        rw [List.mem_cons, ih, hl]
        constructor
        · rintro (h | h)
          · exfalso; apply hany
            exact List.any_eq_true.mpr ⟨x, hx.1, by simp [hx.2, h]⟩
          · exact h
        · exact Or.inr
    | none =>
      have hn := (lastOf_none_iff _ _).mp hl
      split
      · next hany =>
        obtain ⟨z, hz, hzs⟩ := List.any_eq_true.mp hany
        rw [ih, hl]
        simp only [reduceCtorEq, false_iff]
        split
        · next ha =>
          exfalso; apply hn z hz
          have h1 : z.signer = a.signer := by simpa using hzs
          have h2 : a.signer = r.signer := by simpa using ha
          rw [h1, h2]
        · simp
      · rw [List.mem_cons, ih, hl]
        constructor
        · rintro (h | h)
          · subst h; simp
          · exact absurd h (by simp)
        
        · intro h
          by_cases ha : a.signer = r.signer
          · left; simp only [ha, beq_self_eq_true, if_true, Option.some.injEq] at h; exact h.symm
          · simp [ha] at h

/-! ## the writers inside the discipline -/

def mk (o : Op) (st : NState) : Rec := ⟨o.ts, o.signer, o.payee, o.tx, st⟩

theorem offset_fresh (ts p : Nat) (h : ts + p < u64) : offset ts p = ts + p := by
  unfold offset; exact Nat.mod_eq_of_lt h

theorem writePledge_fresh (c : Cfg) (s : Store) (k p t ts : Nat) (hf : Fresh c s ts) :
    writePledge c s k p t ts =
      if !((dedup s).all (fun n => isSettled n.state)) then .reject
      else if (dedup s).any (fun n => n.signer == k || n.tx == t) then .reject
      else .ok (s ++ [⟨ts, k, p, t, .pledging⟩]) := by
  obtain ⟨_, hs, hp, _⟩ := hf
  unfold writePledge
  rw [offset_fresh _ _ hp, readAll_fresh s _ false (fun r hr => ⟨(hs r hr).1, by have := (hs r hr).2; omega⟩)]
  simp only [Bool.false_eq_true, if_false]
  rw [put_fresh s _ (fun x hx => (hs x hx).2)]

theorem pledgingGuard_fresh (c : Cfg) (s : Store) (k p ts : Nat) (hf : Fresh c s ts) :
    pledgingGuard c s k p ts = pledgingGuardOn s k p := by
  obtain ⟨_, hs, _, ha⟩ := hf
  unfold pledgingGuard
  rw [offset_fresh _ _ ha, readAll_fresh s _ true (fun r hr => ⟨(hs r hr).1, by have := (hs r hr).2; omega⟩)]
  simp

theorem writeRemove_fresh (c : Cfg) (s : Store) (k p t ts : Nat) (hf : Fresh c s ts) :
    writeRemove c s k p t ts = removeOn s k p (s ++ [⟨ts, k, p, t, .removed⟩]) := by
  obtain ⟨_, hs, _, ha⟩ := hf
  unfold writeRemove
  rw [offset_fresh _ _ ha, readAll_fresh s _ true (fun r hr => ⟨(hs r hr).1, by have := (hs r hr).2; omega⟩)]
  simp only [if_true]
  rw [put_fresh s _ (fun x hx => (hs x hx).2)]

/-! ## what an accepted operation established (guards) -/

/-- **pledge_only_when_none_pending** and **pledge_new_signer_only.** An accepted pledge:
    no node's latest state is pledging; the signer key occurs in no record of the history, in
    any state; the transaction is not the latest transaction of any node; exactly one record
    is appended. -/
theorem pledge_accepted (c : Cfg) (s s' : Store) (k p t ts : Nat) (hf : Fresh c s ts)
    (h : writePledge c s k p t ts = .ok s') :
    (∀ r ∈ dedup s, r.state ≠ .pledging) ∧ (∀ r ∈ s, r.signer ≠ k) ∧ (∀ r ∈ dedup s, r.tx ≠ t) ∧
      s' = s ++ [⟨ts, k, p, t, .pledging⟩] := by
  rw [writePledge_fresh c s k p t ts hf] at h
  split at h
  · exact absurd h (by simp)
  · next h1 =>
    split at h
    · exact absurd h (by simp)
    · next h2 =>
      have h1' : ∀ r ∈ dedup s, isSettled r.state = true := by simpa using h1
      have h2' : ∀ r ∈ dedup s, ¬ (r.signer = k ∨ r.tx = t) := by simpa using h2
      refine ⟨?_, ?_, ?_, ?_⟩
      · intro r hr hp; have := h1' r hr; rw [hp] at this; simp [isSettled] at this
      · intro r hr hk
        obtain ⟨y, hy, hys⟩ := dedup_cover s r hr
        exact h2' y hy (Or.inl (by rw [hys, hk]))
      · intro r hr ht; exact h2' r hr (Or.inr ht)
      · simpa using h.symm

theorem pledge_only_when_none_pending (c : Cfg) (s s' : Store) (k p t ts : Nat) (hf : Fresh c s ts)
    (h : writePledge c s k p t ts = .ok s') : ∀ r ∈ dedup s, r.state ≠ .pledging :=
  (pledge_accepted c s s' k p t ts hf h).1

theorem pledge_new_signer_only (c : Cfg) (s s' : Store) (k p t ts : Nat) (hf : Fresh c s ts)
    (h : writePledge c s k p t ts = .ok s') : (∀ r ∈ s, r.signer ≠ k) ∧ (∀ r ∈ dedup s, r.tx ≠ t) :=
  ⟨(pledge_accepted c s s' k p t ts hf h).2.1, (pledge_accepted c s s' k p t ts hf h).2.2.1⟩

theorem guard_true (s : Store) (k p : Nat) (h : pledgingGuardOn s k p = some true) :
    ∃ last, s.getLast? = some last ∧ last.state = .pledging ∧ last.signer = k ∧ last.payee = p := by
  unfold pledgingGuardOn at h
  cases hl : s.getLast? with
  | none => simp [hl] at h
  | some last =>
    simp only [hl] at h
    split at h
    · exact absurd h (by simp)
    · next h1 =>
      split at h
      · exact absurd h (by simp)
      · next h2 =>
        refine ⟨last, rfl, by simpa using h1, ?_, ?_⟩
        · have : ¬ (last.signer ≠ k ∨ last.payee ≠ p) := by simpa using h2
          omega
        · have : ¬ (last.signer ≠ k ∨ last.payee ≠ p) := by simpa using h2
          omega

/-- **accept_cancel_only_current_pledging.** An accepted (non-genesis) accept or cancel: the
    most recent record of the history is a pledge of exactly this signer with exactly this
    payee; one record is appended. (`lifecycle_invariant` adds that this is the only node
    whose latest state is pledging.) -/
theorem accept_accepted (c : Cfg) (s s' : Store) (k p t ts : Nat) (hf : Fresh c s ts)
    (h : writeAccept c s k p t ts false = .ok s') :
    (∃ last, s.getLast? = some last ∧ last.state = .pledging ∧ last.signer = k ∧ last.payee = p) ∧
      s' = s ++ [⟨ts, k, p, t, .accepted⟩] := by
  unfold writeAccept at h
  simp only [Bool.false_eq_true, if_false] at h
  rw [pledgingGuard_fresh c s k p ts hf] at h
  cases hg : pledgingGuardOn s k p with
  | none => simp [hg] at h
  | some b =>
    cases b with
    | false => simp [hg] at h
    | true =>
      simp only [hg, Outcome.ok.injEq] at h
      rw [put_fresh s _ (fun x hx => (hf.2.1 x hx).2)] at h
      exact ⟨guard_true s k p hg, h.symm⟩

theorem cancel_accepted (c : Cfg) (s s' : Store) (k p t ts : Nat) (hf : Fresh c s ts)
    (h : writeCancel c s k p t ts = .ok s') :
    (∃ last, s.getLast? = some last ∧ last.state = .pledging ∧ last.signer = k ∧ last.payee = p) ∧
      s' = s ++ [⟨ts, k, p, t, .cancelled⟩] := by
  unfold writeCancel at h
  rw [pledgingGuard_fresh c s k p ts hf] at h
  cases hg : pledgingGuardOn s k p with
  | none => simp [hg] at h
  | some b =>
    cases b with
    | false => simp [hg] at h
    | true =>
      simp only [hg, Outcome.ok.injEq] at h
      rw [put_fresh s _ (fun x hx => (hf.2.1 x hx).2)] at h
      exact ⟨guard_true s k p hg, h.symm⟩

theorem accept_cancel_only_current_pledging (c : Cfg) (s s' : Store) (k p t ts : Nat)
    (hf : Fresh c s ts)
    (h : writeAccept c s k p t ts false = .ok s' ∨ writeCancel c s k p t ts = .ok s') :
    ∃ last, s.getLast? = some last ∧ last.state = .pledging ∧ last.signer = k ∧ last.payee = p := by
  rcases h with h | h
  · exact (accept_accepted c s s' k p t ts hf h).1
  · exact (cancel_accepted c s s' k p t ts hf h).1

/-- **remove_only_accepted_matching.** An accepted remove: the latest record of this signer
    exists, is `accepted` and has exactly this payee; moreover the most recent record of the
    whole history is not a pledge; one record is appended. -/
theorem remove_accepted (c : Cfg) (s s' : Store) (k p t ts : Nat) (hf : Fresh c s ts)
    (h : writeRemove c s k p t ts = .ok s') :
    (∃ node, lastOf k s = some node ∧ node.state = .accepted ∧ node.payee = p) ∧
      (∃ last, s.getLast? = some last ∧ isSettled last.state = true) ∧
      s' = s ++ [⟨ts, k, p, t, .removed⟩] := by
  rw [writeRemove_fresh c s k p t ts hf] at h
  unfold removeOn at h
  cases hl : s.getLast? with
  | none => simp [hl] at h
  | some last =>
    simp only [hl] at h
    split at h
    · exact absurd h (by simp)
    · next h1 =>
      cases hn : lastOf k s with
      | none => simp [hn] at h
      | some node =>
        simp only [hn] at h
        split at h
        · exact absurd h (by simp)
        · next h2 =>
          split at h
          · exact absurd h (by simp)
          · next h3 =>
            refine ⟨⟨node, rfl, by simpa using h3, by simpa using h2⟩, ⟨last, rfl, by simpa using h1⟩, ?_⟩
            simpa using h.symm

theorem remove_only_accepted_matching (c : Cfg) (s s' : Store) (k p t ts : Nat) (hf : Fresh c s ts)
    (h : writeRemove c s k p t ts = .ok s') :
    ∃ node, lastOf k s = some node ∧ node.state = .accepted ∧ node.payee = p :=
  (remove_accepted c s s' k p t ts hf h).1

/-- **rejected_op_no_write.** Whatever the timestamps: an operation that is not accepted
    (error or panic) leaves the history as it was. -/
theorem rejected_op_no_write (c : Cfg) (s : Store) (o : Op) (h : ∀ s', write c s o ≠ .ok s') :
    step c s o = s := by
  unfold step
  cases hw : write c s o with
  | ok s' => exact absurd hw (h s')
  | reject => rfl
  | panic => rfl

/-- **latest_state_reported.** Whatever the history: `ReadAllNodes(threshold, false)` returns
    exactly, for every signer, the last record (in key order, i.e. the one with the largest
    timestamp) among that signer's records visible at the threshold. -/
theorem latest_state_reported (s : Store) (thr : Nat) (out : List Rec)
    (h : readAll s thr false = some out) (r : Rec) :
    r ∈ out ↔ lastOf r.signer (s.filter (fun x => decide (x.ts ≤ thr))) = some r := by
  unfold readAll at h
  split at h
  · exact absurd h (by simp)
  · simp only [Bool.false_eq_true, if_false, Option.some.injEq] at h
    rw [← h]; exact mem_dedup_iff _ r

end Mixin.C27
