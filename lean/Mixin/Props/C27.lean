import Mixin.Model.NodeStore
namespace Mixin.C27
end Mixin.C27
