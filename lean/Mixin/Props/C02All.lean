import Mixin.Props.C02
import Mixin.Props.C02Batch
/-! C02: all obligations (decision-logic theorems of `Mixin.Props.C02` + the batch algebra of
`Mixin.Props.C02Batch`). -/
