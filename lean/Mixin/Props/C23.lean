import Mixin.Facts.ExpectedC23
import Mixin.Model.CacheQueue
import Mixin.Model.CacheKernel
/-!
# C23 — only queueing makes a cached transaction eligible for proposal

Theorems about `Mixin.Model.CacheQueue` (the model of `storage/badger_cache.go`), for every
state and every operation history. The specification-level counter of a hash `h` is
`cnt h s.queue`, the number of its unconsumed queueings (queue keys carrying `h`).
TTL expiry of cache entries is outside the model.
-/
namespace Mixin.C23
open Mixin.CacheQueue

/-! ## counters -/

theorem cnt_append (h : Hash) (a b : List QKey) : cnt h (a ++ b) = cnt h a + cnt h b := by
  induction a with
  | nil => simp [cnt]
  | cons x xs ih => simp [cnt, ih]; omega

theorem cnt_filter_le (h : Hash) (p : QKey → Bool) (q : List QKey) : cnt h (q.filter p) ≤ cnt h q := by
  induction q with
  | nil => simp [cnt]
  | cons x xs ih =>
    simp only [List.filter]
    split
    · simp only [cnt]; omega
    · simp only [cnt]; omega

theorem filter_notin_self (q : List QKey) (P : List QKey) (hP : ∀ k ∈ q, k ∈ P) :
    q.filter (fun k => k ∉ P) = [] := by
  rw [List.filter_eq_nil_iff]
  intro k hk
  simp [hP k hk]

/-- deleting the first `n` keys: what remains carries no more than the rest of the queue -/
theorem cnt_delete_prefix (h : Hash) (q : List QKey) (n : Nat) :
    cnt h (q.filter (fun k => k ∉ q.take n)) + cnt h (q.take n) ≤ cnt h q := by
  have hq : q = q.take n ++ q.drop n := (List.take_append_drop n q).symm
  have h1 : (q.take n).filter (fun k => k ∉ q.take n) = [] :=
    filter_notin_self _ _ (fun k hk => hk)
  have h2 : q.filter (fun k => k ∉ q.take n)
      = (q.take n).filter (fun k => k ∉ q.take n) ++ (q.drop n).filter (fun k => k ∉ q.take n) := by
    conv => lhs; rw [hq]
    rw [List.filter_append]
    simp
  rw [h2, h1]
  have h3 := cnt_filter_le h (fun k => k ∉ q.take n) (q.drop n)
  have h4 : cnt h q = cnt h (q.take n) + cnt h (q.drop n) := by
    conv => lhs; rw [hq]
    exact cnt_append h _ _
  simp only [List.nil_append]
  omega

theorem cnt_insertKey_le (h : Hash) (k : QKey) (q : List QKey) :
    cnt h (insertKey k q) ≤ cnt h q + (if k.2 = h then 1 else 0) := by
  induction q with
  | nil => simp [insertKey, cnt]
  | cons x xs ih =>
    simp only [insertKey]
    split
    · simp only [cnt]; omega
    · split
      · simp only [cnt]; omega
      · simp only [cnt]; omega

theorem mem_insertKey (k : QKey) (q : List QKey) : k ∈ insertKey k q := by
  induction q with
  | nil => simp [insertKey]
  | cons x xs ih =>
    simp only [insertKey]
    split
    · simp
    · split
      · next hk => simp [hk]
      · simp [ih]

theorem cnt_pos_of_mem (h : Hash) (ts : Nat) (q : List QKey) (hm : (ts, h) ∈ q) : 1 ≤ cnt h q := by
  induction q with
  | nil => simp at hm
  | cons x xs ih =>
    simp only [cnt]
    rcases List.mem_cons.mp hm with hx | hx
    · subst hx; simp
    · have := ih hx; omega

/-! ## the retrieval loop -/

theorem scan_nil (pl : List (Hash × Body)) (room : Nat) (seen : List Hash) :
    scan pl room seen [] = (0, []) := by simp [scan]

theorem scan_zero (pl : List (Hash × Body)) (seen : List Hash) (q : List QKey) :
    scan pl 0 seen q = (0, []) := by cases q <;> simp [scan]

theorem scan_seen (pl : List (Hash × Body)) (r : Nat) (seen : List Hash) (k : QKey) (rest : List QKey)
    (hk : k.2 ∈ seen) :
    scan pl (r + 1) seen (k :: rest) =
      ((scan pl (r + 1) seen rest).1 + 1, (scan pl (r + 1) seen rest).2) := by
  simp [scan, hk]

theorem scan_some (pl : List (Hash × Body)) (r : Nat) (seen : List Hash) (k : QKey) (rest : List QKey)
    (v : Body) (hk : k.2 ∉ seen) (hl : lookup k.2 pl = some v) :
    scan pl (r + 1) seen (k :: rest) =
      ((scan pl r (k.2 :: seen) rest).1 + 1, (k.2, v) :: (scan pl r (k.2 :: seen) rest).2) := by
  simp [scan, hk, hl]

theorem scan_none (pl : List (Hash × Body)) (r : Nat) (seen : List Hash) (k : QKey) (rest : List QKey)
    (hk : k.2 ∉ seen) (hl : lookup k.2 pl = none) :
    scan pl (r + 1) seen (k :: rest) =
      ((scan pl (r + 1) (k.2 :: seen) rest).1 + 1, (scan pl (r + 1) (k.2 :: seen) rest).2) := by
  simp [scan, hk, hl]

/-- the three ways the loop can treat the first key -/
theorem scan_cases (pl : List (Hash × Body)) (r : Nat) (seen : List Hash) (k : QKey) (rest : List QKey) :
    (k.2 ∈ seen ∧ scan pl (r + 1) seen (k :: rest) =
        ((scan pl (r + 1) seen rest).1 + 1, (scan pl (r + 1) seen rest).2)) ∨
    (k.2 ∉ seen ∧ ∃ v, lookup k.2 pl = some v ∧ scan pl (r + 1) seen (k :: rest) =
        ((scan pl r (k.2 :: seen) rest).1 + 1, (k.2, v) :: (scan pl r (k.2 :: seen) rest).2)) ∨
    (k.2 ∉ seen ∧ lookup k.2 pl = none ∧ scan pl (r + 1) seen (k :: rest) =
        ((scan pl (r + 1) (k.2 :: seen) rest).1 + 1, (scan pl (r + 1) (k.2 :: seen) rest).2)) := by
  by_cases hk : k.2 ∈ seen
  · exact Or.inl ⟨hk, scan_seen pl r seen k rest hk⟩
  · cases hl : lookup k.2 pl with
    | none => exact Or.inr (Or.inr ⟨hk, rfl, scan_none pl r seen k rest hk hl⟩)
    | some v => exact Or.inr (Or.inl ⟨hk, v, rfl, scan_some pl r seen k rest v hk hl⟩)

theorem scan_consumed_le (pl : List (Hash × Body)) (q : List QKey) :
    ∀ (room : Nat) (seen : List Hash), (scan pl room seen q).1 ≤ q.length := by
  induction q with
  | nil => intro room seen; simp [scan_nil]
  | cons k rest ih =>
    intro room seen
    cases room with
    | zero => simp [scan_zero]
    | succ r =>
      rcases scan_cases pl r seen k rest with ⟨_, e⟩ | ⟨_, v, _, e⟩ | ⟨_, _, e⟩
      · rw [e]; have := ih (r + 1) seen; simp; omega
      · rw [e]; have := ih r (k.2 :: seen); simp; omega
      · rw [e]; have := ih (r + 1) (k.2 :: seen); simp; omega

theorem scan_length_le (pl : List (Hash × Body)) (q : List QKey) :
    ∀ (room : Nat) (seen : List Hash), (scan pl room seen q).2.length ≤ room := by
  induction q with
  | nil => intro room seen; simp [scan_nil]
  | cons k rest ih =>
    intro room seen
    cases room with
    | zero => simp [scan_zero]
    | succ r =>
      rcases scan_cases pl r seen k rest with ⟨_, e⟩ | ⟨_, v, _, e⟩ | ⟨_, _, e⟩
      · rw [e]; exact ih (r + 1) seen
      · rw [e]; have := ih r (k.2 :: seen); simp; omega
      · rw [e]; exact ih (r + 1) (k.2 :: seen)

/-- every returned entry: hash not filtered before, body is the stored one, and its queue key is
    among the processed ones -/
theorem scan_mem (pl : List (Hash × Body)) (q : List QKey) :
    ∀ (room : Nat) (seen : List Hash) (e : Hash × Body), e ∈ (scan pl room seen q).2 →
      e.1 ∉ seen ∧ lookup e.1 pl = some e.2 ∧ e.1 ∈ (q.take (scan pl room seen q).1).map (·.2) := by
  induction q with
  | nil => intro room seen e he; simp [scan_nil] at he
  | cons k rest ih =>
    intro room seen e he
    cases room with
    | zero => simp [scan_zero] at he
    | succ r =>
      rcases scan_cases pl r seen k rest with ⟨_, eq⟩ | ⟨hk, v, hl, eq⟩ | ⟨_, _, eq⟩
      · rw [eq] at he ⊢
        have := ih (r + 1) seen e he
        refine ⟨this.1, this.2.1, ?_⟩
        simp only [List.take_succ_cons, List.map_cons, List.mem_cons]
        exact Or.inr this.2.2
      · rw [eq] at he ⊢
        simp only [List.mem_cons] at he
        rcases he with he | he
        · subst he
          refine ⟨hk, hl, ?_⟩
          simp
        · have := ih r (k.2 :: seen) e he
          refine ⟨fun h => this.1 (List.mem_cons_of_mem _ h), this.2.1, ?_⟩
          simp only [List.take_succ_cons, List.map_cons, List.mem_cons]
          exact Or.inr this.2.2
      · rw [eq] at he ⊢
        have := ih (r + 1) (k.2 :: seen) e he
        refine ⟨fun h => this.1 (List.mem_cons_of_mem _ h), this.2.1, ?_⟩
        simp only [List.take_succ_cons, List.map_cons, List.mem_cons]
        exact Or.inr this.2.2

theorem scan_nodup (pl : List (Hash × Body)) (q : List QKey) :
    ∀ (room : Nat) (seen : List Hash), ((scan pl room seen q).2.map (·.1)).Nodup := by
  induction q with
  | nil => intro room seen; simp [scan_nil]
  | cons k rest ih =>
    intro room seen
    cases room with
    | zero => simp [scan_zero]
    | succ r =>
      rcases scan_cases pl r seen k rest with ⟨_, eq⟩ | ⟨hk, v, hl, eq⟩ | ⟨_, _, eq⟩
      · rw [eq]; exact ih (r + 1) seen
      · rw [eq]
        simp only [List.map_cons, List.nodup_cons]
        refine ⟨?_, ih r (k.2 :: seen)⟩
        intro hmem
        rcases List.mem_map.mp hmem with ⟨e, he, hek⟩
        have := (scan_mem pl rest r (k.2 :: seen) e he).1
        exact this (by simp [hek])
      · rw [eq]; exact ih (r + 1) (k.2 :: seen)

/-- every returned hash consumes at least one of its queue keys -/
theorem scan_occ_le_cnt (pl : List (Hash × Body)) (h : Hash) (q : List QKey) :
    ∀ (room : Nat) (seen : List Hash),
      occ h (scan pl room seen q).2 ≤ cnt h (q.take (scan pl room seen q).1) := by
  induction q with
  | nil => intro room seen; simp [scan_nil, occ, cnt]
  | cons k rest ih =>
    intro room seen
    cases room with
    | zero => simp [scan_zero, occ, cnt]
    | succ r =>
      rcases scan_cases pl r seen k rest with ⟨_, eq⟩ | ⟨hk, v, hl, eq⟩ | ⟨_, _, eq⟩
      · rw [eq]; have := ih (r + 1) seen
        simp only [List.take_succ_cons, cnt]; omega
      · rw [eq]; have := ih r (k.2 :: seen)
        simp only [List.take_succ_cons, cnt, occ]; omega
      · rw [eq]; have := ih (r + 1) (k.2 :: seen)
        simp only [List.take_succ_cons, cnt]; omega

/-- a hash with a queue key and a body is returned when the limit does not cut the scan -/
theorem scan_complete (pl : List (Hash × Body)) (h : Hash) (v : Body) (hl : lookup h pl = some v)
    (q : List QKey) :
    ∀ (room : Nat) (seen : List Hash), q.length ≤ room → h ∉ seen → (∃ ts, (ts, h) ∈ q) →
      (h, v) ∈ (scan pl room seen q).2 := by
  induction q with
  | nil => intro room seen _ _ hm; rcases hm with ⟨ts, hm⟩; simp at hm
  | cons k rest ih =>
    intro room seen hlen hns hm
    cases room with
    | zero => simp at hlen
    | succ r =>
      have hlen' : rest.length ≤ r := by simp at hlen; omega
      rcases hm with ⟨ts, hm⟩
      rcases scan_cases pl r seen k rest with ⟨hk, eq⟩ | ⟨hk, v', hl', eq⟩ | ⟨hk, hl', eq⟩
      · rw [eq]
        have hne : k ≠ (ts, h) := by intro hc; rw [hc] at hk; exact hns hk
        have hm' : (ts, h) ∈ rest := by
          rcases List.mem_cons.mp hm with hx | hx
          · exact absurd hx.symm hne
          · exact hx
        exact ih (r + 1) seen (by omega) hns ⟨ts, hm'⟩
      · rw [eq]
        by_cases hkh : k.2 = h
        · rw [hkh] at hl' ⊢
          rw [hl] at hl'
          cases hl'
          simp
        · have hm' : (ts, h) ∈ rest := by
            rcases List.mem_cons.mp hm with hx | hx
            · rw [← hx] at hkh; exact absurd rfl hkh
            · exact hx
          have : h ∉ k.2 :: seen := by
            simp only [List.mem_cons, not_or]; exact ⟨fun hc => hkh hc.symm, hns⟩
          exact List.mem_cons_of_mem _ (ih r (k.2 :: seen) hlen' this ⟨ts, hm'⟩)
      · rw [eq]
        have hkh : k.2 ≠ h := by intro hc; rw [hc] at hl'; rw [hl] at hl'; cases hl'
        have hm' : (ts, h) ∈ rest := by
          rcases List.mem_cons.mp hm with hx | hx
          · rw [← hx] at hkh; exact absurd rfl hkh
          · exact hx
        have : h ∉ k.2 :: seen := by
          simp only [List.mem_cons, not_or]; exact ⟨fun hc => hkh hc.symm, hns⟩
        exact ih (r + 1) (k.2 :: seen) (by omega) this ⟨ts, hm'⟩

theorem occ_pos_of_mem (h : Hash) (v : Body) (l : List (Hash × Body)) (hm : (h, v) ∈ l) : 1 ≤ occ h l := by
  induction l with
  | nil => simp at hm
  | cons x xs ih =>
    simp only [occ]
    rcases List.mem_cons.mp hm with hx | hx
    · subst hx; simp
    · have := ih hx; omega

theorem cnt_take_le (h : Hash) (q : List QKey) (n : Nat) : cnt h (q.take n) ≤ cnt h q := by
  have hq : q = q.take n ++ q.drop n := (List.take_append_drop n q).symm
  have := cnt_append h (q.take n) (q.drop n)
  rw [← hq] at this
  omega

/-! ## payload map -/

theorem lookup_filter (h : Hash) (p : Hash → Bool) (m : List (Hash × Body)) :
    lookup h (m.filter (fun e => p e.1)) = if p h then lookup h m else none := by
  induction m with
  | nil => simp [lookup]
  | cons x xs ih =>
    obtain ⟨k, v⟩ := x
    simp only [List.filter]
    by_cases hk : k = h
    · subst hk
      cases hp : p k <;> simp [hp, lookup, ih]
    · cases hp : p k
      · simp only [hp]; rw [ih]; simp [lookup, hk]
      · simp only [hp, lookup, hk, if_false]; exact ih

theorem lookup_put_self (h : Hash) (v : Body) (m : List (Hash × Body)) : lookup h (put h v m) = some v := by
  simp [put, lookup]

/-! ## the property theorems -/

/-- **store_not_eligible** (step): storing a body never touches the scheduling records, so no
    counter of unconsumed queueings changes. -/
theorem store_not_eligible (s : S) (h : Hash) (v : Body) :
    (step s (.store h v)).1.queue = s.queue ∧ (step s (.store h v)).1.order = s.order := by
  simp only [step, store]
  split <;> simp

example : (step (step empty (.store 7 1)).1 (.retrieve 10)).2 = .txs [] := by decide

/-- one step never returns more of `h` than it consumes, and only an effective queueing of `h`
    adds an unconsumed queueing -/
theorem step_account (s : S) (op : Op) (h : Hash) :
    retOcc h (step s op).2 + cnt h (step s op).1.queue ≤ cnt h s.queue + effQ h s op := by
  cases op with
  | store h' v =>
    have := (store_not_eligible s h' v).1
    simp only [step] at this ⊢
    simp [retOcc, effQ, this]
  | queue h' v ts =>
    simp only [step, enqueue, retOcc, effQ]
    by_cases ho : h' ∈ s.order
    · simp [ho]
    · simp only [ho, if_false]
      have := cnt_insertKey_le h (ts, h') s.queue
      by_cases hh : h' = h
      · subst hh; simp [ho] at this ⊢; omega
      · simp [hh] at this ⊢; omega
  | retrieve limit =>
    simp only [step, retrieve, retOcc, effQ]
    have h1 := scan_occ_le_cnt s.payload h s.queue limit []
    have h2 := cnt_delete_prefix h s.queue (scan s.payload limit [] s.queue).1
    omega
  | remove hs => simp [step, remove, retOcc, effQ]
  | get h' => simp [step, retOcc, effQ]

/-- **queueing_consumed_once**: over every history from every state, the number of times `h` is
    returned by retrievals plus its unconsumed queueings at the end never exceeds its unconsumed
    queueings at the start plus the queueings of `h` that took effect. Each returned `h` uses up
    one queueing; no queueing is returned by two retrievals. -/
theorem queueing_consumed_once (h : Hash) (ops : List Op) :
    ∀ s : S, (tally h s ops).1 + cnt h (final s ops).queue ≤ cnt h s.queue + (tally h s ops).2 := by
  induction ops with
  | nil => intro s; simp [tally, final]
  | cons op ops ih =>
    intro s
    have h1 := step_account s op h
    have h2 := ih (step s op).1
    simp only [tally, final]
    omega

/-- from the empty cache: retrievals returning `h` never outnumber its effective queueings -/
theorem returned_le_queued (h : Hash) (ops : List Op) :
    (tally h empty ops).1 ≤ (tally h empty ops).2 := by
  have := queueing_consumed_once h ops empty
  have hc : cnt h empty.queue = 0 := rfl
  omega

example : tally 1 empty [.queue 1 1 5, .retrieve 3, .queue 1 2 6, .queue 1 2 7, .retrieve 3, .retrieve 3]
    = (2, 2) := by decide

/-- **retrieve_only_queued**: after any history from the empty cache, a hash returned by the next
    retrieval has an effective queueing that no earlier retrieval returned. -/
theorem retrieve_only_queued (ops : List Op) (limit : Nat) (e : Hash × Body)
    (he : e ∈ (retrieve (final empty ops) limit).2) :
    (tally e.1 empty ops).1 + 1 ≤ (tally e.1 empty ops).2 := by
  have h0 := queueing_consumed_once e.1 ops empty
  have h1 := scan_occ_le_cnt (final empty ops).payload e.1 (final empty ops).queue limit []
  have h2 := cnt_take_le e.1 (final empty ops).queue
    (scan (final empty ops).payload limit [] (final empty ops).queue).1
  have h3 : 1 ≤ occ e.1 (retrieve (final empty ops) limit).2 := occ_pos_of_mem e.1 e.2 _ he
  simp only [retrieve] at h3
  have hc : cnt e.1 empty.queue = 0 := rfl
  omega

theorem tally_queued_zero (h : Hash) (ops : List Op) :
    (∀ v ts, Op.queue h v ts ∉ ops) → ∀ s : S, (tally h s ops).2 = 0 := by
  induction ops with
  | nil => intro _ s; simp [tally]
  | cons op ops ih =>
    intro hq s
    have hq' : ∀ v ts, Op.queue h v ts ∉ ops := fun v ts hm => hq v ts (List.mem_cons_of_mem _ hm)
    simp only [tally, ih hq' (step s op).1]
    cases op with
    | queue h' v ts =>
      have : h' ≠ h := by
        intro hc; subst hc; exact hq v ts (by simp)
      simp [effQ, this]
    | _ => simp [effQ]

/-- a hash whose only operations are `store`/`get`/`remove`/retrievals is never returned:
    storing a body alone never makes a transaction eligible -/
theorem never_queued_never_returned (h : Hash) (ops : List Op)
    (hq : ∀ v ts, Op.queue h v ts ∉ ops) : (tally h empty ops).1 = 0 := by
  have hle := returned_le_queued h ops
  rw [tally_queued_zero h ops hq empty] at hle
  omega

/-- **retrieve_nodup_bounded**: a retrieval returns each transaction at most once and no more than
    the requested limit. -/
theorem retrieve_nodup_bounded (s : S) (limit : Nat) :
    ((retrieve s limit).2.map (·.1)).Nodup ∧ (retrieve s limit).2.length ≤ limit :=
  ⟨scan_nodup s.payload s.queue limit [], scan_length_le s.payload s.queue limit []⟩

example : (retrieve ⟨[(1, 4), (2, 4), (3, 5), (4, 6)], [4, 5, 6], [(4, 1), (5, 1), (6, 2)]⟩ 2).2
    = [(4, 1), (5, 1)] := by decide

/-- **retrieve_keeps_body**: retrieval leaves every stored body in place; what it returns is the
    stored body. -/
theorem retrieve_keeps_body (s : S) (limit : Nat) :
    (retrieve s limit).1.payload = s.payload ∧
    ∀ e ∈ (retrieve s limit).2, lookup e.1 (retrieve s limit).1.payload = some e.2 := by
  refine ⟨rfl, ?_⟩
  intro e he
  exact (scan_mem s.payload s.queue limit [] e he).2.1

/-- a hash without a body (never stored, or removed) is not returned, queue key or not -/
theorem no_body_not_returned (s : S) (limit : Nat) (h : Hash) (hb : lookup h s.payload = none) :
    ∀ e ∈ (retrieve s limit).2, e.1 ≠ h := by
  intro e he hc
  have := (scan_mem s.payload s.queue limit [] e he).2.1
  rw [hc, hb] at this
  cases this

/-- **requeue_after_retrieve_eligible**: a returned hash has lost its order key, so queueing it
    again takes effect, stores the new body, and an exhaustive retrieval returns it again. -/
theorem requeue_after_retrieve_eligible (s : S) (limit : Nat) (e : Hash × Body)
    (he : e ∈ (retrieve s limit).2) (v : Body) (ts : Nat) :
    e.1 ∉ (retrieve s limit).1.order ∧
    effQ e.1 (retrieve s limit).1 (.queue e.1 v ts) = 1 ∧
    ∀ limit', (enqueue (retrieve s limit).1 e.1 v ts).queue.length ≤ limit' →
      (e.1, v) ∈ (retrieve (enqueue (retrieve s limit).1 e.1 v ts) limit').2 := by
  have hproc := (scan_mem s.payload s.queue limit [] e he).2.2
  have hno : e.1 ∉ (retrieve s limit).1.order := by
    simp only [retrieve, List.mem_filter, not_and]
    intro _
    simpa using hproc
  refine ⟨hno, by simp [effQ, hno], ?_⟩
  intro limit' hlen
  have hs2 : enqueue (retrieve s limit).1 e.1 v ts =
      { queue := insertKey (ts, e.1) (retrieve s limit).1.queue, order := e.1 :: (retrieve s limit).1.order,
        payload := put e.1 v (retrieve s limit).1.payload } := by
    simp [enqueue, hno]
  rw [hs2] at hlen ⊢
  simp only [retrieve] at hlen ⊢
  exact scan_complete _ e.1 v (lookup_put_self _ _ _) _ limit' [] hlen (by simp)
    ⟨ts, mem_insertKey _ _⟩

example : (retrieve (enqueue (retrieve (enqueue empty 3 1 10) 5).1 3 2 11) 5).2 = [(3, 2)] := by decide

/-- **remove_deletes_body**: removal deletes the body of every listed hash and no other; the queue
    keys stay (a later `store` or `queue` of the hash finds them). -/
theorem remove_deletes_body (s : S) (hs : List Hash) :
    (∀ h ∈ hs, lookup h (remove s hs).payload = none) ∧
    (∀ h, h ∉ hs → lookup h (remove s hs).payload = lookup h s.payload) ∧
    (remove s hs).queue = s.queue := by
  refine ⟨?_, ?_, rfl⟩
  · intro h hh
    have := lookup_filter h (fun k => k ∉ hs) s.payload
    simp only [remove]
    simpa [hh] using this
  · intro h hh
    have := lookup_filter h (fun k => k ∉ hs) s.payload
    simp only [remove]
    simpa [hh] using this

example : (step (step (step empty (.queue 2 1 9)).1 (.remove [2])).1 (.get 2)).2 = .body none := by decide

/-- the quirk the model inherits from the code: removal keeps the queue key, so the unconsumed
    queueing survives and a later plain `store` makes the hash retrievable again -/
example : (retrieve (store (remove (enqueue empty 1 1 5) [1]) 1 2) 5).2 = [(1, 2)] := by decide

/-! ## the kernel callers (kernel/node.go, kernel/queue.go) -/

open Mixin.CacheKernel

/-- index invariant of the cache: a hash with an order key has a queue key and a body -/
def OrderInv (s : S) : Prop :=
  ∀ h ∈ s.order, (∃ ts, (ts, h) ∈ s.queue) ∧ ∃ v, lookup h s.payload = some v

/-- `h` will be returned by an exhaustive retrieval: it has a queue key and a body -/
def Eligible (s : S) (h : Hash) : Prop :=
  (∃ ts, (ts, h) ∈ s.queue) ∧ ∃ v, lookup h s.payload = some v

theorem eligible_retrieved (s : S) (h : Hash) (he : Eligible s h) (limit : Nat)
    (hl : s.queue.length ≤ limit) : ∃ v, (h, v) ∈ (retrieve s limit).2 := by
  rcases he with ⟨hq, v, hv⟩
  exact ⟨v, scan_complete s.payload h v hv s.queue limit [] hl (by simp) hq⟩

theorem mem_insertKey_of_mem (k x : QKey) (q : List QKey) (hx : x ∈ q) : x ∈ insertKey k q := by
  induction q with
  | nil => simp at hx
  | cons y ys ih =>
    simp only [insertKey]
    split
    · exact List.mem_cons_of_mem _ hx
    · split
      · exact hx
      · rcases List.mem_cons.mp hx with h1 | h1
        · subst h1; simp
        · exact List.mem_cons_of_mem _ (ih h1)

theorem lookup_put_other (h h' : Hash) (v : Body) (m : List (Hash × Body)) (hne : h' ≠ h) :
    lookup h (put h' v m) = lookup h m := by
  have := lookup_filter h (fun k => k ≠ h') m
  simp only [put, lookup, erase, hne, if_false]
  have hh : (h ≠ h') := fun hc => hne hc.symm
  simpa [hh] using this

/-- queueing never takes eligibility away, and makes its own hash eligible when the index
    invariant holds -/
theorem enqueue_eligible (s : S) (hI : OrderInv s) (h : Hash) (v : Body) (ts : Nat) :
    OrderInv (enqueue s h v ts) ∧ Eligible (enqueue s h v ts) h ∧
    ∀ h', Eligible s h' → Eligible (enqueue s h v ts) h' := by
  unfold enqueue
  by_cases ho : h ∈ s.order
  · simp only [ho, if_true]
    exact ⟨hI, hI h ho, fun _ he => he⟩
  · simp only [ho, if_false]
    have keep : ∀ h', Eligible s h' → Eligible
        { queue := insertKey (ts, h) s.queue, order := h :: s.order, payload := put h v s.payload } h' := by
      intro h' he
      rcases he with ⟨⟨t', hq⟩, v', hv⟩
      refine ⟨⟨t', mem_insertKey_of_mem _ _ _ hq⟩, ?_⟩
      by_cases hh : h = h'
      · subst hh; exact ⟨v, lookup_put_self _ _ _⟩
      · exact ⟨v', by simp only; rw [lookup_put_other h' h v s.payload hh]; exact hv⟩
    have self : Eligible
        { queue := insertKey (ts, h) s.queue, order := h :: s.order, payload := put h v s.payload } h :=
      ⟨⟨ts, mem_insertKey _ _⟩, v, lookup_put_self _ _ _⟩
    refine ⟨?_, self, keep⟩
    intro h' hm
    rcases List.mem_cons.mp hm with hm | hm
    · subst hm; exact self
    · exact keep h' (hI h' hm)

/-- **kernel_queue_makes_eligible_unless_finalized**: `Node.CacheQueueTransactions` skips exactly
    the finalized transactions. Every other transaction of the call — absent, cached only, or
    persisted but not finalized (a verified proposal that was abandoned) — is eligible afterwards:
    an exhaustive retrieval returns it. -/
theorem kernel_queue_makes_eligible_unless_finalized (txs : List (Hash × Body × Nat)) :
    ∀ k : K, OrderInv k.c →
      OrderInv (kernelQueue k txs).c ∧ (kernelQueue k txs).persist = k.persist ∧
      (∀ h', Eligible k.c h' → Eligible (kernelQueue k txs).c h') ∧
      ∀ e ∈ txs, isFinalized k e.1 = false →
        ∀ limit, (kernelQueue k txs).c.queue.length ≤ limit →
          ∃ v, (e.1, v) ∈ (retrieve (kernelQueue k txs).c limit).2 := by
  induction txs with
  | nil => intro k hI; simp [kernelQueue, hI]
  | cons t rest ih =>
    intro k hI
    obtain ⟨h, v, ts⟩ := t
    by_cases hf : isFinalized k h = true
    · have hk : kernelQueue k ((h, v, ts) :: rest) = kernelQueue k rest := by simp [kernelQueue, hf]
      rw [hk]
      have := ih k hI
      refine ⟨this.1, this.2.1, this.2.2.1, ?_⟩
      intro e he hnf
      rcases List.mem_cons.mp he with he | he
      · subst he; simp [hf] at hnf
      · exact this.2.2.2 e he hnf
    · have hk : kernelQueue k ((h, v, ts) :: rest) =
          kernelQueue { k with c := enqueue k.c h v ts } rest := by simp [kernelQueue, hf]
      rw [hk]
      have hen := enqueue_eligible k.c hI h v ts
      have := ih { k with c := enqueue k.c h v ts } hen.1
      refine ⟨this.1, this.2.1, fun h' he => this.2.2.1 h' (hen.2.2 h' he), ?_⟩
      intro e he hnf
      rcases List.mem_cons.mp he with he | he
      · subst he
        intro limit hl
        exact eligible_retrieved _ h (this.2.2.1 h hen.2.1) limit hl
      · exact this.2.2.2 e he (by simpa [isFinalized] using hnf)

/-- the scenario of a persisted, unfinalized transaction that a peer queues again after retrieval -/
example :
    let k0 : K := kernelQueue emptyK [(1, 1, 10)]
    let k1 : K := persistTx { k0 with c := (retrieve k0.c 5).1 } 1
    (retrieve (kernelQueue k1 [(1, 2, 11)]).c 5).2 = [(1, 2)] := by decide

/-- a finalized transaction is skipped by the peer path -/
example : (kernelQueue (finalizeTx emptyK 1) [(1, 1, 10)]).c = empty := by decide

/-- **kernel_store_never_eligible**: `Node.CacheStoreTransactions` never touches the scheduling
    records, whatever the persistence state of the transactions. -/
theorem kernel_store_never_eligible (txs : List (Hash × Body)) :
    ∀ k : K, (kernelStore k txs).c.queue = k.c.queue ∧ (kernelStore k txs).c.order = k.c.order ∧
      (kernelStore k txs).persist = k.persist := by
  induction txs with
  | nil => intro k; simp [kernelStore]
  | cons t rest ih =>
    intro k
    obtain ⟨h, v⟩ := t
    by_cases hp : isPersisted k h = true
    · simp only [kernelStore, hp, if_true]; exact ih k
    · simp only [kernelStore, hp, if_false, Bool.false_eq_true]
      have h1 := ih { k with c := store k.c h v }
      have h2 := store_not_eligible k.c h v
      simp only [step] at h2
      exact ⟨h1.1.trans h2.1, h1.2.1.trans h2.2, h1.2.2⟩

/-- `Node.QueueTransaction`: a finalized transaction is left alone; otherwise, when the call
    succeeds, the transaction is eligible afterwards. -/
theorem rpc_queue_eligible_unless_finalized (k : K) (hI : OrderInv k.c) (h : Hash) (v : Body)
    (valid : Bool) (ts : Nat) :
    (isFinalized k h = true → (rpcQueue k h v valid ts).1 = k) ∧
    (isFinalized k h = false → (rpcQueue k h v valid ts).2 = true →
      Eligible (rpcQueue k h v valid ts).1.c h) := by
  constructor
  · intro hf; simp [rpcQueue, hf]
  · intro hf hok
    have hen := enqueue_eligible k.c hI h v ts
    unfold rpcQueue at hok ⊢
    simp only [hf, Bool.false_eq_true, if_false] at hok ⊢
    cases hl : lookup h k.c.payload with
    | some b => simp only [hl]; exact hen.2.1
    | none =>
      simp only [hl] at hok ⊢
      cases valid with
      | true => simp only [if_true]; exact hen.2.1
      | false => simp at hok

/-- the index invariant holds in every state the storage methods can reach -/
theorem orderInv_step (s : S) (hI : OrderInv s) (op : Op) : OrderInv (step s op).1 := by
  cases op with
  | store h v =>
    simp only [step, store]
    cases hl : lookup h s.payload with
    | some b => exact hI
    | none =>
      intro h' hm
      have := hI h' hm
      refine ⟨this.1, ?_⟩
      rcases this.2 with ⟨v', hv'⟩
      by_cases hh : h = h'
      · subst hh; rw [hl] at hv'; cases hv'
      · exact ⟨v', by simp only; rw [lookup_put_other h' h v s.payload hh]; exact hv'⟩
  | queue h v ts => exact (enqueue_eligible s hI h v ts).1
  | retrieve limit =>
    simp only [step, retrieve]
    intro h hm
    simp only [List.mem_filter, decide_eq_true_eq] at hm
    rcases hI h hm.1 with ⟨⟨ts, hq⟩, hv⟩
    refine ⟨⟨ts, ?_⟩, hv⟩
    simp only [List.mem_filter, decide_eq_true_eq]
    refine ⟨hq, ?_⟩
    intro hp
    exact hm.2 (List.mem_map.mpr ⟨(ts, h), hp, rfl⟩)
  | remove hs =>
    simp only [step, remove]
    intro h hm
    simp only [List.mem_filter, decide_eq_true_eq] at hm
    rcases hI h hm.1 with ⟨hq, v, hv⟩
    refine ⟨hq, v, ?_⟩
    have := lookup_filter h (fun k => k ∉ hs) s.payload
    simp only [hm.2, not_false_eq_true, decide_true, if_true] at this
    rw [← hv]; simpa using this
  | get h => exact hI

theorem orderInv_empty : OrderInv empty := by intro h hm; simp [empty] at hm

end Mixin.C23
