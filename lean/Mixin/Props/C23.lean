import Mixin.Model.CacheQueue
/-! # C23 — only queueing makes a cached transaction eligible for proposal -/
namespace Mixin.C23
open Mixin.CacheQueue

/-- storing a body never touches the scheduling records -/
theorem store_not_eligible (s : S) (h : Hash) (v : Body) :
    (step s (.store h v)).1.queue = s.queue ∧ (step s (.store h v)).1.order = s.order := by
  simp only [step, store]
  split <;> simp

end Mixin.C23
