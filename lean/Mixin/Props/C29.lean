import Mixin.Model.Election
import Mixin.Facts.ExpectedC29
import Mixin.Props.C25
/-!
# C29 — operator election is deterministic and never selects the node it removes

Theorems about `Mixin.Model.Election` (model of kernel/election.go, kernel/slash.go and the
hour gate of kernel/custodian.go).
-/
namespace Mixin.C29
open Mixin.Election

/-- The elected id is a function of the accepted-node list at that time and of the day index. -/
theorem elect_function (h1 h2 : List Rec) (epoch op now now' : Nat)
    (hl : nodesList h1 now true = nodesList h2 now' true) (hd : electDay epoch now = electDay epoch now') :
    elect h1 epoch op now = elect h2 epoch op now' := by
  unfold elect
  rw [hl, hd]

theorem inner_length (l : List Rec) : (inner l).length = l.length - 2 := by
  unfold inner
  rw [List.length_take, List.length_drop]; omega

/-- No out-of-range index: for every timestamp (also below the epoch, where the `uint64`
    subtraction wraps) and every elected operation code, with at least the minimum number of
    accepted nodes the election returns a node of `accepted[1 : len-1]`. -/
theorem elect_index_in_range (hist : List Rec) (epoch op now : Nat) (hop : electOps.contains op = true)
    (hn : minNodes ≤ (nodesList hist now true).length) :
    ∃ r ∈ inner (nodesList hist now true), elect hist epoch op now = .id r.id := by
  have h3 := Mixin.Facts.ExpectedC29.min_nodes
  have hlen := inner_length (nodesList hist now true)
  have hpos : 0 < (inner (nodesList hist now true)).length := by omega
  have hidx : (electDay epoch now + op) % (inner (nodesList hist now true)).length <
      (inner (nodesList hist now true)).length := Nat.mod_lt _ hpos
  refine ⟨(inner (nodesList hist now true))[(electDay epoch now + op) % (inner (nodesList hist now true)).length],
    List.getElem_mem hidx, ?_⟩
  unfold elect
  simp only [hop, Bool.not_true, Bool.false_eq_true, if_false]
  rw [if_neg (by omega), List.getElem?_eq_getElem hidx]

/-- Operations that are not elected for get the zero id. -/
theorem elect_other_ops (hist : List Rec) (epoch op now : Nat) (hop : electOps.contains op = false) :
    elect hist epoch op now = .zero := by
  unfold elect; rw [hop]; rfl

theorem elect_id_mem {hist : List Rec} {epoch op now x : Nat} (h : elect hist epoch op now = .id x) :
    ∃ r ∈ inner (nodesList hist now true), r.id = x := by
  unfold elect at h
  split at h
  · cases h
  · simp only at h
    split at h
    · cases h
    · split at h
      · next r hr =>
        cases h
        exact ⟨r, List.mem_of_getElem? hr, rfl⟩
      · cases h

theorem mem_inner_tail {l : List Rec} {r : Rec} (h : r ∈ inner l) : r ∈ l.drop 1 :=
  List.mem_of_mem_take h

theorem mem_inner_dropLast {l : List Rec} {r : Rec} (h : r ∈ inner l) : r ∈ l.dropLast := by
  unfold inner at h
  rw [List.dropLast_eq_take]
  have : (l.drop 1).take (l.length - 2) = (l.take (l.length - 1)).drop 1 := by
    rw [List.drop_take]
    congr 1
  rw [this] at h
  exact List.mem_of_mem_drop h

/-! ### ids in a node list are distinct -/

theorem latest_step_nodup (acc : List Rec) (r : Rec) (h : (acc.map (·.id)).Nodup) :
    (((acc.filter (fun x => x.id != r.id)) ++ [r]).map (·.id)).Nodup := by
  rw [List.map_append, List.nodup_append]
  refine ⟨(List.filter_sublist.map _).nodup h, by simp, ?_⟩
  intro a ha b hb
  simp only [List.map_cons, List.map_nil, List.mem_singleton] at hb
  obtain ⟨x, hx, rfl⟩ := List.mem_map.mp ha
  have := (List.mem_filter.mp hx).2
  subst hb
  simpa using this

theorem latest_nodup (recs : List Rec) : ((latest recs).map (·.id)).Nodup := by
  unfold latest
  suffices ∀ (acc : List Rec), (acc.map (·.id)).Nodup →
      ((recs.foldl (fun acc r => acc.filter (fun x => x.id != r.id) ++ [r]) acc).map (·.id)).Nodup from
    this [] (by simp)
  induction recs with
  | nil => intro acc h; exact h
  | cons r rs ih => intro acc h; exact ih _ (latest_step_nodup acc r h)

theorem insertRec_perm (r : Rec) : ∀ (l : List Rec), (insertRec r l).Perm (r :: l)
  | [] => List.Perm.refl _
  | x :: xs => by
    unfold insertRec
    split
    · exact List.Perm.refl _
    · exact ((insertRec_perm r xs).cons x).trans (List.Perm.swap r x xs)

theorem sortRecs_perm : ∀ (l : List Rec), (sortRecs l).Perm l
  | [] => List.Perm.refl _
  | x :: xs => by
    unfold sortRecs
    exact (insertRec_perm x _).trans ((sortRecs_perm xs).cons x)

theorem nodeSeq_nodup (hist : List Rec) (t : Nat) (ao : Bool) : ((nodeSeq hist t ao).map (·.id)).Nodup := by
  unfold nodeSeq
  have hp := (sortRecs_perm ((latest (hist.takeWhile (fun r => r.ts < t))).filter
    (fun r => !ao || r.state == .accepted))).map (·.id)
  rw [hp.nodup_iff]
  exact (List.filter_sublist.map _).nodup (latest_nodup _)

/-- Every node list the kernel works with has pairwise distinct node ids. -/
theorem nodesList_nodup (hist : List Rec) (t : Nat) (ao : Bool) : ((nodesList hist t ao).map (·.id)).Nodup := by
  unfold nodesList
  split
  · simp
  · exact nodeSeq_nodup _ _ _

/-- The elected node is never the oldest and never the newest accepted node. -/
theorem elect_not_extremes {hist : List Rec} {epoch op now x : Nat} (h : elect hist epoch op now = .id x) :
    (∀ a, (nodesList hist now true).head? = some a → x ≠ a.id) ∧
    (∀ z, (nodesList hist now true).getLast? = some z → x ≠ z.id) := by
  obtain ⟨r, hr, rfl⟩ := elect_id_mem h
  have hnd := nodesList_nodup hist now true
  generalize nodesList hist now true = l at hr hnd
  constructor
  · intro a ha
    cases l with
    | nil => cases ha
    | cons b t =>
      simp only [List.head?_cons, Option.some.injEq] at ha
      subst ha
      have hrt : r ∈ t := by simpa using mem_inner_tail hr
      rw [List.map_cons, List.nodup_cons] at hnd
      intro heq
      exact hnd.1 (heq ▸ List.mem_map_of_mem hrt)
  · intro z hz
    have hrd := mem_inner_dropLast hr
    have hl : l = l.dropLast ++ [z] := by
      have hne : l ≠ [] := by intro h0; subst h0; cases hz
      have hg : l.getLast hne = z := by
        rw [List.getLast?_eq_some_getLast hne] at hz
        exact Option.some.inj hz
      rw [← hg]
      exact (List.dropLast_concat_getLast hne).symm
    rw [hl, List.map_append, List.nodup_append] at hnd
    intro heq
    exact hnd.2.2 r.id (List.mem_map_of_mem hrd) z.id (by simp) heq

/-! ### removal -/

/-- `checkRemovePossibility` never names the asking node itself, and answers only inside the
    accept window, at or after the epoch, while no node is pledging. -/
theorem elect_not_self_removal {hist : List Rec} {epoch p now : Nat} {old : Option Nat} {c : Rec}
    (h : checkRemove hist epoch p now old = some c) :
    c.id ≠ p ∧ acceptHour epoch now = true ∧ epoch ≤ now ∧ pledgingNode hist now = none := by
  unfold checkRemove at h
  split at h
  · cases h
  · next hp =>
    split at h
    · cases h
    · next he =>
      split at h
      · cases h
      · next hh =>
        split at h
        · cases h
        · split at h
          · cases h
          · split at h
            · cases h
            · next c' _ =>
              split at h
              · cases h
              · next hne =>
                cases h
                refine ⟨hne, by simpa using hh, by omega, ?_⟩
                cases hpn : pledgingNode hist now with
                | none => rfl
                | some _ => rw [hpn] at hp; simp at hp

/-- A removal snapshot is only valid when proposed by the elected node, and the node it removes
    is never that proposer: no node is elected to propose its own removal. -/
theorem removal_proposer_not_removed {hist : List Rec} {epoch ts proposer : Nat} {old : Option Nat} {c : Rec}
    (h : removeBy hist epoch ts proposer old = some c) :
    elect hist epoch Mixin.Facts.Gen.common_TransactionTypeNodeRemove ts = .id proposer ∧ c.id ≠ proposer := by
  unfold removeBy at h
  split at h
  · next hg =>
    refine ⟨?_, (elect_not_self_removal h).1⟩
    unfold electedIs at hg
    split at hg
    · cases hg
    · next hz =>
      have := elect_index_in_range hist epoch Mixin.Facts.Gen.common_TransactionTypeNodeRemove ts
        Mixin.Facts.ExpectedC29.remove_elected.1
      unfold elect at hz
      rw [Mixin.Facts.ExpectedC29.remove_elected.1] at hz
      simp only [Bool.not_true, Bool.false_eq_true, if_false] at hz
      split at hz
      · cases hz
      · split at hz <;> cases hz
    · next x hx =>
      split at hg
      · next hxp => rw [hx, hxp]
      · cases hg
  · cases h

/-- the loop of `checkRemovePossibility` without a previous transaction collects the accepted
    records in list order -/
theorem removeLoop_none {now : Nat} : ∀ {l : List Rec} {acc : List Rec} {candi : Option Rec} {acc' : List Rec},
    removeLoop now none l none acc = some (candi, acc') →
      candi = none ∧ acc' = acc ++ l.filter (fun r => r.state == .accepted)
  | [], acc, candi, acc', h => by
    rw [removeLoop] at h; cases h; exact ⟨rfl, by simp⟩
  | cn :: rest, acc, candi, acc', h => by
    rw [removeLoop] at h
    rw [if_neg (by simp)] at h
    split at h
    · cases h
    · split at h
      · cases h
      · cases hs : cn.state <;> rw [hs] at h <;> simp only at h
        · cases h
        · have ih := removeLoop_none h
          refine ⟨ih.1, ?_⟩
          rw [ih.2, List.filter_cons, hs]; simp
        · have ih := removeLoop_none h
          refine ⟨ih.1, ?_⟩
          rw [ih.2, List.filter_cons, hs]; simp
        · have ih := removeLoop_none h
          refine ⟨ih.1, ?_⟩
          rw [ih.2, List.filter_cons, hs]; simp

/-- A fresh removal (no previous transaction) removes the oldest accepted node, and more than
    the minimum number of accepted nodes remain listed. -/
theorem removal_candidate_is_oldest {hist : List Rec} {epoch p now : Nat} {c : Rec}
    (h : checkRemove hist epoch p now none = some c) :
    ((nodesList hist now false).filter (fun r => r.state == .accepted)).head? = some c ∧
      minNodes < ((nodesList hist now false).filter (fun r => r.state == .accepted)).length := by
  unfold checkRemove at h
  split at h
  · cases h
  · split at h
    · cases h
    · split at h
      · cases h
      · split at h
        · cases h
        · next candi accepted hl =>
          have := removeLoop_none hl
          obtain ⟨h1, h2⟩ := this
          subst h1
          simp only [List.nil_append] at h2
          subst h2
          split at h
          · cases h
          · next hlen =>
            split at h
            · cases h
            · next c' hc =>
              split at h
              · cases h
              · cases h
                exact ⟨hc, by omega⟩

/-! ### hour windows -/

theorem hourOf_lt (epoch ts : Nat) : hourOf epoch ts < 24 := Nat.mod_lt _ (by decide)

/-- accept / cancel / remove window -/
theorem accept_window (epoch ts : Nat) :
    acceptHour epoch ts = true ↔ acceptBegin ≤ hourOf epoch ts ∧ hourOf epoch ts ≤ acceptEnd := by
  unfold acceptHour; simp

/-- pledges are valid only outside both the mint window and the accept window -/
theorem pledge_window (epoch ts : Nat) :
    pledgeHour epoch ts = true ↔
      ¬ (mintBegin ≤ hourOf epoch ts ∧ hourOf epoch ts ≤ mintEnd) ∧
      ¬ (acceptBegin ≤ hourOf epoch ts ∧ hourOf epoch ts ≤ acceptEnd) := by
  unfold pledgeHour; simp; omega

theorem pledge_excludes_accept (epoch ts : Nat) (h : pledgeHour epoch ts = true) : acceptHour epoch ts = false := by
  have := (pledge_window epoch ts).mp h
  cases ha : acceptHour epoch ts with
  | false => rfl
  | true => exact absurd ((accept_window epoch ts).mp ha) this.2

/-- a pledge snapshot passes its leading gates only for the elected proposer, at or after the
    epoch, in a pledge hour -/
theorem pledge_gate {hist : List Rec} {epoch ts proposer : Nat} (h : pledgeGate hist epoch ts proposer = .pass) :
    elect hist epoch Mixin.Facts.Gen.common_TransactionTypeNodePledge ts = .id proposer ∧ epoch ≤ ts ∧
      pledgeHour epoch ts = true := by
  unfold pledgeGate at h
  split at h
  · next hg =>
    split at h
    · cases h
    · next he =>
      split at h
      · cases h
      · next hh =>
        refine ⟨?_, by omega, by simpa using hh⟩
        unfold electedIs at hg
        split at hg
        · cases hg
        · next hz =>
          unfold elect at hz
          rw [Mixin.Facts.ExpectedC29.remove_elected.2.1] at hz
          simp only [Bool.not_true, Bool.false_eq_true, if_false] at hz
          split at hz
          · cases hz
          · split at hz <;> cases hz
        · next x hx =>
          split at hg
          · next hxp => rw [hx, hxp]
          · cases hg
  · next g hne => exact absurd h (by intro h'; exact hne (h' ▸ rfl))

/-- a cancel snapshot passes its gates only in the accept window, while a node is pledging,
    between the minimum and the maximum accept period after the pledge -/
theorem cancel_gate {hist : List Rec} {epoch ts : Nat} (h : cancelGate hist epoch ts = .pass) :
    epoch ≤ ts ∧ acceptHour epoch ts = true ∧ ∃ p, pledgingNode hist ts = some p ∧ p.ts ≤ ts ∧
      (acceptPeriodMin : Int) ≤ asInt64 (ts - p.ts) ∧ asInt64 (ts - p.ts) ≤ (acceptPeriodMax : Int) := by
  unfold cancelGate at h
  split at h
  · cases h
  · next he =>
    split at h
    · cases h
    · next p hp =>
      split at h
      · cases h
      · next hh =>
        split at h
        · cases h
        · next hts =>
          simp only at h
          split at h
          · cases h
          · next h1 =>
            split at h
            · cases h
            · next h2 =>
              exact ⟨by omega, by simpa using hh, p, hp, by omega, by omega, by omega⟩

/-- custodian updates pass the hour gate only outside `[mintBegin − 1, mintEnd + 1]` -/
theorem custodian_window {hist : List Rec} {epoch ts proposer : Nat} (h : custodianGate hist epoch ts proposer = .pass) :
    epoch ≤ ts ∧ ((ts - epoch) / hourNs % 24 + 1 < mintBegin ∨ mintEnd + 1 < (ts - epoch) / hourNs % 24) := by
  unfold custodianGate at h
  split at h
  · split at h
    · cases h
    · next he =>
      split at h
      · cases h
      · next hh =>
        refine ⟨by omega, ?_⟩
        unfold custodianHourOk at hh
        simp at hh
        omega
  · next g hne => exact absurd h (by intro h'; exact hne (h' ▸ rfl))

/-- the predicted removal instant is the start of the accept window of the day of `now` -/
theorem prepare_is_window_start {now epoch t : Nat} (h : prepareRemovalTime now epoch = some t)
    (hov : epoch + ((now - epoch) / oneDay * oneDay + acceptBegin * hourNs) < two64) :
    epoch ≤ now ∧ t = epoch + ((now - epoch) / oneDay * oneDay + acceptBegin * hourNs) ∧
      hourOf epoch t = acceptBegin ∧ acceptHour epoch t = true := by
  unfold prepareRemovalTime at h
  split at h
  · cases h
  · next he =>
    simp only at h
    split at h
    · cases h
    · split at h
      · cases h
      · have ht := Option.some.inj h
        rw [← ht, Nat.mod_eq_of_lt hov]
        have hw := Mixin.Facts.ExpectedC29.windows_ordered
        have hh : hourOf epoch (epoch + ((now - epoch) / oneDay * oneDay + acceptBegin * hourNs)) = acceptBegin := by
          unfold hourOf usub
          have e1 : (epoch + ((now - epoch) / oneDay * oneDay + acceptBegin * hourNs) + two64 - epoch % two64) % two64
              = (now - epoch) / oneDay * oneDay + acceptBegin * hourNs := by
            have : epoch % two64 = epoch := Nat.mod_eq_of_lt (by omega)
            rw [this]
            have : epoch + ((now - epoch) / oneDay * oneDay + acceptBegin * hourNs) + two64 - epoch
                = ((now - epoch) / oneDay * oneDay + acceptBegin * hourNs) + two64 := by omega
            rw [this, Nat.add_mod_right]
            exact Nat.mod_eq_of_lt (by omega)
          rw [e1, Mixin.Facts.ExpectedC29.day_is_24h]
          have : (now - epoch) / (24 * hourNs) * (24 * hourNs) + acceptBegin * hourNs
              = (acceptBegin + 24 * ((now - epoch) / (24 * hourNs))) * hourNs := by
            rw [Nat.add_mul, Nat.mul_comm 24 hourNs, ← Nat.mul_assoc, Nat.mul_comm _ 24, Nat.mul_assoc 24, Nat.mul_comm hourNs]
            omega
          rw [this, Nat.mul_div_cancel _ (by decide : 0 < hourNs), Nat.add_mul_mod_self_left]
          exact Nat.mod_eq_of_lt (by omega)
        refine ⟨by omega, rfl, hh, ?_⟩
        rw [accept_window, hh]
        omega

/- mints are only possible inside the mint window: `Mixin.C25.mint_window` (model of
   `checkUniversalMintPossibility`), listed among the theorems of this property. -/

/-! ### non-vacuity -/

def demoHist : List Rec :=
  (List.range 9).map (fun i => ⟨100 - i, i, 1000, .accepted⟩)

example : elect demoHist 1000 9 (1000 + 5 * 86400000000000 + 14 * 3600000000000) = .id 93 := by decide
example : (nodesList demoHist 2000 true).map (·.id) = [92, 93, 94, 95, 96, 97, 98, 99, 100] := by decide
example : (checkRemove demoHist 1000 93 (1000 + 5 * 86400000000000 + 14 * 3600000000000) none).map (·.id) = some 92 := by decide
example : checkRemove demoHist 1000 92 (1000 + 5 * 86400000000000 + 14 * 3600000000000) none = none := by decide
example : acceptHour 1000 (1000 + 13 * 3600000000000) = true ∧ acceptHour 1000 (1000 + 20 * 3600000000000) = false := by decide
example : pledgeGate demoHist 1000 (1000 + 5 * 86400000000000 + 3 * 3600000000000)
    (match elect demoHist 1000 6 (1000 + 5 * 86400000000000 + 3 * 3600000000000) with | .id x => x | _ => 0) = .pass := by decide
example : prepareRemovalTime (1000 + 5 * 86400000000000 + 14 * 3600000000000) 1000 = some (1000 + 5 * 86400000000000 + 13 * 3600000000000) := by decide

end Mixin.C29
