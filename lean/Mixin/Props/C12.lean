import Mixin.Model.Nonce
import Mixin.Facts.ExpectedC12
import Mathlib.Tactic.FieldSimp
import Mathlib.Tactic.Ring
import Mathlib.Tactic.LinearCombination
/-!
# C12 — a CoSi nonce never answers two different challenges

Theorems about `Mixin.Nonce` (model of crypto/nonce.go).  A run is any finite sequence of
`respond` steps on one shared state: goroutines and handle copies only decide the order of
the steps (the challenge of a call is computed from its own arguments before the lock; the
locked section is one step).  That Go's mutex makes the section atomic is an assumption, tied
by the `lock` fact in `Mixin.Facts.ExpectedC12` and by the concurrent harness stream.
-/
namespace Mixin.C12
open Mixin.Cosi Mixin.Nonce

/-- the `(challenge, response)` pairs of the successful calls of a run -/
def answers : List (Option Nat × Nat) → List Outcome → List (Nat × Nat)
  | (some c, _) :: cs, .ok s :: os => (c, s) :: answers cs os
  | _ :: cs, _ :: os => answers cs os
  | _, _ => []

/-! ## single steps -/

/-- a used nonce never changes again -/
theorem respond_used_state (st : State) (x : Option Nat) (y : Nat) (hu : st.used = true) :
    (respond st x y).1 = st := by
  cases x with
  | none => simp [respond]
  | some c =>
    by_cases hc : st.challenge = c <;> simp [respond, hu, hc]

/-- **nonce_other_refused**: once used, any other challenge is refused with the reuse error and
    the state is left exactly as it was. -/
theorem nonce_other_refused (st : State) (c y : Nat) (hu : st.used = true) (hc : st.challenge ≠ c) :
    respond st (some c) y = (st, Outcome.reuse) := by
  simp [respond, hu, hc]

/-- **nonce_repeat_same** (step form): the bound challenge is answered again with the cached
    response, whatever private key the caller passes, and the state is unchanged. -/
theorem nonce_repeat_step (st : State) (y : Nat) (hu : st.used = true) :
    respond st (some st.challenge) y = (st, Outcome.ok st.response) := by
  simp [respond, hu]

/-- a successful step binds the nonce to its challenge and caches the response -/
theorem respond_ok (st st' : State) (x : Option Nat) (y s : Nat)
    (h : respond st x y = (st', Outcome.ok s)) :
    ∃ c, x = some c ∧ st'.used = true ∧ st'.challenge = c ∧ st'.response = s := by
  cases x with
  | none => simp [respond] at h
  | some c =>
    refine ⟨c, rfl, ?_⟩
    by_cases hu : st.used = true
    · by_cases hc : st.challenge = c
      · simp [respond, hu, hc] at h
        obtain ⟨h1, h2⟩ := h
        subst h1
        exact ⟨hu, hc, h2⟩
      · simp [respond, hu, hc] at h
    · have hu' : st.used = false := by simpa using hu
      cases hr : st.random with
      | none => simp [respond, hu', hr] at h
      | some z =>
        simp [respond, hu', hr, response] at h
        obtain ⟨h1, h2⟩ := h
        subst h1
        exact ⟨rfl, rfl, h2⟩

/-- an unsuccessful step leaves the state alone -/
theorem respond_not_ok (st : State) (x : Option Nat) (y : Nat)
    (h : ∀ s, (respond st x y).2 ≠ Outcome.ok s) : (respond st x y).1 = st := by
  cases x with
  | none => simp [respond]
  | some c =>
    by_cases hu : st.used = true
    · exact respond_used_state st _ y hu
    · have hu' : st.used = false := by simpa using hu
      cases hr : st.random with
      | none => simp [respond, hu', hr]
      | some z =>
        exfalso
        apply h ((c * y + z) % ell)
        simp [respond, hu', hr, response]

/-- the first answer of a fresh nonce is `c·y + z (mod ℓ)` and wipes the secret nonce -/
theorem first_answer (z c y : Nat) :
    respond (fresh z) (some c) y =
      ({ used := true, challenge := c, response := (c * y + z) % ell, random := none },
        Outcome.ok ((c * y + z) % ell)) := by
  simp [respond, fresh, response]

/-! ## runs -/

theorem run_cons (st : State) (x : Option Nat) (y : Nat) (rest : List (Option Nat × Nat)) :
    run st ((x, y) :: rest) =
      ((run (respond st x y).1 rest).1, (respond st x y).2 :: (run (respond st x y).1 rest).2) := by
  simp [run]

/-- on a used nonce every call is answered from the state alone: the run is order independent -/
theorem run_used (st : State) (hu : st.used = true) (calls : List (Option Nat × Nat)) :
    (run st calls).1 = st ∧ (run st calls).2 = calls.map (fun p => (respond st p.1 p.2).2) := by
  induction calls with
  | nil => simp [run]
  | cons p rest ih =>
    obtain ⟨x, y⟩ := p
    rw [run_cons, respond_used_state st x y hu]
    exact ⟨ih.1, by simp [ih.2]⟩

/-- all answers of a run on a used nonce are the cached pair -/
theorem answers_used (st : State) (hu : st.used = true) (calls : List (Option Nat × Nat)) :
    ∀ p ∈ answers calls (run st calls).2, p = (st.challenge, st.response) := by
  induction calls with
  | nil => simp [run, answers]
  | cons q rest ih =>
    obtain ⟨x, y⟩ := q
    rw [run_cons, respond_used_state st x y hu]
    intro p hp
    cases x with
    | none => simpa [answers, respond] using ih p (by simpa [answers, respond] using hp)
    | some c =>
      by_cases hc : st.challenge = c
      · simp [respond, hu, hc, answers] at hp
        rcases hp with hp | hp
        · rw [hp, ← hc]
        · exact ih p hp
      · simp [respond, hu, hc, answers] at hp
        exact ih p hp

/-- **the run theorem**: in every run, from every state, all successful calls carry one and the
    same challenge and received one and the same response. -/
theorem answers_all_equal (st : State) (calls : List (Option Nat × Nat)) :
    ∀ p ∈ answers calls (run st calls).2, ∀ q ∈ answers calls (run st calls).2, p = q := by
  induction calls generalizing st with
  | nil => simp [run, answers]
  | cons r rest ih =>
    obtain ⟨x, y⟩ := r
    rw [run_cons]
    cases ho : (respond st x y).2 with
    | ok s =>
      have hpair : respond st x y = ((respond st x y).1, Outcome.ok s) := by rw [← ho]
      obtain ⟨c, hx, hu, hc, hs⟩ := respond_ok st _ x y s hpair
      subst hx
      have hall := answers_used (respond st (some c) y).1 hu rest
      have key : ∀ p ∈ answers ((some c, y) :: rest) (Outcome.ok s :: (run (respond st (some c) y).1 rest).2),
          p = (c, s) := by
        intro p hp
        simp [answers] at hp
        rcases hp with hp | hp
        · exact hp
        · rw [hall p hp, hc, hs]
      intro p hp q hq
      rw [key p hp, key q hq]
    | err =>
      have hst : (respond st x y).1 = st := respond_not_ok st x y (by intro s; rw [ho]; simp)
      rw [hst]
      intro p hp q hq
      have hp' : p ∈ answers rest (run st rest).2 := by cases x <;> simpa [answers] using hp
      have hq' : q ∈ answers rest (run st rest).2 := by cases x <;> simpa [answers] using hq
      exact ih st p hp' q hq'
    | reuse =>
      have hst : (respond st x y).1 = st := respond_not_ok st x y (by intro s; rw [ho]; simp)
      rw [hst]
      intro p hp q hq
      have hp' : p ∈ answers rest (run st rest).2 := by cases x <;> simpa [answers] using hp
      have hq' : q ∈ answers rest (run st rest).2 := by cases x <;> simpa [answers] using hq
      exact ih st p hp' q hq'

/-- **nonce_single_challenge**: over the whole lifetime of a nonce (any number of calls, in any
    order, through any handle copies) all answered challenges are equal. -/
theorem nonce_single_challenge (z : Nat) (calls : List (Option Nat × Nat)) :
    ∀ p ∈ answers calls (run (fresh z) calls).2, ∀ q ∈ answers calls (run (fresh z) calls).2,
      p.1 = q.1 := by
  intro p hp q hq
  rw [answers_all_equal (fresh z) calls p hp q hq]

/-- **nonce_repeat_same**: … and all answers are the identical response. -/
theorem nonce_repeat_same (z : Nat) (calls : List (Option Nat × Nat)) :
    ∀ p ∈ answers calls (run (fresh z) calls).2, ∀ q ∈ answers calls (run (fresh z) calls).2,
      p.2 = q.2 := by
  intro p hp q hq
  rw [answers_all_equal (fresh z) calls p hp q hq]

/-- **no_key_extraction**: no run offers two answers with different challenges, so the
    equation `s₁ − s₂ = (c₁ − c₂)·a` is never available to anybody. -/
theorem no_key_extraction (z : Nat) (calls : List (Option Nat × Nat)) :
    ¬ ∃ p ∈ answers calls (run (fresh z) calls).2, ∃ q ∈ answers calls (run (fresh z) calls).2,
      p.1 ≠ q.1 := by
  rintro ⟨p, hp, q, hq, hne⟩
  exact hne (nonce_single_challenge z calls p hp q hq)

/-- after a run in which some call succeeded, every later call with another challenge is refused
    and the state stays what it was -/
theorem refused_after_answer (z : Nat) (calls : List (Option Nat × Nat)) (c s : Nat)
    (h : (c, s) ∈ answers calls (run (fresh z) calls).2) (c' y : Nat) (hne : c' ≠ c) :
    respond (run (fresh z) calls).1 (some c') y = ((run (fresh z) calls).1, Outcome.reuse) ∧
    respond (run (fresh z) calls).1 (some c) y = ((run (fresh z) calls).1, Outcome.ok s) := by
  -- the final state is used and bound to (c, s)
  have gen : ∀ (st : State) (calls : List (Option Nat × Nat)),
      (c, s) ∈ answers calls (run st calls).2 →
      (run st calls).1.used = true ∧ (run st calls).1.challenge = c ∧ (run st calls).1.response = s := by
    intro st calls
    induction calls generalizing st with
    | nil => simp [run, answers]
    | cons r rest ih =>
      obtain ⟨x, y⟩ := r
      rw [run_cons]
      intro hm
      cases ho : (respond st x y).2 with
      | ok s0 =>
        have hpair : respond st x y = ((respond st x y).1, Outcome.ok s0) := by rw [← ho]
        obtain ⟨c0, hx, hu, hc, hs⟩ := respond_ok st _ x y s0 hpair
        have hfix := (run_used _ hu rest).1
        have hall := answers_used (respond st x y).1 hu rest
        rw [ho] at hm
        subst hx
        simp only [answers, List.mem_cons] at hm
        simp only [hfix]
        rcases hm with hm | hm
        · cases hm
          exact ⟨hu, hc, hs⟩
        · have := hall _ hm
          cases this
          exact ⟨hu, rfl, rfl⟩
      | err =>
        have hst : (respond st x y).1 = st := respond_not_ok st x y (by intro s; rw [ho]; simp)
        rw [ho] at hm
        rw [hst] at hm ⊢
        exact ih st (by cases x <;> simpa [answers] using hm)
      | reuse =>
        have hst : (respond st x y).1 = st := respond_not_ok st x y (by intro s; rw [ho]; simp)
        rw [ho] at hm
        rw [hst] at hm ⊢
        exact ih st (by cases x <;> simpa [answers] using hm)
  obtain ⟨hu, hc, hs⟩ := gen (fresh z) calls h
  constructor
  · exact nonce_other_refused _ c' y hu (by rw [hc]; exact fun e => hne e.symm)
  · have := nonce_repeat_step (run (fresh z) calls).1 y hu
    rw [hc, hs] at this
    exact this

/-- why two answers would be fatal (converse, in any field, e.g. `ZMod ℓ`): from
    `sᵢ = cᵢ·a + z` for two different challenges the private scalar is `(s₁−s₂)/(c₁−c₂)`. -/
theorem two_answers_leak {F : Type} [Field F] (a z c₁ c₂ s₁ s₂ : F)
    (h₁ : s₁ = c₁ * a + z) (h₂ : s₂ = c₂ * a + z) (hne : c₁ ≠ c₂) :
    a = (s₁ - s₂) / (c₁ - c₂) := by
  have hd : c₁ - c₂ ≠ 0 := sub_ne_zero.mpr hne
  field_simp
  rw [h₁, h₂]; ring

/-! ## chain bookkeeping (kernel/cosi.go): a nonce is handed out for one snapshot only -/

theorem lookup_cons_eq' (a b : Nat) (t : List (Nat × Nat)) : ((a, b) :: t).lookup a = some b := by
  simp [List.lookup]

theorem lookup_cons_ne' (k a b : Nat) (t : List (Nat × Nat)) (h : k ≠ a) :
    ((a, b) :: t).lookup k = t.lookup k := by
  have : (k == a) = false := by simpa using h
  simp [List.lookup, this]

theorem lookup_assocSet (k v k' : Nat) (l : List (Nat × Nat)) :
    (assocSet k v l).lookup k' = if k' = k then some v else l.lookup k' := by
  induction l with
  | nil =>
    by_cases h : k' = k
    · subst h; simp [assocSet, lookup_cons_eq']
    · simp [assocSet, lookup_cons_ne' _ _ _ _ h, h]
  | cons p t ih =>
    obtain ⟨a, b⟩ := p
    by_cases ha : a = k
    · subst ha
      by_cases h : k' = a
      · subst h; simp [assocSet, lookup_cons_eq']
      · simp [assocSet, lookup_cons_ne' _ _ _ _ h, h]
    · by_cases h : k' = k
      · subst h
        have hne : k' ≠ a := fun e => ha e.symm
        simp only [assocSet, ha, if_false, lookup_cons_ne' _ _ _ _ hne, ih, if_true]
      · by_cases h2 : k' = a
        · subst h2
          simp only [assocSet, ha, if_false, lookup_cons_eq', h]
        · simp only [assocSet, ha, if_false, lookup_cons_ne' _ _ _ _ h2, ih, h]

theorem lookup_assocDel_self (k : Nat) (l : List (Nat × Nat)) : (assocDel k l).lookup k = none := by
  induction l with
  | nil => simp [assocDel]
  | cons q u ih =>
    obtain ⟨c, d⟩ := q
    by_cases hc : c = k
    · have : assocDel k ((c, d) :: u) = assocDel k u := by simp [assocDel, hc]
      rw [this]; exact ih
    · have : assocDel k ((c, d) :: u) = (c, d) :: assocDel k u := by simp [assocDel, hc]
      rw [this, lookup_cons_ne' _ _ _ _ (fun e => hc e.symm)]; exact ih

theorem lookup_assocDel (k k' v : Nat) (l : List (Nat × Nat))
    (h : (assocDel k l).lookup k' = some v) : l.lookup k' = some v := by
  induction l with
  | nil => simp [assocDel] at h
  | cons p t ih =>
    obtain ⟨a, b⟩ := p
    by_cases ha : a = k
    · have e : assocDel k ((a, b) :: t) = assocDel k t := by simp [assocDel, ha]
      rw [e] at h
      have hk : k' ≠ a := by
        intro e2
        rw [e2, ha, lookup_assocDel_self] at h
        exact absurd h (by simp)
      rw [lookup_cons_ne' _ _ _ _ hk]
      exact ih h
    · have e : assocDel k ((a, b) :: t) = (a, b) :: assocDel k t := by simp [assocDel, ha]
      rw [e] at h
      by_cases h2 : k' = a
      · subst h2
        rw [lookup_cons_eq'] at h ⊢
        exact h
      · rw [lookup_cons_ne' _ _ _ _ h2] at h ⊢
        exact ih h

/-- ghost invariant: `H` lists the `(nonce, snapshot)` pairs handed out so far -/
structure BookInv (b : Book) (H : List (Nat × Nat)) : Prop where
  nodup : b.randoms.Nodup
  gone : ∀ p ∈ H, p.1 ∉ b.randoms
  retained : ∀ s c, b.used.lookup s = some c → (c, s) ∈ H
  functional : ∀ p ∈ H, ∀ q ∈ H, p.1 = q.1 → p.2 = q.2

theorem evict_used_cases (maxR : Nat) (randoms : List Nat) (used : List (Nat × Nat)) (order : List Nat) :
    (evict maxR randoms used order).used = used ∨
    ∃ o, (evict maxR randoms used order).used = assocDel o used := by
  unfold evict
  by_cases h : order.length ≤ maxR
  · rw [if_pos h]; left; rfl
  · rw [if_neg h]
    cases order with
    | nil => left; rfl
    | cons o rest => right; exact ⟨o, rfl⟩

theorem evict_randoms (maxR : Nat) (randoms : List Nat) (used : List (Nat × Nat)) (order : List Nat) :
    (evict maxR randoms used order).randoms = randoms := by
  unfold evict
  by_cases h : order.length ≤ maxR
  · rw [if_pos h]
  · rw [if_neg h]
    cases order <;> rfl

theorem retain_used_cases (maxR : Nat) (b : Book) (snap c : Nat) :
    (retain maxR b snap c).used = assocSet snap c b.used ∨
    ∃ o, (retain maxR b snap c).used = assocDel o (assocSet snap c b.used) := by
  unfold retain
  exact evict_used_cases _ _ _ _

theorem retain_lookup (maxR : Nat) (b : Book) (snap c s c' : Nat)
    (h : (retain maxR b snap c).used.lookup s = some c') :
    (s = snap ∧ c' = c) ∨ b.used.lookup s = some c' := by
  have hset : ∀ s c', (assocSet snap c b.used).lookup s = some c' →
      (s = snap ∧ c' = c) ∨ b.used.lookup s = some c' := by
    intro s c' h
    rw [lookup_assocSet] at h
    by_cases hs : s = snap
    · left; simp [hs] at h; exact ⟨hs, h.symm⟩
    · right; simpa [hs] using h
  rcases retain_used_cases maxR b snap c with e | ⟨o, e⟩
  · rw [e] at h; exact hset s c' h
  · rw [e] at h; exact hset s c' (lookup_assocDel _ _ _ _ h)

theorem retain_randoms (maxR : Nat) (b : Book) (snap c : Nat) :
    (retain maxR b snap c).randoms = b.randoms := by
  unfold retain
  exact evict_randoms _ _ _ _

/-- one `cosiRetrieveRandom` step preserves the invariant; a handed-out nonce is recorded -/
theorem retrieve_inv (maxR : Nat) (b : Book) (H : List (Nat × Nat)) (snap c : Nat)
    (inv : BookInv b H) :
    BookInv (retrieve maxR b snap c).1
      (match (retrieve maxR b snap c).2 with | some k => (k, snap) :: H | none => H) := by
  unfold retrieve
  by_cases h1 : b.used.lookup snap = some c
  · simp only [h1, if_true]
    have hin : (c, snap) ∈ H := inv.retained snap c h1
    refine ⟨inv.nodup, ?_, ?_, ?_⟩
    · intro p hp
      rcases List.mem_cons.1 hp with rfl | hp
      · exact inv.gone _ hin
      · exact inv.gone p hp
    · intro s c' h; exact List.mem_cons_of_mem _ (inv.retained s c' h)
    · intro p hp q hq hpq
      have hp' : p ∈ H := by rcases List.mem_cons.1 hp with rfl | hp; exact hin; exact hp
      have hq' : q ∈ H := by rcases List.mem_cons.1 hq with rfl | hq; exact hin; exact hq
      exact inv.functional p hp' q hq' hpq
  · simp only [h1, if_false]
    by_cases h2 : b.randoms.contains c = true
    · simp only [h2, if_true]
      have hc : c ∈ b.randoms := by simpa using h2
      have hfresh : ∀ p ∈ H, p.1 ≠ c := fun p hp e => inv.gone p hp (e ▸ hc)
      refine ⟨?_, ?_, ?_, ?_⟩
      · show ((retain maxR b snap c).randoms.filter (· ≠ c)).Nodup
        rw [retain_randoms]
        exact inv.nodup.filter _
      · intro p hp
        show p.1 ∉ (retain maxR b snap c).randoms.filter (· ≠ c)
        rw [retain_randoms]
        rcases List.mem_cons.1 hp with rfl | hp
        · simp
        · intro hm
          exact inv.gone p hp (List.mem_filter.1 hm).1
      · intro s c' h
        rcases retain_lookup maxR b snap c s c' h with ⟨rfl, rfl⟩ | h
        · exact List.mem_cons_self
        · exact List.mem_cons_of_mem _ (inv.retained s c' h)
      · intro p hp q hq hpq
        rcases List.mem_cons.1 hp with rfl | hp
        · rcases List.mem_cons.1 hq with rfl | hq
          · rfl
          · exact absurd hpq.symm (hfresh q hq)
        · rcases List.mem_cons.1 hq with rfl | hq
          · exact absurd hpq (hfresh p hp)
          · exact inv.functional p hp q hq hpq
    · simp only [h2]
      exact inv

/-- a run of `cosiRetrieveRandom` calls `(snapshot, commitment)`; returns the final book and the
    `(nonce, snapshot)` pairs handed out, latest first -/
def runBook (maxR : Nat) : Book → List (Nat × Nat) → List (Nat × Nat) → Book × List (Nat × Nat)
  | b, [], H => (b, H)
  | b, (snap, c) :: rest, H =>
    let r := retrieve maxR b snap c
    runBook maxR r.1 rest (match r.2 with | some k => (k, snap) :: H | none => H)

theorem runBook_inv (maxR : Nat) (b : Book) (ops : List (Nat × Nat)) (H : List (Nat × Nat))
    (inv : BookInv b H) : BookInv (runBook maxR b ops H).1 (runBook maxR b ops H).2 := by
  induction ops generalizing b H with
  | nil => exact inv
  | cons op rest ih =>
    obtain ⟨snap, c⟩ := op
    exact ih _ _ (retrieve_inv maxR b H snap c inv)

/-- **retrieve_binds**: starting from a chain with unused nonces only, whatever sequence of
    challenges arrives (for any retention bound), a nonce is never handed out for two different
    snapshots: it leaves `CosiRandoms` when first handed out and is afterwards only reachable
    through `UsedRandoms[snapshot]`. -/
theorem retrieve_binds (maxR : Nat) (randoms : List Nat) (hnd : randoms.Nodup) (ops : List (Nat × Nat)) :
    ∀ p ∈ (runBook maxR { randoms := randoms, used := [], order := [] } ops []).2,
    ∀ q ∈ (runBook maxR { randoms := randoms, used := [], order := [] } ops []).2,
      p.1 = q.1 → p.2 = q.2 :=
  (runBook_inv maxR _ ops [] ⟨hnd, by simp, by simp [List.lookup], by simp⟩).functional

/-- the nonce handed out is the one whose commitment was asked for -/
theorem retrieve_commitment (maxR : Nat) (b : Book) (snap c k : Nat)
    (h : (retrieve maxR b snap c).2 = some k) : k = c := by
  unfold retrieve at h
  by_cases h1 : b.used.lookup snap = some c
  · rw [if_pos h1] at h
    exact (Option.some.inj h).symm
  · rw [if_neg h1] at h
    by_cases h2 : b.randoms.contains c = true
    · rw [if_pos h2] at h
      exact (Option.some.inj h).symm
    · rw [if_neg h2] at h
      exact absurd h (by simp)

example : (runBook 2 { randoms := [1, 2, 3], used := [], order := [] }
    [(10, 1), (10, 1), (11, 1), (11, 2), (12, 3), (10, 1)] []).2 = [(3, 12), (2, 11), (1, 10), (1, 10)] := by
  decide

/-! ## non-vacuity -/

example : (run (fresh 7) [(some 3, 5), (some 4, 5), (none, 5), (some 3, 9)]).2 =
    [Outcome.ok 22, Outcome.reuse, Outcome.err, Outcome.ok 22] := by decide

example : answers [(some 3, 5), (some 4, 5), (none, 5), (some 3, 9)]
    (run (fresh 7) [(some 3, 5), (some 4, 5), (none, 5), (some 3, 9)]).2 = [(3, 22), (3, 22)] := by decide

end Mixin.C12
