import Mixin.Model.Nonce
/-! # C12 — a CoSi nonce never answers two different challenges (first cut) -/
namespace Mixin.C12
open Mixin.Cosi Mixin.Nonce

/-- once used, any other challenge is refused and the state is unchanged -/
theorem nonce_other_refused (st : State) (c y : Nat) (hu : st.used = true) (hc : st.challenge ≠ c) :
    respond st (some c) y = (st, Outcome.reuse) := by
  simp [respond, hu, hc]

end Mixin.C12
