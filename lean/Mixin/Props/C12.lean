import Mixin.Model.Nonce
import Mathlib.Tactic.FieldSimp
import Mathlib.Tactic.Ring
import Mathlib.Tactic.LinearCombination
/-!
# C12 — a CoSi nonce never answers two different challenges

Theorems about `Mixin.Nonce` (model of crypto/nonce.go).  A run is any finite sequence of
`respond` steps on one shared state: goroutines and handle copies only decide the order of
the steps (the challenge of a call is computed from its own arguments before the lock; the
locked section is one step).  That Go's mutex makes the section atomic is an assumption, tied
by the `lock` fact in `Mixin.Facts.ExpectedC12` and by the concurrent harness stream.
-/
namespace Mixin.C12
open Mixin.Cosi Mixin.Nonce

/-- the `(challenge, response)` pairs of the successful calls of a run -/
def answers : List (Option Nat × Nat) → List Outcome → List (Nat × Nat)
  | (some c, _) :: cs, .ok s :: os => (c, s) :: answers cs os
  | _ :: cs, _ :: os => answers cs os
  | _, _ => []

/-! ## single steps -/

/-- a used nonce never changes again -/
theorem respond_used_state (st : State) (x : Option Nat) (y : Nat) (hu : st.used = true) :
    (respond st x y).1 = st := by
  cases x with
  | none => simp [respond]
  | some c =>
    by_cases hc : st.challenge = c <;> simp [respond, hu, hc]

/-- **nonce_other_refused**: once used, any other challenge is refused with the reuse error and
    the state is left exactly as it was. -/
theorem nonce_other_refused (st : State) (c y : Nat) (hu : st.used = true) (hc : st.challenge ≠ c) :
    respond st (some c) y = (st, Outcome.reuse) := by
  simp [respond, hu, hc]

/-- **nonce_repeat_same** (step form): the bound challenge is answered again with the cached
    response, whatever private key the caller passes, and the state is unchanged. -/
theorem nonce_repeat_step (st : State) (y : Nat) (hu : st.used = true) :
    respond st (some st.challenge) y = (st, Outcome.ok st.response) := by
  simp [respond, hu]

/-- a successful step binds the nonce to its challenge and caches the response -/
theorem respond_ok (st st' : State) (x : Option Nat) (y s : Nat)
    (h : respond st x y = (st', Outcome.ok s)) :
    ∃ c, x = some c ∧ st'.used = true ∧ st'.challenge = c ∧ st'.response = s := by
  cases x with
  | none => simp [respond] at h
  | some c =>
    refine ⟨c, rfl, ?_⟩
    by_cases hu : st.used = true
    · by_cases hc : st.challenge = c
      · simp [respond, hu, hc] at h
        obtain ⟨h1, h2⟩ := h
        subst h1
        exact ⟨hu, hc, h2⟩
      · simp [respond, hu, hc] at h
    · have hu' : st.used = false := by simpa using hu
      cases hr : st.random with
      | none => simp [respond, hu', hr] at h
      | some z =>
        simp [respond, hu', hr, response] at h
        obtain ⟨h1, h2⟩ := h
        subst h1
        exact ⟨rfl, rfl, h2⟩

/-- an unsuccessful step leaves the state alone -/
theorem respond_not_ok (st : State) (x : Option Nat) (y : Nat)
    (h : ∀ s, (respond st x y).2 ≠ Outcome.ok s) : (respond st x y).1 = st := by
  cases x with
  | none => simp [respond]
  | some c =>
    by_cases hu : st.used = true
    · exact respond_used_state st _ y hu
    · have hu' : st.used = false := by simpa using hu
      cases hr : st.random with
      | none => simp [respond, hu', hr]
      | some z =>
        exfalso
        apply h ((c * y + z) % ell)
        simp [respond, hu', hr, response]

/-- the first answer of a fresh nonce is `c·y + z (mod ℓ)` and wipes the secret nonce -/
theorem first_answer (z c y : Nat) :
    respond (fresh z) (some c) y =
      ({ used := true, challenge := c, response := (c * y + z) % ell, random := none },
        Outcome.ok ((c * y + z) % ell)) := by
  simp [respond, fresh, response]

/-! ## runs -/

theorem run_cons (st : State) (x : Option Nat) (y : Nat) (rest : List (Option Nat × Nat)) :
    run st ((x, y) :: rest) =
      ((run (respond st x y).1 rest).1, (respond st x y).2 :: (run (respond st x y).1 rest).2) := by
  simp [run]

/-- on a used nonce every call is answered from the state alone: the run is order independent -/
theorem run_used (st : State) (hu : st.used = true) (calls : List (Option Nat × Nat)) :
    (run st calls).1 = st ∧ (run st calls).2 = calls.map (fun p => (respond st p.1 p.2).2) := by
  induction calls with
  | nil => simp [run]
  | cons p rest ih =>
    obtain ⟨x, y⟩ := p
    rw [run_cons, respond_used_state st x y hu]
    exact ⟨ih.1, by simp [ih.2]⟩

/-- all answers of a run on a used nonce are the cached pair -/
theorem answers_used (st : State) (hu : st.used = true) (calls : List (Option Nat × Nat)) :
    ∀ p ∈ answers calls (run st calls).2, p = (st.challenge, st.response) := by
  induction calls with
  | nil => simp [run, answers]
  | cons q rest ih =>
    obtain ⟨x, y⟩ := q
    rw [run_cons, respond_used_state st x y hu]
    intro p hp
    cases x with
    | none => simpa [answers, respond] using ih p (by simpa [answers, respond] using hp)
    | some c =>
      by_cases hc : st.challenge = c
      · simp [respond, hu, hc, answers] at hp
        rcases hp with hp | hp
        · rw [hp, ← hc]
        · exact ih p hp
      · simp [respond, hu, hc, answers] at hp
        exact ih p hp

/-- **the run theorem**: in every run, from every state, all successful calls carry one and the
    same challenge and received one and the same response. -/
theorem answers_all_equal (st : State) (calls : List (Option Nat × Nat)) :
    ∀ p ∈ answers calls (run st calls).2, ∀ q ∈ answers calls (run st calls).2, p = q := by
  induction calls generalizing st with
  | nil => simp [run, answers]
  | cons r rest ih =>
    obtain ⟨x, y⟩ := r
    rw [run_cons]
    cases ho : (respond st x y).2 with
    | ok s =>
      have hpair : respond st x y = ((respond st x y).1, Outcome.ok s) := by rw [← ho]
      obtain ⟨c, hx, hu, hc, hs⟩ := respond_ok st _ x y s hpair
      subst hx
      have hall := answers_used (respond st (some c) y).1 hu rest
      have key : ∀ p ∈ answers ((some c, y) :: rest) (Outcome.ok s :: (run (respond st (some c) y).1 rest).2),
          p = (c, s) := by
        intro p hp
        simp [answers] at hp
        rcases hp with hp | hp
        · exact hp
        · rw [hall p hp, hc, hs]
      intro p hp q hq
      rw [key p hp, key q hq]
    | err =>
      have hst : (respond st x y).1 = st := respond_not_ok st x y (by intro s; rw [ho]; simp)
      rw [hst]
      intro p hp q hq
      have hp' : p ∈ answers rest (run st rest).2 := by cases x <;> simpa [answers] using hp
      have hq' : q ∈ answers rest (run st rest).2 := by cases x <;> simpa [answers] using hq
      exact ih st p hp' q hq'
    | reuse =>
      have hst : (respond st x y).1 = st := respond_not_ok st x y (by intro s; rw [ho]; simp)
      rw [hst]
      intro p hp q hq
      have hp' : p ∈ answers rest (run st rest).2 := by cases x <;> simpa [answers] using hp
      have hq' : q ∈ answers rest (run st rest).2 := by cases x <;> simpa [answers] using hq
      exact ih st p hp' q hq'

/-- **nonce_single_challenge**: over the whole lifetime of a nonce (any number of calls, in any
    order, through any handle copies) all answered challenges are equal. -/
theorem nonce_single_challenge (z : Nat) (calls : List (Option Nat × Nat)) :
    ∀ p ∈ answers calls (run (fresh z) calls).2, ∀ q ∈ answers calls (run (fresh z) calls).2,
      p.1 = q.1 := by
  intro p hp q hq
  rw [answers_all_equal (fresh z) calls p hp q hq]

/-- **nonce_repeat_same**: … and all answers are the identical response. -/
theorem nonce_repeat_same (z : Nat) (calls : List (Option Nat × Nat)) :
    ∀ p ∈ answers calls (run (fresh z) calls).2, ∀ q ∈ answers calls (run (fresh z) calls).2,
      p.2 = q.2 := by
  intro p hp q hq
  rw [answers_all_equal (fresh z) calls p hp q hq]

/-- **no_key_extraction**: no run offers two answers with different challenges, so the
    equation `s₁ − s₂ = (c₁ − c₂)·a` is never available to anybody. -/
theorem no_key_extraction (z : Nat) (calls : List (Option Nat × Nat)) :
    ¬ ∃ p ∈ answers calls (run (fresh z) calls).2, ∃ q ∈ answers calls (run (fresh z) calls).2,
      p.1 ≠ q.1 := by
  rintro ⟨p, hp, q, hq, hne⟩
  exact hne (nonce_single_challenge z calls p hp q hq)

/-- after a run in which some call succeeded, every later call with another challenge is refused
    and the state stays what it was -/
theorem refused_after_answer (z : Nat) (calls : List (Option Nat × Nat)) (c s : Nat)
    (h : (c, s) ∈ answers calls (run (fresh z) calls).2) (c' y : Nat) (hne : c' ≠ c) :
    respond (run (fresh z) calls).1 (some c') y = ((run (fresh z) calls).1, Outcome.reuse) ∧
    respond (run (fresh z) calls).1 (some c) y = ((run (fresh z) calls).1, Outcome.ok s) := by
  -- the final state is used and bound to (c, s)
  have gen : ∀ (st : State) (calls : List (Option Nat × Nat)),
      (c, s) ∈ answers calls (run st calls).2 →
      (run st calls).1.used = true ∧ (run st calls).1.challenge = c ∧ (run st calls).1.response = s := by
    intro st calls
    induction calls generalizing st with
    | nil => simp [run, answers]
    | cons r rest ih =>
      obtain ⟨x, y⟩ := r
      rw [run_cons]
      intro hm
      cases ho : (respond st x y).2 with
      | ok s0 =>
        have hpair : respond st x y = ((respond st x y).1, Outcome.ok s0) := by rw [← ho]
        obtain ⟨c0, hx, hu, hc, hs⟩ := respond_ok st _ x y s0 hpair
        have hfix := (run_used _ hu rest).1
        have hall := answers_used (respond st x y).1 hu rest
        rw [ho] at hm
        subst hx
        simp only [answers, List.mem_cons] at hm
        simp only [hfix]
        rcases hm with hm | hm
        · cases hm
          exact ⟨hu, hc, hs⟩
        · have := hall _ hm
          cases this
          exact ⟨hu, rfl, rfl⟩
      | err =>
        have hst : (respond st x y).1 = st := respond_not_ok st x y (by intro s; rw [ho]; simp)
        rw [ho] at hm
        rw [hst] at hm ⊢
        exact ih st (by cases x <;> simpa [answers] using hm)
      | reuse =>
        have hst : (respond st x y).1 = st := respond_not_ok st x y (by intro s; rw [ho]; simp)
        rw [ho] at hm
        rw [hst] at hm ⊢
        exact ih st (by cases x <;> simpa [answers] using hm)
  obtain ⟨hu, hc, hs⟩ := gen (fresh z) calls h
  constructor
  · exact nonce_other_refused _ c' y hu (by rw [hc]; exact fun e => hne e.symm)
  · have := nonce_repeat_step (run (fresh z) calls).1 y hu
    rw [hc, hs] at this
    exact this

/-- why two answers would be fatal (converse, in any field, e.g. `ZMod ℓ`): from
    `sᵢ = cᵢ·a + z` for two different challenges the private scalar is `(s₁−s₂)/(c₁−c₂)`. -/
theorem two_answers_leak {F : Type} [Field F] (a z c₁ c₂ s₁ s₂ : F)
    (h₁ : s₁ = c₁ * a + z) (h₂ : s₂ = c₂ * a + z) (hne : c₁ ≠ c₂) :
    a = (s₁ - s₂) / (c₁ - c₂) := by
  have hd : c₁ - c₂ ≠ 0 := sub_ne_zero.mpr hne
  field_simp
  rw [h₁, h₂]; ring

/-! ## non-vacuity -/

example : (run (fresh 7) [(some 3, 5), (some 4, 5), (none, 5), (some 3, 9)]).2 =
    [Outcome.ok 22, Outcome.reuse, Outcome.err, Outcome.ok 22] := by decide

example : answers [(some 3, 5), (some 4, 5), (none, 5), (some 3, 9)]
    (run (fresh 7) [(some 3, 5), (some 4, 5), (none, 5), (some 3, 9)]).2 = [(3, 22), (3, 22)] := by decide

end Mixin.C12
