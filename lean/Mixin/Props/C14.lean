import Mixin.Model.AggSig
import Mixin.Proofs.Cosi
/-!
# C14 — aggregate transaction signatures are sound and bound to their signer set

Theorems about `Mixin.AggSig` (model of crypto/aggregation.go, tied by the `aggsig`
correspondence stream):

* `agg_complete`     what `AggregateSign` produces verifies for the same key vector, signer list,
                     coefficients and challenge;
* `agg_rejects_malformed`  empty / unsorted / duplicated / out-of-range / undecodable signer lists are
                     errors in sign, verify and transcript;
* `agg_algebra`      `AggregateVerify` accepts iff `S•B = R + x • Σ wᵢ•Aᵢ` (R, ΣwᵢAᵢ ≠ identity, S canonical);
* `transcript_inj`   the transcript bytes determine the signer list and the selected keys.

NOT theorems (unforgeability / rogue-key claims): "fails if key vector, signer set or message
changes", "a subset of private keys cannot sign for a larger set".  They are exercised on the
real code only (property mode of the `aggsig` stream).
-/
namespace Mixin.C14
open Mixin.Cosi Mixin.AggSig

/-! ## malformed signer lists -/

/-- the conditions `collectAggregateSigners` enforces -/
def Malformed (publics : List Pt) (signers : List Int) : Prop :=
  signers = [] ∨ ¬ signers.Pairwise (· < ·) ∨
    ∃ i ∈ signers, i < 0 ∨ (publics.length : Int) ≤ i ∨ (publics.getD i.toNat Pt.bad).decode = none

/-- **agg_rejects_malformed**: an empty list, a list that is not strictly increasing (unsorted or
    with a duplicate), an index outside the key vector or a refused key is an error in
    `AggregateSign`, `AggregateVerify` and in the transcript construction. -/
theorem agg_rejects_malformed (publics : List Pt) (signers : List Int) (h : Malformed publics signers) :
    (∀ privs seedLen w z x, sign privs publics signers seedLen w z x = none) ∧
    (∀ R S w x, verify R S publics signers w x = false) ∧
    (∀ kb, transcript publics kb signers = none) := by
  have hc : collectSigners publics signers = none := collectSigners_eq_none publics signers h
  refine ⟨?_, ?_, ?_⟩
  · intro privs seedLen w z x
    unfold sign
    by_cases h1 : privs.length ≠ signers.length
    · rw [if_pos h1]
    · rw [if_neg h1]
      by_cases h2 : seedLen < 32
      · rw [if_pos h2]
      · rw [if_neg h2, hc]
  · intro R S w x
    unfold verify weightedKey
    rw [hc]; rfl
  · intro kb
    unfold transcript
    rw [hc]

/-- a duplicated signer is malformed -/
theorem duplicate_malformed (publics : List Pt) (l₁ l₂ l₃ : List Int) (i : Int) :
    Malformed publics (l₁ ++ i :: l₂ ++ i :: l₃) := by
  right; left
  intro hp
  have hp' : (l₁ ++ (i :: (l₂ ++ i :: l₃))).Pairwise (· < ·) := by simpa using hp
  have := (List.pairwise_append.1 hp').2.1
  have h2 := (List.pairwise_cons.1 this).1 i (by simp)
  omega

/-- conversely a well-formed list is accepted (the rejection is exact) -/
theorem wellformed_accepted (publics : List Pt) (signers : List Int) (h : ¬ Malformed publics signers) :
    (collectSigners publics signers).isSome = true := by
  rw [collectSigners_isSome_iff]
  unfold Malformed at h
  simp only [not_or, not_exists, not_and, not_not] at h
  obtain ⟨h1, h2, h3⟩ := h
  refine ⟨h1, h2, fun i hi => ?_⟩
  obtain ⟨a, b, c⟩ := h3 i hi
  exact ⟨by omega, by omega, c⟩

/-! ## verification is the group equation -/

/-- **agg_algebra**: `AggregateVerify` accepts iff the signer list is well formed and
    `S = r + x·Σ wᵢ aᵢ (mod ℓ)` for the discrete logs `r` of `R` and `aᵢ` of the selected keys,
    with `R` and the weighted key not the identity and `S` canonical. -/
theorem agg_algebra (R : Pt) (S : Nat) (publics : List Pt) (signers : List Int) (w : List Nat) (x : Nat) :
    verify R S publics signers w x = true ↔
      ∃ sel A r, collectSigners publics signers = some sel ∧ A = weightedSum sel w % ell ∧ A ≠ 0 ∧
        R.decode = some r ∧ S < ell ∧ S = (r + x * A) % ell := by
  unfold verify weightedKey
  cases hc : collectSigners publics signers with
  | none => simp
  | some sel =>
    simp only [Option.map_some]
    rw [verifyWithChallenge_iff]
    constructor
    · rintro ⟨a, r, ha, hr, hlt, hs⟩
      obtain ⟨e, he, hae, hane, _⟩ := decode_some ha
      cases he
      exact ⟨sel, a, r, rfl, hae, hane, hr, hlt, hs⟩
    · rintro ⟨sel', A, r, hsel, hA, hne, hr, hlt, hs⟩
      cases hsel
      refine ⟨A, r, ?_, hr, hlt, hs⟩
      rw [hA]
      exact decode_dl _ (by rw [← hA]; exact hne)

/-! ## completeness -/

theorem signLoop_eq (publics : List Pt) (signers : List Int) (privs : List (Option Nat)) (ys : List Nat)
    (h : signLoop publics signers privs = some ys) :
    ys = signers.map (fun i => dlAt publics i.toNat) := by
  induction signers generalizing privs ys with
  | nil =>
    simp [signLoop] at h
    simp [h]
  | cons i rest ih =>
    cases privs with
    | nil => simp [signLoop] at h
    | cons p ps =>
      unfold signLoop at h
      by_cases h1 : i > 0xFFFF
      · rw [if_pos h1] at h; exact absurd h (by simp)
      · rw [if_neg h1] at h
        cases p with
        | none => exact absurd h (by simp)
        | some y =>
          simp only at h
          by_cases h2 : y ≥ ell
          · rw [if_pos h2] at h; exact absurd h (by simp)
          · rw [if_neg h2] at h
            by_cases h3 : (publics.getD i.toNat Pt.bad).decode ≠ some y
            · rw [if_pos h3] at h; exact absurd h (by simp)
            · rw [if_neg h3] at h
              have h3' : (publics.getD i.toNat Pt.bad).decode = some y := not_not.1 h3
              cases hr : signLoop publics rest ps with
              | none => rw [hr] at h; exact absurd h (by simp)
              | some ys' =>
                rw [hr] at h
                simp only [Option.map_some, Option.some.injEq] at h
                rw [← h, ih ps ys' hr]
                simp only [List.map_cons, dlAt, h3', Option.getD_some]

theorem weightedSum_eq_dot (sel : List (Nat × Nat)) (w : List Nat) :
    weightedSum sel w = dot w (sel.map (·.2)) := by
  induction sel generalizing w with
  | nil => cases w <;> simp [weightedSum, dot]
  | cons p t ih =>
    obtain ⟨i, a⟩ := p
    cases w with
    | nil => simp [weightedSum, dot]
    | cons v vs => simp [weightedSum, dot, ih vs]

/-- **agg_complete**: whatever `AggregateSign` returns for `(keys, signers, message)` — i.e. for
    the coefficients `w` and the challenge `x` derived from them — is accepted by
    `AggregateVerify` for the same inputs, provided the nonce sum and the weighted key are not
    the identity (`decodePoint` refuses it; both are hash-dependent values). -/
theorem agg_complete (privs : List (Option Nat)) (publics : List Pt) (signers : List Int)
    (seedLen : Nat) (w : List Nat) (z x : Nat) (R : Pt) (S : Nat)
    (h : sign privs publics signers seedLen w z x = some (R, S))
    (hz : z % ell ≠ 0)
    (hA : ∀ sel, collectSigners publics signers = some sel → weightedSum sel w % ell ≠ 0) :
    verify R S publics signers w x = true := by
  unfold sign at h
  by_cases h1 : privs.length ≠ signers.length
  · rw [if_pos h1] at h; exact absurd h (by simp)
  · rw [if_neg h1] at h
    by_cases h2 : seedLen < 32
    · rw [if_pos h2] at h; exact absurd h (by simp)
    · rw [if_neg h2] at h
      cases hc : collectSigners publics signers with
      | none => rw [hc] at h; exact absurd h (by simp)
      | some sel =>
        rw [hc] at h
        simp only at h
        cases hl : signLoop publics signers privs with
        | none => rw [hl] at h; exact absurd h (by simp)
        | some ys =>
          rw [hl] at h
          simp only [Option.some.injEq, Prod.mk.injEq] at h
          obtain ⟨hR, hS⟩ := h
          have hys := signLoop_eq publics signers privs ys hl
          -- the selected discrete logs are the private scalars
          have hsel : sel.map (·.2) = ys := by
            have hs : (collectSigners publics signers).isSome := by rw [hc]; rfl
            obtain ⟨hne, hp, hall⟩ := (collectSigners_isSome_iff publics signers).1 hs
            have := collectSigners_eq_some publics signers hne hp hall
            rw [hc] at this
            cases this
            rw [hys]
            simp [List.map_map, Function.comp_def]
          rw [agg_algebra]
          refine ⟨sel, _, z % ell % ell, hc, rfl, hA sel hc, ?_, ?_, ?_⟩
          · rw [← hR]
            exact decode_dl _ (by rw [Nat.mod_mod]; exact hz)
          · rw [← hS]; exact Nat.mod_lt _ ell_pos
          · rw [← hS, weightedSum_eq_dot, hsel]
            have e1 : z % ell % ell ≡ z [MOD ell] := (Nat.mod_modEq _ _).trans (Nat.mod_modEq _ _)
            have e2 : x * (dot w ys % ell) ≡ x * dot w ys [MOD ell] :=
              Nat.ModEq.mul_left x (Nat.mod_modEq _ _)
            have e3 : z + x * dot w ys ≡ z % ell % ell + x * (dot w ys % ell) [MOD ell] :=
              (e1.add e2).symm
            calc (x * dot w ys + z) % ell = (z + x * dot w ys) % ell := by rw [Nat.add_comm]
              _ = (z % ell % ell + x * (dot w ys % ell)) % ell := e3

/-! ## the transcript is injective -/

/-- big-endian decoding of four bytes -/
def de32 : Bytes → Nat
  | [a, b, c, d] => a.toNat * 2 ^ 24 + b.toNat * 2 ^ 16 + c.toNat * 2 ^ 8 + d.toNat
  | _ => 0

theorem de32_be32 (n : Nat) (h : n < 2 ^ 32) : de32 (be32 n) = n := by
  simp only [be32, de32, Nat.toUInt8, UInt8.toNat_ofNat']
  omega

theorem be32_length (n : Nat) : (be32 n).length = 4 := rfl

theorem be32_inj (a b : Nat) (ha : a < 2 ^ 32) (hb : b < 2 ^ 32) (h : be32 a = be32 b) : a = b := by
  rw [← de32_be32 a ha, ← de32_be32 b hb, h]

/-- items of a transcript: (index, 32 key bytes) -/
def body : List (Nat × Bytes) → Bytes
  | [] => []
  | (i, k) :: rest => be32 i ++ k ++ body rest

def GoodItems (l : List (Nat × Bytes)) : Prop := ∀ p ∈ l, p.1 < 2 ^ 32 ∧ p.2.length = 32

theorem body_length (l : List (Nat × Bytes)) (h : GoodItems l) : (body l).length = 36 * l.length := by
  induction l with
  | nil => rfl
  | cons p t ih =>
    obtain ⟨i, k⟩ := p
    have := (h (i, k) (by simp)).2
    simp only at this
    simp only [body, List.length_append, be32_length, List.length_cons, this,
      ih (fun q hq => h q (by simp [hq]))]
    omega

theorem body_inj (l₁ l₂ : List (Nat × Bytes)) (h₁ : GoodItems l₁) (h₂ : GoodItems l₂)
    (h : body l₁ = body l₂) : l₁ = l₂ := by
  induction l₁ generalizing l₂ with
  | nil =>
    cases l₂ with
    | nil => rfl
    | cons p t =>
      have := congrArg List.length h
      rw [body_length _ h₂] at this
      simp [body] at this
  | cons p t ih =>
    cases l₂ with
    | nil =>
      have := congrArg List.length h
      rw [body_length _ h₁] at this
      simp [body] at this
    | cons q u =>
      obtain ⟨i, k⟩ := p
      obtain ⟨j, k'⟩ := q
      have hp := h₁ (i, k) (by simp)
      have hq := h₂ (j, k') (by simp)
      simp only at hp hq
      simp only [body, List.append_assoc] at h
      have e1 := List.append_inj h (by simp [be32_length])
      have e2 := List.append_inj e1.2 (by rw [hp.2, hq.2])
      have hij := be32_inj i j hp.1 hq.1 e1.1
      rw [hij, e2.1, ih u (fun q hq => h₁ q (by simp [hq])) (fun q hq => h₂ q (by simp [hq])) e2.2]

/-- the model's transcript body is `body` of the selected (index, key bytes) items -/
theorem transcriptBody_eq (kb : List Bytes) (signers : List Int) :
    transcriptBody kb signers = body (signers.map (fun i => (i.toNat, kb.getD i.toNat []))) := by
  induction signers with
  | nil => rfl
  | cons i rest ih => simp [transcriptBody, body, ih]

/-- **transcript_inj**: the transcript bytes determine the number of signers, their indexes and
    the selected key bytes (fixed-width fields: 4-byte count, then 4-byte index + 32-byte key per
    signer).  Two accepted signer lists over possibly different key vectors with equal transcripts
    are the same list selecting the same keys. -/
theorem transcript_inj (pub₁ pub₂ : List Pt) (kb₁ kb₂ : List Bytes) (s₁ s₂ : List Int) (t : Bytes)
    (h₁ : transcript pub₁ kb₁ s₁ = some t) (h₂ : transcript pub₂ kb₂ s₂ = some t)
    (hk₁ : ∀ i ∈ s₁, (kb₁.getD i.toNat []).length = 32) (hk₂ : ∀ i ∈ s₂, (kb₂.getD i.toNat []).length = 32)
    (hr₁ : ∀ i ∈ s₁, i < 2 ^ 32) (hr₂ : ∀ i ∈ s₂, i < 2 ^ 32) :
    s₁ = s₂ ∧ ∀ i ∈ s₁, kb₁.getD i.toNat [] = kb₂.getD i.toNat [] := by
  unfold transcript at h₁ h₂
  cases hc₁ : collectSigners pub₁ s₁ with
  | none => rw [hc₁] at h₁; exact absurd h₁ (by simp)
  | some sel₁ =>
    cases hc₂ : collectSigners pub₂ s₂ with
    | none => rw [hc₂] at h₂; exact absurd h₂ (by simp)
    | some sel₂ =>
      rw [hc₁] at h₁; rw [hc₂] at h₂
      simp only [Option.some.injEq] at h₁ h₂
      have hnn₁ : ∀ i ∈ s₁, 0 ≤ i := fun i hi =>
        (((collectSigners_isSome_iff pub₁ s₁).1 (by rw [hc₁]; rfl)).2.2 i hi).1
      have hnn₂ : ∀ i ∈ s₂, 0 ≤ i := fun i hi =>
        (((collectSigners_isSome_iff pub₂ s₂).1 (by rw [hc₂]; rfl)).2.2 i hi).1
      have h := h₁.trans h₂.symm
      have e := List.append_inj h (by simp [be32_length])
      rw [transcriptBody_eq, transcriptBody_eq] at e
      have g₁ : GoodItems (s₁.map (fun i => (i.toNat, kb₁.getD i.toNat []))) := by
        intro p hp
        obtain ⟨i, hi, rfl⟩ := List.mem_map.1 hp
        exact ⟨by have := hr₁ i hi; have := hnn₁ i hi; omega, hk₁ i hi⟩
      have g₂ : GoodItems (s₂.map (fun i => (i.toNat, kb₂.getD i.toNat []))) := by
        intro p hp
        obtain ⟨i, hi, rfl⟩ := List.mem_map.1 hp
        exact ⟨by have := hr₂ i hi; have := hnn₂ i hi; omega, hk₂ i hi⟩
      have hitems := body_inj _ _ g₁ g₂ e.2
      -- equal item lists: equal indexes (non-negative, so `toNat` is injective) and equal keys
      have hgen : ∀ (a b : List Int), (∀ i ∈ a, 0 ≤ i) → (∀ i ∈ b, 0 ≤ i) →
          a.map (fun i => (i.toNat, kb₁.getD i.toNat [])) = b.map (fun i => (i.toNat, kb₂.getD i.toNat [])) →
          a = b ∧ ∀ i ∈ a, kb₁.getD i.toNat [] = kb₂.getD i.toNat [] := by
        intro a
        induction a with
        | nil =>
          intro b _ _ hab
          cases b with
          | nil => exact ⟨rfl, by simp⟩
          | cons _ _ => simp at hab
        | cons i t ih =>
          intro b ha hb hab
          cases b with
          | nil => simp at hab
          | cons j u =>
            simp only [List.map_cons, List.cons.injEq, Prod.mk.injEq] at hab
            obtain ⟨⟨hij, hkk⟩, hrest⟩ := hab
            have hi := ha i (by simp)
            have hj := hb j (by simp)
            have : i = j := by omega
            subst this
            obtain ⟨htu, hkeys⟩ := ih u (fun k hk => ha k (by simp [hk])) (fun k hk => hb k (by simp [hk])) hrest
            refine ⟨by rw [htu], ?_⟩
            intro k hk
            rcases List.mem_cons.1 hk with rfl | hk
            · exact hkk
            · exact hkeys k hk
      exact hgen s₁ s₂ hnn₁ hnn₂ hitems

/-! ## non-vacuity -/

example : transcript [Pt.dl 5, Pt.dl 7] [[1, 2], [3]] [0, 1] =
    some [0, 0, 0, 2, 0, 0, 0, 0, 1, 2, 0, 0, 0, 1, 3] := by decide

/-- a concrete signature of the model and its verification; a malformed list is refused -/
example : sign [some 5, some 7] [Pt.dl 5, Pt.dl 7] [0, 1] 32 [2, 3] 11 4 = some (Pt.dl 11, (4 * 31 + 11) % ell) ∧
    verify (Pt.dl 11) ((4 * 31 + 11) % ell) [Pt.dl 5, Pt.dl 7] [0, 1] [2, 3] 4 = true ∧
    verify (Pt.dl 11) ((4 * 31 + 11) % ell) [Pt.dl 5, Pt.dl 7] [1, 0] [3, 2] 4 = false ∧
    sign [some 5] [Pt.dl 5, Pt.dl 7] [0, 1] 32 [2, 3] 11 4 = none ∧
    sign [some 5, some 8] [Pt.dl 5, Pt.dl 7] [0, 1] 32 [2, 3] 11 4 = none := by decide

example : Malformed [Pt.dl 5, Pt.dl 7] [1, 0] := by
  right; left; decide

end Mixin.C14
