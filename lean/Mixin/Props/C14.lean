import Mixin.Model.AggSig
/-! # C14 — aggregate transaction signatures (first cut) -/
namespace Mixin.C14
open Mixin.Cosi Mixin.AggSig

/-- an empty signer list is refused by verification -/
theorem verify_empty (R : Pt) (S : Nat) (publics : List Pt) (w : List Nat) (x : Nat) :
    verify R S publics [] w x = false := by
  simp [verify, weightedKey, collectSigners]

end Mixin.C14
