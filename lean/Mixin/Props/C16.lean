import Mixin.Props.C17
/-!
  C16 — transactions that validate together can always be finalized.

  FULL STATEMENT (false of the code as it is, see the counterexamples below):

    theorem validated_batch_finalizes (P : Params) (st : State) (snap : Snap) (sg : Nat) :
      Reach P st →
      (∀ t ∈ snap.txs, ∃ tx, aget st.txs t = some tx ∧
          (finalized st t ∨ `tx passed validate, LockInputs and WriteTransaction on the way to st`)) →
      debugAsserts st snap = true → aget st.topo snap.topo = none →          -- the snapshot's own batch rules
      (WriteSnapshot P.cap st snap sg).1 = none

  What is proved instead: `validated_batch_finalizes_partial`, under the explicit hypothesis `Ready` for every
  member in the state it meets. `Ready` lists exactly what the proof needs from a not yet finalized member:
    (1) it has an input;                                                     [Validate: inputs ≥ 1]
    (2) if its first input is a deposit, the stored asset info is absent or equal;   ← NOT provided by
        validation when two pending first deposits of an unseen asset disagree  (counterexample 2)
    (3) every output type is in the UnspentOutputs table;                    [Validate: type ≠ unknown + per-type rules]
    (4) every ghost key of a materialised output is free or held by the transaction;  [Validate: LockGhostKeys]
    (5) a withdrawal claim references a stored, finalized transaction;       [validateReferences]
    (6) the asset has info once (2) ran;                                     [invariant: a spendable output of the asset exists]
    (7) the arithmetic of writeTotalInAsset is defined;                      [C17.supply_sub_defined for submits, amounts > 0]
    (8) total + minted value ≤ capacity.                                     ← NOT provided by validation:
        verifyDepositData reads the stored total, which other pending deposits do not change (counterexample 1),
        and skips the comparison altogether when the asset has no info yet (counterexample 3); mints are never
        compared with the capacity.
  Missing for the full statement: that (2) and (8) follow from validation — they do not — and the persistence of
  (4)–(7) across the other members of the batch (they hold in the states the model produces in every generated
  history; not proved in general).
-/
namespace Mixin.C16
open Mixin.Ledger Mixin.C15 Mixin.C17

def keysFree (st : State) (t : Id) (ks : List Id) : Prop := ∀ k ∈ ks, aget st.ghost k = none ∨ aget st.ghost k = some t

structure Ready (cap : Id → Nat) (st : State) (tx : Tx) : Prop where
  hasInput : tx.inputs ≠ []
  infoAgrees : ∀ k c ak am r, tx.inputs = .deposit k c ak am :: r →
      aget st.assetInfo tx.asset = none ∨ aget st.assetInfo tx.asset = some (c, ak)
  known : outputsKnown tx.outputs = true
  ghosts : keysFree st tx.id (ghostKeys tx)
  claimRef : (∃ o ∈ tx.outputs, o.typ = .withdrawalClaim) →
      ∃ r rest b s, tx.refs = r :: rest ∧ aget st.txs r = some b ∧ aget st.fin r = some s
  hasInfo : (∃ k c ak am r, tx.inputs = .deposit k c ak am :: r) ∨ (aget st.assetInfo tx.asset).isSome
  arith : ∃ r, newTotal tx (readTotal st tx.asset) = .ok r
  withinCap : readTotal st tx.asset + minted tx ≤ cap tx.asset

theorem lockGhostKeys_ok {ks : List Id} {st : State} {t : Id} (h : keysFree st t ks) :
    ∃ st', lockGhostKeys ks st t = .ok st' ∧ (∀ k, aget st'.ghost k = aget st.ghost k ∨ aget st'.ghost k = some t) := by
  induction ks generalizing st with
  | nil => exact ⟨st, rfl, fun k => Or.inl rfl⟩
  | cons k r ih =>
    have hk := h k (by simp)
    have step : ∃ s1, lockGhostKey st k t = .ok s1 ∧ (∀ x, aget s1.ghost x = aget st.ghost x ∨ aget s1.ghost x = some t) := by
      unfold lockGhostKey
      rcases hk with e | e
      · rw [e]
        refine ⟨_, rfl, fun x => ?_⟩
        by_cases ex : k = x
        · subst ex; right; simp [aget_aset_eq]
        · left; simp [aget_aset_ne _ _ _ _ ex]
      · rw [e]; simp only [if_true]
        exact ⟨st, rfl, fun x => Or.inl rfl⟩
    obtain ⟨s1, h1, g1⟩ := step
    have hr : keysFree s1 t r := by
      intro x hx
      rcases g1 x with e | e
      · rw [e]; exact h x (by simp [hx])
      · right; exact e
    obtain ⟨s2, h2, g2⟩ := ih hr
    refine ⟨s2, by simp [lockGhostKeys, h1, h2], fun x => ?_⟩
    rcases g2 x with e | e
    · rcases g1 x with e1 | e1
      · left; rw [e, e1]
      · right; rw [e, e1]
    · right; exact e

theorem writeOutputs_ok {outs : List Output} {idx : Nat} {st : State} {tx : Tx} {ts : Nat}
    (hg : keysFree st tx.id (outs.flatMap (·.keys)))
    (hc : (∃ o ∈ outs, o.typ = .withdrawalClaim) →
      ∃ r rest b s, tx.refs = r :: rest ∧ aget st.txs r = some b ∧ aget st.fin r = some s) :
    ∃ st', writeOutputs outs idx st tx ts = .ok st' := by
  induction outs generalizing st idx with
  | nil => exact ⟨st, rfl⟩
  | cons o r ih =>
    have hgo : keysFree st tx.id o.keys := fun k hk => hg k (by simp [hk])
    have hgr : keysFree st tx.id (r.flatMap (·.keys)) := fun k hk => hg k (by
      simp only [List.flatMap_cons, List.mem_append]; exact Or.inr hk)
    have hcr : (∃ o ∈ r, o.typ = .withdrawalClaim) →
        ∃ x rest b s, tx.refs = x :: rest ∧ aget st.txs x = some b ∧ aget st.fin x = some s := by
      rintro ⟨o', ho', e⟩; exact hc ⟨o', by simp [ho'], e⟩
    simp only [writeOutputs]
    split
    · obtain ⟨s1, h1, g1⟩ := lockGhostKeys_ok hgo
      have f1 := lockGhostKeys_frame h1
      have hw : ∃ s2, writeUTXO st tx ts idx o = .ok s2 := by
        unfold writeUTXO
        simp only [h1]
        split
        any_goals exact ⟨_, rfl⟩
        · rename_i ht
          obtain ⟨x, rest, b, s, hr, hb, hs⟩ := hc ⟨o, by simp, ht⟩
          unfold writeWithdrawalClaim
          simp [hr, f1.2.2.1, f1.1, hb, hs]
      obtain ⟨s2, h2⟩ := hw
      have f2 := writeUTXO_frame h2
      have g2 : ∀ k, aget s2.ghost k = aget st.ghost k ∨ aget s2.ghost k = some tx.id := by
        intro k
        unfold writeUTXO at h2
        simp only [h1] at h2
        have : s2.ghost = s1.ghost := by
          split at h2
          any_goals (cases h2; rfl)
          · unfold writeWithdrawalClaim at h2
            split at h2
            · cases h2
            · split at h2
              · cases h2; rfl
              · cases h2
        rw [this]; exact g1 k
      simp only [h2]
      apply ih
      · intro k hk
        rcases g2 k with e | e
        · rw [e]; exact hgr k hk
        · right; exact e
      · intro hx
        obtain ⟨x, rest, b, s, hr, hb, hs⟩ := hcr hx
        exact ⟨x, rest, b, s, hr, by rw [f2.2.2.1]; exact hb, by rw [f2.1]; exact hs⟩
    · exact ih hgr hcr

/-- the part of `finalizeTransaction` after the asset-info step -/
theorem finalize_tail {cap : Id → Nat} {st st2 : State} {tx : Tx} (ts : Nat) (h : Ready cap st tx)
    (hn : aget st.fin tx.id = none)
    (hg2 : st2.ghost = st.ghost) (ht2 : st2.txs = st.txs) (htot2 : st2.total = st.total)
    (hf2 : ∀ x, x ≠ tx.id → aget st2.fin x = aget st.fin x) (hi2 : (aget st2.assetInfo tx.asset).isSome = true) :
    ∃ st', (if (!outputsKnown tx.outputs) = true then Except.error Fail.panic
            else match writeOutputs tx.outputs 0 st2 tx ts with
              | .error e => .error e
              | .ok st3 => writeTotal cap st3 tx) = Except.ok st' := by
  simp only [h.known, Bool.not_true, Bool.false_eq_true, if_false]
  have hgk : keysFree st2 tx.id (tx.outputs.flatMap (·.keys)) := by
    intro k hk; rw [hg2]; exact h.ghosts k hk
  have hcl : (∃ o ∈ tx.outputs, o.typ = .withdrawalClaim) →
      ∃ r rest b s, tx.refs = r :: rest ∧ aget st2.txs r = some b ∧ aget st2.fin r = some s := by
    intro hx
    obtain ⟨r, rest', b, s, hr, hb, hs⟩ := h.claimRef hx
    refine ⟨r, rest', b, s, hr, by rw [ht2]; exact hb, ?_⟩
    by_cases e : r = tx.id
    · rw [e, hn] at hs; cases hs
    · rw [hf2 r e]; exact hs
  obtain ⟨st3, h3⟩ := writeOutputs_ok (idx := 0) (ts := ts) hgk hcl
  simp only [h3]
  have f3 := writeOutputs_frame h3
  obtain ⟨r, hr⟩ := h.arith
  have T3 : readTotal st3 tx.asset = readTotal st tx.asset := by simp [readTotal, f3.2.1, htot2]
  unfold writeTotal
  rw [f3.2.2.2.1]
  cases hi : aget st2.assetInfo tx.asset with
  | none => simp [hi] at hi2
  | some v =>
    simp only [T3, hr]
    cases r with
    | none => exact ⟨_, rfl⟩
    | some t =>
      have sp := newTotal_spec hr
      have := h.withinCap
      simp only [Option.getD_some] at sp
      have : ¬ t > cap tx.asset := by omega
      simp only [this, if_false]
      exact ⟨_, rfl⟩

/-- a single ready member finalizes -/
theorem ready_tx_finalizes {cap : Id → Nat} {st : State} {tx : Tx} (snap ts : Nat) (h : Ready cap st tx) :
    ∃ st', finalizeTransaction cap st tx snap ts = .ok st' := by
  cases hn : aget st.fin tx.id with
  | some s => exact ⟨st, finalize_idem cap st tx snap ts s hn⟩
  | none =>
    have finx : ∀ x, x ≠ tx.id → aget (aset st.fin tx.id snap) x = aget st.fin x :=
      fun x hx => aget_aset_ne _ _ _ _ (fun e => hx e.symm)
    have noDep : ∀ in0 rest, tx.inputs = in0 :: rest → (∀ k c ak am, in0 ≠ .deposit k c ak am) →
        (aget st.assetInfo tx.asset).isSome = true := by
      intro in0 rest hin hnd
      rcases h.hasInfo with ⟨k, c, ak, am, r, e⟩ | e
      · rw [hin] at e; cases e; exact absurd rfl (hnd k c ak am)
      · exact e
    unfold finalizeTransaction
    simp only [hn]
    cases hin : tx.inputs with
    | nil => exact absurd hin h.hasInput
    | cons in0 rest =>
      cases in0 with
      | deposit k c ak am =>
        simp only [writeAssetInfo]
        rcases h.infoAgrees k c ak am rest hin with e | e
        · simp only [e]
          exact finalize_tail ts h hn rfl rfl rfl finx (by simp [aget_aset_eq])
        · simp only [e, if_true]
          exact finalize_tail ts h hn rfl rfl rfl finx (by simp [e])
      | utxo a b =>
        exact finalize_tail ts h hn rfl rfl rfl finx (noDep _ _ hin (by intros; simp))
      | mint a b =>
        exact finalize_tail ts h hn rfl rfl rfl finx (noDep _ _ hin (by intros; simp))
      | genesis =>
        exact finalize_tail ts h hn rfl rfl rfl finx (noDep _ _ hin (by intros; simp))

/-- every member is ready in the state it meets (the states are the ones the model itself produces) -/
def BatchReady (cap : Id → Nat) : List Id → State → Snap → Prop
  | [], _, _ => True
  | t :: r, st, snap =>
    ∃ tx, aget st.txs t = some tx ∧ Ready cap st tx ∧
      (∀ st', finalizeTransaction cap st tx snap.id snap.ts = .ok st' →
        BatchReady cap r { st' with unique := aset st'.unique (t, snap.node) () } snap)

theorem batch_finalizes {cap : Id → Nat} {l : List Id} {st : State} {snap : Snap} (h : BatchReady cap l st snap) :
    ∃ st', finalizeAll cap l st snap = .ok st' := by
  induction l generalizing st with
  | nil => exact ⟨st, rfl⟩
  | cons t r ih =>
    obtain ⟨tx, htx, hr, hn⟩ := h
    obtain ⟨s1, h1⟩ := ready_tx_finalizes snap.id snap.ts hr
    obtain ⟨s2, h2⟩ := ih (hn s1 h1)
    exact ⟨s2, by simp [finalizeAll, htx, h1, h2]⟩

/-- **Partial form of C16.** If the snapshot passes its own batch rules (fresh snapshot, bodies stored, not yet
    included by this node, free topology slot) and every member is `Ready` — in particular the pending deposit and
    mint amounts of each asset plus its total stay within the capacity, and pending first deposits agree on the
    asset info — then writing the finalized snapshot succeeds. -/
theorem validated_batch_finalizes_partial (cap : Id → Nat) (st : State) (snap : Snap) (sg : Nat)
    (hd : debugAsserts st snap = true) (htopo : aget st.topo snap.topo = none)
    (hb : BatchReady cap snap.txs st snap) : (WriteSnapshot cap st snap sg).1 = none := by
  obtain ⟨s1, h1⟩ := batch_finalizes hb
  have ht : s1.topo = st.topo := finalizeAll_topo h1
  simp [WriteSnapshot, atomic, writeSnapshotTxn, hd, writeSnapshotInner, h1, ht, htopo]

/-! ### the node's own validation (`validateSnapshotTransaction`): two paths

  The premise of C16 is what `kernelValidate` accepts. A body found in the persistent store is trusted;
  a cached body is validated, locked and persisted. The two lemmas below are what makes "presenting a
  refused transaction again gives the same verdict" true of the model: refusing at `Validate` never
  persists the body, so the next presentation takes the validating path again. -/

/-- a cached transaction refused by `Validate` leaves no body behind -/
theorem refused_is_not_persisted (P : Params) (st : State) (snap : Id) (multi fin : Bool) (tx : Tx)
    (hc : aget st.txs tx.id = none) (hv : (validate P st tx fin).1 = false) :
    (kernelValidateTx P st snap multi fin tx).1 = some .err ∧
    aget (kernelValidateTx P st snap multi fin tx).2.txs tx.id = none := by
  have htx : (validate P st tx fin).2.txs = st.txs := by
    simp only [validate]
    split
    · rfl
    · rename_i st1 us h
      exact (lockGhostKeys_frame (validateCore_locks h)).2.2.1
  unfold kernelValidateTx
  simp only [hc]
  split
  · rename_i st1 he
    have : (validate P st tx fin).2 = st1 := by rw [he]
    rw [← this, htx]
    exact ⟨rfl, hc⟩
  · rename_i st1 he
    rw [he] at hv
    cases hv

/-- a persisted body is trusted: no validation, no state change -/
theorem persisted_is_trusted (P : Params) (st : State) (snap : Id) (multi fin : Bool) (tx b : Tx)
    (hb : aget st.txs tx.id = some b) : (kernelValidateTx P st snap multi fin tx).2 = st := by
  unfold kernelValidateTx
  simp only [hb]
  repeat' split
  all_goals rfl

/-- a proposal (not a finalized snapshot) that carries a transaction finalized in another snapshot is
    refused at signing: "transaction … finalized in snapshot …" -/
theorem finalized_elsewhere_refused (P : Params) (st : State) (snap s : Id) (multi : Bool) (tx b : Tx)
    (hb : aget st.txs tx.id = some b) (hf : aget st.fin tx.id = some s) (hne : s ≠ snap) :
    (kernelValidateTx P st snap multi false tx).1 = some .err := by
  unfold kernelValidateTx
  simp [hb, hf, hne]

/-- what that rule protects: writing a snapshot of a node that already included one of its transactions
    trips the uniqueness assertion of `WriteSnapshot` (a panic inside `TopoWrite`), and nothing is written -/
theorem reincluded_transaction_panics (cap : Id → Nat) (st : State) (snap : Snap) (sg : Nat) (t : Id)
    (ht : t ∈ snap.txs) (hu : aget st.unique (t, snap.node) = some ()) :
    WriteSnapshot cap st snap sg = (some .panic, st) := by
  have hd : debugAsserts st snap = false := by
    unfold debugAsserts
    have : (snap.txs.all fun txh => (aget st.txs txh).isSome && (aget st.unique (txh, snap.node)).isNone) = false := by
      rw [List.all_eq_false]
      exact ⟨t, ht, by simp [hu]⟩
    simp [this]
  simp [WriteSnapshot, atomic, writeSnapshotTxn, hd]

/-! ### the property is false of the code as it is: three concrete witnesses

  Amounts in whole units; asset 2 has capacity 2500 (Bitcoin in `GetAssetCapacity`), asset 6 is uncapped.
  Each witness is replayed on the real code by the harness (`knownShapes` in harness/c15_ledger_gen.go). -/

def P : Params := { cap := fun a => if a = 2 then 2500 else 1000000, xin := 1, claimFee := 1 }

/-- validate, lock inputs, persist: what `validateSnapshotTransaction` does for a cached transaction -/
def persistPending (st : State) (tx : Tx) : State :=
  (WriteTransaction (LockInputs (validate P st tx false).2 tx false).2 tx).2

def btcSeen : State := { assetInfo := [(2, (2, 102))], total := [(2, 0)] }
def d1 : Tx := ⟨10, 2, [.deposit 1 2 102 2000], [⟨.script, 2000, [501]⟩], [], true, true⟩
def d2 : Tx := ⟨11, 2, [.deposit 2 2 102 2000], [⟨.script, 2000, [502]⟩], [], true, true⟩
def snapD : Snap := ⟨100, 1, 1, 11, 8, [10, 11]⟩

/-- **Counterexample 1** (`C16:pending-deposits-exceed-capacity`): two deposits of 2000 against a capacity of
    2500. Each validates (against the stored total, which a pending deposit does not change), both lock and
    persist, the snapshot passes its batch rules, and `WriteSnapshot` panics in `writeTotalInAsset`. -/
theorem validated_batch_finalizes_counterexample :
    (validate P btcSeen d1 false).1 = true ∧ (validate P (persistPending btcSeen d1) d2 false).1 = true ∧
    debugAsserts (persistPending (persistPending btcSeen d1) d2) snapD = true ∧
    aget (persistPending (persistPending btcSeen d1) d2).topo snapD.topo = none ∧
    (WriteSnapshot P.cap (persistPending (persistPending btcSeen d1) d2) snapD 0).1 = some .panic := by decide

/-- the same two deposits in two snapshots: the first is written, the second panics -/
theorem validated_batch_finalizes_counterexample_sequential :
    let s := persistPending (persistPending btcSeen d1) d2
    (WriteSnapshot P.cap s ⟨100, 1, 1, 11, 8, [10]⟩ 0).1 = none ∧
    (WriteSnapshot P.cap (WriteSnapshot P.cap s ⟨100, 1, 1, 11, 8, [10]⟩ 0).2 ⟨101, 2, 1, 12, 9, [11]⟩ 0).1 = some .panic := by
  decide

def f1 : Tx := ⟨20, 6, [.deposit 3 6 106 5], [⟨.script, 5, [503]⟩], [], true, true⟩
def f2 : Tx := ⟨21, 6, [.deposit 4 6 206 7], [⟨.script, 7, [504]⟩], [], true, true⟩

/-- **Counterexample 2** (`C16:pending-first-deposits-conflicting-asset-info`): two pending first deposits of an
    asset id nobody deposited before, with different asset keys. Nothing binds an asset id to (chain, key) until the
    first finalization writes `ASSETINFO`; both validate and persist, the second finalization returns an error
    (fatal in `TopoWrite`). -/
theorem conflicting_first_deposits_counterexample :
    (validate P {} f1 false).1 = true ∧ (validate P (persistPending {} f1) f2 false).1 = true ∧
    debugAsserts (persistPending (persistPending {} f1) f2) ⟨100, 1, 1, 11, 8, [20, 21]⟩ = true ∧
    (WriteSnapshot P.cap (persistPending (persistPending {} f1) f2) ⟨100, 1, 1, 11, 8, [20, 21]⟩ 0).1 = some .err := by decide

def big : Tx := ⟨30, 2, [.deposit 5 2 102 3000], [⟨.script, 3000, [505]⟩], [], true, true⟩

/-- **Counterexample 3** (`C16:first-deposit-of-unseen-asset-above-capacity`): a single first deposit of a capped
    asset above its capacity. `verifyDepositData` returns before the capacity comparison when the asset has no
    info yet. No interaction between transactions is needed. -/
theorem first_deposit_above_capacity_counterexample :
    (validate P {} big false).1 = true ∧
    debugAsserts (persistPending {} big) ⟨100, 1, 1, 11, 8, [30]⟩ = true ∧
    (WriteSnapshot P.cap (persistPending {} big) ⟨100, 1, 1, 11, 8, [30]⟩ 0).1 = some .panic := by decide

/-! ### non-vacuity of the partial theorem: one of the two deposits alone is `Ready` and is written -/

def okDep : Tx := ⟨10, 2, [.deposit 1 2 102 2000], [⟨.script, 2000, [501]⟩], [], true, true⟩

example : Ready P.cap (persistPending btcSeen okDep) okDep := by
  refine ⟨by decide, ?_, by decide, ?_, ?_, ?_, ?_, ?_⟩
  · intro k c ak am r e
    simp only [okDep, List.cons.injEq, Input.deposit.injEq] at e
    obtain ⟨⟨_, rfl, rfl, _⟩, _⟩ := e
    right; decide
  · intro k hk
    simp only [ghostKeys, okDep, List.flatMap_cons, List.flatMap_nil, List.append_nil, List.mem_singleton] at hk
    subst hk
    right; decide
  · rintro ⟨o, ho, e⟩
    simp only [okDep, List.mem_singleton] at ho
    subst ho; cases e
  · left; exact ⟨1, 2, 102, 2000, [], rfl⟩
  · exact ⟨some 2000, rfl⟩
  · decide

example : (WriteSnapshot P.cap (persistPending btcSeen okDep) ⟨100, 1, 1, 11, 8, [10]⟩ 0).1 = none := by decide

end Mixin.C16
