import Mixin.Model.Requeue
import Mixin.Facts.ExpectedC24
/-!
  C24 — retiring a local proposal never loses a pending transaction; a transaction owned by a
  still-active proposal is not re-queued.

  Model: `Mixin.Requeue` (kernel/cosi.go bookkeeping + kernel/queue.go requeueTransactions).
  "pending" = not finalized and with a body (store or cache); "eligible" = in the cache queue.
-/
namespace Mixin.C24
open Mixin.Requeue

def pending (st : St) (x : Nat) : Prop := x ∉ st.finalized ∧ x ∈ st.bodies

/-- aggregator keys are unique (they are the keys of a Go map) -/
def UniqueKeys (st : St) : Prop := st.aggs.Pairwise (fun a b => a.snap.hash ≠ b.snap.hash)

/-- no transaction belongs to two local proposals -/
def DisjointAggs (st : St) : Prop :=
  ∀ a ∈ st.aggs, ∀ b ∈ st.aggs, ∀ x, x ∈ a.snap.txs → x ∈ b.snap.txs → a.snap.hash = b.snap.hash

/-! ### requeueTransactions -/

theorem requeue1_mem (fin b q : List Nat) (h x : Nat) :
    x ∈ requeue1 fin b q h ↔ x ∈ q ∨ (x = h ∧ h ∉ fin ∧ h ∈ b) := by
  unfold requeue1
  by_cases h1 : fin.contains h = true
  · have : h ∈ fin := List.contains_iff_mem.mp h1
    simp [h1, this]
  · have h1' : h ∉ fin := fun hm => h1 (List.contains_iff_mem.mpr hm)
    by_cases h2 : b.contains h = true
    · have h2' : h ∈ b := List.contains_iff_mem.mp h2
      by_cases h3 : q.contains h = true
      · have h3' : h ∈ q := List.contains_iff_mem.mp h3
        simp only [h1, h2, h3, Bool.false_eq_true, if_false, Bool.not_true, if_true]
        constructor
        · exact Or.inl
        · rintro (hx | ⟨rfl, _, _⟩)
          · exact hx
          · exact h3'
      · simp only [h1, h2, h3, Bool.false_eq_true, if_false, Bool.not_true, List.mem_append,
          List.mem_cons, List.not_mem_nil, or_false]
        constructor
        · rintro (hx | rfl)
          · exact Or.inl hx
          · exact Or.inr ⟨rfl, h1', h2'⟩
        · rintro (hx | ⟨rfl, _, _⟩)
          · exact Or.inl hx
          · exact Or.inr rfl
    · have h2' : h ∉ b := fun hm => h2 (List.contains_iff_mem.mpr hm)
      simp [h1, h2, h2']

theorem requeue_fold_mem (fin b : List Nat) (hs q : List Nat) (x : Nat) :
    x ∈ hs.foldl (requeue1 fin b) q ↔ x ∈ q ∨ (x ∈ hs ∧ x ∉ fin ∧ x ∈ b) := by
  induction hs generalizing q with
  | nil => simp
  | cons h t ih =>
    rw [List.foldl_cons, ih, requeue1_mem]
    constructor
    · rintro ((hq | ⟨rfl, h1, h2⟩) | ⟨h1, h2, h3⟩)
      · exact Or.inl hq
      · exact Or.inr ⟨by simp, h1, h2⟩
      · exact Or.inr ⟨by simp [h1], h2, h3⟩
    · rintro (hq | ⟨h1, h2, h3⟩)
      · exact Or.inl (Or.inl hq)
      · rcases List.mem_cons.mp h1 with rfl | h1
        · exact Or.inl (Or.inr ⟨rfl, h2, h3⟩)
        · exact Or.inr ⟨h1, h2, h3⟩

/-- what `requeueTransactions` does to the queue: nothing leaves it; exactly the listed
    transactions that are pending enter it -/
theorem requeue_mem (st : St) (hs : List Nat) (x : Nat) :
    x ∈ (requeue st hs).queue ↔ x ∈ st.queue ∨ (x ∈ hs ∧ pending st x) := by
  unfold requeue pending; exact requeue_fold_mem _ _ _ _ _

@[simp] theorem requeue_fin (st : St) (hs) : (requeue st hs).finalized = st.finalized := rfl
@[simp] theorem requeue_bodies (st : St) (hs) : (requeue st hs).bodies = st.bodies := rfl
@[simp] theorem requeue_aggs (st : St) (hs) : (requeue st hs).aggs = st.aggs := rfl
@[simp] theorem requeue_vers (st : St) (hs) : (requeue st hs).vers = st.vers := rfl
@[simp] theorem abandon_fin (st : St) (s) : (abandon st s).finalized = st.finalized := rfl
@[simp] theorem abandon_bodies (st : St) (s) : (abandon st s).bodies = st.bodies := rfl
@[simp] theorem abandon_queue (st : St) (s) : (abandon st s).queue = st.queue := rfl
@[simp] theorem abandon_aggs (st : St) (s : Snap) :
    (abandon st s).aggs = st.aggs.filter (fun a => !(a.snap.hash == s.hash)) := rfl

/-! ### abandon / retry -/

theorem retry_queue_mem (st : St) (s : Snap) (x : Nat) :
    x ∈ (retry st s).queue ↔ x ∈ st.queue ∨ (x ∈ s.txs ∧ pending st x) := by
  unfold retry; rw [requeue_mem]; simp [pending]

/-- **retry_no_loss**: after `retryCosiSnapshot(s)` every transaction of `s` that is still
    unfinalized and still has a body is eligible again, the proposal is gone, and nothing that
    was eligible stopped being so. -/
theorem retry_no_loss (st : St) (s : Snap) :
    (∀ x ∈ s.txs, pending st x → x ∈ (retry st s).queue) ∧
    (∀ a ∈ (retry st s).aggs, a.snap.hash ≠ s.hash) ∧
    (∀ x ∈ st.queue, x ∈ (retry st s).queue) := by
  refine ⟨fun x hx hp => (retry_queue_mem st s x).mpr (Or.inr ⟨hx, hp⟩), ?_,
    fun x hx => (retry_queue_mem st s x).mpr (Or.inl hx)⟩
  intro a ha
  have : a ∈ st.aggs.filter (fun a => !(a.snap.hash == s.hash)) := by
    simpa [retry] using ha
  simpa using (List.mem_filter.mp this).2

/-- `abandonCosiSnapshot` alone (a deferred or abandoned proposal whose caller requeues
    explicitly) neither queues nor unqueues anything, and removes only verifier entries -/
theorem abandon_spec (st : St) (s : Snap) :
    (abandon st s).queue = st.queue ∧ (∀ a ∈ (abandon st s).aggs, a ∈ st.aggs ∧ a.snap.hash ≠ s.hash) ∧
    (∀ e ∈ (abandon st s).vers, e ∈ st.vers) := by
  refine ⟨rfl, ?_, ?_⟩
  · intro a ha
    have := List.mem_filter.mp (by simpa using ha : a ∈ st.aggs.filter (fun a => !(a.snap.hash == s.hash)))
    exact ⟨this.1, by simpa using this.2⟩
  · have key : ∀ (txs : List Nat) (v : Option Nat) (m : List (Nat × Ver)), ∀ e ∈ dropOwn v m txs, e ∈ m := by
      intro txs v
      induction txs with
      | nil => intro m e he; simpa [dropOwn] using he
      | cons t ts ih =>
        intro m e he
        unfold dropOwn at he
        rw [List.foldl_cons] at he
        have := ih _ e (by unfold dropOwn; exact he)
        split at this
        · simp only [erase, List.mem_filter] at this; exact this.1
        · exact this
    intro e he
    have h1 := key s.txs _ _ e (by simpa [abandon] using he)
    simp only [erase, List.mem_filter] at h1; exact h1.1

/-! ### expiry -/

theorem expireOver_inv (now gap : Nat) (order : List Agg) (st : St) :
    (expireOver now gap order st).finalized = st.finalized ∧
    (expireOver now gap order st).bodies = st.bodies ∧
    (∀ x, x ∈ (expireOver now gap order st).queue ↔
      x ∈ st.queue ∨ ∃ a ∈ order, expirable now gap a = true ∧ x ∈ a.snap.txs ∧ pending st x) ∧
    (∀ b, b ∈ (expireOver now gap order st).aggs ↔
      b ∈ st.aggs ∧ ∀ a ∈ order, expirable now gap a = true → a.snap.hash ≠ b.snap.hash) := by
  induction order generalizing st with
  | nil => simp [expireOver]
  | cons a t ih =>
    unfold expireOver
    rw [List.foldl_cons]
    by_cases he : expirable now gap a = true
    · rw [if_pos he]
      obtain ⟨h1, h2, h3, h4⟩ := ih (retry st a.snap)
      unfold expireOver at h1 h2 h3 h4
      have pf : ∀ x, pending (retry st a.snap) x ↔ pending st x := fun x => by simp [pending, retry]
      refine ⟨by rw [h1]; simp [retry], by rw [h2]; simp [retry], ?_, ?_⟩
      · intro x
        rw [h3, retry_queue_mem]
        constructor
        · rintro ((hq | ⟨hx, hp⟩) | ⟨b, hb, hbe, hbx, hbp⟩)
          · exact Or.inl hq
          · exact Or.inr ⟨a, by simp, he, hx, hp⟩
          · exact Or.inr ⟨b, by simp [hb], hbe, hbx, (pf x).mp hbp⟩
        · rintro (hq | ⟨b, hb, hbe, hbx, hbp⟩)
          · exact Or.inl (Or.inl hq)
          · rcases List.mem_cons.mp hb with rfl | hb
            · exact Or.inl (Or.inr ⟨hbx, hbp⟩)
            · exact Or.inr ⟨b, hb, hbe, hbx, (pf x).mpr hbp⟩
      · intro b
        rw [h4]
        have hagg : b ∈ (retry st a.snap).aggs ↔ b ∈ st.aggs ∧ a.snap.hash ≠ b.snap.hash := by
          have : (retry st a.snap).aggs = st.aggs.filter (fun c => !(c.snap.hash == a.snap.hash)) := rfl
          rw [this, List.mem_filter]
          simp only [Bool.not_eq_true', beq_eq_false_iff_ne, ne_eq]
          exact ⟨fun ⟨x, y⟩ => ⟨x, fun h => y h.symm⟩, fun ⟨x, y⟩ => ⟨x, fun h => y h.symm⟩⟩
        rw [hagg]
        constructor
        · rintro ⟨⟨hb, hne⟩, hall⟩
          refine ⟨hb, fun c hc hce => ?_⟩
          rcases List.mem_cons.mp hc with rfl | hc
          · exact hne
          · exact hall c hc hce
        · rintro ⟨hb, hall⟩
          exact ⟨⟨hb, hall a (by simp) he⟩, fun c hc hce => hall c (by simp [hc]) hce⟩
    · rw [if_neg he]
      obtain ⟨h1, h2, h3, h4⟩ := ih st
      unfold expireOver at h1 h2 h3 h4
      refine ⟨h1, h2, ?_, ?_⟩
      · intro x
        rw [h3]
        constructor
        · rintro (hq | ⟨b, hb, hbe, r⟩)
          · exact Or.inl hq
          · exact Or.inr ⟨b, by simp [hb], hbe, r⟩
        · rintro (hq | ⟨b, hb, hbe, r⟩)
          · exact Or.inl hq
          · rcases List.mem_cons.mp hb with rfl | hb
            · exact absurd hbe he
            · exact Or.inr ⟨b, hb, hbe, r⟩
      · intro b
        rw [h4]
        constructor
        · rintro ⟨hb, hall⟩
          refine ⟨hb, fun c hc hce => ?_⟩
          rcases List.mem_cons.mp hc with rfl | hc
          · exact absurd hce he
          · exact hall c hc hce
        · rintro ⟨hb, hall⟩
          exact ⟨hb, fun c hc hce => hall c (by simp [hc]) hce⟩

theorem unique_eq' {l : List Agg} (h : l.Pairwise (fun a b => a.snap.hash ≠ b.snap.hash))
    {a b : Agg} : a ∈ l → b ∈ l → a.snap.hash = b.snap.hash → a = b := by
  induction l with
  | nil => intro ha; cases ha
  | cons c t ih =>
    rw [List.pairwise_cons] at h
    intro ha hb e
    rcases List.mem_cons.mp ha with h1 | h1 <;> rcases List.mem_cons.mp hb with h2 | h2
    · rw [h1, h2]
    · subst h1; exact absurd e (h.1 b h2)
    · subst h2; exact absurd e.symm (h.1 a h1)
    · exact ih h.2 h1 h2 e

theorem unique_eq {l : List Agg} (h : l.Pairwise (fun a b => a.snap.hash ≠ b.snap.hash))
    {a b : Agg} (ha : a ∈ l) (hb : b ∈ l) (e : a.snap.hash = b.snap.hash) : a = b :=
  unique_eq' h ha hb e

/-- **expire_no_loss**: every proposal that `expireCosiAggregators(now)` retired (it was in the
    map before and its key is not there afterwards) has all its pending transactions in the
    cache queue afterwards; this holds for every iteration order of the map. -/
theorem expire_no_loss (now gap : Nat) (st : St) (huniq : UniqueKeys st) (a : Agg) (ha : a ∈ st.aggs)
    (hret : ∀ b ∈ (expire now gap st).aggs, b.snap.hash ≠ a.snap.hash) :
    ∀ x ∈ a.snap.txs, pending st x → x ∈ (expire now gap st).queue := by
  obtain ⟨_, _, hq, hag⟩ := expireOver_inv now gap st.aggs st
  intro x hx hp
  have hna : a ∉ (expire now gap st).aggs := fun h => hret a h rfl
  have : ∃ e ∈ st.aggs, expirable now gap e = true ∧ e.snap.hash = a.snap.hash := by
    apply Classical.byContradiction
    intro hno
    apply hna
    unfold expire
    rw [hag]
    exact ⟨ha, fun e he hee heq => hno ⟨e, he, hee, heq⟩⟩
  obtain ⟨e, he, hee, heq⟩ := this
  have : e = a := unique_eq huniq he ha heq
  subst this
  unfold expire
  rw [hq]
  exact Or.inr ⟨e, he, hee, hx, hp⟩

/-- **complete_not_expired**: a proposal that has its commitment threshold and every
    corresponding response, or whose round gap has not elapsed, is not retired -/
theorem complete_not_expired (now gap : Nat) (st : St) (huniq : UniqueKeys st) (a : Agg) (ha : a ∈ st.aggs)
    (hc : (a.commitments ≥ a.base ∧ a.responses = a.commitments) ∨ now < a.snap.ts + gap) :
    a ∈ (expire now gap st).aggs := by
  obtain ⟨_, _, _, hag⟩ := expireOver_inv now gap st.aggs st
  unfold expire
  rw [hag]
  refine ⟨ha, fun e he hee heq => ?_⟩
  have : e = a := unique_eq huniq he ha heq
  subst this
  unfold expirable at hee
  rcases hc with ⟨h1, h2⟩ | h3
  · simp [h1, h2] at hee
  · simp [h3] at hee

/-- whatever becomes eligible through an expiry pass is a pending transaction of a proposal
    that this pass retired (unconditional) -/
theorem expire_newly_queued (now gap : Nat) (st : St) (x : Nat)
    (hx : x ∈ (expire now gap st).queue) (hn : x ∉ st.queue) :
    ∃ a ∈ st.aggs, expirable now gap a = true ∧ x ∈ a.snap.txs ∧ pending st x ∧
      ∀ b ∈ (expire now gap st).aggs, b.snap.hash ≠ a.snap.hash := by
  obtain ⟨_, _, hq, hag⟩ := expireOver_inv now gap st.aggs st
  unfold expire at hx ⊢
  rcases (hq x).mp hx with h | ⟨a, ha, hae, hax, hp⟩
  · exact absurd h hn
  · exact ⟨a, ha, hae, hax, hp, fun b hb => ((hag b).mp hb).2 a ha hae |>.symm⟩

/-
  active_not_requeued (full statement, FALSE of the code):
      ∀ st now x, x ∈ (expire now gap st).queue → x ∉ st.queue →
        ¬ ∃ b ∈ (expire now gap st).aggs, x ∈ b.snap.txs
  for every state the node can reach. `overlap_reachable` below reaches, through the duplicate
  guard of cosiSendAnnouncement exactly as coded, a state with two local proposals sharing a
  transaction (the guard lapses at ts₁ + SnapshotRoundGap, the instant the first becomes
  expirable), and `active_not_requeued_counterexample` shows expiry re-queueing the shared
  transaction while the second proposal is active. What is proved instead is the statement
  under the hypothesis that proposals are disjoint.
-/
theorem active_not_requeued_partial (now gap : Nat) (st : St) (hdis : DisjointAggs st) (x : Nat)
    (hx : x ∈ (expire now gap st).queue) (hn : x ∉ st.queue) :
    ¬ ∃ b ∈ (expire now gap st).aggs, x ∈ b.snap.txs := by
  obtain ⟨a, ha, _, hax, _, hret⟩ := expire_newly_queued now gap st x hx hn
  rintro ⟨b, hb, hbx⟩
  obtain ⟨_, _, _, hag⟩ := expireOver_inv now gap st.aggs st
  have hb0 : b ∈ st.aggs := ((hag b).mp (by unfold expire at hb; exact hb)).1
  exact hret b hb (hdis b hb0 a ha x hbx hax)

/-- also for retry: only the retried proposal's own pending transactions become eligible -/
theorem retry_newly_queued (st : St) (s : Snap) (x : Nat)
    (hx : x ∈ (retry st s).queue) (hn : x ∉ st.queue) : x ∈ s.txs ∧ pending st x := by
  rcases (retry_queue_mem st s x).mp hx with h | h
  · exact absurd h hn
  · exact h

def T0 : Nat := 1800000000000000000
def s1 : Snap := { hash := 1001, round := 2, ts := T0, txs := [7] }
def s2 : Snap := { hash := 1002, round := 2, ts := T0 + roundGap, txs := [7] }
def st0 : St := { bodies := [7] }
/-- first proposal installed; the transaction is queued again from outside (RPC resubmission or
    a peer bundle: `QueueTransaction` / `CacheQueueTransactions`), popped, and proposed again one
    round gap later, before the poll loop reached `expireCosiAggregators` -/
def st2 : St := announce roundGap (announce roundGap st0 s1 0 5) s2 1 5

/-- the guard admits the second proposal: both are installed and share transaction 7 -/
theorem overlap_reachable :
    st2.aggs.map (·.snap.hash) = [1002, 1001] ∧ (lookup st2.vers 7).map (·.id) = some 1 ∧
    ¬ DisjointAggs st2 ∧ UniqueKeys st2 := by
  refine ⟨by decide, by decide, ?_, by unfold UniqueKeys; decide⟩
  intro h
  have := h ⟨s2, 1, 0, 5⟩ (by decide) ⟨s1, 1, 0, 5⟩ (by decide) 7 (by decide) (by decide)
  revert this; decide

/-- one instant later the first proposal expires: its transaction is re-queued although the
    second proposal, still active and incomplete, owns it — the negation of the full statement -/
theorem active_not_requeued_counterexample :
    let st3 := expire (T0 + roundGap) roundGap st2
    st2.queue = [] ∧ st3.queue = [7] ∧ st3.aggs.map (·.snap.hash) = [1002] ∧
    (∃ b ∈ st3.aggs, 7 ∈ b.snap.txs) := by
  refine ⟨by decide, by decide, by decide, ⟨⟨s2, 1, 0, 5⟩, by decide, by decide⟩⟩

/-- one nanosecond earlier the guard still holds: the duplicate is refused and nothing is installed -/
example : (announce roundGap (announce roundGap st0 s1 0 5) { s2 with ts := T0 + roundGap - 1 } 1 5).aggs.map (·.snap.hash)
    = [1001] := by decide

/-! ### deferred and abandoned self announcements -/

/-- **deferred_no_loss**: a self proposal that `prepareAnnouncement` defers (not after the round
    timestamp, after the 4/5 round-gap cutoff, or across the UTC day boundary of the open round)
    installs nothing and every pending transaction of its batch is eligible afterwards. -/
theorem deferred_no_loss (gap : Nat) (st : St) (s : Snap) (vid base roundTs cft : Nat)
    (hdef : s.ts ≤ roundTs ∨ s.ts > cft + gap * 4 / 5 ∨ s.ts / oneDay ≠ cft / oneDay) :
    (announceAt gap st s vid base roundTs cft).aggs = st.aggs ∧
    (announceAt gap st s vid base roundTs cft).vers = st.vers ∧
    ∀ x ∈ s.txs, pending st x → x ∈ (announceAt gap st s vid base roundTs cft).queue := by
  have h : announceAt gap st s vid base roundTs cft = requeue st s.txs := by
    unfold announceAt
    by_cases h1 : s.ts ≤ roundTs
    · rw [if_pos h1]
    · rw [if_neg h1]
      by_cases h2 : s.ts > cft + gap * 4 / 5
      · rw [if_pos h2]
      · rw [if_neg h2]
        rcases hdef with h | h | h
        · exact absurd h h1
        · exact absurd h h2
        · rw [if_pos h]
  rw [h]
  exact ⟨rfl, rfl, fun x hx hp => (requeue_mem st s.txs x).mpr (Or.inr ⟨hx, hp⟩)⟩

/-- a proposal refused by the duplicate guard hands back every pending transaction that no
    existing proposal guards -/
theorem guarded_no_loss (gap : Nat) (st : St) (s : Snap) (vid base : Nat)
    (hg : s.txs.any (guarded gap st.vers s) = true) :
    (announce gap st s vid base).aggs = st.aggs ∧
    ∀ x ∈ s.txs, guarded gap st.vers s x = false → pending st x → x ∈ (announce gap st s vid base).queue := by
  unfold announce
  rw [if_pos hg]
  refine ⟨rfl, fun x hx hgx hp => (requeue_mem st _ x).mpr (Or.inr ⟨?_, hp⟩)⟩
  rw [List.mem_filter]
  exact ⟨hx, by simp [hgx]⟩

/-- **abandoned_no_loss**: a self proposal abandoned at the sanity check because one of its
    transactions was finalized in another snapshot hands every pending sibling back -/
theorem abandoned_no_loss (st : St) (txs : List Nat) (st' : St)
    (h : sanityFinalizedElsewhere st txs = some st') :
    st'.aggs = st.aggs ∧ ∀ x ∈ txs, pending st x → x ∈ st'.queue := by
  unfold sanityFinalizedElsewhere at h
  split at h
  · split at h
    · cases h
      exact ⟨rfl, fun x hx hp => (requeue_mem st _ x).mpr (Or.inr ⟨hx, hp⟩)⟩
    · cases h
  · cases h

/-- the day-boundary deferral: round opened one second before midnight, proposal 1.5 s later -/
example : (announceAt roundGap { bodies := [1, 2] } { hash := 1001, round := 2, ts := 20000 * oneDay + 500000000, txs := [1, 2] }
    1001 5 (20000 * oneDay - 1000000001) (20000 * oneDay - 1000000000)).queue = [1, 2] := by decide

example : (sanityFinalizedElsewhere { bodies := [1, 2], finalized := [1] } [1, 2]).map (·.queue) = some [2] := by decide

/-! ### round reset -/

theorem inner_mem (owned txs acc : List Nat) (x : Nat) :
    x ∈ txs.foldl (fun acc tx => if !owned.contains tx && !acc.contains tx then acc ++ [tx] else acc) acc ↔
      x ∈ acc ∨ (x ∈ txs ∧ x ∉ owned) := by
  induction txs generalizing acc with
  | nil => simp
  | cons t ts ih =>
    rw [List.foldl_cons, ih]
    by_cases h1 : owned.contains t = true
    · have : t ∈ owned := List.contains_iff_mem.mp h1
      simp only [h1, Bool.not_true, Bool.false_and, Bool.false_eq_true, if_false, List.mem_cons]
      constructor
      · rintro (h | ⟨h, h'⟩)
        · exact Or.inl h
        · exact Or.inr ⟨Or.inr h, h'⟩
      · rintro (h | ⟨rfl | h, h'⟩)
        · exact Or.inl h
        · exact absurd this h'
        · exact Or.inr ⟨h, h'⟩
    · have h1' : t ∉ owned := fun hm => h1 (List.contains_iff_mem.mpr hm)
      by_cases h2 : acc.contains t = true
      · have h2' : t ∈ acc := List.contains_iff_mem.mp h2
        simp only [h1, h2, Bool.not_true, Bool.and_false, Bool.false_eq_true, if_false, List.mem_cons]
        constructor
        · rintro (h | ⟨h, h'⟩)
          · exact Or.inl h
          · exact Or.inr ⟨Or.inr h, h'⟩
        · rintro (h | ⟨rfl | h, h'⟩)
          · exact Or.inl h
          · exact Or.inl h2'
          · exact Or.inr ⟨h, h'⟩
      · simp only [h1, h2, Bool.not_false, Bool.and_self, if_true, List.mem_append, List.mem_cons,
          List.not_mem_nil, or_false]
        constructor
        · rintro ((h | rfl) | ⟨h, h'⟩)
          · exact Or.inl h
          · exact Or.inr ⟨Or.inl rfl, h1'⟩
          · exact Or.inr ⟨Or.inr h, h'⟩
        · rintro (h | ⟨rfl | h, h'⟩)
          · exact Or.inl (Or.inl h)
          · exact Or.inl (Or.inr rfl)
          · exact Or.inr ⟨h, h'⟩

theorem resetList_mem (owned : List Nat) (aggs : List Agg) (x : Nat) :
    x ∈ resetList owned aggs ↔ x ∉ owned ∧ ∃ a ∈ aggs, x ∈ a.snap.txs := by
  have gen : ∀ (acc : List Nat), x ∈ aggs.foldl (fun acc a => a.snap.txs.foldl
      (fun acc tx => if !owned.contains tx && !acc.contains tx then acc ++ [tx] else acc) acc) acc ↔
      x ∈ acc ∨ (x ∉ owned ∧ ∃ a ∈ aggs, x ∈ a.snap.txs) := by
    induction aggs with
    | nil => intro acc; simp
    | cons a t ih =>
      intro acc
      rw [List.foldl_cons, ih, inner_mem]
      constructor
      · rintro ((h | ⟨h, h'⟩) | ⟨h, b, hb, hbx⟩)
        · exact Or.inl h
        · exact Or.inr ⟨h', a, by simp, h⟩
        · exact Or.inr ⟨h, b, by simp [hb], hbx⟩
      · rintro (h | ⟨h, b, hb, hbx⟩)
        · exact Or.inl (Or.inl h)
        · rcases List.mem_cons.mp hb with rfl | hb
          · exact Or.inl (Or.inr ⟨hbx, h⟩)
          · exact Or.inr ⟨h, b, hb, hbx⟩
  unfold resetList
  rw [gen []]
  simp

theorem reset_queue_mem (st : St) (owned : List Nat) (x : Nat) :
    x ∈ (resetRound st owned).queue ↔
      x ∈ st.queue ∨ (x ∉ owned ∧ (∃ a ∈ st.aggs, x ∈ a.snap.txs) ∧ pending st x) := by
  unfold resetRound
  rw [requeue_mem, resetList_mem]
  simp [pending, and_assoc]

/-- **reset_no_loss**: `resetCosiStateForNewRound(owned)` discards every proposal and verifier,
    and every pending transaction of a discarded proposal that is not owned by the proposal
    triggering the transition is eligible afterwards -/
theorem reset_no_loss (st : St) (owned : List Nat) :
    (resetRound st owned).aggs = [] ∧ (resetRound st owned).vers = [] ∧
    ∀ a ∈ st.aggs, ∀ x ∈ a.snap.txs, x ∉ owned → pending st x → x ∈ (resetRound st owned).queue := by
  refine ⟨rfl, rfl, fun a ha x hx ho hp => (reset_queue_mem st owned x).mpr (Or.inr ⟨ho, ⟨a, ha, hx⟩, hp⟩)⟩

/-- **active_not_requeued** for the round transition: the transactions of the proposal that is
    about to be installed (`owned`) are not made eligible by the reset, and nothing else than
    pending transactions of discarded proposals is -/
theorem reset_owned_not_requeued (st : St) (owned : List Nat) (x : Nat)
    (hx : x ∈ (resetRound st owned).queue) (hn : x ∉ st.queue) :
    x ∉ owned ∧ (∃ a ∈ st.aggs, x ∈ a.snap.txs) ∧ pending st x := by
  rcases (reset_queue_mem st owned x).mp hx with h | h
  · exact absurd h hn
  · exact h

/-! ### non-vacuity: the repository's own two scenarios -/

/-- TestCosiRoundResetRequeuesOrphanedTransactions: owned 1, orphaned 2 -/
def tReset : St :=
  { aggs := [{ snap := { hash := 1000, round := 0, ts := 0, txs := [1, 2] }, commitments := 0, responses := 0, base := 5 }]
    vers := [(1000, { id := 0, round := 0, ts := 0 }), (1, { id := 0, round := 0, ts := 0 }), (2, { id := 0, round := 0, ts := 0 })]
    bodies := [1, 2] }

example : (resetRound tReset [1]).queue = [2] ∧ (resetRound tReset [1]).aggs = [] := by decide

/-- an incomplete proposal expires after one round gap; a complete one and a young one stay -/
def tExpire : St :=
  { aggs := [{ snap := { hash := 1000, round := 1, ts := 10, txs := [1, 2] }, commitments := 3, responses := 1, base := 5 },
             { snap := { hash := 1001, round := 1, ts := 10, txs := [3] }, commitments := 5, responses := 5, base := 5 },
             { snap := { hash := 1002, round := 1, ts := 11, txs := [4] }, commitments := 1, responses := 0, base := 5 }]
    bodies := [1, 2, 3, 4]
    finalized := [2] }

example : UniqueKeys tExpire ∧ (expire (10 + roundGap) roundGap tExpire).queue = [1] ∧
    (expire (10 + roundGap) roundGap tExpire).aggs.map (·.snap.hash) = [1001, 1002] := by
  refine ⟨by unfold UniqueKeys; decide, by decide, by decide⟩

example : DisjointAggs tExpire := by
  intro a ha b hb x hxa hxb
  simp only [tExpire, List.mem_cons, List.not_mem_nil, or_false] at ha hb
  rcases ha with rfl | rfl | rfl <;> rcases hb with rfl | rfl | rfl <;> simp_all

end Mixin.C24
