import Mixin.Model.Cosi
/-! # C13 — collective signatures verify exactly when built from valid shares (first cut) -/
namespace Mixin.C13
open Mixin.Cosi

/-- a threshold above the number of mask bits makes `FullVerify` fail -/
theorem threshold_above_mask (c : Sig) (publics : List Pt) (th : Int) (x : Nat)
    (h : ((keys c.mask).length : Int) < th) : fullVerify c publics th x = false := by
  unfold fullVerify
  by_cases h0 : th ≤ 0
  · simp [h0]
  · simp [h0, h]

end Mixin.C13
