import Mixin.Proofs.Cosi
import Mathlib.Data.ZMod.Basic
import Mathlib.Algebra.Module.BigOperators
/-!
# C13 — collective signatures verify exactly when built from valid shares

Two layers.

* **Abstract group**: for every `ZMod ℓ`-module `G` with base point `B` the finite-sum
  computation behind CoSi (`cosi_algebra`), and, when `k ↦ k • B` is injective, the exactness of
  the single-share check (`share_sound_group`).  The executable model is the instance
  `G = ZMod ℓ`, `B = 1` (points named by discrete logs), for which injectivity is trivial.
* **Model** (`Mixin.Cosi`, tied to crypto/cosi.go by the `cosi` correspondence stream):
  completeness of commit → aggregate → verify for every key vector, signer set, threshold and
  challenge value, and every rejection the property names.

Not a theorem here: that no signature verifies unless it was built from shares (unforgeability).
-/
namespace Mixin.C13
open Mixin.Cosi

/-! ## abstract group -/

section Abstract
variable {G : Type} [AddCommGroup G] [Module (ZMod ell) G] (B : G)

/-- `(Σ (x·aᵢ + rᵢ)) • B = Σ rᵢ•B + x • Σ aᵢ•B`: the sum of valid shares satisfies the
    verification equation for the summed commitment and the summed key. -/
theorem cosi_algebra {ι : Type} (t : Finset ι) (a r : ι → ZMod ell) (x : ZMod ell) :
    (∑ i ∈ t, (x * a i + r i)) • B = (∑ i ∈ t, r i • B) + x • ∑ i ∈ t, a i • B := by
  rw [Finset.sum_add_distrib, add_smul, ← Finset.mul_sum, mul_smul, Finset.sum_smul,
    Finset.sum_smul, add_comm]

/-- with an injective `k ↦ k • B`, a share passes `s•B = R + x•A` iff it is `x·a + r` -/
theorem share_sound_group (hB : Function.Injective (fun k : ZMod ell => k • B))
    (a r x s : ZMod ell) : s • B = r • B + x • (a • B) ↔ s = x * a + r := by
  have h : r • B + x • (a • B) = (x * a + r) • B := by
    rw [add_smul, mul_smul, add_comm]
  rw [h]
  exact ⟨fun e => hB e, fun e => by rw [e]⟩

/-- the discrete-log instance satisfies the injectivity hypothesis -/
theorem dl_instance_injective : Function.Injective (fun k : ZMod ell => k • (1 : ZMod ell)) := by
  intro a b h
  simpa using h

/-- what the model's Schnorr check means in any group: the numbers it accepts satisfy
    `s•B = r•B + x•(a•B)`. -/
theorem verify_is_group_equation (a r s x : Nat)
    (h : verifyWithChallenge (Pt.dl a) (Pt.dl r) s x = true) :
    (s : ZMod ell) • B = (r : ZMod ell) • B + (x : ZMod ell) • ((a : ZMod ell) • B) := by
  obtain ⟨a', r', ha, hr, _, hs⟩ := (verifyWithChallenge_iff _ _ _ _).1 h
  obtain ⟨ea, hea, ha', _, _⟩ := decode_some ha
  obtain ⟨er, her, hr', _, _⟩ := decode_some hr
  cases hea; cases her
  have : (s : ZMod ell) = (x : ZMod ell) * (a : ZMod ell) + (r : ZMod ell) := by
    rw [hs, ha', hr']
    simp only [ZMod.natCast_mod, Nat.cast_add, Nat.cast_mul]
    ring
  rw [this, add_smul, mul_smul, add_comm]

end Abstract

/-! ## rejections -/

/-- **threshold_above_mask**: a threshold above the number of mask bits (or ≤ 0) fails -/
theorem threshold_above_mask (c : Sig) (publics : List Pt) (th : Int) (x : Nat)
    (h : ((keys c.mask).length : Int) < th ∨ th ≤ 0) : fullVerify c publics th x = false := by
  unfold fullVerify
  by_cases h0 : th ≤ 0
  · simp [h0]
  · rcases h with h | h
    · simp [h0, h]
    · exact absurd h h0

theorem aggregateKey_none_of_out_of_range (c : Sig) (publics : List Pt)
    (h : ∃ k ∈ keys c.mask, publics.length ≤ k) :
    aggregatePublicKey publics (keysInt c.mask) = none := by
  obtain ⟨k, hk, hlen⟩ := h
  unfold aggregatePublicKey
  rw [collectSigners_eq_none]
  · rfl
  · right; right
    refine ⟨(k : Int), ?_, Or.inr (Or.inl (by exact_mod_cast hlen))⟩
    exact List.mem_map.2 ⟨k, hk, rfl⟩

/-- **mask_out_of_range**: a mask bit at or beyond the length of the key vector makes full
    verification, single-response verification and both aggregation modes fail. -/
theorem mask_out_of_range (c : Sig) (publics : List Pt)
    (h : ∃ k ∈ keys c.mask, publics.length ≤ k) :
    (∀ th x, fullVerify c publics th x = false) ∧
    (∀ signer s x, verifyResponse c publics signer s x = false) ∧
    (∀ resp x strict, aggregateResponse c publics resp x strict = none) := by
  have hagg := aggregateKey_none_of_out_of_range c publics h
  obtain ⟨k, hk, hlen⟩ := h
  have hall : keysInVector c.mask publics = false := by
    rw [Bool.eq_false_iff]
    intro hc
    have := List.all_eq_true.1 hc k hk
    simp at this
    omega
  refine ⟨?_, ?_, ?_⟩
  · intro th x
    unfold fullVerify
    by_cases h0 : th ≤ 0
    · simp [h0]
    · by_cases h1 : ((keys c.mask).length : Int) < th
      · simp [h0, h1]
      · simp [h0, h1, hagg]
  · intro signer s x
    unfold verifyResponse
    cases s with
    | none => rfl
    | some s =>
      dsimp only
      rw [hall]
      rfl
  · intro resp x strict
    unfold aggregateResponse
    have hall2 : responsesPresent c.mask publics resp = false := by
      rw [Bool.eq_false_iff]
      intro hc
      have := List.all_eq_true.1 hc k hk
      simp at this
      omega
    rw [hall2]
    rfl

/-- **missing_or_extra_response**: aggregation fails when a masked signer has no response (or a
    nil one), and when the number of responses differs from the number of mask bits (an extra or
    repeated signer). -/
theorem missing_or_extra_response (c : Sig) (publics : List Pt) (resp : List (Int × Option Nat))
    (x : Nat) (strict : Bool)
    (h : (∃ k ∈ keys c.mask, ∀ s, resp.lookup (k : Int) ≠ some (some s)) ∨
      resp.length ≠ (keys c.mask).length) :
    aggregateResponse c publics resp x strict = none := by
  unfold aggregateResponse
  rcases h with ⟨k, hk, hmiss⟩ | hlen
  · have hall2 : responsesPresent c.mask publics resp = false := by
      rw [Bool.eq_false_iff]
      intro hc
      have := List.all_eq_true.1 hc k hk
      simp only [Bool.and_eq_true, decide_eq_true_eq] at this
      obtain ⟨_, h2⟩ := this
      unfold hasResponse at h2
      cases hl : resp.lookup (Int.ofNat k) with
      | none => rw [hl] at h2; exact absurd h2 (by decide)
      | some o =>
        cases o with
        | none => rw [hl] at h2; exact absurd h2 (by decide)
        | some s => exact hmiss s hl
    rw [hall2]
    rfl
  · by_cases hall2 : responsesPresent c.mask publics resp = true
    · have : (keys c.mask).length ≠ resp.length := fun e => hlen e.symm
      rw [hall2, if_neg (by decide), if_pos this]
    · rw [Bool.eq_false_iff.2 hall2]
      rfl

/-- **mask_is_set**: the signers of a mask are listed once each, in increasing order: nobody is
    counted twice towards the threshold. -/
theorem mask_is_set (m : Nat) : (keys m).Nodup ∧ (keys m).Pairwise (· < ·) ∧ ∀ i ∈ keys m, i < 64 :=
  ⟨keys_nodup m, keys_pairwise m, fun _ h => (mem_keys.1 h).1⟩

/-- a commitment set with an index outside 0..63 or a refused commitment is rejected -/
theorem commit_rejects (randoms : List (Int × Pt))
    (h : randoms = [] ∨ ∃ q ∈ randoms, q.2.decode = none ∨ q.1 < 0 ∨ 64 ≤ q.1) :
    commit randoms = none := by
  unfold commit
  rcases h with h | h
  · simp [h]
  · rw [commitLoop_none_of_bad randoms h]
    simp

/-! ## share soundness -/

/-- **share_sound** (single response): `VerifyResponse` accepts a response only if the signer is
    in the mask, has a commitment `r•B`, a decodable key `a•B`, and the response is exactly
    `x·a + r (mod ℓ)`. -/
theorem share_sound_single (c : Sig) (publics : List Pt) (signer : Int) (s x : Nat)
    (h : verifyResponse c publics signer (some s) x = true) :
    (∃ k ∈ keys c.mask, (k : Int) = signer) ∧
    ∃ R a r, c.commitments.lookup signer = some R ∧ R.decode = some r ∧
      (publics.getD signer.toNat Pt.bad).decode = some a ∧ s < ell ∧ s = (x * a + r) % ell := by
  unfold verifyResponse at h
  dsimp only at h
  by_cases h1 : keysInVector c.mask publics = true
  · rw [h1] at h
    by_cases h2 : (keys c.mask).any (fun k => Int.ofNat k == signer) = true
    · rw [h2] at h
      cases hR : c.commitments.lookup signer with
      | none => rw [hR] at h; simp at h
      | some R =>
        rw [hR] at h
        by_cases h3 : challengeOk c publics = true
        · rw [h3] at h
          simp only [Bool.not_true, Bool.false_eq_true, if_false] at h
          obtain ⟨a, r, ha, hr, hlt, hs⟩ := (verifyWithChallenge_iff _ _ _ _).1 h
          refine ⟨?_, R, a, r, rfl, hr, ha, hlt, by rw [hs, Nat.add_comm]⟩
          obtain ⟨k, hk, hke⟩ := List.any_eq_true.1 h2
          exact ⟨k, hk, by simpa using hke⟩
        · rw [Bool.eq_false_iff.2 h3] at h
          simp at h
    · rw [Bool.eq_false_iff.2 h2] at h
      simp at h
  · rw [Bool.eq_false_iff.2 h1] at h
    simp at h

/-- **share_sound** (strict aggregation): if strict aggregation succeeds, every response it was
    given is the valid share of its signer. -/
theorem share_sound_strict (c c' : Sig) (publics : List Pt) (resp : List (Int × Option Nat)) (x : Nat)
    (h : aggregateResponse c publics resp x true = some c') :
    ∀ q ∈ resp, ∃ s R a r, q.2 = some s ∧ c.commitments.lookup q.1 = some R ∧
      R.decode = some r ∧ (publics.getD q.1.toNat Pt.bad).decode = some a ∧
      s = (x * a + r) % ell := by
  unfold aggregateResponse at h
  split at h
  · exact absurd h (by simp)
  · split at h
    · exact absurd h (by simp)
    · split at h
      · exact absurd h (by simp)
      · cases hl : respLoop c publics x true resp 0 with
        | none => simp [hl] at h
        | some S =>
          intro q hq
          obtain ⟨s, R, hs, hR, hv⟩ := respLoop_strict_sound c publics x resp 0 S hl q hq
          obtain ⟨a, r, ha, hr, _, he⟩ := (verifyWithChallenge_iff _ _ _ _).1 hv
          exact ⟨s, R, a, r, hs, hR, hr, ha, by rw [he, Nat.add_comm]⟩

/-- contrapositive reading: a response that differs from the signer's share is refused by
    single-response verification. -/
theorem bad_share_rejected (c : Sig) (publics : List Pt) (k : Nat) (s x a r : Nat) (R : Pt)
    (hR : c.commitments.lookup (k : Int) = some R) (hr : R.decode = some r)
    (ha : (publics.getD k Pt.bad).decode = some a) (hne : s ≠ (x * a + r) % ell) :
    verifyResponse c publics (k : Int) (some s) x = false := by
  rw [Bool.eq_false_iff]
  intro h
  obtain ⟨_, R', a', r', hR', hr', ha', _, hs⟩ := share_sound_single c publics _ s x h
  rw [hR] at hR'
  cases hR'
  rw [hr] at hr'
  cases hr'
  simp only [Int.toNat_natCast] at ha'
  rw [ha] at ha'
  cases ha'
  exact hne hs

/-! ## full verification is the group equation -/

/-- `FullVerify` accepts iff the threshold is met, the mask selects decodable keys inside the
    vector, and `S•B = R + x•ΣAᵢ` with `R`, `ΣAᵢ` not the identity and `S` canonical. -/
theorem fullVerify_iff (c : Sig) (publics : List Pt) (th : Int) (x : Nat) :
    fullVerify c publics th x = true ↔
      0 < th ∧ th ≤ (keys c.mask).length ∧
      ∃ sel A r, collectSigners publics (keysInt c.mask) = some sel ∧ A = sumDl sel % ell ∧
        A ≠ 0 ∧ c.R.decode = some r ∧ c.S < ell ∧ c.S = (r + x * A) % ell := by
  unfold fullVerify aggregatePublicKey
  by_cases h0 : th ≤ 0
  · simp only [h0, if_true, Bool.false_eq_true, false_iff]
    intro h; omega
  · by_cases h1 : ((keys c.mask).length : Int) < th
    · simp only [h0, h1, if_true, if_false, Bool.false_eq_true, false_iff]
      intro h; omega
    · simp only [h0, h1, if_false]
      cases hc : collectSigners publics (keysInt c.mask) with
      | none => simp
      | some sel =>
        simp only [Option.map_some]
        rw [verifyWithChallenge_iff]
        constructor
        · rintro ⟨a, r, ha, hr, hlt, hs⟩
          obtain ⟨e, he, hae, hane, _⟩ := decode_some ha
          cases he
          exact ⟨by omega, by omega, sel, a, r, rfl, hae, hane, hr, hlt, hs⟩
        · rintro ⟨_, _, sel', A, r, hsel, hA, hne, hr, hlt, hs⟩
          cases hsel
          refine ⟨A, r, ?_, hr, hlt, hs⟩
          rw [hA]
          exact decode_dl _ (by rw [← hA]; exact hne)

/-! ## completeness -/

/-- **cosi_complete**: for every key vector, every non-empty set of signers inside it (each
    index once, below 64) with decodable keys and commitments, every challenge value `x`, the
    valid shares `sᵢ = x·aᵢ + rᵢ` presented in any order, both aggregation modes and every
    threshold `1 ≤ t ≤ |signers|`: commitment aggregation succeeds, response aggregation succeeds
    and full verification succeeds — provided neither the summed commitment nor the summed key is
    the identity (the code refuses to decode the identity; see `complete_needs_nonzero`). -/
theorem cosi_complete (publics : List Pt) (rs : List (Nat × Pt)) (x : Nat) (strict : Bool)
    (th : Int) (resp : List (Int × Option Nat))
    (hne : rs ≠ [])
    (hnd : (rs.map (·.1)).Nodup)
    (hidx : ∀ q ∈ rs, q.1 < 64 ∧ q.1 < publics.length)
    (hR : ∀ q ∈ rs, q.2.decode ≠ none)
    (hA : ∀ q ∈ rs, (publics.getD q.1 Pt.bad).decode ≠ none)
    (hresp : resp.Perm (rs.map (fun q => ((q.1 : Int), some ((x * dlAt publics q.1 + dlOf q.2) % ell)))))
    (hRsum : (rs.map (fun q => dlOf q.2)).sum % ell ≠ 0)
    (hAsum : (rs.map (fun q => dlAt publics q.1)).sum % ell ≠ 0)
    (hth : 0 < th ∧ th ≤ rs.length) :
    ∃ c c', commit (rs.map castIdx) = some c ∧
      aggregateResponse c publics resp x strict = some c' ∧
      fullVerify c' publics th x = true := by
  -- 1. commitment aggregation
  obtain ⟨p', hcl, hp'⟩ := commitLoop_ok rs hR (fun q hq => (hidx q hq).1) 0 0 []
  have hcommit : commit (rs.map castIdx) =
      some { R := Pt.dl p', S := 0, mask := maskOf rs 0, commitments := rs.map castIdx } := by
    unfold commit
    have : (rs.map castIdx).isEmpty = false := by
      cases rs with
      | nil => exact absurd rfl hne
      | cons a t => rfl
    simp [this, hcl]
  -- 2. the mask lists the signers
  have hperm := keys_maskOf_perm rs hnd (fun q hq => (hidx q hq).1)
  have hmem : ∀ k ∈ keys (maskOf rs 0), ∃ q ∈ rs, q.1 = k := by
    intro k hk
    have := (hperm.mem_iff).1 hk
    obtain ⟨q, hq, rfl⟩ := List.mem_map.1 this
    exact ⟨q, hq, rfl⟩
  have hlen : (keys (maskOf rs 0)).length = rs.length := by
    rw [hperm.length_eq, List.length_map]
  -- 3. the aggregate key
  have hkne : keysInt (maskOf rs 0) ≠ [] := by
    intro h
    have : (keys (maskOf rs 0)).length = 0 := by
      have := congrArg List.length h
      simpa [keysInt] using this
    rw [hlen] at this
    exact hne (List.length_eq_zero_iff.1 this)
  have hcollect := collectSigners_eq_some publics (keysInt (maskOf rs 0)) hkne
    (by
      unfold keysInt
      rw [List.pairwise_map]
      exact (keys_pairwise _).imp (fun h => Int.ofNat_lt.2 h))
    (by
      intro i hi
      obtain ⟨k, hk, rfl⟩ := List.mem_map.1 hi
      obtain ⟨q, hq, rfl⟩ := hmem k hk
      refine ⟨Int.natCast_nonneg _, Int.ofNat_lt.2 (hidx q hq).2, ?_⟩
      exact hA q hq)
  have hselsum : sumDl ((keysInt (maskOf rs 0)).map (fun i => (i.toNat, dlAt publics i.toNat))) % ell =
      (rs.map (fun q => dlAt publics q.1)).sum % ell := by
    rw [sumDl_mod]
    congr 1
    have : ((keysInt (maskOf rs 0)).map (fun i => (i.toNat, dlAt publics i.toNat))).map (·.2) =
        (keys (maskOf rs 0)).map (dlAt publics) := by
      simp [keysInt, List.map_map, Function.comp_def]
    rw [this, (hperm.map (dlAt publics)).sum_eq]
    simp [List.map_map, Function.comp_def]
  -- 4. response aggregation
  let c : Sig := { R := Pt.dl p', S := 0, mask := maskOf rs 0, commitments := rs.map castIdx }
  have hrespnd : (resp.map (·.1)).Nodup := by
    rw [(hresp.map (·.1)).nodup_iff]
    simp only [List.map_map, Function.comp_def]
    have : (rs.map fun q => ((q.1 : Nat) : Int)) = (rs.map (·.1)).map (fun n : Nat => (n : Int)) := by
      simp [List.map_map, Function.comp_def]
    rw [this]
    exact hnd.map (fun a b h => by exact_mod_cast h)
  have hshare : ∀ q ∈ rs, resp.lookup (q.1 : Int) =
      some (some ((x * dlAt publics q.1 + dlOf q.2) % ell)) := by
    intro q hq
    apply lookup_of_mem_nodup resp hrespnd
    exact (hresp.mem_iff).2 (List.mem_map.2 ⟨q, hq, rfl⟩)
  have hloop := respLoop_ok c publics x strict resp 0 (by
    intro q hq
    have := (hresp.mem_iff).1 hq
    obtain ⟨q0, hq0, rfl⟩ := List.mem_map.1 this
    refine ⟨_, q0.2, rfl, lookup_castIdx rs hnd q0 hq0, Nat.mod_lt _ ell_pos, fun _ => ?_⟩
    rw [verifyWithChallenge_iff]
    obtain ⟨a, hda⟩ := Option.ne_none_iff_exists'.1 (hA q0 hq0)
    obtain ⟨r, hdr⟩ := Option.ne_none_iff_exists'.1 (hR q0 hq0)
    refine ⟨a, r, by rw [Int.toNat_natCast]; exact hda, hdr, Nat.mod_lt _ ell_pos, ?_⟩
    simp only [dlAt, dlOf, hda, hdr, Option.getD_some]
    rw [Nat.add_comm])
  obtain ⟨S, hS, hSmod, hSlt⟩ := hloop
  have hSlt' : S < ell := hSlt ell_pos
  have hagg : aggregateResponse c publics resp x strict = some { c with S := S } := by
    unfold aggregateResponse
    have hall : responsesPresent c.mask publics resp = true := by
      unfold responsesPresent
      rw [List.all_eq_true]
      intro k hk
      obtain ⟨q, hq, rfl⟩ := hmem k hk
      have h1 : q.1 < publics.length := (hidx q hq).2
      have h2 := hshare q hq
      simp only [hasResponse, Int.ofNat_eq_natCast, h2, h1, decide_true, Bool.and_self]
    have hlen2 : (keys c.mask).length = resp.length := by
      rw [hresp.length_eq, List.length_map]; exact hlen
    have hchal : challengeOk c publics = true := by
      unfold challengeOk aggregatePublicKey
      show ((collectSigners publics (keysInt (maskOf rs 0))).map _).isSome = true
      rw [hcollect]; rfl
    simp only [hall, hlen2, hchal, hS, Bool.not_true, Bool.false_eq_true, if_false, ne_eq,
      not_true_eq_false]
  refine ⟨c, { c with S := S }, hcommit, hagg, ?_⟩
  -- 5. full verification
  rw [fullVerify_iff]
  refine ⟨hth.1, by show th ≤ ((keys (maskOf rs 0)).length : Int); rw [hlen]; exact hth.2, ?_⟩
  refine ⟨_, _, p' % ell, hcollect, rfl, ?_, ?_, hSlt', ?_⟩
  · rw [hselsum]; exact hAsum
  · show (Pt.dl p').decode = some (p' % ell)
    apply decode_dl
    rw [hp']; simpa using hRsum
  · show S = (p' % ell + x * (sumDl _ % ell)) % ell
    rw [hselsum, hp', ← Nat.mod_eq_of_lt hSlt', hSmod]
    have hsum : (resp.map (fun q => q.2.getD 0)).sum =
        ((rs.map (fun q => (dlAt publics q.1, dlOf q.2))).map (fun p => (x * p.1 + p.2) % ell)).sum := by
      rw [(hresp.map (fun q => q.2.getD 0)).sum_eq]
      simp [List.map_map, Function.comp_def]
    rw [Nat.zero_add, hsum, shares_sum_mod]
    simp [List.map_map, Function.comp_def]

/-! ## the hypothesis the proof forces: identity sums

`decodePoint` refuses the identity, so a signer set whose keys (or commitments) sum to the
identity cannot be verified even with perfectly valid shares.  Concrete witness: keys `5•B` and
`(ℓ−5)•B`.  The same situation is replayed against the real code by the `cosi` corpus. -/
/-- commit, aggregate, verify in one go (for the concrete instances below) -/
def pipeline (publics : List Pt) (rs : List (Int × Pt)) (resp : List (Int × Option Nat))
    (x : Nat) (strict : Bool) (th : Int) : Option Bool :=
  (commit rs).bind (fun c =>
    (aggregateResponse c publics resp x strict).map (fun c' => fullVerify c' publics th x))

theorem complete_needs_nonzero :
    pipeline [Pt.dl 5, Pt.dl (ell - 5)] [(0, Pt.dl 11), (1, Pt.dl 13)]
      [(0, some ((3 * 5 + 11) % ell)), (1, some ((3 * (ell - 5) + 13) % ell))] 3 true 2 = some false := by
  decide

/-! ## non-vacuity -/

/-- a concrete instance of `cosi_complete`'s conclusion, evaluated by the model -/
example :
    pipeline [Pt.dl 5, Pt.dl 7, Pt.dl 9] [(2, Pt.dl 11), (0, Pt.dl 13)]
      [(0, some ((1234567 * 5 + 13) % ell)), (2, some ((1234567 * 9 + 11) % ell))] 1234567 true 2 = some true := by
  decide

example : (commit [(2, Pt.dl 11), (0, Pt.dl 13)]).map (·.mask) = some 5 := by decide

/-- a wrong share is refused by the single-response check and by strict aggregation, and
    accepted by lenient aggregation (whose result then fails verification) -/
example :
    (commit [(0, Pt.dl 11), (1, Pt.dl 13)]).map (fun c =>
      (verifyResponse c [Pt.dl 5, Pt.dl 7] 0 (some ((99 * 5 + 11) % ell + 1)) 99,
       verifyResponse c [Pt.dl 5, Pt.dl 7] 0 (some ((99 * 5 + 11) % ell)) 99)) = some (false, true) := by
  decide

example :
    pipeline [Pt.dl 5, Pt.dl 7] [(0, Pt.dl 11), (1, Pt.dl 13)]
      [(0, some ((99 * 5 + 11) % ell + 1)), (1, some ((99 * 7 + 13) % ell))] 99 true 2 = none ∧
    pipeline [Pt.dl 5, Pt.dl 7] [(0, Pt.dl 11), (1, Pt.dl 13)]
      [(0, some ((99 * 5 + 11) % ell + 1)), (1, some ((99 * 7 + 13) % ell))] 99 false 2 = some false := by
  decide

end Mixin.C13
