import Mixin.Props.C01
/-!
  C02 — spending requires threshold signatures over the payload hash.

  `O.verify k s` stands for `k.Verify(payloadHash, s)` and `O.aggVerify keys signers sig` for
  `AggregateVerify(sig, keys, signers, payloadHash) == nil`, both answered by the real crypto in
  the correspondence campaign. What is proved is the decision logic: which keys, which signatures,
  which offsets. Unforgeability and the soundness of the batch equation are not theorems (the
  batch equation is compared with the conjunction of single verifications by the harness, and the
  "changing any byte" clause is exercised on the real crypto by a tamper stream).
-/
namespace Mixin.C02
open Mixin.Validate Mixin.C01

/-- common part: an accepted transaction that is neither mint nor deposit typed completed the
    input loop -/
theorem accepted_full {L O tx fork i o} (h : validate L O tx fork = .accept i o)
    (ht1 : txType tx ≠ ttMint) (ht2 : txType tx ≠ ttDeposit) :
    ∃ f a, validateInputs L O tx (txType tx) fork = .ok (f, i) ∧
      inputsLoop L tx (txType tx) fork 0 tx.inputs {} = .ok (.full a) := by
  obtain ⟨_, _, f, hin, _, _, _⟩ := validateM_ok (accept_iff.1 h)
  obtain ⟨a, hl, _, _⟩ := inputs_full hin ht1 ht2
  exact ⟨f, a, hin, hl⟩

/-- **auth_sound_maps.** Accepted, no aggregate signature: every input resolves, and an ordinary
    input (script or node-remove typed output) at position `k` has its own signature map
    `sigs[k]`, every index of which addresses one of the spent output's own keys, at least
    `threshold` entries, and every listed signature verifies for the addressed key. -/
theorem auth_sound_maps {L O tx fork i o} (h : validate L O tx fork = .accept i o)
    (hagg : tx.agg = none) (ht1 : txType tx ≠ ttMint) (ht2 : txType tx ≠ ttDeposit) :
    ∀ (k : Nat) (inp : Input), tx.inputs[k]? = some inp → ∃ u, L.utxo inp.hash inp.index = some u ∧
      (IsOrdinaryUtxo u → ∃ m : List (Nat × Id), (tx.sigs.getD [])[k]? = some m ∧
        scriptFormatOk u.script = true ∧ scriptThreshold u.script ≤ m.length ∧
        ∀ p ∈ m, p.1 < u.keys.length ∧ O.verify (u.keys.getD p.1 0) p.2 = true) := by
  obtain ⟨f, a, hin, hl⟩ := accepted_full h ht1 ht2
  obtain ⟨_, _, hnil, hnth⟩ := loopSpec_keys _ _ _ _ (loop_full _ _ _ _ hl)
  have hver := validateInputs_verified hin hl
  rw [hagg] at hver
  intro k inp hk
  obtain ⟨u, ks, hu, hv, hsub⟩ := hnth k inp hk
  refine ⟨u, hu, fun hord => ?_⟩
  simp only [Nat.zero_add] at hv
  obtain ⟨m, hm, hidx, hfmt, hth, hks⟩ := validateUTXO_maps hv hord hagg
  refine ⟨m, hm, hfmt, hth, fun p hp => ⟨hidx p hp, ?_⟩⟩
  have hmem : (u.keys.getD p.1 0, some p.2) ∈ ks := by
    rw [hks]; exact List.mem_map.2 ⟨p, hp, rfl⟩
  rcases hver with hempty | hall
  · rw [hempty] at hsub; exact absurd (hsub _ hmem) (by simp)
  · obtain ⟨s, hs, hvs⟩ := hall _ (hsub _ hmem)
    simp at hs; subst hs; exact hvs

/-- the distinct-signers reading: with the map indexes unique (a decoded map), there is a
    duplicate-free set of key indexes of size ≥ threshold, each with a valid signature -/
theorem auth_sound_maps_distinct {L O tx fork i o} (h : validate L O tx fork = .accept i o)
    (hagg : tx.agg = none) (ht1 : txType tx ≠ ttMint) (ht2 : txType tx ≠ ttDeposit)
    (hwf : ∀ m ∈ tx.sigs.getD [], (m.map (·.1)).Nodup) :
    ∀ (k : Nat) (inp : Input), tx.inputs[k]? = some inp → ∃ u, L.utxo inp.hash inp.index = some u ∧
      (IsOrdinaryUtxo u → ∃ S : List Nat, S.Nodup ∧ scriptThreshold u.script ≤ S.length ∧
        ∀ j ∈ S, j < u.keys.length ∧ ∃ s, O.verify (u.keys.getD j 0) s = true) := by
  intro k inp hk
  obtain ⟨u, hu, hrest⟩ := auth_sound_maps h hagg ht1 ht2 k inp hk
  refine ⟨u, hu, fun hord => ?_⟩
  obtain ⟨m, hm, _, hth, hall⟩ := hrest hord
  refine ⟨m.map (·.1), hwf m (List.mem_of_getElem? hm), by simpa using hth, ?_⟩
  intro j hj
  obtain ⟨p, hp, rfl⟩ := List.mem_map.1 hj
  exact ⟨(hall p hp).1, p.2, (hall p hp).2⟩

/-- **auth_sound_agg.** Accepted with an aggregate signature: the signer list is strictly
    increasing; an ordinary input at position `k` counts at least `threshold` signers inside its
    own slice `[offset_k, offset_k + |keys_k|)` of the concatenated key list, where `offset_k` is
    the total number of keys of the inputs before it; and as soon as one ordinary input counts a
    signer, the aggregate signature verifies over the concatenation of all inputs' keys. -/
theorem auth_sound_agg {L O tx fork i o signers sig} (h : validate L O tx fork = .accept i o)
    (hagg : tx.agg = some (signers, sig)) (ht1 : txType tx ≠ ttMint) (ht2 : txType tx ≠ ttDeposit) :
    ∀ (k : Nat) (inp : Input), tx.inputs[k]? = some inp → ∃ u, L.utxo inp.hash inp.index = some u ∧
      (IsOrdinaryUtxo u →
        signersOk signers = true ∧ scriptFormatOk u.script = true ∧
        scriptThreshold u.script ≤ (signers.filter (inRange (offsetAt L tx.inputs k) u.keys.length)).length ∧
        ((signers.filter (inRange (offsetAt L tx.inputs k) u.keys.length)) ≠ [] →
          O.aggVerify (allKeysOf L tx.inputs) signers sig = true)) := by
  obtain ⟨f, a, hin, hl⟩ := accepted_full h ht1 ht2
  obtain ⟨hkeys, _, _, hnth⟩ := loopSpec_keys _ _ _ _ (loop_full _ _ _ _ hl)
  have hver := validateInputs_verified hin hl
  rw [hagg] at hver
  simp only [List.nil_append] at hkeys
  intro k inp hk
  obtain ⟨u, ks, hu, hv, hsub⟩ := hnth k inp hk
  refine ⟨u, hu, fun hord => ?_⟩
  simp only [Nat.zero_add, List.length_nil] at hv
  obtain ⟨hso, hfmt, hth, hks⟩ := validateUTXO_agg hv hord hagg
  have hlen := aggCollect_length u.keys (offsetAt L tx.inputs k) signers none (by
    simp [signersOk] at hso; exact hso.2)
  refine ⟨hso, hfmt, by omega, fun hne => ?_⟩
  rcases hver with hempty | hok
  · exfalso
    have : ks = [] := by
      cases hks' : ks with
      | nil => rfl
      | cons e es => rw [hks'] at hsub; rw [hempty] at hsub; exact absurd (hsub e (by simp)) (by simp)
    rw [this] at hks
    have : (aggCollect u.keys (offsetAt L tx.inputs k) signers).length = 0 := by
      have := congrArg List.length hks; simpa using this.symm
    rw [hlen] at this
    exact hne (List.length_eq_zero_iff.1 this)
  · rw [hkeys] at hok; exact hok

/-- **zero_threshold_only_exemption.** An ordinary input of an accepted transaction none of whose
    listed signatures is valid (maps), or none of whose keys is among the signers (aggregate), has
    script threshold 0. -/
theorem zero_threshold_only_exemption {L O tx fork i o} (h : validate L O tx fork = .accept i o)
    (ht1 : txType tx ≠ ttMint) (ht2 : txType tx ≠ ttDeposit)
    {k : Nat} {inp : Input} {u : Utxo} (hk : tx.inputs[k]? = some inp) (hu : L.utxo inp.hash inp.index = some u)
    (hord : IsOrdinaryUtxo u)
    (hnone : match tx.agg with
      | none => ∀ m : List (Nat × Id), (tx.sigs.getD [])[k]? = some m → ∀ p ∈ m, O.verify (u.keys.getD p.1 0) p.2 = false
      | some (signers, _) => signers.filter (inRange (offsetAt L tx.inputs k) u.keys.length) = []) :
    scriptThreshold u.script = 0 := by
  cases hagg : tx.agg with
  | none =>
    rw [hagg] at hnone
    obtain ⟨u', hu', hrest⟩ := auth_sound_maps h hagg ht1 ht2 k inp hk
    rw [hu] at hu'; cases hu'
    obtain ⟨m, hm, _, hth, hall⟩ := hrest hord
    cases m with
    | nil => simpa using hth
    | cons p ps =>
      have h1 := (hall p (by simp)).2
      have h2 := hnone _ hm p (by simp)
      rw [h1] at h2; cases h2
  | some v =>
    obtain ⟨signers, sig⟩ := v
    rw [hagg] at hnone
    obtain ⟨u', hu', hrest⟩ := auth_sound_agg h hagg ht1 ht2 k inp hk
    rw [hu] at hu'; cases hu'
    obtain ⟨_, _, hth, _⟩ := hrest hord
    simp only at hnone
    rw [hnone] at hth
    simpa using hth

/-- **auth_depends_only_on_used.** Take an accepted transaction and any oracle `O'` (it may differ
    from `O` anywhere) that refuses one signature the accepted run collected — a pair
    `(key, signature)` of some input's map, or the aggregate query. Then validation under `O'`
    rejects: every collected signature is load-bearing. -/
theorem auth_depends_only_on_used {L O O' tx fork i o a}
    (h : validate L O tx fork = .accept i o)
    (hl : inputsLoop L tx (txType tx) fork 0 tx.inputs {} = .ok (.full a))
    (hbad : match tx.agg with
      | none => ∃ k s, (k, some s) ∈ a.keySigs ∧ O'.verify k s = false
      | some (signers, sig) => a.keySigs ≠ [] ∧ O'.aggVerify a.allKeys signers sig = false) :
    validate L O' tx fork = .reject := by
  obtain ⟨hs, hp, f, hin, _, _, _⟩ := validateM_ok (accept_iff.1 h)
  have href : validateReferences L tx = .ok () := by
    have := accept_iff.1 h
    unfold validateM at this
    simp only [bind_ok] at this
    obtain ⟨_, _, _, _, _, hr, _⟩ := this
    exact hr
  have hne : a.keySigs ≠ [] := by
    cases hagg : tx.agg with
    | none => rw [hagg] at hbad; obtain ⟨k, s, hm, _⟩ := hbad; exact List.ne_nil_of_mem hm
    | some v => obtain ⟨signers, sig⟩ := v; rw [hagg] at hbad; exact hbad.1
  -- the accepted run did not take the `len(keySigs) < len(Inputs)` exit
  have hlen : ¬ a.keySigs.length < tx.inputs.length := by
    have hin' := hin
    unfold validateInputs at hin'
    simp only [bind_ok] at hin'
    obtain ⟨r, hr, hin'⟩ := hin'
    rw [hl] at hr; cases hr
    simp only at hin'
    split at hin'
    · rename_i hc; simp at hc; exact absurd hc.1 hne
    · split at hin'
      · simp at hin'
      · assumption
  have hrej : validateInputs L O' tx (txType tx) fork = .error .reject := by
    unfold validateInputs
    simp only [hl, bind, Except.bind]
    have h0 : (a.keySigs.length == 0) = false := by
      cases hks : a.keySigs with
      | nil => exact absurd hks hne
      | cons _ _ => simp
    simp only [h0, Bool.false_and, Bool.false_eq_true, if_false, if_neg hlen]
    cases hagg : tx.agg with
    | none =>
      rw [hagg] at hbad
      obtain ⟨k, s, hm, hv⟩ := hbad
      rw [if_neg]
      · rfl
      · intro hall
        have := List.all_eq_true.1 hall _ hm
        simp [hv] at this
    | some v =>
      obtain ⟨signers, sig⟩ := v
      rw [hagg] at hbad
      simp [hbad.2, rej]
  unfold validate validateM
  simp only [hs, hp, href, hrej, bind, Except.bind]

/-! ### Non-vacuity: 2-of-3 by signature maps and 2-of-3 by aggregate signature -/
namespace Example

def thr (n : Nat) : List Nat := [255, 254, n]

def ledger : Ledger :=
  { utxos := [
      { hash := 10, index := 0, type := 0, asset := 7, amount := 20, keys := [101, 102, 103], mask := 110, script := thr 2, lock := 0 },
      { hash := 11, index := 1, type := 0, asset := 7, amount := 10, keys := [104, 105, 106], mask := 111, script := thr 2, lock := 0 }] }

def out (amount key mask : Nat) : Output :=
  { type := 0, amount := amount, keys := [key], mask := mask, script := thr 1, withdrawal := false }

def tx0 : Tx :=
  { version := 5, asset := 7, references := [], extraLen := 0, extraId := 2, extra64 := 3, extraSpend := 0,
    inputs := [{ hash := 10, index := 0, genesis := false, deposit := none, mint := none },
               { hash := 11, index := 1, genesis := false, deposit := none, mint := none }],
    outputs := [out 30 120 130], sigs := none, agg := none, hash := 9, payloadSize := 300, cap := 1000 }

def oracle : Oracle :=
  { checkKey := fun k => 100 ≤ k && k < 200, verify := fun k s => s == k + 1000,
    -- the aggregate verifies for the concatenated key list and signers {0, 2} ∪ {3+1, 3+2}
    aggVerify := fun keys signers sig => keys == [101, 102, 103, 104, 105, 106] && signers == [0, 2, 4, 5] && sig == 77,
    claimSig := false, updParse := none, updSig := false, scalarOk := false, ghostEq := false }

def mapsTx : Tx := { tx0 with sigs := some [[(0, 1101), (2, 1103)], [(1, 1105), (2, 1106)]] }
def aggTx : Tx := { tx0 with agg := some ([0, 2, 4, 5], 77) }

example : validate ledger oracle mapsTx false = .accept 30 30 := by decide
example : validate ledger oracle aggTx false = .accept 30 30 := by decide
-- one signature short on the second input, a signature under the wrong index, a signer of the
-- first input counted for the second: rejected
example : validate ledger oracle { tx0 with sigs := some [[(0, 1101), (2, 1103)], [(1, 1105)]] } false = .reject := by decide
example : validate ledger oracle { tx0 with sigs := some [[(0, 1101), (2, 1103)], [(1, 1105), (0, 1106)]] } false = .reject := by decide
example : validate ledger { oracle with aggVerify := fun _ _ _ => true } { tx0 with agg := some ([0, 1, 2, 4], 77) } false = .reject := by decide
-- invalidating one used signature flips the decision
example : validate ledger { oracle with verify := fun k s => s == k + 1000 && k != 105 } mapsTx false = .reject := by decide

end Example
end Mixin.C02
