import Mixin.Model.Amount
/-!
# C33 — fixed-point amounts behave like exact decimal arithmetic

Property theorems about `Mixin.Model.Amount` (the model of `common/integer.go`,
`common/ration.go`). "Exact rational arithmetic followed by floor" is stated without
rationals: `q` is the floor of `a / b` iff `q * b ≤ a < (q + 1) * b`.
-/
namespace Mixin.C33
open Mixin.Amount

/-! ## helper lemmas -/

theorem takeWhile_app {p : Char → Bool} {l r : List Char} {c : Char}
    (h : ∀ x ∈ l, p x = true) (hc : p c = false) :
    (l ++ c :: r).takeWhile p = l := by
  induction l with
  | nil => simp [List.takeWhile, hc]
  | cons a t ih =>
    have ha : p a = true := h a (by simp)
    have ht : ∀ x ∈ t, p x = true := fun x hx => h x (by simp [hx])
    simp [List.takeWhile, ha, ih ht]

theorem dropWhile_app {p : Char → Bool} {l r : List Char} {c : Char}
    (h : ∀ x ∈ l, p x = true) (hc : p c = false) :
    (l ++ c :: r).dropWhile p = c :: r := by
  induction l with
  | nil => simp [List.dropWhile, hc]
  | cons a t ih =>
    have ha : p a = true := h a (by simp)
    have ht : ∀ x ∈ t, p x = true := fun x hx => h x (by simp [hx])
    simp [List.dropWhile, ha, ih ht]

theorem takeWhile_all {p : Char → Bool} {l : List Char} (h : ∀ x ∈ l, p x = true) :
    l.takeWhile p = l := by
  induction l with
  | nil => rfl
  | cons a t ih =>
    have ha : p a = true := h a (by simp)
    have ht : ∀ x ∈ t, p x = true := fun x hx => h x (by simp [hx])
    simp [List.takeWhile, ha, ih ht]

theorem dropWhile_all {p : Char → Bool} {l : List Char} (h : ∀ x ∈ l, p x = true) :
    l.dropWhile p = [] := by
  induction l with
  | nil => rfl
  | cons a t ih =>
    have ha : p a = true := h a (by simp)
    have ht : ∀ x ∈ t, p x = true := fun x hx => h x (by simp [hx])
    simp [List.dropWhile, ha, ih ht]

def AllDigits (l : List Char) : Prop := ∀ c ∈ l, c.isDigit = true

theorem digit_not_e {c : Char} (h : c.isDigit = true) : (!isE c) = true := by
  simp [Char.isDigit] at h
  simp [isE]
  constructor <;> intro hc <;> subst hc <;> simp at h

theorem digit_not_dot {c : Char} (h : c.isDigit = true) : (c != '.') = true := by
  simp [Char.isDigit] at h
  simp
  intro hc; subst hc; simp at h

theorem parseSigned_digits {l : List Char} (hne : l ≠ []) (h : AllDigits l) :
    parseSigned l = some (digitsVal l : Int) := by
  cases l with
  | nil => exact absurd rfl hne
  | cons a t =>
    have ha : a.isDigit = true := h a (by simp)
    have hm : a ≠ '-' := by intro hc; subst hc; simp [Char.isDigit] at ha
    have hp : a ≠ '+' := by intro hc; subst hc; simp [Char.isDigit] at ha
    have hall : (a :: t).all Char.isDigit = true := by
      simp only [List.all_eq_true]; exact h
    unfold parseSigned
    split
    · next r heq => simp at heq; exact absurd heq.1 hm
    · next r heq => simp at heq; exact absurd heq.1 hp
    · simp [hall]

/-- the value the parser assigns to plain `digits.digits` text -/
def plainValue (ip fp : List Char) : Nat :=
  if fp.length ≤ precision then digitsVal (ip ++ fp) * 10 ^ (precision - fp.length)
  else digitsVal (ip ++ fp) / 10 ^ (fp.length - precision)

theorem parseDecimal_plain {ip fp : List Char} (hne : ip ++ fp ≠ [])
    (hi : AllDigits ip) (hf : AllDigits fp) (hlen : fp.length ≤ 2147483648) :
    parseDecimal (ip ++ '.' :: fp) = some (plainValue ip fp) := by
  have hall : AllDigits (ip ++ fp) := by
    intro c hc; rcases List.mem_append.mp hc with h | h
    · exact hi c h
    · exact hf c h
  have hnoE : ∀ c ∈ ip ++ '.' :: fp, (!isE c) = true := by
    intro c hc
    rcases List.mem_append.mp hc with h | h
    · exact digit_not_e (hi c h)
    · rcases List.mem_cons.mp h with h | h
      · subst h; simp [isE]
      · exact digit_not_e (hf c h)
  have hsplit : splitExp (ip ++ '.' :: fp) = some (ip ++ '.' :: fp, 0) := by
    unfold splitExp
    simp only [takeWhile_all hnoE, dropWhile_all hnoE]
  have hdot : ∀ x ∈ ip, (x != '.') = true := fun x hx => digit_not_dot (hi x hx)
  have hcountf : fp.count '.' = 0 := by
    rw [List.count_eq_zero]; intro hm
    have := hf '.' hm; simp [Char.isDigit] at this
  have hcounti : ip.count '.' = 0 := by
    rw [List.count_eq_zero]; intro hm
    have := hi '.' hm; simp [Char.isDigit] at this
  unfold parseDecimal
  rw [hsplit]
  simp only [List.count_append, List.count_cons_self, hcounti, hcountf]
  simp only [takeWhile_app hdot (by simp : ('.' != '.') = false),
    dropWhile_app hdot (by simp : ('.' != '.') = false), List.drop_one, List.tail_cons]
  rw [parseSigned_digits hne hall]
  unfold plainValue
  simp only [precision, Mixin.Facts.Gen.common_Precision, minInt32, maxInt32]
  have h1 : ¬ (0 + (0 + 1) > 1) := by omega
  have h2 : ¬ ((0 : Int) - ↑fp.length < -2147483648 ∨ (0 : Int) - ↑fp.length > 2147483647) := by omega
  have h3 : ¬ ((digitsVal (ip ++ fp) : Int) < 0) := by omega
  have h4 : ¬ ((0 : Int) - ↑fp.length + ((8 : Nat) : Int) > 2147483647) := by omega
  simp only [h1, h2, h3, h4, if_false]
  by_cases hle : fp.length ≤ 8
  · have h5 : (0 : Int) - ↑fp.length + ((8 : Nat) : Int) ≥ 0 := by omega
    have h6 : ((0 : Int) - ↑fp.length + ((8 : Nat) : Int)).toNat = 8 - fp.length := by omega
    simp only [h5, hle, h6, Int.toNat_natCast, if_true]
  · have h5 : ¬ ((0 : Int) - ↑fp.length + ((8 : Nat) : Int) ≥ 0) := by omega
    have h6 : (-((0 : Int) - ↑fp.length + ((8 : Nat) : Int))).toNat = fp.length - 8 := by omega
    simp only [h5, hle, h6, Int.toNat_natCast, if_false]

theorem parseDecimal_int {ip : List Char} (hne : ip ≠ []) (hi : AllDigits ip) :
    parseDecimal ip = some (digitsVal ip * 10 ^ precision) := by
  have hnoE : ∀ c ∈ ip, (!isE c) = true := fun c hc => digit_not_e (hi c hc)
  have hdot : ∀ x ∈ ip, (x != '.') = true := fun x hx => digit_not_dot (hi x hx)
  have hsplit : splitExp ip = some (ip, 0) := by
    unfold splitExp
    simp only [takeWhile_all hnoE, dropWhile_all hnoE]
  have hcounti : ip.count '.' = 0 := by
    rw [List.count_eq_zero]; intro hm
    have := hi '.' hm; simp [Char.isDigit] at this
  unfold parseDecimal
  rw [hsplit]
  simp only [hcounti, takeWhile_all hdot, dropWhile_all hdot, List.drop_nil, List.append_nil,
    List.length_nil]
  rw [parseSigned_digits hne hi]
  simp only [precision, Mixin.Facts.Gen.common_Precision, minInt32, maxInt32]
  have h3 : ¬ ((digitsVal ip : Int) < 0) := by omega
  simp [h3]

/-! ## property theorems -/

/-- `q` is the floor of the rational `a / b` -/
def IsFloorDiv (q a b : Nat) : Prop := q * b ≤ a ∧ a < (q + 1) * b

theorem isFloorDiv_div (a b : Nat) (hb : 0 < b) : IsFloorDiv (a / b) a b := by
  constructor
  · exact Nat.div_mul_le_self a b
  · rw [Nat.mul_comm]; exact Nat.lt_mul_div_succ a hb

theorem isFloorDiv_unique {q q' a b : Nat} (h : IsFloorDiv q a b) (h' : IsFloorDiv q' a b) : q = q' := by
  rcases h with ⟨h1, h2⟩; rcases h' with ⟨h3, h4⟩
  rcases Nat.lt_trichotomy q q' with hlt | heq | hgt
  · exfalso
    have : (q + 1) * b ≤ q' * b := Nat.mul_le_mul_right b hlt
    omega
  · exact heq
  · exfalso
    have : (q' + 1) * b ≤ q * b := Nat.mul_le_mul_right b hgt
    omega

/-- Decimal text `ip.fp` (value `digitsVal (ip++fp) / 10^|fp|`) parses to that value times 10⁸,
    truncated: the result is the floor of `digitsVal (ip++fp) · 10⁸ / 10^|fp|`. -/
theorem parse_truncates {ip fp : List Char} (hne : ip ++ fp ≠ [])
    (hi : AllDigits ip) (hf : AllDigits fp) (hlen : fp.length ≤ 2147483648) :
    ∃ q, parseDecimal (ip ++ '.' :: fp) = some q ∧
      IsFloorDiv q (digitsVal (ip ++ fp) * 10 ^ 8) (10 ^ fp.length) := by
  refine ⟨plainValue ip fp, parseDecimal_plain hne hi hf hlen, ?_⟩
  unfold plainValue precision Mixin.Facts.Gen.common_Precision
  by_cases hle : fp.length ≤ 8
  · simp only [hle, if_true]
    have : 10 ^ 8 = 10 ^ (8 - fp.length) * 10 ^ fp.length := by
      rw [← Nat.pow_add]; congr 1; omega
    constructor
    · rw [this, Nat.mul_assoc]; exact Nat.le_refl _
    · rw [this, ← Nat.mul_assoc]
      apply Nat.mul_lt_mul_of_pos_right (by omega) (Nat.pow_pos (by omega))
  · simp only [hle, if_false]
    have hd : 0 < 10 ^ (fp.length - 8) := Nat.pow_pos (by omega)
    have hp : 10 ^ fp.length = 10 ^ (fp.length - 8) * 10 ^ 8 := by
      rw [← Nat.pow_add]; congr 1; omega
    have ⟨h1, h2⟩ := isFloorDiv_div (digitsVal (ip ++ fp)) _ hd
    constructor
    · rw [hp, ← Nat.mul_assoc]; exact Nat.mul_le_mul_right _ h1
    · rw [hp, ← Nat.mul_assoc]; exact Nat.mul_lt_mul_of_pos_right h2 (Nat.pow_pos (by omega))

theorem allDigits_toDigits (n : Nat) : AllDigits (Nat.toDigits 10 n) :=
  fun _ hc => Nat.isDigit_of_mem_toDigits (by omega) (by omega) hc

theorem digitsVal_toDigits (n : Nat) : digitsVal (Nat.toDigits 10 n) = n := by
  simp [digitsVal]

theorem digitsVal_zeros_append (k : Nat) (l : List Char) :
    digitsVal ('0' :: (List.replicate k '0' ++ l)) = digitsVal l := by
  unfold digitsVal
  rw [show '0' :: (List.replicate k '0' ++ l) = List.replicate (k + 1) '0' ++ l by
    simp [List.replicate_succ]]
  rw [Nat.ofDigitChars_append, Nat.ofDigitChars_replicate_zero]
  simp

/-- Printing an amount and parsing the text gives the amount back. -/
theorem print_parse (n : Nat) : parseDecimal (printAmount n) = some n := by
  have hd := allDigits_toDigits n
  have hv := digitsVal_toDigits n
  have hne : Nat.toDigits 10 n ≠ [] := Nat.toDigits_ne_nil
  unfold printAmount
  simp only
  by_cases hlen : (Nat.toDigits 10 n).length > precision
  · simp only [hlen, if_true]
    have hi : AllDigits ((Nat.toDigits 10 n).take ((Nat.toDigits 10 n).length - precision)) :=
      fun c hc => hd c (List.mem_of_mem_take hc)
    have hf : AllDigits ((Nat.toDigits 10 n).drop ((Nat.toDigits 10 n).length - precision)) :=
      fun c hc => hd c (List.mem_of_mem_drop hc)
    have hfl : ((Nat.toDigits 10 n).drop ((Nat.toDigits 10 n).length - precision)).length = 8 := by
      simp [precision, Mixin.Facts.Gen.common_Precision] at hlen ⊢; omega
    rw [parseDecimal_plain (by simpa using hne) hi hf (by omega)]
    unfold plainValue
    rw [hfl, List.take_append_drop, hv]
    simp [precision, Mixin.Facts.Gen.common_Precision]
  · simp only [hlen, if_false]
    have hz : AllDigits (List.replicate (precision - (Nat.toDigits 10 n).length) '0' ++ Nat.toDigits 10 n) := by
      intro c hc
      rcases List.mem_append.mp hc with h | h
      · rw [List.mem_replicate] at h; rw [h.2]; decide
      · exact hd c h
    have h0 : AllDigits ['0'] := by intro c hc; simp at hc; subst hc; decide
    have hfl : (List.replicate (precision - (Nat.toDigits 10 n).length) '0' ++ Nat.toDigits 10 n).length = 8 := by
      simp [precision, Mixin.Facts.Gen.common_Precision] at hlen ⊢; omega
    have := parseDecimal_plain (ip := ['0']) (by simp) h0 hz (by omega)
    simp only [List.cons_append, List.nil_append] at this
    rw [this]
    unfold plainValue
    rw [hfl]
    simp only [List.cons_append, List.nil_append]
    rw [digitsVal_zeros_append, hv]
    simp [precision, Mixin.Facts.Gen.common_Precision]

/-- The printed text is normalised: digits, one point, exactly eight fractional digits. -/
theorem print_normal (n : Nat) :
    ∃ ip fp, printAmount n = ip ++ '.' :: fp ∧ AllDigits ip ∧ AllDigits fp ∧ ip ≠ [] ∧ fp.length = 8 := by
  have hd := allDigits_toDigits n
  unfold printAmount
  simp only
  by_cases hlen : (Nat.toDigits 10 n).length > precision
  · simp only [hlen, if_true]
    refine ⟨_, _, rfl, fun c hc => hd c (List.mem_of_mem_take hc), fun c hc => hd c (List.mem_of_mem_drop hc), ?_, ?_⟩
    · intro h
      have := congrArg List.length h
      simp [precision, Mixin.Facts.Gen.common_Precision] at this hlen; omega
    · simp [precision, Mixin.Facts.Gen.common_Precision] at hlen ⊢; omega
  · simp only [hlen, if_false]
    refine ⟨['0'], _, rfl, ?_, ?_, by simp, ?_⟩
    · intro c hc; simp at hc; subst hc; decide
    · intro c hc
      rcases List.mem_append.mp hc with h | h
      · rw [List.mem_replicate] at h; rw [h.2]; decide
      · exact hd c h
    · simp [precision, Mixin.Facts.Gen.common_Precision] at hlen ⊢; omega

/-- A negative literal is rejected (the Go code panics). -/
theorem parse_negative_rejected {ds : List Char} (hne : ds ≠ []) (hd : AllDigits ds)
    (hpos : 0 < digitsVal ds) : parseDecimal ('-' :: ds) = none := by
  have hnoE : ∀ c ∈ '-' :: ds, (!isE c) = true := by
    intro c hc; rcases List.mem_cons.mp hc with h | h
    · subst h; simp [isE]
    · exact digit_not_e (hd c h)
  have hdot : ∀ x ∈ '-' :: ds, (x != '.') = true := by
    intro c hc; rcases List.mem_cons.mp hc with h | h
    · subst h; simp
    · exact digit_not_dot (hd c h)
  have hcount : ('-' :: ds).count '.' = 0 := by
    rw [List.count_eq_zero]; intro hm
    have := hdot '.' hm; simp at this
  have hall : ds.all Char.isDigit = true := by simp only [List.all_eq_true]; exact hd
  have hemp : ds.isEmpty = false := by cases ds <;> simp_all
  unfold parseDecimal splitExp
  simp only [takeWhile_all hnoE, dropWhile_all hnoE, hcount, takeWhile_all hdot, dropWhile_all hdot,
    List.drop_nil, List.append_nil]
  simp [parseSigned, hall, hemp, minInt32, maxInt32]
  omega

/-! ### arithmetic agrees with ℕ arithmetic exactly when defined -/

theorem add_spec (x y : Nat) : add x y = if 0 < y then some (x + y) else none := by
  unfold add; by_cases h : y = 0 <;> simp [h] <;> omega
theorem sub_spec (x y : Nat) : sub x y = if 0 < y ∧ y ≤ x then some (x - y) else none := by
  unfold sub; by_cases h : y = 0 ∨ x < y
  · have : ¬ (0 < y ∧ y ≤ x) := by omega
    simp [h, this]
  · have : 0 < y ∧ y ≤ x := by omega
    simp [h, this]
theorem sub_add_cancel {x y z : Nat} (h : sub x y = some z) : z + y = x := by
  unfold sub at h; split at h
  · cases h
  · cases h; omega
theorem mul_spec (x : Nat) (k : Int) : mul x k = if 0 < k then some (x * k.toNat) else none := by
  unfold mul; by_cases h : k ≤ 0
  · have : ¬ 0 < k := by omega
    simp [h, this]
  · have : 0 < k := by omega
    simp [h, this]
theorem div_floor (x : Nat) (k : Int) (hk : 0 < k) : ∃ q, div x k = some q ∧ IsFloorDiv q x k.toNat := by
  have : ¬ k ≤ 0 := by omega
  exact ⟨x / k.toNat, by simp [div, this], isFloorDiv_div x _ (by omega)⟩
theorem div_rejects (x : Nat) (k : Int) (hk : k ≤ 0) : div x k = none := by simp [div, hk]
theorem count_spec (x y c : Nat) :
    count x y = some c ↔ 0 < y ∧ y ≤ x ∧ IsFloorDiv c x y ∧ c < 2 ^ 64 := by
  unfold count
  constructor
  · intro h
    split at h
    · cases h
    · next hg =>
      split at h
      · cases h
      · next hlt =>
        cases h
        have hy : 0 < y := by omega
        exact ⟨hy, by omega, isFloorDiv_div x y hy, by omega⟩
  · rintro ⟨hy, hle, hfl, hc⟩
    have hq : c = x / y := isFloorDiv_unique hfl (isFloorDiv_div x y hy)
    have h1 : ¬ (x = 0 ∨ y = 0 ∨ x < y) := by omega
    have h2 : ¬ (x / y ≥ 2 ^ 64) := by omega
    simp [h1, h2, hq]
theorem count_rejects (x y : Nat) : (y = 0 ∨ x < y ∨ 2 ^ 64 ≤ x / y) → count x y = none := by
  intro h; unfold count
  by_cases h1 : x = 0 ∨ y = 0 ∨ x < y
  · simp [h1]
  · have : x / y ≥ 2 ^ 64 := by omega
    simp [h1, this]

/-- `(x/y).product z` is the floor of `z·x / y`. -/
theorem ratio_product_floor (x y z : Nat) (hy : 0 < y) :
    ∃ r, ration x y = some r ∧ IsFloorDiv (r.product z) (z * x) y := by
  have : y ≠ 0 := by omega
  exact ⟨⟨x, y⟩, by simp [ration, this], isFloorDiv_div _ _ hy⟩

/-- comparison of ratios is comparison of cross products (the order of ℚ for positive denominators) -/
theorem ratio_cmp_spec (r s : Ratio) :
    (r.cmp s = -1 ↔ r.x * s.y < s.x * r.y) ∧ (r.cmp s = 0 ↔ r.x * s.y = s.x * r.y) ∧
    (r.cmp s = 1 ↔ r.x * s.y > s.x * r.y) := by
  unfold Ratio.cmp Amount.cmp
  rw [Nat.mul_comm r.y s.x]
  refine ⟨?_, ?_, ?_⟩ <;> split <;> (try split) <;> constructor <;> intro h <;> first | omega | (simp at h) | skip
  all_goals omega

theorem cmp_spec (x y : Nat) : (cmp x y = -1 ↔ x < y) ∧ (cmp x y = 0 ↔ x = y) ∧ (cmp x y = 1 ↔ x > y) := by
  unfold cmp
  refine ⟨?_, ?_, ?_⟩ <;> split <;> (try split) <;> constructor <;> intro h <;> first | omega | (simp at h) | skip
  all_goals omega

/-! ### non-vacuity: the hypotheses above are met by concrete inputs -/
example : parseDecimal "1.5".toList = some 150000000 := by decide
example : parseDecimal "0.123456789".toList = some 12345678 := by decide
example : parseDecimal "-0".toList = some 0 := by decide
example : parseDecimal "-1".toList = none := by decide
example : parseDecimal "1e-9".toList = some 0 := by decide
example : printAmount 150000000 = "1.50000000".toList := by decide
example : count 100 3 = some 33 := by decide

end Mixin.C33
