import Mixin.Props.C21
import Mixin.Facts.ExpectedC22
/-!
# C22 — restart after a crash at any write boundary yields a consistent ledger

Same model (`Mixin.Model.Recovery`) and the same notion of reachable durable state
(`Mixin.C21.Reach`: genesis, then any sequence of committed storage calls, marker writes and
restarts; every prefix of a write sequence is such a sequence) as C21.

The call-order discipline ("body written and inputs locked before the snapshot that finalizes
it; StartNewRound n before snapshots of round n") needs no hypothesis: the `config.Debug`
asserts of `WriteTransaction` / `WriteSnapshot` enforce it (the model returns `panic`, no state
change). The only hypothesis on a finalization write is `C21.SnapProto` (next topology order).

Crashes INSIDE a Badger commit and torn files are Badger's contract: not modelled.
-/
namespace Mixin.C22
open Mixin.Recovery Mixin.C21

/-- finalization records: every FINALIZATION[t] has its TRANSACTION[t] body and the UTXOs it
    materialised, and names a stored snapshot that contains t and holds a topology position;
    every transaction of a stored snapshot has a FINALIZATION record -/
structure Ledger (kv : KV) : Prop where
  body : ∀ p ∈ kv.fins, ∃ tx, findTx kv p.1 = some tx ∧ ∀ i, i < tx.outs → (kv.utxos.lookup (p.1, i)).isSome = true
  named : ∀ p ∈ kv.fins, ∃ sn, findSnap kv p.2 = some sn ∧ p.1 ∈ sn.txs ∧ ∃ o, (o, p.2) ∈ kv.topo
  finalized : ∀ sn ∈ kv.snaps, ∀ t ∈ sn.txs, (kv.fins.lookup t).isSome = true

/-- TOPOLOGY / SNAPTOPO are mutually inverse and injective, every position names a stored
    snapshot whose transactions are stored, every stored snapshot has a position (these are
    fields of `C21.MInv`), plus the finalization records -/
structure Consistent (kv : KV) : Prop where
  index : MInv kv
  ledger : Ledger kv

/-- topology positions are unique: one snapshot per order, one order per snapshot -/
theorem topo_unique {kv : KV} (h : Consistent kv) {o1 o2 s1 s2 : Nat}
    (h1 : (o1, s1) ∈ kv.topo) (h2 : (o2, s2) ∈ kv.topo) : (o1 = o2 ↔ s1 = s2) := by
  constructor
  · intro ho
    subst ho
    obtain ⟨i, hi, hi'⟩ := List.mem_iff_getElem.mp h1
    obtain ⟨j, hj, hj'⟩ := List.mem_iff_getElem.mp h2
    rcases Nat.lt_trichotomy i j with hlt | heq | hgt
    · have := List.pairwise_iff_getElem.mp h.index.sorted i j hi hj hlt
      rw [hi', hj'] at this; simp at this
    · subst heq; rw [hi'] at hj'; injection hj' with _ h3
    · have := List.pairwise_iff_getElem.mp h.index.sorted j i hj hi hgt
      rw [hi', hj'] at this; simp at this
  · intro hs
    subst hs
    have a := h.index.idx _ h1
    have b := h.index.idx _ h2
    simp only at a b
    rw [a] at b; injection b

/-! ## preservation -/

theorem lookup_cons_isSome {α β : Type} [BEq α] {l : List (α × β)} {k a : α} {b : β}
    (h : (l.lookup k).isSome = true) : (((a, b) :: l).lookup k).isSome = true := by
  rw [List.lookup_cons]
  cases (k == a) <;> simp [h]

theorem lockUTXOs_mono : ∀ (ins : List (Nat × Nat)) (u u' : List ((Nat × Nat) × Nat)) (t : Nat),
    lockUTXOs u t ins = some u' → ∀ k, (u.lookup k).isSome = true → (u'.lookup k).isSome = true
  | [], u, u', t, h, k, hk => by simp [lockUTXOs] at h; subst h; exact hk
  | a :: rest, u, u', t, h, k, hk => by
    unfold lockUTXOs at h
    split at h
    · cases h
    · split at h
      · cases h
      · exact lockUTXOs_mono rest _ _ t h k (lookup_cons_isSome hk)

/-- transport of the finalization records along a step that keeps FINALIZATION / SNAPSHOT /
    TOPOLOGY and only adds bodies and UTXO bindings -/
theorem Ledger_mono {kv kv' : KV} (hf : kv'.fins = kv.fins) (hs : kv'.snaps = kv.snaps) (ht : kv'.topo = kv.topo)
    (htx : ∀ t tx, findTx kv t = some tx → findTx kv' t = some tx)
    (hu : ∀ k, (kv.utxos.lookup k).isSome = true → (kv'.utxos.lookup k).isSome = true)
    (h : Ledger kv) : Ledger kv' := by
  refine ⟨?_, ?_, ?_⟩
  · intro p hp; rw [hf] at hp
    obtain ⟨tx, h1, h2⟩ := h.body p hp
    exact ⟨tx, htx _ _ h1, fun i hi => hu _ (h2 i hi)⟩
  · intro p hp; rw [hf] at hp
    obtain ⟨sn, h1, h2, h3⟩ := h.named p hp
    exact ⟨sn, by simp only [findSnap, hs]; exact h1, h2, by rw [ht]; exact h3⟩
  · intro sn hsn t htm; rw [hs] at hsn; rw [hf]; exact h.finalized sn hsn t htm

theorem Ledger_lock {kv kv' : KV} {t : Tx} (hstep : lockInputs kv t = .ok kv') (h : Ledger kv) : Ledger kv' := by
  obtain ⟨⟨h1, h2, h3, _⟩, _⟩ := lockInputs_frame hstep
  have htx : ∀ x tx, findTx kv x = some tx → findTx kv' x = some tx := by
    intro x tx hx; simp only [findTx, h1]; exact hx
  unfold lockInputs at hstep
  split at hstep
  · split at hstep
    · injection hstep with hstep; subst hstep; exact Ledger_mono (kv := kv) rfl rfl rfl htx (fun _ hk => hk) h
    · split at hstep
      · injection hstep with hstep; subst hstep; exact h
      · cases hstep
  · split at hstep
    · split at hstep
      · injection hstep with hstep; subst hstep; exact Ledger_mono (kv := kv) rfl rfl rfl htx (fun _ hk => hk) h
      · split at hstep
        · injection hstep with hstep; subst hstep; exact h
        · cases hstep
    · split at hstep
      · cases hstep
      · rename_i u hu
        injection hstep with hstep; subst hstep
        exact Ledger_mono (kv := kv) rfl rfl rfl htx (fun k hk => lockUTXOs_mono _ _ _ _ hu k hk) h

theorem Ledger_writeTx {kv kv' : KV} {t : Tx} (hstep : writeTx kv t = .ok kv') (h : Ledger kv) : Ledger kv' := by
  unfold writeTx at hstep
  split at hstep
  · cases hstep
  · split at hstep
    · injection hstep with hstep; subst hstep; exact h
    · injection hstep with hstep; subst hstep
      exact Ledger_mono (kv := kv) rfl rfl rfl (fun _ _ hx => findTx_append hx) (fun _ hk => hk) h

theorem Ledger_round {kv kv' : KV} {c n : Nat} {self ext : RKey} (hstep : startNewRound kv c n self ext = .ok kv')
    (h : Ledger kv) : Ledger kv' := by
  unfold startNewRound at hstep
  split at hstep
  · cases hstep
  · cases hstep
  · repeat (split at hstep; (try cases hstep))
    injection hstep with hstep; subst hstep
    exact Ledger_mono (kv := kv) rfl rfl rfl (fun _ _ hx => hx) (fun _ hk => hk) h

theorem Ledger_advance {kv : KV} (sn : Snap) (tx : Tx) (h : Ledger kv) : Ledger (advance kv sn tx) :=
  Ledger_mono (kv := kv) rfl rfl rfl (fun _ _ hx => hx) (fun _ hk => hk) h


/-! ### finalization write -/

theorem lookup_append_isSome {α β : Type} [BEq α] {l1 l2 : List (α × β)} {k : α}
    (h : (l2.lookup k).isSome = true) : ((l1 ++ l2).lookup k).isSome = true := by
  induction l1 with
  | nil => simpa using h
  | cons a t ih => obtain ⟨a1, a2⟩ := a; exact lookup_cons_isSome ih

theorem newUtxos_lookup (t outs i : Nat) (u : List ((Nat × Nat) × Nat)) (hi : i < outs) :
    ((newUtxos t outs ++ u).lookup (t, i)).isSome = true := by
  have : (newUtxos t outs).lookup (t, i) = some 0 := by
    apply lookup_unique
    · simp only [newUtxos, List.mem_map, List.mem_range]; exact ⟨i, hi, rfl⟩
    · intro v hv
      simp only [newUtxos, List.mem_map, List.mem_range] at hv
      obtain ⟨j, _, hj⟩ := hv
      injection hj with _ h2; exact h2.symm
  rw [List.lookup_append, this]; rfl

structure FinFacts (kv k1 : KV) (s : Snap) (l : List Nat) : Prop where
  fins : ∀ p ∈ k1.fins, p ∈ kv.fins ∨ (p.2 = s.id ∧ p.1 ∈ l ∧ ∃ tx, findTx kv p.1 = some tx ∧
            ∀ i, i < tx.outs → (k1.utxos.lookup (p.1, i)).isSome = true)
  utxos : ∀ k, (kv.utxos.lookup k).isSome = true → (k1.utxos.lookup k).isSome = true
  keep : ∀ t, (kv.fins.lookup t).isSome = true → (k1.fins.lookup t).isSome = true
  all : ∀ t ∈ l, (k1.fins.lookup t).isSome = true

theorem finalizeOne_facts (kv : KV) (s : Snap) {t : Nat} {tx : Tx} (htx : findTx kv t = some tx) :
    FinFacts kv (finalizeOne kv s tx) s [t] := by
  have hid : tx.id = t := by have := List.find?_some htx; simpa using this
  unfold finalizeOne
  by_cases hf : (kv.fins.lookup tx.id).isSome = true
  · simp only [hf, ↓reduceIte]
    exact ⟨fun p hp => Or.inl hp, fun _ hk => hk, fun _ hk => hk, fun x hx => by simp at hx; subst hx; rw [← hid]; exact hf⟩
  · simp only [hf, Bool.false_eq_true, ↓reduceIte]
    refine ⟨?_, ?_, ?_, ?_⟩
    · intro p hp
      simp only [List.mem_cons] at hp
      rcases hp with hp | hp
      · right; subst hp
        exact ⟨rfl, by simp [hid], tx, by simp only [hid]; exact htx, fun i hi => newUtxos_lookup _ _ _ _ hi⟩
      · exact Or.inl hp
    · intro k hk; exact lookup_append_isSome hk
    · intro x hx; exact lookup_cons_isSome hx
    · intro x hx; simp at hx; subst hx
      simp [hid]

theorem finalizeAll_facts : ∀ (l : List Nat) (kv kv1 : KV) (s : Snap), finalizeAll kv s l = some kv1 →
    FinFacts kv kv1 s l
  | [], kv, kv1, s, h => by
    simp [finalizeAll] at h; subst h
    exact ⟨fun p hp => Or.inl hp, fun _ hk => hk, fun _ hk => hk, fun _ hx => by simp at hx⟩
  | t :: rest, kv, kv1, s, h => by
    unfold finalizeAll at h
    match htx : findTx kv t with
    | none => simp [htx] at h
    | some tx =>
      simp only [htx] at h
      have f1 := finalizeOne_facts kv s htx
      have f2 := finalizeAll_facts rest _ _ s h
      have hsame : ∀ x, findTx (finalizeOne kv s tx) x = findTx kv x := by
        intro x; simp only [findTx, (finalizeOne_frame kv s tx).1]
      refine ⟨?_, fun k hk => f2.utxos k (f1.utxos k hk), fun x hx => f2.keep x (f1.keep x hx), ?_⟩
      · intro p hp
        rcases f2.fins p hp with h1 | ⟨h1, h2, tx', h3, h4⟩
        · rcases f1.fins p h1 with h5 | ⟨h5, h6, tx', h7, h8⟩
          · exact Or.inl h5
          · right
            simp at h6
            exact ⟨h5, by simp [h6], tx', h7, fun i hi => f2.utxos _ (h8 i hi)⟩
        · right
          exact ⟨h1, by simp [h2], tx', by rw [← hsame]; exact h3, h4⟩
      · intro x hx
        rcases List.mem_cons.mp hx with hx | hx
        · subst hx; exact f2.keep _ (f1.all _ (by simp))
        · exact f2.all x hx

theorem Ledger_snap {kv kv' : KV} {s : Snap} {o : Nat} (hstep : writeSnapshot kv s o = .ok kv')
    (hnext : ∀ e ∈ kv.topo, e.1 < o) (h : Ledger kv) : Ledger kv' := by
  obtain ⟨hnone, hall, htopo, hsnaps, _, htxs, _⟩ := writeSnapshot_facts hstep hnext
  -- recover the intermediate state of the finalization loop
  have hfa : ∃ kv1, finalizeAll kv s s.txs = some kv1 ∧ kv'.fins = kv1.fins ∧ kv'.utxos = kv1.utxos := by
    unfold writeSnapshot at hstep
    split at hstep
    · cases hstep
    · repeat (split at hstep; (try cases hstep))
      rename_i kv1 hk
      injection hstep with hstep; subst hstep
      exact ⟨kv1, hk, rfl, rfl⟩
  obtain ⟨kv1, hk, hf, hu⟩ := hfa
  have ff := finalizeAll_facts _ _ _ _ hk
  have hft : ∀ t, findTx kv' t = findTx kv t := by intro t; simp only [findTx, htxs]
  have hfs_old : ∀ x sn, findSnap kv x = some sn → findSnap kv' x = some sn := by
    intro x sn hx
    simp only [findSnap, hsnaps] at *
    rw [List.find?_append, hx]; rfl
  have hfs_new : findSnap kv' s.id = some s := by
    simp only [findSnap, hsnaps] at *
    rw [List.find?_append, hnone]; simp
  refine ⟨?_, ?_, ?_⟩
  · intro p hp; rw [hf] at hp
    rcases ff.fins p hp with h1 | ⟨_, _, tx, h3, h4⟩
    · obtain ⟨tx, a, b⟩ := h.body p h1
      exact ⟨tx, by rw [hft]; exact a, fun i hi => by rw [hu]; exact ff.utxos _ (b i hi)⟩
    · exact ⟨tx, by rw [hft]; exact h3, fun i hi => by rw [hu]; exact h4 i hi⟩
  · intro p hp; rw [hf] at hp
    rcases ff.fins p hp with h1 | ⟨h1, h2, _⟩
    · obtain ⟨sn, a, b, o', c⟩ := h.named p h1
      exact ⟨sn, hfs_old _ _ a, b, o', by rw [htopo]; exact List.mem_append.mpr (Or.inl c)⟩
    · exact ⟨s, by rw [h1]; exact hfs_new, h2, o, by rw [htopo, h1]; simp⟩
  · intro sn hsn t ht; rw [hsnaps] at hsn; rw [hf]
    rcases List.mem_append.mp hsn with hsn | hsn
    · exact ff.keep t (h.finalized sn hsn t ht)
    · simp at hsn; subst hsn; exact ff.all t ht

/-- the marker write changes CONSENSUSSNAPSHOT only -/
theorem markSnap_cases {kv kv' : KV} {sid : Nat} (h : markSnap kv sid = .ok kv') :
    kv' = kv ∨ ∃ sn tx, kv' = advance kv sn tx := by
  unfold markSnap at h
  split at h
  · cases h
  · split at h
    · split at h
      · cases h
      · rename_i sn _ _ _ tx _
        unfold reload at h
        split at h
        · cases h
        · split at h
          · unfold writeConsensus at h
            split at h
            · cases h
            split at h
            · cases h
            split at h
            · cases h
            split at h
            · cases h
            split at h
            · injection h with h; exact Or.inl h.symm
            split at h
            · cases h
            split at h
            · cases h
            injection h with h; exact Or.inr ⟨_, tx, h.symm⟩
          · injection h with h; exact Or.inl h.symm
    · injection h with h; exact Or.inl h.symm

/-! ## the theorems -/

/-- **op_preserves_consistent**: every storage call that commits (atomically) takes a consistent
    durable state to a consistent one; so do the kernel's marker write and a restart. -/
theorem op_preserves_consistent {kv kv' : KV} (hs : Step kv kv') (h : Consistent kv) : Consistent kv' := by
  refine ⟨step_inv hs h.index, ?_⟩
  cases hs with
  | lock h1 => exact Ledger_lock h1 h.ledger
  | wtx h1 => exact Ledger_writeTx h1 h.ledger
  | round h1 => exact Ledger_round h1 h.ledger
  | snap h1 hp => exact Ledger_snap h1 hp.next h.ledger
  | mark h1 =>
    rcases markSnap_cases h1 with b | ⟨sn, tx, b⟩
    · rw [b]; exact h.ledger
    · rw [b]; exact Ledger_advance sn tx h.ledger
  | restart h1 =>
    obtain ⟨kv2, a, _, b, _⟩ := setupRepair_spec h.index
    rw [a] at h1; injection h1 with h1; subst h1
    rcases b with b | ⟨_, _, sn, tx, _, b, _⟩
    · rw [b]; exact h.ledger
    · rw [b]; exact Ledger_advance sn tx h.ledger


theorem genesis_ledger (n : Nat) : Ledger (genesis n) := by
  have hf : ∀ p ∈ (genesis n).fins, ∃ i, i ≤ n ∧ p = (i + 1, i + 1) := by
    intro p hp
    simp only [genesis, List.mem_map, List.mem_range] at hp
    obtain ⟨i, hi, rfl⟩ := hp; exact ⟨i, by omega, rfl⟩
  refine ⟨?_, ?_, ?_⟩
  · intro p hp
    obtain ⟨i, hi, rfl⟩ := hf p hp
    refine ⟨_, genesis_findTx n i hi, ?_⟩
    intro j hj
    have hj0 : j = 0 := by simp at hj; exact hj
    subst hj0
    have : (genesis n).utxos.lookup (i + 1, 0) = some 0 := by
      apply lookup_unique
      · simp only [genesis, List.mem_map, List.mem_range]; exact ⟨i, by omega, rfl⟩
      · intro v hv
        simp only [genesis, List.mem_map, List.mem_range] at hv
        obtain ⟨k, _, hk⟩ := hv
        injection hk with _ h2; exact h2.symm
    simp [this]
  · intro p hp
    obtain ⟨i, hi, rfl⟩ := hf p hp
    obtain ⟨sn, h1, h2⟩ := genesis_findSnap n i hi
    exact ⟨sn, h1, by simp [h2], i, by simp only [genesis, List.mem_map, List.mem_range]; exact ⟨i, by omega, rfl⟩⟩
  · intro sn hsn t ht
    have : ∃ i, i ≤ n ∧ t = i + 1 := by
      simp only [genesis, List.mem_append, List.mem_map, List.mem_range, List.mem_singleton] at hsn
      rcases hsn with ⟨c, hc, rfl⟩ | rfl
      · simp at ht; exact ⟨c, by omega, ht⟩
      · simp at ht; exact ⟨n, by omega, ht⟩
    obtain ⟨i, hi, rfl⟩ := this
    have : (genesis n).fins.lookup (i + 1) = some (i + 1) := by
      apply lookup_unique
      · simp only [genesis, List.mem_map, List.mem_range]; exact ⟨i, by omega, rfl⟩
      · intro v hv
        simp only [genesis, List.mem_map, List.mem_range] at hv
        obtain ⟨k, _, hk⟩ := hv
        injection hk with h1 h2; omega
    simp [this]

/-- **every_prefix_consistent**: the durable state at every cut point of every write sequence
    (every reachable state) is consistent. -/
theorem every_prefix_consistent {kv : KV} (hr : Reach kv) : Consistent kv := by
  induction hr with
  | genesis n => exact ⟨genesis_inv n, genesis_ledger n⟩
  | step _ hs ih => exact op_preserves_consistent hs ih

/-- Every finalized transaction keeps its stored body, its outputs and a finalization record
    naming a stored snapshot that contains it and owns exactly one topology position. -/
theorem finalized_keeps {kv : KV} (hr : Reach kv) {t s : Nat} (hf : (t, s) ∈ kv.fins) :
    (∃ tx, findTx kv t = some tx ∧ ∀ i, i < tx.outs → (kv.utxos.lookup (t, i)).isSome = true) ∧
    (∃ sn o, findSnap kv s = some sn ∧ t ∈ sn.txs ∧ (o, s) ∈ kv.topo ∧ ∀ o', (o', s) ∈ kv.topo → o' = o) := by
  have h := every_prefix_consistent hr
  refine ⟨h.ledger.body _ hf, ?_⟩
  obtain ⟨sn, h1, h2, o, h3⟩ := h.ledger.named _ hf
  exact ⟨sn, o, h1, h2, h3, fun o' ho' => (topo_unique h ho' h3).mpr rfl⟩

/-
  **restart_ok — full statement (not proved in full):**

    theorem restart_ok {kv : KV} (h : Consistent kv) :
        ∃ r, restart kv = some r            -- the modelled SetupNode steps all succeed, which
                                            -- includes `validateGraph kv 10 = some (r.total, 0)`
                                            -- and `chainsLoad`

  What is proved below (`restart_ok_partial`): on every consistent state `LastSnapshot` succeeds,
  the marker repair walk succeeds, and the repaired state is consistent again.
  What is missing: the ROUND-record part of `Consistent` ("every finalized round below a chain's
  head has its ROUND record, the head record exists") as an inductive invariant of
  `StartNewRound`/`WriteSnapshot`, and from it `validateGraph kv 10 = some (_, 0)` and
  `chainsLoad kv = true`. Those two are computed by the model at every cut of the differential
  campaign and compared with the real `ValidateGraphEntries` / `SetupNode` (subsystem
  `ledgercrash`), and checked on the real store by the Go-side scan `rcScan`.
-/
theorem restart_ok_partial {kv : KV} (h : Consistent kv) :
    lastSnapshotOk kv = true ∧ ∃ kv1, setupRepair kv = .ok kv1 ∧ Consistent kv1 := by
  obtain ⟨kv1, h1, _, h2, _⟩ := setupRepair_spec h.index
  refine ⟨?_, kv1, h1, op_preserves_consistent (Step.restart h1) h⟩
  obtain ⟨m, mo, mt, _, hmem, _⟩ := h.index.marker
  unfold lastSnapshotOk
  cases hg : kv.topo.getLast? with
  | none =>
    have : kv.topo = [] := List.getLast?_eq_none_iff.mp hg
    rw [this] at hmem; simp at hmem
  | some e =>
    obtain ⟨sn, hsn, _⟩ := h.index.wf e (List.mem_of_getLast? hg)
    simp [hsn]

/-- on the witness state of C21 (reachable, a mint and a deposit finalized) the whole modelled
    restart succeeds and the validator reports 8 entries, none invalid -/
example : (restart w6).map (fun r => (r.topoCounter, r.total)) = some (9, 8) := by decide

example : Consistent w6 := every_prefix_consistent witness_reach

/-- a store that lost the body of a finalized transaction is rejected by the model's restart
    (the validator returns an error): the predicate is not vacuous -/
example : (restart { w6 with txs := w6.txs.filter (fun t => t.id != 10) }).isNone = true := by decide

end Mixin.C22
