import Mixin.Props.C21
import Mixin.Facts.ExpectedC22
/-!
# C22 — restart after a crash at any write boundary yields a consistent ledger

Same model (`Mixin.Model.Recovery`) and the same notion of reachable durable state
(`Mixin.C21.Reach`: genesis, then any sequence of committed storage calls, marker writes and
restarts; every prefix of a write sequence is such a sequence) as C21.

The call-order discipline ("body written and inputs locked before the snapshot that finalizes
it; StartNewRound n before snapshots of round n") needs no hypothesis: the `config.Debug`
asserts of `WriteTransaction` / `WriteSnapshot` enforce it (the model returns `panic`, no state
change). The only hypothesis on a finalization write is `C21.SnapProto` (next topology order).

Crashes INSIDE a Badger commit and torn files are Badger's contract: not modelled.
-/
namespace Mixin.C22
open Mixin.Recovery Mixin.C21

/-- finalization records: every FINALIZATION[t] has its TRANSACTION[t] body and the UTXOs it
    materialised, and names a stored snapshot that contains t and holds a topology position;
    every transaction of a stored snapshot has a FINALIZATION record -/
structure Ledger (kv : KV) : Prop where
  body : ∀ p ∈ kv.fins, ∃ tx, findTx kv p.1 = some tx ∧ ∀ i, i < tx.outs → (kv.utxos.lookup (p.1, i)).isSome = true
  named : ∀ p ∈ kv.fins, ∃ sn, findSnap kv p.2 = some sn ∧ p.1 ∈ sn.txs ∧ ∃ o, (o, p.2) ∈ kv.topo
  finalized : ∀ sn ∈ kv.snaps, ∀ t ∈ sn.txs, (kv.fins.lookup t).isSome = true

/-- TOPOLOGY / SNAPTOPO are mutually inverse and injective, every position names a stored
    snapshot whose transactions are stored, every stored snapshot has a position (these are
    fields of `C21.MInv`), plus the finalization records -/
structure Consistent (kv : KV) : Prop where
  index : MInv kv
  ledger : Ledger kv

/-- topology positions are unique: one snapshot per order, one order per snapshot -/
theorem topo_unique {kv : KV} (h : Consistent kv) {o1 o2 s1 s2 : Nat}
    (h1 : (o1, s1) ∈ kv.topo) (h2 : (o2, s2) ∈ kv.topo) : (o1 = o2 ↔ s1 = s2) := by
  constructor
  · intro ho
    subst ho
    obtain ⟨i, hi, hi'⟩ := List.mem_iff_getElem.mp h1
    obtain ⟨j, hj, hj'⟩ := List.mem_iff_getElem.mp h2
    rcases Nat.lt_trichotomy i j with hlt | heq | hgt
    · have := List.pairwise_iff_getElem.mp h.index.sorted i j hi hj hlt
      rw [hi', hj'] at this; simp at this
    · subst heq; rw [hi'] at hj'; injection hj' with _ h3
    · have := List.pairwise_iff_getElem.mp h.index.sorted j i hj hi hgt
      rw [hi', hj'] at this; simp at this
  · intro hs
    subst hs
    have a := h.index.idx _ h1
    have b := h.index.idx _ h2
    simp only at a b
    rw [a] at b; injection b

/-! ## preservation -/

theorem lookup_cons_isSome {α β : Type} [BEq α] {l : List (α × β)} {k a : α} {b : β}
    (h : (l.lookup k).isSome = true) : (((a, b) :: l).lookup k).isSome = true := by
  rw [List.lookup_cons]
  cases (k == a) <;> simp [h]

theorem lockUTXOs_mono : ∀ (ins : List (Nat × Nat)) (u u' : List ((Nat × Nat) × Nat)) (t : Nat),
    lockUTXOs u t ins = some u' → ∀ k, (u.lookup k).isSome = true → (u'.lookup k).isSome = true
  | [], u, u', t, h, k, hk => by simp [lockUTXOs] at h; subst h; exact hk
  | a :: rest, u, u', t, h, k, hk => by
    unfold lockUTXOs at h
    split at h
    · cases h
    · split at h
      · cases h
      · exact lockUTXOs_mono rest _ _ t h k (lookup_cons_isSome hk)

/-- transport of the finalization records along a step that keeps FINALIZATION / SNAPSHOT /
    TOPOLOGY and only adds bodies and UTXO bindings -/
theorem Ledger_mono {kv kv' : KV} (hf : kv'.fins = kv.fins) (hs : kv'.snaps = kv.snaps) (ht : kv'.topo = kv.topo)
    (htx : ∀ t tx, findTx kv t = some tx → findTx kv' t = some tx)
    (hu : ∀ k, (kv.utxos.lookup k).isSome = true → (kv'.utxos.lookup k).isSome = true)
    (h : Ledger kv) : Ledger kv' := by
  refine ⟨?_, ?_, ?_⟩
  · intro p hp; rw [hf] at hp
    obtain ⟨tx, h1, h2⟩ := h.body p hp
    exact ⟨tx, htx _ _ h1, fun i hi => hu _ (h2 i hi)⟩
  · intro p hp; rw [hf] at hp
    obtain ⟨sn, h1, h2, h3⟩ := h.named p hp
    exact ⟨sn, by simp only [findSnap, hs]; exact h1, h2, by rw [ht]; exact h3⟩
  · intro sn hsn t htm; rw [hs] at hsn; rw [hf]; exact h.finalized sn hsn t htm

theorem Ledger_lock {kv kv' : KV} {t : Tx} (hstep : lockInputs kv t = .ok kv') (h : Ledger kv) : Ledger kv' := by
  obtain ⟨⟨h1, h2, h3, _⟩, _⟩ := lockInputs_frame hstep
  have htx : ∀ x tx, findTx kv x = some tx → findTx kv' x = some tx := by
    intro x tx hx; simp only [findTx, h1]; exact hx
  unfold lockInputs at hstep
  split at hstep
  · split at hstep
    · injection hstep with hstep; subst hstep; exact Ledger_mono (kv := kv) rfl rfl rfl htx (fun _ hk => hk) h
    · split at hstep
      · injection hstep with hstep; subst hstep; exact h
      · cases hstep
  · split at hstep
    · split at hstep
      · injection hstep with hstep; subst hstep; exact Ledger_mono (kv := kv) rfl rfl rfl htx (fun _ hk => hk) h
      · split at hstep
        · injection hstep with hstep; subst hstep; exact h
        · cases hstep
    · split at hstep
      · cases hstep
      · rename_i u hu
        injection hstep with hstep; subst hstep
        exact Ledger_mono (kv := kv) rfl rfl rfl htx (fun k hk => lockUTXOs_mono _ _ _ _ hu k hk) h

theorem Ledger_writeTx {kv kv' : KV} {t : Tx} (hstep : writeTx kv t = .ok kv') (h : Ledger kv) : Ledger kv' := by
  unfold writeTx at hstep
  split at hstep
  · cases hstep
  · split at hstep
    · injection hstep with hstep; subst hstep; exact h
    · injection hstep with hstep; subst hstep
      exact Ledger_mono (kv := kv) rfl rfl rfl (fun _ _ hx => findTx_append hx) (fun _ hk => hk) h

theorem Ledger_round {kv kv' : KV} {c n : Nat} {self ext : RKey} (hstep : startNewRound kv c n self ext = .ok kv')
    (h : Ledger kv) : Ledger kv' := by
  unfold startNewRound at hstep
  split at hstep
  · cases hstep
  · cases hstep
  · repeat (split at hstep; (try cases hstep))
    injection hstep with hstep; subst hstep
    exact Ledger_mono (kv := kv) rfl rfl rfl (fun _ _ hx => hx) (fun _ hk => hk) h

theorem Ledger_advance {kv : KV} (sn : Snap) (tx : Tx) (h : Ledger kv) : Ledger (advance kv sn tx) :=
  Ledger_mono (kv := kv) rfl rfl rfl (fun _ _ hx => hx) (fun _ hk => hk) h


/-! ### finalization write -/

theorem lookup_append_isSome {α β : Type} [BEq α] {l1 l2 : List (α × β)} {k : α}
    (h : (l2.lookup k).isSome = true) : ((l1 ++ l2).lookup k).isSome = true := by
  induction l1 with
  | nil => simpa using h
  | cons a t ih => obtain ⟨a1, a2⟩ := a; exact lookup_cons_isSome ih

theorem newUtxos_lookup (t outs i : Nat) (u : List ((Nat × Nat) × Nat)) (hi : i < outs) :
    ((newUtxos t outs ++ u).lookup (t, i)).isSome = true := by
  have : (newUtxos t outs).lookup (t, i) = some 0 := by
    apply lookup_unique
    · simp only [newUtxos, List.mem_map, List.mem_range]; exact ⟨i, hi, rfl⟩
    · intro v hv
      simp only [newUtxos, List.mem_map, List.mem_range] at hv
      obtain ⟨j, _, hj⟩ := hv
      injection hj with _ h2; exact h2.symm
  rw [List.lookup_append, this]; rfl

structure FinFacts (kv k1 : KV) (s : Snap) (l : List Nat) : Prop where
  fins : ∀ p ∈ k1.fins, p ∈ kv.fins ∨ (p.2 = s.id ∧ p.1 ∈ l ∧ ∃ tx, findTx kv p.1 = some tx ∧
            ∀ i, i < tx.outs → (k1.utxos.lookup (p.1, i)).isSome = true)
  utxos : ∀ k, (kv.utxos.lookup k).isSome = true → (k1.utxos.lookup k).isSome = true
  keep : ∀ t, (kv.fins.lookup t).isSome = true → (k1.fins.lookup t).isSome = true
  all : ∀ t ∈ l, (k1.fins.lookup t).isSome = true

theorem finalizeOne_facts (kv : KV) (s : Snap) {t : Nat} {tx : Tx} (htx : findTx kv t = some tx) :
    FinFacts kv (finalizeOne kv s tx) s [t] := by
  have hid : tx.id = t := by have := List.find?_some htx; simpa using this
  unfold finalizeOne
  by_cases hf : (kv.fins.lookup tx.id).isSome = true
  · simp only [hf, ↓reduceIte]
    exact ⟨fun p hp => Or.inl hp, fun _ hk => hk, fun _ hk => hk, fun x hx => by simp at hx; subst hx; rw [← hid]; exact hf⟩
  · simp only [hf, Bool.false_eq_true, ↓reduceIte]
    refine ⟨?_, ?_, ?_, ?_⟩
    · intro p hp
      simp only [List.mem_cons] at hp
      rcases hp with hp | hp
      · right; subst hp
        exact ⟨rfl, by simp [hid], tx, by simp only [hid]; exact htx, fun i hi => newUtxos_lookup _ _ _ _ hi⟩
      · exact Or.inl hp
    · intro k hk; exact lookup_append_isSome hk
    · intro x hx; exact lookup_cons_isSome hx
    · intro x hx; simp at hx; subst hx
      simp [hid]

theorem finalizeAll_facts : ∀ (l : List Nat) (kv kv1 : KV) (s : Snap), finalizeAll kv s l = some kv1 →
    FinFacts kv kv1 s l
  | [], kv, kv1, s, h => by
    simp [finalizeAll] at h; subst h
    exact ⟨fun p hp => Or.inl hp, fun _ hk => hk, fun _ hk => hk, fun _ hx => by simp at hx⟩
  | t :: rest, kv, kv1, s, h => by
    unfold finalizeAll at h
    match htx : findTx kv t with
    | none => simp [htx] at h
    | some tx =>
      simp only [htx] at h
      have f1 := finalizeOne_facts kv s htx
      have f2 := finalizeAll_facts rest _ _ s h
      have hsame : ∀ x, findTx (finalizeOne kv s tx) x = findTx kv x := by
        intro x; simp only [findTx, (finalizeOne_frame kv s tx).1]
      refine ⟨?_, fun k hk => f2.utxos k (f1.utxos k hk), fun x hx => f2.keep x (f1.keep x hx), ?_⟩
      · intro p hp
        rcases f2.fins p hp with h1 | ⟨h1, h2, tx', h3, h4⟩
        · rcases f1.fins p h1 with h5 | ⟨h5, h6, tx', h7, h8⟩
          · exact Or.inl h5
          · right
            simp at h6
            exact ⟨h5, by simp [h6], tx', h7, fun i hi => f2.utxos _ (h8 i hi)⟩
        · right
          exact ⟨h1, by simp [h2], tx', by rw [← hsame]; exact h3, h4⟩
      · intro x hx
        rcases List.mem_cons.mp hx with hx | hx
        · subst hx; exact f2.keep _ (f1.all _ (by simp))
        · exact f2.all x hx

theorem Ledger_snap {kv kv' : KV} {s : Snap} {o : Nat} (hstep : writeSnapshot kv s o = .ok kv')
    (hnext : ∀ e ∈ kv.topo, e.1 < o) (h : Ledger kv) : Ledger kv' := by
  obtain ⟨hnone, hall, htopo, hsnaps, _, htxs, _⟩ := writeSnapshot_facts hstep hnext
  -- recover the intermediate state of the finalization loop
  have hfa : ∃ kv1, finalizeAll kv s s.txs = some kv1 ∧ kv'.fins = kv1.fins ∧ kv'.utxos = kv1.utxos := by
    unfold writeSnapshot at hstep
    split at hstep
    · cases hstep
    · repeat (split at hstep; (try cases hstep))
      rename_i kv1 hk
      injection hstep with hstep; subst hstep
      exact ⟨kv1, hk, rfl, rfl⟩
  obtain ⟨kv1, hk, hf, hu⟩ := hfa
  have ff := finalizeAll_facts _ _ _ _ hk
  have hft : ∀ t, findTx kv' t = findTx kv t := by intro t; simp only [findTx, htxs]
  have hfs_old : ∀ x sn, findSnap kv x = some sn → findSnap kv' x = some sn := by
    intro x sn hx
    simp only [findSnap, hsnaps] at *
    rw [List.find?_append, hx]; rfl
  have hfs_new : findSnap kv' s.id = some s := by
    simp only [findSnap, hsnaps] at *
    rw [List.find?_append, hnone]; simp
  refine ⟨?_, ?_, ?_⟩
  · intro p hp; rw [hf] at hp
    rcases ff.fins p hp with h1 | ⟨_, _, tx, h3, h4⟩
    · obtain ⟨tx, a, b⟩ := h.body p h1
      exact ⟨tx, by rw [hft]; exact a, fun i hi => by rw [hu]; exact ff.utxos _ (b i hi)⟩
    · exact ⟨tx, by rw [hft]; exact h3, fun i hi => by rw [hu]; exact h4 i hi⟩
  · intro p hp; rw [hf] at hp
    rcases ff.fins p hp with h1 | ⟨h1, h2, _⟩
    · obtain ⟨sn, a, b, o', c⟩ := h.named p h1
      exact ⟨sn, hfs_old _ _ a, b, o', by rw [htopo]; exact List.mem_append.mpr (Or.inl c)⟩
    · exact ⟨s, by rw [h1]; exact hfs_new, h2, o, by rw [htopo, h1]; simp⟩
  · intro sn hsn t ht; rw [hsnaps] at hsn; rw [hf]
    rcases List.mem_append.mp hsn with hsn | hsn
    · exact ff.keep t (h.finalized sn hsn t ht)
    · simp at hsn; subst hsn; exact ff.all t ht

/-- the marker write changes CONSENSUSSNAPSHOT only -/
theorem markSnap_cases {kv kv' : KV} {sid : Nat} (h : markSnap kv sid = .ok kv') :
    kv' = kv ∨ ∃ sn tx, kv' = advance kv sn tx := by
  unfold markSnap at h
  split at h
  · cases h
  · split at h
    · split at h
      · cases h
      · rename_i sn _ _ _ tx _
        unfold reload at h
        split at h
        · cases h
        · split at h
          · unfold writeConsensus at h
            split at h
            · cases h
            split at h
            · cases h
            split at h
            · cases h
            split at h
            · cases h
            split at h
            · injection h with h; exact Or.inl h.symm
            split at h
            · cases h
            split at h
            · cases h
            injection h with h; exact Or.inr ⟨_, tx, h.symm⟩
          · injection h with h; exact Or.inl h.symm
    · injection h with h; exact Or.inl h.symm

/-! ## the theorems -/

/-- **op_preserves_consistent**: every storage call that commits (atomically) takes a consistent
    durable state to a consistent one; so do the kernel's marker write and a restart. -/
theorem op_preserves_consistent {kv kv' : KV} (hs : Step kv kv') (h : Consistent kv) : Consistent kv' := by
  refine ⟨step_inv hs h.index, ?_⟩
  cases hs with
  | lock h1 => exact Ledger_lock h1 h.ledger
  | wtx h1 => exact Ledger_writeTx h1 h.ledger
  | round h1 => exact Ledger_round h1 h.ledger
  | snap h1 hp => exact Ledger_snap h1 hp.next h.ledger
  | mark h1 =>
    rcases markSnap_cases h1 with b | ⟨sn, tx, b⟩
    · rw [b]; exact h.ledger
    · rw [b]; exact Ledger_advance sn tx h.ledger
  | restart h1 =>
    obtain ⟨kv2, a, _, b, _⟩ := setupRepair_spec h.index
    rw [a] at h1; injection h1 with h1; subst h1
    rcases b with b | ⟨_, _, sn, tx, _, b, _⟩
    · rw [b]; exact h.ledger
    · rw [b]; exact Ledger_advance sn tx h.ledger


theorem genesis_ledger (n : Nat) : Ledger (genesis n) := by
  have hf : ∀ p ∈ (genesis n).fins, ∃ i, i ≤ n ∧ p = (i + 1, i + 1) := by
    intro p hp
    simp only [genesis, List.mem_map, List.mem_range] at hp
    obtain ⟨i, hi, rfl⟩ := hp; exact ⟨i, by omega, rfl⟩
  refine ⟨?_, ?_, ?_⟩
  · intro p hp
    obtain ⟨i, hi, rfl⟩ := hf p hp
    refine ⟨_, genesis_findTx n i hi, ?_⟩
    intro j hj
    have hj0 : j = 0 := by simp at hj; exact hj
    subst hj0
    have : (genesis n).utxos.lookup (i + 1, 0) = some 0 := by
      apply lookup_unique
      · simp only [genesis, List.mem_map, List.mem_range]; exact ⟨i, by omega, rfl⟩
      · intro v hv
        simp only [genesis, List.mem_map, List.mem_range] at hv
        obtain ⟨k, _, hk⟩ := hv
        injection hk with _ h2; exact h2.symm
    simp [this]
  · intro p hp
    obtain ⟨i, hi, rfl⟩ := hf p hp
    obtain ⟨sn, h1, h2⟩ := genesis_findSnap n i hi
    exact ⟨sn, h1, by simp [h2], i, by simp only [genesis, List.mem_map, List.mem_range]; exact ⟨i, by omega, rfl⟩⟩
  · intro sn hsn t ht
    have : ∃ i, i ≤ n ∧ t = i + 1 := by
      simp only [genesis, List.mem_append, List.mem_map, List.mem_range, List.mem_singleton] at hsn
      rcases hsn with ⟨c, hc, rfl⟩ | rfl
      · simp at ht; exact ⟨c, by omega, ht⟩
      · simp at ht; exact ⟨n, by omega, ht⟩
    obtain ⟨i, hi, rfl⟩ := this
    have : (genesis n).fins.lookup (i + 1) = some (i + 1) := by
      apply lookup_unique
      · simp only [genesis, List.mem_map, List.mem_range]; exact ⟨i, by omega, rfl⟩
      · intro v hv
        simp only [genesis, List.mem_map, List.mem_range] at hv
        obtain ⟨k, _, hk⟩ := hv
        injection hk with h1 h2; omega
    simp [this]

/-- **every_prefix_consistent**: the durable state at every cut point of every write sequence
    (every reachable state) is consistent. -/
theorem every_prefix_consistent {kv : KV} (hr : Reach kv) : Consistent kv := by
  induction hr with
  | genesis n => exact ⟨genesis_inv n, genesis_ledger n⟩
  | step _ hs ih => exact op_preserves_consistent hs ih

/-- Every finalized transaction keeps its stored body, its outputs and a finalization record
    naming a stored snapshot that contains it and owns exactly one topology position. -/
theorem finalized_keeps {kv : KV} (hr : Reach kv) {t s : Nat} (hf : (t, s) ∈ kv.fins) :
    (∃ tx, findTx kv t = some tx ∧ ∀ i, i < tx.outs → (kv.utxos.lookup (t, i)).isSome = true) ∧
    (∃ sn o, findSnap kv s = some sn ∧ t ∈ sn.txs ∧ (o, s) ∈ kv.topo ∧ ∀ o', (o', s) ∈ kv.topo → o' = o) := by
  have h := every_prefix_consistent hr
  refine ⟨h.ledger.body _ hf, ?_⟩
  obtain ⟨sn, h1, h2, o, h3⟩ := h.ledger.named _ hf
  exact ⟨sn, o, h1, h2, h3, fun o' ho' => (topo_unique h ho' h3).mpr rfl⟩

/-- first half of `restart_ok` (proved in full at the end of this file, once the ROUND-record
    invariant `RInv` is available): on every consistent state `LastSnapshot` succeeds, the marker
    repair walk succeeds, and the repaired state is consistent again -/
theorem restart_ok_partial {kv : KV} (h : Consistent kv) :
    lastSnapshotOk kv = true ∧ ∃ kv1, setupRepair kv = .ok kv1 ∧ Consistent kv1 := by
  obtain ⟨kv1, h1, _, h2, _⟩ := setupRepair_spec h.index
  refine ⟨?_, kv1, h1, op_preserves_consistent (Step.restart h1) h⟩
  obtain ⟨m, mo, mt, _, hmem, _⟩ := h.index.marker
  unfold lastSnapshotOk
  cases hg : kv.topo.getLast? with
  | none =>
    have : kv.topo = [] := List.getLast?_eq_none_iff.mp hg
    rw [this] at hmem; simp at hmem
  | some e =>
    obtain ⟨sn, hsn, _⟩ := h.index.wf e (List.mem_of_getLast? hg)
    simp [hsn]

/-- on the witness state of C21 (reachable, a mint and a deposit finalized) the whole modelled
    restart succeeds and the validator reports 8 entries, none invalid -/
example : (restart w6).map (fun r => (r.topoCounter, r.total)) = some (9, 8) := by decide

example : Consistent w6 := every_prefix_consistent witness_reach

/-- a store that lost the body of a finalized transaction is rejected by the model's restart
    (the validator returns an error): the predicate is not vacuous -/
example : (restart { w6 with txs := w6.txs.filter (fun t => t.id != 10) }).isNone = true := by decide


/-! ## the ROUND records, the validator and the full restart -/

/-- ROUND records: the head record of a chain names that chain and is past round 0; every round
    below the head holds snapshots and has its ROUND record, stored under the hash of exactly
    those snapshots, with matching chain and number -/
structure RInv (kv : KV) : Prop where
  head : ∀ c h, kv.rounds.lookup (.head c) = some h → h.node = c ∧ 1 ≤ h.number
  below : ∀ c h, kv.rounds.lookup (.head c) = some h → ∀ i, i < h.number →
    roundSnaps kv c i ≠ [] ∧
    ∃ r, kv.rounds.lookup (.final c i ((roundSnaps kv c i).map (·.id))) = some r ∧ r.node = c ∧ r.number = i

theorem mem_insertByTs {s x : Snap} : ∀ {l : List Snap}, x ∈ insertByTs s l ↔ x = s ∨ x ∈ l
  | [] => by simp [insertByTs]
  | a :: t => by
    unfold insertByTs
    split
    · simp
    · simp only [List.mem_cons, mem_insertByTs (l := t)]
      constructor
      · rintro (h | h | h)
        · exact Or.inr (Or.inl h)
        · exact Or.inl h
        · exact Or.inr (Or.inr h)
      · rintro (h | h | h)
        · exact Or.inr (Or.inl h)
        · exact Or.inl h
        · exact Or.inr (Or.inr h)

theorem mem_sortByTs {x : Snap} : ∀ {l : List Snap}, x ∈ sortByTs l ↔ x ∈ l
  | [] => by simp [sortByTs]
  | a :: t => by
    have ih := mem_sortByTs (x := x) (l := t)
    simp only [sortByTs, List.foldr_cons] at ih ⊢
    rw [mem_insertByTs, ih]; simp

theorem mem_roundSnaps {kv : KV} {c i : Nat} {x : Snap} (h : x ∈ roundSnaps kv c i) : x ∈ kv.snaps := by
  unfold roundSnaps at h
  exact (List.mem_filter.mp (mem_sortByTs.mp h)).1

/-- the validator finds nothing wrong with a transaction of a stored snapshot -/
theorem validateTx_ok {kv : KV} (h : Consistent kv) {sn : Snap} (hsn : sn ∈ kv.snaps) {t : Nat} (ht : t ∈ sn.txs) :
    validateTx kv t = some false := by
  have hfin := h.ledger.finalized sn hsn t ht
  obtain ⟨dup, hdup⟩ : ∃ d, kv.fins.lookup t = some d := by
    cases hx : kv.fins.lookup t with
    | none => simp [hx] at hfin
    | some d => exact ⟨d, rfl⟩
  have hmem : (t, dup) ∈ kv.fins := by
    have := List.lookup_eq_some_iff.mp hdup
    obtain ⟨l1, l2, h1, _⟩ := this
    rw [h1]; simp
  obtain ⟨tx, htx, _⟩ := h.ledger.body _ hmem
  obtain ⟨dsn, hds, htin, o, ho⟩ := h.ledger.named _ hmem
  have hidx := h.index.idx _ ho
  have htopo : kv.topo.lookup o = some dup := by
    apply lookup_unique ho
    intro v hv
    exact ((topo_unique h hv ho).mp rfl)
  unfold validateTx
  simp only at htx hds hidx
  simp only [htx, hdup, hidx, htopo, hds]
  simp [htin]

theorem validateTxs_ok {kv : KV} : ∀ (l : List Nat), (∀ t ∈ l, validateTx kv t = some false) →
    validateTxs kv l = some (l.length, 0)
  | [], _ => rfl
  | t :: rest, h => by
    simp only [validateTxs, h t (by simp), validateTxs_ok rest (fun x hx => h x (by simp [hx]))]
    simp

theorem validateRound_ok {kv : KV} (h : Consistent kv) (hr : RInv kv) {c i : Nat} {hd : Round}
    (hh : kv.rounds.lookup (.head c) = some hd) (hi : i < hd.number) :
    ∃ tot, validateRound kv c i = some (tot, 0) := by
  obtain ⟨hne, r, hr1, hr2, hr3⟩ := hr.below c hd hh i hi
  have htxs : ∀ t ∈ (roundSnaps kv c i).flatMap (·.txs), validateTx kv t = some false := by
    intro t ht
    obtain ⟨sn, hsn, htm⟩ := List.mem_flatMap.mp ht
    exact validateTx_ok h (mem_roundSnaps hsn) htm
  unfold validateRound
  simp only [validateTxs_ok _ htxs, hr1]
  have : (roundSnaps kv c i).isEmpty = false := by
    cases hx : roundSnaps kv c i with
    | nil => exact absurd hx hne
    | cons _ _ => rfl
  simp [this, hr2, hr3]

theorem validateRounds_ok {kv : KV} (h : Consistent kv) (hr : RInv kv) {c : Nat} {hd : Round}
    (hh : kv.rounds.lookup (.head c) = some hd) : ∀ (l : List Nat), (∀ i ∈ l, i < hd.number) →
    ∃ tot, validateRounds kv c l = some (tot, 0)
  | [], _ => ⟨0, rfl⟩
  | i :: rest, hl => by
    obtain ⟨a, ha⟩ := validateRound_ok h hr hh (hl i (by simp))
    obtain ⟨b, hb⟩ := validateRounds_ok h hr hh rest (fun x hx => hl x (by simp [hx]))
    exact ⟨a + b, by simp [validateRounds, ha, hb]⟩

theorem validateChain_ok {kv : KV} (h : Consistent kv) (hr : RInv kv) (depth c : Nat) :
    ∃ tot, validateChain kv depth c = some (tot, 0) := by
  unfold validateChain
  cases hh : kv.rounds.lookup (.head c) with
  | none => exact ⟨0, rfl⟩
  | some hd =>
    simp only
    apply validateRounds_ok h hr hh
    intro i hi
    have := (List.mem_filter.mp hi).1
    exact List.mem_range.mp this

theorem validateChains_ok {kv : KV} (h : Consistent kv) (hr : RInv kv) (depth : Nat) : ∀ (l : List Nat),
    ∃ tot, validateChains kv depth l = some (tot, 0)
  | [] => ⟨0, rfl⟩
  | c :: rest => by
    obtain ⟨a, ha⟩ := validateChain_ok h hr depth c
    obtain ⟨b, hb⟩ := validateChains_ok h hr depth rest
    exact ⟨a + b, by simp [validateChains, ha, hb]⟩

/-- on a consistent store whose ROUND records are in order, `ValidateGraphEntries` reports no
    invalid entry, at every depth -/
theorem validate_ok {kv : KV} (h : Consistent kv) (hr : RInv kv) (depth : Nat) :
    ∃ total, validateGraph kv depth = some (total, 0) :=
  validateChains_ok h hr depth _

theorem chainsLoad_ok {kv : KV} (hr : RInv kv) : chainsLoad kv = true := by
  unfold chainsLoad
  simp only [List.all_eq_true]
  intro c _
  cases hh : kv.rounds.lookup (.head c) with
  | none => rfl
  | some hd =>
    obtain ⟨_, h1⟩ := hr.head c hd hh
    obtain ⟨hne, _⟩ := hr.below c hd hh (hd.number - 1) (by omega)
    have : (roundSnaps kv c (hd.number - 1)).isEmpty = false := by
      cases hx : roundSnaps kv c (hd.number - 1) with
      | nil => exact absurd hx hne
      | cons _ _ => rfl
    have h0 : (hd.number != 0) = true := by simp; omega
    simp [this, h0]


/-! ### the ROUND invariant is preserved -/

theorem roundSnaps_congr {kv kv' : KV} (hs : kv'.snaps = kv.snaps) (c i : Nat) : roundSnaps kv' c i = roundSnaps kv c i := by
  simp only [roundSnaps, hs]

theorem RInv_frame {kv kv' : KV} (hr : kv'.rounds = kv.rounds) (hs : kv'.snaps = kv.snaps) (h : RInv kv) : RInv kv' := by
  refine ⟨?_, ?_⟩
  · intro c hd hh; rw [hr] at hh; exact h.head c hd hh
  · intro c hd hh i hi; rw [hr] at hh
    rw [roundSnaps_congr hs, hr]; exact h.below c hd hh i hi

theorem lockInputs_rounds {kv kv' : KV} {t : Tx} (h : lockInputs kv t = .ok kv') : kv'.rounds = kv.rounds ∧ kv'.snaps = kv.snaps := by
  unfold lockInputs at h
  split at h
  · split at h
    · injection h with h; subst h; exact ⟨rfl, rfl⟩
    · split at h
      · injection h with h; subst h; exact ⟨rfl, rfl⟩
      · cases h
  · split at h
    · split at h
      · injection h with h; subst h; exact ⟨rfl, rfl⟩
      · split at h
        · injection h with h; subst h; exact ⟨rfl, rfl⟩
        · cases h
    · split at h
      · cases h
      · injection h with h; subst h; exact ⟨rfl, rfl⟩

theorem writeTx_rounds {kv kv' : KV} {t : Tx} (h : writeTx kv t = .ok kv') : kv'.rounds = kv.rounds ∧ kv'.snaps = kv.snaps := by
  unfold writeTx at h
  split at h
  · cases h
  · split at h
    · injection h with h; subst h; exact ⟨rfl, rfl⟩
    · injection h with h; subst h; exact ⟨rfl, rfl⟩

/-- the round-transition discipline: the new final round is the set of snapshots stored in the
    head round (the kernel hashes its cache round, `CacheRound.asFinal`, which is nil when empty) -/
structure RoundProto (kv : KV) (c n : Nat) (sf : RKey) : Prop where
  key : sf = .final c (n - 1) ((roundSnaps kv c (n - 1)).map (·.id))
  nonempty : roundSnaps kv c (n - 1) ≠ []

theorem RInv_round {kv kv' : KV} {c n : Nat} {self ext : RKey} (hstep : startNewRound kv c n self ext = .ok kv')
    (hp : RoundProto kv c n self) (h : RInv kv) : RInv kv' := by
  unfold startNewRound at hstep
  split at hstep
  · cases hstep
  · cases hstep
  · rename_i hd e hh he
    split at hstep
    · cases hstep
    rename_i hn
    split at hstep
    · cases hstep
    split at hstep
    · cases hstep
    split at hstep
    · cases hstep
    injection hstep with hstep
    have hnum : hd.number + 1 = n := by simpa using hn
    have hrounds : kv'.rounds = (.head c, { node := c, number := n, self := some self, ext := some ext }) :: (self, hd) :: kv.rounds := by
      subst hstep; rfl
    have hsnaps : kv'.snaps = kv.snaps := by subst hstep; rfl
    have hself : self = .final c hd.number ((roundSnaps kv c hd.number).map (·.id)) := by
      have := hp.key; rw [← hnum] at this; simpa using this
    obtain ⟨hdn, _⟩ := h.head c hd hh
    have look_head : ∀ c', kv'.rounds.lookup (.head c') =
        if c' = c then some { node := c, number := n, self := some self, ext := some ext } else kv.rounds.lookup (.head c') := by
      intro c'
      rw [hrounds, List.lookup_cons]
      by_cases hc : c' = c
      · subst hc; simp
      · have h1 : (RKey.head c' == RKey.head c) = false := by simp [hc]
        simp only [h1, hc, ↓reduceIte]
        rw [List.lookup_cons]
        have h2 : (RKey.head c' == self) = false := by rw [hself]; simp
        simp only [h2]
    have look_final : ∀ c' i l, (c' ≠ c ∨ i ≠ hd.number) →
        kv'.rounds.lookup (.final c' i l) = kv.rounds.lookup (.final c' i l) := by
      intro c' i l hne
      rw [hrounds, List.lookup_cons]
      have h1 : (RKey.final c' i l == RKey.head c) = false := by simp
      simp only [h1]
      rw [List.lookup_cons]
      have h2 : (RKey.final c' i l == self) = false := by
        rw [hself]; simp
        intro a b; rcases hne with h | h
        · exact absurd a h
        · exact absurd b h
      simp only [h2]
    refine ⟨?_, ?_⟩
    · intro c' h' hl
      rw [look_head] at hl
      by_cases hc : c' = c
      · simp only [hc, ↓reduceIte] at hl; injection hl with hl; subst hl; exact ⟨hc.symm, by simp; omega⟩
      · simp only [hc, ↓reduceIte] at hl; exact h.head c' h' hl
    · intro c' h' hl i hi
      rw [look_head] at hl
      rw [roundSnaps_congr hsnaps]
      by_cases hc : c' = c
      · simp only [hc, ↓reduceIte] at hl; injection hl with hl; subst hl
        subst hc
        simp only at hi
        by_cases hlt : i < hd.number
        · obtain ⟨a, r, b1, b2, b3⟩ := h.below c' hd hh i hlt
          exact ⟨a, r, by rw [look_final _ _ _ (Or.inr (by omega))]; exact b1, b2, b3⟩
        · have hie : i = hd.number := by omega
          subst hie
          refine ⟨by have := hp.nonempty; rw [← hnum] at this; simpa using this, hd, ?_, hdn, rfl⟩
          rw [hrounds, List.lookup_cons]
          have h1 : (RKey.final c' hd.number ((roundSnaps kv c' hd.number).map (·.id)) == RKey.head c') = false := by simp
          simp only [h1]
          rw [List.lookup_cons, ← hself]; simp
      · simp only [hc, ↓reduceIte] at hl
        obtain ⟨a, r, b1, b2, b3⟩ := h.below c' h' hl i hi
        exact ⟨a, r, by rw [look_final _ _ _ (Or.inl hc)]; exact b1, b2, b3⟩


theorem writeSnapshot_rounds {kv kv' : KV} {s : Snap} {o : Nat} (hstep : writeSnapshot kv s o = .ok kv') :
    kv'.rounds = kv.rounds ∧ ∃ hd, kv.rounds.lookup (.head s.node) = some hd ∧ hd.number = s.round := by
  unfold writeSnapshot at hstep
  split at hstep
  · cases hstep
  · rename_i hd hh
    split at hstep
    · cases hstep
    rename_i hn
    split at hstep
    · cases hstep
    split at hstep
    · cases hstep
    split at hstep
    · cases hstep
    split at hstep
    · cases hstep
    rename_i kv1 hk
    injection hstep with hstep; subst hstep
    exact ⟨(finalizeAll_frame _ _ _ _ hk).2.2.2.2.2.1, hd, hh, by simpa using hn⟩

theorem sortByTs_congr_filter (l : List Snap) (s : Snap) (p : Snap → Bool) (hp : p s = false) :
    sortByTs ((l ++ [s]).filter p) = sortByTs (l.filter p) := by
  rw [List.filter_append]; simp [hp]

theorem RInv_snap {kv kv' : KV} {s : Snap} {o : Nat} (hstep : writeSnapshot kv s o = .ok kv')
    (hnext : ∀ e ∈ kv.topo, e.1 < o) (h : RInv kv) : RInv kv' := by
  obtain ⟨hr, hd, hh, hnum⟩ := writeSnapshot_rounds hstep
  obtain ⟨_, _, _, hsnaps, _, _, _⟩ := writeSnapshot_facts hstep hnext
  have hrs : ∀ c hd', kv.rounds.lookup (.head c) = some hd' → ∀ i, i < hd'.number →
      roundSnaps kv' c i = roundSnaps kv c i := by
    intro c hd' hh' i hi
    unfold roundSnaps
    rw [hsnaps]
    apply sortByTs_congr_filter
    by_cases hc : s.node = c
    · subst hc
      rw [hh] at hh'; injection hh' with hh'; subst hh'
      have : s.round ≠ i := by omega
      simp [this]
    · simp [hc]
  refine ⟨?_, ?_⟩
  · intro c hd' hl; rw [hr] at hl; exact h.head c hd' hl
  · intro c hd' hl i hi; rw [hr] at hl
    rw [hrs c hd' hl i hi, hr]; exact h.below c hd' hl i hi

/-! ### genesis -/

theorem filter_range_eq (n c : Nat) : (List.range n).filter (fun x => x == c) = if c < n then [c] else [] := by
  induction n with
  | zero => simp
  | succ k ih =>
    rw [List.range_succ, List.filter_append, ih]
    by_cases h1 : c < k
    · have : (k == c) = false := by simp; omega
      simp [h1, this]; omega
    · by_cases h2 : c = k
      · subst h2; simp
      · have : (k == c) = false := by simp; omega
        simp [h1, this]; omega

theorem genesis_roundSnaps (n c : Nat) (hc : c < n) :
    (roundSnaps (genesis n) c 0).map (·.id) = genesisSnapIds n c ∧ roundSnaps (genesis n) c 0 ≠ [] := by
  have hf : ((List.range n).map (fun c' : Nat => ({ id := c' + 1, node := c', round := 0, ts := 0, txs := [c' + 1] } : Snap))).filter
      (fun s => s.node == c && s.round == 0) = [{ id := c + 1, node := c, round := 0, ts := 0, txs := [c + 1] }] := by
    rw [List.filter_map]
    have : ((fun s : Snap => s.node == c && s.round == 0) ∘
        (fun c' : Nat => ({ id := c' + 1, node := c', round := 0, ts := 0, txs := [c' + 1] } : Snap))) = (fun x => x == c) := by
      funext x; simp
    rw [this, filter_range_eq, if_pos hc]; rfl
  unfold roundSnaps
  simp only [genesis, List.filter_append, hf]
  by_cases h0 : c = 0
  · subst h0
    simp [sortByTs, insertByTs, genesisSnapIds]
  · have : ((0 : Nat) == c) = false := by simp; omega
    simp [sortByTs, insertByTs, genesisSnapIds, this, h0]

theorem genesis_rounds_mem (n : Nat) {k : RKey} {r : Round} (h : (k, r) ∈ (genesis n).rounds) :
    ∃ c, c < n ∧ ((k = .head c ∧ r.node = c ∧ r.number = 1) ∨
      (k = .final c 0 (genesisSnapIds n c) ∧ r.node = c ∧ r.number = 0)) := by
  simp only [genesis, List.mem_flatMap, List.mem_range, List.mem_cons, List.mem_nil_iff, or_false] at h
  obtain ⟨c, hc, h1 | h1⟩ := h
  · injection h1 with a b; subst a; subst b; exact ⟨c, hc, Or.inl ⟨rfl, rfl, rfl⟩⟩
  · injection h1 with a b; subst a; subst b; exact ⟨c, hc, Or.inr ⟨rfl, rfl, rfl⟩⟩

theorem genesis_rinv (n : Nat) : RInv (genesis n) := by
  refine ⟨?_, ?_⟩
  · intro c hd hl
    have hm : (RKey.head c, hd) ∈ (genesis n).rounds := by
      obtain ⟨l1, l2, h1, _⟩ := List.lookup_eq_some_iff.mp hl
      rw [h1]; simp
    obtain ⟨c', _, h1 | h1⟩ := genesis_rounds_mem n hm
    · obtain ⟨a, b, d⟩ := h1; injection a with a; subst a; exact ⟨b, by omega⟩
    · obtain ⟨a, _⟩ := h1; cases a
  · intro c hd hl i hi
    have hm : (RKey.head c, hd) ∈ (genesis n).rounds := by
      obtain ⟨l1, l2, h1, _⟩ := List.lookup_eq_some_iff.mp hl
      rw [h1]; simp
    obtain ⟨c', hc', h1 | h1⟩ := genesis_rounds_mem n hm
    · obtain ⟨a, _, d⟩ := h1; injection a with a; subst a
      have hi0 : i = 0 := by omega
      subst hi0
      obtain ⟨g1, g2⟩ := genesis_roundSnaps n c hc'
      refine ⟨g2, { node := c, number := 0, self := none, ext := none }, ?_, rfl, rfl⟩
      rw [g1]
      apply lookup_unique
      · simp only [genesis, List.mem_flatMap, List.mem_range, List.mem_cons, List.mem_nil_iff, or_false]
        exact ⟨c, hc', Or.inr rfl⟩
      · intro v hv
        simp only [genesis, List.mem_flatMap, List.mem_range, List.mem_cons, List.mem_nil_iff, or_false] at hv
        obtain ⟨c2, _, h2 | h2⟩ := hv
        · injection h2 with a _; cases a
        · injection h2 with a b
          injection a with a1 _ _
          subst a1; exact b
    · obtain ⟨a, _⟩ := h1; cases a

/-! ### every cut point, and the full restart -/

/-- one durable write, with the finalization discipline of C21 and the round-transition
    discipline `RoundProto` -/
inductive LStep : KV → KV → Prop where
  | lock {kv kv' : KV} {t : Tx} : lockInputs kv t = .ok kv' → LStep kv kv'
  | wtx {kv kv' : KV} {t : Tx} : writeTx kv t = .ok kv' → LStep kv kv'
  | round {kv kv' : KV} {c n : Nat} {self ext : RKey} : startNewRound kv c n self ext = .ok kv' →
      RoundProto kv c n self → LStep kv kv'
  | snap {kv kv' : KV} {s : Snap} {o : Nat} : writeSnapshot kv s o = .ok kv' → SnapProto kv s o → LStep kv kv'
  | mark {kv kv' : KV} {sid : Nat} : markSnap kv sid = .ok kv' → LStep kv kv'
  | restart {kv kv' : KV} : setupRepair kv = .ok kv' → LStep kv kv'

inductive LReach : KV → Prop where
  | genesis (n : Nat) : LReach (genesis n)
  | step {kv kv' : KV} : LReach kv → LStep kv kv' → LReach kv'

theorem LStep.toStep {kv kv' : KV} (h : LStep kv kv') : Step kv kv' := by
  cases h with
  | lock h1 => exact Step.lock h1
  | wtx h1 => exact Step.wtx h1
  | round h1 _ => exact Step.round h1
  | snap h1 hp => exact Step.snap h1 hp
  | mark h1 => exact Step.mark h1
  | restart h1 => exact Step.restart h1

theorem LReach.toReach {kv : KV} (h : LReach kv) : Reach kv := by
  induction h with
  | genesis n => exact Reach.genesis n
  | step _ hs ih => exact Reach.step ih hs.toStep

theorem advance_rounds (kv : KV) (sn : Snap) (tx : Tx) :
    (advance kv sn tx).rounds = kv.rounds ∧ (advance kv sn tx).snaps = kv.snaps := ⟨rfl, rfl⟩

theorem lstep_rinv {kv kv' : KV} (hs : LStep kv kv') (hc : Consistent kv) (h : RInv kv) : RInv kv' := by
  cases hs with
  | lock h1 => obtain ⟨a, b⟩ := lockInputs_rounds h1; exact RInv_frame a b h
  | wtx h1 => obtain ⟨a, b⟩ := writeTx_rounds h1; exact RInv_frame a b h
  | round h1 hp => exact RInv_round h1 hp h
  | snap h1 hp => exact RInv_snap h1 hp.next h
  | mark h1 =>
    rcases markSnap_cases h1 with b | ⟨sn, tx, b⟩
    · rw [b]; exact h
    · rw [b]; exact RInv_frame (kv := kv) rfl rfl h
  | restart h1 =>
    obtain ⟨kv2, a, _, b, _⟩ := setupRepair_spec hc.index
    rw [a] at h1; injection h1 with h1; subst h1
    rcases b with b | ⟨_, _, sn, tx, _, b, _⟩
    · rw [b]; exact h
    · rw [b]; exact RInv_frame (kv := kv) rfl rfl h

theorem lreach_rinv {kv : KV} (hr : LReach kv) : RInv kv := by
  induction hr with
  | genesis n => exact genesis_rinv n
  | step hr' hs ih => exact lstep_rinv hs (every_prefix_consistent hr'.toReach) ih

/-- **restart_ok, full strength**: on a consistent durable state whose ROUND records are in
    order, every modelled step of `kernel.SetupNode` succeeds: `LastSnapshot` finds the last
    entry, `ValidateGraphEntries(…, 10)` reports no invalid entry, the marker repair succeeds,
    every chain loads its final round; the restarted state is consistent again and the topology
    counter is the last order. -/
theorem restart_ok {kv : KV} (h : Consistent kv) (hr : RInv kv) :
    ∃ r, restart kv = some r ∧ Consistent r.kv ∧ RInv r.kv ∧
      validateGraph kv 10 = some (r.total, 0) ∧ kv.topo.getLast?.map (·.1) = some r.topoCounter := by
  obtain ⟨hl, kv1, h1, hc1⟩ := restart_ok_partial h
  obtain ⟨total, hv⟩ := validate_ok h hr 10
  have hr1 : RInv kv1 := lstep_rinv (LStep.restart h1) h hr
  have hload := chainsLoad_ok hr1
  obtain ⟨e, he⟩ : ∃ e, kv.topo.getLast? = some e := by
    unfold lastSnapshotOk at hl
    cases hg : kv.topo.getLast? with
    | none => simp [hg] at hl
    | some e => exact ⟨e, rfl⟩
  refine ⟨{ kv := kv1, topoCounter := e.1, total := total }, ?_, hc1, hr1, hv, by simp [he]⟩
  unfold restart
  simp [hl, hv, h1, hload, he]

/-- **every cut point restarts**: stop after any sequence of durable writes that follow the
    finalization and round-transition disciplines (restarts included); the node restarts and its
    graph validator reports no invalid entries. -/
theorem restart_ok_every_prefix {kv : KV} (hr : LReach kv) :
    ∃ r, restart kv = some r ∧ ∃ total, validateGraph kv 10 = some (total, 0) := by
  obtain ⟨r, h1, _, _, h2, _⟩ := restart_ok (every_prefix_consistent hr.toReach) (lreach_rinv hr)
  exact ⟨r, h1, r.total, h2⟩


/-! ### non-vacuity: a reachable state with a round transition -/

def wR : RKey := .final 2 1 [10]
def wX : RKey := .final 3 0 [4]
def w7 : KV := runOk (startNewRound w6 2 2 wR wX)

theorem witness_round_reach : LReach w7 := by
  have l6 : LReach w6 := by
    have p3 : SnapProto w2 wS9 8 := by
      refine ⟨by decide, ?_⟩
      intro t tx h1 h2 _
      have ht : t = 9 := by simp [wS9] at h1; exact h1.symm
      subst ht
      have : findTx w2 9 = some wMint := by decide
      rw [this] at h2; injection h2 with h2; subst h2
      exact ⟨{ ts := 1, snap := 8, next := 0 }, 7, 8, ⟨by decide, by decide, by decide⟩, by decide, rfl, by decide, by decide⟩
    have p6 : SnapProto w5 wS10 9 := by
      refine ⟨by decide, ?_⟩
      intro t tx h1 h2 h3
      have ht : t = 10 := by simp [wS10] at h1; exact h1.symm
      subst ht
      have : findTx w5 10 = some wDep := by decide
      rw [this] at h2; injection h2 with h2; subst h2
      simp [wDep, consensusKind] at h3
    have r1 : LReach w1 := LReach.step (LReach.genesis 7) (LStep.lock (t := wMint) rfl)
    have r2 : LReach w2 := LReach.step r1 (LStep.wtx (t := wMint) rfl)
    have r3 : LReach w3 := LReach.step r2 (LStep.snap (s := wS9) (o := 8) rfl p3)
    have r4 : LReach w4 := LReach.step r3 (LStep.lock (t := wDep) rfl)
    have r5 : LReach w5 := LReach.step r4 (LStep.wtx (t := wDep) rfl)
    exact LReach.step r5 (LStep.snap (s := wS10) (o := 9) rfl p6)
  exact LReach.step l6 (LStep.round (c := 2) (n := 2) (self := wR) (ext := wX) rfl ⟨by decide, by decide⟩)

/-- after the round transition of chain 2 the validator also visits round 1 (9 entries), and the
    whole modelled restart succeeds -/
example : (restart w7).map (fun r => (r.topoCounter, r.total)) = some (9, 9) := by decide

/-- the excluded point of `RoundProto`: a final round recorded under the hash of the wrong
    snapshot set is what the validator reports (MISSING ROUND) — the restart is refused -/
example : (restart (runOk (startNewRound w6 2 2 (.final 2 1 []) wX))).isNone = true := by decide


/-! ### duplicated finalization: one transaction in snapshots of two chains

`Ledger.finalized` only asks that every transaction of a stored snapshot HAS a FINALIZATION
record, and `Ledger.named` that the record names a stored snapshot containing the transaction —
not that it names the snapshot at hand: `finalizeTransaction` keeps the first one. The model's
validator follows `validateSnapshotEntriesForNode`: a record that names another snapshot is
logged ("DUPLICATED FINALIZATION") and NOT counted invalid; only a named snapshot that does not
contain the transaction is. `validate_ok` / `restart_ok` therefore cover such states without any
extra hypothesis; the state below is one, and it is reachable. -/

def dS10 : Snap := { id := 10, node := 2, round := 1, ts := 1002000000, txs := [9] }
def dDep : Tx := { id := 9, kind := 0, ref0 := 0, outs := 1, key := 1, inputs := [] }
def dS9 : Snap := { id := 9, node := 1, round := 1, ts := 1001000000, txs := [9] }
def d1 : KV := runOk (lockInputs (genesis 7) dDep)
def d2 : KV := runOk (writeTx d1 dDep)
def d3 : KV := runOk (writeSnapshot d2 dS9 8)
def d4 : KV := runOk (writeSnapshot d3 dS10 9)
def d5 : KV := runOk (startNewRound d4 2 2 (.final 2 1 [10]) (.final 3 0 [4]))

theorem duplicate_reach : LReach d5 := by
  have ord : ∀ (kv : KV) (s : Snap) (o : Nat), s.txs = [9] → findTx kv 9 = some dDep →
      (∀ e ∈ kv.topo, e.1 < o) → SnapProto kv s o := by
    intro kv s o hs hf hn
    refine ⟨hn, ?_⟩
    intro t tx h1 h2 h3
    rw [hs] at h1
    have ht : t = 9 := by simp at h1; exact h1.symm
    subst ht
    rw [hf] at h2; injection h2 with h2; subst h2
    simp [dDep, consensusKind] at h3
  have r1 : LReach d1 := LReach.step (LReach.genesis 7) (LStep.lock (t := dDep) rfl)
  have r2 : LReach d2 := LReach.step r1 (LStep.wtx (t := dDep) rfl)
  have r3 : LReach d3 := LReach.step r2 (LStep.snap (s := dS9) (o := 8) rfl (ord d2 dS9 8 rfl (by decide) (by decide)))
  have r4 : LReach d4 := LReach.step r3 (LStep.snap (s := dS10) (o := 9) rfl (ord d3 dS10 9 rfl (by decide) (by decide)))
  exact LReach.step r4 (LStep.round (c := 2) (n := 2) (self := .final 2 1 [10]) (ext := .final 3 0 [4]) rfl
    ⟨by decide, by decide⟩)

/-- the second snapshot (10, chain 2) holds transaction 9 whose FINALIZATION names snapshot 9 of
    chain 1, and round 1 of chain 2 is below its head: the validator visits it (9 entries) … -/
theorem duplicate_state : d5.fins.lookup 9 = some 9 ∧ (findSnap d5 10).map (·.txs) = some [9] ∧
    (d5.rounds.lookup (.head 2)).map (·.number) = some 2 := by decide

/-- … and reports nothing invalid; the node restarts (instance of `restart_ok_every_prefix`) -/
theorem duplicate_restarts : (restart d5).map (fun r => (r.topoCounter, r.total)) = some (9, 9) := by decide

example : ∃ r, restart d5 = some r ∧ ∃ total, validateGraph d5 10 = some (total, 0) :=
  restart_ok_every_prefix duplicate_reach

end Mixin.C22
