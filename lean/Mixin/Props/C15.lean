import Mixin.Proofs.Ledger
import Mixin.Facts.ExpectedC15
/-!
  C15 — finalizing a snapshot is atomic and idempotent.

  `WriteSnapshot` is `atomic st (writeSnapshotTxn …)`: the body between `NewTransaction(true)` and
  `Commit()` is a function `State → Except Fail State`, committed or discarded as a whole (the fact
  `Mixin.Facts.ExpectedC15.writeSnapshot_one_txn` pins that skeleton to the source; the harness compares
  the raw database before/after every failed write). The theorems below say what "all effects" are, that a
  transaction finalized once is never finalized again whatever happens later, and that re-finalizing is the
  identity on every ledger family.
-/
namespace Mixin.C15
open Mixin.Ledger

/-- every storage operation that can touch the ledger families -/
inductive Op
  | validate (tx : Tx) (fork : Bool)
  | lock (tx : Tx) (fork : Bool)
  | put (tx : Tx)
  | snap (s : Snap) (signers : Nat)

def applyOp (P : Params) (st : State) : Op → State
  | .validate tx f => (validate P st tx f).2
  | .lock tx f => (LockInputs st tx f).2
  | .put tx => (WriteTransaction st tx).2
  | .snap s sg => (WriteSnapshot P.cap st s sg).2

/-- an arbitrary history -/
def run (P : Params) (st : State) (ops : List Op) : State := ops.foldl (applyOp P) st

/-- **All or nothing.** `WriteSnapshot` either fails and leaves the database exactly as it was, or succeeds
    and then *every* effect is there: each listed transaction has a finalization record and its per-node
    uniqueness record, the snapshot record, both topology entries and the work record exist. -/
theorem write_all_or_nothing (cap : Id → Nat) (st : State) (snap : Snap) (sg : Nat) (hk : TxsKeyed st) :
    let r := WriteSnapshot cap st snap sg
    (r.1 ≠ none ∧ r.2 = st) ∨
    (r.1 = none ∧
      (∀ t ∈ snap.txs, finalized r.2 t = true ∧ aget r.2.unique (t, snap.node) = some ()) ∧
      aget r.2.snaps snap.id = some snap ∧ aget r.2.topo snap.topo = some snap.id ∧
      aget r.2.snapTopo snap.id = some snap.topo ∧
      aget r.2.work (snap.node, snap.round, snap.ts) = some (snap.id, sg)) := by
  intro r
  cases hr : writeSnapshotTxn cap st snap sg with
  | error e =>
    left
    simp [r, WriteSnapshot, atomic, hr]
  | ok st' =>
    right
    have hr2 : r = (none, st') := by simp [r, WriteSnapshot, atomic, hr]
    rw [hr2]
    unfold writeSnapshotTxn at hr
    split at hr
    · cases hr
    · split at hr
      · cases hr
      · rename_i st1 h1
        cases hr
        unfold writeSnapshotInner at h1
        split at h1
        · cases h1
        · rename_i s1 hfa
          simp only at h1
          split at h1
          · cases h1
          · cases h1
            have ⟨eff, _⟩ := finalizeAll_effects hk hfa
            refine ⟨rfl, ?_, ?_, ?_, ?_, ?_⟩
            · intro t ht
              have := eff t ht
              simpa [writeSnapshotWork, finalized] using this
            · simp [writeSnapshotWork, aget_aset_eq]
            · simp [writeSnapshotWork, aget_aset_eq]
            · simp [writeSnapshotWork, aget_aset_eq]
            · simp [writeSnapshotWork, aget_aset_eq]

/-- a failed write changes nothing at all (every key family, including the ones the model lumps together) -/
theorem failed_write_discards (cap : Id → Nat) (st : State) (snap : Snap) (sg : Nat) (e : Fail)
    (h : (WriteSnapshot cap st snap sg).1 = some e) : (WriteSnapshot cap st snap sg).2 = st := by
  unfold WriteSnapshot atomic at *
  split <;> simp_all

/-- **Idempotence.** If `FINALIZATION[t]` exists, `finalizeTransaction` returns the state unchanged: no
    finalization, UTXO, ghost, total, asset-info, node, custodian or withdrawal key is written. -/
theorem finalize_idem (cap : Id → Nat) (st : State) (tx : Tx) (snap ts : Nat) (s : Id)
    (h : aget st.fin tx.id = some s) : finalizeTransaction cap st tx snap ts = .ok st := by
  unfold finalizeTransaction
  rw [h]

/-- one step of any history keeps every existing finalization record -/
theorem applyOp_finMono (P : Params) (st : State) (op : Op) : FinMono st (applyOp P st op) := by
  cases op with
  | validate tx f =>
    simp only [applyOp, validate]
    split
    · exact FinMono.refl _
    · rename_i st1 us h
      exact FinMono.of_eq (lockGhostKeys_frame (validateCore_locks h)).1
  | lock tx f =>
    simp only [applyOp, LockInputs, atomic]
    split
    · rename_i st' h
      exact FinMono.of_eq (lockInputsTxn_frame h).1
    · exact FinMono.refl _
  | put tx =>
    simp only [applyOp, WriteTransaction, atomic]
    split
    · rename_i st' h
      exact FinMono.of_eq (writeTransactionTxn_frame h).1
    · exact FinMono.refl _
  | snap s sg =>
    simp only [applyOp, WriteSnapshot, atomic]
    split
    · rename_i st' h
      unfold writeSnapshotTxn at h
      split at h
      · cases h
      · split at h
        · cases h
        · rename_i st1 h1
          cases h
          unfold writeSnapshotInner at h1
          split at h1
          · cases h1
          · rename_i s1 hfa
            simp only at h1
            split at h1
            · cases h1
            · cases h1
              have ⟨m, _⟩ := finalizeAll_finMono hfa
              intro t v hv
              simpa [writeSnapshotWork] using m t v hv
    · exact FinMono.refl _

/-- **First finalization wins**, over any history of validations, locks (with or without fork), body
    writes and snapshot writes, successful or failed: once `FINALIZATION[t] = s`, it stays `s`. -/
theorem first_finalization_wins (P : Params) (ops : List Op) (st : State) (t s : Id)
    (h : aget st.fin t = some s) : aget (run P st ops).fin t = some s := by
  induction ops generalizing st with
  | nil => exact h
  | cons op r ih => exact ih (applyOp P st op) (applyOp_finMono P st op t s h)

/-- **Effects once.** A transaction finalized by an earlier snapshot is a no-op for every later
    finalization step, in whatever later snapshot and after whatever history it occurs: outputs, ghost keys,
    asset info, totals, node/custodian/withdrawal records are not applied again. -/
theorem refinalize_is_noop (P : Params) (ops : List Op) (st : State) (tx : Tx) (s snap ts : Nat)
    (h : aget st.fin tx.id = some s) :
    finalizeTransaction P.cap (run P st ops) tx snap ts = .ok (run P st ops) :=
  finalize_idem _ _ _ _ _ s (first_finalization_wins P ops st tx.id s h)

/-- the loop of `writeSnapshot` over transactions that are all finalized already changes only `UNIQUE` -/
theorem finalizeAll_shared (cap : Id → Nat) (l : List Id) (st : State) (snap : Snap)
    (h : ∀ t ∈ l, ∃ tx, aget st.txs t = some tx ∧ finalized st tx.id = true) :
    ∃ u, finalizeAll cap l st snap = .ok { st with unique := u } := by
  induction l generalizing st with
  | nil => exact ⟨st.unique, by simp [finalizeAll]⟩
  | cons t r ih =>
    obtain ⟨tx, htx, hf⟩ := h t (by simp)
    simp only [finalized] at hf
    cases hs : aget st.fin tx.id with
    | none => simp [hs] at hf
    | some s =>
      have hid := finalize_idem cap st tx snap.id snap.ts s hs
      have hr : ∀ t' ∈ r, ∃ tx', aget ({ st with unique := aset st.unique (t, snap.node) () } : State).txs t' = some tx' ∧
          finalized ({ st with unique := aset st.unique (t, snap.node) () } : State) tx'.id = true := by
        intro t' ht'
        obtain ⟨tx', a, b⟩ := h t' (by simp [ht'])
        exact ⟨tx', by simpa using a, by simpa [finalized] using b⟩
      obtain ⟨u, hu⟩ := ih _ hr
      exact ⟨u, by simp [finalizeAll, htx, hid, hu]⟩

/-- **Shared transactions, effects once.** A snapshot all of whose transactions were finalized by earlier
    snapshots (2, 3, 4… snapshots sharing them) leaves UTXO, ghost, finalization, asset info, totals,
    withdrawal and node/custodian families exactly as they were; only its own bookkeeping is added. -/
theorem shared_tx_effects_once (cap : Id → Nat) (st : State) (snap : Snap) (sg : Nat)
    (h : ∀ t ∈ snap.txs, ∃ tx, aget st.txs t = some tx ∧ finalized st tx.id = true) :
    let st' := (WriteSnapshot cap st snap sg).2
    st'.utxo = st.utxo ∧ st'.ghost = st.ghost ∧ st'.fin = st.fin ∧ st'.assetInfo = st.assetInfo ∧
    st'.total = st.total ∧ st'.withdrawal = st.withdrawal ∧ st'.nodeLog = st.nodeLog ∧
    st'.deposit = st.deposit ∧ st'.mint = st.mint ∧ st'.txs = st.txs := by
  intro st'
  obtain ⟨u, hu⟩ := finalizeAll_shared cap snap.txs st snap h
  cases hr : writeSnapshotTxn cap st snap sg with
  | error e => simp [st', WriteSnapshot, atomic, hr]
  | ok s2 =>
    have e2 : st' = s2 := by simp [st', WriteSnapshot, atomic, hr]
    rw [e2]
    unfold writeSnapshotTxn at hr
    split at hr
    · cases hr
    · simp only [writeSnapshotInner, hu] at hr
      cases ht : aget st.topo snap.topo with
      | some v => simp [ht] at hr
      | none =>
        simp [ht, writeSnapshotWork] at hr
        subst hr
        simp

/-! ### non-vacuity: a concrete ledger where the same deposit is shared by two snapshots -/

def capEx : Id → Nat := fun _ => 1000
def dep : Tx := ⟨10, 2, [.deposit 1 2 102 300], [⟨.script, 300, [501]⟩], [], true, true⟩
def st0 : State := { txs := [(10, dep)] }
def snapA : Snap := ⟨100, 1, 1, 11, 8, [10]⟩
def snapB : Snap := ⟨101, 2, 1, 12, 9, [10]⟩
def stA : State := (WriteSnapshot capEx st0 snapA 3).2
def stB : State := (WriteSnapshot capEx stA snapB 3).2

example : (WriteSnapshot capEx st0 snapA 3).1 = none := by decide
example : TxsKeyed st0 := by
  intro k tx h
  simp only [st0, aget] at h
  split at h
  · cases h; rename_i e; exact e
  · cases h
example : aget stA.fin 10 = some 100 ∧ readTotal stA 2 = 300 := by decide
/-- the second snapshot succeeds, keeps the first finalization record and does not add 300 again -/
example : (WriteSnapshot capEx stA snapB 3).1 = none ∧ aget stB.fin 10 = some 100 ∧ readTotal stB 2 = 300 ∧
    stB.utxo = stA.utxo := by decide
/-- a batch whose second member fails (unknown asset info for a transfer) leaves nothing behind -/
def bad : Tx := ⟨11, 7, [.utxo 10 0], [⟨.script, 300, [502]⟩], [], true, true⟩
example : (WriteSnapshot capEx { st0 with txs := [(10, dep), (11, bad)] } ⟨100, 1, 1, 11, 8, [10, 11]⟩ 3).1 = some .panic := by
  decide

end Mixin.C15
