import Mixin.Model.Batch
namespace Mixin.C31
end Mixin.C31
