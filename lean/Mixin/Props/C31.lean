import Mixin.Model.Batch
import Mixin.Facts.ExpectedC31
/-!
  C31 — every message the node sends fits the transport limit.

  Model: `Mixin.Batch` (kernel/queue.go batching loop, p2p/handle.go builders, p2p/quic.go framing).
  The batcher as found accounted the *unsigned* payload size; `bundle_fits_counterexample_unsigned`
  proves that rule violates the property on the batch that was replayed on the real code
  (known_findings.json, C31:batch-accounts-unsigned-size, fixed). The tree under test accounts
  the signed envelope (`Acct.envelope`), for which `bundle_fits` holds at full strength.
-/
namespace Mixin.C31
open Mixin.Batch Mixin.Facts Mixin.Facts.ExpectedC31

/-! ### sums -/

def envSum (g : List QTx) : Nat := (g.map (·.env)).foldl (· + ·) 0
def acctSum (a : Acct) (g : List QTx) : Nat := (g.map (acct a)).foldl (· + ·) 0

theorem foldl_add_init (l : List Nat) (k : Nat) : l.foldl (· + ·) k = k + l.foldl (· + ·) 0 := by
  induction l generalizing k with
  | nil => simp
  | cons x xs ih => simp only [List.foldl_cons]; rw [ih (k + x), ih (0 + x)]; omega

theorem sum_cons (x : Nat) (l : List Nat) : (x :: l).foldl (· + ·) 0 = x + l.foldl (· + ·) 0 := by
  simp only [List.foldl_cons]; rw [foldl_add_init]; omega

theorem sum_append (l m : List Nat) :
    (l ++ m).foldl (· + ·) 0 = l.foldl (· + ·) 0 + m.foldl (· + ·) 0 := by
  rw [List.foldl_append, foldl_add_init]

theorem sumEnv_eq (es : List Nat) : sumEnv es = 4 * es.length + es.foldl (· + ·) 0 := by
  unfold sumEnv
  induction es with
  | nil => simp
  | cons e es ih => rw [List.map_cons, sum_cons, ih, sum_cons, List.length_cons]; omega

theorem sum_sublist {l m : List Nat} (h : l.Sublist m) : l.foldl (· + ·) 0 ≤ m.foldl (· + ·) 0 := by
  induction h with
  | slnil => simp
  | cons a _ ih => rw [sum_cons]; omega
  | cons_cons a _ ih => rw [sum_cons, sum_cons]; omega

/-! ### the invariant of the batching fold -/

/-- what one pass maintains: the batch is accounted inside `batchSize`, a non-empty batch is
    strictly below the threshold, everything sent alone is one retrieved transaction, and the
    batch is no longer than what was retrieved -/
structure Inv (a : Acct) (T : Nat) (txs : List QTx) (s : St) : Prop where
  acc : acctSum a s.batch ≤ s.batchSize
  lt : s.batch ≠ [] → acctSum a s.batch < T
  single : ∀ g ∈ s.sends, ∃ t ∈ txs, g = [t]
  mem : ∀ t ∈ s.batch, t ∈ txs
  len : s.batch.length ≤ txs.length

theorem acctSum_snoc (a : Acct) (g : List QTx) (t : QTx) : acctSum a (g ++ [t]) = acctSum a g + acct a t := by
  unfold acctSum; rw [List.map_append, sum_append]; simp

theorem step_inv (a : Acct) (T : Nat) (pre : List QTx) (s : St) (t : QTx)
    (h : Inv a T pre s) : Inv a T (pre ++ [t]) (step a T s t) := by
  have hsingle : ∀ g ∈ s.sends, ∃ u ∈ pre ++ [t], g = [u] := fun g hg => by
    obtain ⟨u, hu, e⟩ := h.single g hg; exact ⟨u, List.mem_append_left _ hu, e⟩
  have hsingle' : ∀ g ∈ s.sends ++ [[t]], ∃ u ∈ pre ++ [t], g = [u] := fun g hg => by
    rcases List.mem_append.mp hg with hg | hg
    · exact hsingle g hg
    · exact ⟨t, by simp, by simpa using hg⟩
  have hmem : ∀ u ∈ s.batch, u ∈ pre ++ [t] := fun u hu => List.mem_append_left _ (h.mem u hu)
  have hlen : s.batch.length ≤ (pre ++ [t]).length := by
    have := h.len; simp only [List.length_append, List.length_cons, List.length_nil]; omega
  have keep : Inv a T (pre ++ [t]) s := ⟨h.acc, h.lt, hsingle, hmem, hlen⟩
  unfold step
  split
  · exact keep
  · split
    · exact ⟨h.acc, h.lt, hsingle, hmem, hlen⟩
    · split
      · exact ⟨h.acc, h.lt, hsingle, hmem, hlen⟩
      · split
        · exact ⟨h.acc, h.lt, hsingle', hmem, hlen⟩
        · dsimp only
          split
          · rename_i hb
            have hlt : s.batchSize + acct a t < T := by
              simp only [Bool.and_eq_true, decide_eq_true_eq] at hb; exact hb.2
            refine ⟨?_, ?_, hsingle, ?_, ?_⟩
            · show acctSum a (s.batch ++ [t]) ≤ s.batchSize + acct a t
              rw [acctSum_snoc]; have := h.acc; omega
            · intro _
              show acctSum a (s.batch ++ [t]) < T
              rw [acctSum_snoc]; have := h.acc; omega
            · intro u hu
              rcases List.mem_append.mp hu with hu | hu
              · exact hmem u hu
              · simp only [List.mem_cons, List.not_mem_nil, or_false] at hu; subst hu; simp
            · show (s.batch ++ [t]).length ≤ (pre ++ [t]).length
              have := h.len
              simp only [List.length_append, List.length_cons, List.length_nil]; omega
          · refine ⟨?_, h.lt, hsingle', hmem, hlen⟩
            show acctSum a s.batch ≤ s.batchSize + acct a t
            have := h.acc; omega

theorem foldl_inv (a : Acct) (T : Nat) (pre txs : List QTx) (s : St) (h : Inv a T pre s) :
    Inv a T (pre ++ txs) (txs.foldl (step a T) s) := by
  induction txs generalizing pre s with
  | nil => simpa using h
  | cons t ts ih =>
    have := ih (pre ++ [t]) (step a T s t) (step_inv a T pre s t h)
    simpa using this

theorem run_inv (a : Acct) (T : Nat) (txs : List QTx) : Inv a T txs (run a T txs) := by
  have h0 : Inv a T [] ({} : St) :=
    ⟨by simp [acctSum], by simp, by simp, by simp, by simp⟩
  simpa [run] using foldl_inv a T [] txs {} h0

/-! ### what "fits" means -/

/-- every way the code wraps the transactions `envs` into one message — plain bundle,
    transaction challenge, full challenge with any snapshot of at most `cap` hashes — is built
    (no builder panic) and fits `M`, also after `buildRelayMessage` put its header in front -/
def Fits (M cap : Nat) (envs : List Nat) : Prop :=
  (∃ n, bundleMsg cap envs = some n ∧ ∃ r, relayMsg M n = some r ∧ r ≤ M) ∧
  (∃ n, challengeMsg cap envs = some n ∧ ∃ r, relayMsg M n = some r ∧ r ≤ M) ∧
  (∀ refs ntx, ntx ≤ cap → ∃ n, fullChallengeMsg cap refs ntx envs = some n ∧ ∃ r, relayMsg M n = some r ∧ r ≤ M)

theorem snapshotSize_le (refs sig : Bool) {ntx cap : Nat} (h : ntx ≤ cap) :
    snapshotSize refs sig ntx ≤ snapshotSize true true cap := by
  unfold snapshotSize; cases refs <;> cases sig <;> simp <;> omega

/-- core arithmetic: at most `cap` envelopes whose sizes sum to `S`, with room for the largest
    header, fit -/
theorem fits_of_sum {M cap : Nat} {envs : List Nat} (hl : envs.length ≤ cap)
    (hroom : envs.foldl (· + ·) 0 + 4 * cap + 1 + hdrMax cap + 65 ≤ M) : Fits M cap envs := by
  have hp : txsPayload cap envs = some (1 + sumEnv envs) := by
    unfold txsPayload; rw [if_neg (by omega)]
  have hs := sumEnv_eq envs
  have h4 : 4 * envs.length ≤ 4 * cap := by omega
  have hh : hdrMax cap = 1 + 4 + snapshotSize true true cap + 64 := rfl
  have hsnap0 : 72 ≤ snapshotSize true true cap := by unfold snapshotSize; simp; omega
  refine ⟨?_, ?_, ?_⟩
  · refine ⟨1 + (1 + sumEnv envs), by simp [bundleMsg, hp], 65 + (1 + (1 + sumEnv envs)), ?_, by omega⟩
    unfold relayMsg; rw [if_neg (by omega)]
  · refine ⟨105 + (1 + sumEnv envs), by simp [challengeMsg, hp], 65 + (105 + (1 + sumEnv envs)), ?_, by omega⟩
    unfold relayMsg; rw [if_neg (by omega)]
  · intro refs ntx hn
    have hsn := snapshotSize_le refs true hn
    refine ⟨1 + 4 + snapshotSize refs true ntx + 64 + (1 + sumEnv envs), by simp [fullChallengeMsg, hp],
      65 + (1 + 4 + snapshotSize refs true ntx + 64 + (1 + sumEnv envs)), ?_, by omega⟩
    unfold relayMsg; rw [if_neg (by omega)]

theorem one_le_cap : 1 ≤ snapTxMax := by decide

theorem not_send_reject {n M : Nat} (h1 : 1 ≤ n) (h2 : n ≤ M) : ¬ ((decide (n < 1) || decide (n > M)) = true) := by
  intro h
  rcases (Bool.or_eq_true _ _).mp h with h | h <;> simp only [decide_eq_true_eq] at h <;> omega

theorem envSum_sublist {l g : List QTx} (h : l.Sublist g) : envSum l ≤ envSum g :=
  sum_sublist (h.map _)

/-
  bundle_fits_partial — for EITHER accounting rule (so also for the code as it was found): a
  group the batcher sends together fits, provided its signed envelopes sum to less than the
  batching threshold.  What is missing for the unrepaired rule is exactly that hypothesis: the
  payload rule bounds the payload sum, not the envelope sum (see the counterexample below).
-/
theorem bundle_fits_partial (a : Acct) (txs g sub : List QTx)
    (hg : g ∈ groups a (threshold maxSize) snapTxMax txs) (hsub : sub.Sublist g)
    (henv : envSum g < threshold maxSize) : Fits maxSize snapTxMax (sub.map (·.env)) := by
  have hinv := run_inv a (threshold maxSize) (txs.take snapTxMax)
  have hlen : g.length ≤ snapTxMax := by
    unfold groups at hg
    rcases List.mem_append.mp hg with hg | hg
    · obtain ⟨t, _, e⟩ := hinv.single g hg; subst e; exact one_le_cap
    · split at hg
      · simp at hg
      · simp only [List.mem_cons, List.not_mem_nil, or_false] at hg; subst hg
        exact Nat.le_trans hinv.len (by simp [List.length_take]; omega)
  apply fits_of_sum
  · rw [List.length_map]; exact Nat.le_trans hsub.length_le hlen
  · have h1 : envSum sub ≤ envSum g := envSum_sublist hsub
    have h2 := batch_room
    unfold envSum at h1 henv; omega

/-- **bundle_fits** (full strength). For every list of queued transactions whose signed
    envelopes respect the admission cap (`unmarshalVersionedTransaction` rejects anything
    larger, and the cache queue only returns what it unmarshaled), every group of transactions
    one pass of the batcher sends together — and every sub-list of it (a challenge carries the
    transactions a peer still wants) — is built without panic by every builder and fits
    `TransportMessageMaxSize`, also when relayed. -/
theorem bundle_fits (txs g sub : List QTx) (hcap : ∀ t ∈ txs, t.env ≤ txMax)
    (hg : g ∈ popGroups txs) (hsub : sub.Sublist g) :
    Fits maxSize snapTxMax (sub.map (·.env)) := by
  have hinv := run_inv .envelope (threshold maxSize) (txs.take snapTxMax)
  have hg' := hg
  unfold popGroups groups at hg
  rcases List.mem_append.mp hg with hg | hg
  · -- sent alone: one admitted transaction
    obtain ⟨t, ht, e⟩ := hinv.single g hg
    subst e
    have hte : t.env ≤ txMax := hcap t (List.mem_of_mem_take ht)
    apply fits_of_sum
    · rw [List.length_map]; exact Nat.le_trans hsub.length_le one_le_cap
    · have h1 : envSum sub ≤ envSum [t] := envSum_sublist hsub
      have h2 := single_room
      have h3 : envSum [t] = t.env := by simp [envSum]
      unfold envSum at h1 h3; omega
  · split at hg
    · simp at hg
    · rename_i hne
      simp only [List.mem_cons, List.not_mem_nil, or_false] at hg
      have hne' : (run .envelope (threshold maxSize) (List.take snapTxMax txs)).batch ≠ [] := by
        intro h; rw [h] at hne; simp at hne
      have hlt := hinv.lt hne'
      refine bundle_fits_partial .envelope txs g sub hg' hsub ?_
      subst hg
      have he : acct Acct.envelope = (fun x : QTx => x.env) := by funext x; rfl
      unfold acctSum at hlt; rw [he] at hlt
      exact hlt

/-- the groups of one pass are never empty and never longer than the retrieval limit -/
theorem groups_bounded (a : Acct) (T cap : Nat) (txs g : List QTx) (hg : g ∈ groups a T cap txs) :
    g ≠ [] ∧ g.length ≤ max 1 cap := by
  have hinv := run_inv a T (txs.take cap)
  unfold groups at hg
  rcases List.mem_append.mp hg with hg | hg
  · obtain ⟨t, _, e⟩ := hinv.single g hg; subst e; simp; omega
  · split at hg
    · simp at hg
    · rename_i hne
      simp only [List.mem_cons, List.not_mem_nil, or_false] at hg; subst hg
      refine ⟨fun h => by rw [h] at hne; simp at hne, ?_⟩
      have := hinv.len; simp [List.length_take] at this; omega

/-! ### the defect of the payload rule, on the replayed batch -/

def mkTx (i p e : Nat) : QTx :=
  { id := i, payload := p, env := e, batchable := true, finalized := false, valid := true, elected := false }

/-- the batch replayed on the real code (sizes as measured there): six storage transactions and
    three transactions of 225 inputs × 256 signatures -/
def witness : List QTx :=
  [mkTx 0 4190377 4190445, mkTx 1 4190377 4190445, mkTx 2 4190377 4190445, mkTx 3 4190377 4190445,
   mkTx 4 4190377 4190445, mkTx 5 1380169 1380237, mkTx 6 9129 3811179, mkTx 7 9129 3811179,
   mkTx 8 9129 3811179]

/-- every witness transaction respects the admission cap -/
example : ∀ t ∈ witness, t.env ≤ 4194304 ∧ t.payload ≤ t.env := by decide

/-- the constants of the tree in which the defect was found and replayed (written out, so that
    a later retuning of the limits does not touch this historical witness) -/
def foundMax : Nat := 33554432
def foundCap : Nat := 255

/-- With the payload rule (the code as found) the nine transactions form ONE group whose plain
    bundle is 33 766 037 bytes — above `TransportMessageMaxSize` — and `buildRelayMessage`
    panics on it: the negation of `bundle_fits` for `Acct.payload`. -/
theorem bundle_fits_counterexample_unsigned :
    groups .payload (threshold foundMax) foundCap witness = [witness] ∧
    bundleMsg foundCap (witness.map (·.env)) = some 33766037 ∧
    foundMax < 33766037 ∧ relayMsg foundMax 33766037 = none ∧
    ¬ Fits foundMax foundCap (witness.map (·.env)) := by
  refine ⟨by decide, by decide, by decide, by decide, ?_⟩
  rintro ⟨⟨n, hn, r, hr, _⟩, _⟩
  have h1 : bundleMsg foundCap (witness.map (·.env)) = some 33766037 := by decide
  rw [h1] at hn; cases hn
  have h2 : relayMsg foundMax 33766037 = none := by decide
  rw [h2] at hr; cases hr

/-- the repaired rule splits the same queue: the six storage transactions are batched (22.3 MB),
    the three signature-heavy ones go alone -/
example : groups .envelope (threshold foundMax) foundCap witness =
    [[mkTx 6 9129 3811179], [mkTx 7 9129 3811179], [mkTx 8 9129 3811179], witness.take 6] := by decide

/-! ### snapshot-exchange messages -/

/-- announcement, commitment, response and finalization messages of a snapshot with at most
    `SnapshotTransactionsMaximum` hashes (and at most that many wanted transactions) fit,
    relayed or not — by construction, whatever the snapshot -/
theorem snapshot_msgs_fit (refs : Bool) (ntx nwant : Nat) (h1 : ntx ≤ snapTxMax) (h2 : nwant ≤ snapTxMax) :
    announcementMsg refs ntx + 65 ≤ maxSize ∧ commitmentMsg nwant + 65 ≤ maxSize ∧
    responseMsg + 65 ≤ maxSize ∧ finalizationMsg refs ntx + 65 ≤ maxSize := by
  have ha := snapshotSize_le refs false h1
  have hf := snapshotSize_le refs true h1
  have hroom := single_room
  have hh : hdrMax snapTxMax = 1 + 4 + snapshotSize true true snapTxMax + 64 := rfl
  have hs : snapshotSize true true snapTxMax = 72 + 64 + 64 + 32 * snapTxMax := by simp [snapshotSize]
  have hm : 32 * snapTxMax + 400 ≤ maxSize := by decide
  unfold announcementMsg commitmentMsg responseMsg finalizationMsg
  omega

example : announcementMsg true 255 = 8393 ∧ finalizationMsg true 255 = 8361 ∧ commitmentMsg 255 = 8289 := by decide

/-! ### framing -/

theorem be32_length (n : Nat) : (be32 n).length = 4 := rfl

theorem ofBe32_be32 (n : Nat) (h : n < 4294967296) :
    ofBe32 (n / 16777216 % 256).toUInt8 (n / 65536 % 256).toUInt8 (n / 256 % 256).toUInt8 (n % 256).toUInt8 = n := by
  unfold ofBe32
  have e : ∀ k, k < 256 → (Nat.toUInt8 k).toNat = k := fun k hk => by
    simp [Nat.toUInt8, UInt8.toNat_ofNat', Nat.mod_eq_of_lt hk]
  rw [e _ (Nat.mod_lt _ (by decide)), e _ (Nat.mod_lt _ (by decide)), e _ (Nat.mod_lt _ (by decide)),
    e _ (Nat.mod_lt _ (by decide))]
  omega

/-- **frame_roundtrip**: what `Send` writes for a message of 1..M bytes is read back by
    `receiveWithLimit` (any limit between the message size and M) as exactly that message,
    leaving what follows on the stream untouched. -/
theorem frame_roundtrip_gen (M ver limit : Nat) (d rest : List UInt8)
    (hM : M < 4294967296) (hv : ver < 256) (h1 : 1 ≤ d.length) (h2 : d.length ≤ limit) (h3 : limit ≤ M) :
    ∃ f, frame M ver d = some f ∧ f.length = 6 + d.length ∧
      receive M ver limit (f ++ rest) = .ok d rest := by
  have hf : frame M ver d = some (ver.toUInt8 :: 0 :: be32 d.length ++ d) := by
    unfold frame; rw [if_neg (not_send_reject h1 (by omega))]
  refine ⟨_, hf, by simp [be32_length]; omega, ?_⟩
  have hver : (Nat.toUInt8 ver).toNat = ver := by
    simp [Nat.toUInt8, UInt8.toNat_ofNat', Nat.mod_eq_of_lt hv]
  have hsz := ofBe32_be32 d.length (by omega)
  unfold receive receiveA
  rw [if_neg (by simp; omega)]
  simp only [be32, List.cons_append, List.nil_append]
  rw [if_neg (by simp [hver])]
  simp only [hsz]
  rw [if_neg (by omega), if_neg (by simp)]
  simp

theorem frame_roundtrip (d rest : List UInt8) (h1 : 1 ≤ d.length) (h2 : d.length ≤ maxSize) :
    ∃ f, frame maxSize frameVersion d = some f ∧ f.length = headerSize + d.length ∧
      receive maxSize frameVersion maxSize (f ++ rest) = .ok d rest := by
  rw [header_is_six]
  exact frame_roundtrip_gen maxSize frameVersion maxSize d rest max_fits_u32 version_fits_byte h1 h2 (Nat.le_refl _)

example : frame maxSize frameVersion [1, 2, 3] = some [2, 0, 0, 0, 0, 3, 1, 2, 3] := by decide
example : receive maxSize frameVersion maxSize [2, 9, 0, 0, 0, 3, 1, 2, 3, 4] = .ok [1, 2, 3] [4] := by decide

/-- `Send` refuses exactly the empty message and messages above the maximum, writing nothing -/
theorem send_rejects_oversize (M ver : Nat) (d : List UInt8) :
    frame M ver d = none ↔ (d.length = 0 ∨ d.length > M) := by
  unfold frame
  constructor
  · intro h
    by_cases hc : (decide (d.length < 1) || decide (d.length > M)) = true
    · rcases (Bool.or_eq_true _ _).mp hc with h' | h' <;> simp only [decide_eq_true_eq] at h' <;> omega
    · rw [if_neg hc] at h; cases h
  · intro h
    rw [if_pos]
    rcases h with h | h
    · simp [h]
    · simp [h]

theorem sendAccepts_iff (M ver : Nat) (d : List UInt8) :
    sendAccepts M d.length = true ↔ (frame M ver d).isSome = true := by
  unfold sendAccepts frame
  by_cases h : (d.length < 1 || d.length > M) = true
  · simp [h]
  · simp [h]

/-- **oversize_rejected_before_alloc**: whatever is on the stream, every buffer
    `receiveWithLimit` makes is the 6-byte header or at most `limit ≤ M` bytes; and a header
    that announces more than `limit` is rejected with only the header buffer made. -/
theorem oversize_rejected_before_alloc (M ver limit : Nat) (s : List UInt8) :
    (∀ n ∈ (receiveA M ver limit s).2, n = 6 ∨ (n ≤ limit ∧ limit ≤ M)) ∧
    (∀ v x a b c d rest, s = v :: x :: a :: b :: c :: d :: rest → ofBe32 a b c d > limit →
      (∃ r, (receiveA M ver limit s).1 = r ∧ (∀ dd rr, r ≠ .ok dd rr)) ∧
      (∀ n ∈ (receiveA M ver limit s).2, n = 6)) := by
  constructor
  · intro n hn
    unfold receiveA at hn
    split at hn
    · simp at hn
    · rename_i hl
      have hl' : ¬ limit = 0 ∧ limit ≤ M := by simpa using hl
      split at hn
      · split at hn
        · simp at hn; exact Or.inl hn
        · split at hn
          · simp at hn; exact Or.inl hn
          · split at hn <;>
            · simp at hn
              rcases hn with hn | hn
              · exact Or.inl hn
              · exact Or.inr ⟨by omega, hl'.2⟩
      · simp at hn; exact Or.inl hn
  · intro v x a b c d rest hs hbig
    subst hs
    unfold receiveA
    split
    · exact ⟨⟨_, rfl, by intros; simp⟩, by simp⟩
    · simp only
      split
      · exact ⟨⟨_, rfl, by intros; simp⟩, by simp⟩
      · exact ⟨⟨_, rfl, by intros; simp⟩, by simp⟩

/-- what is accepted respects the caller's limit, and limits above the maximum are refused -/
theorem receive_ok_le_limit (M ver limit : Nat) (s d rest : List UInt8)
    (h : receive M ver limit s = .ok d rest) : d.length ≤ limit ∧ 0 < limit ∧ limit ≤ M ∧ s.length = 6 + d.length + rest.length := by
  unfold receive receiveA at h
  split at h
  · simp at h
  · rename_i hl
    have hl' : ¬ limit = 0 ∧ limit ≤ M := by simpa using hl
    split at h
    · split at h
      · simp at h
      · split at h
        · simp at h
        · split at h
          · simp at h
          · rename_i hsz hshort
            simp only [Recv.ok.injEq] at h
            obtain ⟨h1, h2⟩ := h
            subst h1; subst h2
            simp [List.length_take, List.length_drop]
            omega
    · simp at h

example : receive maxSize frameVersion 2 [2, 0, 0, 0, 0, 3, 1, 2, 3] = .tooLarge 3 := by decide
example : (receiveA maxSize frameVersion maxSize (2 :: 0 :: be32 4294967295)).2 = [6] := by decide

end Mixin.C31
