import Mixin.Facts.ExpectedC32
import Mixin.Model.Base58
import Mixin.Model.Keys
import Mixin.Proofs.Base58
import Mathlib.Algebra.Module.Basic
import Mathlib.Data.ZMod.Basic
/-!
# C32 — one-time keys and addresses round-trip correctly
-/
namespace Mixin.C32
open Mixin.Proto Mixin.Keys

/-! ## (a) ghost keys: algebra over an arbitrary module over the scalar ring

`G` is any additive commutative group on which the scalars `ZMod ℓ` act (edwards25519's
prime-order subgroup with `ℓ = ell` is one instance), `g` any point (the base point),
`Hs` any function of (shared point, output index) — the real `HashScalar`. -/

section Ghost
variable {ℓ : ℕ} {G : Type} [AddCommGroup G] [Module (ZMod ℓ) G] {I : Type}

/-- `DeriveGhostPublicKey(r, A, B, i) = B + Hs(r•A, i)•G` -/
def derivePub (g : G) (Hs : G → I → ZMod ℓ) (r : ZMod ℓ) (A Bv : G) (i : I) : G := Bv + Hs (r • A) i • g
/-- `DeriveGhostPrivateKey(R, a, b, i) = Hs(a•R, i) + b` -/
def derivePriv (Hs : G → I → ZMod ℓ) (R : G) (a b : ZMod ℓ) (i : I) : ZMod ℓ := Hs (a • R) i + b
/-- `ViewGhostOutputKey(P, a, R, i) = P − Hs(a•R, i)•G` -/
def viewOut (g : G) (Hs : G → I → ZMod ℓ) (P : G) (a : ZMod ℓ) (R : G) (i : I) : G := P - Hs (a • R) i • g

/-- The public key of the private key the recipient derives is the one-time public key the
    sender derived — for every address (a, b), mask r and output index i. -/
theorem ghost_key_agree (g : G) (Hs : G → I → ZMod ℓ) (a b r : ZMod ℓ) (i : I) :
    derivePriv Hs (r • g) a b i • g = derivePub g Hs r (a • g) (b • g) i := by
  unfold derivePriv derivePub
  rw [add_smul, smul_comm a r g, add_comm]

/-- Viewing with the private view key recovers the recipient's public spend key. -/
theorem view_recovers_spend (g : G) (Hs : G → I → ZMod ℓ) (a r : ZMod ℓ) (Bv : G) (i : I) :
    viewOut g Hs (derivePub g Hs r (a • g) Bv i) a (r • g) i = Bv := by
  unfold viewOut derivePub
  rw [smul_comm a r g, add_sub_cancel_right]

/-! `Transaction.ViewGhostKey`: the outputs of a transaction are built one after the other
(`AddOutputWithType` derives the ghost keys of output number `i` with index `i`); the viewer walks
over all outputs and views each *script* output with its position in the whole output list. -/

/-- an output as the sender specifies it: script type?, mask scalar, recipients' public spend keys -/
structure TxOut (ℓ : ℕ) (G : Type) where
  script : Bool
  r : ZMod ℓ
  spends : List G

/-- `AddOutputWithType` for outputs number `i, i+1, …`: (script?, mask `r•g`, ghost keys) -/
def txAsBuilt (g : G) (Hs : G → ℕ → ZMod ℓ) (a : ZMod ℓ) : ℕ → List (TxOut ℓ G) → List (Bool × G × List G)
  | _, [] => []
  | i, o :: rest =>
    (o.script, o.r • g, o.spends.map (fun B => derivePub g Hs o.r (a • g) B i)) :: txAsBuilt g Hs a (i + 1) rest

/-- `Transaction.ViewGhostKey(a)` from output number `i` on -/
def viewTxFrom (g : G) (Hs : G → ℕ → ZMod ℓ) (a : ZMod ℓ) : ℕ → List (Bool × G × List G) → List (List G)
  | _, [] => []
  | i, (sc, R, keys) :: rest =>
    if sc then keys.map (fun P => viewOut g Hs P a R i) :: viewTxFrom g Hs a (i + 1) rest
    else viewTxFrom g Hs a (i + 1) rest

/-- Viewing a transaction recovers, script output by script output, exactly the recipients' public
    spend keys — for every output list, whatever other outputs stand before or between them. -/
theorem view_tx_recovers_spend (g : G) (Hs : G → ℕ → ZMod ℓ) (a : ZMod ℓ) :
    ∀ (outs : List (TxOut ℓ G)) (i : ℕ),
      viewTxFrom g Hs a i (txAsBuilt g Hs a i outs) = (outs.filter (·.script)).map (·.spends)
  | [], _ => rfl
  | o :: rest, i => by
    have ih := view_tx_recovers_spend g Hs a rest (i + 1)
    have hk : (o.spends.map (fun B => derivePub g Hs o.r (a • g) B i)).map
        (fun P => viewOut g Hs P a (o.r • g) i) = o.spends := by
      rw [List.map_map]
      conv_rhs => rw [← List.map_id o.spends]
      apply List.map_congr_left
      intro B _
      exact view_recovers_spend g Hs a o.r B i
    cases hs : o.script with
    | true => simp [txAsBuilt, viewTxFrom, hs, hk, ih]
    | false => simp [txAsBuilt, viewTxFrom, hs, ih]

end Ghost

/-! The executable model works with discrete logarithms modulo `ell`; its operations are the
abstract ones read in `ZMod ell` (a point `x • g` is represented by `x`). -/

theorem derivePubDl_cast (bv hs : ℕ) : ((derivePubDl bv hs : ℕ) : ZMod ell) = (bv : ZMod ell) + hs := by
  simp [derivePubDl, ZMod.natCast_mod]

theorem derivePrivDl_cast (hs b : ℕ) : ((derivePrivDl hs b : ℕ) : ZMod ell) = (hs : ZMod ell) + b := by
  simp [derivePrivDl, ZMod.natCast_mod]

theorem viewOutDl_cast (p hs : ℕ) : ((viewOutDl p hs : ℕ) : ZMod ell) = (p : ZMod ell) - hs := by
  have hle : hs % ell ≤ ell := Nat.le_of_lt (Nat.mod_lt _ (by decide))
  simp [viewOutDl, ZMod.natCast_mod, Nat.cast_sub hle, ZMod.natCast_self]
  ring

/-- the model's own agreement: same hash ⇒ same discrete log -/
theorem ghost_dl_agree (hs b : ℕ) : derivePrivDl hs b = derivePubDl b hs := by
  simp [derivePrivDl, derivePubDl, Nat.add_comm]

example : derivePub? 5 7 11 = some 18 ∧ derivePriv? 3 11 7 = some 18 ∧ viewOut? 18 3 11 = some 7 := by decide
-- the executable counterpart: the second output (index 1) is viewed with the hash of index 1
example : viewTx (fun m i => if m = 1 ∧ i = 1 then some 11 else none) [⟨false, 0, [5]⟩, ⟨true, 1, [18]⟩] = some [[7]] := by decide
example : derivePub? 0 7 11 = none ∧ derivePriv? 0 11 7 = none := by decide


/-! ## (b) base58 -/

open Mixin.Base58

/-- the strings `base58.Decode` does not answer with the empty byte string for: every byte is
    in the alphabet (`b58[c] ≠ 255`) -/
abbrev Valid := Mixin.Base58.Valid

/-- `Decode` evaluates its input exactly when every byte is in the alphabet … -/
theorem base58_accepts_iff (s : Bytes) : (decode? s).isSome ↔ Valid s := by
  by_cases h : Valid s
  · simp [decode?_eq_conv s h, h]
  · simp [decode?_none s h, h]

/-- … and answers the empty byte string otherwise. -/
theorem base58_decode_invalid (s : Bytes) (h : ¬ Valid s) : decode s = [] := by
  simp [decode, decode?_none s h]

/-- The ten-characters-at-a-time loop of `Decode` is plain positional evaluation in base 58. -/
theorem decode_chunked_eq (s : Bytes) (h : Valid s) :
    decodeLoop s.length s 0 = some (ofBE 58 (s.map b58)) :=
  decodeLoop_eq _ _ _ (Nat.le_refl _) h

/-- `Decode` ranges over the runes of each ten-byte chunk (UTF-8 decoding, `v > 255` guard,
    `b58[v]` lookup); on every byte string that is the same as looking each *byte* up in the
    table: a non-ASCII byte always ends in the early return. -/
theorem decode_runes_eq_bytes (total : Nat) (chunk : Bytes) :
    chunkRunes chunk.length total chunk = chunkTotal total chunk :=
  chunkRunes_eq _ _ _ (Nat.le_refl _)

-- U+0141 (c5 81) has low byte 0x41 = 'A', a wide rune cut by a chunk end, a lone lead byte
example : decode [50, 0xc5, 0x81, 51] = [] ∧ decode [0xc5] = [] ∧ decode [50, 0xe2, 0x82] = [] := by decide
example : decodeRune 0xc5 [0x81] = (0x141, 2) ∧ decodeRune 0xe2 [0x82, 0xac] = (0x20ac, 3) ∧
    decodeRune 0xc0 [0x80] = (0xFFFD, 1) ∧ decodeRune 0xed [0xa0, 0x80] = (0xFFFD, 1) := by decide

/-- The `58^10`-at-a-time loop of `Encode` is plain repeated division by 58. -/
theorem encode_chunked_eq (x : Nat) : encodeLoop x x = (digitsLE 58 x).map alpha := by
  rw [encodeLoop_eq _ _ (Nat.le_refl _), digitsLE_eq (by decide)]

/-- `Decode(Encode(b)) = b` for every byte string. -/
theorem base58_decode_encode (bs : Bytes) : decode (encode bs) = bs := by
  have hlt := conv_lt (b1 := 256) (b2 := 58) (by decide) (bs.map UInt8.toNat)
  rw [encode_eq_conv]
  unfold decode
  rw [decode?_eq_conv _ (valid_map_alpha _ hlt), map_b58_alpha _ hlt]
  simp only [Option.getD_some]
  rw [conv_roundtrip (by decide) (by decide) _ (map_toNat_lt bs), map_toUInt8_toNat]

/-- `Encode(Decode(s)) = s` for every string over the alphabet. -/
theorem base58_encode_decode (s : Bytes) (h : Valid s) : encode (decode s) = s := by
  have hlt := conv_lt (b1 := 58) (b2 := 256) (by decide) (s.map b58)
  unfold decode
  rw [decode?_eq_conv s h]
  simp only [Option.getD_some]
  rw [encode_eq_conv, map_toNat_toUInt8 _ hlt, conv_roundtrip (by decide) (by decide) _ (map_b58_lt s h),
    map_alpha_b58 s h]

theorem encode_valid (bs : Bytes) : Valid (encode bs) := by
  rw [encode_eq_conv]
  exact valid_map_alpha _ (conv_lt (by decide) _)

example : Valid [49, 50, 122] := by
  show ∀ c ∈ [49, 50, 122], b58 c ≠ 255
  decide
example : ¬ Valid [49, 48] := by
  show ¬ ∀ c ∈ [49, 48], b58 c ≠ 255
  decide
example : encode [0, 0, 1, 2] = [49, 49, 53, 84] ∧ decode [49, 49, 53, 84] = [0, 0, 1, 2] := by decide
example : decode [49, 48, 50] = [] := by decide


/-! ## (c) hex forms of Key / Hash / Signature / CosiSignature -/

theorem fromHexChar_hexDigit : ∀ n, n < 16 → fromHexChar (hexDigit n) = some n := by decide

theorem byte_split (x : UInt8) : ((x.toNat / 16) * 16 + x.toNat % 16).toUInt8 = x := by
  have : x.toNat / 16 * 16 + x.toNat % 16 = x.toNat := by omega
  rw [this]; simp

theorem hexDecode_encode_append : ∀ (b t : Bytes),
    hexDecode (hexEncode b ++ t) = (hexDecode t).map (b ++ ·)
  | [], t => by simp [hexEncode]
  | x :: r, t => by
    have hx := UInt8.toNat_lt_size x
    have h1 : x.toNat / 16 < 16 := by
      have : x.toNat < 256 := hx
      omega
    have h2 : x.toNat % 16 < 16 := Nat.mod_lt _ (by decide)
    simp only [hexEncode, List.cons_append, hexDecode, fromHexChar_hexDigit _ h1, fromHexChar_hexDigit _ h2,
      hexDecode_encode_append r t, byte_split]
    cases hexDecode t <;> simp

/-- `hex.DecodeString(hex.EncodeToString(b)) = b` -/
theorem hex_decode_encode (b : Bytes) : hexDecode (hexEncode b) = some b := by
  have := hexDecode_encode_append b []
  simpa [hexDecode] using this

/-- Printing then parsing a key or hash (n = 32) or a signature (n = 64) gives the value back. -/
theorem hex_print_parse (n : Nat) (b : Bytes) (h : b.length = n) : fixedParse n (hexEncode b) = some b := by
  simp [fixedParse, hex_decode_encode, h]

theorem key_print_parse (k : Bytes) (h : k.length = 32) : fixedParse 32 (hexEncode k) = some k :=
  hex_print_parse 32 k h

theorem signature_print_parse (sg : Bytes) (h : sg.length = 64) : fixedParse 64 (hexEncode sg) = some sg :=
  hex_print_parse 64 sg h

theorem hexEncode_length : ∀ b : Bytes, (hexEncode b).length = 2 * b.length
  | [] => rfl
  | _ :: r => by simp [hexEncode, hexEncode_length r]; omega

theorem hexVal_digits : ∀ (ds : List Nat) (acc : Nat), (∀ d ∈ ds, d < 16) →
    hexVal acc (ds.map hexDigit) = some (ds.foldl (fun a d => a * 16 + d) acc)
  | [], _, _ => rfl
  | d :: r, acc, h => by
    simp only [List.map_cons, Keys.hexVal, fromHexChar_hexDigit d (h d (by simp)), List.foldl_cons]
    exact hexVal_digits r _ (fun x hx => h x (by simp [hx]))

theorem hexDecode_digits : ∀ (k : Nat) (ds : List Nat), ds.length = 2 * k → (∀ d ∈ ds, d < 16) →
    ∃ out, hexDecode (ds.map hexDigit) = some out ∧ out.length = k
  | 0, ds, hl, _ => by
    have : ds = [] := List.length_eq_zero_iff.mp (by omega)
    subst this; exact ⟨[], rfl, rfl⟩
  | k + 1, [], hl, _ => by simp at hl
  | k + 1, [_], hl, _ => by simp at hl; omega
  | k + 1, a :: b :: r, hl, h => by
    obtain ⟨out, ho, hlen⟩ := hexDecode_digits k r (by simp at hl; omega) (fun x hx => h x (by simp [hx]))
    refine ⟨(a * 16 + b).toUInt8 :: out, ?_, ?_⟩
    · simp only [List.map_cons, hexDecode, fromHexChar_hexDigit a (h a (by simp)),
        fromHexChar_hexDigit b (h b (by simp)), ho]
    · simp [hlen]

/-- `fmt016x` is 16 hex digits: zero padding followed by the base-16 digits -/
theorem fmt016x_eq (m : Nat) (hm : m < 2 ^ 64) :
    ∃ ds : List Nat, fmt016x m = ds.map hexDigit ∧ ds.length = 16 ∧ (∀ d ∈ ds, d < 16) ∧ ofBE 16 ds = m := by
  have hlen : (Nat.digits 16 m).length ≤ 16 := (Nat.digits_length_le_iff (by decide) m).mpr (by simpa using hm)
  refine ⟨List.replicate (16 - (Nat.digits 16 m).length) 0 ++ (Nat.digits 16 m).reverse, ?_, ?_, ?_, ?_⟩
  · unfold fmt016x
    rw [digitsLE_eq (by decide)]
    simp only [List.length_map, List.length_reverse, List.map_append, List.map_replicate]
    rfl
  · simp only [List.length_append, List.length_replicate, List.length_reverse]; omega
  · intro d hd
    rw [List.mem_append] at hd
    rcases hd with hd | hd
    · rw [List.mem_replicate] at hd; omega
    · exact Nat.digits_lt_base (by decide) (List.mem_reverse.mp hd)
  · rw [ofBE_zeros, ofBE_digits]

/-- Printing then parsing a collective signature (64-byte signature, 64-bit mask) gives it back. -/
theorem cosi_print_parse (sg : Bytes) (mask : Nat) (hs : sg.length = 64) (hm : mask < 2 ^ 64) :
    cosiParse (cosiPrint sg mask) = some (sg, mask) := by
  obtain ⟨ds, hfmt, hdl, hdlt, hval⟩ := fmt016x_eq mask hm
  obtain ⟨tail, htail, htl⟩ := hexDecode_digits 8 ds (by omega) hdlt
  have hdrop : (hexEncode sg ++ fmt016x mask).drop (64 * 2) = fmt016x mask := by
    apply List.drop_left'
    rw [hexEncode_length, hs]
  have hne : fmt016x mask ≠ [] := by
    intro e
    have : (fmt016x mask).length = 16 := by rw [hfmt, List.length_map, hdl]
    rw [e] at this; simp at this
  have hpu : parseUintHex (fmt016x mask) = some mask := by
    unfold parseUintHex
    rw [if_neg hne, hfmt, hexVal_digits ds 0 hdlt]
    have : ds.foldl (fun a d => a * 16 + d) 0 = mask := hval
    rw [this]
    have hm' : mask < 2 ^ 64 := hm
    simp only [hm', if_true]
  unfold cosiParse cosiPrint
  rw [hexDecode_encode_append, hdrop, hpu, hfmt, htail]
  simp [hs, htl, List.take_left' hs]

example : cosiParse (cosiPrint (List.replicate 64 0xab) 0x1f) = some (List.replicate 64 0xab, 0x1f) := by decide
example : fixedParse 32 (hexEncode (List.replicate 32 7)) = some (List.replicate 32 7) := by decide
-- the parsers also accept upper-case digits, which do not print back identically
example : fixedParse 1 [65, 66] = some [0xab] ∧ hexEncode [0xab] = [97, 98] := by decide


/-! ## (c) addresses

`H` is the checksum hash (`crypto.Sha256Hash`, 32 bytes of output, otherwise arbitrary),
`ck` is `Key.CheckKey`. Only the two public keys travel through the text form; the private
keys of a parsed address are zero. -/

/-- Printing an address whose public keys pass `CheckKey` and parsing the text gives the keys back. -/
theorem address_print_parse (H : Bytes → Bytes) (ck : Bytes → Bool) (spend view : Bytes)
    (hH : ∀ m, (H m).length = 32) (hs : spend.length = 32) (hv : view.length = 32)
    (hcs : ck spend = true) (hcv : ck view = true) :
    addrParse H ck (addrPrint H spend view) = some (spend, view) := by
  have hck : ((H (prefixXIN ++ spend ++ view)).take 4).length = 4 := by
    rw [List.length_take, hH]; rfl
  have hsv : (spend ++ view).length = 64 := by rw [List.length_append, hs, hv]
  unfold addrParse addrPrint
  simp only []
  have h3 : (prefixXIN ++ encode (spend ++ view ++ (H (prefixXIN ++ spend ++ view)).take 4)).take 3 = prefixXIN :=
    List.take_left' rfl
  have hd : (prefixXIN ++ encode (spend ++ view ++ (H (prefixXIN ++ spend ++ view)).take 4)).drop 3 =
      encode (spend ++ view ++ (H (prefixXIN ++ spend ++ view)).take 4) := List.drop_left' rfl
  rw [h3, hd, base58_decode_encode]
  have hlen : (spend ++ view ++ (H (prefixXIN ++ spend ++ view)).take 4).length = 68 := by
    rw [List.length_append, hsv, hck]
  have ht64 : (spend ++ view ++ (H (prefixXIN ++ spend ++ view)).take 4).take 64 = spend ++ view :=
    List.take_left' hsv
  have hd64 : (spend ++ view ++ (H (prefixXIN ++ spend ++ view)).take 4).drop 64 =
      (H (prefixXIN ++ spend ++ view)).take 4 := List.drop_left' hsv
  have ht32 : (spend ++ view ++ (H (prefixXIN ++ spend ++ view)).take 4).take 32 = spend := by
    rw [List.append_assoc]; exact List.take_left' hs
  have hd32 : ((spend ++ view ++ (H (prefixXIN ++ spend ++ view)).take 4).drop 32).take 32 = view := by
    rw [List.append_assoc, List.drop_left' hs]; exact List.take_left' hv
  rw [hlen, ht64, hd64, ht32, hd32]
  simp [hcs, hcv, List.append_assoc]

/-- Every address string the parser accepts prints back identically: there is no second
    accepted spelling (extra leading characters, other case, other checksum position). -/
theorem address_parse_print (H : Bytes → Bytes) (ck : Bytes → Bool) (s spend view : Bytes)
    (h : addrParse H ck s = some (spend, view)) : addrPrint H spend view = s := by
  unfold addrParse at h
  simp only [] at h
  split_ifs at h with hp hl hc hks hkv
  simp only [Option.some.injEq, Prod.mk.injEq] at h
  obtain ⟨hsp, hvw⟩ := h
  simp only [Decidable.not_not] at hp hl hc
  -- the remainder is over the alphabet, otherwise `Decode` would have answered ""
  have hvalid : Valid (s.drop 3) := by
    by_contra hn
    rw [base58_decode_invalid _ hn] at hl
    simp at hl
  have henc := base58_encode_decode _ hvalid
  have hsv : spend ++ view = (decode (s.drop 3)).take 64 := by
    rw [← hsp, ← hvw, show (64 : Nat) = 32 + 32 from rfl, List.take_add]
  unfold addrPrint
  simp only []
  rw [List.append_assoc prefixXIN, hsv, hc, List.take_append_drop, henc, ← hp, List.take_append_drop]

/-- The text form determines the two public keys (used by C34, where the Go code compares
    address strings). -/
theorem address_print_injective (H : Bytes → Bytes) (a b a' b' : Bytes)
    (ha : a.length = 32) (hb : b.length = 32) (ha' : a'.length = 32) (hb' : b'.length = 32)
    (h : addrPrint H a b = addrPrint H a' b') : a = a' ∧ b = b' := by
  unfold addrPrint at h
  simp only [] at h
  have h1 := List.append_cancel_left h
  have h2 := congrArg decode h1
  rw [base58_decode_encode, base58_decode_encode] at h2
  simp only [List.append_assoc] at h2
  have h3 := List.append_inj h2 (by rw [ha, ha'])
  have h4 := List.append_inj h3.2 (by rw [hb, hb'])
  exact ⟨h3.1, h4.1⟩

example : addrParse (fun _ => List.replicate 32 9) (fun _ => true)
    (addrPrint (fun _ => List.replicate 32 9) (List.replicate 32 1) (List.replicate 32 2)) =
      some (List.replicate 32 1, List.replicate 32 2) :=
  address_print_parse _ _ _ _ (fun _ => rfl) rfl rfl rfl rfl

end Mixin.C32
