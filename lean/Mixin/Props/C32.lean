import Mixin.Model.Base58
import Mixin.Model.Keys
import Mixin.Proofs.Base58
import Mathlib.Algebra.Module.Basic
import Mathlib.Data.ZMod.Basic
/-!
# C32 — one-time keys and addresses round-trip correctly
-/
namespace Mixin.C32
open Mixin.Proto Mixin.Keys

/-! ## (a) ghost keys: algebra over an arbitrary module over the scalar ring

`G` is any additive commutative group on which the scalars `ZMod ℓ` act (edwards25519's
prime-order subgroup with `ℓ = ell` is one instance), `g` any point (the base point),
`Hs` any function of (shared point, output index) — the real `HashScalar`. -/

section Ghost
variable {ℓ : ℕ} {G : Type} [AddCommGroup G] [Module (ZMod ℓ) G] {I : Type}

/-- `DeriveGhostPublicKey(r, A, B, i) = B + Hs(r•A, i)•G` -/
def derivePub (g : G) (Hs : G → I → ZMod ℓ) (r : ZMod ℓ) (A Bv : G) (i : I) : G := Bv + Hs (r • A) i • g
/-- `DeriveGhostPrivateKey(R, a, b, i) = Hs(a•R, i) + b` -/
def derivePriv (Hs : G → I → ZMod ℓ) (R : G) (a b : ZMod ℓ) (i : I) : ZMod ℓ := Hs (a • R) i + b
/-- `ViewGhostOutputKey(P, a, R, i) = P − Hs(a•R, i)•G` -/
def viewOut (g : G) (Hs : G → I → ZMod ℓ) (P : G) (a : ZMod ℓ) (R : G) (i : I) : G := P - Hs (a • R) i • g

/-- The public key of the private key the recipient derives is the one-time public key the
    sender derived — for every address (a, b), mask r and output index i. -/
theorem ghost_key_agree (g : G) (Hs : G → I → ZMod ℓ) (a b r : ZMod ℓ) (i : I) :
    derivePriv Hs (r • g) a b i • g = derivePub g Hs r (a • g) (b • g) i := by
  unfold derivePriv derivePub
  rw [add_smul, smul_comm a r g, add_comm]

/-- Viewing with the private view key recovers the recipient's public spend key. -/
theorem view_recovers_spend (g : G) (Hs : G → I → ZMod ℓ) (a r : ZMod ℓ) (Bv : G) (i : I) :
    viewOut g Hs (derivePub g Hs r (a • g) Bv i) a (r • g) i = Bv := by
  unfold viewOut derivePub
  rw [smul_comm a r g, add_sub_cancel_right]

end Ghost

/-! The executable model works with discrete logarithms modulo `ell`; its operations are the
abstract ones read in `ZMod ell` (a point `x • g` is represented by `x`). -/

theorem derivePubDl_cast (bv hs : ℕ) : ((derivePubDl bv hs : ℕ) : ZMod ell) = (bv : ZMod ell) + hs := by
  simp [derivePubDl, ZMod.natCast_mod]

theorem derivePrivDl_cast (hs b : ℕ) : ((derivePrivDl hs b : ℕ) : ZMod ell) = (hs : ZMod ell) + b := by
  simp [derivePrivDl, ZMod.natCast_mod]

theorem viewOutDl_cast (p hs : ℕ) : ((viewOutDl p hs : ℕ) : ZMod ell) = (p : ZMod ell) - hs := by
  have hle : hs % ell ≤ ell := Nat.le_of_lt (Nat.mod_lt _ (by decide))
  simp [viewOutDl, ZMod.natCast_mod, Nat.cast_sub hle, ZMod.natCast_self]
  ring

/-- the model's own agreement: same hash ⇒ same discrete log -/
theorem ghost_dl_agree (hs b : ℕ) : derivePrivDl hs b = derivePubDl b hs := by
  simp [derivePrivDl, derivePubDl, Nat.add_comm]

example : derivePub? 5 7 11 = some 18 ∧ derivePriv? 3 11 7 = some 18 ∧ viewOut? 18 3 11 = some 7 := by decide
example : derivePub? 0 7 11 = none ∧ derivePriv? 0 11 7 = none := by decide


/-! ## (b) base58 -/

open Mixin.Base58

/-- the strings `base58.Decode` does not answer with the empty byte string for: every byte is
    in the alphabet (`b58[c] ≠ 255`) -/
abbrev Valid := Mixin.Base58.Valid

/-- `Decode` evaluates its input exactly when every byte is in the alphabet … -/
theorem base58_accepts_iff (s : Bytes) : (decode? s).isSome ↔ Valid s := by
  by_cases h : Valid s
  · simp [decode?_eq_conv s h, h]
  · simp [decode?_none s h, h]

/-- … and answers the empty byte string otherwise. -/
theorem base58_decode_invalid (s : Bytes) (h : ¬ Valid s) : decode s = [] := by
  simp [decode, decode?_none s h]

/-- The ten-characters-at-a-time loop of `Decode` is plain positional evaluation in base 58. -/
theorem decode_chunked_eq (s : Bytes) (h : Valid s) :
    decodeLoop s.length s 0 = some (ofBE 58 (s.map b58)) :=
  decodeLoop_eq _ _ _ (Nat.le_refl _) h

/-- The `58^10`-at-a-time loop of `Encode` is plain repeated division by 58. -/
theorem encode_chunked_eq (x : Nat) : encodeLoop x x = (digitsLE 58 x).map alpha := by
  rw [encodeLoop_eq _ _ (Nat.le_refl _), digitsLE_eq (by decide)]

/-- `Decode(Encode(b)) = b` for every byte string. -/
theorem base58_decode_encode (bs : Bytes) : decode (encode bs) = bs := by
  have hlt := conv_lt (b1 := 256) (b2 := 58) (by decide) (bs.map UInt8.toNat)
  rw [encode_eq_conv]
  unfold decode
  rw [decode?_eq_conv _ (valid_map_alpha _ hlt), map_b58_alpha _ hlt]
  simp only [Option.getD_some]
  rw [conv_roundtrip (by decide) (by decide) _ (map_toNat_lt bs), map_toUInt8_toNat]

/-- `Encode(Decode(s)) = s` for every string over the alphabet. -/
theorem base58_encode_decode (s : Bytes) (h : Valid s) : encode (decode s) = s := by
  have hlt := conv_lt (b1 := 58) (b2 := 256) (by decide) (s.map b58)
  unfold decode
  rw [decode?_eq_conv s h]
  simp only [Option.getD_some]
  rw [encode_eq_conv, map_toNat_toUInt8 _ hlt, conv_roundtrip (by decide) (by decide) _ (map_b58_lt s h),
    map_alpha_b58 s h]

theorem encode_valid (bs : Bytes) : Valid (encode bs) := by
  rw [encode_eq_conv]
  exact valid_map_alpha _ (conv_lt (by decide) _)

example : Valid [49, 50, 122] := by
  show ∀ c ∈ [49, 50, 122], b58 c ≠ 255
  decide
example : ¬ Valid [49, 48] := by
  show ¬ ∀ c ∈ [49, 48], b58 c ≠ 255
  decide
example : encode [0, 0, 1, 2] = [49, 49, 53, 84] ∧ decode [49, 49, 53, 84] = [0, 0, 1, 2] := by decide
example : decode [49, 48, 50] = [] := by decide

end Mixin.C32
