import Mixin.Model.Base58
import Mixin.Model.Keys
import Mathlib.Algebra.Module.Basic
import Mathlib.Data.ZMod.Basic
/-!
# C32 — one-time keys and addresses round-trip correctly
-/
namespace Mixin.C32
open Mixin.Proto Mixin.Keys

/-! ## (a) ghost keys: algebra over an arbitrary module over the scalar ring

`G` is any additive commutative group on which the scalars `ZMod ℓ` act (edwards25519's
prime-order subgroup with `ℓ = ell` is one instance), `g` any point (the base point),
`Hs` any function of (shared point, output index) — the real `HashScalar`. -/

section Ghost
variable {ℓ : ℕ} {G : Type} [AddCommGroup G] [Module (ZMod ℓ) G] {I : Type}

/-- `DeriveGhostPublicKey(r, A, B, i) = B + Hs(r•A, i)•G` -/
def derivePub (g : G) (Hs : G → I → ZMod ℓ) (r : ZMod ℓ) (A Bv : G) (i : I) : G := Bv + Hs (r • A) i • g
/-- `DeriveGhostPrivateKey(R, a, b, i) = Hs(a•R, i) + b` -/
def derivePriv (Hs : G → I → ZMod ℓ) (R : G) (a b : ZMod ℓ) (i : I) : ZMod ℓ := Hs (a • R) i + b
/-- `ViewGhostOutputKey(P, a, R, i) = P − Hs(a•R, i)•G` -/
def viewOut (g : G) (Hs : G → I → ZMod ℓ) (P : G) (a : ZMod ℓ) (R : G) (i : I) : G := P - Hs (a • R) i • g

/-- The public key of the private key the recipient derives is the one-time public key the
    sender derived — for every address (a, b), mask r and output index i. -/
theorem ghost_key_agree (g : G) (Hs : G → I → ZMod ℓ) (a b r : ZMod ℓ) (i : I) :
    derivePriv Hs (r • g) a b i • g = derivePub g Hs r (a • g) (b • g) i := by
  unfold derivePriv derivePub
  rw [add_smul, smul_comm a r g, add_comm]

/-- Viewing with the private view key recovers the recipient's public spend key. -/
theorem view_recovers_spend (g : G) (Hs : G → I → ZMod ℓ) (a r : ZMod ℓ) (Bv : G) (i : I) :
    viewOut g Hs (derivePub g Hs r (a • g) Bv i) a (r • g) i = Bv := by
  unfold viewOut derivePub
  rw [smul_comm a r g, add_sub_cancel_right]

end Ghost

end Mixin.C32
