import Mixin.Model.Recovery
import Mixin.Facts.ExpectedC22
import Mixin.Facts.ExpectedC21
namespace Mixin.C21
open Mixin.Recovery

/-! ## list helpers -/

theorem getLast_max {l : List (Nat × Nat)} (hs : l.Pairwise (fun a b => a.1 < b.1)) {last : Nat × Nat}
    (hl : l.getLast? = some last) : ∀ e ∈ l, e.1 ≤ last.1 ∧ (e.1 = last.1 → e = last) := by
  induction l with
  | nil => simp at hl
  | cons a t ih =>
    intro e he
    cases t with
    | nil =>
      simp at hl; subst hl
      simp at he; subst he; simp
    | cons b t' =>
      have hl' : (b :: t').getLast? = some last := by simpa [List.getLast?_cons_cons] using hl
      have hs' := (List.pairwise_cons.mp hs)
      have hlast_mem : last ∈ (b :: t') := List.mem_of_getLast? hl'
      rcases List.mem_cons.mp he with h | h
      · subst h
        have := hs'.1 last hlast_mem
        exact ⟨Nat.le_of_lt this, fun h => absurd h (Nat.ne_of_lt this)⟩
      · exact ih hs'.2 hl' e h


/-! ## what the marker logic reads: classification of a topology entry -/

/-- the snapshot and transaction of a single-transaction consensus-class snapshot -/
def consTxOf (kv : KV) (sid : Nat) : Option (Snap × Tx) :=
  match findSnap kv sid with
  | some sn =>
    match sn.txs with
    | [t] =>
      match findTx kv t with
      | some tx => if consensusKind tx.kind then some (sn, tx) else none
      | none => none
    | _ => none
  | none => none

def isCons (kv : KV) (e : Nat × Nat) : Bool := (consTxOf kv e.2).isSome

/-- the entry can be read back by `LastSnapshot` / `ReadSnapshotWithTransactionsSinceTopology` -/
def WF (kv : KV) (e : Nat × Nat) : Prop :=
  ∃ sn, findSnap kv e.2 = some sn ∧ ∀ t ∈ sn.txs, ∃ tx, findTx kv t = some tx

/-- two states that agree on everything the marker logic reads except the marker itself -/
def SameIdx (kv kv' : KV) : Prop :=
  kv'.txs = kv.txs ∧ kv'.snaps = kv.snaps ∧ kv'.topo = kv.topo ∧ kv'.snaptopo = kv.snaptopo

theorem SameIdx.refl (kv : KV) : SameIdx kv kv := ⟨rfl, rfl, rfl, rfl⟩

theorem SameIdx.consTxOf {kv kv' : KV} (h : SameIdx kv kv') (s : Nat) : consTxOf kv' s = consTxOf kv s := by
  obtain ⟨h1, h2, _, _⟩ := h
  simp only [C21.consTxOf, findSnap, findTx, h1, h2]

theorem SameIdx.isCons {kv kv' : KV} (h : SameIdx kv kv') (e : Nat × Nat) : isCons kv' e = isCons kv e := by
  simp only [C21.isCons, h.consTxOf]

theorem SameIdx.WF {kv kv' : KV} (h : SameIdx kv kv') (e : Nat × Nat) : WF kv' e ↔ WF kv e := by
  obtain ⟨h1, h2, _, _⟩ := h
  simp only [C21.WF, findSnap, findTx, h1, h2]

/-- the marker `m` of `kv`: newest CONSENSUSSNAPSHOT entry, its snapshot record and sole transaction -/
structure Marker (kv : KV) (m : Cons) (mo mt : Nat) : Prop where
  last : lastCons kv = some m
  order : kv.snaptopo.lookup m.snap = some mo
  sole : soleTx kv m.snap = some mt

theorem Marker.unique {kv : KV} {m m' : Cons} {mo mo' mt mt' : Nat} (h : Marker kv m mo mt) (h' : Marker kv m' mo' mt') :
    m = m' ∧ mo = mo' ∧ mt = mt' := by
  have h1 : m = m' := by have := h.last; rw [h'.last] at this; exact (Option.some.inj this).symm
  subst h1
  have h2 : mo = mo' := by have := h.order; rw [h'.order] at this; exact (Option.some.inj this).symm
  have h3 : mt = mt' := by have := h.sole; rw [h'.sole] at this; exact (Option.some.inj this).symm
  exact ⟨rfl, h2, h3⟩

/-- `reloadAt` on an entry that is not a single-transaction consensus snapshot changes nothing -/
theorem reloadAt_quiet {kv : KV} {e : Nat × Nat} (hw : WF kv e) (hc : isCons kv e = false) :
    reloadAt kv e = .ok kv := by
  obtain ⟨sn, hsn, htx⟩ := hw
  unfold reloadAt
  simp only [hsn]
  match hts : sn.txs with
  | [] => rfl
  | [t] =>
    obtain ⟨tx, htx'⟩ := htx t (by simp [hts])
    simp only [htx']
    have : consensusKind tx.kind = false := by
      cases hk : consensusKind tx.kind with
      | false => rfl
      | true => simp [isCons, consTxOf, hsn, hts, htx', hk] at hc
    simp [reload, hts, this]
  | _ :: _ :: _ => rfl

/-- the state after recording `sn`/`tx` as the newest consensus snapshot -/
def advance (kv : KV) (sn : Snap) (tx : Tx) : KV :=
  { kv with cons := setNext kv.cons tx.id ++ [{ ts := sn.ts, snap := sn.id, next := 0 }] }

theorem advance_same (kv : KV) (sn : Snap) (tx : Tx) : SameIdx kv (advance kv sn tx) := ⟨rfl, rfl, rfl, rfl⟩

theorem lastCons_advance (kv : KV) (sn : Snap) (tx : Tx) :
    lastCons (advance kv sn tx) = some { ts := sn.ts, snap := sn.id, next := 0 } := by
  simp [lastCons, advance]

theorem consTxOf_id {kv : KV} {s : Nat} {sn : Snap} {tx : Tx} (h : consTxOf kv s = some (sn, tx)) :
    findSnap kv s = some sn ∧ sn.txs = [tx.id] ∧ findTx kv tx.id = some tx ∧ consensusKind tx.kind = true ∧ sn.id = s := by
  unfold consTxOf at h
  match hsn : findSnap kv s with
  | none => simp [hsn] at h
  | some sn' =>
    simp only [hsn] at h
    match hts : sn'.txs with
    | [] => simp [hts] at h
    | _ :: _ :: _ => simp [hts] at h
    | [t] =>
      simp only [hts] at h
      match htx : findTx kv t with
      | none => simp [htx] at h
      | some tx' =>
        simp only [htx] at h
        by_cases hk : consensusKind tx'.kind = true
        · simp [hk] at h
          obtain ⟨h1, h2⟩ := h
          subst h1; subst h2
          have hid : tx'.id = t := by
            have := List.find?_some htx
            simpa using this
          have hsid : sn'.id = s := by
            have := List.find?_some hsn
            simpa using this
          refine ⟨rfl, ?_, ?_, hk, hsid⟩
          · rw [hts, hid]
          · rw [hid]; exact htx
        · simp [hk] at h

/-- `reloadAt` on the pending consensus snapshot records it -/
theorem reloadAt_pending {kv : KV} {e : Nat × Nat} {sn : Snap} {tx : Tx} {m : Cons} {mo mt : Nat}
    (hm : Marker kv m mo mt) (hc : consTxOf kv e.2 = some (sn, tx))
    (href : tx.ref0 = mt) (hne : tx.id ≠ mt) (hts : m.ts < sn.ts) :
    reloadAt kv e = .ok (advance kv sn tx) := by
  obtain ⟨hsn, htxs, htx, hk, _⟩ := consTxOf_id hc
  unfold reloadAt
  simp only [hsn, htxs, htx]
  simp only [reload, htxs, hk, writeConsensus, hm.last, hm.sole]
  have h1 : (mt == tx.id) = false := by simp; exact fun h => hne h.symm
  have h2 : (mt != tx.ref0) = false := by simp [href]
  have h3 : ¬ (m.ts ≥ sn.ts) := by omega
  simp [h1, h2, h3, advance]

/-- `reloadAt` on a consensus snapshot whose transaction is the marker's own is a no-op -/
theorem reloadAt_same {kv : KV} {e : Nat × Nat} {sn : Snap} {tx : Tx} {m : Cons} {mo mt : Nat}
    (hm : Marker kv m mo mt) (hc : consTxOf kv e.2 = some (sn, tx)) (heq : tx.id = mt) :
    reloadAt kv e = .ok kv := by
  obtain ⟨hsn, htxs, htx, hk, _⟩ := consTxOf_id hc
  unfold reloadAt
  simp only [hsn, htxs, htx]
  simp [reload, htxs, hk, writeConsensus, hm.last, hm.sole, heq]

theorem reloadMany_quiet {kv : KV} : ∀ {es : List (Nat × Nat)}, (∀ e ∈ es, WF kv e) →
    (∀ e ∈ es, isCons kv e = false) → reloadMany kv es = .ok kv
  | [], _, _ => rfl
  | e :: rest, hw, hc => by
    simp only [reloadMany, reloadAt_quiet (hw e (by simp)) (hc e (by simp))]
    exact reloadMany_quiet (fun x hx => hw x (by simp [hx])) (fun x hx => hc x (by simp [hx]))


/-! ## the invariant of the durable state -/

/-- What every reachable durable state satisfies. `m` is the recorded marker; at most one
    consensus-class snapshot lies above it in the topology (the *pending* one, finalized but
    not yet recorded), it extends the marker's chain, and nothing below the marker is newer. -/
structure MInv (kv : KV) : Prop where
  sorted : kv.topo.Pairwise (fun a b => a.1 < b.1)
  wf : ∀ e ∈ kv.topo, WF kv e
  idx : ∀ e ∈ kv.topo, kv.snaptopo.lookup e.2 = some e.1
  stored : ∀ sn ∈ kv.snaps, ∃ o, (o, sn.id) ∈ kv.topo
  marker : ∃ m mo mt, Marker kv m mo mt ∧ (mo, m.snap) ∈ kv.topo ∧
    (∀ e1 ∈ kv.topo, ∀ e2 ∈ kv.topo, mo < e1.1 → mo < e2.1 → isCons kv e1 = true → isCons kv e2 = true → e1 = e2) ∧
    (∀ e ∈ kv.topo, mo < e.1 → ∀ sn tx, consTxOf kv e.2 = some (sn, tx) →
        tx.ref0 = mt ∧ tx.id ≠ mt ∧ m.ts < sn.ts) ∧
    (∀ e ∈ kv.topo, e.1 ≤ mo → ∀ sn tx, consTxOf kv e.2 = some (sn, tx) →
        sn.ts ≤ m.ts ∧ (sn.ts = m.ts → sn.id = m.snap) ∧ (e.1 = mo → tx.id = mt))

theorem isCons_true {kv : KV} {e : Nat × Nat} (h : isCons kv e = true) : ∃ sn tx, consTxOf kv e.2 = some (sn, tx) := by
  unfold isCons at h
  match hc : consTxOf kv e.2 with
  | none => simp [hc] at h
  | some (sn, tx) => exact ⟨sn, tx, rfl⟩

theorem isCons_of {kv : KV} {e : Nat × Nat} {sn tx} (h : consTxOf kv e.2 = some (sn, tx)) : isCons kv e = true := by
  simp [isCons, h]

theorem soleTx_of {kv : KV} {s : Nat} {sn : Snap} {tx : Tx} (h : consTxOf kv s = some (sn, tx)) :
    soleTx kv s = some tx.id := by
  obtain ⟨hsn, htxs, _, _, _⟩ := consTxOf_id h
  simp [soleTx, hsn, htxs]

/-- result of walking a strictly ascending list of entries above the marker: either nothing was
    pending among them (state unchanged) or the pending one is now the marker -/
theorem reloadMany_above {kv : KV} {m : Cons} {mo mt : Nat} (hm : Marker kv m mo mt) :
    ∀ (es : List (Nat × Nat)), es.Pairwise (fun a b => a.1 < b.1) → (∀ e ∈ es, WF kv e) →
    (∀ e1 ∈ es, ∀ e2 ∈ es, isCons kv e1 = true → isCons kv e2 = true → e1 = e2) →
    (∀ e ∈ es, ∀ sn tx, consTxOf kv e.2 = some (sn, tx) → tx.ref0 = mt ∧ tx.id ≠ mt ∧ m.ts < sn.ts) →
    (reloadMany kv es = .ok kv ∧ ∀ e ∈ es, isCons kv e = false) ∨
    (∃ e ∈ es, ∃ sn tx, consTxOf kv e.2 = some (sn, tx) ∧ reloadMany kv es = .ok (advance kv sn tx))
  | [], _, _, _, _ => Or.inl ⟨rfl, by simp⟩
  | e :: rest, hp, hw, hu, hb => by
    have hp' := List.pairwise_cons.mp hp
    cases hc : isCons kv e with
    | false =>
      have hq := reloadAt_quiet (hw e (by simp)) hc
      rcases reloadMany_above hm rest hp'.2 (fun x hx => hw x (by simp [hx]))
          (fun a ha b hb' => hu a (by simp [ha]) b (by simp [hb']))
          (fun x hx => hb x (by simp [hx])) with h | h
      · left
        refine ⟨by simp only [reloadMany, hq]; exact h.1, ?_⟩
        intro x hx
        rcases List.mem_cons.mp hx with h' | h'
        · subst h'; exact hc
        · exact h.2 x h'
      · right
        obtain ⟨x, hx, sn, tx, h1, h2⟩ := h
        exact ⟨x, by simp [hx], sn, tx, h1, by simp only [reloadMany, hq]; exact h2⟩
    | true =>
      right
      obtain ⟨sn, tx, hct⟩ := isCons_true hc
      obtain ⟨h1, h2, h3⟩ := hb e (by simp) sn tx hct
      have hstep := reloadAt_pending hm hct h1 h2 h3
      refine ⟨e, by simp, sn, tx, hct, ?_⟩
      simp only [reloadMany, hstep]
      have hs := advance_same kv sn tx
      apply reloadMany_quiet
      · intro x hx; exact (hs.WF x).mpr (hw x (by simp [hx]))
      · intro x hx
        rw [hs.isCons]
        cases hcx : isCons kv x with
        | false => rfl
        | true =>
          have := hu e (by simp) x (by simp [hx]) hc hcx
          have hlt := hp'.1 x hx
          subst this
          omega


/-- "`m'` is snapshot `c` or a later one": consensus snapshots are ordered by their timestamp
    (the CONSENSUSSNAPSHOT key is `timestamp ‖ hash`, and the writer refuses a non-increasing one) -/
def Covers (kv : KV) (m' : Cons) : Prop :=
  ∀ e ∈ kv.topo, ∀ sn tx, consTxOf kv e.2 = some (sn, tx) → sn.ts ≤ m'.ts ∧ (sn.ts = m'.ts → sn.id = m'.snap)

theorem covers_pending {kv : KV} {m : Cons} {mo mt : Nat}
    (hu : ∀ e1 ∈ kv.topo, ∀ e2 ∈ kv.topo, mo < e1.1 → mo < e2.1 → isCons kv e1 = true → isCons kv e2 = true → e1 = e2)
    (hb : ∀ e ∈ kv.topo, mo < e.1 → ∀ sn tx, consTxOf kv e.2 = some (sn, tx) → tx.ref0 = mt ∧ tx.id ≠ mt ∧ m.ts < sn.ts)
    (hc : ∀ e ∈ kv.topo, e.1 ≤ mo → ∀ sn tx, consTxOf kv e.2 = some (sn, tx) →
        sn.ts ≤ m.ts ∧ (sn.ts = m.ts → sn.id = m.snap) ∧ (e.1 = mo → tx.id = mt))
    {p : Nat × Nat} (hp : p ∈ kv.topo) (hpo : mo < p.1) {sn : Snap} {tx : Tx} (hpc : consTxOf kv p.2 = some (sn, tx)) :
    Covers kv { ts := sn.ts, snap := sn.id, next := 0 } := by
  intro e he sn' tx' hec
  by_cases hle : e.1 ≤ mo
  · have h1 := (hc e he hle sn' tx' hec).1
    have h2 := (hb p hp hpo sn tx hpc).2.2
    simp only
    omega
  · have : e = p := hu e he p hp (by omega) hpo (isCons_of hec) (isCons_of hpc)
    subst this
    rw [hpc] at hec
    simp at hec
    obtain ⟨h1, _⟩ := hec
    subst h1
    simp

/-- The repaired startup walk succeeds on every state satisfying the invariant and leaves the
    marker at the newest finalized consensus snapshot. -/
theorem setupRepair_spec {kv : KV} (h : MInv kv) :
    ∃ kv', setupRepair kv = .ok kv' ∧ SameIdx kv kv' ∧
      ((kv' = kv) ∨ ∃ p ∈ kv.topo, ∃ sn tx, consTxOf kv p.2 = some (sn, tx) ∧ kv' = advance kv sn tx ∧
          ∀ m mo mt, Marker kv m mo mt → mo < p.1) ∧
      ∃ m', lastCons kv' = some m' ∧ Covers kv m' := by
  obtain ⟨m, mo, mt, hm, hmem, hu, hb, hc⟩ := h.marker
  have hne : kv.topo ≠ [] := by intro h0; rw [h0] at hmem; simp at hmem
  obtain ⟨last, hlast⟩ : ∃ last, kv.topo.getLast? = some last := by
    cases hg : kv.topo.getLast? with
    | none => simp [List.getLast?_eq_none_iff] at hg; exact absurd hg hne
    | some l => exact ⟨l, rfl⟩
  have hlm : last ∈ kv.topo := List.mem_of_getLast? hlast
  have hmax := getLast_max h.sorted hlast
  have hmo : markerOrder kv = some mo := by simp [markerOrder, hm.last, hm.order]
  have hcovers_m : (∀ e ∈ kv.topo, mo < e.1 → isCons kv e = false) → Covers kv m := by
    intro hq e he sn tx hec
    by_cases hle : e.1 ≤ mo
    · have := hc e he hle sn tx hec; exact ⟨this.1, this.2.1⟩
    · have := hq e he (by omega); rw [isCons_of hec] at this; exact absurd this (by simp)
  unfold setupRepair
  simp only [hlast, hmo]
  have hsub : ∀ e ∈ kv.topo.filter (fun e => decide (mo < e.1) && decide (e.1 < last.1)), e ∈ kv.topo ∧ mo < e.1 ∧ e.1 < last.1 := by
    intro e he
    have := List.mem_filter.mp he
    simpa using this
  rcases reloadMany_above hm (kv.topo.filter (fun e => decide (mo < e.1) && decide (e.1 < last.1)))
      (h.sorted.filter _) (fun e he => h.wf e (hsub e he).1)
      (fun a ha b hb' h1 h2 => hu a (hsub a ha).1 b (hsub b hb').1 (hsub a ha).2.1 (hsub b hb').2.1 h1 h2)
      (fun e he sn tx hx => hb e (hsub e he).1 (hsub e he).2.1 sn tx hx) with hA | hB
  · -- nothing pending strictly between the marker and the last entry
    simp only [hA.1]
    have hmid : ∀ e ∈ kv.topo, mo < e.1 → e.1 < last.1 → isCons kv e = false := by
      intro e he h1 h2
      exact hA.2 e (List.mem_filter.mpr ⟨he, by simp [h1, h2]⟩)
    cases hcl : isCons kv last with
    | false =>
      refine ⟨kv, reloadAt_quiet (h.wf last hlm) hcl, SameIdx.refl kv, Or.inl rfl, m, hm.last, hcovers_m ?_⟩
      intro e he hgt
      rcases Nat.lt_or_ge e.1 last.1 with h1 | h1
      · exact hmid e he hgt h1
      · have := (hmax e he).2 (by have := (hmax e he).1; omega); subst this; exact hcl
    | true =>
      obtain ⟨sn, tx, hct⟩ := isCons_true hcl
      by_cases hgt : mo < last.1
      · obtain ⟨h1, h2, h3⟩ := hb last hlm hgt sn tx hct
        exact ⟨advance kv sn tx, reloadAt_pending hm hct h1 h2 h3, advance_same kv sn tx,
          Or.inr ⟨last, hlm, sn, tx, hct, rfl, fun _ _ _ hm' => by rw [(Marker.unique hm hm').2.1] at hgt; exact hgt⟩, _, lastCons_advance kv sn tx, covers_pending hu hb hc hlm hgt hct⟩
      · have hle := (hmax _ hmem).1
        have heq : last.1 = mo := by simp at hle; omega
        have := (hc last hlm (by omega) sn tx hct).2.2 heq
        refine ⟨kv, reloadAt_same hm hct this, SameIdx.refl kv, Or.inl rfl, m, hm.last, hcovers_m ?_⟩
        intro e he hgt'
        have := (hmax e he).1
        omega
  · obtain ⟨p, hp, sn, tx, hpc, hrun⟩ := hB
    simp only [hrun]
    obtain ⟨hpt, hpo, hpl⟩ := hsub p hp
    have hs := advance_same kv sn tx
    have hlq : isCons kv last = false := by
      cases hcl : isCons kv last with
      | false => rfl
      | true =>
        have := hu last hlm p hpt (by omega) hpo hcl (isCons_of hpc)
        subst this; omega
    refine ⟨advance kv sn tx, ?_, hs, Or.inr ⟨p, hpt, sn, tx, hpc, rfl,
      fun _ _ _ hm' => by rw [(Marker.unique hm hm').2.1] at hpo; exact hpo⟩, _, lastCons_advance kv sn tx,
      covers_pending hu hb hc hpt hpo hpc⟩
    exact reloadAt_quiet ((hs.WF last).mpr (h.wf last hlm)) (by rw [hs.isCons]; exact hlq)


/-! ## the invariant is preserved by every storage call -/

/-- transport of the invariant to a state that agrees on snapshots / topology / marker and in
    which every stored transaction body is still found -/
theorem MInv_agree {kv kv' : KV} (h2 : kv'.snaps = kv.snaps) (h3 : kv'.topo = kv.topo)
    (h4 : kv'.snaptopo = kv.snaptopo) (h5 : kv'.cons = kv.cons)
    (ht : ∀ t tx, findTx kv t = some tx → findTx kv' t = some tx) (h : MInv kv) : MInv kv' := by
  have hfs : ∀ s, findSnap kv' s = findSnap kv s := by intro s; simp only [findSnap, h2]
  have hwf : ∀ e, WF kv e → WF kv' e := by
    intro e ⟨sn, h1, h6⟩
    exact ⟨sn, by rw [hfs]; exact h1, fun t htm => by obtain ⟨tx, hx⟩ := h6 t htm; exact ⟨tx, ht t tx hx⟩⟩
  have hco : ∀ e, WF kv e → consTxOf kv' e.2 = consTxOf kv e.2 := by
    intro e ⟨sn, h1, h6⟩
    unfold consTxOf
    rw [hfs, h1]
    match hts : sn.txs with
    | [] => simp only [hts]
    | _ :: _ :: _ => simp only [hts]
    | [t] =>
      obtain ⟨tx, hx⟩ := h6 t (by simp [hts])
      simp only [hts, hx, ht t tx hx]
  have hic : ∀ e, WF kv e → isCons kv' e = isCons kv e := by intro e hw; simp only [isCons, hco e hw]
  obtain ⟨m, mo, mt, hm, hmem, hu, hb, hc⟩ := h.marker
  refine ⟨by rw [h3]; exact h.sorted, ?_, ?_, ?_, ⟨m, mo, mt, ?_, by rw [h3]; exact hmem, ?_, ?_, ?_⟩⟩
  · intro e he; rw [h3] at he; exact hwf e (h.wf e he)
  · intro e he; rw [h3] at he; rw [h4]; exact h.idx e he
  · intro sn hsn; rw [h2] at hsn; rw [h3]; exact h.stored sn hsn
  · exact ⟨by simp only [lastCons, h5]; exact hm.last, by rw [h4]; exact hm.order,
      by simp only [soleTx, hfs]; exact hm.sole⟩
  · intro e1 he1 e2 he2; rw [h3] at he1 he2
    rw [hic e1 (h.wf e1 he1), hic e2 (h.wf e2 he2)]; exact hu e1 he1 e2 he2
  · intro e he; rw [h3] at he; rw [hco e (h.wf e he)]; exact hb e he
  · intro e he; rw [h3] at he; rw [hco e (h.wf e he)]; exact hc e he

theorem MInv_frame {kv kv' : KV} (hs : SameIdx kv kv') (h5 : kv'.cons = kv.cons) (h : MInv kv) : MInv kv' :=
  MInv_agree hs.2.1 hs.2.2.1 hs.2.2.2 h5 (fun t tx hx => by simp only [findTx, hs.1]; exact hx) h

theorem lockInputs_frame {kv kv' : KV} {t : Tx} (h : lockInputs kv t = .ok kv') : SameIdx kv kv' ∧ kv'.cons = kv.cons := by
  unfold lockInputs at h
  split at h
  · split at h
    · injection h with h; subst h; exact ⟨⟨rfl, rfl, rfl, rfl⟩, rfl⟩
    · split at h
      · injection h with h; subst h; exact ⟨⟨rfl, rfl, rfl, rfl⟩, rfl⟩
      · cases h
  · split at h
    · split at h
      · injection h with h; subst h; exact ⟨⟨rfl, rfl, rfl, rfl⟩, rfl⟩
      · split at h
        · injection h with h; subst h; exact ⟨⟨rfl, rfl, rfl, rfl⟩, rfl⟩
        · cases h
    · split at h
      · cases h
      · injection h with h; subst h; exact ⟨⟨rfl, rfl, rfl, rfl⟩, rfl⟩

theorem startNewRound_frame {kv kv' : KV} {c n : Nat} {self ext : RKey} (h : startNewRound kv c n self ext = .ok kv') :
    SameIdx kv kv' ∧ kv'.cons = kv.cons := by
  unfold startNewRound at h
  split at h
  · cases h
  · cases h
  · repeat (split at h; (try cases h))
    injection h with h; subst h; exact ⟨⟨rfl, rfl, rfl, rfl⟩, rfl⟩

theorem findTx_append {kv : KV} {x : Tx} {t : Nat} {tx : Tx} (h : findTx kv t = some tx) :
    findTx { kv with txs := kv.txs ++ [x] } t = some tx := by
  simp only [findTx] at *
  rw [List.find?_append, h]; rfl

theorem MInv_writeTx {kv kv' : KV} {t : Tx} (hstep : writeTx kv t = .ok kv') (h : MInv kv) : MInv kv' := by
  unfold writeTx at hstep
  split at hstep
  · cases hstep
  · split at hstep
    · injection hstep with hstep; subst hstep; exact h
    · injection hstep with hstep; subst hstep
      exact MInv_agree (kv := kv) rfl rfl rfl rfl (fun _ _ hx => findTx_append hx) h


/-- recording the pending consensus snapshot keeps the invariant -/
theorem advance_inv {kv : KV} (h : MInv kv) {p : Nat × Nat} (hp : p ∈ kv.topo) {sn : Snap} {tx : Tx}
    (hpc : consTxOf kv p.2 = some (sn, tx)) (hpo : ∀ m mo mt, Marker kv m mo mt → mo < p.1) :
    MInv (advance kv sn tx) := by
  obtain ⟨m, mo, mt, hm, hmem, hu, hb, hc⟩ := h.marker
  have hpo := hpo m mo mt hm
  have hs := advance_same kv sn tx
  obtain ⟨hsn, htxs, htx, hk, hid⟩ := consTxOf_id hpc
  have hpe : p = (p.1, sn.id) := by rw [hid]
  have habove : ∀ e ∈ kv.topo, p.1 < e.1 → isCons kv e = false := by
    intro e he hlt
    cases hce : isCons kv e with
    | false => rfl
    | true =>
      have := hu e he p hp (by omega) hpo hce (isCons_of hpc)
      subst this; omega
  refine ⟨h.sorted, fun e he => (hs.WF e).mpr (h.wf e he), h.idx, h.stored,
    ⟨{ ts := sn.ts, snap := sn.id, next := 0 }, p.1, tx.id, ⟨lastCons_advance kv sn tx, ?_, ?_⟩, ?_, ?_, ?_, ?_⟩⟩
  · show kv.snaptopo.lookup sn.id = some p.1
    rw [hid]; exact h.idx p hp
  · show soleTx (advance kv sn tx) sn.id = some tx.id
    have := soleTx_of hpc
    rw [hid]; simpa [soleTx, findSnap, advance] using this
  · show (p.1, sn.id) ∈ kv.topo
    rw [← hpe]; exact hp
  · intro e1 he1 e2 he2 h1 h2 hc1 _
    rw [hs.isCons] at hc1
    have := habove e1 he1 h1
    rw [this] at hc1; cases hc1
  · intro e he hlt sn' tx' hec
    rw [hs.consTxOf] at hec
    have := habove e he hlt
    rw [isCons_of hec] at this; cases this
  · intro e he hle sn' tx' hec
    rw [hs.consTxOf] at hec
    show sn'.ts ≤ sn.ts ∧ (sn'.ts = sn.ts → sn'.id = sn.id) ∧ (e.1 = p.1 → tx'.id = tx.id)
    by_cases hlo : e.1 ≤ mo
    · have h1 := (hc e he hlo sn' tx' hec).1
      have h2 := (hb p hp hpo sn tx hpc).2.2
      refine ⟨by omega, fun h => by omega, fun h => by omega⟩
    · have : e = p := hu e he p hp (by omega) hpo (isCons_of hec) (isCons_of hpc)
      subst this
      rw [hpc] at hec
      simp at hec
      obtain ⟨h1, h2⟩ := hec
      subst h1; subst h2
      simp

theorem MInv_setupRepair {kv kv' : KV} (hstep : setupRepair kv = .ok kv') (h : MInv kv) : MInv kv' := by
  obtain ⟨kv2, h1, _, h2, _⟩ := setupRepair_spec h
  rw [h1] at hstep
  injection hstep with hstep; subst hstep
  rcases h2 with h2 | ⟨p, hp, sn, tx, hpc, h2, hpo⟩
  · rw [h2]; exact h
  · rw [h2]; exact advance_inv h hp hpc hpo

/-- the kernel's marker write after finalization keeps the invariant, whatever snapshot it is
    called with -/
theorem MInv_mark {kv kv' : KV} {sid : Nat} (hstep : markSnap kv sid = .ok kv') (h : MInv kv) : MInv kv' := by
  obtain ⟨m, mo, mt, hm, hmem, hu, hb, hc⟩ := h.marker
  unfold markSnap at hstep
  match hsn : findSnap kv sid with
  | none => simp [hsn] at hstep
  | some sn =>
    simp only [hsn] at hstep
    match hts : sn.txs with
    | [] => simp only [hts] at hstep; injection hstep with hstep; subst hstep; exact h
    | _ :: _ :: _ => simp only [hts] at hstep; injection hstep with hstep; subst hstep; exact h
    | [t] =>
      simp only [hts] at hstep
      match htx : findTx kv t with
      | none => simp [htx] at hstep
      | some tx =>
        simp only [htx] at hstep
        unfold reload at hstep
        simp only [hts, List.length_singleton, bne_self_eq_false, Bool.false_eq_true, ↓reduceIte] at hstep
        by_cases hk : consensusKind tx.kind = true
        · simp only [hk, ↓reduceIte] at hstep
          have hid : tx.id = t := by have := List.find?_some htx; simpa using this
          have hsid : sn.id = sid := by have := List.find?_some hsn; simpa using this
          have hct : consTxOf kv sid = some (sn, tx) := by
            simp [consTxOf, hsn, hts, htx, hk]
          obtain ⟨o, ho⟩ := h.stored sn (List.mem_of_find?_eq_some hsn)
          rw [hsid] at ho
          unfold writeConsensus at hstep
          simp only [hm.last, hm.sole, hk] at hstep
          have e1 : (sn.txs != [tx.id]) = false := by rw [hts, hid]; simp
          simp only [e1, Bool.false_eq_true, ↓reduceIte, Bool.not_true] at hstep
          by_cases hsame : (mt == tx.id) = true
          · simp only [hsame, ↓reduceIte] at hstep; injection hstep with hstep; subst hstep; exact h
          · simp only [hsame, Bool.false_eq_true, ↓reduceIte] at hstep
            by_cases href : (mt != tx.ref0) = true
            · simp [href] at hstep
            · simp only [href, Bool.false_eq_true, ↓reduceIte] at hstep
              by_cases hge : m.ts ≥ sn.ts
              · simp [hge] at hstep
              · simp only [hge, ↓reduceIte] at hstep
                injection hstep with hstep; subst hstep
                have hgt : mo < o := by
                  rcases Nat.lt_or_ge mo o with h1 | h1
                  · exact h1
                  · have := (hc (o, sid) ho h1 sn tx hct).1; omega
                exact advance_inv h ho hct (fun _ _ _ hm' => by rw [← (Marker.unique hm hm').2.1]; exact hgt)
        · simp only [hk, Bool.false_eq_true, ↓reduceIte] at hstep
          injection hstep with hstep; subst hstep; exact h


/-! ### finalization -/

theorem finalizeOne_frame (kv : KV) (s : Snap) (t : Tx) :
    (finalizeOne kv s t).txs = kv.txs ∧ (finalizeOne kv s t).snaps = kv.snaps ∧ (finalizeOne kv s t).topo = kv.topo ∧
    (finalizeOne kv s t).snaptopo = kv.snaptopo ∧ (finalizeOne kv s t).cons = kv.cons ∧
    (finalizeOne kv s t).rounds = kv.rounds ∧ (finalizeOne kv s t).n = kv.n := by
  unfold finalizeOne
  split <;> simp

theorem finalizeAll_frame : ∀ (l : List Nat) (kv kv1 : KV) (s : Snap), finalizeAll kv s l = some kv1 →
    kv1.txs = kv.txs ∧ kv1.snaps = kv.snaps ∧ kv1.topo = kv.topo ∧ kv1.snaptopo = kv.snaptopo ∧ kv1.cons = kv.cons ∧
    kv1.rounds = kv.rounds ∧ kv1.n = kv.n
  | [], kv, kv1, s, h => by simp [finalizeAll] at h; subst h; simp
  | t :: rest, kv, kv1, s, h => by
    unfold finalizeAll at h
    match htx : findTx kv t with
    | none => simp [htx] at h
    | some tx =>
      simp only [htx] at h
      have ih := finalizeAll_frame rest _ _ s h
      have f := finalizeOne_frame kv s tx
      exact ⟨ih.1.trans f.1, ih.2.1.trans f.2.1, ih.2.2.1.trans f.2.2.1, ih.2.2.2.1.trans f.2.2.2.1,
        ih.2.2.2.2.1.trans f.2.2.2.2.1, ih.2.2.2.2.2.1.trans f.2.2.2.2.2.1, ih.2.2.2.2.2.2.trans f.2.2.2.2.2.2⟩

theorem insertTopo_append : ∀ (l : List (Nat × Nat)) (e : Nat × Nat), (∀ x ∈ l, x.1 < e.1) → insertTopo l e = l ++ [e]
  | [], e, _ => rfl
  | x :: rest, e, h => by
    have hx := h x (by simp)
    have : ¬ e.1 < x.1 := by omega
    simp only [insertTopo, this, ↓reduceIte, List.cons_append]
    rw [insertTopo_append rest e (fun y hy => h y (by simp [hy]))]

/-- The call-order discipline for a finalization write, as far as the marker is concerned: the
    topology order is the next one (`Node.TopoWrite`), and a consensus-class transaction is only
    finalized when the recorded marker is current, as the transaction that extends the marker's
    chain (`validateConsensusTransactionReferences`), in one snapshot. -/
structure SnapProto (kv : KV) (s : Snap) (o : Nat) : Prop where
  next : ∀ e ∈ kv.topo, e.1 < o
  chain : ∀ t tx, s.txs = [t] → findTx kv t = some tx → consensusKind tx.kind = true →
    ∃ m mo mt, Marker kv m mo mt ∧ (∀ e ∈ kv.topo, mo < e.1 → isCons kv e = false) ∧
      tx.ref0 = mt ∧ tx.id ≠ mt ∧ m.ts < s.ts

/-- what a committed `WriteSnapshot` changed among the records the marker logic reads -/
theorem writeSnapshot_facts {kv kv' : KV} {s : Snap} {o : Nat} (hstep : writeSnapshot kv s o = .ok kv')
    (hnext : ∀ e ∈ kv.topo, e.1 < o) :
    findSnap kv s.id = none ∧ (∀ t ∈ s.txs, ∃ tx, findTx kv t = some tx) ∧ kv'.topo = kv.topo ++ [(o, s.id)] ∧
    kv'.snaps = kv.snaps ++ [s] ∧ kv'.snaptopo = (s.id, o) :: kv.snaptopo ∧ kv'.txs = kv.txs ∧ kv'.cons = kv.cons := by
  unfold writeSnapshot at hstep
  match hh : kv.rounds.lookup (.head s.node) with
  | none => simp [hh] at hstep
  | some hd =>
    simp only [hh] at hstep
    split at hstep
    · cases hstep
    · split at hstep
      · cases hstep
      · rename_i hfresh
        split at hstep
        · cases hstep
        · rename_i htxs
          split at hstep
          · cases hstep
          · match hfa : finalizeAll kv s s.txs with
            | none => simp [hfa] at hstep
            | some kv1 =>
              simp only [hfa] at hstep
              injection hstep with hstep
              obtain ⟨f1, f2, f3, f4, f5, _, _⟩ := finalizeAll_frame _ _ _ _ hfa
              have hnone : findSnap kv s.id = none := by
                cases hx : findSnap kv s.id with
                | none => rfl
                | some _ => simp [hx] at hfresh
              have hall : ∀ t ∈ s.txs, ∃ tx, findTx kv t = some tx := by
                intro t ht
                cases hx : findTx kv t with
                | some tx => exact ⟨tx, rfl⟩
                | none =>
                  exfalso; apply htxs
                  simp only [List.any_eq_true]
                  exact ⟨t, ht, by simp [hx]⟩
              refine ⟨hnone, hall, ?_, ?_, ?_, ?_, ?_⟩
              · subst hstep; simp only [f3]; exact insertTopo_append _ _ hnext
              · subst hstep; simp only [f2]
              · subst hstep; simp only [f4]
              · subst hstep; simp only [f1]
              · subst hstep; simp only [f5]

theorem MInv_snap {kv kv' : KV} {s : Snap} {o : Nat} (hstep : writeSnapshot kv s o = .ok kv')
    (hp : SnapProto kv s o) (h : MInv kv) : MInv kv' := by
  obtain ⟨m, mo, mt, hm, hmem, hu, hb, hc⟩ := h.marker
  obtain ⟨hnone, hall, htopo, hsnaps, hst, htx, hcons⟩ := writeSnapshot_facts hstep hp.next
  have hft : ∀ t, findTx kv' t = findTx kv t := by intro t; simp only [findTx, htx]
  have hfs_old : ∀ x sn, findSnap kv x = some sn → findSnap kv' x = some sn := by
    intro x sn hx
    simp only [findSnap, hsnaps] at *
    rw [List.find?_append, hx]; rfl
  have hfs_new : findSnap kv' s.id = some s := by
    simp only [findSnap, hsnaps] at *
    rw [List.find?_append, hnone]; simp
  have hne : ∀ x sn, findSnap kv x = some sn → x ≠ s.id := by
    intro x sn hx heq; rw [heq, hnone] at hx; cases hx
  have hwf_old : ∀ e, WF kv e → WF kv' e := by
    intro e ⟨sn, h1, h6⟩
    exact ⟨sn, hfs_old _ _ h1, fun t ht => by rw [hft]; exact h6 t ht⟩
  have hco_old : ∀ e, WF kv e → consTxOf kv' e.2 = consTxOf kv e.2 := by
    intro e ⟨sn, h1, _⟩
    unfold consTxOf
    rw [hfs_old _ _ h1, h1]
    simp only [hft]
  have hic_old : ∀ e, WF kv e → isCons kv' e = isCons kv e := by
    intro e hw; simp only [isCons, hco_old e hw]
  have hmo_lt : mo < o := hp.next _ hmem
  have hmsnap : ∃ msn, findSnap kv m.snap = some msn := by
    have := hm.sole
    unfold soleTx at this
    cases hx : findSnap kv m.snap with
    | none => simp [hx] at this
    | some msn => exact ⟨msn, rfl⟩
  obtain ⟨msn, hmsn⟩ := hmsnap
  -- classification of the new entry
  have hnew : ∀ sn tx, consTxOf kv' s.id = some (sn, tx) →
      sn = s ∧ (∀ e ∈ kv.topo, mo < e.1 → isCons kv e = false) ∧ tx.ref0 = mt ∧ tx.id ≠ mt ∧ m.ts < s.ts := by
    intro sn tx hx
    obtain ⟨a1, a2, a3, a4, _⟩ := consTxOf_id hx
    rw [hfs_new] at a1; injection a1 with a1; subst a1
    rw [hft] at a3
    obtain ⟨m', mo', mt', hm', q1, q2, q3, q4⟩ := hp.chain tx.id tx a2 a3 a4
    obtain ⟨u1, u2, u3⟩ := Marker.unique hm hm'
    subst u1; subst u2; subst u3
    exact ⟨rfl, q1, q2, q3, q4⟩
  refine ⟨?_, ?_, ?_, ?_, ⟨m, mo, mt, ⟨?_, ?_, ?_⟩, ?_, ?_, ?_, ?_⟩⟩
  · rw [htopo]
    refine List.pairwise_append.mpr ⟨h.sorted, by simp, ?_⟩
    intro a ha b hb'; simp at hb'; subst hb'; exact hp.next a ha
  · intro e he; rw [htopo] at he
    rcases List.mem_append.mp he with he | he
    · exact hwf_old e (h.wf e he)
    · simp at he; subst he
      exact ⟨s, hfs_new, fun t ht => by rw [hft]; exact hall t ht⟩
  · intro e he; rw [htopo] at he; rw [hst]
    rcases List.mem_append.mp he with he | he
    · obtain ⟨sn, h1, _⟩ := h.wf e he
      have := hne _ _ h1
      rw [List.lookup_cons]
      have hb : (e.2 == s.id) = false := by simp [this]
      simp only [hb]; exact h.idx e he
    · simp at he; subst he; simp
  · intro sn hsn; rw [hsnaps] at hsn; rw [htopo]
    rcases List.mem_append.mp hsn with hsn | hsn
    · obtain ⟨o', ho'⟩ := h.stored sn hsn; exact ⟨o', List.mem_append.mpr (Or.inl ho')⟩
    · simp at hsn; subst hsn; exact ⟨o, by simp⟩
  · simp only [lastCons, hcons]; exact hm.last
  · rw [hst, List.lookup_cons]
    have hb : (m.snap == s.id) = false := by simp [hne _ _ hmsn]
    simp only [hb]; exact hm.order
  · have := hm.sole
    unfold soleTx at this ⊢
    rw [hmsn] at this; rw [hfs_old _ _ hmsn]; exact this
  · rw [htopo]; exact List.mem_append.mpr (Or.inl hmem)
  · intro e1 he1 e2 he2 g1 g2 c1 c2
    rw [htopo] at he1 he2
    rcases List.mem_append.mp he1 with he1 | he1 <;> rcases List.mem_append.mp he2 with he2 | he2
    · rw [hic_old e1 (h.wf e1 he1)] at c1; rw [hic_old e2 (h.wf e2 he2)] at c2
      exact hu e1 he1 e2 he2 g1 g2 c1 c2
    · simp at he2; subst he2
      obtain ⟨sn, tx, hx⟩ := isCons_true c2
      have := (hnew sn tx hx).2.1 e1 he1 g1
      rw [hic_old e1 (h.wf e1 he1)] at c1; rw [this] at c1; cases c1
    · simp at he1; subst he1
      obtain ⟨sn, tx, hx⟩ := isCons_true c1
      have := (hnew sn tx hx).2.1 e2 he2 g2
      rw [hic_old e2 (h.wf e2 he2)] at c2; rw [this] at c2; cases c2
    · simp at he1 he2; rw [he1, he2]
  · intro e he g sn tx hx
    rw [htopo] at he
    rcases List.mem_append.mp he with he | he
    · rw [hco_old e (h.wf e he)] at hx; exact hb e he g sn tx hx
    · simp at he; subst he
      obtain ⟨q0, _, q2, q3, q4⟩ := hnew sn tx hx
      subst q0; exact ⟨q2, q3, q4⟩
  · intro e he g sn tx hx
    rw [htopo] at he
    rcases List.mem_append.mp he with he | he
    · rw [hco_old e (h.wf e he)] at hx; exact hc e he g sn tx hx
    · simp at he; subst he; simp at g; omega


/-! ## genesis -/

theorem find?_unique {α : Type} {p : α → Bool} : ∀ {l : List α} {x : α}, x ∈ l → p x = true →
    (∀ y ∈ l, p y = true → y = x) → l.find? p = some x
  | [], _, h, _, _ => by simp at h
  | a :: t, x, hm, hp, hu => by
    by_cases ha : p a = true
    · have := hu a (by simp) ha
      subst this; simp [List.find?, ha]
    · have hx : x ∈ t := by
        rcases List.mem_cons.mp hm with h | h
        · subst h; exact absurd hp ha
        · exact h
      simp only [List.find?, ha]
      exact find?_unique hx hp (fun y hy => hu y (by simp [hy]))

theorem lookup_unique {α β : Type} [BEq α] [LawfulBEq α] : ∀ {l : List (α × β)} {k : α} {v : β}, (k, v) ∈ l →
    (∀ v', (k, v') ∈ l → v' = v) → l.lookup k = some v
  | [], _, _, h, _ => by simp at h
  | (a, b) :: t, k, v, hm, hu => by
    rw [List.lookup_cons]
    by_cases hk : k = a
    · subst hk
      have := hu b (by simp)
      subst this; simp
    · have hb : (k == a) = false := by simp [hk]
      simp only [hb]
      have hx : (k, v) ∈ t := by
        rcases List.mem_cons.mp hm with h | h
        · injection h with h1 _; exact absurd h1 hk
        · exact h
      exact lookup_unique hx (fun v' hv' => hu v' (by simp [hv']))

theorem genesis_findTx (n i : Nat) (hi : i ≤ n) :
    findTx (genesis n) (i + 1) = some { id := i + 1, kind := 8, ref0 := 0, outs := 1, key := 0, inputs := [] } := by
  unfold findTx genesis
  apply find?_unique
  · simp only [List.mem_map, List.mem_range]; exact ⟨i, by omega, rfl⟩
  · simp
  · intro y hy hp
    simp only [List.mem_map, List.mem_range] at hy
    obtain ⟨j, _, rfl⟩ := hy
    simp at hp; subst hp; rfl

theorem genesis_kind (n : Nat) {t : Nat} {tx : Tx} (h : findTx (genesis n) t = some tx) : consensusKind tx.kind = false := by
  have := List.mem_of_find?_eq_some h
  simp only [genesis, List.mem_map, List.mem_range] at this
  obtain ⟨j, _, rfl⟩ := this
  rfl

theorem genesis_noCons (n s : Nat) : consTxOf (genesis n) s = none := by
  cases hc : consTxOf (genesis n) s with
  | none => rfl
  | some p =>
    obtain ⟨sn, tx⟩ := p
    obtain ⟨_, _, h3, h4, _⟩ := consTxOf_id hc
    rw [genesis_kind n h3] at h4; cases h4

theorem genesis_findSnap (n i : Nat) (hi : i ≤ n) :
    ∃ sn, findSnap (genesis n) (i + 1) = some sn ∧ sn.txs = [i + 1] := by
  have hmem : ∀ sn ∈ (genesis n).snaps, sn.txs = [sn.id] ∧ sn.id ≤ n + 1 ∧ 1 ≤ sn.id := by
    intro sn hsn
    simp only [genesis, List.mem_append, List.mem_map, List.mem_range, List.mem_singleton] at hsn
    rcases hsn with ⟨c, hc, rfl⟩ | rfl
    · exact ⟨rfl, by simp; omega, by simp⟩
    · exact ⟨rfl, by simp, by simp⟩
  have hex : ∃ sn ∈ (genesis n).snaps, sn.id = i + 1 := by
    by_cases h : i < n
    · exact ⟨{ id := i + 1, node := i, round := 0, ts := 0, txs := [i + 1] }, by
        simp only [genesis, List.mem_append, List.mem_map, List.mem_range]; exact Or.inl ⟨i, h, rfl⟩, rfl⟩
    · have : i = n := by omega
      subst this
      exact ⟨{ id := i + 1, node := 0, round := 0, ts := 1, txs := [i + 1] }, by simp [genesis], rfl⟩
  obtain ⟨sn, hsn, hid⟩ := hex
  cases hf : findSnap (genesis n) (i + 1) with
  | none =>
    have := List.find?_eq_none.mp hf sn hsn
    simp [hid] at this
  | some sn' =>
    have h1 := List.mem_of_find?_eq_some hf
    have h2 : sn'.id = i + 1 := by have := List.find?_some hf; simpa using this
    exact ⟨sn', rfl, by rw [(hmem sn' h1).1, h2]⟩

theorem genesis_inv (n : Nat) : MInv (genesis n) := by
  have htopo : (genesis n).topo = (List.range (n + 1)).map (fun i => (i, i + 1)) := rfl
  have hst : (genesis n).snaptopo = (List.range (n + 1)).map (fun i => (i + 1, i)) := rfl
  have hmemt : ∀ e ∈ (genesis n).topo, e.2 = e.1 + 1 ∧ e.1 ≤ n := by
    intro e he; rw [htopo] at he
    simp only [List.mem_map, List.mem_range] at he
    obtain ⟨i, hi, rfl⟩ := he; exact ⟨rfl, by simp; omega⟩
  have hidx : ∀ i, i ≤ n → (genesis n).snaptopo.lookup (i + 1) = some i := by
    intro i hi
    apply lookup_unique
    · rw [hst]; simp only [List.mem_map, List.mem_range]; exact ⟨i, by omega, rfl⟩
    · intro v' hv'; rw [hst] at hv'
      simp only [List.mem_map, List.mem_range] at hv'
      obtain ⟨j, _, hj⟩ := hv'
      injection hj with h1 h2; omega
  refine ⟨?_, ?_, ?_, ?_, ⟨{ ts := 1, snap := n + 1, next := 0 }, n, n + 1, ⟨rfl, hidx n (Nat.le_refl n), ?_⟩, ?_, ?_, ?_, ?_⟩⟩
  · rw [htopo, List.pairwise_map]
    exact List.Pairwise.imp (fun h => h) List.pairwise_lt_range
  · intro e he
    obtain ⟨h1, h2⟩ := hmemt e he
    obtain ⟨sn, hsn, htx⟩ := genesis_findSnap n e.1 h2
    refine ⟨sn, by rw [h1]; exact hsn, ?_⟩
    intro t ht; rw [htx] at ht; simp at ht; subst ht
    exact ⟨_, genesis_findTx n e.1 h2⟩
  · intro e he
    obtain ⟨h1, h2⟩ := hmemt e he
    rw [h1]; exact hidx e.1 h2
  · intro sn hsn
    simp only [genesis, List.mem_append, List.mem_map, List.mem_range, List.mem_singleton] at hsn
    rcases hsn with ⟨c, hc, rfl⟩ | rfl
    · exact ⟨c, by rw [htopo]; simp only [List.mem_map, List.mem_range]; exact ⟨c, by omega, rfl⟩⟩
    · exact ⟨n, by rw [htopo]; simp only [List.mem_map, List.mem_range]; exact ⟨n, by omega, rfl⟩⟩
  · obtain ⟨sn, hsn, htx⟩ := genesis_findSnap n n (Nat.le_refl n)
    simp [soleTx, hsn, htx]
  · rw [htopo]; simp only [List.mem_map, List.mem_range]; exact ⟨n, by omega, rfl⟩
  · intro e1 _ e2 _ _ _ c1 _
    simp [isCons, genesis_noCons] at c1
  · intro e _ _ sn tx hx; rw [genesis_noCons] at hx; cases hx
  · intro e _ _ sn tx hx; rw [genesis_noCons] at hx; cases hx

/-! ## reachable durable states -/

/-- one durable write of the node: any storage call that committed (with the finalization
    discipline `SnapProto`), the kernel's marker write for any snapshot, or a restart. -/
inductive Step : KV → KV → Prop where
  | lock {kv kv' : KV} {t : Tx} : lockInputs kv t = .ok kv' → Step kv kv'
  | wtx {kv kv' : KV} {t : Tx} : writeTx kv t = .ok kv' → Step kv kv'
  | round {kv kv' : KV} {c n : Nat} {self ext : RKey} : startNewRound kv c n self ext = .ok kv' → Step kv kv'
  | snap {kv kv' : KV} {s : Snap} {o : Nat} : writeSnapshot kv s o = .ok kv' → SnapProto kv s o → Step kv kv'
  | mark {kv kv' : KV} {sid : Nat} : markSnap kv sid = .ok kv' → Step kv kv'
  | restart {kv kv' : KV} : setupRepair kv = .ok kv' → Step kv kv'

/-- every state the process can be stopped in: genesis followed by any number of writes (each
    prefix of a write sequence is itself such a sequence, so this covers every cut point) -/
inductive Reach : KV → Prop where
  | genesis (n : Nat) : Reach (genesis n)
  | step {kv kv' : KV} : Reach kv → Step kv kv' → Reach kv'

theorem step_inv {kv kv' : KV} (hs : Step kv kv') (h : MInv kv) : MInv kv' := by
  cases hs with
  | lock h1 => obtain ⟨a, b⟩ := lockInputs_frame h1; exact MInv_frame a b h
  | wtx h1 => exact MInv_writeTx h1 h
  | round h1 => obtain ⟨a, b⟩ := startNewRound_frame h1; exact MInv_frame a b h
  | snap h1 hp => exact MInv_snap h1 hp h
  | mark h1 => exact MInv_mark h1 h
  | restart h1 => exact MInv_setupRepair h1 h

theorem reach_inv {kv : KV} (hr : Reach kv) : MInv kv := by
  induction hr with
  | genesis n => exact genesis_inv n
  | step _ hs ih => exact step_inv hs ih

/-! ## C21 -/

/-- **C21, full strength.** Stop the process after any sequence of durable writes (any cut point
    of any write sequence that follows the finalization discipline, restarts included). Then the
    modelled `SetupNode` marker repair succeeds, and for every consensus-class snapshot `c`
    committed before the stop the recorded last consensus snapshot is `c` or a later one. -/
theorem marker_after_restart {kv : KV} (hr : Reach kv) :
    ∃ kv' m', setupRepair kv = .ok kv' ∧ lastCons kv' = some m' ∧
      ∀ e ∈ kv.topo, ∀ c tx, consTxOf kv e.2 = some (c, tx) →
        c.ts ≤ m'.ts ∧ (c.ts = m'.ts → m'.snap = c.id) := by
  obtain ⟨kv', h1, _, _, m', h2, h3⟩ := setupRepair_spec (reach_inv hr)
  exact ⟨kv', m', h1, h2, fun e he c tx hx => ⟨(h3 e he c tx hx).1, fun h => ((h3 e he c tx hx).2 h).symm⟩⟩


/-- If the process is not cut between the finalization of a consensus-class snapshot and the
    kernel's marker write, that write succeeds and records exactly this snapshot. -/
theorem marker_written_if_no_cut {kv kv1 : KV} {s : Snap} {o t : Nat} {tx : Tx} (hr : Reach kv)
    (hstep : writeSnapshot kv s o = .ok kv1) (hp : SnapProto kv s o)
    (hs : s.txs = [t]) (ht : findTx kv t = some tx) (hk : consensusKind tx.kind = true) :
    ∃ kv2, markSnap kv1 s.id = .ok kv2 ∧ lastCons kv2 = some { ts := s.ts, snap := s.id, next := 0 } := by
  have h := reach_inv hr
  have h1 := MInv_snap hstep hp h
  obtain ⟨hnone, _, htopo, hsnaps, hst, htx, hcons⟩ := writeSnapshot_facts hstep hp.next
  obtain ⟨m, mo, mt, hm, _, _, hb, _⟩ := h1.marker
  have hfs : findSnap kv1 s.id = some s := by
    simp only [findSnap, hsnaps] at *
    rw [List.find?_append, hnone]; simp
  have hft : findTx kv1 t = some tx := by simp only [findTx, htx]; exact ht
  have hct : consTxOf kv1 s.id = some (s, tx) := by simp [consTxOf, hfs, hs, hft, hk]
  have hin : (o, s.id) ∈ kv1.topo := by rw [htopo]; simp
  have hmo : mo < o := by
    obtain ⟨m0, mo0, mt0, hm0, hmem0, _, _, _⟩ := h.marker
    obtain ⟨msn, hmsn⟩ : ∃ msn, findSnap kv m0.snap = some msn := by
      have := hm0.sole
      unfold soleTx at this
      cases hx : findSnap kv m0.snap with
      | none => simp [hx] at this
      | some msn => exact ⟨msn, rfl⟩
    have hne : m0.snap ≠ s.id := by intro heq; rw [heq, hnone] at hmsn; cases hmsn
    have hm1 : Marker kv1 m0 mo0 mt0 := by
      refine ⟨by simp only [lastCons, hcons]; exact hm0.last, ?_, ?_⟩
      · rw [hst, List.lookup_cons]
        have hb : (m0.snap == s.id) = false := by simp [hne]
        simp only [hb]; exact hm0.order
      · have := hm0.sole
        unfold soleTx at this ⊢
        have hfs' : findSnap kv1 m0.snap = some msn := by
          simp only [findSnap, hsnaps] at *
          rw [List.find?_append, hmsn]; rfl
        rw [hmsn] at this; rw [hfs']; exact this
    rw [(Marker.unique hm hm1).2.1]
    exact hp.next _ hmem0
  obtain ⟨r1, r2, r3⟩ := hb (o, s.id) hin hmo s tx hct
  have : markSnap kv1 s.id = reloadAt kv1 (o, s.id) := rfl
  exact ⟨advance kv1 s tx, by rw [this]; exact reloadAt_pending hm hct r1 r2 r3, lastCons_advance kv1 s tx⟩


/-! ## the witness: mint finalized on chain 1, a deposit finalized on chain 2, stop -/

def runOk (r : Res) : KV := match r with | .ok kv => kv | _ => default

def wMint : Tx := { id := 9, kind := 2, ref0 := 8, outs := 1, key := 1708, inputs := [] }
def wDep : Tx := { id := 10, kind := 0, ref0 := 0, outs := 1, key := 1, inputs := [] }
def wS9 : Snap := { id := 9, node := 1, round := 1, ts := 1001000000, txs := [9] }
def wS10 : Snap := { id := 10, node := 2, round := 1, ts := 1002000000, txs := [10] }
def w1 : KV := runOk (lockInputs (genesis 7) wMint)
def w2 : KV := runOk (writeTx w1 wMint)
def w3 : KV := runOk (writeSnapshot w2 wS9 8)
def w4 : KV := runOk (lockInputs w3 wDep)
def w5 : KV := runOk (writeTx w4 wDep)
def w6 : KV := runOk (writeSnapshot w5 wS10 9)

def markerAfter (r : Res) : Option Nat := match r with | .ok kv => (lastCons kv).map (·.snap) | _ => none

/-- The startup code of the pinned tree (only the last topology entry is tested) violates C21:
    the mint snapshot 9 is finalized, the restarted node still records the genesis snapshot 8.
    (Reproduced on the real code by the harness corpus case; repaired by the `fix:` commit.) -/
theorem marker_after_restart_old_counterexample :
    (consTxOf w6 9).isSome = true ∧ markerAfter (setupRepairOld w6) = some 8 := by decide

/-- the repaired startup walk records snapshot 9 on the same state -/
example : markerAfter (setupRepair w6) = some 9 := by decide

/-- the hypotheses of the theorems are satisfiable: the witness state is reachable (two
    finalizations following `SnapProto`, one of them consensus-class) -/
theorem witness_reach : Reach w6 := by
  have p3 : SnapProto w2 wS9 8 := by
    refine ⟨by decide, ?_⟩
    intro t tx h1 h2 _
    have ht : t = 9 := by simp [wS9] at h1; exact h1.symm
    subst ht
    have : findTx w2 9 = some wMint := by decide
    rw [this] at h2; injection h2 with h2; subst h2
    exact ⟨{ ts := 1, snap := 8, next := 0 }, 7, 8, ⟨by decide, by decide, by decide⟩, by decide, rfl, by decide, by decide⟩
  have p6 : SnapProto w5 wS10 9 := by
    refine ⟨by decide, ?_⟩
    intro t tx h1 h2 h3
    have ht : t = 10 := by simp [wS10] at h1; exact h1.symm
    subst ht
    have : findTx w5 10 = some wDep := by decide
    rw [this] at h2; injection h2 with h2; subst h2
    simp [wDep, consensusKind] at h3
  have r1 : Reach w1 := Reach.step (Reach.genesis 7) (Step.lock (t := wMint) rfl)
  have r2 : Reach w2 := Reach.step r1 (Step.wtx (t := wMint) rfl)
  have r3 : Reach w3 := Reach.step r2 (Step.snap (s := wS9) (o := 8) rfl p3)
  have r4 : Reach w4 := Reach.step r3 (Step.lock (t := wDep) rfl)
  have r5 : Reach w5 := Reach.step r4 (Step.wtx (t := wDep) rfl)
  exact Reach.step r5 (Step.snap (s := wS10) (o := 9) rfl p6)

/-- `marker_after_restart` instantiated at the witness: after the repaired restart the marker
    covers the mint snapshot -/
example : ∃ kv' m', setupRepair w6 = .ok kv' ∧ lastCons kv' = some m' ∧ 1001000000 ≤ m'.ts := by
  obtain ⟨kv', m', h1, h2, h3⟩ := marker_after_restart witness_reach
  have hc : consTxOf w6 9 = some (wS9, wMint) := by decide
  exact ⟨kv', m', h1, h2, (h3 (8, 9) (by decide) wS9 wMint hc).1⟩

end Mixin.C21
