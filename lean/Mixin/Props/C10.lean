import Mixin.Model.Membership
import Mixin.Model.Finality
import Mixin.Props.C09
import Mixin.Facts.ExpectedC10
import Mathlib.Data.Finset.Card
/-!
# C10 — any two threshold certificates share more than a third of the signer set

`n` = size of the key vector a certificate is checked against (`Chain.ConsensusKeys(round, ts)`),
`t` = `Node.ConsensusThreshold(ts, true)`. A certificate names a set of positions `< n` (the bits of
a 64-bit mask) of size at least `t`.

The property is **false of the code as it is** for round-0 certificates on a pledging node's own
chain (`consensusNodes` appends the pledging node, the threshold base does not count it): see
`quorum_intersect_counterexample`. It is proved for every other case (`quorum_intersect_partial`).
-/
namespace Mixin.C10
open Mixin.Membership

/-! ## pure quorum arithmetic -/

/-- Two subsets of a key set of size at most `B`, each of size at least `⌊2B/3⌋+1`, intersect in
    more than a third of the key set. -/
theorem quorum_sets {α : Type} [DecidableEq α] (keys S T : Finset α) (B : Nat)
    (hn : keys.card ≤ B) (hS : S ⊆ keys) (hT : T ⊆ keys)
    (hSc : B * 2 / 3 + 1 ≤ S.card) (hTc : B * 2 / 3 + 1 ≤ T.card) :
    keys.card < 3 * (S ∩ T).card := by
  have h1 := Finset.card_union_add_card_inter S T
  have h2 : (S ∪ T).card ≤ keys.card := Finset.card_le_card (Finset.union_subset hS hT)
  omega

example : (3 : Nat) < 3 * (({0, 1, 2} : Finset Nat) ∩ {0, 1, 2}).card := by decide

/-! ## the key set is covered by the threshold base -/

theorem filter_length_mono {α : Type} (p q : α → Bool) (l : List α)
    (h : ∀ a ∈ l, p a = true → q a = true) : (l.filter p).length ≤ (l.filter q).length := by
  induction l with
  | nil => simp
  | cons a t ih =>
    have iht := ih (fun b hb => h b (List.mem_cons_of_mem a hb))
    by_cases hp : p a = true
    · have hq := h a (by simp) hp
      simp [List.filter, hp, hq]; exact iht
    · have hp' : p a = false := by simpa using hp
      by_cases hq : q a = true
      · simp [List.filter, hp', hq]; omega
      · have hq' : q a = false := by simpa using hq
        simp [List.filter, hp', hq']; exact iht

/-- A node that may sign at `ts` (`ConsensusReady`, not the removal candidate) is counted in the
    final threshold base: needs only `refThr · roundGap ≤ acceptMin`. -/
theorem ready_counted (c : Consts) (n : Node) (rm : Option CNode) (ts : Nat) (cn : CNode)
    (hrel : c.refThr * c.roundGap ≤ c.acceptMin)
    (h : (!isRemoving rm cn && consensusReady c n cn ts) = true) :
    countedInBase c n rm ts true cn = true := by
  simp only [Bool.and_eq_true, Bool.not_eq_true'] at h
  obtain ⟨hr, hready⟩ := h
  unfold countedInBase
  simp only [hr, Bool.false_eq_true, if_false]
  unfold consensusReady at hready
  by_cases hs : cn.rc.state = .accepted
  · simp only [hs, ne_eq, not_true_eq_false, if_false] at hready ⊢
    by_cases hg : n.genesis.contains cn.rc.id = true
    · simp only [List.contains_iff_mem] at hg
      simp [hg]
    · simp only [hg, if_false, Bool.false_eq_true] at hready
      by_cases ht : cn.rc.ts + c.acceptMin < ts
      · have : cn.rc.ts + c.refThr * c.roundGap < ts := by omega
        simp [this]
      · simp [ht] at hready
  · simp [hs] at hready

theorem mem_reindex {l : List CNode} {i : Nat} {cn : CNode} (h : cn ∈ reindex i l) :
    ∃ b ∈ l, b.rc = cn.rc := by
  induction l generalizing i with
  | nil => simp [reindex] at h
  | cons a t ih =>
    simp only [reindex, List.mem_cons] at h
    rcases h with h | h
    · exact ⟨a, by simp, by rw [h]⟩
    · obtain ⟨b, hb, hbe⟩ := ih h
      exact ⟨b, List.mem_cons_of_mem a hb, hbe⟩

theorem length_reindex (l : List CNode) (i : Nat) : (reindex i l).length = l.length := by
  induction l generalizing i with
  | nil => rfl
  | cons a t ih => simp [reindex, ih]

/-- `ready_subset_base`, for arbitrary constants satisfying the maturity relation: every node in
    the consensus key set other than the round-0 pledging node is counted in the base. -/
theorem ready_subset_base_of (c : Consts) (hrel : c.refThr * c.roundGap ≤ c.acceptMin)
    (n : Node) (ch : Chain) (round ts : Nat) :
    ∀ cn ∈ consensusNodes c n ch round ts,
      (∃ b ∈ baseNodes c n ts true, b.rc = cn.rc) ∨
      (round = 0 ∧ ∃ ci, ch.pledging = some ci ∧ cn.rc = ci.rc ∧ cn.idx = (readyNodes c n ts).length) := by
  intro cn hcn
  have hready : ∀ x ∈ reindex 0 (readyNodes c n ts), ∃ b ∈ baseNodes c n ts true, b.rc = x.rc := by
    intro x hx
    obtain ⟨b, hb, hbe⟩ := mem_reindex hx
    refine ⟨b, ?_, hbe⟩
    unfold readyNodes at hb
    rw [List.mem_filter] at hb
    unfold baseNodes
    rw [List.mem_filter]
    exact ⟨hb.1, ready_counted c n _ ts b hrel hb.2⟩
  unfold consensusNodes at hcn
  cases hp : ch.pledging with
  | none => simp only [hp] at hcn; exact Or.inl (hready cn hcn)
  | some ci =>
    simp only [hp] at hcn
    by_cases hr : round = 0
    · simp only [hr, if_true, List.mem_append, List.mem_singleton] at hcn
      rcases hcn with h | h
      · exact Or.inl (hready cn h)
      · exact Or.inr ⟨hr, ci, rfl, by rw [h], by rw [h]; simp [length_reindex]⟩
    · simp only [hr, if_false] at hcn
      exact Or.inl (hready cn hcn)

/-- **ready_subset_base** for the constants of the source tree. -/
theorem ready_subset_base (n : Node) (ch : Chain) (round ts : Nat) :
    ∀ cn ∈ consensusNodes genConsts n ch round ts,
      (∃ b ∈ baseNodes genConsts n ts true, b.rc = cn.rc) ∨
      (round = 0 ∧ ∃ ci, ch.pledging = some ci ∧ cn.rc = ci.rc ∧
        cn.idx = (readyNodes genConsts n ts).length) :=
  ready_subset_base_of genConsts Mixin.Facts.ExpectedC10.maturity_le n ch round ts

theorem ready_le_base (c : Consts) (hrel : c.refThr * c.roundGap ≤ c.acceptMin) (n : Node) (ts : Nat) :
    (readyNodes c n ts).length ≤ consensusBase c n ts true := by
  unfold readyNodes consensusBase baseNodes
  exact filter_length_mono _ _ _ (fun a _ h => ready_counted c n _ ts a hrel h)

/-- the number of keys a certificate is checked against: the base covers it, except for the one
    extra key of a round-0 certificate on a pledging chain -/
theorem keys_le_base (n : Node) (ch : Chain) (round ts : Nat) :
    (consensusKeys genConsts n ch round ts).length ≤
      consensusBase genConsts n ts true + (if round = 0 ∧ ch.pledging.isSome then 1 else 0) := by
  have h := ready_le_base genConsts Mixin.Facts.ExpectedC10.maturity_le n ts
  unfold consensusKeys consensusNodes
  cases hp : ch.pledging with
  | none => simp [length_reindex]; omega
  | some ci =>
    by_cases hr : round = 0
    · simp [hr, length_reindex]; omega
    · simp [hr, length_reindex]; omega

/-! ## the property -/

/-
**Full statement (`quorum_intersect`) — FALSE of the code, see the counterexample below.**

  theorem quorum_intersect (n : Node) (ch : Chain) (round ts : Nat) (S T : Finset Nat)
      (hS : S ⊆ Finset.range (consensusKeys genConsts n ch round ts).length)
      (hT : T ⊆ Finset.range (consensusKeys genConsts n ch round ts).length)
      (hSc : consensusThreshold genConsts n ts true ≤ S.card)
      (hTc : consensusThreshold genConsts n ts true ≤ T.card) :
      (consensusKeys genConsts n ch round ts).length < 3 * (S ∩ T).card

What is proved (`quorum_intersect_partial`) adds the hypothesis `round ≠ 0 ∨ ch.pledging = none`
(equivalently: the key vector has at most `consensusBase` entries). What is missing is exactly the
round-0 certificate checked on a chain that has no round yet (`Chain.IsPledging`), where
`consensusNodes` appends the chain's own node to the ready nodes while `ConsensusThreshold(ts, true)`
is computed from the base without it.
-/

/-- For every membership history, timestamp and chain — except round-0 certificates on a pledging
    chain — any two position sets meeting the final threshold share more than a third of the key
    vector they are checked against. -/
theorem quorum_intersect_partial (n : Node) (ch : Chain) (round ts : Nat) (S T : Finset Nat)
    (hcase : round ≠ 0 ∨ ch.pledging = none)
    (hS : S ⊆ Finset.range (consensusKeys genConsts n ch round ts).length)
    (hT : T ⊆ Finset.range (consensusKeys genConsts n ch round ts).length)
    (hSc : consensusThreshold genConsts n ts true ≤ S.card)
    (hTc : consensusThreshold genConsts n ts true ≤ T.card) :
    (consensusKeys genConsts n ch round ts).length < 3 * (S ∩ T).card := by
  have hle := keys_le_base n ch round ts
  have hzero : (if round = 0 ∧ ch.pledging.isSome then 1 else 0) = 0 := by
    rcases hcase with h | h
    · simp [h]
    · simp [h]
  rw [hzero, Nat.add_zero] at hle
  have hcardS : S.card ≤ (consensusKeys genConsts n ch round ts).length := by
    simpa using Finset.card_le_card hS
  have hmin := Mixin.Facts.ExpectedC10.min_le_sentinel
  unfold consensusThreshold at hSc hTc
  by_cases hb : consensusBase genConsts n ts true < genConsts.minNodes
  · simp only [hb, if_true] at hSc
    omega
  · simp only [hb, if_false] at hSc hTc
    have := quorum_sets (Finset.range (consensusKeys genConsts n ch round ts).length) S T
      (consensusBase genConsts n ts true) (by simpa using hle) hS hT hSc hTc
    simpa using this

/-- If the effective membership is below the minimum, the threshold is out of reach of any 64-bit
    signer mask: no certificate can meet it. -/
theorem below_minimum_no_cert (n : Node) (ts : Nat)
    (hb : consensusBase genConsts n ts true < genConsts.minNodes)
    (S : Finset Nat) (hS : S ⊆ Finset.range 64) :
    S.card < consensusThreshold genConsts n ts true := by
  have : S.card ≤ 64 := by simpa using Finset.card_le_card hS
  unfold consensusThreshold
  simp only [hb, if_true]
  omega

/-- …and it is out of reach of the key vector as well (away from the round-0 pledging case). -/
theorem below_minimum_keys_short (n : Node) (ch : Chain) (round ts : Nat)
    (hb : consensusBase genConsts n ts true < genConsts.minNodes) :
    (consensusKeys genConsts n ch round ts).length < consensusThreshold genConsts n ts true := by
  have hle := keys_le_base n ch round ts
  have hmin := Mixin.Facts.ExpectedC10.min_le_sentinel
  unfold consensusThreshold
  simp only [hb, if_true]
  split at hle <;> omega

/-! ## every (key vector, threshold) pair the finalization verifier uses

`Mixin.Finality.finalizationAttempts` lists the pairs `verifyFinalization` hands to the certificate
verifier (`Mixin.C09.verify_attempts` shows that these are the only ones): the primary attempt at the
certificate timestamp and, on mainnet before the signer-set fork inside the node-operation window,
the retry with the key vector of the hour before the window. -/

open Mixin.Finality in
theorem attempts_spec (c : Consts) (n : Node) (ch : Chain) (round ts : Nat) :
    ∀ a ∈ finalizationAttempts c n ch round ts,
      a = (consensusKeys c n ch round ts, consensusThreshold c n ts true) ∨
      a = (consensusKeys c n ch round (legacyTs c n ts), consensusThreshold c n (legacyTs c n ts) true) := by
  intro a ha
  unfold finalizationAttempts at ha
  split at ha
  · cases ha
  · simp only at ha
    split at ha
    · simp only [List.mem_singleton] at ha; exact Or.inl ha
    · split at ha
      · simp only [List.mem_singleton] at ha; exact Or.inl ha
      · split at ha
        · simp only [List.mem_singleton] at ha; exact Or.inl ha
        · simp only [List.mem_cons, List.not_mem_nil, or_false] at ha
          rcases ha with ha | ha
          · exact Or.inl ha
          · exact Or.inr ha

open Mixin.Finality in
/-- **attempts_intersect_partial**: for every pair the finalization verifier uses — primary and legacy
    retry alike — two position sets meeting the pair's threshold share more than a third of the
    pair's key vector (same exception as `quorum_intersect_partial`: round 0 on a pledging chain). -/
theorem attempts_intersect_partial (n : Node) (ch : Chain) (round ts : Nat)
    (hcase : round ≠ 0 ∨ ch.pledging = none)
    (a : List (Nat × Nat) × Nat) (ha : a ∈ finalizationAttempts genConsts n ch round ts)
    (S T : Finset Nat) (hS : S ⊆ Finset.range a.1.length) (hT : T ⊆ Finset.range a.1.length)
    (hSc : a.2 ≤ S.card) (hTc : a.2 ≤ T.card) :
    a.1.length < 3 * (S ∩ T).card := by
  rcases attempts_spec genConsts n ch round ts a ha with h | h
  · subst h; exact quorum_intersect_partial n ch round ts S T hcase hS hT hSc hTc
  · subst h; exact quorum_intersect_partial n ch round _ S T hcase hS hT hSc hTc

/-! ## the counterexample: 7 genesis nodes, one node pledged 13 h ago, its own chain, round 0 -/

def g (i : Nat) : Rec := { ts := 0, id := i, signer := 100 + i, payee := 200 + i, state := .accepted, tx := 300 + i }
def hour : Nat := 3600000000000
def pledgedAt : Nat := 240 * hour + 3 * hour
def pl : Rec := { ts := pledgedAt, id := 8, signer := 108, payee := 208, state := .pledging, tx := 308 }
def witnessNode : Node :=
  { epoch := 0, mainnet := false, self := 1, selfSigner := 101, genesis := [1, 2, 3, 4, 5, 6, 7],
    all := [g 1, g 2, g 3, g 4, g 5, g 6, g 7, pl] }
def witnessTs : Nat := pledgedAt + 13 * hour
def witnessChain : Chain := loadChain witnessNode 8 witnessTs false

/-- the model on the witness: key vector of 8 against a threshold of 5 … -/
theorem witness_keys_threshold :
    (consensusKeys genConsts witnessNode witnessChain 0 witnessTs).length = 8 ∧
    consensusThreshold genConsts witnessNode witnessTs true = 5 ∧
    (consensusKeys genConsts witnessNode witnessChain 1 witnessTs).length = 7 := by
  decide

/-- … and two position sets of size 5 among 8 positions meeting in 2 ≤ 8/3 positions: the
    conclusion of `quorum_intersect` fails on the witness while all its hypotheses hold. -/
theorem quorum_intersect_counterexample :
    ∃ (S T : Finset Nat),
      S ⊆ Finset.range (consensusKeys genConsts witnessNode witnessChain 0 witnessTs).length ∧
      T ⊆ Finset.range (consensusKeys genConsts witnessNode witnessChain 0 witnessTs).length ∧
      consensusThreshold genConsts witnessNode witnessTs true ≤ S.card ∧
      consensusThreshold genConsts witnessNode witnessTs true ≤ T.card ∧
      ¬ (consensusKeys genConsts witnessNode witnessChain 0 witnessTs).length < 3 * (S ∩ T).card := by
  refine ⟨{0, 1, 2, 3, 4}, {3, 4, 5, 6, 7}, ?_⟩
  rw [witness_keys_threshold.1, witness_keys_threshold.2.1]
  decide

/-! ### non-vacuity of the positive theorems: on the same history, away from round 0, a 5-of-7
    certificate is feasible and the hypotheses of `quorum_intersect_partial` are met -/
example : consensusThreshold genConsts witnessNode witnessTs true ≤ (consensusKeys genConsts witnessNode witnessChain 1 witnessTs).length := by
  rw [witness_keys_threshold.2.1, witness_keys_threshold.2.2]; decide
example : ({0, 1, 2, 3, 4} : Finset Nat) ⊆ Finset.range 7 := by decide
example : consensusBase genConsts { witnessNode with all := [g 1, g 2] } witnessTs true < genConsts.minNodes := by decide

end Mixin.C10
