import Mixin.Model.TxCodec
import Mixin.Facts.ExpectedC06
/-!
# C06 — transaction encoding is canonical and its hash is content-addressed
-/
namespace Mixin.C06
open Mixin Mixin.Bytes Mixin.TxCodec

/-- Any byte string `unmarshalVersionedTransaction` accepts re-encodes to exactly the same
    bytes. -/
theorem decode_canonical {b : Bytes} {tx : Tx} (h : decodeTx b = some tx) : encodeTx tx = b := by
  unfold decodeTx at h
  split at h
  · cases h
  · split at h
    · cases h
    · rename_i tx' _
      split at h
      · rename_i heq
        cases h
        exact eq_of_beq heq
      · cases h

/-- The payload encoding (what `PayloadHash` hashes) does not depend on the authorization data. -/
theorem hash_ignores_auth (tx : Tx) (agg : Option AggSig) (sigs : List SigMap) :
    payloadBytes { tx with agg := agg, sigs := sigs } = payloadBytes tx := rfl

end Mixin.C06
