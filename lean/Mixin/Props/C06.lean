import Mixin.Model.TxCodec
import Mixin.Proofs.TxCodec
import Mixin.Proofs.TxCodecWf
import Mixin.Facts.ExpectedC06
/-!
# C06 — transaction encoding is canonical and its hash is content-addressed

Property theorems about `Mixin.Model.TxCodec` (the model of `common/encoding.go`,
`common/decoding.go`, `common/version.go`).  Helper lemmas (per-field read-after-write,
list induction, signature maps, masks) live in `Mixin/Proofs/TxCodec.lean`.

* `WF tx`    = `rep tx` (the value is representable in the Go types: array lengths, integer
               ranges, map entries strictly sorted by key) ∧ `guards tx` (no encoder panic guard fires).
* `Canon tx` = the decoder's own limits (≤ 256 references / keys per output / signature maps,
               not both kinds of authorization data, encoded size ≤ 4 MiB).
-/
namespace Mixin.C06
open Mixin Mixin.Bytes Mixin.TxCodec

/-! ## sample values used by the non-vacuity examples -/

def h32 (x : UInt8) : Bytes := List.replicate 32 x
def s64 (x : UInt8) : Bytes := List.replicate 64 x

def sampleIn : Input :=
  { hash := h32 1, index := 3, genesis := [], deposit := none, mint := none }
def sampleDeposit : Input :=
  { hash := h32 0, index := 0, genesis := [],
    deposit := some { chain := h32 9, assetKey := [0x61], transaction := [0x62, 0x63], index := 7, amount := 100000000 },
    mint := none }
def sampleMint : Input :=
  { hash := h32 0, index := 0, genesis := [1, 2], deposit := none,
    mint := some { group := [0x55], batch := 12, amount := 0 } }
def sampleOut : Output :=
  { type := 0, amount := 256, keys := [h32 2, h32 4], mask := h32 3, script := [0xff, 0xfe, 1],
    withdrawal := none }
def sampleWd : Output :=
  { type := 0xa1, amount := 0, keys := [], mask := h32 0, script := [],
    withdrawal := some { address := [0x41], tag := [] } }
def samplePayload : Payload :=
  { version := 5, asset := h32 0xaa, inputs := [sampleIn, sampleDeposit, sampleMint],
    outputs := [sampleOut, sampleWd], references := [h32 7], extra := [1, 2, 3] }
def sampleSigned : Tx :=
  { toPayload := samplePayload, agg := none, sigs := [[(0, s64 5), (2, s64 6)], []] }
def sampleAggOrdinary : Tx :=
  { toPayload := samplePayload, agg := some { signers := [0, 1, 9], sig := s64 8 }, sigs := [] }
def sampleAggSparse : Tx :=
  { toPayload := samplePayload, agg := some { signers := [500], sig := s64 8 }, sigs := [] }

/-! ## canonical decoding -/

/-- Any byte string `unmarshalVersionedTransaction` accepts re-encodes to exactly the same
    bytes. -/
theorem decode_canonical {b : Bytes} {tx : Tx} (h : decodeTx b = some tx) : encodeTx tx = b := by
  unfold decodeTx at h
  split at h
  · cases h
  · split at h
    · cases h
    · split at h
      · rename_i heq
        cases h
        exact eq_of_beq heq
      · cases h

set_option maxRecDepth 100000 in
example : decodeTx (encodeTx sampleSigned) = some sampleSigned := by decide

/-- Whatever the raw decoder returns is well formed — representable and within every panic
    guard of the encoder — and within the decoder's limits; so the canonical re-encoding
    inside `unmarshalVersionedTransaction` (and any later `Marshal`) cannot panic. -/
theorem decode_wf {b : Bytes} {tx : Tx} (h : decodeRaw b = some tx) : WF tx ∧ canon tx = true :=
  decodeRaw_wf h

theorem decode_reencode_no_panic {b : Bytes} {tx : Tx} (h : decodeRaw b = some tx) :
    encodeChecked tx = some (encodeTx tx) := by
  unfold encodeChecked
  rw [if_pos (decode_wf h).1.2]

set_option maxRecDepth 100000 in
example : (decodeRaw (encodeTx sampleAggOrdinary)).isSome = true := by decide

/-! ## round trip -/

/-- Encoding followed by decoding returns an equal transaction: for every well-formed
    transaction within the decoder's limits, `unmarshalVersionedTransaction (encode tx) = tx`.
    Proved compositionally: one read-after-write lemma per field (`readInput_enc`,
    `readOutputL_enc`, `readSignatures_enc`, `readAgg_enc` incl. `maskSigners_maskBytes`, …)
    and induction over inputs, outputs, keys, references, signature maps and signer lists. -/
theorem roundtrip (tx : Tx) (hwf : WF tx) (hc : Canon tx) : decodeTx (encodeTx tx) = some tx :=
  decodeTx_enc tx hwf hc

/-- the raw decoder alone (no size gate needed) -/
theorem roundtrip_raw (tx : Tx) (hwf : WF tx) (hc : canon tx = true) :
    decodeRaw (encodeTx tx) = some tx :=
  decodeRaw_enc tx hwf hc

set_option maxRecDepth 100000 in
example : WF sampleSigned ∧ Canon sampleSigned := by decide
set_option maxRecDepth 100000 in
example : WF sampleAggOrdinary ∧ Canon sampleAggOrdinary := by decide
set_option maxRecDepth 100000 in
example : WF sampleAggSparse ∧ Canon sampleAggSparse := by decide
set_option maxRecDepth 100000 in
example : useSparse [500] = true ∧ useSparse [0, 1, 9] = false := by decide

/-- `Marshal` (which, `config.Debug` being `true`, unmarshals its own output and panics on
    failure) never panics on a well-formed transaction within the decoder's limits. -/
theorem marshal_total (tx : Tx) (hwf : WF tx) (hc : Canon tx) : marshal tx = some (encodeTx tx) := by
  unfold marshal encodeChecked
  rw [if_pos hwf.2]
  simp only
  rw [roundtrip tx hwf hc]
  simp

/-- Exact characterisation of acceptance: the accepted byte strings are precisely the
    encodings of well-formed transactions within the decoder's limits. -/
theorem decodeTx_iff (b : Bytes) (tx : Tx) :
    decodeTx b = some tx ↔ WF tx ∧ Canon tx ∧ encodeTx tx = b := by
  constructor
  · intro h
    have hb := decode_canonical h
    unfold decodeTx at h
    split at h
    · cases h
    · rename_i hsize
      split at h
      · cases h
      · rename_i tx' hraw
        split at h
        · cases h
          have ⟨hwf, hc⟩ := decode_wf hraw
          exact ⟨hwf, ⟨hc, by rw [hb]; omega⟩, hb⟩
        · cases h
  · rintro ⟨hwf, hc, rfl⟩
    exact roundtrip tx hwf hc

/-! ## non-canonical forms: accepted by `DecodeTransaction`, rejected by the canonical gate -/

/-- version, asset, no inputs, no outputs, no references, empty extra -/
def hdr : Bytes := magic ++ [0, 5] ++ h32 0xaa ++ [0, 0, 0, 0, 0, 0, 0, 0, 0, 0]
/-- the same with one output whose amount is written as `amt` (length-prefixed) -/
def hdrOut (amt : Bytes) : Bytes :=
  magic ++ [0, 5] ++ h32 0xaa ++ [0, 0] ++ [0, 1] ++ ([0, 0] ++ amt ++ [0, 0] ++ h32 3 ++ [0, 0] ++ [0, 0]) ++
    [0, 0] ++ [0, 0, 0, 0]
def aggHdr : Bytes := hdr ++ [0xff, 0xff, 0xff, 0x01] ++ s64 8

def NonCanonical (b : Bytes) : Prop := (decodeRaw b).isSome = true ∧ (decodeTx b).isNone = true

instance (b : Bytes) : Decidable (NonCanonical b) := by unfold NonCanonical; exact inferInstance

set_option maxRecDepth 100000 in
/-- baseline: the canonical spellings are accepted -/
example : (decodeTx (hdr ++ [0, 0])).isSome = true ∧ (decodeTx (hdrOut [0, 1, 1] ++ [0, 0])).isSome = true ∧
    (decodeTx (aggHdr ++ [0, 0, 1, 1])).isSome = true ∧ (decodeTx (aggHdr ++ [0, 0, 0])).isSome = true := by decide

set_option maxRecDepth 100000 in
/-- a leading zero byte in an amount (`00 02 00 01` for 1) -/
theorem noncanonical_padded_amount : NonCanonical (hdrOut [0, 2, 0, 1] ++ [0, 0]) := by decide

set_option maxRecDepth 100000 in
/-- signature entries in decreasing index order (2 then 1) -/
theorem noncanonical_unsorted_signatures :
    NonCanonical (hdr ++ [0, 1] ++ [0, 2] ++ ([0, 2] ++ s64 6) ++ ([0, 1] ++ s64 5)) := by decide

set_option maxRecDepth 100000 in
/-- a sparse mask for the signer set {0}, whose canonical form is the ordinary mask `00 0001 01` -/
theorem noncanonical_sparse_for_dense : NonCanonical (aggHdr ++ [1, 0, 1, 0, 0]) := by decide

set_option maxRecDepth 100000 in
/-- an ordinary mask with a trailing zero byte -/
theorem noncanonical_mask_trailing_zero : NonCanonical (aggHdr ++ [0, 0, 2, 1, 0]) := by decide

set_option maxRecDepth 100000 in
/-- an empty sparse mask (`01 0000`), canonical form `00 0000` -/
theorem noncanonical_empty_sparse : NonCanonical (aggHdr ++ [1, 0, 0]) := by decide

set_option maxRecDepth 100000 in
/-- an all-zero ordinary mask of one byte (no signer), canonical form `00 0000` -/
theorem noncanonical_zero_mask : NonCanonical (aggHdr ++ [0, 0, 1, 0]) := by decide

set_option maxRecDepth 100000 in
/-- an ordinary mask for the signer set {500} (63 bytes), whose canonical form is sparse -/
theorem noncanonical_ordinary_for_sparse :
    NonCanonical (aggHdr ++ [0, 0, 63] ++ List.replicate 62 0 ++ [16]) := by decide

set_option maxRecDepth 100000 in
/-- 257 signature maps announced, 256 read (`min(sl, SliceCountLimit)`), nothing follows -/
theorem noncanonical_overannounced_maps :
    NonCanonical (hdr ++ [1, 1] ++ (List.replicate 256 [0, 0]).flatten) := by decide

set_option maxRecDepth 100000 in
/-- rejected already by the raw decoder: a duplicate signature index, a trailing byte, a
    zero-length amount at the very end of the input (the `bytes.Reader` quirk is not reachable
    inside a transaction, but the reader models it) -/
example : decodeRaw (hdr ++ [0, 1] ++ [0, 2] ++ ([0, 1] ++ s64 6) ++ ([0, 1] ++ s64 5)) = none ∧
    decodeRaw (hdr ++ [0, 0] ++ [0]) = none ∧ readInteger [0, 0] = none := by decide

/-! ## the hash is content-addressed -/

/-- The payload encoding (what `PayloadHash` hashes) does not depend on the authorization data. -/
theorem hash_ignores_auth (tx : Tx) (agg : Option AggSig) (sigs : List SigMap) :
    payloadBytes { tx with agg := agg, sigs := sigs } = payloadBytes tx := rfl

set_option maxRecDepth 100000 in
example : payloadBytes sampleSigned = payloadBytes sampleAggSparse := by decide

/-- An accepted *unsigned* transaction is its own payload encoding (so `PayloadMarshal` and
    `PayloadHash` of a decoded unsigned transaction are functions of the accepted bytes — and
    of nothing the caller does with its buffer afterwards; the `alias` correspondence stream
    holds the implementation to this). -/
theorem unsigned_is_own_payload {b : Bytes} {tx : Tx} (h : decodeTx b = some tx)
    (ha : tx.agg = none) (hs : tx.sigs = []) : payloadBytes tx = b := by
  have hb := decode_canonical h
  obtain ⟨p, agg, sigs⟩ := tx
  simp only at ha hs
  subst ha hs
  exact hb

theorem encAuth_length_ge (agg : Option AggSig) (sigs : List SigMap) : 2 ≤ (encAuth agg sigs).length := by
  cases agg with
  | none => simp [encAuth, writeU16]
  | some a => simp [encAuth, encAgg, writeU16]

/-- `PayloadMarshal` of an accepted transaction never trips its debug self-check and is the
    payload encoding of the decoded value — for signed and unsigned transactions alike. -/
theorem payloadMarshal_decoded {b : Bytes} {tx : Tx} (h : decodeTx b = some tx) :
    payloadMarshal tx = some (payloadBytes tx) := by
  obtain ⟨⟨hrep, hg⟩, ⟨hc, hsize⟩, hb⟩ := (decodeTx_iff b tx).mp h
  unfold payloadMarshal
  have hwf : WF { tx with agg := none, sigs := [] } := by
    constructor
    · simp only [rep, Bool.and_eq_true] at hrep ⊢
      exact ⟨hrep.1, by simp [repAuth]⟩
    · simp only [guards, Bool.and_eq_true] at hg ⊢
      exact ⟨hg.1, by simp [guardsAuth, maxEncodingInt]⟩
  have hcan : Canon { tx with agg := none, sigs := [] } := by
    constructor
    · simp only [canon, Bool.and_eq_true] at hc ⊢
      exact ⟨⟨⟨hc.1.1.1, hc.1.1.2⟩, by simp [sliceCountLimit]⟩, by simp⟩
    · have h1 : (encodeTx { tx with agg := none, sigs := [] }).length = (encPayload tx.toPayload).length + 2 := by
        simp [encodeTx, encAuth, writeU16]
      have h2 : (encodeTx tx).length = (encPayload tx.toPayload).length + (encAuth tx.agg tx.sigs).length := by
        simp [encodeTx]
      have := encAuth_length_ge tx.agg tx.sigs
      omega
  exact marshal_total _ hwf hcan

theorem payloadBytes_eq (tx : Tx) : payloadBytes tx = encPayload tx.toPayload ++ encAuth none [] := rfl

/-- Two well-formed transactions with the same payload encoding have the same payload
    (version, asset, inputs incl. genesis/deposit/mint data, outputs incl. withdrawal data,
    references, extra): the payload encoding is injective. No decoder limit is assumed — the
    proof reads the bytes back with the limit-parametric reader at limit 65535. -/
theorem payload_inj (t₁ t₂ : Tx) (h₁ : WF t₁) (h₂ : WF t₂)
    (h : payloadBytes t₁ = payloadBytes t₂) : t₁.toPayload = t₂.toPayload := by
  have key : ∀ t : Tx, WF t →
      readPayloadL 65535 (payloadBytes t) = some (t.toPayload, encAuth none []) := by
    intro t ⟨hrep, hg⟩
    simp only [rep, guards, Bool.and_eq_true] at hrep hg
    have hgp := hg.1
    simp only [guardsPayload, guardsBody, Bool.and_eq_true, decide_eq_true_eq, List.all_eq_true] at hgp
    obtain ⟨_, ⟨⟨⟨⟨⟨hgil, _⟩, hgol⟩, hgo⟩, hgrl⟩, _⟩⟩ := hgp
    simp only [sliceCountLimit, maxEncodingInt] at hgil hgol hgrl
    rw [payloadBytes_eq]
    apply readPayloadL_enc 65535 _ _ hrep.1 hg.1 (by omega) (by omega) (by omega)
    intro o ho
    have := hgo o ho
    simp only [guardsOutput, Bool.and_eq_true, decide_eq_true_eq] at this
    have := this.1.1.2
    simp only [maxEncodingInt] at this
    exact this
  have e₁ := key t₁ h₁
  have e₂ := key t₂ h₂
  rw [h, e₂] at e₁
  simp only [Option.some.injEq, Prod.mk.injEq] at e₁
  exact e₁.1.symm

/-- Different payloads ⇒ different hash preimages, hence — for any hash function that does
    not collide on these two preimages — different transaction hashes. -/
theorem hash_content_addressed {Hash : Type} (H : Bytes → Hash) (t₁ t₂ : Tx) (h₁ : WF t₁) (h₂ : WF t₂)
    (hcoll : H (payloadBytes t₁) = H (payloadBytes t₂) → payloadBytes t₁ = payloadBytes t₂)
    (hne : t₁.toPayload ≠ t₂.toPayload) : H (payloadBytes t₁) ≠ H (payloadBytes t₂) :=
  fun e => hne (payload_inj t₁ t₂ h₁ h₂ (hcoll e))

end Mixin.C06
