import Mixin.Model.Custodian
namespace Mixin.C34
end Mixin.C34
