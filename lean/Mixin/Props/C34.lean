import Mixin.Facts.ExpectedC34
import Mixin.Model.Custodian
import Mathlib.Tactic.SplitIfs
import Mathlib.Data.List.Nodup
/-!
# C34 — custodian updates are accepted only in canonical, fully signed form
-/
namespace Mixin.C34
open Mixin.Proto Mixin.Custodian

/-! ## the byte order -/

theorem bytesLt_irrefl : ∀ a : Bytes, bytesLt a a = false
  | [] => rfl
  | a :: as => by simp [bytesLt, bytesLt_irrefl as]

theorem bytesLt_asymm : ∀ a b : Bytes, bytesLt a b = true → bytesLt b a = false
  | [], [], h => by simp [bytesLt] at h
  | [], _ :: _, _ => by simp [bytesLt]
  | _ :: _, [], h => by simp [bytesLt] at h
  | a :: as, b :: bs, h => by
    simp only [bytesLt] at h ⊢
    split_ifs at h ⊢ <;> first | omega | exact bytesLt_asymm as bs h | (simp_all; done)

theorem bytesLt_trans : ∀ a b c : Bytes, bytesLt a b = true → bytesLt b c = true → bytesLt a c = true
  | [], [], _, h, _ => by simp [bytesLt] at h
  | [], _ :: _, [], _, h => by simp [bytesLt] at h
  | [], _ :: _, _ :: _, _, _ => by simp [bytesLt]
  | _ :: _, [], _, h, _ => by simp [bytesLt] at h
  | _ :: _, _ :: _, [], _, h => by simp [bytesLt] at h
  | a :: as, b :: bs, c :: cs, h1, h2 => by
    simp only [bytesLt] at h1 h2 ⊢
    split_ifs at h1 h2 ⊢ <;> first | omega | exact bytesLt_trans as bs cs h1 h2 | (simp_all; done)

theorem bytesLt_total : ∀ a b : Bytes, a = b ∨ bytesLt a b = true ∨ bytesLt b a = true
  | [], [] => Or.inl rfl
  | [], _ :: _ => by simp [bytesLt]
  | _ :: _, [] => by simp [bytesLt]
  | a :: as, b :: bs => by
    simp only [bytesLt]
    rcases bytesLt_total as bs with h | h | h
    · by_cases h1 : a.toNat < b.toNat
      · simp [h1]
      · by_cases h2 : b.toNat < a.toNat
        · simp [h1, h2]
        · have : a = b := UInt8.toNat_inj.mp (by omega)
          left; rw [this, h]
    · split_ifs <;> simp_all
    · split_ifs <;> simp_all


/-! ## sorting -/

/-- strictly increasing by custodian spend key -/
def Lt (a b : Node) : Prop := bytesLt a.custSpend b.custSpend = true
def Le (a b : Node) : Prop := bytesLt b.custSpend a.custSpend = false

def StrictSorted (l : List Node) : Prop := l.Pairwise Lt

theorem insertNode_perm (n : Node) : ∀ r : List Node, (insertNode n r).Perm (n :: r)
  | [] => List.Perm.refl _
  | m :: r => by
    simp only [insertNode]
    split_ifs
    · exact ((insertNode_perm n r).cons m).trans (List.Perm.swap n m r)
    · exact List.Perm.refl _

theorem sortNodes_perm : ∀ l : List Node, (sortNodes l).Perm l
  | [] => List.Perm.refl _
  | n :: r => (insertNode_perm n (sortNodes r)).trans ((sortNodes_perm r).cons n)

theorem insertNode_sorted (n : Node) : ∀ r : List Node, r.Pairwise Le → (insertNode n r).Pairwise Le
  | [], _ => by simp [insertNode]
  | m :: r, h => by
    simp only [insertNode]
    rw [List.pairwise_cons] at h
    split_ifs with hlt
    · rw [List.pairwise_cons]
      refine ⟨?_, insertNode_sorted n r h.2⟩
      intro x hx
      have hx' := (List.Perm.mem_iff (insertNode_perm n r)).mp hx
      rw [List.mem_cons] at hx'
      rcases hx' with rfl | hx'
      · exact bytesLt_asymm _ _ hlt
      · exact h.1 x hx'
    · have hmn : bytesLt m.custSpend n.custSpend = false := by simpa using hlt
      rw [List.pairwise_cons]
      refine ⟨?_, List.pairwise_cons.mpr h⟩
      intro x hx
      rw [List.mem_cons] at hx
      rcases hx with rfl | hx
      · exact hmn
      · -- n ≤ m ≤ x
        have hmx : bytesLt x.custSpend m.custSpend = false := h.1 x hx
        show bytesLt x.custSpend n.custSpend = false
        cases hc : bytesLt x.custSpend n.custSpend with
        | false => rfl
        | true =>
          rcases bytesLt_total m.custSpend n.custSpend with e | e | e
          · rw [e] at hmx; rw [hmx] at hc; cases hc
          · rw [e] at hmn; cases hmn
          · have := bytesLt_trans _ _ _ hc e
            rw [this] at hmx; cases hmx

theorem sortNodes_sorted : ∀ l : List Node, (sortNodes l).Pairwise Le
  | [] => List.Pairwise.nil
  | n :: r => insertNode_sorted n _ (sortNodes_sorted r)

theorem sortNodes_eq_of_sorted : ∀ l : List Node, StrictSorted l → sortNodes l = l
  | [], _ => rfl
  | n :: r, h => by
    unfold StrictSorted at h
    rw [List.pairwise_cons] at h
    simp only [sortNodes]
    rw [sortNodes_eq_of_sorted r h.2]
    cases r with
    | nil => rfl
    | cons m r' =>
      have : bytesLt m.custSpend n.custSpend = false := bytesLt_asymm _ _ (h.1 m (by simp))
      simp [insertNode, this]

/-- The re-sort-and-compare test of the Go code decides strict sortedness, given that the
    custodian spend keys are distinct (which the uniqueness filter has established before). -/
theorem sort_check_iff_sorted (l : List Node) (hd : (l.map Node.custSpend).Nodup) :
    sortNodes l = l ↔ StrictSorted l := by
  constructor
  · intro h
    have hs := sortNodes_sorted l
    rw [h] at hs
    rw [List.Nodup, List.pairwise_map] at hd
    unfold StrictSorted
    refine (hs.and hd).imp ?_
    intro a b ⟨hle, hne⟩
    rcases bytesLt_total a.custSpend b.custSpend with e | e | e
    · exact absurd e hne
    · exact e
    · unfold Le at hle; rw [hle] at e; cases e
  · exact sortNodes_eq_of_sorted l


/-! ## parsing the entries -/

/-- the four keys of an entry that the uniqueness filter remembers -/
def keys4 (a : Node) : List Bytes := [a.payeeSpend, a.payeeView, a.custSpend, a.custView]

/-- `b` (a later entry) reuses none of the remembered keys of `a` as a spend key -/
def Fresh (a b : Node) : Prop := b.payeeSpend ∉ keys4 a ∧ b.custSpend ∉ keys4 a

/-- what `parseCustodianNode` checks of one entry -/
def EntryOk (V : Verifier) (genesis : Bool) (n : Node) : Prop :=
  n.extra.length = nodeExtraSize ∧ n.extra.head? = some actionUpdate ∧ (genesis = false → n.valid V = true)

theorem parseNode_some {V : Verifier} {g : Bool} {c : Bytes} {n : Node} (h : parseNode V g c = some n) :
    n.extra = c ∧ EntryOk V g n := by
  unfold parseNode at h
  split_ifs at h with h1 h2
  dsimp only at h
  split_ifs at h with h3
  · simp only [Option.some.injEq] at h
    subst h
    refine ⟨rfl, by simpa using h1, by simpa using h2, ?_⟩
    intro hg
    subst hg
    simpa using h3

theorem parseNode_of_ok {V : Verifier} {g : Bool} {n : Node} (h : EntryOk V g n) :
    parseNode V g n.extra = some n := by
  obtain ⟨h1, h2, h3⟩ := h
  unfold parseNode
  rw [if_neg (by simpa using h1), if_neg (by simpa using h2)]
  cases g with
  | true => simp
  | false => simp [h3 rfl]

theorem parseNodes_spec (V : Verifier) (g : Bool) : ∀ (cs seen : List Bytes) (ns : List Node),
    parseNodes V g cs seen = some ns →
      ns.map (·.extra) = cs ∧ (∀ n ∈ ns, EntryOk V g n) ∧
      (∀ n ∈ ns, n.payeeSpend ∉ seen ∧ n.custSpend ∉ seen) ∧ ns.Pairwise Fresh
  | [], seen, ns, h => by
    simp only [parseNodes, Option.some.injEq] at h
    subst h
    simp
  | c :: rest, seen, ns, h => by
    simp only [parseNodes] at h
    split at h
    · cases h
    · rename_i cn hcn
      obtain ⟨hext, hok⟩ := parseNode_some hcn
      split_ifs at h with hseen
      split at h
      · cases h
      · rename_i ns' hrec
        simp only [Option.some.injEq] at h
        subst h
        obtain ⟨h1, h2, h3, h4⟩ := parseNodes_spec V g rest _ ns' hrec
        simp only [Bool.or_eq_true, List.contains_iff_mem, not_or] at hseen
        refine ⟨by simp [hext, h1], ?_, ?_, ?_⟩
        · intro n hn
          rw [List.mem_cons] at hn
          rcases hn with rfl | hn
          · exact hok
          · exact h2 n hn
        · intro n hn
          rw [List.mem_cons] at hn
          rcases hn with rfl | hn
          · exact hseen
          · have := h3 n hn
            simp only [List.mem_cons, not_or] at this
            exact ⟨this.1.2.2.2.2, this.2.2.2.2.2⟩
        · rw [List.pairwise_cons]
          refine ⟨?_, h4⟩
          intro n hn
          have := h3 n hn
          simp only [List.mem_cons, not_or] at this
          simp only [Fresh, keys4, List.mem_cons, List.not_mem_nil, or_false, not_or]
          exact ⟨⟨this.1.1, this.1.2.1, this.1.2.2.1, this.1.2.2.2.1⟩,
                 ⟨this.2.1, this.2.2.1, this.2.2.2.1, this.2.2.2.2.1⟩⟩

theorem parseNodes_complete (V : Verifier) (g : Bool) : ∀ (ns : List Node) (seen : List Bytes),
    (∀ n ∈ ns, EntryOk V g n) → (∀ n ∈ ns, n.payeeSpend ∉ seen ∧ n.custSpend ∉ seen) → ns.Pairwise Fresh →
      parseNodes V g (ns.map (·.extra)) seen = some ns
  | [], _, _, _, _ => rfl
  | n :: r, seen, hok, hseen, hfresh => by
    rw [List.pairwise_cons] at hfresh
    simp only [List.map_cons, parseNodes]
    rw [parseNode_of_ok (hok n (by simp))]
    have hs := hseen n (by simp)
    have hs' : (seen.contains n.payeeSpend || seen.contains n.custSpend) = false := by
      simp [List.contains_iff_mem, hs.1, hs.2]
    simp only [hs', Bool.false_eq_true, if_false]
    rw [parseNodes_complete V g r _ (fun m hm => hok m (by simp [hm]))]
    · intro m hm
      have hf := hfresh.1 m hm
      have hm' := hseen m (by simp [hm])
      simp only [Fresh, keys4, List.mem_cons, List.not_mem_nil, or_false, not_or] at hf
      simp only [List.mem_cons, not_or]
      exact ⟨⟨hf.1.1, hf.1.2.1, hf.1.2.2.1, hf.1.2.2.2, hm'.1⟩, ⟨hf.2.1, hf.2.2.1, hf.2.2.2.1, hf.2.2.2.2, hm'.2⟩⟩
    · exact hfresh.2


/-! ## chunks and concatenation -/

theorem chunks_flatten : ∀ (k : Nat) (b : Bytes), b.length = k * nodeExtraSize → (chunks k b).flatten = b
  | 0, b, h => by
    have : b = [] := List.length_eq_zero_iff.mp (by simpa using h)
    simp [chunks, this]
  | k + 1, b, h => by
    simp only [chunks, List.flatten_cons]
    rw [chunks_flatten k (b.drop nodeExtraSize) (by simp only [List.length_drop, nodeExtraSize] at *; omega)]
    exact List.take_append_drop _ _

theorem chunks_of_flatten : ∀ (l : List Bytes), (∀ x ∈ l, x.length = nodeExtraSize) →
    chunks l.length l.flatten = l
  | [], _ => rfl
  | x :: l, h => by
    have hx := h x (by simp)
    simp only [List.length_cons, chunks, List.flatten_cons]
    rw [List.take_left' hx, List.drop_left' hx, chunks_of_flatten l (fun y hy => h y (by simp [hy]))]

theorem flatten_length {k : Nat} : ∀ (l : List Bytes), (∀ x ∈ l, x.length = k) → l.flatten.length = k * l.length
  | [], _ => by simp
  | x :: l, h => by
    simp only [List.flatten_cons, List.length_append, List.length_cons]
    rw [h x (by simp), flatten_length l (fun y hy => h y (by simp [hy])), Nat.mul_succ]
    omega

theorem flatten_inj_len {k : Nat} (hk : 0 < k) : ∀ (l1 l2 : List Bytes),
    (∀ x ∈ l1, x.length = k) → (∀ x ∈ l2, x.length = k) → l1.flatten = l2.flatten → l1 = l2
  | [], [], _, _, _ => rfl
  | [], y :: l2, _, h2, h => by
    have hy := h2 y (by simp)
    have : (y ++ l2.flatten).length = 0 := by rw [← List.flatten_cons, ← h]; rfl
    simp only [List.length_append] at this
    omega
  | x :: l1, [], h1, _, h => by
    have hx := h1 x (by simp)
    have : (x ++ l1.flatten).length = 0 := by rw [← List.flatten_cons, h]; rfl
    simp only [List.length_append] at this
    omega
  | x :: l1, y :: l2, h1, h2, h => by
    simp only [List.flatten_cons] at h
    have := List.append_inj h (by rw [h1 x (by simp), h2 y (by simp)])
    rw [this.1, flatten_inj_len hk l1 l2 (fun z hz => h1 z (by simp [hz])) (fun z hz => h2 z (by simp [hz])) this.2]

/-! ## `ParseCustodianUpdateNodesExtra` accepts exactly the canonical extras -/

/-- canonical form of an update extra with respect to the request it denotes -/
structure Canonical (V : Verifier) (genesis : Bool) (extra : Bytes) (req : Request) : Prop where
  layout : extra = req.custodian ++ flattenExtras req.nodes ++ req.signature
  cust_len : req.custodian.length = 64
  sig_len : req.signature.length = 64
  count : nodesMinimumCount ≤ req.nodes.length
  entries : ∀ n ∈ req.nodes, EntryOk V genesis n
  sorted : StrictSorted req.nodes
  fresh : req.nodes.Pairwise Fresh

theorem fresh_nodup_custSpend {l : List Node} (h : l.Pairwise Fresh) : (l.map Node.custSpend).Nodup := by
  rw [List.Nodup, List.pairwise_map]
  refine h.imp ?_
  intro a b hf
  simp only [Fresh, keys4, List.mem_cons, List.not_mem_nil, or_false, not_or] at hf
  exact fun e => hf.2.2.2.1 e.symm

theorem extras_len {V : Verifier} {g : Bool} {l : List Node} (h : ∀ n ∈ l, EntryOk V g n) :
    ∀ x ∈ l.map (·.extra), x.length = nodeExtraSize := by
  intro x hx
  rw [List.mem_map] at hx
  obtain ⟨n, hn, rfl⟩ := hx
  exact (h n hn).1

theorem map_extra_inj : ∀ l1 l2 : List Node, l1.map (·.extra) = l2.map (·.extra) → l1 = l2
  | [], [], _ => rfl
  | [], _ :: _, h => by simp at h
  | _ :: _, [], h => by simp at h
  | a :: l1, b :: l2, h => by
    simp only [List.map_cons, List.cons.injEq] at h
    rw [map_extra_inj l1 l2 h.2]
    cases a; cases b
    simp_all

theorem parse_sound {V : Verifier} {g : Bool} {extra : Bytes} {req : Request}
    (h : parseExtra V g extra = some req) : Canonical V g extra req := by
  unfold parseExtra at h
  split_ifs at h with hlen
  dsimp only at h
  split_ifs at h with hmod
  split at h
  · cases h
  · rename_i nodes hnodes
    split_ifs at h with hsort
    simp only [Option.some.injEq] at h
    obtain ⟨h1, h2, _, h4⟩ := parseNodes_spec V g _ _ nodes hnodes
    simp only [nodeExtraSize, nodesMinimumCount, Nat.not_lt] at hlen
    have hnl : (slice extra 64 (extra.length - 64)).length = extra.length - 128 := by
      simp only [slice, List.length_take, List.length_drop]; omega
    have hflat : flattenExtras nodes = slice extra 64 (extra.length - 64) := by
      unfold flattenExtras
      rw [h1]
      apply chunks_flatten
      have := Nat.div_add_mod (slice extra 64 (extra.length - 64)).length nodeExtraSize
      simp only [ne_eq, Decidable.not_not] at hmod
      rw [hmod] at this
      rw [Nat.mul_comm]; omega
    have hsort' : flattenExtras (sortNodes nodes) = flattenExtras nodes := by
      rw [hflat]; simpa using hsort
    have hperm := sortNodes_perm nodes
    have hok' : ∀ n ∈ sortNodes nodes, EntryOk V g n := fun n hn => h2 n ((hperm.mem_iff).mp hn)
    have heq : sortNodes nodes = nodes := by
      have := flatten_inj_len (k := nodeExtraSize) (by decide) _ _ (extras_len hok') (extras_len h2) hsort'
      exact map_extra_inj _ _ this
    have hlen_n : nodes.length * nodeExtraSize = extra.length - 128 := by
      have := flatten_length (k := nodeExtraSize) _ (extras_len h2)
      unfold flattenExtras at hflat
      rw [hflat, hnl, List.length_map] at this
      rw [Nat.mul_comm]; exact this.symm
    subst h
    rw [heq]
    refine ⟨?_, ?_, ?_, ?_, h2, ?_, h4⟩
    · dsimp only
      rw [hflat]
      simp only [slice]
      have e0 : extra.length - 64 = 64 + (extra.length - 64 - 64) := by omega
      have e1 : extra.drop (extra.length - 64) = (extra.drop 64).drop (extra.length - 64 - 64) := by
        rw [List.drop_drop, ← e0]
      rw [e1, List.append_assoc, List.take_append_drop, List.take_append_drop]
    · simp only [List.length_take]; omega
    · simp only [List.length_drop]; omega
    · simp only [nodesMinimumCount, nodeExtraSize] at *; omega
    · exact (sort_check_iff_sorted nodes (fresh_nodup_custSpend h4)).mp heq


/-! ## price -/

/-- price of one entry against the previous node set: 100 for a new custodian address,
    1 for a known custodian whose payee address changed, 0 otherwise (units of 10^-8 · 10^8) -/
def priceOf (prev : List (Bytes × Bytes)) (n : Node) : Nat :=
  match prev.lookup n.custAddr with
  | none => newPrice
  | some old => if old = n.payeeAddr then 0 else updatePrice

def price (prev : List (Bytes × Bytes)) (nodes : List Node) : Nat := (nodes.map (priceOf prev)).sum

theorem lookup_filter_ne {k k' : Bytes} (hk : k ≠ k') : ∀ l : List (Bytes × Bytes),
    (l.filter (fun kv => kv.1 != k')).lookup k = l.lookup k
  | [] => rfl
  | (a, b) :: l => by
    by_cases ha : a = k'
    · subst ha
      have : (k == a) = false := by simpa using hk
      simp [List.filter, List.lookup, this, lookup_filter_ne hk l]
    · have h1 : (a != k') = true := by simpa using ha
      simp only [List.filter, h1, List.lookup]
      rw [lookup_filter_ne hk l]

theorem price_filter_ne (k' : Bytes) (filter : List (Bytes × Bytes)) : ∀ nodes : List Node,
    (∀ m ∈ nodes, m.custAddr ≠ k') → price (filter.filter (fun kv => kv.1 != k')) nodes = price filter nodes
  | [], _ => rfl
  | m :: r, h => by
    have hm := h m (by simp)
    have ih := price_filter_ne k' filter r (fun x hx => h x (by simp [hx]))
    unfold price at *
    simp only [List.map_cons, List.sum_cons, ih]
    congr 1
    unfold priceOf
    rw [lookup_filter_ne hm]

/-- The pricing loop of the Go code (with its shrinking filter map) computes exactly the
    per-entry price against the *original* previous set, provided the custodian addresses of
    the update are distinct. -/
theorem price_exact : ∀ (nodes : List Node) (filter : List (Bytes × Bytes)) (total : Nat),
    (nodes.map Node.custAddr).Nodup → (priceLoop nodes filter total).1 = total + price filter nodes
  | [], _, _, _ => by simp [priceLoop, price]
  | n :: r, filter, total, hd => by
    rw [List.map_cons, List.nodup_cons] at hd
    simp only [priceLoop]
    rw [price_exact r _ _ hd.2, price_filter_ne]
    · unfold price
      simp only [List.map_cons, List.sum_cons]
      unfold priceOf
      cases filter.lookup n.custAddr with
      | none => simp; omega
      | some old =>
        by_cases ho : old = n.payeeAddr
        · simp [ho]
        · have : (old != n.payeeAddr) = true := by simpa using ho
          simp [ho, this]; omega
    · intro m hm e
      exact hd.1 (by rw [← e]; exact List.mem_map_of_mem hm)

theorem priceLoop_remaining : ∀ (nodes : List Node) (filter : List (Bytes × Bytes)) (total : Nat),
    (priceLoop nodes filter total).2 = filter.filter (fun kv => !(nodes.map Node.custAddr).contains kv.1)
  | [], filter, _ => by
    simp only [priceLoop, List.map_nil, List.contains_nil, Bool.not_false]
    exact (List.filter_eq_self.mpr (fun _ _ => rfl)).symm
  | n :: r, filter, total => by
    simp only [priceLoop]
    rw [priceLoop_remaining r, List.filter_filter]
    apply List.filter_congr
    intro kv _
    simp only [List.map_cons, List.contains_cons]
    cases h1 : (kv.1 == n.custAddr) <;> simp [bne, h1]


/-! ## consequences of canonical form, in the words of the property -/

theorem custSpend_of_custAddr (n : Node) : n.custSpend = n.custAddr.take 32 := by
  simp [Node.custSpend, Node.custAddr, slice, List.take_take]

theorem nodup_custAddr {l : List Node} (h : (l.map Node.custSpend).Nodup) : (l.map Node.custAddr).Nodup := by
  have : l.map Node.custSpend = (l.map Node.custAddr).map (fun a => a.take 32) := by
    rw [List.map_map]; apply List.map_congr_left; intro n _; exact custSpend_of_custAddr n
  rw [this] at h
  exact List.Nodup.of_map _ h

/-- every entry carries a valid payee and a valid custodian signature over its first 161 bytes -/
def FullySigned (V : Verifier) (nodes : List Node) : Prop :=
  ∀ n ∈ nodes, V n.payeeSpend (n.extra.take 161) n.payeeSig = true ∧
               V n.custSpend (n.extra.take 161) n.custSig = true

/-- all payee and custodian spend keys of the update are pairwise distinct -/
def SpendKeysDistinct (nodes : List Node) : Prop :=
  (nodes.flatMap (fun n => [n.payeeSpend, n.custSpend])).Nodup

theorem valid_unpack {V : Verifier} {n : Node} (h : n.valid V = true) :
    n.payeeSpend ≠ n.custSpend ∧ V n.payeeSpend (n.extra.take 161) n.payeeSig = true ∧
      V n.custSpend (n.extra.take 161) n.custSig = true := by
  simp only [Node.valid, Bool.and_eq_true, bne_iff_ne, ne_eq] at h
  exact ⟨h.1.1, h.1.2, h.2⟩

theorem canonical_signed {V : Verifier} {extra : Bytes} {req : Request}
    (h : Canonical V false extra req) : FullySigned V req.nodes := by
  intro n hn
  exact (valid_unpack ((h.entries n hn).2.2 rfl)).2

theorem canonical_distinct {V : Verifier} {extra : Bytes} {req : Request}
    (h : Canonical V false extra req) : SpendKeysDistinct req.nodes := by
  unfold SpendKeysDistinct
  rw [List.nodup_flatMap]
  constructor
  · intro n hn
    have := (valid_unpack ((h.entries n hn).2.2 rfl)).1
    simp [this]
  · refine h.fresh.imp ?_
    intro a b hf
    simp only [Fresh, keys4, List.mem_cons, List.not_mem_nil, or_false, not_or] at hf
    simp only [Function.onFun, List.disjoint_cons_left, List.mem_cons, List.not_mem_nil, or_false, not_or,
      List.disjoint_nil_left, and_true]
    exact ⟨⟨fun e => hf.1.1 e.symm, fun e => hf.2.1 e.symm⟩, ⟨fun e => hf.1.2.2.1 e.symm, fun e => hf.2.2.2.1 e.symm⟩⟩

/-! ## `validateCustodianUpdateNodes` -/

/-- **C34, acceptance.** An accepted custodian update transaction has the XIN asset, version ≥ 5
    and exactly one custodian-update output to one key with script `fffe40`; its extra parses to
    a request in canonical form (≥ 7 entries of 353 bytes with action byte 1, strictly increasing
    by custodian spend key, all payee/custodian spend keys pairwise distinct, every entry signed
    by its payee and its custodian over its first 161 bytes); a custodian is current and its spend
    key signed everything before the last 64 bytes; the output amount covers 100 per new and 1 per
    changed entry; and an update that keeps the custodian keeps exactly the custodian node set. -/
theorem custodian_accept_sound {V : Verifier} {xin : Bytes} {tx : Tx} {store : StoreRead}
    (h : validate V xin tx store = .accept) :
    ∃ req prev out,
      parseExtra V false tx.extra = some req ∧ Canonical V false tx.extra req ∧
      StrictSorted req.nodes ∧ SpendKeysDistinct req.nodes ∧ FullySigned V req.nodes ∧
      nodesMinimumCount ≤ req.nodes.length ∧
      store = .found prev ∧ tx.outputs = [out] ∧
      txVersionHashSignature ≤ tx.version ∧ tx.asset = xin ∧
      out.type = outputTypeCustodianUpdateNodes ∧ out.keys = 1 ∧ out.script = scriptFFFE40 ∧
      V (prev.custodian.take 32) (req.custodian ++ flattenExtras req.nodes) req.signature = true ∧
      price prev.nodes req.nodes ≤ out.amount ∧
      (req.custodian = prev.custodian →
        (∀ kv ∈ prev.nodes, kv.1 ∈ req.nodes.map Node.custAddr) ∧ prev.nodes.length = req.nodes.length) := by
  unfold validate at h
  split_ifs at h with hver hasset
  split at h
  case h_2 => cases h
  rename_i out hout
  split_ifs at h with htype hrecv
  split at h
  · cases h
  rename_i req hreq
  split_ifs at h with hcount
  split at h
  · cases h
  · cases h
  rename_i prev
  generalize hloop : priceLoop req.nodes prev.nodes 0 = pl at h
  obtain ⟨total, remaining⟩ := pl
  dsimp only at h
  have hcan := parse_sound hreq
  have hnd := nodup_custAddr (fresh_nodup_custSpend hcan.fresh)
  have hprefix : tx.extra.take (tx.extra.length - 64) = req.custodian ++ flattenExtras req.nodes := by
    have hl := hcan.layout
    have hs := hcan.sig_len
    have : tx.extra.length - 64 = (req.custodian ++ flattenExtras req.nodes).length := by
      rw [hl]; simp only [List.length_append]; omega
    rw [this, hl]
    exact List.take_left' rfl
  have hp := price_exact req.nodes prev.nodes 0 hnd
  have hr := priceLoop_remaining req.nodes prev.nodes 0
  rw [hloop] at hp hr
  simp only [Nat.zero_add] at hp hr
  simp only [not_or, Decidable.not_not, Nat.not_lt] at hver hasset htype hrecv hcount
  split_ifs at h with happ hdist hamt hc hrem
  all_goals
    rw [hprefix] at happ
    refine ⟨req, prev, out, hreq, hcan, hcan.sorted, canonical_distinct hcan, canonical_signed hcan, hcan.count,
      rfl, hout, hver, hasset, htype, hrecv.1, hrecv.2, by simpa using happ,
      by rw [← hp]; exact Nat.not_lt.mp hamt, ?_⟩
  · exact fun hsame => absurd hsame hc
  · intro _
    simp only [not_or, Decidable.not_not] at hrem
    refine ⟨?_, hrem.2⟩
    intro kv hkv
    have hnil : remaining = [] := List.length_eq_zero_iff.mp hrem.1
    rw [hnil] at hr
    have := List.filter_eq_nil_iff.mp hr.symm kv hkv
    simpa [List.contains_iff_mem] using this


/-! ## round trip: the parser accepts every canonical extra and returns its entries -/

theorem parse_complete {V : Verifier} {g : Bool} {extra : Bytes} {req : Request}
    (h : Canonical V g extra req) : parseExtra V g extra = some req := by
  obtain ⟨hl, hc, hs, hcount, hent, hsorted, hfresh⟩ := h
  have hel := extras_len hent
  have hflen : (flattenExtras req.nodes).length = nodeExtraSize * req.nodes.length := by
    unfold flattenExtras
    rw [flatten_length _ hel, List.length_map]
  have hlen : extra.length = 64 + nodeExtraSize * req.nodes.length + 64 := by
    rw [hl]; simp only [List.length_append, hc, hs, hflen]
  have htake : extra.take 64 = req.custodian := by
    rw [hl, List.append_assoc]; exact List.take_left' hc
  have hdrop : extra.drop (extra.length - 64) = req.signature := by
    have : extra.length - 64 = (req.custodian ++ flattenExtras req.nodes).length := by
      rw [hlen, List.length_append, hc, hflen]; omega
    rw [this, hl]; exact List.drop_left' rfl
  have hslice : slice extra 64 (extra.length - 64) = flattenExtras req.nodes := by
    unfold slice
    have e : extra.length - 64 - 64 = (flattenExtras req.nodes).length := by rw [hlen, hflen]; omega
    rw [e, hl, List.append_assoc, List.drop_left' hc]
    exact List.take_left' rfl
  have hlt : ¬ extra.length < 64 + nodeExtraSize * nodesMinimumCount + 64 := by
    simp only [nodeExtraSize, nodesMinimumCount] at hcount hlen ⊢; omega
  have hmod : ¬ (nodeExtraSize * req.nodes.length) % nodeExtraSize ≠ 0 := by simp
  have hdiv : nodeExtraSize * req.nodes.length / nodeExtraSize = (req.nodes.map (·.extra)).length := by
    rw [List.length_map]; exact Nat.mul_div_cancel_left _ (by decide)
  unfold parseExtra
  rw [if_neg hlt]
  simp only []
  rw [hslice, hflen, if_neg hmod, hdiv]
  unfold flattenExtras
  rw [chunks_of_flatten _ hel, parseNodes_complete V g req.nodes [] hent (fun _ _ => by simp) hfresh]
  simp only []
  rw [sortNodes_eq_of_sorted _ hsorted, if_neg (by simp), htake, hdrop]

/-- `ParseCustodianUpdateNodesExtra` accepts exactly the canonical extras. -/
theorem parse_iff_canonical (V : Verifier) (g : Bool) (extra : Bytes) (req : Request) :
    parseExtra V g extra = some req ↔ Canonical V g extra req :=
  ⟨parse_sound, parse_complete⟩

/-- **C34, round trip.** Concatenating the custodian address, the sorted entries and the approval
    signature, and parsing the result, returns the same custodian, entries and signature. -/
theorem custodian_roundtrip (V : Verifier) (g : Bool) (req : Request)
    (hc : req.custodian.length = 64) (hs : req.signature.length = 64)
    (hn : nodesMinimumCount ≤ req.nodes.length) (hent : ∀ n ∈ req.nodes, EntryOk V g n)
    (hsorted : StrictSorted req.nodes) (hfresh : req.nodes.Pairwise Fresh) :
    parseExtra V g (req.custodian ++ flattenExtras req.nodes ++ req.signature) = some req :=
  parse_complete ⟨rfl, hc, hs, hn, hent, hsorted, hfresh⟩

/-- `EncodeCustodianNode` lays the fields out where `parseCustodianNode` reads them, and the
    entry passes `parseCustodianNode` when payee and custodian signed its first 161 bytes. -/
theorem encodeNode_fields (c p id s1 s2 s3 : Bytes) (hc : c.length = 64) (hp : p.length = 64)
    (hid : id.length = 32) (h1 : s1.length = 64) (h2 : s2.length = 64) (h3 : s3.length = 64) :
    let n : Node := ⟨encodeNode c p id s1 s2 s3⟩
    n.extra.length = nodeExtraSize ∧ n.extra.head? = some actionUpdate ∧
    n.custAddr = c ∧ n.payeeAddr = p ∧ n.nodeId = id ∧ n.signed = [actionUpdate] ++ c ++ p ++ id ∧
    n.signerSig = s1 ∧ n.payeeSig = s2 ∧ n.custSig = s3 := by
  intro n
  have e : n.extra = [actionUpdate] ++ (c ++ (p ++ (id ++ (s1 ++ (s2 ++ s3))))) := by
    simp [n, encodeNode, List.append_assoc]
  have d1 : n.extra.drop 1 = c ++ (p ++ (id ++ (s1 ++ (s2 ++ s3)))) := by rw [e]; rfl
  have d65 : n.extra.drop 65 = p ++ (id ++ (s1 ++ (s2 ++ s3))) := by
    rw [show (65 : Nat) = 1 + 64 from rfl, ← List.drop_drop, d1]; exact List.drop_left' hc
  have d129 : n.extra.drop 129 = id ++ (s1 ++ (s2 ++ s3)) := by
    rw [show (129 : Nat) = 65 + 64 from rfl, ← List.drop_drop, d65]; exact List.drop_left' hp
  have d161 : n.extra.drop 161 = s1 ++ (s2 ++ s3) := by
    rw [show (161 : Nat) = 129 + 32 from rfl, ← List.drop_drop, d129]; exact List.drop_left' hid
  have d225 : n.extra.drop 225 = s2 ++ s3 := by
    rw [show (225 : Nat) = 161 + 64 from rfl, ← List.drop_drop, d161]; exact List.drop_left' h1
  have d289 : n.extra.drop 289 = s3 := by
    rw [show (289 : Nat) = 225 + 64 from rfl, ← List.drop_drop, d225]; exact List.drop_left' h2
  refine ⟨?_, ?_, ?_, ?_, ?_, ?_, ?_, ?_, ?_⟩
  · rw [e]; simp only [List.length_append, List.length_cons, List.length_nil, hc, hp, hid, h1, h2, h3]; rfl
  · rw [e]; rfl
  · simp only [Node.custAddr, slice, d1]; exact List.take_left' hc
  · simp only [Node.payeeAddr, slice, d65]; exact List.take_left' hp
  · simp only [Node.nodeId, slice, d129]; exact List.take_left' hid
  · simp only [Node.signed]
    have : n.extra = ([actionUpdate] ++ c ++ p ++ id) ++ (s1 ++ (s2 ++ s3)) := by
      rw [e]; simp [List.append_assoc]
    rw [this]; exact List.take_left' (by simp [hc, hp, hid])
  · simp only [Node.signerSig, slice, d161]; exact List.take_left' h1
  · simp only [Node.payeeSig, slice, d225]; exact List.take_left' h2
  · simp only [Node.custSig, slice, d289, nodeExtraSize]; rw [List.take_of_length_le (by omega)]

/-! ## non-vacuity: a tiny concrete instance of every rule -/

example : bytesLt [1, 2] [1, 3] = true ∧ bytesLt [1, 3] [1, 2] = false ∧ bytesLt [2] [2] = false := by decide
set_option maxRecDepth 16384 in
example : parseNode (fun _ _ _ => true) false (actionUpdate :: List.replicate 352 7) = none := by decide
set_option maxRecDepth 16384 in
example : (parseNode (fun _ _ _ => true) true (actionUpdate :: List.replicate 352 7)).isSome = true := by decide
example : (priceLoop [⟨[1, 5]⟩, ⟨[1, 6]⟩] [([5], [9])] 0).1 = newPrice + updatePrice := by decide
example : distinctKeys [([1], [2]), ([1], [3])] = false := by decide
example : validate (fun _ _ _ => true) [1] ⟨4, [1], [], []⟩ .none = .reject := by decide

end Mixin.C34
