import Mixin.Props.C01
import Mixin.Facts.ExpectedC05
/-!
  C05 — validating any decodable transaction never crashes the node.

  The model (lean/Mixin/Model/Validate.lean) returns `panic site` at every Go statement of the
  call tree of `VersionedTransaction.Validate` that can panic: the partial `Integer` operations
  (`Add` in validateInputs / verifyDepositData, `Count` in GetExtraLimit, `Div` in
  validateNodeCancel), `sigs[index]`, dereferences of store results (`custodian`, `lastPledge`,
  `accept`, `submit.Outputs[0]`, `pit.Outputs[i]`, `lastPledge.Inputs[0]`), the nil `pledging` in
  the error path of the node scan, `NodeTransactionExtraAsSigner`, `KeyMultPubPriv` reached through
  `ViewGhostOutputKey` (invalid point / non-canonical scalar taken from the attacker's Extra), the
  `len(filter) != len(prev.Nodes)` guard, and the `config.Debug` re-decode in `PayloadMarshal`.

  On the tree as pinned the statement was false at two sites (both confirmed through the harness
  and repaired by `fix:` commits, see known_findings.json): `sigs[index]` in validateUTXO and
  `Integer.Count` in GetExtraLimit. The model follows the repaired code.
-/
namespace Mixin.C05
open Mixin.Validate Mixin.C01

/-- what decoding guarantees and the proof needs: the payload (a sub-encoding of the canonical
    bytes that were at most TransactionMaximumSize long) fits the re-decode limit -/
structure Decodable (tx : Tx) : Prop where
  payload : tx.payloadSize ≤ txMaxSize

theorem dispatch_np {L : Ledger} {O tx fork f i s} (hI : LedgerInv L)
    (hs : structural tx = .ok ())
    (hin : validateInputs L O tx (txType tx) fork = .ok (f, i)) :
    dispatch L O tx (txType tx) f ≠ .error (.panic s) := by
  obtain ⟨_, _, hout, _⟩ := structural_ok hs
  unfold dispatch
  split
  · exact validateScript_np
  · split
    · rename_i h; exact validateMint_np (by simpa using h)
    · split
      · rename_i h; exact validateDeposit_np (by simpa using h) hI.custodian
      · split
        · exact validateWithdrawalSubmit_np hout
        · split
          · exact validateWithdrawalClaim_np hout hI.custodian hI.txOutputs
          · split
            · rename_i h; exact validateNodePledge_np hin (by simpa using h)
            · split
              · rename_i h; exact validateNodeCancel_np hI hin (by simpa using h)
              · split
                · exact validateNodeAccept_np hI
                · split
                  · rename_i h; exact validateNodeRemove_np hI hin (by simpa using h)
                  · split
                    · exact validateCustodianUpdateNodes_np hI
                    · simp

/-- **validate_total.** For every decodable transaction, every ledger view satisfying the listed
    invariants of reachable states, every oracle and both fork modes, validation returns accept or
    reject: no panic site is reached. -/
theorem validate_total {L : Ledger} {O : Oracle} {tx : Tx} {fork : Bool}
    (hD : Decodable tx) (hI : LedgerInv L) : ∀ site, validate L O tx fork ≠ .panic site := by
  intro site hp
  have hm : validateM L O tx fork = .error (.panic site) := by
    unfold validate at hp
    split at hp <;> simp_all
  unfold validateM at hm
  simp only [bind_panic, structural_np hD.payload, sigPresence_np, validateReferences_np,
    validateInputs_np hI.utxoPos, guardRej_not_panic, validateOutputs_np, pure_ne_panic, false_or,
    and_false, exists_false, or_false] at hm
  obtain ⟨_, hs, _, _, _, _, ⟨f, i⟩, hin, _, _, _, _, hd⟩ := hm
  exact dispatch_np hI hs hin hd

theorem dispatch_cancel {L O tx f} (h : dispatch L O tx ttNodeCancel f = .ok ()) :
    validateNodeCancel L O tx = .ok () := by
  simpa [dispatch, ttNodeCancel, ttScript, ttMint, ttDeposit, ttWithdrawalSubmit, ttWithdrawalClaim, ttNodePledge,
    Facts.Gen.common_TransactionTypeNodeCancel, Facts.Gen.common_TransactionTypeScript,
    Facts.Gen.common_TransactionTypeMint, Facts.Gen.common_TransactionTypeDeposit,
    Facts.Gen.common_TransactionTypeWithdrawalSubmit, Facts.Gen.common_TransactionTypeWithdrawalClaim,
    Facts.Gen.common_TransactionTypeNodePledge] using h

/-- Side observation (not one of C01/C02/C05): under the ledger invariants a node-cancel typed
    transaction is never accepted. Its input would have to be the pledge output (type 0xa3), for
    which validateUTXO collects no signature, and `len(keySigs) < len(Inputs)` then rejects; an
    input that does collect signatures is an ordinary output, whose creating transaction is not
    the pledge. validateNodeCancel (and its KeyMultPubPriv panic on the attacker-chosen scalar in
    Extra[64:96]) is therefore unreachable with an accepting outcome. -/
theorem cancel_never_accepted {L : Ledger} {O tx fork} (hI : LedgerInv L) (ht : txType tx = ttNodeCancel) :
    ∀ i o, validate L O tx fork ≠ .accept i o := by
  intro i o hacc
  obtain ⟨_, _, f, hin, _, _, hd⟩ := validateM_ok (accept_iff.1 hacc)
  rw [ht] at hd
  have h := dispatch_cancel hd
  obtain ⟨a, hl, _, _⟩ := inputs_full hin (by rw [ht]; decide) (by rw [ht]; decide)
  have hks := validateInputs_keysigs hin hl (by rw [ht]; decide) (by rw [ht]; decide)
  unfold validateNodeCancel at h
  simp only [bind_ok, guardRej_ok] at h
  obtain ⟨_, _, _, _, _, _, h⟩ := h
  split at h
  · rename_i sig cancel script inp _ _ hx
    obtain ⟨u, ks, hu, hv, _, hk⟩ := loop_single hx hl
    have hne : ks ≠ [] := by
      intro hc; rw [hx, hk, hc] at hks; simp at hks
    have hty := validateUTXO_collects hv hne
    obtain ⟨hm, hh, _⟩ := utxo_mem hu
    obtain ⟨t', htx', o', ho, hot⟩ := hI.utxoTx u hm
    rw [hh] at htx'
    simp only [bind_ok, guardRej_ok] at h
    obtain ⟨_, _, _, _, _, _, _, _, r, hr, h⟩ := h
    cases r with
    | none => simp at h
    | some pledging =>
      simp only [bind_ok, guardRej_ok] at h
      obtain ⟨_, _, h⟩ := h
      rw [htx'] at h
      simp only at h
      split at h
      · rename_i po hpo
        simp only [bind_ok, guardRej_ok] at h
        obtain ⟨_, hpt, _⟩ := h
        rw [hpo] at ho
        have : o' = po := by
          cases hi : u.index with
          | zero => simp [hi] at ho; exact ho.symm
          | succ n => simp [hi] at ho
        subst this
        simp at hpt
        rw [hpt] at hot
        rcases hty with h' | h' <;> (rw [h'] at hot; revert hot; decide)
      · simp at h
  · simp at h


/-! ### The hypotheses are satisfiable and needed -/
namespace Example

def thr (n : Nat) : List Nat := [255, 254, n]

def fundOut : Output := { type := 0, amount := 20, keys := [101, 102], mask := 110, script := thr 2, withdrawal := false }
def pledgeOut : Output := { type := otNodePledge, amount := 20, keys := [], mask := 0, script := [], withdrawal := false }

/-- a ledger with a funding transaction, its unspent output, a pledging node with its stored
    pledge transaction, and a custodian with two distinct nodes -/
def ledger : Ledger :=
  { utxos := [{ hash := 10, index := 0, type := 0, asset := 1, amount := 20, keys := [101, 102], mask := 110,
                script := thr 2, lock := 0 },
              { hash := 12, index := 0, type := otNodePledge, asset := 1, amount := 20, keys := [], mask := 0,
                script := [], lock := 0 }],
    txs := [{ hash := 10, payloadHash := 10, finalized := true, txType := 0, extraId := 2, signerAddr := 30,
              signerSpend := 31, inputs := [(5, 0)], outputs := [fundOut] },
            { hash := 12, payloadHash := 12, finalized := true, txType := ttNodePledge, extraId := 40, signerAddr := 41,
              signerSpend := 42, inputs := [(11, 0)], outputs := [pledgeOut] }],
    nodes := [{ signerAddr := 41, signerSpend := 42, payeeSpend := 43, state := stPledging, tx := 12 },
              { signerAddr := 51, signerSpend := 52, payeeSpend := 53, state := stAccepted, tx := 13 }],
    custodian := some { key := 150, addr := 50, nodes := [(60, 61), (62, 63)] } }

theorem ledger_inv : LedgerInv ledger where
  utxoPos := by decide
  utxoTx := by decide
  txOutputs := by decide
  nodeStates := by decide
  pledgingTx := by decide
  custodian := by decide
  custodianNodup := by
    intro c hc
    simp [ledger] at hc
    subst hc
    decide

def oracle : Oracle :=
  { checkKey := fun k => 100 ≤ k && k < 200, verify := fun k s => s == k + 1000, aggVerify := fun _ _ _ => false,
    claimSig := false, updParse := none, updSig := false, scalarOk := false, ghostEq := false }

def out (amount key mask : Nat) : Output :=
  { type := 0, amount := amount, keys := [key], mask := mask, script := thr 1, withdrawal := false }

def spend : Tx :=
  { version := 5, asset := 1, references := [], extraLen := 0, extraId := 2, extra64 := 3, extraSpend := 0,
    inputs := [{ hash := 10, index := 0, genesis := false, deposit := none, mint := none }],
    outputs := [out 20 120 130], sigs := some [[(0, 1101), (1, 1102)]], agg := none, hash := 9,
    payloadSize := 200, cap := 1000 }

example : Decodable spend := ⟨by decide⟩
example : validate ledger oracle spend false = .accept 20 20 := by decide

/-- the first repaired crasher: a node-remove typed transaction spending the ordinary output with
    no signature maps is rejected (the pinned code indexed `sigs[0]` of an empty list) -/
example : validate ledger oracle
    { spend with outputs := [{ out 20 120 130 with type := otNodeRemove }], sigs := none } false = .reject := by
  decide

/-- the second repaired crasher: a storage-style output of amount 2^77 takes the capacity branch
    of GetExtraLimit instead of `Count` -/
example : getExtraLimit { spend with outputs := [{ out (2 ^ 77) 120 130 with script := storageScript }] }
    = .ok extraCapacity := by rfl

/-- each ledger hypothesis is needed: without it the model (and the code) panics -/
def zeroUtxo : Utxo :=
  { hash := 10, index := 0, type := 0, asset := 1, amount := 0, keys := [101, 102], mask := 110, script := thr 2, lock := 0 }

example : validate { ledger with utxos := [zeroUtxo] } oracle spend false = .panic .validateInputs := by decide

def depositTx : Tx :=
  { spend with
    inputs := [{ hash := 0, index := 0, genesis := false, mint := none,
                 deposit := some { chain := 8, assetKeyOk := true, assetKey := 60, txOk := true, uniq := 70, amount := 40 } }],
    outputs := [out 40 123 133], sigs := some [[(0, 1150)]] }

example : validate ledger oracle depositTx false = .accept 40 40 := by decide
example : validate { ledger with custodian := none } oracle depositTx false = .panic .validateDeposit := by decide

end Example
end Mixin.C05
