import Mixin.Model.Validate
namespace Mixin.C05
end Mixin.C05
