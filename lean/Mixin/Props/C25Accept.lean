import Mixin.Model.MintAccept
import Mixin.Props.C25
import Mixin.Props.C29
import Mixin.Props.C29Accept
/-!
# C25 at the acceptance level — what every ACCEPTED mint snapshot satisfies

`Mixin.MintAccept.validateMint` models `kernel/mint.go:validateMintSnapshot`. The theorems say
that acceptance forces the schedule (C25), the distribution rules (C25) and the election (C29):
the theorems of `Mixin.C25` about the pure functions therefore hold of every accepted mint.
The store reads the validator trusts are the fields of `MintEnv`.
-/
namespace Mixin.C25
open Mixin.Amount Mixin.Mint Mixin.Election Mixin.MintAccept

/-- `checkUniversalMintPossibility(ts, validateOnly = true)` with a positive batch: the batch is
    the day index of `ts`, not below the last mint; equal to it only to re-validate the recorded
    amount; beyond it the amount is the multi-batch amount of the schedule. -/
theorem possibility_amount (P : Params) {epoch ts lb la b a : Nat}
    (h : mintPossibility P epoch ts true lb la = some (b, a)) (hb : 0 < b) :
    lb ≤ b ∧ (b = lb → a = la) ∧ (lb < b → mintMulti P lb b = some a) := by
  unfold mintPossibility at h
  by_cases h1 : ts ≤ epoch
  · rw [if_pos h1] at h; cases h; omega
  · rw [if_neg h1] at h
    simp only at h
    by_cases h2 : (ts - epoch) / Mint.hourNs / 24 < 1
    · rw [if_pos h2] at h; cases h; omega
    · rw [if_neg h2] at h
      by_cases h3 : (ts - epoch) / Mint.hourNs % 24 < mintTimeBegin ∨ (ts - epoch) / Mint.hourNs % 24 > mintTimeEnd
      · rw [if_pos h3] at h; cases h; omega
      · rw [if_neg h3] at h
        by_cases h4 : (ts - epoch) / Mint.hourNs / 24 < lb
        · rw [if_pos h4] at h; cases h; omega
        · rw [if_neg h4] at h
          by_cases h5 : (ts - epoch) / Mint.hourNs / 24 = lb
          · rw [if_pos h5] at h
            simp only [if_true] at h
            cases h
            exact ⟨by omega, fun _ => rfl, fun hlt => by omega⟩
          · rw [if_neg h5] at h
            cases hm : mintMulti P lb ((ts - epoch) / Mint.hourNs / 24) with
            | none => rw [hm] at h; cases h
            | some x =>
              rw [hm] at h
              cases h
              exact ⟨by omega, fun he => absurd he h5, fun _ => hm⟩

theorem buildMint_tx {env : MintEnv} {ts : Nat} {vo : Bool} {b : MintTx} (h : buildMint env ts vo = .tx b) :
    mintPossibility params env.epoch ts vo env.lastBatch env.lastAmount = some (b.batch, b.amount) ∧
    ∃ mints safe light, buildOutputs b.batch b.amount (distAt env ts) = .tx mints safe light ∧
      b.outputs = mints ++ [safe, light] ∧ b.rest = env.canonRest := by
  unfold buildMint at h
  cases hp : mintPossibility params env.epoch ts vo env.lastBatch env.lastAmount with
  | none => rw [hp] at h; cases h
  | some pr =>
    obtain ⟨batch, amount⟩ := pr
    rw [hp] at h; simp only at h
    cases ho : buildOutputs batch amount (distAt env ts) with
    | nil => rw [ho] at h; cases h
    | panic => rw [ho] at h; cases h
    | tx k s l =>
      rw [ho] at h; simp only at h
      cases h
      exact ⟨rfl, k, s, l, ho, rfl, rfl⟩

theorem validateMint_accept {env : MintEnv} {proposer ts : Nat} {tx : MintTx}
    (h : validateMint env proposer ts tx = .accept) :
    electedIs env.hist env.epoch mintOp ts proposer = .pass ∧ buildMint env ts true = .tx tx := by
  unfold validateMint at h
  cases he : electedIs env.hist env.epoch mintOp ts proposer with
  | panic => rw [he] at h; cases h
  | reject => rw [he] at h; cases h
  | pass =>
    rw [he] at h; simp only at h
    cases hb : buildMint env ts true with
    | panic => rw [hb] at h; cases h
    | nil => rw [hb] at h; cases h
    | tx b =>
      rw [hb] at h; simp only at h
      by_cases heq : tx = b
      · exact ⟨rfl, by rw [heq]⟩
      · rw [if_neg heq] at h; cases h

theorem electedIs_mint_pass {hist : List Rec} {epoch ts proposer : Nat}
    (h : electedIs hist epoch mintOp ts proposer = .pass) : elect hist epoch mintOp ts = .id proposer := by
  unfold electedIs at h
  split at h
  · cases h
  · next hz =>
    unfold elect at hz
    have : electOps.contains mintOp = true := Mixin.Facts.ExpectedC29.remove_elected.2.2.1
    rw [this] at hz
    simp only [Bool.not_true, Bool.false_eq_true, if_false] at hz
    split at hz
    · cases hz
    · split at hz <;> cases hz
  · next x hx =>
    split at h
    · next hxp => rw [hx, hxp]
    · cases h

/-- **Every accepted mint follows the schedule.** A mint snapshot accepted by
    `validateMintSnapshot` at time `ts` is proposed by the node elected for mints at `ts`, lies
    strictly after the epoch inside the mint hour window, carries the batch computed from `ts`
    (beyond the legacy ending, not below the last mint), a positive amount that is the
    multi-batch amount of the schedule for `(lastBatch, batch]` (or, for `batch = lastBatch`, the
    recorded amount: the re-validation of the recorded mint), and its outputs are exactly the
    split of that amount: the work based distribution of the kernel share over the accepted
    nodes, then the custodian share, then the light share; every other payload byte is the
    kernel's own. -/
theorem accepted_mint_follows_schedule {env : MintEnv} {proposer ts : Nat} {tx : MintTx}
    (h : validateMint env proposer ts tx = .accept) :
    elect env.hist env.epoch mintOp ts = .id proposer ∧
    env.epoch < ts ∧
    mintTimeBegin ≤ (ts - env.epoch) / Mint.hourNs % 24 ∧ (ts - env.epoch) / Mint.hourNs % 24 ≤ mintTimeEnd ∧
    tx.batch = (ts - env.epoch) / Mint.hourNs / 24 ∧ legacyEnding < tx.batch ∧ env.lastBatch ≤ tx.batch ∧
    0 < tx.amount ∧
    (tx.batch = env.lastBatch → tx.amount = env.lastAmount) ∧
    (env.lastBatch < tx.batch → mintMulti params env.lastBatch tx.batch = some tx.amount) ∧
    ∃ mints safe light, buildOutputs tx.batch tx.amount (distAt env ts) = .tx mints safe light ∧
      tx.outputs = mints ++ [safe, light] ∧ tx.rest = env.canonRest := by
  obtain ⟨he, hb⟩ := validateMint_accept h
  obtain ⟨hp, mints, safe, light, ho, hout, hrest⟩ := buildMint_tx hb
  have hg := buildOutputs_tx ho
  have hb0 : 0 < tx.batch := by omega
  have hw := mint_window params hp hb0
  have ha := possibility_amount params hp hb0
  exact ⟨electedIs_mint_pass he, hw.1, hw.2.1, hw.2.2.1, hw.2.2.2, hg.2.1, ha.1, hg.1, ha.2.1, ha.2.2,
    mints, safe, light, ho, hout, hrest⟩

theorem distribute_works {n : Nat} {gap : Int} {today spaces : List Nat} {works : List (Nat × Nat)}
    {base thr : Nat} {shares : List Nat} (hgap : 0 < gap)
    (h : distribute n gap today spaces works base thr = .ok shares) :
    distributeByWorks works base thr = .ok shares := by
  unfold distribute at h
  rw [if_neg (by omega), if_neg (by omega)] at h
  split at h
  · cases h
  · exact h

/-- **The distribution theorems hold of every accepted mint**: its outputs are the kernel
    shares, the custodian share and the light share; they sum exactly to the amount; the kernel
    shares sum to at most half; the custodian share is `⌊amount/10⌋·4`; every output is
    positive and the light share is at least a tenth; and after the first day a node with more
    work (raw `lead·1.2 + sign` of the previous day, in accepted-list order) never has a smaller
    share. -/
theorem accepted_mint_outputs {env : MintEnv} {proposer ts : Nat} {tx : MintTx}
    (h : validateMint env proposer ts tx = .accept) :
    ∃ mints safe light, tx.outputs = mints ++ [safe, light] ∧
      mints.sum + safe + light = tx.amount ∧ 2 * mints.sum ≤ tx.amount ∧ safe = tx.amount / 10 * 4 ∧
      (∀ o ∈ tx.outputs, 0 < o) ∧ tx.amount / 10 ≤ light ∧
      (0 < dayGap env ts → mints.length = env.works.length ∧
        ∀ (i j : Nat) wi wj si sj, env.works[i]? = some wi → env.works[j]? = some wj → mints[i]? = some si →
          mints[j]? = some sj → workT wi ≤ workT wj → si ≤ sj) := by
  obtain ⟨_, _, _, _, _, _, _, _, _, _, mints, safe, light, ho, hout, _⟩ := accepted_mint_follows_schedule h
  have ho' : buildOutputs tx.batch tx.amount
      (distOf (acceptedCount env ts) (dayGap env ts) env.today env.spaces env.works env.thr) = .tx mints safe light := ho
  have hpos := outputs_positive ho'
  refine ⟨mints, safe, light, hout, dist_sums_exact ho', kernel_le_half ho', custodian_is_4_tenths ho', ?_, hpos.2.2.2, ?_⟩
  · intro o hmem
    rw [hout] at hmem
    rcases List.mem_append.mp hmem with hm | hm
    · exact hpos.1 o hm
    · simp only [List.mem_cons, List.mem_nil_iff, or_false] at hm
      rcases hm with rfl | rfl
      · exact hpos.2.1
      · exact hpos.2.2.1
  · intro hgap
    have hd := (buildOutputs_tx ho').2.2.1
    exact dist_monotone (distribute_works hgap hd)

/-- The proposer of an accepted mint is neither the oldest nor the newest accepted node. -/
theorem accepted_mint_proposer_not_extreme {env : MintEnv} {proposer ts : Nat} {tx : MintTx}
    (h : validateMint env proposer ts tx = .accept) :
    (∀ a, (nodesList env.hist ts true).head? = some a → proposer ≠ a.id) ∧
    (∀ z, (nodesList env.hist ts true).getLast? = some z → proposer ≠ z.id) :=
  Mixin.C29.elect_not_extremes (accepted_mint_follows_schedule h).1

/-! ## sequences of accepted mints -/

theorem cum_add_sumFrom (f : Nat → Nat) : ∀ (k i : Nat), cum f (i + k) = cum f i + sumFrom f i k
  | 0, i => by simp [sumFrom]
  | k + 1, i => by
    have := cum_add_sumFrom f k (i + 1)
    rw [show i + (k + 1) = i + 1 + k by omega, this, cum, sumFrom]
    omega

/-- A run of newly accepted mints starting after batch `b0`: every step is a mint snapshot
    accepted by the validator in a store state whose last mint distribution is the previous
    accepted mint (what `WriteSnapshot` records), with a batch beyond it. `total` is the sum of
    the accepted amounts. -/
inductive AcceptedRun (b0 : Nat) : Nat → Nat → Prop
  | start : AcceptedRun b0 b0 0
  | step {last total : Nat} {env : MintEnv} {proposer ts : Nat} {tx : MintTx} :
      AcceptedRun b0 last total → env.lastBatch = last → validateMint env proposer ts tx = .accept →
      last < tx.batch → AcceptedRun b0 tx.batch (total + tx.amount)

/-- **Over any run of accepted mints the total minted stays within the pool**: it is exactly
    the sum of the scheduled batches `(b0, last]`, so together with everything scheduled up to
    `b0` it never exceeds `MintPool`. -/
theorem accepted_mints_cumulative_le_pool {b0 last total : Nat} (h : AcceptedRun b0 last total) :
    b0 ≤ last ∧ total + cum (batchVal params) (b0 + 1) = cum (batchVal params) (last + 1) ∧
      total + cum (batchVal params) (b0 + 1) ≤ params.pool := by
  have key : b0 ≤ last ∧ total + cum (batchVal params) (b0 + 1) = cum (batchVal params) (last + 1) := by
    induction h with
    | start => exact ⟨Nat.le_refl _, by omega⟩
    | @step last total env proposer ts tx _ hlast hacc hlt ih =>
      have hs := accepted_mint_follows_schedule hacc
      have hm := hs.2.2.2.2.2.2.2.2.2.1 (by omega)
      rw [hlast] at hm
      have hsum := ((multi_is_sum params last tx.batch tx.amount).mp hm).2.2
      have hc := cum_add_sumFrom (batchVal params) (tx.batch - last) (last + 1)
      rw [show last + 1 + (tx.batch - last) = tx.batch + 1 by omega] at hc
      refine ⟨by omega, ?_⟩
      rw [hc, hsum]; omega
  exact ⟨key.1, key.2, by rw [key.2]; exact cumulative_le_pool_params last⟩

/-! ## the time a mint snapshot is validated at -/

/-- A mint snapshot with a timestamp is validated at that timestamp by every node, whatever
    its clock: two nodes (the proposer later included) reach the same decision. -/
theorem mint_decision_independent_of_clock (self₁ clock₁ self₂ clock₂ snapNode snapTs : Nat) (hts : snapTs ≠ 0)
    (env : MintEnv) (tx : MintTx) :
    validateMintSnap self₁ clock₁ env snapNode snapTs tx = validateMintSnap self₂ clock₂ env snapNode snapTs tx := by
  unfold validateMintSnap
  rw [Mixin.C29.operation_time_is_snapshot_time self₁ clock₁ snapNode snapTs (Or.inl hts),
    Mixin.C29.operation_time_is_snapshot_time self₂ clock₂ snapNode snapTs (Or.inl hts)]

/-- `accepted_mint_follows_schedule` for a timestamped snapshot: the schedule, window and election
    are those of the snapshot's timestamp. -/
theorem accepted_mint_snapshot_at_its_timestamp {self clock snapNode snapTs : Nat} (hts : snapTs ≠ 0)
    {env : MintEnv} {tx : MintTx} (h : validateMintSnap self clock env snapNode snapTs tx = .accept) :
    validateMint env snapNode snapTs tx = .accept := by
  unfold validateMintSnap at h
  rwa [Mixin.C29.operation_time_is_snapshot_time self clock snapNode snapTs (Or.inl hts)] at h

/-! ### non-vacuity: the model accepts a kernel-built mint and rejects a changed amount -/

def demoEnv : MintEnv :=
  { hist := (List.range 9).map (fun i => ⟨100 - i, i, 1000, .accepted⟩), epoch := 1000,
    lastBatch := 1706, lastAmount := 0,
    today := List.replicate 9 1, spaces := List.replicate 9 5000,
    works := [(10, 100), (20, 300), (5, 50), (0, 0), (40, 900), (11, 120), (9, 80), (7, 70), (3, 30)],
    thr := 7, canonRest := 77 }

def demoTs : Nat := 1000 + 1707 * 86400000000000 + 8 * 3600000000000

example : ∃ b, buildMint demoEnv demoTs true = .tx b ∧
    validateMint demoEnv (match elect demoEnv.hist 1000 mintOp demoTs with | .id x => x | _ => 0) demoTs b = .accept ∧
    validateMint demoEnv (match elect demoEnv.hist 1000 mintOp demoTs with | .id x => x | _ => 0) demoTs
      { b with amount := b.amount + 1 } = .reject := ⟨_, rfl, by decide, by decide⟩

end Mixin.C25
