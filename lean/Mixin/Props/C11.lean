import Mixin.Model.Membership
import Mixin.Model.CustodianLookup
import Mixin.Proofs.Membership
import Mixin.Proofs.Upsert
import Mixin.Facts.ExpectedC10
/-!
# C11 — historical consensus views depend only on earlier ledger records

`Node.load recs` is `LoadConsensusNodes` on what the store returned; `Node.list` is
`NodesListWithoutState`. All views of `Mixin.Model.Membership` at a timestamp `ts ≤ t` are shown to be
functions of the fixed node data and of `Node.list t'` for `t' ≤ t`; `Node.list t'` does not change
when records with timestamps `≥ t` are added (`list_prefix_stable`).
-/
namespace Mixin.C11
open Mixin.Membership

/-- the scan over pre-built sequences is the direct computation (no hypothesis) -/
theorem scan_build (all : List Rec) (thr : Nat) (acc : Bool) :
    scanSeqs (buildSeqs all acc) thr = nodesList all thr acc :=
  Mixin.Membership.scan_build all thr acc

/-- On a loaded history the Go algorithm (pre-built sequences, reverse scan, map with `break`) is:
    "insert, in `(ts, id)` order, every record with `ts < t` into a map keyed by id; keep what is
    left (optionally only accepted); sort by `(ts, id)`; number the accepted/pledging entries". -/
theorem list_refines_partial (recs : List Rec) (t : Nat) (acc : Bool) :
    scanSeqs (buildSeqs (sortRecs recs) acc) t =
      assignIdx 0 (sortRecs ((((sortRecs recs).filter (fun n => decide (n.ts < t))).foldl upsert []).filter
        (fun n => !acc || n.state == .accepted))) := by
  rw [scan_build, nodesList_eq_nodeSeq _ _ _ (sorted_ts (sortRecs_sorted _))]
  simp only [nodeSeq, filterLoop_eq _ _ [] (sorted_ts (sortRecs_sorted _))]

/-- **list_refines**: on a loaded history with distinct `(ts, id)` keys, `NodesListWithoutState(t, acc)`
    holds exactly the latest record of every id among the records with `ts < t` (only accepted ones
    when `acc`), in `(ts, id)` order, numbered by `assignIdx` (index = number of accepted/pledging
    entries before the position, `Mixin.Membership.idx_assignIdx`). -/
theorem list_refines (n : Node) (recs : List Rec) (hd : DistinctKeys recs) (t : Nat) (acc : Bool) :
    (∀ r, r ∈ ((n.load recs).list t acc).map (·.rc) ↔
      r ∈ recs ∧ r.ts < t ∧ (acc = true → r.state = .accepted) ∧
      ∀ r' ∈ recs, r'.ts < t → r'.id = r.id → ¬ recLt r r' = true) ∧
    Sorted (((n.load recs).list t acc).map (·.rc)) ∧
    (n.load recs).list t acc = assignIdx 0 (((n.load recs).list t acc).map (·.rc)) := by
  refine ⟨fun r => list_refines_mem n recs hd t acc r, list_refines_sorted n recs t acc, ?_⟩
  have h : ∃ X, (n.load recs).list t acc = assignIdx 0 X := by
    unfold Node.load Node.list
    simp only
    rw [nodesList_eq_nodeSeq _ _ _ (sorted_ts (sortRecs_sorted _))]
    exact ⟨_, rfl⟩
  obtain ⟨X, hX⟩ := h
  rw [hX, map_rc_assignIdx]

/-- the scan over pre-built sequences computes the same list (so `list_refines` is about the Go
    algorithm as written) -/
theorem list_refines_scan (n : Node) (recs : List Rec) (t : Nat) (acc : Bool) :
    scanSeqs (buildSeqs (n.load recs).all acc) t = (n.load recs).list t acc :=
  Mixin.Membership.scan_build _ t acc

/-- **list_prefix_stable**: adding records whose timestamps are `≥ t` (in any store order) does not
    change `NodesListWithoutState(t, ·)`. -/
theorem list_prefix_stable (n : Node) (h later : List Rec) (t : Nat) (acc : Bool)
    (hl : ∀ r ∈ later, t ≤ r.ts) (hd : DistinctKeys (h ++ later)) :
    (n.load (h ++ later)).list t acc = (n.load h).list t acc := by
  unfold Node.load Node.list
  exact nodesList_prefix_stable h later t acc hl hd

/-- the store's iteration order is irrelevant -/
theorem load_order_irrelevant (n : Node) (h h' : List Rec) (hp : h.Perm h') (hd : DistinctKeys h) :
    n.load h = n.load h' := by
  unfold Node.load; rw [sortRecs_canonical hp hd]

/-- two nodes with the same fixed data whose lists agree at every `t' ≤ t` -/
structure AgreeBelow (n n' : Node) (t : Nat) : Prop where
  epoch : n.epoch = n'.epoch
  mainnet : n.mainnet = n'.mainnet
  self : n.self = n'.self
  selfSigner : n.selfSigner = n'.selfSigner
  genesis : n.genesis = n'.genesis
  list : ∀ t', t' ≤ t → ∀ acc, n.list t' acc = n'.list t' acc

theorem agree_of_extend (n : Node) (h later : List Rec) (t : Nat)
    (hl : ∀ r ∈ later, t ≤ r.ts) (hd : DistinctKeys (h ++ later)) :
    AgreeBelow (n.load (h ++ later)) (n.load h) t :=
  ⟨rfl, rfl, rfl, rfl, rfl, fun t' ht' acc =>
    list_prefix_stable n h later t' acc (fun r hr => Nat.le_trans ht' (hl r hr)) hd⟩

theorem AgreeBelow.mono {n n' : Node} {t s : Nat} (h : AgreeBelow n n' t) (hs : s ≤ t) : AgreeBelow n n' s :=
  ⟨h.epoch, h.mainnet, h.self, h.selfSigner, h.genesis, fun t' ht' acc => h.list t' (Nat.le_trans ht' hs) acc⟩

variable {n n' : Node} {t : Nat}

theorem pledging_stable (h : AgreeBelow n n' t) : pledgingNode n t = pledgingNode n' t := by
  unfold pledgingNode; rw [h.list t (Nat.le_refl _) false]

theorem checkRemove_stable (c : Consts) (h : AgreeBelow n n' t) (id : Nat) :
    checkRemovePossibility c n id t = checkRemovePossibility c n' id t := by
  unfold checkRemovePossibility
  rw [pledging_stable h, h.epoch, h.list t (Nat.le_refl _) false]

/-- the start of the node-operation window never lies after a timestamp inside the window -/
theorem window_start_le (epoch ts : Nat) (he : ¬ ts < epoch) (hh : acceptHour genConsts epoch ts = true) :
    epoch + (ts - epoch) / genConsts.oneDay * genConsts.oneDay + genConsts.acceptBegin * genConsts.hour ≤ ts := by
  unfold acceptHour at hh
  simp only [genConsts, Mixin.Facts.Gen.config_KernelNodeAcceptTimeBegin, Mixin.Facts.Gen.config_KernelNodeAcceptTimeEnd,
    Mixin.Facts.Gen.kernel_OneDay, Bool.and_eq_true, decide_eq_true_eq, ge_iff_le] at hh ⊢
  omega

/-- removal candidate (`removingOrSlashingNodeAt`) -/
theorem removing_stable (h : AgreeBelow n n' t) : removingAt genConsts n t = removingAt genConsts n' t := by
  unfold removingAt
  rw [h.epoch]
  by_cases hc : (decide (t < n'.epoch) || !acceptHour genConsts n'.epoch t) = true
  · simp [hc]
  · simp only [hc, Bool.false_eq_true, if_false]
    simp only [Bool.or_eq_true, decide_eq_true_eq, Bool.not_eq_true', not_or, Bool.not_eq_false] at hc
    have hle := window_start_le n'.epoch t hc.1 hc.2
    have h' := h.mono hle
    exact checkRemove_stable genConsts h' 0

theorem removingFor_stable (h : AgreeBelow n n' t) : removingFor genConsts n t = removingFor genConsts n' t := by
  unfold removingFor usePredictive; rw [h.mainnet, removing_stable h]

/-- thresholds, both modes -/
theorem threshold_stable (h : AgreeBelow n n' t) (final : Bool) :
    consensusThreshold genConsts n t final = consensusThreshold genConsts n' t final := by
  have hc : countedInBase genConsts n = countedInBase genConsts n' := by
    funext rm ts f cn; unfold countedInBase; rw [h.genesis]
  unfold consensusThreshold consensusBase baseNodes
  rw [removingFor_stable h, h.list t (Nat.le_refl _) false, hc]

/-- signer keys (and consensus indexes) on any chain -/
theorem keys_stable (h : AgreeBelow n n' t) (ch : Chain) (round : Nat) :
    consensusKeys genConsts n ch round t = consensusKeys genConsts n' ch round t := by
  have hc : ∀ cn, consensusReady genConsts n cn t = consensusReady genConsts n' cn t := by
    intro cn; unfold consensusReady; rw [h.genesis]
  unfold consensusKeys consensusNodes readyNodes
  rw [removingFor_stable h, h.list t (Nat.le_refl _) false]
  simp only [hc]

/-- the identity a chain loads at clock reading `t` -/
theorem identity_stable (h : AgreeBelow n n' t) (chainId : Nat) :
    loadIdentity n chainId t = loadIdentity n' chainId t := by
  unfold loadIdentity; rw [h.list t (Nat.le_refl _) false, h.self, h.selfSigner]

/-- elected operator -/
theorem elect_stable (h : AgreeBelow n n' t) (op : Nat) :
    electSnapshotNode genConsts n op t = electSnapshotNode genConsts n' op t := by
  unfold electSnapshotNode; rw [h.list t (Nat.le_refl _) true, h.epoch]

/-- **views_prefix_stable**: every view at `t` is unchanged by records with timestamps `≥ t`. -/
theorem views_prefix_stable (n : Node) (h later : List Rec) (t : Nat)
    (hl : ∀ r ∈ later, t ≤ r.ts) (hd : DistinctKeys (h ++ later)) :
    let a := n.load (h ++ later)
    let b := n.load h
    (∀ acc, a.list t acc = b.list t acc) ∧ pledgingNode a t = pledgingNode b t ∧
    removingAt genConsts a t = removingAt genConsts b t ∧
    (∀ final, consensusThreshold genConsts a t final = consensusThreshold genConsts b t final) ∧
    (∀ ch round, consensusKeys genConsts a ch round t = consensusKeys genConsts b ch round t) ∧
    (∀ op, electSnapshotNode genConsts a op t = electSnapshotNode genConsts b op t) ∧
    (∀ id, loadIdentity a id t = loadIdentity b id t) := by
  have hag := agree_of_extend n h later t hl hd
  exact ⟨fun acc => hag.list t (Nat.le_refl _) acc, pledging_stable hag, removing_stable hag,
    threshold_stable hag, keys_stable hag, elect_stable hag, identity_stable hag⟩

/-! ## the node as a state machine: loads and queries in any order

`LoadConsensusNodes` replaces the loaded history; a query returns views and leaves the node as it
is (the Go views keep no memo between calls — a memo that survives a load breaks exactly this). -/

/-- one question: every view at once -/
structure Ask where
  ts : Nat
  acc : Bool
  final : Bool
  ch : Chain
  round : Nat
  op : Nat
  chainId : Nat

/-- list with consensus indexes, pledging node, removal candidate, threshold, signer keys, elected
    operator, chain identity -/
def answer (n : Node) (q : Ask) :
    List CNode × Option CNode × Option CNode × Nat × List (Nat × Nat) × Option Nat × Option CNode :=
  (n.list q.ts q.acc, pledgingNode n q.ts, removingAt genConsts n q.ts,
   consensusThreshold genConsts n q.ts q.final, consensusKeys genConsts n q.ch q.round q.ts,
   electSnapshotNode genConsts n q.op q.ts, loadIdentity n q.chainId q.ts)

inductive Op where
  | load (recs : List Rec)
  | query (q : Ask)

/-- state transition of the long-lived node -/
def step (n : Node) : Op → Node
  | .load recs => n.load recs
  | .query _ => n

def runOps (n : Node) (ops : List Op) : Node := ops.foldl step n

/-- the records of the most recent load, if any -/
def lastLoad (ops : List Op) : Option (List Rec) :=
  ops.foldl (fun cur op => match op with | .load recs => some recs | .query _ => cur) none

theorem load_load (n : Node) (a b : List Rec) : (n.load a).load b = n.load b := rfl

theorem runOps_eq (n : Node) (ops : List Op) :
    runOps n ops = match lastLoad ops with | some recs => n.load recs | none => n := by
  have gen : ∀ (ops : List Op) (cur : Option (List Rec)),
      ops.foldl step (match cur with | some recs => n.load recs | none => n) =
        match ops.foldl (fun cur op => match op with | .load recs => some recs | .query _ => cur) cur with
        | some recs => n.load recs | none => n := by
    intro ops
    induction ops with
    | nil => intro cur; rfl
    | cons op rest ih =>
      intro cur
      simp only [List.foldl_cons]
      cases op with
      | load recs =>
        have : step (match cur with | some recs => n.load recs | none => n) (Op.load recs) = n.load recs := by
          cases cur <;> rfl
        rw [this]
        exact ih (some recs)
      | query q =>
        have : step (match cur with | some recs => n.load recs | none => n) (Op.query q) =
            (match cur with | some recs => n.load recs | none => n) := rfl
        rw [this]
        exact ih cur
  exact gen ops none

/-- **query_order_irrelevant**: after any interleaving of loads and queries, every view the node
    reports is the pure function of the most recently loaded records — the same as on a fresh node
    loaded with those records and never asked anything before. -/
theorem query_order_irrelevant (n : Node) (ops : List Op) (recs : List Rec) (h : lastLoad ops = some recs)
    (q : Ask) : answer (runOps n ops) q = answer (n.load recs) q := by
  rw [runOps_eq, h]

/-- queries in between do not matter at all: dropping them gives the same node -/
theorem queries_transparent (n : Node) (ops : List Op) :
    runOps n ops = runOps n (ops.filter (fun op => match op with | .load _ => true | .query _ => false)) := by
  induction ops generalizing n with
  | nil => rfl
  | cons op rest ih =>
    cases op with
    | load recs => simp only [runOps, List.foldl_cons, List.filter] at ih ⊢; exact ih (step n (Op.load recs))
    | query q => simp only [runOps, List.foldl_cons, List.filter] at ih ⊢; exact ih n

/-! ## custodian -/
open Mixin.CustodianLookup

/-- every cache entry is the parse result of its key -/
def CacheOk (parse : Parse) (c : Cache) : Prop := ∀ e ∈ c, parse e.1.1 e.1.2 = some e.2

theorem cacheLoad_ok {parse : Parse} {c : Cache} (hc : CacheOk parse c) {k : Nat × Bool} {v : Nat}
    (h : cacheLoad c k = some v) : parse k.1 k.2 = some v := by
  unfold cacheLoad at h
  cases hf : c.find? (fun e => e.1 == k) with
  | none => simp [hf] at h
  | some e =>
    simp only [hf, Option.some.injEq] at h
    have hm := List.mem_of_find?_eq_some hf
    have hk := List.find?_some hf
    simp only [beq_iff_eq] at hk
    rw [← hk, ← h]; exact hc e hm

theorem parseItem_none_cache {parse : Parse} {e : Entry} {g : Bool} {f : Found} {x : Option Cache}
    (h : parseItem parse none e g = some (f, x)) : x = none := by
  unfold parseItem at h
  cases hq : parse e.tx g with
  | none => simp [hq] at h
  | some cur => simp [hq] at h; exact h.2.symm

theorem parseItem_transparent (parse : Parse) (c : Cache) (hc : CacheOk parse c) (e : Entry) (g : Bool) :
    (parseItem parse (some c) e g).map Prod.fst = (parseItem parse none e g).map Prod.fst ∧
    ∀ f c', parseItem parse (some c) e g = some (f, c') → ∃ c'', c' = some c'' ∧ CacheOk parse c'' := by
  cases hl : cacheLoad c (e.tx, g) with
  | some v =>
    have hp : parse e.tx g = some v := cacheLoad_ok hc hl
    have h1 : parseItem parse (some c) e g = some (⟨v, e.tx, e.ts⟩, some c) := by
      simp only [parseItem, hl]
    have h2 : parseItem parse none e g = some (⟨v, e.tx, e.ts⟩, none) := by
      simp only [parseItem, hp]
    rw [h1, h2]
    refine ⟨rfl, ?_⟩
    intro f c' h
    simp only [Option.some.injEq, Prod.mk.injEq] at h
    exact ⟨c, h.2.symm, hc⟩
  | none =>
    cases hp : parse e.tx g with
    | none =>
      have h1 : parseItem parse (some c) e g = none := by simp only [parseItem, hl, hp]
      have h2 : parseItem parse none e g = none := by simp only [parseItem, hp]
      rw [h1, h2]
      exact ⟨rfl, by intro f c' h; cases h⟩
    | some cur =>
      have h1 : parseItem parse (some c) e g = some (⟨cur, e.tx, e.ts⟩, some (c ++ [((e.tx, g), cur)])) := by
        simp only [parseItem, hl, hp, cacheLoadOrStore]
      have h2 : parseItem parse none e g = some (⟨cur, e.tx, e.ts⟩, none) := by
        simp only [parseItem, hp]
      rw [h1, h2]
      refine ⟨rfl, ?_⟩
      intro f c' h
      simp only [Option.some.injEq, Prod.mk.injEq] at h
      refine ⟨_, h.2.symm, ?_⟩
      intro x hx
      rcases List.mem_append.1 hx with hx | hx
      · exact hc x hx
      · simp only [List.mem_singleton] at hx; rw [hx]; exact hp

theorem readLoop_transparent (parse : Parse) (ts : Nat) (l : List Entry) (g : Bool) (found : Option Found)
    (c : Cache) (hc : CacheOk parse c) :
    (readLoop parse ts l g found (some c)).map Prod.fst = (readLoop parse ts l g found none).map Prod.fst ∧
    ∀ f c', readLoop parse ts l g found (some c) = some (f, c') → ∃ c'', c' = some c'' ∧ CacheOk parse c'' := by
  induction l generalizing g found c with
  | nil =>
    simp only [readLoop, Option.map_some, true_and]
    intro f c' h
    simp only [Option.some.injEq, Prod.mk.injEq] at h
    exact ⟨c, h.2.symm, hc⟩
  | cons e rest ih =>
    unfold readLoop
    by_cases hgt : e.ts > ts
    · simp only [hgt, if_true, Option.map_some, true_and]
      intro f c' h
      simp only [Option.some.injEq, Prod.mk.injEq] at h
      exact ⟨c, h.2.symm, hc⟩
    · simp only [hgt, if_false]
      obtain ⟨hp1, hp2⟩ := parseItem_transparent parse c hc e g
      cases h1 : parseItem parse (some c) e g with
      | none =>
        rw [h1] at hp1
        cases h2 : parseItem parse none e g with
        | none => exact ⟨rfl, by intro f c' h; cases h⟩
        | some r2 => rw [h2] at hp1; simp at hp1
      | some r1 =>
        obtain ⟨f1, oc1⟩ := r1
        obtain ⟨c1, hoc, hok⟩ := hp2 f1 oc1 h1
        rw [h1] at hp1
        cases h2 : parseItem parse none e g with
        | none => rw [h2] at hp1; simp at hp1
        | some r2 =>
          obtain ⟨f2, oc2⟩ := r2
          rw [h2] at hp1
          simp only [Option.map_some, Option.some.injEq] at hp1
          have hnone := parseItem_none_cache h2
          subst hoc; subst hnone; subst hp1
          exact ih false (some f1) c1 hok

/-- **custodian_cache_transparent**: starting from any cache whose entries are parse results (in
    particular the empty one), a lookup served through the cache returns what a lookup without the
    cache returns (same record or the same error), and leaves such a cache behind. -/
theorem custodian_cache_transparent (parse : Parse) (store : List Entry) (ts : Nat) (c : Cache)
    (hc : CacheOk parse c) :
    (readCustodian parse store ts (some c)).map Prod.fst = (readCustodian parse store ts none).map Prod.fst ∧
    ∀ f c', readCustodian parse store ts (some c) = some (f, c') → ∃ c'', c' = some c'' ∧ CacheOk parse c'' :=
  readLoop_transparent parse ts store true none c hc

theorem cacheOk_nil (parse : Parse) : CacheOk parse [] := by intro e he; cases he

/-- key order of the store -/
def KeySorted (l : List Entry) : Prop := l.Pairwise (fun a b => a.ts < b.ts)

theorem readLoop_insert (parse : Parse) (t : Nat) (e : Entry) (he : t < e.ts) (l : List Entry) (g : Bool)
    (found : Option Found) (cache : Option Cache) :
    (readLoop parse t (insertKey e l) g found cache).map Prod.fst =
      (readLoop parse t l g found cache).map Prod.fst := by
  induction l generalizing g found cache with
  | nil => simp [insertKey, readLoop, he]
  | cons x xs ih =>
    unfold insertKey
    by_cases h1 : e.ts < x.ts
    · have hx : x.ts > t := by omega
      simp [h1, readLoop, he, hx]
    · by_cases h2 : e.ts = x.ts
      · have hx : x.ts > t := by omega
        simp [h1, h2, readLoop, hx]
      · simp only [h1, h2, if_false]
        unfold readLoop
        by_cases hx : x.ts > t
        · simp [hx]
        · simp only [hx, if_false]
          cases parseItem parse cache x g with
          | none => rfl
          | some r => exact ih false (some r.1) r.2

/-- **custodian_prefix_stable**: writing a custodian update with a timestamp after `t` does not
    change the custodian reported for `t`. -/
theorem custodian_prefix_stable (parse : Parse) (store : List Entry) (t : Nat) (e : Entry) (he : t < e.ts)
    (cache : Option Cache) :
    (readCustodian parse (insertKey e store) t cache).map Prod.fst =
      (readCustodian parse store t cache).map Prod.fst :=
  readLoop_insert parse t e he store true none cache

/-! ### non-vacuity -/
def r1 : Rec := { ts := 10, id := 1, signer := 11, payee := 12, state := .accepted, tx := 13 }
def r2 : Rec := { ts := 10, id := 2, signer := 21, payee := 22, state := .accepted, tx := 23 }
def r3 : Rec := { ts := 20, id := 3, signer := 31, payee := 32, state := .pledging, tx := 33 }
def r4 : Rec := { ts := 20, id := 1, signer := 11, payee := 12, state := .removed, tx := 43 }
example : DistinctKeys ([r2, r1, r3] ++ [r4]) := by
  unfold DistinctKeys; decide
example : ((default : Node).load [r2, r1, r3]).list 20 false = [⟨r1, 0⟩, ⟨r2, 1⟩] := by decide
example : ((default : Node).load ([r2, r1, r3] ++ [r4])).list 20 false = [⟨r1, 0⟩, ⟨r2, 1⟩] := by decide
example : ((default : Node).load ([r2, r1, r3] ++ [r4])).list 21 false = [⟨r2, 0⟩, ⟨r4, 1⟩, ⟨r3, 1⟩] := by decide
example : readCustodian (fun tx g => some (tx * 2 + g.toNat)) [⟨5, 7⟩, ⟨9, 8⟩] 9 (some []) =
    some (some ⟨16, 8, 9⟩, some [((7, true), 15), ((8, false), 16)]) := by decide

end Mixin.C11
