import Mixin.Props.C05
import Mixin.Props.C06
/-!
# Bridge C06 → C05: the validator's "decodable transaction" is what the decoder returns

`Mixin.C05.validate_total` quantifies over the *abstract* transactions of
`Mixin.Validate` (interned identifiers, derived fields) under the hypothesis
`C05.Decodable`; `Mixin.C06` proves well-formedness of what the *byte-level* decoder model
`Mixin.TxCodec.decodeTx` returns.  This file connects the two:

* `toValidateTx E tx` — the translation `TxCodec.Tx → Validate.Tx`.  It is the Lean rendering
  of what `harness/c05_validate.go` (`c05ExecValidate`) does in Go when it turns the result
  of `UnmarshalVersionedTransaction` into the model's input line.
* `decoded_is_decodable` and one lemma per structural bound the decoder guarantees.
* `validate_total_on_bytes` — C05 stated over byte strings.
* `payload_hash_bridge` / `hash_determines_payload` — the validator's `hash` is the interned
  hash of `TxCodec.payloadBytes`, which C06 proves injective and signature-independent.

## What the translation needs from outside (`Env`)
* `I`      an injective interning of byte strings as `Validate.Id` (`Faithful`: 32 zero bytes ↦ 0,
           `XINAssetId` ↦ 1, as the validator model fixes those two identifiers);
* `H`      `crypto.Blake3Hash` (opaque);
* `cap`    `GetAssetCapacity(asset)`;
* `trimOk` `strings.TrimSpace(s) == s && len(s) > 0` (Unicode white space, not modelled);
* `depositKey` `DepositData.UniqueKey()` = a hash of chain, transaction string and index.

## What the translation forgets
* the *content* of every hash, key, mask, signature, extra, asset key: only equality survives
  (through the injective `I`); of `Extra` its length, its identity, the identity of its first 64
  bytes (`"short:" ++ extra` when shorter, as the harness does) and of its first 32 bytes
  zero-padded (the key `NodePledge` reads);
* `Input.genesis` ↦ `genesis ≠ []`; `Output.withdrawal` ↦ presence only (address and tag
  dropped: `Validate` never reads them); `Mint.group` ↦ `group == "UNIVERSAL"`;
  `Deposit.transaction`/`index` ↦ `trimOk transaction` and the unique key; `Deposit.assetKey` ↦
  `trimOk` and identity (interned with the harness's `"s:"` prefix);
* the byte values of `Output.script` are kept (as `Nat`s), amounts are kept (`Nat`),
  signer lists and signature-map indexes are kept, signature *values* are interned;
* `nil` versus empty: `SignaturesMap` is `none` exactly when the decoded list is empty.  For
  decoded values this is exact (the decoder leaves the field `nil` when the count is 0 or an
  aggregate follows, and never produces an empty non-nil slice), and it matters: `Validate`
  tests `tx.SignaturesMap != nil` next to an aggregate signature.
-/
namespace Mixin.Bridge
open Mixin Mixin.Bytes

/-! ## interning -/

structure Interning where
  f : Bytes → Validate.Id
  inj : ∀ a b, f a = f b → a = b

def zero32 : Bytes := List.replicate 32 0

/-- `common.XINAssetId` = SHA3-256("c94ac88f-4671-3976-b60a-09064f1811e8") -/
def xinId : Bytes :=
  [0xa9, 0x9c, 0x2e, 0x0e, 0x2b, 0x1d, 0xa4, 0xd6, 0x48, 0x75, 0x5e, 0xf1, 0x9b, 0xd9, 0x51, 0x39,
   0xac, 0xbb, 0xe6, 0x56, 0x4c, 0xfb, 0x06, 0xde, 0xc7, 0xcd, 0x34, 0x93, 0x1c, 0xa7, 0x2c, 0xdc]

/-- the two identifiers the validator model fixes -/
def Interning.Faithful (I : Interning) : Prop := I.f zero32 = 0 ∧ I.f xinId = Validate.xin

structure Env where
  I : Interning
  H : Bytes → Bytes
  cap : Bytes → Nat
  trimOk : Bytes → Bool
  depositKey : Bytes → Bytes → Nat → Bytes

/-! ## the translation -/

def universalGroup : Bytes := [0x55, 0x4e, 0x49, 0x56, 0x45, 0x52, 0x53, 0x41, 0x4c]  -- "UNIVERSAL"
def shortPrefix : Bytes := [0x73, 0x68, 0x6f, 0x72, 0x74, 0x3a]                        -- "short:"
def strPrefix : Bytes := [0x73, 0x3a]                                                  -- "s:"

/-- `copy(k[:], b)` into a zeroed 32-byte key -/
def key32 (b : Bytes) : Bytes := b.take 32 ++ List.replicate (32 - (b.take 32).length) 0

def extra64 (e : Bytes) : Bytes := if e.length ≥ 64 then e.take 64 else shortPrefix ++ e

def toDeposit (E : Env) (d : TxCodec.Deposit) : Validate.Deposit :=
  { chain := E.I.f d.chain, assetKeyOk := E.trimOk d.assetKey, assetKey := E.I.f (strPrefix ++ d.assetKey),
    txOk := E.trimOk d.transaction, uniq := E.I.f (E.depositKey d.chain d.transaction d.index),
    amount := d.amount }

def toMint (m : TxCodec.Mint) : Validate.Mint :=
  { universal := m.group == universalGroup, batch := m.batch, amount := m.amount }

def toInput (E : Env) (i : TxCodec.Input) : Validate.Input :=
  { hash := E.I.f i.hash, index := i.index, genesis := !i.genesis.isEmpty,
    deposit := i.deposit.map (toDeposit E), mint := i.mint.map toMint }

def toOutput (E : Env) (o : TxCodec.Output) : Validate.Output :=
  { type := o.type.toNat, amount := o.amount, keys := o.keys.map E.I.f, mask := E.I.f o.mask,
    script := o.script.map (·.toNat), withdrawal := o.withdrawal.isSome }

def toSigMap (E : Env) (m : TxCodec.SigMap) : List (Nat × Validate.Id) := m.map (fun e => (e.1, E.I.f e.2))

def toSigs (E : Env) (sigs : List TxCodec.SigMap) : Option (List (List (Nat × Validate.Id))) :=
  if sigs.isEmpty then none else some (sigs.map (toSigMap E))

def toValidateTx (E : Env) (tx : TxCodec.Tx) : Validate.Tx :=
  { version := tx.version.toNat
    asset := E.I.f tx.asset
    inputs := tx.inputs.map (toInput E)
    outputs := tx.outputs.map (toOutput E)
    references := tx.references.map E.I.f
    extraLen := tx.extra.length
    extraId := E.I.f tx.extra
    extra64 := E.I.f (extra64 tx.extra)
    extraSpend := E.I.f (key32 tx.extra)
    sigs := toSigs E tx.sigs
    agg := tx.agg.map (fun a => (a.signers, E.I.f a.sig))
    hash := E.I.f (E.H (TxCodec.payloadBytes tx))
    payloadSize := (TxCodec.payloadBytes tx).length
    cap := E.cap tx.asset }

/-! ## what an accepted byte string gives -/

theorem decoded_wf {b : Bytes} {tx : TxCodec.Tx} (h : TxCodec.decodeTx b = some tx) :
    TxCodec.WF tx ∧ TxCodec.Canon tx ∧ TxCodec.encodeTx tx = b :=
  (C06.decodeTx_iff b tx).mp h

theorem txMaxSize_agree : Validate.txMaxSize = TxCodec.txMaxSize := by decide
theorem sliceCountLimit_agree : Validate.sliceCountLimit = TxCodec.sliceCountLimit := by decide
theorem inputIndexLimit_agree : Validate.inputIndexLimit = TxCodec.inputIndexLimit := by decide
theorem extraCapacity_agree : Validate.extraCapacity = TxCodec.extraCapacity := by decide
theorem maxEncInt_agree : Validate.maxEncInt = TxCodec.maxEncodingInt := by decide

theorem payloadBytes_length_le (tx : TxCodec.Tx) :
    (TxCodec.payloadBytes tx).length ≤ (TxCodec.encodeTx tx).length := by
  have h1 : (TxCodec.payloadBytes tx).length = (TxCodec.encPayload tx.toPayload).length + 2 := by
    simp [C06.payloadBytes_eq, TxCodec.encAuth, writeU16]
  have h2 : (TxCodec.encodeTx tx).length =
      (TxCodec.encPayload tx.toPayload).length + (TxCodec.encAuth tx.agg tx.sigs).length := by
    simp [TxCodec.encodeTx]
  have := C06.encAuth_length_ge tx.agg tx.sigs
  omega

/-- **inherited, not re-checked** (a violation would be the `PayloadMarshal` debug panic inside
    `Validate`): the payload encoding of a decoded transaction fits `TransactionMaximumSize`.
    This is the whole of `C05.Decodable`. -/
theorem decoded_is_decodable (E : Env) {b : Bytes} {tx : TxCodec.Tx}
    (h : TxCodec.decodeTx b = some tx) : C05.Decodable (toValidateTx E tx) := by
  obtain ⟨_, ⟨_, hsize⟩, _⟩ := decoded_wf h
  constructor
  show (TxCodec.payloadBytes tx).length ≤ Validate.txMaxSize
  rw [txMaxSize_agree]
  exact Nat.le_trans (payloadBytes_length_le tx) hsize

/-- **inherited**: C05 assumes "the encoder guards inside PayloadMarshal other than the size limit
    are unreachable for decoded transactions and are not modelled"; C06 proves it. -/
theorem decoded_payloadMarshal_no_guard {b : Bytes} {tx : TxCodec.Tx}
    (h : TxCodec.decodeTx b = some tx) : TxCodec.payloadMarshal tx = some (TxCodec.payloadBytes tx) :=
  C06.payloadMarshal_decoded h

section bounds
variable (E : Env) {b : Bytes} {tx : TxCodec.Tx}

theorem guardsBody_of_decoded (h : TxCodec.decodeTx b = some tx) :
    tx.version = TxCodec.txVersion ∧ TxCodec.guardsBody tx.toPayload = true := by
  obtain ⟨⟨_, hg⟩, _, _⟩ := decoded_wf h
  simp only [TxCodec.guards, TxCodec.guardsPayload, Bool.and_eq_true, beq_iff_eq] at hg
  exact hg.1

/-- re-checked by `structural` (`version != TxVersionHashSignature`) -/
theorem decoded_version (h : TxCodec.decodeTx b = some tx) :
    (toValidateTx E tx).version = Facts.Gen.common_TxVersionHashSignature := by
  have := (guardsBody_of_decoded h).1
  show tx.version.toNat = _
  rw [this]; decide

/-- re-checked by `structural` (`len(Inputs) > SliceCountLimit`) -/
theorem decoded_inputs_le (h : TxCodec.decodeTx b = some tx) :
    (toValidateTx E tx).inputs.length ≤ Validate.sliceCountLimit := by
  have hb := (guardsBody_of_decoded h).2
  simp only [TxCodec.guardsBody, Bool.and_eq_true, decide_eq_true_eq] at hb
  rw [sliceCountLimit_agree]
  simpa [toValidateTx] using hb.1.1.1.1.1

/-- re-checked by `structural` (`len(Outputs) > SliceCountLimit`) -/
theorem decoded_outputs_le (h : TxCodec.decodeTx b = some tx) :
    (toValidateTx E tx).outputs.length ≤ Validate.sliceCountLimit := by
  have hb := (guardsBody_of_decoded h).2
  simp only [TxCodec.guardsBody, Bool.and_eq_true, decide_eq_true_eq] at hb
  rw [sliceCountLimit_agree]
  simpa [toValidateTx] using hb.1.1.1.2

/-- re-checked by `structural` (`len(References) > SliceCountLimit`; `validateReferences` then
    applies the tighter `ReferencesCountLimit`, which the decoder does not know) -/
theorem decoded_references_le (h : TxCodec.decodeTx b = some tx) :
    (toValidateTx E tx).references.length ≤ Validate.sliceCountLimit := by
  obtain ⟨_, ⟨hc, _⟩, _⟩ := decoded_wf h
  simp only [TxCodec.canon, Bool.and_eq_true, decide_eq_true_eq] at hc
  rw [sliceCountLimit_agree]
  simpa [toValidateTx] using hc.1.1.1

/-- re-checked by `structural` (`in.Index > InputIndexLimit`) -/
theorem decoded_index_le (h : TxCodec.decodeTx b = some tx) :
    ∀ i ∈ (toValidateTx E tx).inputs, i.index ≤ Validate.inputIndexLimit := by
  have hb := (guardsBody_of_decoded h).2
  simp only [TxCodec.guardsBody, Bool.and_eq_true, decide_eq_true_eq, List.all_eq_true] at hb
  intro i hi
  simp only [toValidateTx, List.mem_map] at hi
  obtain ⟨j, hj, rfl⟩ := hi
  have := hb.1.1.1.1.2 j hj
  simp only [TxCodec.guardsInput, Bool.and_eq_true, decide_eq_true_eq] at this
  rw [inputIndexLimit_agree]
  exact this.1.1.1

/-- re-checked by `validateOutputs` (`len(o.Keys) > SliceCountLimit`) -/
theorem decoded_keys_le (h : TxCodec.decodeTx b = some tx) :
    ∀ o ∈ (toValidateTx E tx).outputs, o.keys.length ≤ Validate.sliceCountLimit := by
  obtain ⟨_, ⟨hc, _⟩, _⟩ := decoded_wf h
  simp only [TxCodec.canon, Bool.and_eq_true, decide_eq_true_eq, List.all_eq_true] at hc
  intro o ho
  simp only [toValidateTx, List.mem_map] at ho
  obtain ⟨p, hp, rfl⟩ := ho
  rw [sliceCountLimit_agree]
  simpa [toOutput] using hc.1.1.2 p hp

/-- re-checked by `structural` through `GetExtraLimit` (whose value never exceeds the capacity) -/
theorem decoded_extra_le (h : TxCodec.decodeTx b = some tx) :
    (toValidateTx E tx).extraLen ≤ Validate.extraCapacity := by
  have hb := (guardsBody_of_decoded h).2
  simp only [TxCodec.guardsBody, Bool.and_eq_true, decide_eq_true_eq] at hb
  rw [extraCapacity_agree]
  exact hb.2

theorem incFrom_eq_validSignersFrom (p : Option Nat) (l : List Nat) :
    Validate.incFrom p l = TxCodec.validSignersFrom p l := by
  induction l generalizing p with
  | nil => cases p <;> rfl
  | cons m ms ih =>
    cases p with
    | none => simp [Validate.incFrom, TxCodec.validSignersFrom, ih, maxEncInt_agree]
    | some q => simp [Validate.incFrom, TxCodec.validSignersFrom, ih, maxEncInt_agree, Bool.and_assoc]

theorem signersOk_eq_validSigners (l : List Nat) : Validate.signersOk l = TxCodec.validSigners l := by
  simp [Validate.signersOk, TxCodec.validSigners, incFrom_eq_validSignersFrom, maxEncInt_agree]

/-- re-checked by `validateUTXO` (`validateAggregatedSigners`): the signer list of a decoded
    aggregate signature is strictly increasing and within 0..65535 -/
theorem decoded_signers_ok (h : TxCodec.decodeTx b = some tx) :
    ∀ s sig, (toValidateTx E tx).agg = some (s, sig) → Validate.signersOk s = true := by
  obtain ⟨⟨_, hg⟩, _, _⟩ := decoded_wf h
  simp only [TxCodec.guards, Bool.and_eq_true] at hg
  intro s sig hs
  simp only [toValidateTx, Option.map_eq_some_iff] at hs
  obtain ⟨a, ha, hp⟩ := hs
  simp only [Prod.mk.injEq] at hp
  obtain ⟨rfl, _⟩ := hp
  have := hg.2
  rw [ha] at this
  simp only [TxCodec.guardsAuth, TxCodec.guardsAgg, Bool.or_eq_true] at this
  rw [signersOk_eq_validSigners]
  rcases this with he | hv
  · have : a.signers = [] := by cases hl : a.signers with
      | nil => rfl
      | cons _ _ => rw [hl] at he; simp at he
    rw [this]; rfl
  · exact hv

/-- re-checked by `Validate` (`AggregatedSignature != nil && SignaturesMap != nil`): never both -/
theorem decoded_not_both (h : TxCodec.decodeTx b = some tx) :
    (toValidateTx E tx).agg.isSome = true → (toValidateTx E tx).sigs = none := by
  obtain ⟨_, ⟨hc, _⟩, _⟩ := decoded_wf h
  simp only [TxCodec.canon, Bool.and_eq_true, Bool.or_eq_true] at hc
  intro ha
  simp only [toValidateTx, Option.isSome_map] at ha
  rcases hc.2 with hn | he
  · cases hagg : tx.agg with
    | none => rw [hagg] at ha; simp at ha
    | some _ => rw [hagg] at hn; simp at hn
  · simp [toValidateTx, toSigs, he]

/-- **inherited** (`Validate` indexes `u.keys` with these and never checks them for duplicates):
    at most `SliceCountLimit` signature maps, each with strictly increasing indexes below 65536 -/
theorem decoded_sigmaps (h : TxCodec.decodeTx b = some tx) :
    tx.sigs.length ≤ TxCodec.sliceCountLimit ∧
    ∀ m ∈ tx.sigs, m.Pairwise (fun a b => a.1 < b.1) ∧ ∀ e ∈ m, e.1 < 65536 := by
  obtain ⟨⟨hr, _⟩, ⟨hc, _⟩, _⟩ := decoded_wf h
  simp only [TxCodec.canon, Bool.and_eq_true, decide_eq_true_eq] at hc
  simp only [TxCodec.rep, TxCodec.repAuth, Bool.and_eq_true, List.all_eq_true] at hr
  refine ⟨hc.1.2, fun m hm => ?_⟩
  have := hr.2.2 m hm
  simp only [TxCodec.repSigMap, Bool.and_eq_true, TxCodec.sortedKeysFrom_iff, List.all_eq_true,
    decide_eq_true_eq] at this
  exact ⟨this.1.2, fun e he => (this.2 e he).1⟩

/-- Put together: on a decoded transaction the version / count / index guards of `structural`
    (and the key-count guard of `validateOutputs`) can never fire — `Validate` re-checks what the
    decoder already enforced; they matter only for transactions built in memory. The guards that
    remain live are the ones about meaning (type, at least one input and output, extra limit by
    asset and storage output, references ≤ `ReferencesCountLimit`). -/
theorem decoded_structural_guards_idle (h : TxCodec.decodeTx b = some tx) :
    ((toValidateTx E tx).version != Facts.Gen.common_TxVersionHashSignature) = false ∧
    (decide ((toValidateTx E tx).inputs.length > Validate.sliceCountLimit) ||
      decide ((toValidateTx E tx).outputs.length > Validate.sliceCountLimit) ||
      decide ((toValidateTx E tx).references.length > Validate.sliceCountLimit)) = false ∧
    (toValidateTx E tx).inputs.any (fun i => decide (i.index > Validate.inputIndexLimit)) = false ∧
    (toValidateTx E tx).outputs.any (fun o => decide (o.keys.length > Validate.sliceCountLimit)) = false := by
  have h1 := decoded_version E h
  have h2 := decoded_inputs_le E h
  have h3 := decoded_outputs_le E h
  have h4 := decoded_references_le E h
  have h5 := decoded_index_le E h
  have h6 := decoded_keys_le E h
  refine ⟨by simp [h1], ?_, ?_, ?_⟩
  · simp only [Bool.or_eq_false_iff, decide_eq_false_iff_not, Nat.not_lt]
    exact ⟨⟨h2, h3⟩, h4⟩
  · rw [List.any_eq_false]
    intro i hi
    simpa using h5 i hi
  · rw [List.any_eq_false]
    intro o ho
    simpa using h6 o ho

end bounds

/-! ## C05 over bytes -/

/-- **validate_total_on_bytes.** For every byte string the decoder accepts, every ledger view
    satisfying the C05 ledger invariants, every oracle, both fork modes and every choice of the
    external functions `E`: validating the decoded transaction returns accept or reject — no
    panic site of `VersionedTransaction.Validate` is reached. -/
theorem validate_total_on_bytes (E : Env) {b : Bytes} {tx : TxCodec.Tx}
    (h : TxCodec.decodeTx b = some tx) {L : Validate.Ledger} (hI : Validate.LedgerInv L)
    (O : Validate.Oracle) (fork : Bool) :
    ∀ site, Validate.validate L O (toValidateTx E tx) fork ≠ .panic site :=
  C05.validate_total (decoded_is_decodable E h) hI

/-- the same with the decoding made explicit: a byte string either is rejected by the decoder or
    validates to accept / reject -/
theorem bytes_never_panic (E : Env) (b : Bytes) {L : Validate.Ledger} (hI : Validate.LedgerInv L)
    (O : Validate.Oracle) (fork : Bool) :
    TxCodec.decodeTx b = none ∨
    ∃ tx, TxCodec.decodeTx b = some tx ∧ ∀ site, Validate.validate L O (toValidateTx E tx) fork ≠ .panic site := by
  cases h : TxCodec.decodeTx b with
  | none => exact Or.inl rfl
  | some tx => exact Or.inr ⟨tx, rfl, validate_total_on_bytes E h hI O fork⟩

/-! ## the hash the validator signs over is the hash of C06's payload bytes -/

/-- the validator model's `hash` (the message of every `Verify` / `AggregateVerify` oracle call,
    C02) is the interned hash of `TxCodec.payloadBytes` -/
theorem payload_hash_bridge (E : Env) (tx : TxCodec.Tx) :
    (toValidateTx E tx).hash = E.I.f (E.H (TxCodec.payloadBytes tx)) ∧
    (toValidateTx E tx).payloadSize = (TxCodec.payloadBytes tx).length := ⟨rfl, rfl⟩

/-- it does not depend on the authorization data -/
theorem hash_bridge_ignores_auth (E : Env) (tx : TxCodec.Tx) (agg : Option TxCodec.AggSig)
    (sigs : List TxCodec.SigMap) :
    (toValidateTx E { tx with agg := agg, sigs := sigs }).hash = (toValidateTx E tx).hash := rfl

/-- and, for a hash function without collisions on the two preimages, it determines the whole
    payload: two accepted byte strings whose translations carry the same `hash` decode to the same
    version, asset, inputs, outputs, references and extra -/
theorem hash_determines_payload (E : Env) {b₁ b₂ : Bytes} {t₁ t₂ : TxCodec.Tx}
    (h₁ : TxCodec.decodeTx b₁ = some t₁) (h₂ : TxCodec.decodeTx b₂ = some t₂)
    (hcoll : E.H (TxCodec.payloadBytes t₁) = E.H (TxCodec.payloadBytes t₂) →
      TxCodec.payloadBytes t₁ = TxCodec.payloadBytes t₂)
    (hh : (toValidateTx E t₁).hash = (toValidateTx E t₂).hash) : t₁.toPayload = t₂.toPayload :=
  C06.payload_inj t₁ t₂ (decoded_wf h₁).1 (decoded_wf h₂).1 (hcoll (E.I.inj _ _ hh))

/-! ## a concrete interning (the hypotheses are satisfiable) -/

theorem foldl_beVal (l : Bytes) (a : Nat) :
    l.foldl (fun acc x => acc * 256 + x.toNat) a = a * 256 ^ l.length + beVal l := by
  induction l generalizing a with
  | nil => simp [beVal]
  | cons x r ih =>
    simp only [List.foldl_cons, List.length_cons, beVal]
    rw [ih, ih (0 * 256 + x.toNat), Nat.pow_succ]
    simp only [Nat.zero_mul, Nat.zero_add]
    rw [Nat.add_mul, Nat.mul_assoc, Nat.mul_comm 256, Nat.add_assoc]

theorem beVal_cons (x : UInt8) (l : Bytes) : beVal (x :: l) = x.toNat * 256 ^ l.length + beVal l := by
  have := foldl_beVal l (0 * 256 + x.toNat)
  simp only [Nat.zero_mul, Nat.zero_add] at this
  simpa [beVal] using this

/-- `b ↦ beVal (1 :: b)` is injective on all byte strings (the leading 1 fixes the length) -/
theorem tagged_inj (a b : Bytes) (h : beVal (1 :: a) = beVal (1 :: b)) : a = b := by
  have key : ∀ a b : Bytes, a.length < b.length → beVal (1 :: a) ≠ beVal (1 :: b) := by
    intro a b hl he
    rw [beVal_cons, beVal_cons] at he
    have ha := beVal_lt a
    have : 256 ^ (a.length + 1) ≤ 256 ^ b.length := Nat.pow_le_pow_right (by decide) hl
    rw [Nat.pow_succ] at this
    have h1 : (1 : UInt8).toNat = 1 := rfl
    rw [h1] at he
    omega
  have hlen : a.length = b.length := by
    rcases Nat.lt_trichotomy a.length b.length with hl | hl | hl
    · exact absurd h (key a b hl)
    · exact hl
    · exact absurd h.symm (key b a hl)
  have e1 := be_beVal (1 :: a)
  have e2 := be_beVal (1 :: b)
  rw [h] at e1
  simp only [List.length_cons, hlen] at e1 e2
  rw [e1] at e2
  exact (List.cons.inj e2).2

/-- 32 zero bytes ↦ 0, `XINAssetId` ↦ 1, everything else ↦ `beVal (1 :: b) + 2` -/
def exIntern (b : Bytes) : Nat :=
  if b = zero32 then 0 else if b = xinId then 1 else beVal (1 :: b) + 2

def exI : Interning where
  f := exIntern
  inj := by
    intro a b h0
    have h : (exIntern a : Nat) = exIntern b := h0
    clear h0
    unfold exIntern at h
    by_cases ha0 : a = zero32
    · by_cases hb0 : b = zero32
      · rw [ha0, hb0]
      · rw [if_pos ha0, if_neg hb0] at h
        split at h <;> omega
    · by_cases hb0 : b = zero32
      · rw [if_neg ha0, if_pos hb0] at h
        split at h <;> omega
      · rw [if_neg ha0, if_neg hb0] at h
        by_cases ha1 : a = xinId
        · by_cases hb1 : b = xinId
          · rw [ha1, hb1]
          · rw [if_pos ha1, if_neg hb1] at h
            omega
        · by_cases hb1 : b = xinId
          · rw [if_neg ha1, if_pos hb1] at h
            omega
          · rw [if_neg ha1, if_neg hb1] at h
            exact tagged_inj a b (by omega)

theorem exI_faithful : exI.Faithful := by
  constructor
  · rfl
  · show exIntern xinId = 1
    unfold exIntern
    rw [if_neg (by decide), if_pos rfl]

/-! ## non-vacuity: byte strings that decode, translate and validate -/
namespace Example
open Mixin.C06 (h32 s64)

def env : Env :=
  { I := exI, H := fun b => b.take 32, cap := fun _ => 1000, trimOk := fun s => !s.isEmpty,
    depositKey := fun c t _ => c ++ t }

/-- one input `(0101…01, 0)`, one script output of amount `amt` for key `0202…02` with mask `0303…03`
    and script `fffe01`, one signature map `{0: 0505…05}`; asset `aaaa…aa`. In hex (amt = 0x14):
    `77770005 aa×32 0001 01×32 0000 0000 0000 0000 0001 0000 000114 0001 02×32 03×32 0003fffe01 0000
     0000 00000000 0001 0001 0000 05×64` -/
def spendBytes (amt : UInt8) : Bytes :=
  TxCodec.magic ++ [0, 5] ++ h32 0xaa ++
    [0, 1] ++ (h32 1 ++ [0, 0] ++ [0, 0] ++ [0, 0] ++ [0, 0]) ++
    [0, 1] ++ ([0, 0] ++ [0, 1, amt] ++ [0, 1] ++ h32 2 ++ h32 3 ++ [0, 3, 255, 254, 1] ++ [0, 0]) ++
    [0, 0] ++ [0, 0, 0, 0] ++
    [0, 1] ++ ([0, 1] ++ [0, 0] ++ s64 5)

def fundOut : Validate.Output :=
  { type := 0, amount := 20, keys := [exIntern (h32 7)], mask := exIntern (h32 8), script := [255, 254, 1],
    withdrawal := false }

/-- the unspent output `(0101…01, 0)` of 20 units of asset `aaaa…aa`, its creating transaction,
    and a custodian -/
def ledger : Validate.Ledger :=
  { utxos := [{ hash := exIntern (h32 1), index := 0, type := 0, asset := exIntern (h32 0xaa), amount := 20,
                keys := [exIntern (h32 7)], mask := exIntern (h32 8), script := [255, 254, 1], lock := 0 }],
    txs := [{ hash := exIntern (h32 1), payloadHash := exIntern (h32 1), finalized := true, txType := 0,
              extraId := 2, signerAddr := 30, signerSpend := 31, inputs := [(5, 0)], outputs := [fundOut] }],
    custodian := some { key := 150, addr := 50, nodes := [(60, 61), (62, 63)] } }

def oracle : Validate.Oracle :=
  { checkKey := fun _ => true, verify := fun _ _ => true, aggVerify := fun _ _ _ => false,
    claimSig := false, updParse := none, updSig := false, scalarOk := false, ghostEq := false }

set_option maxRecDepth 100000 in
theorem ledger_inv : Validate.LedgerInv ledger where
  utxoPos := by decide
  utxoTx := by decide
  txOutputs := by decide
  nodeStates := by decide
  pledgingTx := by decide
  custodian := by decide
  custodianNodup := by
    intro c hc
    simp [ledger] at hc
    subst hc
    decide

/-- decode, translate, validate -/
def run (b : Bytes) : Option Validate.Outcome :=
  (TxCodec.decodeTx b).map (fun tx => Validate.validate ledger oracle (toValidateTx env tx) false)

set_option maxRecDepth 100000 in
/-- accepted: 20 in, 20 out -/
theorem spend_accepted : run (spendBytes 20) = some (.accept 20 20) := by decide

set_option maxRecDepth 100000 in
/-- the same bytes with output amount 19: decodes, the validator rejects (input ≠ output sum) -/
theorem spend_rejected : run (spendBytes 19) = some .reject := by decide

set_option maxRecDepth 100000 in
/-- a transaction without inputs and outputs decodes and is rejected by the validator; a
    non-canonical spelling does not even decode -/
theorem empty_rejected : run (C06.hdr ++ [0, 0]) = some .reject ∧
    run (C06.hdrOut [0, 2, 0, 1] ++ [0, 0]) = none := by decide

/-- the general theorem instantiated at these bytes -/
example : ∀ site, ∀ tx, TxCodec.decodeTx (spendBytes 20) = some tx →
    Validate.validate ledger oracle (toValidateTx env tx) true ≠ .panic site :=
  fun site _ h => validate_total_on_bytes env h ledger_inv oracle true site

end Example

end Mixin.Bridge
