import Mixin.Model.NodeOps
import Mixin.Props.C29
/-!
# C29 at the acceptance level — what every ACCEPTED node-operation snapshot satisfies

`Mixin.NodeOps` models the kernel validators of pledge, cancel, accept and remove snapshots
(kernel/election.go) and the node-operation lock (storage.AddNodeOperation). The theorems say
what acceptance forces; the store reads the validators trust are the fields of `OpsEnv`, the
lock and (for accepts) the `ChainView`.
-/
namespace Mixin.C29
open Mixin.Election Mixin.NodeOps

/-! ## pledge -/

theorem electedIs_pass {hist : List Rec} {epoch op ts proposer : Nat} (hop : electOps.contains op = true)
    (h : electedIs hist epoch op ts proposer = .pass) : elect hist epoch op ts = .id proposer := by
  unfold electedIs at h
  split at h
  · cases h
  · next hz =>
    unfold elect at hz
    rw [hop] at hz
    simp only [Bool.not_true, Bool.false_eq_true, if_false] at hz
    split at hz
    · cases hz
    · split at hz <;> cases hz
  · next x hx =>
    split at h
    · next hxp => rw [hx, hxp]
    · cases h

/-- what a completed pass of the pledge loop establishes about every listed node -/
theorem pledgeLoop_false {env : OpsEnv} {ts : Nat} {tx : OpTx} : ∀ {l : List Rec} {total total' : Nat},
    pledgeLoop env ts tx l total = some (false, total') →
      (∀ r ∈ l, r.tx ≠ tx.hash ∧ r.ts ≤ ts ∧ (pledgePeriodMin : Int) ≤ asInt64 (usub ts r.ts) ∧
        (keysOf env r.id).signer ≠ tx.key1 ∧ (keysOf env r.id).payee ≠ tx.key1 ∧ r.state ≠ .pledging) ∧
      total' = total + (l.filter (fun r => r.state == .accepted)).length
  | [], total, total', h => by
    rw [pledgeLoop] at h; cases h
    exact ⟨fun r hr => absurd hr List.not_mem_nil, by simp⟩
  | cn :: rest, total, total', h => by
    rw [pledgeLoop] at h
    by_cases h1 : cn.tx = tx.hash
    · rw [if_pos h1] at h; cases h
    · rw [if_neg h1] at h
      by_cases h2 : cn.ts > ts
      · rw [if_pos h2] at h; cases h
      · rw [if_neg h2] at h
        by_cases h3 : asInt64 (usub ts cn.ts) < (pledgePeriodMin : Int)
        · rw [if_pos h3] at h; cases h
        · rw [if_neg h3] at h
          by_cases h4 : (keysOf env cn.id).signer = tx.key1
          · rw [if_pos h4] at h; cases h
          · rw [if_neg h4] at h
            by_cases h5 : (keysOf env cn.id).payee = tx.key1
            · rw [if_pos h5] at h; cases h
            · rw [if_neg h5] at h
              have hcn : cn.state ≠ .pledging → (cn.tx ≠ tx.hash ∧ cn.ts ≤ ts ∧ (pledgePeriodMin : Int) ≤ asInt64 (usub ts cn.ts) ∧
                  (keysOf env cn.id).signer ≠ tx.key1 ∧ (keysOf env cn.id).payee ≠ tx.key1 ∧ cn.state ≠ .pledging) :=
                fun hs => ⟨h1, by omega, by omega, h4, h5, hs⟩
              cases hs : cn.state <;> rw [hs] at h <;> simp only at h
              · cases h
              · have ih := pledgeLoop_false h
                refine ⟨?_, ?_⟩
                · intro r hr
                  rcases List.mem_cons.mp hr with rfl | hr
                  · exact hcn (by rw [hs]; decide)
                  · exact ih.1 r hr
                · rw [ih.2, List.filter_cons, hs]; simp; omega
              · have ih := pledgeLoop_false h
                refine ⟨?_, ?_⟩
                · intro r hr
                  rcases List.mem_cons.mp hr with rfl | hr
                  · exact hcn (by rw [hs]; decide)
                  · exact ih.1 r hr
                · rw [ih.2, List.filter_cons, hs]; simp
              · have ih := pledgeLoop_false h
                refine ⟨?_, ?_⟩
                · intro r hr
                  rcases List.mem_cons.mp hr with rfl | hr
                  · exact hcn (by rw [hs]; decide)
                  · exact ih.1 r hr
                · rw [ih.2, List.filter_cons, hs]; simp

theorem pledgeLoop_true {env : OpsEnv} {ts : Nat} {tx : OpTx} : ∀ {l : List Rec} {total total' : Nat},
    pledgeLoop env ts tx l total = some (true, total') → ∃ r ∈ l, r.tx = tx.hash
  | [], total, total', h => by rw [pledgeLoop] at h; cases h
  | cn :: rest, total, total', h => by
    rw [pledgeLoop] at h
    by_cases h1 : cn.tx = tx.hash
    · exact ⟨cn, by simp, h1⟩
    · rw [if_neg h1] at h
      split at h
      · cases h
      · split at h
        · cases h
        · split at h
          · cases h
          · split at h
            · cases h
            · cases hs : cn.state <;> rw [hs] at h <;> simp only at h
              · cases h
              all_goals
                obtain ⟨r, hr, hrt⟩ := pledgeLoop_true h
                exact ⟨r, by simp [hr], hrt⟩

/-- the node-operation lock: unfinalized, an operation is admitted only when it repeats the
    newest recorded operation (same kind and transaction) or that one is more than the threshold
    older -/
theorem addNodeOp_unfinalized {lock : Option OpLock} {kind hash ts thr : Nat} {l : Option OpLock}
    (h : addNodeOp lock kind hash ts thr false = some l) :
    ((lock.getD ⟨0, 0, 0⟩).kind = kind ∧ (lock.getD ⟨0, 0, 0⟩).hash = hash ∧ l = lock) ∨
    ((lock.getD ⟨0, 0, 0⟩).ts + thr) % two64 < ts := by
  have key : ∀ (k : OpLock) (w : Option OpLock),
      (if (k.ts + thr) % two64 ≥ ts then
        (if k.kind = kind ∧ k.hash = hash then some lock else if (!false) = true then none else some w)
       else some w) = some l →
      (k.kind = kind ∧ k.hash = hash ∧ l = lock) ∨ (k.ts + thr) % two64 < ts := by
    intro k w hk
    by_cases h1 : (k.ts + thr) % two64 ≥ ts
    · rw [if_pos h1] at hk
      by_cases h2 : k.kind = kind ∧ k.hash = hash
      · rw [if_pos h2] at hk
        exact Or.inl ⟨h2.1, h2.2, (Option.some.inj hk).symm⟩
      · rw [if_neg h2] at hk; simp at hk
    · exact Or.inr (by omega)
  unfold addNodeOp at h
  cases lock with
  | none => exact key ⟨0, 0, 0⟩ _ h
  | some k => exact key k _ h

/-- **An accepted pledge carries exactly the pledge amount**, is proposed by the node elected
    for pledges, at or after the epoch, in an hour outside the mint and accept windows. -/
theorem accepted_pledge_amount_exact {env : OpsEnv} {lock l : Option OpLock} {proposer ts : Nat} {fin : Bool} {tx : OpTx}
    (h : validatePledge env lock proposer ts fin tx = (.accept, l)) :
    tx.amount = pledgeAmount ∧
    elect env.hist env.epoch Mixin.Facts.Gen.common_TransactionTypeNodePledge ts = .id proposer ∧
    env.epoch ≤ ts ∧ pledgeHour env.epoch ts = true ∧ acceptHour env.epoch ts = false := by
  unfold validatePledge at h
  cases hg : pledgeGate env.hist env.epoch ts proposer with
  | panic => rw [hg] at h; cases h
  | reject => rw [hg] at h; cases h
  | pass =>
    rw [hg] at h; simp only at h
    have hgate := pledge_gate hg
    by_cases ha : tx.amount ≠ pledgeAmount
    · rw [if_pos ha] at h; cases h
    · exact ⟨by omega, hgate.1, hgate.2.1, hgate.2.2, pledge_excludes_accept _ _ hgate.2.2⟩

/-- **One pledge at a time.** An accepted pledge that is not already recorded finds, among the
    nodes listed up to `ts + PledgePeriodMinimum`: no pledging node, only records at least the
    pledge period old, no node whose signer or payee key equals the new signer key, and fewer
    accepted nodes than the maximum; unfinalized it also respects the node-operation lock. -/
theorem accepted_pledge_one_at_a_time {env : OpsEnv} {lock l : Option OpLock} {proposer ts : Nat} {fin : Bool} {tx : OpTx}
    (h : validatePledge env lock proposer ts fin tx = (.accept, l))
    (hnew : ∀ r ∈ nodesList env.hist ((ts + pledgePeriodMin) % two64) false, r.tx ≠ tx.hash) :
    (∀ r ∈ nodesList env.hist ((ts + pledgePeriodMin) % two64) false,
      r.state ≠ .pledging ∧ r.ts ≤ ts ∧ (pledgePeriodMin : Int) ≤ asInt64 (usub ts r.ts) ∧
      (keysOf env r.id).signer ≠ tx.key1 ∧ (keysOf env r.id).payee ≠ tx.key1) ∧
    ((nodesList env.hist ((ts + pledgePeriodMin) % two64) false).filter (fun r => r.state == .accepted)).length < maxNodes ∧
    addNodeOp lock 1 tx.hash ts (pledgePeriodMin * 2) fin = some l := by
  unfold validatePledge at h
  cases hg : pledgeGate env.hist env.epoch ts proposer with
  | panic => rw [hg] at h; cases h
  | reject => rw [hg] at h; cases h
  | pass =>
    rw [hg] at h; simp only at h
    by_cases ha : tx.amount ≠ pledgeAmount
    · rw [if_pos ha] at h; cases h
    · rw [if_neg ha] at h
      cases hl : pledgeLoop env ts tx (nodesList env.hist ((ts + pledgePeriodMin) % two64) false) 0 with
      | none => rw [hl] at h; cases h
      | some pr =>
        obtain ⟨b, total⟩ := pr
        cases b with
        | true =>
          obtain ⟨r, hr, hrt⟩ := pledgeLoop_true hl
          exact absurd hrt (hnew r hr)
        | false =>
          rw [hl] at h; simp only at h
          have hf := pledgeLoop_false hl
          by_cases hmax : total ≥ maxNodes
          · rw [if_pos hmax] at h; cases h
          · rw [if_neg hmax] at h
            cases hadd : addNodeOp lock 1 tx.hash ts (pledgePeriodMin * 2) fin with
            | none => rw [hadd] at h; cases h
            | some l' =>
              rw [hadd] at h; simp only at h
              have : l' = l := by cases h; rfl
              subst this
              refine ⟨fun r hr => ?_, by have := hf.2; omega, rfl⟩
              have := hf.1 r hr
              exact ⟨this.2.2.2.2.2, this.2.1, this.2.2.1, this.2.2.2.1, this.2.2.2.2.1⟩

/-! ## cancel -/

/-- **An accepted cancel** lies in the accept window at or after the epoch, while a node is
    pledging, between the minimum and the maximum accept period after that pledge; unfinalized it
    is not stale with respect to the graph and respects the node-operation lock. -/
theorem accepted_cancel_in_period {env : OpsEnv} {lock l : Option OpLock} {ts : Nat} {fin : Bool} {tx : OpTx}
    (h : validateCancel env lock ts fin tx = (.accept, l)) :
    env.epoch ≤ ts ∧ acceptHour env.epoch ts = true ∧
    (∃ p, pledgingNode env.hist ts = some p ∧ p.ts ≤ ts ∧
      (acceptPeriodMin : Int) ≤ asInt64 (ts - p.ts) ∧ asInt64 (ts - p.ts) ≤ (acceptPeriodMax : Int)) ∧
    (fin = false → env.graphTs ≤ (ts + staleGap) % two64) ∧
    addNodeOp lock 2 tx.hash ts (pledgePeriodMin * 2) fin = some l := by
  unfold validateCancel at h
  by_cases he : ts < env.epoch
  · rw [if_pos he] at h; cases h
  · rw [if_neg he] at h
    cases hp : pledgingNode env.hist ts with
    | none => rw [hp] at h; cases h
    | some p =>
      rw [hp] at h; simp only at h
      by_cases h1 : (!acceptHour env.epoch ts) = true
      · rw [if_pos h1] at h; cases h
      · rw [if_neg h1] at h
        by_cases h2 : (!fin) = true ∧ (ts + staleGap) % two64 < env.graphTs
        · rw [if_pos h2] at h; cases h
        · rw [if_neg h2] at h
          by_cases h3 : ts < p.ts
          · rw [if_pos h3] at h; cases h
          · rw [if_neg h3] at h
            by_cases h4 : asInt64 (ts - p.ts) < (acceptPeriodMin : Int)
            · rw [if_pos h4] at h; cases h
            · rw [if_neg h4] at h
              by_cases h5 : asInt64 (ts - p.ts) > (acceptPeriodMax : Int)
              · rw [if_pos h5] at h; cases h
              · rw [if_neg h5] at h
                cases hadd : addNodeOp lock 2 tx.hash ts (pledgePeriodMin * 2) fin with
                | none => rw [hadd] at h; cases h
                | some l' =>
                  rw [hadd] at h; simp only at h
                  have : l' = l := by cases h; rfl
                  subst this
                  refine ⟨by omega, by simpa using h1, ⟨p, rfl, by omega, by omega, by omega⟩, ?_, rfl⟩
                  intro hf
                  subst hf
                  simp at h2
                  omega

/-! ## accept -/

/-- **A node accept is only accepted after the accept period**: in round 0, not in the future,
    for the chain of the node that is pledging at `ts`, in the accept window at or after the
    epoch, between the minimum and the maximum accept period after its pledge; the accepted
    transaction spends that node's stored pledge and carries the pledged amount and extra; every
    other payload byte is the kernel's own. -/
theorem accepted_accept_after_period {env : OpsEnv} {chain : ChainView} {round ts canon : Nat} {future fin : Bool} {tx : OpTx}
    (h : validateAccept env chain round ts future fin canon tx = .accept) :
    round = 0 ∧ future = false ∧ chain.hasState = false ∧
    ∃ p ci pledge, pledgingNode env.hist ts = some p ∧ chain.info = some ci ∧ p.id = ci.id ∧
      env.epoch ≤ ts ∧ acceptHour env.epoch ts = true ∧ p.ts ≤ ts ∧
      (acceptPeriodMin : Int) ≤ asInt64 (ts - p.ts) ∧ asInt64 (ts - p.ts) ≤ (acceptPeriodMax : Int) ∧
      (fin = false → env.graphTs ≤ (ts + staleGap) % two64) ∧
      storedOf env ci.tx = some pledge ∧ pledge.extraLen = 64 ∧ (keysOf env ci.id).signer = pledge.key1 ∧
      tx.input = ci.tx ∧ tx.amount = pledge.amount ∧ tx.extra = pledge.extra ∧ tx.rest = canon := by
  unfold validateAccept at h
  by_cases h0 : round ≠ 0
  · rw [if_pos h0] at h; cases h
  · rw [if_neg h0] at h
    by_cases hx : (!chain.exists_) = true
    · rw [if_pos hx] at h; cases h
    · rw [if_neg hx] at h
      by_cases hf : future = true
      · rw [if_pos hf] at h; cases h
      · rw [if_neg hf] at h
        by_cases hs : chain.hasState = true
        · rw [if_pos hs] at h; cases h
        · rw [if_neg hs] at h
          cases hp : pledgingNode env.hist ts with
          | none => rw [hp] at h; cases h
          | some p =>
            rw [hp] at h; simp only at h
            cases hi : chain.info with
            | none => rw [hi] at h; cases h
            | some ci =>
              rw [hi] at h; simp only at h
              by_cases h1 : p.id ≠ ci.id
              · rw [if_pos h1] at h; cases h
              · rw [if_neg h1] at h
                by_cases h2 : ts < env.epoch
                · rw [if_pos h2] at h; cases h
                · rw [if_neg h2] at h
                  by_cases h3 : (!acceptHour env.epoch ts) = true
                  · rw [if_pos h3] at h; cases h
                  · rw [if_neg h3] at h
                    by_cases h4 : (!fin) = true ∧ (ts + staleGap) % two64 < env.graphTs
                    · rw [if_pos h4] at h; cases h
                    · rw [if_neg h4] at h
                      by_cases h5 : ts < p.ts
                      · rw [if_pos h5] at h; cases h
                      · rw [if_neg h5] at h
                        by_cases h6 : asInt64 (ts - p.ts) < (acceptPeriodMin : Int)
                        · rw [if_pos h6] at h; cases h
                        · rw [if_neg h6] at h
                          by_cases h7 : asInt64 (ts - p.ts) > (acceptPeriodMax : Int)
                          · rw [if_pos h7] at h; cases h
                          · rw [if_neg h7] at h
                            cases hst : storedOf env ci.tx with
                            | none => rw [hst] at h; cases h
                            | some pledge =>
                              rw [hst] at h; simp only at h
                              by_cases h8 : pledge.extraLen ≠ 64
                              · rw [if_pos h8] at h; cases h
                              · rw [if_neg h8] at h
                                by_cases h9 : (keysOf env ci.id).signer ≠ pledge.key1
                                · rw [if_pos h9] at h; cases h
                                · rw [if_neg h9] at h
                                  by_cases h10 : tx.input = ci.tx ∧ tx.amount = pledge.amount ∧ tx.extra = pledge.extra ∧ tx.rest = canon
                                  · refine ⟨by omega, by simpa using hf, by simpa using hs, p, ci, pledge, rfl, rfl,
                                      by omega, by omega, by simpa using h3, by omega, by omega, by omega, ?_, hst,
                                      by omega, by simpa using h9, h10.1, h10.2.1, h10.2.2.1, h10.2.2.2⟩
                                    intro hfin; subst hfin; simp at h4; omega
                                  · rw [if_neg h10] at h; cases h

/-! ## remove -/

theorem latest_subset (recs : List Rec) : ∀ r ∈ latest recs, r ∈ recs := by
  unfold latest
  suffices ∀ (l acc : List Rec), ∀ r ∈ l.foldl (fun acc r => acc.filter (fun x => x.id != r.id) ++ [r]) acc,
      r ∈ acc ∨ r ∈ l from fun r hr => (this recs [] r hr).resolve_left (by simp)
  intro l
  induction l with
  | nil => intro acc r hr; exact Or.inl hr
  | cons x xs ih =>
    intro acc r hr
    rw [List.foldl_cons] at hr
    rcases ih _ r hr with h | h
    · rcases List.mem_append.mp h with h | h
      · exact Or.inl (List.mem_filter.mp h).1
      · simp only [List.mem_singleton] at h
        exact Or.inr (by simp [h])
    · exact Or.inr (by simp [h])

theorem nodesList_subset (hist : List Rec) (t : Nat) (ao : Bool) : ∀ r ∈ nodesList hist t ao, r ∈ hist := by
  intro r hr
  unfold nodesList at hr
  split at hr
  · cases hr
  · unfold nodeSeq at hr
    have h1 := (sortRecs_perm _).mem_iff.mp hr
    have h2 := (List.mem_filter.mp h1).1
    have h3 := latest_subset _ r h2
    exact (List.takeWhile_sublist _).subset h3

theorem removeLoop_old_absent {now h : Nat} : ∀ (l : List Rec) (candi : Option Rec) (acc : List Rec),
    (∀ r ∈ l, r.tx ≠ h) → removeLoop now (some h) l candi acc = removeLoop now none l candi acc
  | [], _, _, _ => by simp [removeLoop]
  | cn :: rest, candi, acc, hall => by
    have hcn : cn.tx ≠ h := hall cn (by simp)
    have hrest : ∀ r ∈ rest, r.tx ≠ h := fun r hr => hall r (by simp [hr])
    simp only [removeLoop]
    rw [if_neg (show ¬ (some h = some cn.tx) from fun he => hcn (Option.some.inj he).symm)]
    rw [if_neg (show ¬ ((none : Option Nat) = some cn.tx) from by simp)]
    by_cases h1 : now < cn.ts
    · simp only [h1, if_true]
    · simp only [h1, if_false]
      by_cases h2 : asInt64 (usub now cn.ts) < (pledgePeriodMin : Int)
      · simp only [h2, if_true]
      · simp only [h2, if_false]
        cases cn.state <;> simp only [removeLoop_old_absent rest _ _ hrest]

theorem checkRemove_old_absent {hist : List Rec} {epoch p now h : Nat} (hall : ∀ r ∈ hist, r.tx ≠ h) :
    checkRemove hist epoch p now (some h) = checkRemove hist epoch p now none := by
  unfold checkRemove
  rw [removeLoop_old_absent _ _ _ (fun r hr => hall r (nodesList_subset _ _ _ r hr))]

/-- **An accepted fresh removal removes the oldest accepted node, never the proposer.** A
    removal snapshot accepted by the validator whose transaction is not already recorded in the
    node history is proposed by the node elected for removals, inside the accept window at or
    after the epoch while no node is pledging; the node it removes is the oldest accepted node
    (more than the minimum remain listed) and differs from the proposer; the transaction spends
    that node's stored accept transaction and carries its amount and extra; every other payload
    byte is the kernel's own. -/
theorem accepted_removal_is_oldest_and_not_proposer {env : OpsEnv} {proposer ts canon : Nat} {fin : Bool} {tx : OpTx}
    (h : validateRemove env proposer ts fin canon tx = .accept) (hnew : ∀ r ∈ env.hist, r.tx ≠ tx.hash) :
    elect env.hist env.epoch Mixin.Facts.Gen.common_TransactionTypeNodeRemove ts = .id proposer ∧
    ∃ c acc, ((nodesList env.hist ts false).filter (fun r => r.state == .accepted)).head? = some c ∧
      minNodes < ((nodesList env.hist ts false).filter (fun r => r.state == .accepted)).length ∧
      c.id ≠ proposer ∧ acceptHour env.epoch ts = true ∧ env.epoch ≤ ts ∧ pledgingNode env.hist ts = none ∧
      storedOf env c.tx = some acc ∧ tx.input = c.tx ∧ tx.amount = acc.amount ∧ tx.extra = acc.extra ∧ tx.rest = canon := by
  unfold validateRemove at h
  cases hg : electedIs env.hist env.epoch Mixin.Facts.Gen.common_TransactionTypeNodeRemove ts proposer with
  | panic => rw [hg] at h; cases h
  | reject => rw [hg] at h; cases h
  | pass =>
    rw [hg] at h; simp only at h
    have hel := electedIs_pass Mixin.Facts.ExpectedC29.remove_elected.1 hg
    have hany : env.hist.any (fun cn => cn.state == .removed && cn.id == tx.signerId && fin && cn.tx == tx.hash) = false := by
      rw [List.any_eq_false]
      intro r hr
      have := hnew r hr
      simp [this]
    rw [hany] at h
    simp only [Bool.false_eq_true, if_false] at h
    rw [checkRemove_old_absent hnew] at h
    cases hc : checkRemove env.hist env.epoch proposer ts none with
    | none => rw [hc] at h; cases h
    | some c =>
      rw [hc] at h; simp only at h
      have hc1 := elect_not_self_removal hc
      have hc2 := removal_candidate_is_oldest hc
      have hct : c.tx ≠ tx.hash := by
        have hmem : c ∈ (nodesList env.hist ts false).filter (fun r => r.state == .accepted) := List.mem_of_mem_head? hc2.1
        exact hnew c (nodesList_subset _ _ _ c (List.mem_filter.mp hmem).1)
      rw [if_neg hct] at h
      cases hs : storedOf env c.tx with
      | none => rw [hs] at h; cases h
      | some acc =>
        rw [hs] at h; simp only at h
        split at h
        · cases h
        · split at h
          · cases h
          · split at h
            · next hf =>
              exact ⟨hel, c, acc, hc2.1, hc2.2, hc1.1, hc1.2.1, hc1.2.2.1, hc1.2.2.2, hs, hf.1, hf.2.1, hf.2.2.1, hf.2.2.2⟩
            · cases h

/-- An accepted removal (fresh or the re-validation of a recorded one) always comes from the
    node elected for removals at that time. -/
theorem accepted_removal_proposer_elected {env : OpsEnv} {proposer ts canon : Nat} {fin : Bool} {tx : OpTx}
    (h : validateRemove env proposer ts fin canon tx = .accept) :
    elect env.hist env.epoch Mixin.Facts.Gen.common_TransactionTypeNodeRemove ts = .id proposer := by
  unfold validateRemove at h
  cases hg : electedIs env.hist env.epoch Mixin.Facts.Gen.common_TransactionTypeNodeRemove ts proposer with
  | panic => rw [hg] at h; cases h
  | reject => rw [hg] at h; cases h
  | pass => exact electedIs_pass Mixin.Facts.ExpectedC29.remove_elected.1 hg

/-! ## the time a snapshot is validated at does not depend on the local clock -/

/-- **Every validator uses the snapshot's own timestamp** for any snapshot that carries one, and
    for any snapshot of another node — whatever the local clock shows. (The clock only stands in
    for the proposer's own snapshot before it has a timestamp.) -/
theorem operation_time_is_snapshot_time (self clock snapNode snapTs : Nat) (h : snapTs ≠ 0 ∨ snapNode ≠ self) :
    opTime self clock snapNode snapTs = snapTs := by
  unfold opTime
  rw [if_neg (by intro hc; rcases h with h | h; exact h hc.1; exact h hc.2)]

theorem operation_time_own_unstamped (self clock : Nat) : opTime self clock self 0 = clock := by
  simp [opTime]

/-- **Two nodes with different clocks decide alike on the same timestamped snapshot**: every
    node-operation validator (pledge, cancel, accept, remove and the custodian-update gates),
    given the same store reads, returns the same decision (and leaves the same operation lock) on a
    snapshot with a non-zero timestamp, for any two validating nodes and any two clocks —
    including the proposer itself re-validating its own snapshot later. -/
theorem decision_independent_of_clock (self₁ clock₁ self₂ clock₂ snapNode snapTs : Nat) (hts : snapTs ≠ 0)
    (env : OpsEnv) (lock : Option OpLock) (fin : Bool) (tx : OpTx) (chain : ChainView) (round canon : Nat) (future : Bool) :
    validatePledgeSnap self₁ clock₁ env lock snapNode snapTs fin tx = validatePledgeSnap self₂ clock₂ env lock snapNode snapTs fin tx ∧
    validateCancelSnap self₁ clock₁ env lock snapNode snapTs fin tx = validateCancelSnap self₂ clock₂ env lock snapNode snapTs fin tx ∧
    validateAcceptSnap self₁ clock₁ env chain round snapNode snapTs future fin canon tx =
      validateAcceptSnap self₂ clock₂ env chain round snapNode snapTs future fin canon tx ∧
    validateRemoveSnap self₁ clock₁ env snapNode snapTs fin canon tx = validateRemoveSnap self₂ clock₂ env snapNode snapTs fin canon tx ∧
    pledgeGateSnap self₁ clock₁ env.hist env.epoch snapNode snapTs = pledgeGateSnap self₂ clock₂ env.hist env.epoch snapNode snapTs ∧
    custodianGateSnap self₁ clock₁ env.hist env.epoch snapNode snapTs = custodianGateSnap self₂ clock₂ env.hist env.epoch snapNode snapTs := by
  have h1 := operation_time_is_snapshot_time self₁ clock₁ snapNode snapTs (Or.inl hts)
  have h2 := operation_time_is_snapshot_time self₂ clock₂ snapNode snapTs (Or.inl hts)
  unfold validatePledgeSnap validateCancelSnap validateAcceptSnap validateRemoveSnap pledgeGateSnap custodianGateSnap
  rw [h1, h2]
  exact ⟨rfl, rfl, rfl, rfl, rfl, rfl⟩

/-- … and so the acceptance theorems speak about the snapshot's timestamp: e.g. an accepted
    pledge snapshot with a timestamp is in a pledge hour *of that timestamp* and its proposer is
    the node elected *at that timestamp*, on every node. -/
theorem accepted_pledge_snapshot_at_its_timestamp {self clock snapNode snapTs : Nat} (hts : snapTs ≠ 0)
    {env : OpsEnv} {lock l : Option OpLock} {fin : Bool} {tx : OpTx}
    (h : validatePledgeSnap self clock env lock snapNode snapTs fin tx = (.accept, l)) :
    elect env.hist env.epoch Mixin.Facts.Gen.common_TransactionTypeNodePledge snapTs = .id snapNode ∧
    pledgeHour env.epoch snapTs = true ∧ tx.amount = pledgeAmount := by
  unfold validatePledgeSnap at h
  rw [operation_time_is_snapshot_time self clock snapNode snapTs (Or.inl hts)] at h
  have := accepted_pledge_amount_exact h
  exact ⟨this.2.1, this.2.2.2.1, this.1⟩

/-! ## non-vacuity: the model accepts concrete snapshots -/

def opsHist : List Rec := (List.range 9).map (fun i => ⟨100 - i, i, 1000, .accepted⟩)
def opsEnv : OpsEnv :=
  { hist := opsHist, epoch := 1000, keys := [⟨92, 7001, 7002⟩], stored := [⟨8, 555, 66, 64, 7001, 7002⟩], graphTs := 0 }
def tsAt (day hour : Nat) : Nat := 1000 + day * 86400000000000 + hour * 3600000000000
def electedAt (op ts : Nat) : Nat := match elect opsHist 1000 op ts with | .id x => x | _ => 0

example : validatePledge opsEnv none (electedAt 6 (tsAt 5 3)) (tsAt 5 3) false ⟨4242, pledgeAmount, 1, 2, 9001, 3, 4⟩
    = (.accept, some ⟨1, 4242, tsAt 5 3⟩) := by decide
example : (validatePledge opsEnv none (electedAt 6 (tsAt 5 3)) (tsAt 5 3) false ⟨4242, pledgeAmount + 1, 1, 2, 9001, 3, 4⟩).1
    = .reject := by decide
/-- a second, different pledge one hour later is refused by the lock unless finalized -/
example : (validatePledge opsEnv (some ⟨1, 4242, tsAt 5 3⟩) (electedAt 6 (tsAt 5 4)) (tsAt 5 4) false
    ⟨4343, pledgeAmount, 1, 2, 9002, 3, 4⟩).1 = .reject := by decide
example : validateRemove opsEnv (electedAt 9 (tsAt 5 14)) (tsAt 5 14) false 77 ⟨4444, 555, 8, 66, 7001, 92, 77⟩ = .accept := by decide
example : validateRemove opsEnv (electedAt 9 (tsAt 5 14)) (tsAt 5 14) false 77 ⟨4444, 554, 8, 66, 7001, 92, 77⟩ = .reject := by decide

def pledgingRec (ts : Nat) : Rec := ⟨200, 50, ts, .pledging⟩
def pledgingEnvAt (ts : Nat) : OpsEnv :=
  { hist := opsHist ++ [pledgingRec ts], epoch := 1000, keys := [⟨200, 8001, 8002⟩],
    stored := [⟨50, 555, 67, 64, 8001, 8002⟩], graphTs := 0 }
def pledgingEnv : OpsEnv := pledgingEnvAt (tsAt 4 2)
example : validateAccept pledgingEnv ⟨true, some (pledgingRec (tsAt 4 2)), false⟩ 0 (tsAt 4 14) false false 78
    ⟨4545, 555, 50, 67, 8001, 200, 78⟩ = .accept := by decide
/-- one nanosecond before the minimum accept period -/
example : validateAccept (pledgingEnvAt (tsAt 4 2 + 1)) ⟨true, some (pledgingRec (tsAt 4 2 + 1)), false⟩ 0 (tsAt 4 14) false false 78
    ⟨4545, 555, 50, 67, 8001, 200, 78⟩ = .reject := by decide
example : (validateCancel pledgingEnv none (tsAt 4 15) false ⟨4646, 1, 50, 67, 8001, 200, 1⟩).1 = .accept := by decide

/-- the proposer's own snapshot without a timestamp is the only case that looks at the clock -/
example : opTime 7 123 7 0 = 123 ∧ opTime 7 123 7 55 = 55 ∧ opTime 7 123 8 0 = 0 := by decide

end Mixin.C29
