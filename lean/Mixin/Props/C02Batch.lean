import Mixin.Model.BatchVerify
import Mixin.Proofs.Cosi
import Mathlib.Data.ZMod.Basic
import Mathlib.Algebra.Module.BigOperators
import Mathlib.Tactic.Abel
import Mathlib.Tactic.Ring
/-!
# C02 (batch part) — batch signature checking agrees with checking each signature on its own

The algebraic content of crypto/batch.go, in two layers.

* **Abstract group** (`Module (ZMod ℓ) G`, base point `B`): the point the code tests against the
  identity is `−Σ zᵢ•Eᵢ` with the per-entry error point `Eᵢ = sᵢ•B − Rᵢ − cᵢ•Aᵢ`
  (`batch_point_eq`); hence all entries valid ⇒ accepted for every coefficient vector
  (`batch_complete_group`), and accepted for the unit coefficient vectors ⇒ every entry valid
  (`batch_sound_all_coeffs_group`, and with an injective `k ↦ k•B` the scalar equation
  `s = r + c·a`, `entry_valid_iff_group`).
* **Model** (`Mixin.BatchVerify`, discrete-log instance, tied to crypto/batch.go by the
  `batchverify` stream with injected coefficients): `batch_error_terms` — for a GIVEN coefficient
  vector the batch accepts iff every entry decodes and `Σ zᵢ·eᵢ = 0` with
  `eᵢ = sᵢ − (rᵢ + cᵢ·aᵢ)`; `batch_complete`, `batch_sound_all_coeffs`, `batch_single`,
  `same_coefficient_cancels` (+ the concrete counterexample for a shared coefficient).

**Not a theorem**: the probabilistic soundness "for entries fixed before the coefficients are
drawn, an invalid entry survives a random 128-bit `z` with probability ≤ 2⁻¹²⁸" (it needs ℓ prime
and a probability space; `batch_error_terms` is the deterministic statement it rests on), and the
quality of the random source.  **Torsion**: the model covers the prime-order subgroup (points are
discrete logs; `decodePoint` refuses everything else, so the final `MultByCofactor` is modelled as
multiplication by 8 mod ℓ and shown harmless, `final_test`).  Encodings with a small-order
component are `Pt.bad` in the model; that the real code refuses them in the batch exactly as in the
single check is tested only (harness: `d•B + T` entries).
-/
namespace Mixin.C02Batch
open Mixin.Cosi Mixin.BatchVerify

/-! ## abstract group -/

section Abstract
variable {G : Type} [AddCommGroup G] [Module (ZMod ell) G] (B : G)

/-- error point of an entry -/
def errPt (s c : ZMod ell) (R A : G) : G := s • B - R - c • A

/-- the point `[-Σ zᵢsᵢ]B + Σ [zᵢ]Rᵢ + Σ [zᵢcᵢ]Aᵢ` computed by `Verify` is `−Σ zᵢ•Eᵢ` -/
theorem batch_point_eq {ι : Type} (t : Finset ι) (z s c : ι → ZMod ell) (R A : ι → G) :
    (-(∑ i ∈ t, z i * s i)) • B + ∑ i ∈ t, z i • R i + ∑ i ∈ t, (z i * c i) • A i =
      -(∑ i ∈ t, z i • errPt B (s i) (c i) (R i) (A i)) := by
  simp only [errPt, smul_sub, Finset.sum_sub_distrib, neg_smul, Finset.sum_smul, mul_smul, neg_sub]
  abel

/-- all entries valid ⇒ the batch point is the identity for EVERY coefficient vector -/
theorem batch_complete_group {ι : Type} (t : Finset ι) (z s c : ι → ZMod ell) (R A : ι → G)
    (h : ∀ i ∈ t, errPt B (s i) (c i) (R i) (A i) = 0) :
    (-(∑ i ∈ t, z i * s i)) • B + ∑ i ∈ t, z i • R i + ∑ i ∈ t, (z i * c i) • A i = 0 := by
  rw [batch_point_eq, Finset.sum_eq_zero (fun i hi => by rw [h i hi, smul_zero]), neg_zero]

/-- accepted for the unit coefficient vectors (a fortiori: for every vector) ⇒ every entry valid -/
theorem batch_sound_all_coeffs_group {ι : Type} [DecidableEq ι] (t : Finset ι) (s c : ι → ZMod ell)
    (R A : ι → G)
    (h : ∀ j ∈ t, (-(∑ i ∈ t, (if i = j then (1 : ZMod ell) else 0) * s i)) • B +
        ∑ i ∈ t, (if i = j then (1 : ZMod ell) else 0) • R i +
        ∑ i ∈ t, ((if i = j then (1 : ZMod ell) else 0) * c i) • A i = 0) :
    ∀ j ∈ t, errPt B (s j) (c j) (R j) (A j) = 0 := by
  intro j hj
  have := h j hj
  rw [batch_point_eq, neg_eq_zero, Finset.sum_eq_single j] at this
  · simpa using this
  · intro i _ hij; simp [hij]
  · intro hnot; exact absurd hj hnot

/-- with an injective `k ↦ k•B`, an entry over points `r•B`, `a•B` is valid iff `s = r + c·a` -/
theorem entry_valid_iff_group (hB : Function.Injective (fun k : ZMod ell => k • B))
    (s c r a : ZMod ell) : errPt B s c (r • B) (a • B) = 0 ↔ s = r + c * a := by
  have h : errPt B s c (r • B) (a • B) = (s - (r + c * a)) • B := by
    simp only [errPt, sub_smul, add_smul, mul_smul]; abel
  rw [h]
  constructor
  · intro e
    have : (s - (r + c * a)) • B = (0 : ZMod ell) • B := by rw [e, zero_smul]
    exact sub_eq_zero.1 (hB this)
  · intro e; rw [e, sub_self, zero_smul]

/-- one shared coefficient lets opposite errors cancel (in any group) -/
theorem same_coefficient_cancels_group (z : ZMod ell) (E : G) : z • E + z • (-E) = 0 := by
  rw [smul_neg, add_neg_cancel]

end Abstract

/-! ## the model: per-entry errors -/

/-- the entry passes the decoding steps of the loop -/
def Decodable (e : Entry) : Prop :=
  e.sigLen = 64 ∧ e.R.decode ≠ none ∧ e.A.decode ≠ none ∧ e.s < ell

/-- per-entry error `e = s − (r + c·a)` in `ZMod ℓ` -/
def err (e : Entry) : ZMod ell :=
  (e.s : ZMod ell) - ((dlOf e.R : ZMod ell) + (e.c : ZMod ell) * (dlOf e.A : ZMod ell))

/-- `Σ zᵢ·eᵢ` -/
def errSum : List Entry → List Nat → ZMod ell
  | e :: es, z :: zs => (z : ZMod ell) * err e + errSum es zs
  | _, _ => 0

theorem coprime_eight : Nat.Coprime 8 ell := by decide

/-- the final test (cofactor multiplication, comparison with the identity) is `pc − bc = 0` -/
theorem final_test (pc bc : Nat) :
    ((8 * ((pc + (ell - bc % ell)) % ell)) % ell == 0) = true ↔
      (pc : ZMod ell) - (bc : ZMod ell) = 0 := by
  have hu : IsUnit ((8 : Nat) : ZMod ell) := (ZMod.isUnit_iff_coprime 8 ell).2 coprime_eight
  have hle : bc % ell ≤ ell := Nat.le_of_lt (Nat.mod_lt _ ell_pos)
  rw [beq_iff_eq, ← Nat.dvd_iff_mod_eq_zero, ← ZMod.natCast_eq_zero_iff]
  rw [Nat.cast_mul, hu.mul_right_eq_zero, ZMod.natCast_mod, Nat.cast_add, Nat.cast_sub hle,
    ZMod.natCast_self, ZMod.natCast_mod]
  rw [show (pc : ZMod ell) + (0 - (bc : ZMod ell)) = (pc : ZMod ell) - (bc : ZMod ell) by ring]

theorem loop_spec (es : List Entry) (zs : List Nat) (bc pc : Nat)
    (hd : ∀ e ∈ es, Decodable e) (hlen : es.length ≤ zs.length) (hz : ∀ z ∈ zs, z < ell) :
    ∃ bc' pc', loop es zs bc pc = some (bc', pc') ∧
      (pc' : ZMod ell) - (bc' : ZMod ell) = (pc : ZMod ell) - (bc : ZMod ell) - errSum es zs := by
  induction es generalizing zs bc pc with
  | nil => exact ⟨bc, pc, by simp [loop], by simp [errSum]⟩
  | cons e es ih =>
    cases zs with
    | nil => simp at hlen
    | cons z zs =>
      obtain ⟨h64, hR, hA, hs⟩ := hd e (by simp)
      obtain ⟨r, hr⟩ := Option.ne_none_iff_exists'.1 hR
      obtain ⟨a, ha⟩ := Option.ne_none_iff_exists'.1 hA
      have hzl : z < ell := hz z (by simp)
      obtain ⟨bc', pc', h1, h2⟩ := ih zs ((z * e.s + bc) % ell) ((pc + z * r + (z * e.c % ell) * a) % ell)
        (fun x hx => hd x (by simp [hx])) (by simpa using hlen) (fun x hx => hz x (by simp [hx]))
      refine ⟨bc', pc', ?_, ?_⟩
      · unfold loop
        rw [if_neg (by simp [h64]), hr, ha]
        simp only
        rw [if_neg (by omega), if_neg (by omega)]
        exact h1
      · rw [h2]
        simp only [errSum, err, dlOf, hr, ha, Option.getD_some, ZMod.natCast_mod, Nat.cast_add,
          Nat.cast_mul]
        ring

theorem loop_none_of_not_decodable (es : List Entry) (zs : List Nat) (bc pc : Nat)
    (h : ∃ e ∈ es, ¬ Decodable e) : loop es zs bc pc = none := by
  induction es generalizing zs bc pc with
  | nil => obtain ⟨e, he, _⟩ := h; simp at he
  | cons e es ih =>
    cases zs with
    | nil => simp [loop]
    | cons z zs =>
      unfold loop
      by_cases h64 : e.sigLen ≠ 64
      · rw [if_pos h64]
      · rw [if_neg h64]
        cases hr : e.R.decode with
        | none => rfl
        | some r =>
          cases ha : e.A.decode with
          | none => rfl
          | some a =>
            simp only
            by_cases hz : z ≥ ell
            · rw [if_pos hz]
            · rw [if_neg hz]
              by_cases hs : e.s ≥ ell
              · rw [if_pos hs]
              · rw [if_neg hs]
                apply ih
                obtain ⟨x, hx, hnd⟩ := h
                rcases List.mem_cons.1 hx with rfl | hx
                · exfalso
                  exact hnd ⟨not_not.1 h64, by rw [hr]; simp, by rw [ha]; simp, by omega⟩
                · exact ⟨x, hx, hnd⟩

/-- **batch_error_terms**: for a given coefficient vector (one canonical coefficient per entry)
    `BatchVerifier.Verify` accepts iff the batch is non-empty, every entry passes decoding, and
    `Σ zᵢ·eᵢ = 0` in `ZMod ℓ`. -/
theorem batch_error_terms (es : List Entry) (zs : List Nat) (hlen : es.length = zs.length)
    (hz : ∀ z ∈ zs, z < ell) :
    verifierVerify es zs = true ↔ es ≠ [] ∧ (∀ e ∈ es, Decodable e) ∧ errSum es zs = 0 := by
  classical
  unfold verifierVerify
  cases es with
  | nil => simp
  | cons e0 rest =>
    simp only [List.isEmpty_cons, Bool.false_eq_true, if_false, ne_eq, reduceCtorEq,
      not_false_eq_true, true_and]
    by_cases hd : ∀ e ∈ e0 :: rest, Decodable e
    · obtain ⟨bc', pc', h1, h2⟩ := loop_spec (e0 :: rest) zs 0 0 hd (le_of_eq hlen) hz
      rw [h1]
      simp only
      rw [final_test, h2]
      simp only [Nat.cast_zero, sub_zero, zero_sub, neg_eq_zero]
      exact ⟨fun h => ⟨hd, h⟩, fun h => h.2⟩
    · have hex : ∃ e ∈ e0 :: rest, ¬ Decodable e := by
        by_contra hc
        exact hd (fun e he => by_contra (fun hn => hc ⟨e, he, hn⟩))
      rw [loop_none_of_not_decodable _ _ _ _ hex]
      simp only [Bool.false_eq_true, false_iff]
      exact fun h => hd h.1

/-! ## the single check -/

/-- `Key.Verify` of a 64-byte signature: the entry decodes and its error is zero -/
theorem single_iff (e : Entry) (h64 : e.sigLen = 64) :
    single e = true ↔ Decodable e ∧ err e = 0 := by
  unfold single
  rw [verifyWithChallenge_iff]
  constructor
  · rintro ⟨a, r, ha, hr, hlt, hs⟩
    refine ⟨⟨h64, by rw [hr]; simp, by rw [ha]; simp, hlt⟩, ?_⟩
    simp only [err, dlOf, ha, hr, Option.getD_some]
    rw [hs, ZMod.natCast_mod, Nat.cast_add, Nat.cast_mul]
    ring
  · rintro ⟨⟨_, hR, hA, hlt⟩, he⟩
    obtain ⟨r, hr⟩ := Option.ne_none_iff_exists'.1 hR
    obtain ⟨a, ha⟩ := Option.ne_none_iff_exists'.1 hA
    refine ⟨a, r, ha, hr, hlt, ?_⟩
    simp only [err, dlOf, ha, hr, Option.getD_some] at he
    have h2 : ((e.s : Nat) : ZMod ell) = ((r + e.c * a : Nat) : ZMod ell) := by
      rw [Nat.cast_add, Nat.cast_mul]; exact sub_eq_zero.1 he
    have := (ZMod.natCast_eq_natCast_iff' _ _ _).1 h2
    rw [Nat.mod_eq_of_lt hlt] at this
    exact this

theorem errSum_zero_of_valid (es : List Entry) (zs : List Nat) (h : ∀ e ∈ es, err e = 0) :
    errSum es zs = 0 := by
  induction es generalizing zs with
  | nil => simp [errSum]
  | cons e es ih =>
    cases zs with
    | nil => simp [errSum]
    | cons z zs =>
      simp [errSum, h e (by simp), ih zs (fun x hx => h x (by simp [hx]))]

/-- **batch_complete**: if every entry of a non-empty batch of 64-byte signatures passes
    `Key.Verify`, the batch is accepted for EVERY coefficient vector. -/
theorem batch_complete (es : List Entry) (zs : List Nat) (hne : es ≠ [])
    (hlen : es.length = zs.length) (hz : ∀ z ∈ zs, z < ell)
    (h : ∀ e ∈ es, e.sigLen = 64 ∧ single e = true) : verifierVerify es zs = true := by
  rw [batch_error_terms es zs hlen hz]
  refine ⟨hne, fun e he => ((single_iff e (h e he).1).1 (h e he).2).1, ?_⟩
  exact errSum_zero_of_valid es zs (fun e he => ((single_iff e (h e he).1).1 (h e he).2).2)

theorem errSum_zeros (es : List Entry) (n : Nat) : errSum es (List.replicate n 0) = 0 := by
  induction es generalizing n with
  | nil => simp [errSum]
  | cons e es ih =>
    cases n with
    | zero => simp [errSum]
    | succ n => simp [List.replicate_succ, errSum, ih n]

/-- **batch_sound_all_coeffs**: if the batch is accepted for every coefficient vector with
    entries 0 or 1 (in particular for the `n` unit vectors; a fortiori: for every vector the code
    could draw), then every entry passes `Key.Verify`. -/
theorem batch_sound_all_coeffs (es : List Entry)
    (h : ∀ zs : List Nat, zs.length = es.length → (∀ z ∈ zs, z ≤ 1) → verifierVerify es zs = true) :
    ∀ e ∈ es, single e = true := by
  have hsmall : ∀ zs : List Nat, (∀ z ∈ zs, z ≤ 1) → ∀ z ∈ zs, z < ell := by
    intro zs hz z hm
    have := hz z hm
    have : 1 < ell := by decide
    omega
  -- decodability, from the all-zero vector
  have hzero := h (List.replicate es.length 0) (by simp) (by intro z hz; simp at hz; omega)
  have hdec : ∀ e ∈ es, Decodable e :=
    ((batch_error_terms es _ (by simp) (hsmall _ (by intro z hz; simp at hz; omega))).1 hzero).2.1
  -- all error sums vanish
  have hsum : ∀ zs : List Nat, zs.length = es.length → (∀ z ∈ zs, z ≤ 1) → errSum es zs = 0 :=
    fun zs hl hz => ((batch_error_terms es zs hl.symm (hsmall zs hz)).1 (h zs hl hz)).2.2
  have herr : ∀ (l : List Entry), (∀ zs : List Nat, zs.length = l.length → (∀ z ∈ zs, z ≤ 1) →
      errSum l zs = 0) → ∀ e ∈ l, err e = 0 := by
    intro l
    induction l with
    | nil => simp
    | cons e0 rest ih =>
      intro hl e he
      have h1 := hl (1 :: List.replicate rest.length 0) (by simp)
        (by intro z hz; simp at hz; omega)
      simp only [errSum, errSum_zeros, Nat.cast_one, one_mul, add_zero] at h1
      rcases List.mem_cons.1 he with rfl | he
      · exact h1
      · apply ih _ e he
        intro zs hlz hz
        have := hl (0 :: zs) (by simp [hlz]) (by intro z hm; rcases List.mem_cons.1 hm with rfl | hm; omega; exact hz z hm)
        simpa [errSum] using this
  intro e he
  exact (single_iff e (hdec e he).1).2 ⟨hdec e he, herr es hsum e he⟩

/-- **batch_single**: a one-entry batch with a coefficient invertible mod ℓ (every `0 < z < ℓ`,
    ℓ being prime — primality of ℓ is not proved here, hence the coprimality hypothesis) decides
    exactly like `Key.Verify`. -/
theorem batch_single (e : Entry) (z : Nat) (h64 : e.sigLen = 64) (hz : z < ell)
    (hc : Nat.Coprime z ell) : verifierVerify [e] [z] = single e := by
  have hu : IsUnit ((z : Nat) : ZMod ell) := (ZMod.isUnit_iff_coprime z ell).2 hc
  rw [Bool.eq_iff_iff, batch_error_terms [e] [z] rfl (by simpa using hz), single_iff e h64]
  simp only [ne_eq, reduceCtorEq, not_false_eq_true, List.mem_singleton, forall_eq, errSum,
    add_zero, true_and, hu.mul_right_eq_zero]

/-- the same with primality as a hypothesis: any coefficient `z ≢ 0` -/
theorem batch_single_prime (hp : Nat.Prime ell) (e : Entry) (z : Nat) (h64 : e.sigLen = 64)
    (hz : z < ell) (hz0 : z ≠ 0) : verifierVerify [e] [z] = single e := by
  apply batch_single e z h64 hz
  exact (Nat.coprime_comm.1 ((Nat.Prime.coprime_iff_not_dvd hp).2 (fun hd => by
    have := Nat.le_of_dvd (Nat.pos_of_ne_zero hz0) hd; omega)))

/-! ## a shared coefficient is not enough -/

theorem errSum_replicate (es : List Entry) (z : Nat) :
    errSum es (List.replicate es.length z) = (z : ZMod ell) * (es.map err).sum := by
  induction es with
  | nil => simp [errSum]
  | cons e es ih => simp [List.replicate_succ, errSum, ih, mul_add]

/-- **same_coefficient_cancels**: if all entries got the SAME coefficient, every batch of
    decodable entries whose errors sum to zero is accepted — e.g. two entries with errors `δ`
    and `−δ`, both individually invalid. Independent coefficients are what rules this out. -/
theorem same_coefficient_cancels (es : List Entry) (z : Nat) (hz : z < ell) (hne : es ≠ [])
    (hd : ∀ e ∈ es, Decodable e) (hsum : (es.map err).sum = 0) :
    verifierVerify es (List.replicate es.length z) = true := by
  rw [batch_error_terms es _ (by simp) (by intro x hx; rw [List.eq_of_mem_replicate hx]; exact hz)]
  exact ⟨hne, hd, by rw [errSum_replicate, hsum, mul_zero]⟩

/-- the proved counterexample for the shared-coefficient variant: keys `5•B`, `7•B`, commitments
    `11•B`, `13•B`, challenges 3 and 4, responses off by `+1` and `−1`. Both entries fail
    `Key.Verify`; with one shared coefficient the batch accepts, with two different ones it
    rejects. -/
theorem shared_coefficient_counterexample :
    let e₁ : Entry := { A := Pt.dl 5, sigLen := 64, R := Pt.dl 11, s := 11 + 3 * 5 + 1, c := 3 }
    let e₂ : Entry := { A := Pt.dl 7, sigLen := 64, R := Pt.dl 13, s := 13 + 4 * 7 - 1, c := 4 }
    single e₁ = false ∧ single e₂ = false ∧
    verifierVerify [e₁, e₂] [123456789, 123456789] = true ∧
    verifierVerify [e₁, e₂] [123456789, 987654321] = false := by
  decide

/-! ## `BatchVerify` (the exported entry point) -/

/-- `BatchVerify` refuses empty input, slices of different lengths and nil entries; a single pair
    goes through `Key.Verify`; anything else through the verifier. -/
theorem batchVerify_cases (nk ns : Nat) (es : List Entry) (zs : List Nat) :
    (nk = 0 ∨ nk ≠ ns → batchVerify nk ns es zs = false) ∧
    ((∃ e ∈ es, e.keyNil = true ∨ e.sigNil = true) → batchVerify nk ns es zs = false) ∧
    (∀ e, nk ≠ 0 → nk = ns → e.keyNil = false → e.sigNil = false →
      batchVerify nk ns [e] zs = single e) := by
  refine ⟨?_, ?_, ?_⟩
  · intro h
    unfold batchVerify
    rw [if_pos h]
  · rintro ⟨e, he, hn⟩
    unfold batchVerify
    by_cases h : nk = 0 ∨ nk ≠ ns
    · rw [if_pos h]
    · rw [if_neg h]
      have : es.any (fun e => e.keyNil || e.sigNil) = true := by
        rw [List.any_eq_true]
        exact ⟨e, he, by rcases hn with hn | hn <;> simp [hn]⟩
      rw [if_pos this]
  · intro e h0 hns hk hs
    unfold batchVerify
    rw [if_neg (by intro h; rcases h with h | h; exact h0 h; exact h hns)]
    simp [hk, hs, single]

/-! ## non-vacuity -/

/-- an honest two-entry batch is accepted, whatever the coefficients -/
example :
    let e₁ : Entry := { A := Pt.dl 5, sigLen := 64, R := Pt.dl 11, s := 11 + 3 * 5, c := 3 }
    let e₂ : Entry := { A := Pt.dl 7, sigLen := 64, R := Pt.dl 13, s := 13 + 4 * 7, c := 4 }
    single e₁ = true ∧ single e₂ = true ∧ verifierVerify [e₁, e₂] [17, 2 ^ 128 - 1] = true ∧
    verifierVerify [] [] = false ∧ verifierVerify [{ e₁ with sigLen := 63 }, e₂] [17, 19] = false := by
  decide

end Mixin.C02Batch
