import Mixin.Facts.ExpectedC35
import Mixin.Model.Topology
/-!
# C35 — local topology order is a strictly increasing unique cursor

Theorems about `Mixin.Model.Topology` (model of `storage/badger_topology.go`, the topology
records written by `WriteSnapshot`, and the counter of `kernel/topology.go`), for every history of
genesis-style writes (while no node runs), node starts, `TopoWrite`s — including writes that
panic on the "snapshot duplication" assertion —, stops/reopens and queries.
-/
namespace Mixin.C35
open Mixin.Topology

def Sorted (t : List (Nat × Hash)) : Prop := t.Pairwise (fun a b => a.1 < b.1)

/-- the invariant of the two index key spaces and the in-memory counter -/
structure Inv (s : S) : Prop where
  sorted : Sorted s.topo
  fwd : ∀ o h, (o, h) ∈ s.topo → lookupRev h s.rev = some o
  bwd : ∀ h o, lookupRev h s.rev = some o → (o, h) ∈ s.topo
  seqOk : ∀ n, s.seq = some n → ∀ e ∈ s.topo, e.1 ≤ n

/-- `raw` (a write that does not go through the node: genesis load) only while no node runs -/
def okOp (s : S) : Op → Prop
  | .raw _ _ => s.seq = none
  | _ => True

def valid : S → List Op → Prop
  | _, [] => True
  | s, op :: ops => okOp s op ∧ valid (step s op).1 ops

/-! ## helper lemmas -/

theorem mem_insertTopo (o : Nat) (h : Hash) (t : List (Nat × Hash)) (e : Nat × Hash) :
    e ∈ insertTopo o h t ↔ e = (o, h) ∨ e ∈ t := by
  induction t with
  | nil => simp [insertTopo]
  | cons x xs ih =>
    simp only [insertTopo]
    split
    · simp
    · simp only [List.mem_cons, ih]
      constructor
      · rintro (h1 | h1 | h1)
        · exact Or.inr (Or.inl h1)
        · exact Or.inl h1
        · exact Or.inr (Or.inr h1)
      · rintro (h1 | h1 | h1)
        · exact Or.inr (Or.inl h1)
        · exact Or.inl h1
        · exact Or.inr (Or.inr h1)

theorem sorted_insertTopo (o : Nat) (h : Hash) (t : List (Nat × Hash)) (hs : Sorted t)
    (hne : ∀ e ∈ t, e.1 ≠ o) : Sorted (insertTopo o h t) := by
  induction t with
  | nil => simp [insertTopo, Sorted]
  | cons x xs ih =>
    have hx := List.pairwise_cons.mp hs
    simp only [insertTopo]
    split
    · next hlt =>
      refine List.pairwise_cons.mpr ⟨?_, hs⟩
      intro e he
      rcases List.mem_cons.mp he with he | he
      · subst he; exact hlt
      · have := hx.1 e he; simp only at this ⊢; omega
    · next hge =>
      have hxo : x.1 ≠ o := hne x (by simp)
      refine List.pairwise_cons.mpr ⟨?_, ih hx.2 (fun e he => hne e (by simp [he]))⟩
      intro e he
      rcases (mem_insertTopo o h xs e).mp he with he | he
      · subst he; simp only; omega
      · exact hx.1 e he

theorem hasOrder_false (o : Nat) (t : List (Nat × Hash)) : hasOrder o t = false ↔ ∀ e ∈ t, e.1 ≠ o := by
  simp [hasOrder]

theorem hasHash_false (h : Hash) (r : List (Hash × Nat)) : hasHash h r = false ↔ lookupRev h r = none := by
  induction r with
  | nil => simp [hasHash, lookupRev]
  | cons x xs ih =>
    simp only [hasHash, List.any_cons, lookupRev] at ih ⊢
    by_cases hx : x.1 = h
    · simp [hx]
    · simp [hx, ih]

theorem lookupTopo_of_mem (t : List (Nat × Hash)) (hs : Sorted t) (o : Nat) (h : Hash)
    (hm : (o, h) ∈ t) : lookupTopo o t = some h := by
  induction t with
  | nil => simp at hm
  | cons x xs ih =>
    have hx := List.pairwise_cons.mp hs
    simp only [lookupTopo]
    rcases List.mem_cons.mp hm with he | he
    · subst he; simp
    · have : x.1 < o := hx.1 (o, h) he
      have hne : x.1 ≠ o := by omega
      simp [hne, ih hx.2 he]

theorem lookupTopo_mem (t : List (Nat × Hash)) (o : Nat) (h : Hash) (hl : lookupTopo o t = some h) :
    (o, h) ∈ t := by
  induction t with
  | nil => simp [lookupTopo] at hl
  | cons x xs ih =>
    simp only [lookupTopo] at hl
    split at hl
    · next hx => cases hl; rw [← hx]; simp
    · exact List.mem_cons_of_mem _ (ih hl)

theorem lastOrder_max (t : List (Nat × Hash)) (hs : Sorted t) : ∀ e ∈ t, e.1 ≤ lastOrder t := by
  induction t with
  | nil => simp
  | cons x xs ih =>
    have hx := List.pairwise_cons.mp hs
    intro e he
    cases xs with
    | nil => simp at he; subst he; simp [lastOrder]
    | cons y ys =>
      have hl : lastOrder (x :: y :: ys) = lastOrder (y :: ys) := by simp [lastOrder]
      rw [hl]
      rcases List.mem_cons.mp he with he | he
      · subst he
        have h1 : e.1 < y.1 := hx.1 y (by simp)
        have h2 := ih hx.2 y (by simp)
        omega
      · exact ih hx.2 e he

theorem lastOrder_mem (t : List (Nat × Hash)) (hne : t ≠ []) : ∃ e ∈ t, e.1 = lastOrder t := by
  induction t with
  | nil => exact absurd rfl hne
  | cons x xs ih =>
    cases xs with
    | nil => exact ⟨x, by simp, by simp [lastOrder]⟩
    | cons y ys =>
      rcases ih (by simp) with ⟨e, he, heq⟩
      exact ⟨e, List.mem_cons_of_mem _ he, by simp [lastOrder, heq]⟩

theorem inv_empty : Inv empty :=
  ⟨by simp [empty, Sorted], by simp [empty], by simp [empty, lookupRev], by simp [empty]⟩

/-- the index part of the invariant survives a successful `WriteSnapshot` -/
theorem inv_writeSnapshot (s s' : S) (o : Nat) (h : Hash) (hI : Inv s)
    (hw : writeSnapshot s o h = some s')
    (hseq : ∀ n, s.seq = some n → o ≤ n) : Inv s' ∧ s'.seq = s.seq ∧
      (∀ e, e ∈ s'.topo ↔ e = (o, h) ∨ e ∈ s.topo) := by
  unfold writeSnapshot at hw
  by_cases h1 : hasHash h s.rev = true
  · simp [h1] at hw
  · by_cases h2 : hasOrder o s.topo = true
    · simp [h1, h2] at hw
    · simp only [h1, h2, if_false, Bool.false_eq_true] at hw
      cases hw
      have h1' : lookupRev h s.rev = none := (hasHash_false h s.rev).mp (by simpa using h1)
      have h2' : ∀ e ∈ s.topo, e.1 ≠ o := (hasOrder_false o s.topo).mp (by simpa using h2)
      refine ⟨⟨sorted_insertTopo o h s.topo hI.sorted h2', ?_, ?_, ?_⟩, rfl, mem_insertTopo o h s.topo⟩
      · intro o' h' hm
        rcases (mem_insertTopo o h s.topo (o', h')).mp hm with he | he
        · cases he; simp [lookupRev]
        · have := hI.fwd o' h' he
          have hne : h ≠ h' := by intro hc; subst hc; rw [h1'] at this; cases this
          simp [lookupRev, hne, this]
      · intro h' o' hl
        simp only [lookupRev] at hl
        split at hl
        · next heq => cases hl; subst heq; exact (mem_insertTopo o h s.topo _).mpr (Or.inl rfl)
        · exact (mem_insertTopo o h s.topo _).mpr (Or.inr (hI.bwd h' o' hl))
      · intro n hn e he
        rcases (mem_insertTopo o h s.topo e).mp he with he | he
        · subst he; exact hseq n hn
        · exact hI.seqOk n hn e he

/-- every operation of a valid history preserves the invariant -/
theorem inv_step (s : S) (op : Op) (hI : Inv s) (hok : okOp s op) : Inv (step s op).1 := by
  cases op with
  | raw o h =>
    simp only [step]
    cases hw : writeSnapshot s o h with
    | none => exact hI
    | some s' =>
      have hnone : s.seq = none := hok
      exact (inv_writeSnapshot s s' o h hI hw (by intro n hn; rw [hnone] at hn; cases hn)).1
  | boot =>
    simp only [step]
    split
    · exact hI
    · exact ⟨hI.sorted, hI.fwd, hI.bwd, by
        intro n hn e he
        simp at hn
        subst hn
        exact lastOrder_max s.topo hI.sorted e he⟩
  | write h =>
    simp only [step]
    cases hs : s.seq with
    | none => exact hI
    | some n =>
      simp only
      have hI1 : Inv { s with seq := some (n + 1) } :=
        ⟨hI.sorted, hI.fwd, hI.bwd, by
          intro m hm e he
          simp only [Option.some.injEq] at hm
          have := hI.seqOk n hs e he
          omega⟩
      cases hw : writeSnapshot { s with seq := some (n + 1) } (n + 1) h with
      | none => exact hI1
      | some s' =>
        exact (inv_writeSnapshot _ s' (n + 1) h hI1 hw (by
          intro m hm; simp only [Option.some.injEq] at hm; omega)).1
  | stop =>
    exact ⟨hI.sorted, hI.fwd, hI.bwd, by intro n hn; simp [step] at hn⟩
  | since off count => simp only [step]; split <;> exact hI
  | lookup h =>
    simp only [step]
    split
    · exact hI
    · split <;> exact hI
  | last => simp only [step]; split <;> exact hI
  | nsince off count =>
    simp only [step]
    split
    · exact hI
    · split <;> exact hI
  | tick => simp only [step]; split <;> exact hI

theorem inv_final (ops : List Op) : ∀ s, Inv s → valid s ops → Inv (final s ops) := by
  induction ops with
  | nil => intro s hI _; exact hI
  | cons op ops ih =>
    intro s hI hv
    exact ih _ (inv_step s op hI hv.1) hv.2

/-- stored entries are never removed or changed -/
theorem topo_mono (s : S) (op : Op) (e : Nat × Hash) (he : e ∈ s.topo) : e ∈ (step s op).1.topo := by
  cases op with
  | raw o h =>
    simp only [step]
    cases hw : writeSnapshot s o h with
    | none => exact he
    | some s' =>
      unfold writeSnapshot at hw
      split at hw
      · cases hw
      · split at hw
        · cases hw
        · cases hw; exact (mem_insertTopo o h s.topo e).mpr (Or.inr he)
  | boot => simp only [step]; split <;> exact he
  | write h =>
    simp only [step]
    cases hs : s.seq with
    | none => exact he
    | some n =>
      simp only
      cases hw : writeSnapshot { s with seq := some (n + 1) } (n + 1) h with
      | none => exact he
      | some s' =>
        unfold writeSnapshot at hw
        split at hw
        · cases hw
        · split at hw
          · cases hw
          · cases hw; exact (mem_insertTopo (n + 1) h s.topo e).mpr (Or.inr he)
  | stop => exact he
  | since off count => simp only [step]; split <;> exact he
  | lookup h =>
    simp only [step]
    split
    · exact he
    · split <;> exact he
  | last => simp only [step]; split <;> exact he
  | nsince off count =>
    simp only [step]
    split
    · exact he
    · split <;> exact he
  | tick => simp only [step]; split <;> exact he

/-! ## the property theorems -/

/-- a `TopoWrite` that returns order `o`: `o` exceeds every stored order (in particular every
    order assigned before, in this or an earlier run of the node) and the snapshot is stored
    under exactly that order -/
theorem write_order_fresh (s : S) (h : Hash) (o : Nat) (hI : Inv s)
    (hw : (step s (.write h)).2 = .order o) :
    (∀ e ∈ s.topo, e.1 < o) ∧ (o, h) ∈ (step s (.write h)).1.topo ∧
    (step s (.write h)).1.seq = some o := by
  simp only [step] at hw ⊢
  cases hs : s.seq with
  | none => simp [hs] at hw
  | some n =>
    simp only [hs] at hw ⊢
    cases hws : writeSnapshot { s with seq := some (n + 1) } (n + 1) h with
    | none => simp [hws] at hw
    | some s' =>
      simp only [hws] at hw ⊢
      cases hw
      have hI1 : Inv { s with seq := some (n + 1) } :=
        ⟨hI.sorted, hI.fwd, hI.bwd, by
          intro m hm e he
          simp only [Option.some.injEq] at hm
          have := hI.seqOk n hs e he
          omega⟩
      have := inv_writeSnapshot _ s' (n + 1) h hI1 hws (by
        intro m hm; simp only [Option.some.injEq] at hm; omega)
      refine ⟨?_, (this.2.2 _).mpr (Or.inl rfl), this.2.1⟩
      intro e he
      have := hI.seqOk n hs e he
      omega

/-- the orders handed out by the successful `TopoWrite`s of a history, in history order -/
def writeOrders : S → List Op → List Nat
  | _, [] => []
  | s, op :: ops =>
    match op, (step s op).2 with
    | .write _, .order o => o :: writeOrders (step s op).1 ops
    | _, _ => writeOrders (step s op).1 ops

theorem writeOrders_above (ops : List Op) : ∀ s, Inv s → valid s ops →
    (∀ o ∈ writeOrders s ops, ∀ e ∈ s.topo, e.1 < o) ∧ (writeOrders s ops).Pairwise (· < ·) := by
  induction ops with
  | nil => intro s _ _; simp [writeOrders]
  | cons op ops ih =>
    intro s hI hv
    have hI' := inv_step s op hI hv.1
    have ih' := ih _ hI' hv.2
    have habove : ∀ o ∈ writeOrders (step s op).1 ops, ∀ e ∈ s.topo, e.1 < o :=
      fun o ho e he => ih'.1 o ho e (topo_mono s op e he)
    cases op with
    | write h =>
      cases hout : (step s (.write h)).2 with
      | order o =>
        have hwo : writeOrders s (.write h :: ops) = o :: writeOrders (step s (.write h)).1 ops := by
          simp [writeOrders, hout]
        rw [hwo]
        have hf := write_order_fresh s h o hI hout
        refine ⟨?_, List.pairwise_cons.mpr ⟨?_, ih'.2⟩⟩
        · intro o' ho' e he
          rcases List.mem_cons.mp ho' with ho' | ho'
          · subst ho'; exact hf.1 e he
          · exact habove o' ho' e he
        · intro o' ho'
          exact ih'.1 o' ho' (o, h) hf.2.1
      | ok =>
        have hwo : writeOrders s (.write h :: ops) = writeOrders (step s (.write h)).1 ops := by
          simp [writeOrders, hout]
        rw [hwo]; exact ⟨habove, ih'.2⟩
      | panic =>
        have hwo : writeOrders s (.write h :: ops) = writeOrders (step s (.write h)).1 ops := by
          simp [writeOrders, hout]
        rw [hwo]; exact ⟨habove, ih'.2⟩
      | nonode =>
        have hwo : writeOrders s (.write h :: ops) = writeOrders (step s (.write h)).1 ops := by
          simp [writeOrders, hout]
        rw [hwo]; exact ⟨habove, ih'.2⟩
      | err =>
        have hwo : writeOrders s (.write h :: ops) = writeOrders (step s (.write h)).1 ops := by
          simp [writeOrders, hout]
        rw [hwo]; exact ⟨habove, ih'.2⟩
      | list l =>
        have hwo : writeOrders s (.write h :: ops) = writeOrders (step s (.write h)).1 ops := by
          simp [writeOrders, hout]
        rw [hwo]; exact ⟨habove, ih'.2⟩
      | found r =>
        have hwo : writeOrders s (.write h :: ops) = writeOrders (step s (.write h)).1 ops := by
          simp [writeOrders, hout]
        rw [hwo]; exact ⟨habove, ih'.2⟩
    | raw o h =>
      have hwo : writeOrders s (.raw o h :: ops) = writeOrders (step s (.raw o h)).1 ops := by
        simp [writeOrders]
      rw [hwo]; exact ⟨habove, ih'.2⟩
    | boot =>
      have hwo : writeOrders s (.boot :: ops) = writeOrders (step s (.boot)).1 ops := by
        simp [writeOrders]
      rw [hwo]; exact ⟨habove, ih'.2⟩
    | stop =>
      have hwo : writeOrders s (.stop :: ops) = writeOrders (step s (.stop)).1 ops := by
        simp [writeOrders]
      rw [hwo]; exact ⟨habove, ih'.2⟩
    | since a b =>
      have hwo : writeOrders s (.since a b :: ops) = writeOrders (step s (.since a b)).1 ops := by
        simp [writeOrders]
      rw [hwo]; exact ⟨habove, ih'.2⟩
    | lookup h =>
      have hwo : writeOrders s (.lookup h :: ops) = writeOrders (step s (.lookup h)).1 ops := by
        simp [writeOrders]
      rw [hwo]; exact ⟨habove, ih'.2⟩
    | last =>
      have hwo : writeOrders s (.last :: ops) = writeOrders (step s (.last)).1 ops := by
        simp [writeOrders]
      rw [hwo]; exact ⟨habove, ih'.2⟩
    | nsince a b =>
      have hwo : writeOrders s (.nsince a b :: ops) = writeOrders (step s (.nsince a b)).1 ops := by
        simp [writeOrders]
      rw [hwo]; exact ⟨habove, ih'.2⟩
    | tick =>
      have hwo : writeOrders s (.tick :: ops) = writeOrders (step s (.tick)).1 ops := by
        simp [writeOrders]
      rw [hwo]; exact ⟨habove, ih'.2⟩

/-- **orders_unique_increasing**: after every valid history from the empty store, each stored
    snapshot has exactly one position and each position one snapshot (the index is strictly
    sorted by order), and the positions assigned by the node over the whole history — across
    stops, restarts and panicking writes — increase strictly. -/
theorem orders_unique_increasing (ops : List Op) (hv : valid empty ops) :
    Sorted (final empty ops).topo ∧
    (∀ o o' h, (o, h) ∈ (final empty ops).topo → (o', h) ∈ (final empty ops).topo → o = o') ∧
    (∀ o h h', (o, h) ∈ (final empty ops).topo → (o, h') ∈ (final empty ops).topo → h = h') ∧
    (writeOrders empty ops).Pairwise (· < ·) := by
  have hI := inv_final ops empty inv_empty hv
  refine ⟨hI.sorted, ?_, ?_, (writeOrders_above ops empty inv_empty hv).2⟩
  · intro o o' h h1 h2
    have a := hI.fwd o h h1
    have b := hI.fwd o' h h2
    rw [a] at b; cases b; rfl
  · intro o h h' h1 h2
    have a := lookupTopo_of_mem _ hI.sorted o h h1
    have b := lookupTopo_of_mem _ hI.sorted o h' h2
    rw [a] at b; cases b; rfl

example : valid empty [.raw 0 1, .raw 1 2, .boot, .write 3, .write 3, .stop, .boot, .write 4] := by
  simp [valid, okOp, step, writeSnapshot, empty, hasHash, hasOrder, insertTopo]

example : writeOrders empty [.raw 0 1, .raw 1 2, .boot, .write 3, .write 3, .stop, .boot, .write 4]
    = [2, 3] := by decide

theorem dropWhile_eq_filter (t : List (Nat × Hash)) (hs : Sorted t) (off : Nat) :
    t.dropWhile (fun e => e.1 < off) = t.filter (fun e => off ≤ e.1) := by
  induction t with
  | nil => rfl
  | cons x xs ih =>
    have hx := List.pairwise_cons.mp hs
    by_cases hlt : x.1 < off
    · have : ¬ off ≤ x.1 := by omega
      simp [List.dropWhile, List.filter, hlt, this, ih hx.2]
    · have hge : off ≤ x.1 := by omega
      have hall : xs.filter (fun e => off ≤ e.1) = xs := by
        rw [List.filter_eq_self]
        intro e he
        have := hx.1 e he
        simp; omega
      simp [List.dropWhile, List.filter, hlt, hge, hall]

theorem sorted_filter (t : List (Nat × Hash)) (hs : Sorted t) (p : Nat × Hash → Bool) :
    Sorted (t.filter p) := List.Pairwise.sublist List.filter_sublist hs

theorem sorted_take (t : List (Nat × Hash)) (hs : Sorted t) (n : Nat) :
    Sorted (t.take n) := List.Pairwise.sublist (List.take_sublist n t) hs

/-- **list_sorted_from_cursor**: a listing from cursor `off` with `count ≤ 500` is the first
    `min count (…)` stored entries with order `≥ off`, in strictly increasing order, each with
    its own order and the payload hash stored under it (which the reverse index maps back). -/
theorem list_sorted_from_cursor (s : S) (hI : Inv s) (off count : Nat) (hc : count ≤ maxCount) :
    ∃ l, (step s (.since off count)).2 = .list l ∧
      l = (s.topo.filter (fun e => off ≤ e.1)).take count ∧
      Sorted l ∧
      l.length = min count (s.topo.filter (fun e => off ≤ e.1)).length ∧
      ∀ e ∈ l, off ≤ e.1 ∧ e ∈ s.topo ∧ lookupRev e.2 s.rev = some e.1 := by
  have hnot : ¬ count > maxCount := by omega
  refine ⟨readSince s.topo off count, by simp [step, hnot], ?_, ?_, ?_, ?_⟩
  · simp [readSince, dropWhile_eq_filter s.topo hI.sorted off]
  · rw [readSince, dropWhile_eq_filter s.topo hI.sorted off]
    exact sorted_take _ (sorted_filter _ hI.sorted _) _
  · rw [readSince, dropWhile_eq_filter s.topo hI.sorted off]
    simp [List.length_take]
  · intro e he
    rw [readSince, dropWhile_eq_filter s.topo hI.sorted off] at he
    have hm := List.mem_of_mem_take he
    simp only [List.mem_filter, decide_eq_true_eq] at hm
    exact ⟨hm.2, hm.1, hI.fwd e.1 e.2 hm.1⟩

example : (step ⟨[(0, 7), (1, 8), (3, 9), (4, 5)], [(5, 4), (9, 3), (8, 1), (7, 0)], none⟩ (.since 1 2)).2
    = .list [(1, 8), (3, 9)] := by decide

/-- **count_limit**: more than 500 entries are never asked for successfully, and a listing never
    has more entries than asked for -/
theorem count_limit (s : S) (off count : Nat) :
    (count > maxCount → (step s (.since off count)).2 = .err) ∧
    (count ≤ maxCount → ∃ l, (step s (.since off count)).2 = .list l ∧ l.length ≤ count) := by
  constructor
  · intro h; simp [step, h]
  · intro h
    have : ¬ count > maxCount := by omega
    refine ⟨readSince s.topo off count, ?_, ?_⟩
    · simp [step, this]
    · simp [readSince, List.length_take]; omega

example : (step empty (.since 0 501)).2 = .err := by decide

/-- **lookup_agrees**: looking a snapshot up by hash returns exactly the position under which it
    is stored and listed, with that snapshot; an unknown hash is reported absent; the reverse
    index never dangles. -/
theorem lookup_agrees (s : S) (hI : Inv s) (h : Hash) :
    (∀ o, (o, h) ∈ s.topo → (step s (.lookup h)).2 = .found (some (o, h))) ∧
    ((∀ o, (o, h) ∉ s.topo) → (step s (.lookup h)).2 = .found none) ∧
    (step s (.lookup h)).2 ≠ .err := by
  refine ⟨?_, ?_, ?_⟩
  · intro o hm
    simp [step, hI.fwd o h hm, lookupTopo_of_mem _ hI.sorted o h hm]
  · intro hno
    cases hl : lookupRev h s.rev with
    | none => simp [step, hl]
    | some o => exact absurd (hI.bwd h o hl) (hno o)
  · cases hl : lookupRev h s.rev with
    | none => simp [step, hl]
    | some o =>
      have := lookupTopo_of_mem _ hI.sorted o h (hI.bwd h o hl)
      simp [step, hl, this]

/-- **restart_continues**: starting the node on a non-empty store sets the counter to the largest
    stored order; the next write of a new snapshot gets that order plus one, which no stored
    snapshot has — no order is reused after a restart. -/
theorem restart_continues (s : S) (hI : Inv s) (hne : s.topo ≠ []) (h : Hash)
    (hnew : hasHash h s.rev = false) :
    (step s .boot).1.seq = some (lastOrder s.topo) ∧
    (∃ e ∈ s.topo, e.1 = lastOrder s.topo) ∧
    (∀ e ∈ s.topo, e.1 ≤ lastOrder s.topo) ∧
    (step (step s .boot).1 (.write h)).2 = .order (lastOrder s.topo + 1) := by
  have hemp : s.topo.isEmpty = false := by
    cases ht : s.topo with
    | nil => exact absurd ht hne
    | cons x xs => rfl
  have hmax := lastOrder_max s.topo hI.sorted
  refine ⟨by simp [step, hemp], lastOrder_mem s.topo hne, hmax, ?_⟩
  have hord : hasOrder (lastOrder s.topo + 1) s.topo = false := by
    rw [hasOrder_false]
    intro e he
    have := hmax e he
    omega
  simp [step, hemp, writeSnapshot, hnew, hord]

example : (step (step (step ⟨[(0, 7), (5, 8)], [(8, 5), (7, 0)], some 9⟩ .stop).1 .boot).1 (.write 3)).2
    = .order 6 := by decide

/-- **tick_preserves_counter**: a statistics tick changes neither the counter nor the store; it
    reports the counter, which (by the invariant) bounds every stored order -/
theorem tick_preserves_counter (s : S) :
    (step s .tick).1 = s ∧ ∀ n, s.seq = some n → (step s .tick).2 = .order n := by
  cases hs : s.seq with
  | none => simp [step, hs]
  | some n => simp [step, hs]

/-- **node_listing_is_storage_listing**: the node-level cursor listing (p2p sync) of a running node
    is exactly the storage listing — inclusive cursor, also at the tip — so
    `list_sorted_from_cursor` applies to it -/
theorem node_listing_is_storage_listing (s : S) (n off count : Nat) (hs : s.seq = some n) :
    (step s (.nsince off count)).2 = (step s (.since off count)).2 ∧ (step s (.nsince off count)).1 = s := by
  by_cases hc : count > maxCount <;> simp [step, hs, hc]

/-- listing from the tip returns the tip (the cursor is inclusive) -/
example : (step ⟨[(0, 7), (1, 8)], [(8, 1), (7, 0)], some 1⟩ (.nsince 1 10)).2 = .list [(1, 8)] := by decide

/-- writes, a tick, and another write: orders keep increasing -/
example : writeOrders empty [.raw 0 1, .boot, .write 2, .tick, .write 3] = [1, 2] := by decide

end Mixin.C35
