import Mixin.Model.Topology
/-! # C35 — local topology order is a strictly increasing unique cursor -/
namespace Mixin.C35
open Mixin.Topology

/-- a listing never has more than `count` entries and `count > 500` is refused -/
theorem count_limit (s : S) (off count : Nat) :
    (count > maxCount → (step s (.since off count)).2 = .err) ∧
    (count ≤ maxCount → ∃ l, (step s (.since off count)).2 = .list l ∧ l.length ≤ count) := by
  constructor
  · intro h; simp [step, h]
  · intro h
    have : ¬ count > maxCount := by omega
    refine ⟨readSince s.topo off count, ?_, ?_⟩
    · simp [step, this]
    · simp [readSince, List.length_take]; omega

end Mixin.C35
