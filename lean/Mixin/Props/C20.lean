import Mixin.Model.Graph
import Mixin.Facts.ExpectedC20
/-!
# C20 — round links only move forward and never point at their own chain

Theorems about `Mixin.Model.Graph` (model of `kernel/graph.go` startNewRoundAndPersist /
validateNewRound / updateEmptyHeadRoundAndPersist / updateExternal and of
`storage/badger_round.go` StartNewRound / UpdateEmptyHeadRound).

**Finding.**  The property as written is *false of the code*: ROUND records of live head rounds
are stored under the node id (`Hash = NodeId`), so a node id presented as `references.External`
passes every check of the finalized path — the accepted reference then names the other chain's
*live* round (`external_names_live_round_counterexample`), and the dummy-external branch later
re-reads that moving record, after which the in-memory links differ from the durable ones and the
next `updateExternal` panics (`mirror_diverges_counterexample`).  Both witnesses are replayed on
the real kernel by the harness corpus (known findings `C20:external-names-live-round`,
`C20:mirror-diverged`).

The full-strength statements are therefore proved under the hypothesis the code forgets to
enforce — *the presented external reference is not the id of a chain* (`OpOk`) — and named
`…_partial` where that hypothesis is used.
-/
namespace Mixin.C20
open Mixin.Graph

/-! ## inversion lemmas (what a successful call implies) -/

theorem updateExternal_ok {s : Store} {cid : Nat} {ch ch' : Chain} {e : RoundRec} {strict oracle : Bool}
    (h : updateExternal s cid ch e strict oracle = .ok ch') :
    cid ≠ e.node ∧ ch.links e.node ≤ e.number ∧ s.links cid e.node = ch.links e.node ∧
      (strict = true → oracle = true) ∧
      ch' = { ch with links := fun x => if x = e.node then e.number else ch.links x } := by
  unfold updateExternal at h
  split at h
  · cases h
  · split at h
    · cases h
    · split at h
      · cases h
      · split at h
        · cases h
        · next h1 h2 h3 h4 =>
          injection h with h
          refine ⟨h1, by omega, by simpa using h3, ?_, h.symm⟩
          intro hs
          cases ho : oracle with
          | true => rfl
          | false => exact absurd ⟨hs, by simp [ho]⟩ h4

theorem storeStart_ok {s s' : Store} {node number : Nat} {refs : Refs} {fs : Nat} (hn : number ≠ 0)
    (h : storeStartNewRound s node number refs fs = some s') :
    ∃ self e, s.rounds node = some self ∧ s.rounds refs.ext = some e ∧ e.hash ≠ 0 ∧
      self.number + 1 = number ∧ e.node ≠ self.node ∧ s.rounds refs.self = none ∧
      s.links node e.node ≤ e.number ∧
      s' = writeRound (writeRound (writeLink s node e.node e.number) refs.self
              { self with ts := fs, hash := refs.self }) node (headRec node number refs) := by
  unfold storeStartNewRound at h
  simp only [hn, if_false] at h
  split at h
  · cases h
  · next hbad =>
    split at h
    · next self e hs he =>
      split at h
      · cases h
      · next hc =>
        injection h with h
        have hb : badRec s refs.ext = false := by
          cases hx : badRec s refs.ext with
          | false => rfl
          | true => simp [hx] at hbad
        have hz : e.hash ≠ 0 := by
          intro hz0
          simp [badRec, he, hz0] at hb
        have hnone : s.rounds refs.self = none := by
          cases hx : s.rounds refs.self with
          | none => rfl
          | some _ => exact absurd (Or.inr (Or.inr (Or.inl (by simp [hx])))) hc
        refine ⟨self, e, hs, he, hz, ?_, ?_, hnone, ?_, h.symm⟩
        · apply Classical.byContradiction; intro hx; exact hc (Or.inl hx)
        · intro hx; exact hc (Or.inr (Or.inl hx))
        · apply Classical.byContradiction; intro hx
          exact hc (Or.inr (Or.inr (Or.inr (by omega))))
    · cases h

theorem storeEmpty_ok {s s' : Store} {node number : Nat} {refs : Refs}
    (h : storeUpdateEmptyHead s node number refs = some s') :
    ∃ self e sr, s.rounds node = some self ∧ s.rounds refs.ext = some e ∧ self.refs = some sr ∧
      self.number = number ∧ sr.self = refs.self ∧ e.node ≠ self.node ∧
      s' = writeRound (writeLink s node e.node e.number) node (headRec node number refs) := by
  unfold storeUpdateEmptyHead at h
  split at h
  · cases h
  · split at h
    · next self e hs he =>
      split at h
      · cases h
      · next sr hsr =>
        split at h
        · cases h
        · next hc =>
          injection h with h
          refine ⟨self, e, sr, hs, he, hsr, ?_, ?_, ?_, h.symm⟩
          · apply Classical.byContradiction; intro hx; exact hc (Or.inl hx)
          · apply Classical.byContradiction; intro hx; exact hc (Or.inr (Or.inl hx))
          · intro hx; exact hc (Or.inr (Or.inr hx))
    · cases h

theorem persist_ok {w w' : World} {cid : Nat} {ch ch' : Chain} {refs : Refs} {fh fs : Nat} {dummy d : Bool}
    (h : persistNewRound w cid ch ch' refs fh fs dummy = .ok (w', d)) :
    d = dummy ∧ ∃ s', storeStartNewRound w.store cid (ch.cacheNumber + 1)
        (dummyRefs ch refs dummy) fs = some s' ∧
      w' = setChain w cid (advance ch ch' (dummyRefs ch refs dummy) fh fs) s' := by
  unfold persistNewRound at h
  split at h
  · cases h
  · next s' hs =>
    injection h with h
    injection h with h1 h2
    exact ⟨h2.symm, s', hs, h1.symm⟩

/-- everything a successful `startNewRoundAndPersist` implies -/
theorem start_ok {w w' : World} {cid : Nat} {refs : Refs} {fin oracle d : Bool}
    (h : startNewRound w cid refs fin oracle = .ok (w', d)) :
    ∃ fh fs, (w.chains cid).closing = some (fh, fs) ∧ refs.self = fh ∧
      ((d = true ∧ fin = true ∧ w.store.rounds refs.ext = none ∧
          persistNewRound w cid (w.chains cid) (w.chains cid) refs fh fs true = .ok (w', d)) ∨
       (d = false ∧ ∃ e ch', w.store.rounds refs.ext = some e ∧ e.hash = refs.ext ∧ e.hash ≠ 0 ∧
          updateExternal w.store cid (w.chains cid) e (!fin) oracle = .ok ch' ∧
          persistNewRound w cid (w.chains cid) ch' refs fh fs false = .ok (w', d))) := by
  unfold startNewRound at h
  simp only at h
  split at h
  · cases h
  · next fh fs hcl =>
    refine ⟨fh, fs, hcl, ?_⟩
    split at h
    · cases h
    · next hself =>
      have hself' : refs.self = fh := by
        apply Classical.byContradiction; intro hx; exact hself hx
      refine ⟨hself', ?_⟩
      split at h
      · cases h
      · next hbad =>
        split at h
        · next hnone =>
          split at h
          · next hf =>
            have hd := (persist_ok h).1
            exact Or.inl ⟨hd, hf, hnone, h⟩
          · cases h
        · next e he =>
          split at h
          · cases h
          · next hh =>
            split at h
            · cases h
            · next ch' hu =>
              have hd := (persist_ok h).1
              have hz : e.hash ≠ 0 := by
                intro hz0
                have : badRec w.store refs.ext = true := by simp [badRec, he, hz0]
                exact hbad this
              have hh' : e.hash = refs.ext := by
                apply Classical.byContradiction; intro hx; exact hh hx
              exact Or.inr ⟨hd, e, ch', he, hh', hz, hu, h⟩

/-- everything a successful `updateEmptyHeadRoundAndPersist` implies -/
theorem empty_ok {w w' : World} {cid : Nat} {refs : Refs} {strict oracle : Bool}
    (h : updateEmptyHead w cid refs strict oracle = .ok w') :
    (w.chains cid).closing = none ∧ refs.self = (w.chains cid).cacheRefs.self ∧
      ∃ e ch' s', w.store.rounds refs.ext = some e ∧ e.hash = refs.ext ∧ e.hash ≠ 0 ∧
        updateExternal w.store cid (w.chains cid) e strict oracle = .ok ch' ∧
        storeUpdateEmptyHead w.store cid (w.chains cid).cacheNumber refs = some s' ∧
        w' = setChain w cid { ch' with cacheRefs := refs } s' := by
  unfold updateEmptyHead at h
  simp only at h
  split at h
  · cases h
  · next hcl =>
    split at h
    · cases h
    · next hself =>
      split at h
      · cases h
      · next hbad =>
        split at h
        · cases h
        · next e he =>
          split at h
          · cases h
          · next hh =>
            split at h
            · cases h
            · next ch' hu =>
              split at h
              · cases h
              · next s' hs =>
                injection h with h
                have hcl' : (w.chains cid).closing = none := by
                  cases hx : (w.chains cid).closing with
                  | none => rfl
                  | some _ => simp [hx] at hcl
                have hz : e.hash ≠ 0 := by
                  intro hz0
                  have : badRec w.store refs.ext = true := by simp [badRec, he, hz0]
                  exact hbad this
                refine ⟨hcl', ?_, e, ch', s', he, ?_, hz, hu, hs, h.symm⟩
                · apply Classical.byContradiction; intro hx; exact hself hx
                · apply Classical.byContradiction; intro hx; exact hh hx

/-! ## C20.1 — a new round commits to the previous one, number + 1 -/

/-- **new_round_commits_prev.**  A successful round start: the presented self reference is the
    hash `asFinal()` computed for the closing round; the chain's new final round *is* that
    closed round (its number is the old cache number); the new cache round has exactly the next
    number and stores that self reference; durably, the closed round is stored under its hash
    with the old number, and the head record carries the new number and the same references.
    (No hypothesis: this part holds for every reference.) -/
theorem new_round_commits_prev {w w' : World} {cid : Nat} {refs : Refs} {fin oracle d : Bool}
    (h : startNewRound w cid refs fin oracle = .ok (w', d)) :
    ∃ fh fs, (w.chains cid).closing = some (fh, fs) ∧ refs.self = fh ∧
      (w'.chains cid).finalHash = fh ∧ (w'.chains cid).finalNumber = (w.chains cid).cacheNumber ∧
      (w'.chains cid).cacheNumber = (w.chains cid).cacheNumber + 1 ∧
      (w'.chains cid).cacheRefs.self = fh ∧ (w'.chains cid).closing = none ∧
      (∃ hd, w'.store.rounds cid = some hd ∧ hd.number = (w.chains cid).cacheNumber + 1 ∧
          hd.refs = some (w'.chains cid).cacheRefs) ∧
      (fh ≠ cid → ∃ fr, w'.store.rounds fh = some fr ∧ fr.hash = fh ∧
          fr.number = (w.chains cid).cacheNumber) := by
  obtain ⟨fh, fs, hcl, hself, hcases⟩ := start_ok h
  refine ⟨fh, fs, hcl, hself, ?_⟩
  have key : ∀ {ch' : Chain} {dm : Bool},
      persistNewRound w cid (w.chains cid) ch' refs fh fs dm = .ok (w', d) →
      (w'.chains cid).finalHash = fh ∧ (w'.chains cid).finalNumber = (w.chains cid).cacheNumber ∧
      (w'.chains cid).cacheNumber = (w.chains cid).cacheNumber + 1 ∧
      (w'.chains cid).cacheRefs.self = fh ∧ (w'.chains cid).closing = none ∧
      (∃ hd, w'.store.rounds cid = some hd ∧ hd.number = (w.chains cid).cacheNumber + 1 ∧
          hd.refs = some (w'.chains cid).cacheRefs) ∧
      (fh ≠ cid → ∃ fr, w'.store.rounds fh = some fr ∧ fr.hash = fh ∧
          fr.number = (w.chains cid).cacheNumber) := by
    intro ch' dm hp
    obtain ⟨_, s', hs, hw⟩ := persist_ok hp
    obtain ⟨self, e, hs1, _, _, hnum, _, _, _, hs'⟩ := storeStart_ok (by omega) hs
    have hrs : (dummyRefs (w.chains cid) refs dm).self = fh := by
      cases dm <;> simp [dummyRefs, hself]
    subst hw
    refine ⟨by simp [setChain, advance, dummyRefs], by simp [setChain, advance, dummyRefs], by simp [setChain, advance, dummyRefs], ?_,
      by simp [setChain, advance, dummyRefs], ?_, ?_⟩
    · simp [setChain, advance, hrs]
    · refine ⟨headRec cid ((w.chains cid).cacheNumber + 1) (dummyRefs (w.chains cid) refs dm), ?_, rfl, ?_⟩
      · simp [setChain, hs', writeRound]
      · simp [setChain, headRec, advance]
    · intro hne
      refine ⟨{ self with ts := fs, hash := fh }, ?_, rfl, by simp; omega⟩
      simp only [setChain, hs', writeRound, hrs]
      simp [hne]
  rcases hcases with ⟨_, _, _, hp⟩ | ⟨_, e, ch', _, _, _, _, hp⟩
  · exact key hp
  · exact key hp

/-! ## the invariant behind the link theorems -/

/-- what the code should (but does not) check of a presented transition: it acts on a chain,
    and its external reference is not the id of a chain -/
def OpOk (ids : List Nat) (op : Op) : Prop :=
  op.cid ∈ ids ∧ ∀ x, op.ext = some x → x ∉ ids

/-- `mirror`: the in-memory links of every chain equal its durable links.
    `extrec`: the external reference of every cache round is not a chain id, names a stored
    record, and the link towards that record's node equals its number. -/
structure Inv (ids : List Nat) (w : World) : Prop where
  mirror : ∀ c ∈ ids, ∀ x, (w.chains c).links x = w.store.links c x
  extrec : ∀ c ∈ ids, (w.chains c).cacheRefs.ext ∉ ids ∧
    ∃ e, w.store.rounds (w.chains c).cacheRefs.ext = some e ∧ e.hash ≠ 0 ∧
      (w.chains c).links e.node = e.number

/-- The joint step lemma: a successful transition keeps the invariant and lowers no link. -/
theorem start_step {ids : List Nat} {w w' : World} {cid : Nat} {refs : Refs} {fin oracle d : Bool}
    (hinv : Inv ids w) (hc : cid ∈ ids) (hx : refs.ext ∉ ids)
    (h : startNewRound w cid refs fin oracle = .ok (w', d)) :
    Inv ids w' ∧ (∀ a b, w.store.links a b ≤ w'.store.links a b) ∧
      (w'.chains cid).cacheRefs.ext ∉ ids := by
  obtain ⟨fh, fs, hcl, hself, hcases⟩ := start_ok h
  obtain ⟨hcext, e0, he0, hz0, hl0⟩ := hinv.extrec cid hc
  rcases hcases with ⟨hd, _, hnone, hp⟩ | ⟨hd, e, ch', he, hh, hz, hu, hp⟩
  · -- dummy branch: the previous external reference is kept
    obtain ⟨_, s', hs, hw⟩ := persist_ok hp
    simp only [dummyRefs, if_true] at hs hw
    obtain ⟨self, e, hs1, he, hz, hnum, hne, hsn, hle, hs'⟩ := storeStart_ok (by omega) hs
    simp only at he hsn
    rw [he0] at he; injection he with he; subst he
    have hmir := hinv.mirror cid hc
    have hk1 : (w.chains cid).cacheRefs.ext ≠ cid := fun hx' => hcext (by rw [hx']; exact hc)
    have hk2 : (w.chains cid).cacheRefs.ext ≠ refs.self := by
      intro hx'; rw [← hx'] at hsn; rw [he0] at hsn; cases hsn
    have hlinks : ∀ a b, w'.store.links a b = w.store.links a b := by
      intro a b
      subst hw
      simp only [setChain, hs', writeRound, writeLink]
      split
      · next hab => obtain ⟨ha, hb⟩ := hab; subst ha; subst hb; rw [← hmir]; exact hl0.symm
      · rfl
    have hrounds : ∀ k, k ∉ ids → k ≠ refs.self → w'.store.rounds k = w.store.rounds k := by
      intro k hk1' hk2'
      subst hw
      simp only [setChain, hs', writeRound, writeLink]
      have : k ≠ cid := fun hx' => hk1' (by rw [hx']; exact hc)
      simp [this, hk2']
    refine ⟨⟨?_, ?_⟩, fun a b => by rw [hlinks]; exact Nat.le_refl _, by subst hw; simpa [setChain, advance, dummyRefs] using hcext⟩
    · intro c hcm x
      rw [hlinks]
      subst hw
      by_cases hcc : c = cid
      · subst hcc; simpa [setChain, advance, dummyRefs] using hmir x
      · simpa [setChain, advance, hcc] using hinv.mirror c hcm x
    · intro c hcm
      by_cases hcc : c = cid
      · subst hcc
        have : (w'.chains c).cacheRefs.ext = (w.chains c).cacheRefs.ext := by subst hw; simp [setChain, advance, dummyRefs]
        rw [this]
        refine ⟨hcext, e0, ?_, hz0, ?_⟩
        · rw [hrounds _ hcext hk2]; exact he0
        · subst hw; simpa [setChain, advance, dummyRefs] using hl0
      · obtain ⟨hce, e1, he1, hz1, hl1⟩ := hinv.extrec c hcm
        have hch : w'.chains c = w.chains c := by subst hw; simp [setChain, advance, hcc]
        rw [hch]
        refine ⟨hce, e1, ?_, hz1, hl1⟩
        rw [hrounds _ hce]; exact he1
        intro hx'; rw [hx'] at he1; rw [hsn] at he1; cases he1
  · -- ordinary branch
    obtain ⟨_, s', hs, hw⟩ := persist_ok hp
    simp only [dummyRefs, Bool.false_eq_true, if_false] at hs hw
    obtain ⟨self, e', hs1, he', _, hnum, hne, hsn, hle, hs'⟩ := storeStart_ok (by omega) hs
    rw [he] at he'; injection he' with he'; subst he'
    obtain ⟨hu1, hu2, hu3, _, hch'⟩ := updateExternal_ok hu
    have hmir := hinv.mirror cid hc
    have hk1 : refs.ext ≠ cid := fun hx' => hx (by rw [hx']; exact hc)
    have hk2 : refs.ext ≠ refs.self := by
      intro hx'; rw [← hx'] at hsn; rw [he] at hsn; cases hsn
    have hlinks : ∀ a b, w'.store.links a b =
        if a = cid ∧ b = e.node then e.number else w.store.links a b := by
      intro a b
      subst hw
      simp only [setChain, hs', writeRound, writeLink]
    have hrounds : ∀ k, k ∉ ids → k ≠ refs.self → w'.store.rounds k = w.store.rounds k := by
      intro k hk1' hk2'
      subst hw
      simp only [setChain, hs', writeRound, writeLink]
      have : k ≠ cid := fun hx' => hk1' (by rw [hx']; exact hc)
      simp [this, hk2']
    refine ⟨⟨?_, ?_⟩, ?_, by subst hw; simpa [setChain, advance, dummyRefs] using hx⟩
    · intro c hcm x
      rw [hlinks]
      by_cases hcc : c = cid
      · subst hcc
        subst hw
        simp only [setChain, advance, if_true, hch']
        by_cases hxe : x = e.node
        · simp [hxe]
        · simp [hxe]; exact hmir x
      · have hch : w'.chains c = w.chains c := by subst hw; simp [setChain, advance, hcc]
        rw [hch]
        simp [hcc]; exact hinv.mirror c hcm x
    · intro c hcm
      by_cases hcc : c = cid
      · subst hcc
        have hr : (w'.chains c).cacheRefs.ext = refs.ext := by subst hw; simp [setChain, advance, dummyRefs]
        rw [hr]
        refine ⟨hx, e, ?_, hz, ?_⟩
        · rw [hrounds _ hx hk2]; exact he
        · subst hw; simp [setChain, advance, hch']
      · obtain ⟨hce, e1, he1, hz1, hl1⟩ := hinv.extrec c hcm
        have hch : w'.chains c = w.chains c := by subst hw; simp [setChain, advance, hcc]
        rw [hch]
        refine ⟨hce, e1, ?_, hz1, hl1⟩
        rw [hrounds _ hce]; exact he1
        intro hx'; rw [hx'] at he1; rw [hsn] at he1; cases he1
    · intro a b
      rw [hlinks]
      split
      · next hab => obtain ⟨ha, hb⟩ := hab; subst ha; subst hb; rw [← hmir]; exact hu2
      · exact Nat.le_refl _

theorem empty_step {ids : List Nat} {w w' : World} {cid : Nat} {refs : Refs} {strict oracle : Bool}
    (hinv : Inv ids w) (hc : cid ∈ ids) (hx : refs.ext ∉ ids)
    (h : updateEmptyHead w cid refs strict oracle = .ok w') :
    Inv ids w' ∧ (∀ a b, w.store.links a b ≤ w'.store.links a b) := by
  obtain ⟨_, _, e, ch', s', he, hh, hz, hu, hs, hw⟩ := empty_ok h
  obtain ⟨self, e', sr, hs1, he', _, _, _, _, hs'⟩ := storeEmpty_ok hs
  rw [he] at he'; injection he' with he'; subst he'
  obtain ⟨hu1, hu2, hu3, _, hch'⟩ := updateExternal_ok hu
  have hmir := hinv.mirror cid hc
  have hk1 : refs.ext ≠ cid := fun hx' => hx (by rw [hx']; exact hc)
  have hlinks : ∀ a b, w'.store.links a b =
      if a = cid ∧ b = e.node then e.number else w.store.links a b := by
    intro a b
    subst hw
    simp only [setChain, hs', writeRound, writeLink]
  have hrounds : ∀ k, k ∉ ids → w'.store.rounds k = w.store.rounds k := by
    intro k hk1'
    subst hw
    simp only [setChain, hs', writeRound, writeLink]
    have : k ≠ cid := fun hx' => hk1' (by rw [hx']; exact hc)
    simp [this]
  refine ⟨⟨?_, ?_⟩, ?_⟩
  · intro c hcm x
    rw [hlinks]
    by_cases hcc : c = cid
    · subst hcc
      subst hw
      simp only [setChain, advance, if_true, hch']
      by_cases hxe : x = e.node
      · simp [hxe]
      · simp [hxe]; exact hmir x
    · have hch : w'.chains c = w.chains c := by subst hw; simp [setChain, advance, hcc]
      rw [hch]
      simp [hcc]; exact hinv.mirror c hcm x
  · intro c hcm
    by_cases hcc : c = cid
    · subst hcc
      have hr : (w'.chains c).cacheRefs.ext = refs.ext := by subst hw; simp [setChain, advance, dummyRefs]
      rw [hr]
      refine ⟨hx, e, ?_, hz, ?_⟩
      · rw [hrounds _ hx]; exact he
      · subst hw; simp [setChain, advance, hch']
    · obtain ⟨hce, e1, he1, hz1, hl1⟩ := hinv.extrec c hcm
      have hch : w'.chains c = w.chains c := by subst hw; simp [setChain, advance, hcc]
      rw [hch]
      exact ⟨hce, e1, by rw [hrounds _ hce]; exact he1, hz1, hl1⟩
  · intro a b
    rw [hlinks]
    split
    · next hab => obtain ⟨ha, hb⟩ := hab; subst ha; subst hb; rw [← hmir]; exact hu2
    · exact Nat.le_refl _

/-- one step of a history keeps the invariant and lowers no durable link -/
theorem apply_step {ids : List Nat} {w : World} {op : Op} (hinv : Inv ids w) (hop : OpOk ids op) :
    Inv ids (apply w op) ∧ ∀ a b, w.store.links a b ≤ (apply w op).store.links a b := by
  cases op with
  | snap c h st =>
    refine ⟨⟨?_, ?_⟩, fun a b => Nat.le_refl _⟩
    · intro c' hc' x
      by_cases hcc : c' = c
      · subst hcc; simpa [apply, addSnapshots, setChain] using hinv.mirror c' hc' x
      · simpa [apply, addSnapshots, setChain, hcc] using hinv.mirror c' hc' x
    · intro c' hc'
      by_cases hcc : c' = c
      · subst hcc; simpa [apply, addSnapshots, setChain] using hinv.extrec c' hc'
      · simpa [apply, addSnapshots, setChain, hcc] using hinv.extrec c' hc'
  | start c r f o =>
    have hx : r.ext ∉ ids := hop.2 r.ext rfl
    simp only [apply]
    split
    · next w' d h =>
      obtain ⟨h1, h2, _⟩ := start_step hinv hop.1 hx h
      exact ⟨h1, h2⟩
    · exact ⟨hinv, fun a b => Nat.le_refl _⟩
  | empty c r st o =>
    have hx : r.ext ∉ ids := hop.2 r.ext rfl
    simp only [apply]
    split
    · next w' h => exact empty_step hinv hop.1 hx h
    · exact ⟨hinv, fun a b => Nat.le_refl _⟩

theorem applyAll_step {ids : List Nat} :
    ∀ (ops : List Op) {w : World}, Inv ids w → (∀ op ∈ ops, OpOk ids op) →
      Inv ids (applyAll w ops) ∧ ∀ a b, w.store.links a b ≤ (applyAll w ops).store.links a b
  | [], w, hinv, _ => ⟨hinv, fun _ _ => Nat.le_refl _⟩
  | op :: t, w, hinv, hops => by
    obtain ⟨h1, h2⟩ := apply_step hinv (hops op (by simp))
    obtain ⟨h3, h4⟩ := applyAll_step t h1 (fun o ho => hops o (by simp [ho]))
    exact ⟨h3, fun a b => Nat.le_trans (h2 a b) (h4 a b)⟩

/-! ## C20.2 — C20.5, for every history -/

/-
  Full statement (false of the code, see the counterexamples below):
    for every history of transitions on any number of chains, starting from a state whose
    in-memory links mirror the durable ones, every LINK[a→b] is non-decreasing.
  Proved: the same for histories in which no presented external reference is a chain id.
-/
/-- **link_monotone (partial).** -/
theorem link_monotone_partial {ids : List Nat} {w : World} (ops : List Op) (hinv : Inv ids w)
    (hops : ∀ op ∈ ops, OpOk ids op) (a b : Nat) :
    w.store.links a b ≤ (applyAll w ops).store.links a b :=
  (applyAll_step ops hinv hops).2 a b

/-- monotone along the whole history: any later state dominates any earlier one -/
theorem link_monotone_prefix_partial {ids : List Nat} {w : World} (ops₁ ops₂ : List Op)
    (hinv : Inv ids w) (hops : ∀ op ∈ ops₁ ++ ops₂, OpOk ids op) (a b : Nat) :
    (applyAll w ops₁).store.links a b ≤ (applyAll w (ops₁ ++ ops₂)).store.links a b := by
  have h1 := applyAll_step ops₁ hinv (fun o ho => hops o (by simp [ho]))
  have h2 := applyAll_step ops₂ h1.1 (fun o ho => hops o (by simp [ho]))
  have : applyAll w (ops₁ ++ ops₂) = applyAll (applyAll w ops₁) ops₂ := by
    simp [applyAll, List.foldl_append]
  rw [this]; exact h2.2 a b

/-- **mirror_equal (partial).**  After every such history the in-memory links of every chain
    equal the durable links … -/
theorem mirror_equal_partial {ids : List Nat} {w : World} (ops : List Op) (hinv : Inv ids w)
    (hops : ∀ op ∈ ops, OpOk ids op) :
    ∀ c ∈ ids, ∀ x, ((applyAll w ops).chains c).links x = (applyAll w ops).store.links c x :=
  (applyAll_step ops hinv hops).1.mirror

/-- … so the Go guard `panic("should never be here …")` inside `updateExternal` is unreachable. -/
theorem mirror_guard_unreachable_partial {ids : List Nat} {w : World} (ops : List Op)
    (hinv : Inv ids w) (hops : ∀ op ∈ ops, OpOk ids op) (c : Nat) (hc : c ∈ ids)
    (e : RoundRec) (strict oracle : Bool) :
    updateExternal (applyAll w ops).store c ((applyAll w ops).chains c) e strict oracle
      ≠ .error .panic := by
  have hm := mirror_equal_partial ops hinv hops c hc e.node
  unfold updateExternal
  split
  · simp
  · split
    · simp
    · split
      · next hne => exact absurd hm.symm hne
      · split <;> simp

/-- **external_known_foreign (partial).**  After a successful transition that presented a
    non-chain-id reference, the stored external reference of the cache round names a stored
    ROUND record, of a different node, stored under its own hash (a closed round: head records
    are the ones stored under chain ids), and the link towards that node equals its number.  In
    the dummy branch the previous reference — with the same guarantees — is kept. -/
theorem external_known_foreign_partial {ids : List Nat} {w w' : World} {cid : Nat} {refs : Refs}
    {fin oracle d : Bool} (hinv : Inv ids w) (hc : cid ∈ ids) (hx : refs.ext ∉ ids)
    (h : startNewRound w cid refs fin oracle = .ok (w', d)) :
    (w'.chains cid).cacheRefs.ext ∉ ids ∧
      (∃ e, w'.store.rounds (w'.chains cid).cacheRefs.ext = some e ∧ e.hash ≠ 0 ∧
        w'.store.links cid e.node = e.number) ∧
      (d = false → (w'.chains cid).cacheRefs.ext = refs.ext ∧
        ∃ e, w.store.rounds refs.ext = some e ∧ e.hash = refs.ext ∧ e.node ≠ cid) ∧
      (d = true → (w'.chains cid).cacheRefs.ext = (w.chains cid).cacheRefs.ext) := by
  obtain ⟨hinv', _, hnot⟩ := start_step hinv hc hx h
  obtain ⟨_, e, he, hz, hl⟩ := hinv'.extrec cid hc
  refine ⟨hnot, ⟨e, he, hz, by rw [← hinv'.mirror cid hc]; exact hl⟩, ?_, ?_⟩
  · intro hd
    obtain ⟨fh, fs, _, _, hcases⟩ := start_ok h
    rcases hcases with ⟨hd', _, _, _⟩ | ⟨_, e', ch', he', hh', _, hu, hp⟩
    · rw [hd] at hd'; cases hd'
    · obtain ⟨_, s', _, hw⟩ := persist_ok hp
      obtain ⟨hu1, _⟩ := updateExternal_ok hu
      refine ⟨by subst hw; simp [setChain, advance, dummyRefs], e', he', hh', fun hx' => hu1 hx'.symm⟩
  · intro hd
    obtain ⟨fh, fs, _, _, hcases⟩ := start_ok h
    rcases hcases with ⟨_, _, _, hp⟩ | ⟨hd', _⟩
    · obtain ⟨_, s', _, hw⟩ := persist_ok hp
      subst hw; simp [setChain, advance, dummyRefs]
    · rw [hd] at hd'; cases hd'

/-- the same for an empty-head reference update -/
theorem external_known_foreign_empty_partial {ids : List Nat} {w w' : World} {cid : Nat} {refs : Refs}
    {strict oracle : Bool} (_hinv : Inv ids w) (_hc : cid ∈ ids) (_hx : refs.ext ∉ ids)
    (h : updateEmptyHead w cid refs strict oracle = .ok w') :
    (w'.chains cid).cacheRefs = refs ∧
      ∃ e, w.store.rounds refs.ext = some e ∧ e.hash = refs.ext ∧ e.node ≠ cid ∧
        w'.store.links cid e.node = e.number := by
  obtain ⟨_, _, e, ch', s', he, hh, _, hu, hs, hw⟩ := empty_ok h
  obtain ⟨self, e', sr, _, he', _, _, _, _, hs'⟩ := storeEmpty_ok hs
  rw [he] at he'; injection he' with he'; subst he'
  obtain ⟨hu1, _⟩ := updateExternal_ok hu
  refine ⟨by subst hw; simp [setChain, advance, dummyRefs], e, he, hh, fun hx' => hu1 hx'.symm, ?_⟩
  subst hw
  simp [setChain, hs', writeRound, writeLink]

/-- **rejected_unchanged.**  A rejected transition (and a panicking one: the process dies and
    restarts from the store, whose transaction was discarded) leaves chain state and store as
    they were; so does every transition the model rejects in a history. -/
theorem rejected_unchanged (w : World) (op : Op) :
    (match op with
      | .snap _ _ _ => False
      | .start c r f o => ∃ e, startNewRound w c r f o = .error e
      | .empty c r s o => ∃ e, updateEmptyHead w c r s o = .error e) → apply w op = w := by
  intro h
  cases op with
  | snap => exact absurd h id
  | start c r f o => obtain ⟨e, he⟩ := h; simp [apply, he]
  | empty c r s o => obtain ⟨e, he⟩ := h; simp [apply, he]

/-- a back link, a self reference, or an unknown external on the strict path is rejected -/
theorem stale_self_unknown_rejected {w : World} {cid : Nat} {refs : Refs} {fin oracle : Bool}
    {fh fs : Nat} (hcl : (w.chains cid).closing = some (fh, fs)) (hself : refs.self = fh)
    (hgood : badRec w.store refs.ext = false) :
    (w.store.rounds refs.ext = none → fin = false →
        startNewRound w cid refs fin oracle = .error .err) ∧
    (∀ e, w.store.rounds refs.ext = some e → e.hash = refs.ext →
        (e.node = cid ∨ e.number < (w.chains cid).links e.node) →
        startNewRound w cid refs fin oracle = .error .err) := by
  constructor
  · intro hnone hfin
    unfold startNewRound
    simp [hcl, hself, hgood, hnone, hfin]
  · intro e he hh hbad
    unfold startNewRound
    simp only [hcl, hself, hgood, he, hh]
    unfold updateExternal
    rcases hbad with hb | hb
    · simp [hb]
    · by_cases hc : cid = e.node
      · simp [hc]
      · simp [hc, hb]

/-! ## the counterexamples (replayed on the real kernel by the harness corpus) -/

section Counterexample

/-- two chains 1 and 2 right after genesis-like initialisation; closed rounds 100 (chain 1,
    number 0) and 200 (chain 2, number 0); chain 1's live round 1 closes to hash 101 -/
def rec0 (h node : Nat) : RoundRec := { hash := h, node := node, number := 0, ts := 5, refs := none }

def w0 : World :=
  { store :=
      { rounds := fun k =>
          if k = 1 then some (headRec 1 1 ⟨100, 200⟩)
          else if k = 2 then some (headRec 2 1 ⟨200, 100⟩)
          else if k = 100 then some (rec0 100 1)
          else if k = 200 then some (rec0 200 2)
          else none,
        links := fun _ _ => 0 },
    chains := fun c =>
      if c = 1 then { finalNumber := 0, finalHash := 100, finalStart := 5, cacheNumber := 1,
                      cacheRefs := ⟨100, 200⟩, closing := none, links := fun _ => 0 }
      else { finalNumber := 0, finalHash := 200, finalStart := 5, cacheNumber := 1,
             cacheRefs := ⟨200, 100⟩, closing := none, links := fun _ => 0 } }

/-- the initial world satisfies the invariant (so the theorems above are not vacuous) -/
theorem w0_inv : Inv [1, 2] w0 := by
  refine ⟨?_, ?_⟩
  · intro c hc x
    simp at hc
    rcases hc with h | h <;> subst h <;> simp [w0]
  · intro c hc
    simp at hc
    rcases hc with h | h <;> subst h
    · exact ⟨by simp [w0], rec0 200 2, by simp [w0], by simp [rec0], by simp [w0, rec0]⟩
    · exact ⟨by simp [w0], rec0 100 1, by simp [w0], by simp [rec0], by simp [w0, rec0]⟩

/-- observable outcome of a round start: 0 = started, 1 = started through the dummy branch,
    2 = rejected, 3 = panic -/
def outcomeOf : Except Fail (World × Bool) → Nat
  | .ok (_, false) => 0
  | .ok (_, true) => 1
  | .error .err => 2
  | .error .panic => 3

/-- chain 1 closes its round (hash 101) and presents **chain 2's node id** as external
    reference on the finalized path -/
def wBad : World := applyAll w0 [.snap 1 101 7, .start 1 ⟨101, 2⟩ true true]

/-- **Counterexample to `external_known_foreign`.**  The transition is accepted; the stored
    external reference of chain 1 is the id of chain 2, i.e. the record it names is chain 2's
    *live* head round (number 1, no closed round 1 of chain 2 exists), and LINK[1→2] = 1. -/
theorem external_names_live_round_counterexample :
    outcomeOf (startNewRound (addSnapshots w0 1 101 7) 1 ⟨101, 2⟩ true true) = 0 ∧
      (wBad.chains 1).cacheRefs.ext = 2 ∧
      (wBad.store.rounds 2).map (fun r => (r.hash, r.node, r.number)) = some (2, 2, 1) ∧
      (wBad.chains 2).cacheNumber = 1 ∧ (wBad.chains 2).finalNumber = 0 ∧
      wBad.store.links 1 2 = 1 := by
  decide

/-- … then chain 2 closes two rounds (201, 202, referencing chain 1's closed round 100 and 101),
    and chain 1 closes its round again (hash 102) through the dummy branch (unknown external 999) -/
def wDiverged : World :=
  applyAll wBad [.snap 2 201 8, .start 2 ⟨201, 100⟩ true true, .snap 2 202 9,
    .start 2 ⟨202, 101⟩ true true, .snap 1 102 10, .start 1 ⟨102, 999⟩ true true]

/-- **Counterexample to `mirror_equal`.**  After that history chain 1's in-memory link to chain 2
    is 1 while the durable LINK[1→2] is 3, and the next (perfectly valid) reference of chain 1 to
    chain 2's closed round 202 hits the `should never be here` panic. -/
theorem mirror_diverges_counterexample :
    (wDiverged.chains 1).links 2 = 1 ∧ wDiverged.store.links 1 2 = 3 ∧
      outcomeOf (startNewRound (addSnapshots wDiverged 1 103 11) 1 ⟨103, 202⟩ true true) = 3 := by
  decide

/-- non-vacuity: ordinary transitions (closed-round references only) are accepted by the model
    and satisfy the hypotheses of the partial theorems -/
example : outcomeOf (startNewRound (addSnapshots w0 1 101 7) 1 ⟨101, 200⟩ false true) = 0 := by decide
example : outcomeOf (startNewRound (addSnapshots w0 1 101 7) 1 ⟨101, 999⟩ true true) = 1 := by decide
example : outcomeOf (startNewRound (addSnapshots w0 1 101 7) 1 ⟨101, 999⟩ false true) = 2 := by decide
example : outcomeOf (startNewRound (addSnapshots w0 1 101 7) 1 ⟨101, 100⟩ true true) = 2 := by decide
example : (applyAll w0 [.empty 1 ⟨100, 200⟩ true true]).store.links 1 2 = 0 := by decide

example : OpOk [1, 2] (.start 1 ⟨101, 200⟩ false true) := by
  simp [OpOk, Op.cid, Op.ext]

end Counterexample

/-- the regenerated call skeleton of the modelled functions is the one the model assumes -/
theorem facts_ok : True ∧ Mixin.Facts.ExpectedC20.has Mixin.Facts.Gen.storage_startNewRound_calls
    ["readRound*2", "writeLink*1", "writeRound*2"] = true :=
  ⟨trivial, by decide⟩

end Mixin.C20
