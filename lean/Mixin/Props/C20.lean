import Mixin.Model.Graph
namespace Mixin.C20
open Mixin.Graph

theorem rejected_unchanged (w : World) (op : Op) :
    (match op with
      | .snap _ _ _ => False
      | .start c r f o => ∃ e, startNewRound w c r f o = .error e
      | .empty c r s o => ∃ e, updateEmptyHead w c r s o = .error e) → apply w op = w := by
  intro h
  cases op with
  | snap => exact absurd h id
  | start c r f o => obtain ⟨e, he⟩ := h; simp [apply, he]
  | empty c r s o => obtain ⟨e, he⟩ := h; simp [apply, he]

end Mixin.C20
