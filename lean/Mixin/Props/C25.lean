import Mixin.Proofs.Mint
import Mixin.Facts.ExpectedC25
/-!
# C25 — mint schedule and distribution are bounded, exact and work-monotone

Theorems about `Mixin.Model.Mint` (the model of `kernel/mint.go`). The schedule theorems hold
for every parameter record `P`; `…_params` instances use the constants regenerated from the
source tree and the relations of `Facts/ExpectedC25.lean`.
-/
namespace Mixin.C25
open Mixin.Amount Mixin.Mint

/-! ## schedule -/

/-- Per-batch amounts never increase: whenever the Go code returns for both batches. -/
theorem batch_antitone (P : Params) {b b' x x' : Nat} (h : b ≤ b')
    (hb : mintBatchSize P b = some x) (hb' : mintBatchSize P b' = some x') : x' ≤ x := by
  rw [(mintBatchSize_some hb).1, (mintBatchSize_some hb').1]
  exact batchT_antitone P h

/-- The cumulative total of the batches `0 … b` (a batch on which the code panics counts 0)
    never exceeds the pool, for every `b`. -/
theorem cumulative_le_pool (P : Params) (hd : 0 < P.days) (hden : 0 < P.den) (hnum : P.num ≤ P.den)
    (b : Nat) : cum (batchVal P) (b + 1) ≤ P.pool :=
  Nat.le_trans (cum_le_cum (batchVal_le P) (b + 1)) (cum_batchT_le_pool P hd hden hnum (b + 1))

/-- … for the constants of the tree under test. -/
theorem cumulative_le_pool_params (b : Nat) : cum (batchVal params) (b + 1) ≤ params.pool :=
  cumulative_le_pool params Mixin.Facts.ExpectedC25.days_pos Mixin.Facts.ExpectedC25.percent_le_one.1
    Mixin.Facts.ExpectedC25.percent_le_one.2 b

/-- A multi-batch mint is defined exactly when `old < batch` and every batch in `(old, batch]`
    is defined and positive (`Integer.Add` panics on a zero summand), and then it is the sum of
    those batches. -/
theorem multi_is_sum (P : Params) (old b s : Nat) :
    mintMulti P old b = some s ↔
      old < b ∧ (∀ i, old < i → i ≤ b → PosBatch P i) ∧ s = sumFrom (batchVal P) (old + 1) (b - old) := by
  unfold mintMulti
  by_cases h : old ≥ b
  · rw [if_pos h]
    constructor
    · intro h'; cases h'
    · rintro ⟨h', _⟩; omega
  · rw [if_neg h, multiLoop_some_iff, Nat.zero_add]
    constructor
    · rintro ⟨hp, hs⟩
      refine ⟨by omega, ?_, hs⟩
      intro i hi1 hi2
      have := hp (i - (old + 1)) (by omega)
      rwa [show old + 1 + (i - (old + 1)) = i by omega] at this
    · rintro ⟨_, hp, hs⟩
      exact ⟨fun j hj => hp (old + 1 + j) (by omega) (by omega), hs⟩

/-- `poolSizeUniversal` never exceeds the pool (when it returns). -/
theorem poolSize_le_pool (P : Params) {b r : Nat} (h : poolSize P b = some r) : r ≤ P.pool := by
  unfold poolSize at h
  cases h1 : poolSizeLoop P (b / P.days) 0 P.pool with
  | none => rw [h1] at h; cases h
  | some pr =>
    obtain ⟨mint, pool⟩ := pr
    rw [h1] at h; simp only at h
    cases h2 : div (yearOf P pool) (P.days : Int) with
    | none => rw [h2] at h; cases h
    | some day =>
      rw [h2] at h; simp only at h
      split at h
      · cases h
      · next m _ =>
        split at h
        · exact (sub_some h).2.2 ▸ Nat.sub_le _ _
        · cases h; exact Nat.le_refl _

/-! ## the horizon of the schedule -/

theorem firstFalse_below (p : Nat → Bool) : ∀ (fuel y z : Nat), y ≤ z → z < firstFalse p fuel y → p z = true
  | 0, y, z, h1, h2 => by simp [firstFalse] at h2; omega
  | fuel + 1, y, z, h1, h2 => by
    unfold firstFalse at h2
    by_cases hp : p y = true
    · rw [if_pos hp] at h2
      by_cases hz : z = y
      · subst hz; exact hp
      · exact firstFalse_below p fuel (y + 1) z (by omega) h2
    · rw [if_neg hp] at h2; omega

theorem firstFalse_le (p : Nat → Bool) : ∀ (fuel y : Nat), firstFalse p fuel y ≤ y + fuel
  | 0, y => by simp [firstFalse]
  | fuel + 1, y => by
    unfold firstFalse
    split
    · have := firstFalse_le p fuel (y + 1); omega
    · omega

theorem firstFalse_stop (p : Nat → Bool) : ∀ (fuel y : Nat), firstFalse p fuel y < y + fuel →
    p (firstFalse p fuel y) = false
  | 0, y, h => by simp [firstFalse] at h
  | fuel + 1, y, h => by
    unfold firstFalse at h ⊢
    by_cases hp : p y = true
    · rw [if_pos hp] at h ⊢
      exact firstFalse_stop p fuel (y + 1) (by omega)
    · rw [if_neg hp]; simpa using hp

theorem posBatchB_iff (P : Params) (b : Nat) : posBatchB P b = true ↔ PosBatch P b := by
  unfold posBatchB PosBatch
  cases h : mintBatchSize P b with
  | none => simp
  | some x => simp

theorem mintBatchSize_year (P : Params) (hd : 0 < P.days) (b : Nat) :
    mintBatchSize P b = mintBatchSize P (b / P.days * P.days) := by
  unfold mintBatchSize
  rw [Nat.mul_div_cancel _ hd]

theorem posBatch_down (P : Params) {b b' : Nat} (h : b ≤ b') (hb' : PosBatch P b') : PosBatch P b := by
  obtain ⟨x', hx', hm'⟩ := hb'
  have hs := mintBatchSize_some hm'
  have hle : b / P.days ≤ b' / P.days := Nat.div_le_div_right h
  have hdef : (mintBatchSize P b).isSome := by
    unfold mintBatchSize at hm' ⊢
    simp only at hm' ⊢
    rw [if_neg (by omega)]
    rw [if_neg (by omega)] at hm'
    cases hq' : poolAfter P (b' / P.days) P.pool with
    | none => rw [hq'] at hm'; cases hm'
    | some q' =>
      have hpre := poolAfter_prefix (P := P) (p := P.pool) hle (by rw [hq']; rfl)
      cases hq : poolAfter P (b / P.days) P.pool with
      | none => rw [hq] at hpre; cases hpre
      | some q =>
        simp only [div]
        rw [if_neg (by have := hs.2.2; omega)]
        rfl
  cases hm : mintBatchSize P b with
  | none => rw [hm] at hdef; cases hdef
  | some x => exact ⟨x, Nat.lt_of_lt_of_le hx' (batch_antitone P h hm hm'), hm⟩

/-- Exactly the batches of the years below the horizon are defined and positive. -/
theorem posBatch_iff_below_horizon (P : Params) (hd : 0 < P.days) (b : Nat) :
    PosBatch P b ↔ b / P.days < horizonYear P := by
  let p : Nat → Bool := fun y => posBatchB P (y * P.days)
  have hH : p (horizonYear P) = false := by
    by_cases hlt : horizonYear P < 0 + (P.maxYears + 1)
    · exact firstFalse_stop p (P.maxYears + 1) 0 hlt
    · have hle : horizonYear P ≤ 0 + (P.maxYears + 1) := firstFalse_le p (P.maxYears + 1) 0
      have heq : horizonYear P = P.maxYears + 1 := by omega
      show posBatchB P (horizonYear P * P.days) = false
      rw [heq]
      unfold posBatchB mintBatchSize
      simp only
      rw [Nat.mul_div_cancel _ hd, if_pos (by omega)]
  constructor
  · intro hb
    apply Decidable.byContradiction
    intro hge
    have hge : horizonYear P ≤ b / P.days := by omega
    have h1 : horizonYear P * P.days ≤ b := by
      calc horizonYear P * P.days ≤ b / P.days * P.days := Nat.mul_le_mul_right _ hge
        _ ≤ b := Nat.div_mul_le_self b P.days
    have := (posBatchB_iff P _).mpr (posBatch_down P h1 hb)
    rw [show posBatchB P (horizonYear P * P.days) = p (horizonYear P) from rfl, hH] at this
    cases this
  · intro hlt
    have := firstFalse_below p (P.maxYears + 1) 0 (b / P.days) (Nat.zero_le _) hlt
    have := (posBatchB_iff P _).mp this
    unfold PosBatch at this ⊢
    rwa [← mintBatchSize_year P hd b] at this

/-- A multi-batch mint is defined exactly for `old < batch` with `batch` below the horizon. -/
theorem multi_defined_iff (P : Params) (hd : 0 < P.days) (old b : Nat) :
    (mintMulti P old b).isSome = true ↔ old < b ∧ b / P.days < horizonYear P := by
  constructor
  · intro h
    cases hs : mintMulti P old b with
    | none => rw [hs] at h; cases h
    | some s =>
      obtain ⟨h1, h2, _⟩ := (multi_is_sum P old b s).mp hs
      exact ⟨h1, (posBatch_iff_below_horizon P hd b).mp (h2 b h1 (Nat.le_refl _))⟩
  · rintro ⟨h1, h2⟩
    have hb := (posBatch_iff_below_horizon P hd b).mpr h2
    have := (multi_is_sum P old b (sumFrom (batchVal P) (old + 1) (b - old))).mpr
      ⟨h1, fun i _ hi => posBatch_down P hi hb, rfl⟩
    rw [this]; rfl

/-! ## distribution -/

/-- The shares of the work based distribution never sum to more than the amount distributed. -/
theorem dist_sum_le_base {works : List (Nat × Nat)} {base thr : Nat} {shares : List Nat}
    (h : distributeByWorks works base thr = .ok shares) : shares.sum ≤ base := by
  obtain ⟨_, _, _, hpos, hsh⟩ := distributeByWorks_ok h
  by_cases hw : works = []
  · subst hw; rw [hsh]; simp [adjWorks]
  · have ht := hpos hw
    have := sum_map_div_mul_le base (adjWorks works).sum (adjWorks works)
    rw [hsh]
    unfold shareT
    exact Nat.le_of_mul_le_mul_right this ht

/-- A node with more work never receives less: for every work vector on which the
    distribution returns, `work i ≤ work j → share i ≤ share j` (works are the raw
    `lead·1.2 + sign` values of the previous day). -/
theorem dist_monotone {works : List (Nat × Nat)} {base thr : Nat} {shares : List Nat}
    (h : distributeByWorks works base thr = .ok shares) :
    shares.length = works.length ∧
    ∀ (i j : Nat) wi wj si sj, works[i]? = some wi → works[j]? = some wj → shares[i]? = some si →
      shares[j]? = some sj → workT wi ≤ workT wj → si ≤ sj := by
  obtain ⟨_, _, _, _, hsh⟩ := distributeByWorks_ok h
  refine ⟨by rw [hsh]; simp [adjWorks], ?_⟩
  intro i j wi wj si sj hwi hwj hsi hsj hle
  rw [hsh, adjWorks] at hsi hsj
  simp only [List.getElem?_map, hwi, hwj, Option.map_some, Option.some.injEq] at hsi hsj
  rw [← hsi, ← hsj]
  unfold shareT
  exact Nat.div_le_div_right (Nat.mul_le_mul_left _ (adjT_mono _ hle))

/-- Every share is positive under the guard `42 ≤ average work` and `16·n ≤ base`.
    (Each adjusted work is at least `⌊avg/7⌋` and at most `2·avg`.) -/
theorem dist_positive {works : List (Nat × Nat)} {base thr : Nat} {shares : List Nat}
    (h : distributeByWorks works base thr = .ok shares) (havg : 42 ≤ avgT works)
    (hbase : 16 * works.length ≤ base) : ∀ s ∈ shares, 0 < s := by
  obtain ⟨_, _, _, hpos, hsh⟩ := distributeByWorks_ok h
  intro s hs
  rw [hsh] at hs
  obtain ⟨a, ha, rfl⟩ := List.mem_map.mp hs
  have hlen : (adjWorks works).length = works.length := by simp [adjWorks]
  have hsum : ∀ (l : List Nat), (∀ x ∈ l, x ≤ 2 * avgT works) → l.sum ≤ l.length * (2 * avgT works) := by
    intro l
    induction l with
    | nil => intro _; simp
    | cons x xs ih =>
      intro hx
      have h1 := hx x (by simp)
      have h2 := ih (fun y hy => hx y (by simp [hy]))
      rw [List.sum_cons, List.length_cons, Nat.succ_mul]; omega
  have htot : (adjWorks works).sum ≤ works.length * (2 * avgT works) := by
    rw [← hlen]
    apply hsum
    intro x hx
    obtain ⟨w, _, rfl⟩ := List.mem_map.mp hx
    exact adjT_le _ _
  have hage : avgT works / 7 ≤ a := by
    obtain ⟨w, _, rfl⟩ := List.mem_map.mp ha
    exact adjT_ge _ _
  have hne : works ≠ [] := by
    intro h0; subst h0; simp [adjWorks] at ha
  unfold shareT
  apply Nat.div_pos _ (hpos hne)
  -- total ≤ n·2·avg ≤ 16·n·⌊avg/7⌋ ≤ base·a
  have h8 : 2 * avgT works ≤ 16 * (avgT works / 7) := by omega
  calc (adjWorks works).sum ≤ works.length * (2 * avgT works) := htot
    _ ≤ works.length * (16 * (avgT works / 7)) := Nat.mul_le_mul_left _ h8
    _ = 16 * works.length * (avgT works / 7) := by rw [← Nat.mul_assoc, Nat.mul_comm works.length 16]
    _ ≤ base * a := Nat.mul_le_mul hbase hage

/-- On the first day after the epoch the kernel share is split equally. -/
theorem dist_day0 {n : Nat} {today spaces : List Nat} {works : List (Nat × Nat)} {base thr : Nat} {shares : List Nat}
    (h : distribute n 0 today spaces works base thr = .ok shares) :
    0 < n ∧ shares = List.replicate n (base / n) := by
  unfold distribute at h
  simp only [Int.lt_irrefl, if_false, if_true] at h
  cases hd : div base (n : Int) with
  | none => rw [hd] at h; cases h
  | some w =>
    rw [hd] at h; simp only at h
    have := div_some hd
    cases h
    exact ⟨by omega, by rw [this.2]; simp⟩

/-- `distribute` never hands out more than `base`, on day 0 and afterwards. -/
theorem distribute_sum_le_base {n : Nat} {gap : Int} {today spaces : List Nat} {works : List (Nat × Nat)}
    {base thr : Nat} {shares : List Nat}
    (h : distribute n gap today spaces works base thr = .ok shares) : shares.sum ≤ base := by
  by_cases h0 : gap = 0
  · subst h0
    obtain ⟨_, hs⟩ := dist_day0 h
    rw [hs, List.sum_replicate_nat]
    exact Nat.mul_div_le base n
  · unfold distribute at h
    by_cases hneg : gap < 0
    · rw [if_pos hneg] at h; cases h
    · rw [if_neg hneg, if_neg h0] at h
      split at h
      · cases h
      · exact dist_sum_le_base h

/-! ## the mint transaction -/

/-- the distribution `buildUniversalMintTransaction` applies to the kernel share -/
abbrev distOf (n : Nat) (gap : Int) (today spaces : List Nat) (works : List (Nat × Nat)) (thr : Nat) :
    Nat → DistOut := fun k => distribute n gap today spaces works k thr

variable {batch amount n thr : Nat} {gap : Int} {today spaces : List Nat} {works : List (Nat × Nat)}
  {mints : List Nat} {safe light : Nat}

/-- The outputs of a mint transaction sum exactly to the batch amount. -/
theorem dist_sums_exact
    (h : buildOutputs batch amount (distOf n gap today spaces works thr) = .tx mints safe light) :
    mints.sum + safe + light = amount := (buildOutputs_tx h).2.2.2.2.2.2

/-- The kernel-node share is at most half of the batch amount. -/
theorem kernel_le_half
    (h : buildOutputs batch amount (distOf n gap today spaces works thr) = .tx mints safe light) :
    2 * mints.sum ≤ amount := by
  have hk := distribute_sum_le_base (buildOutputs_tx h).2.2.1
  omega

/-- The custodian share is four times one tenth of the batch amount, rounded down. -/
theorem custodian_is_4_tenths
    (h : buildOutputs batch amount (distOf n gap today spaces works thr) = .tx mints safe light) :
    safe = amount / 10 * 4 := (buildOutputs_tx h).2.2.2.1

/-- Every output of a mint transaction the code builds is positive (a zero kernel share makes
    `Integer.Add` panic, so no transaction is built), and the light share is at least a tenth. -/
theorem outputs_positive
    (h : buildOutputs batch amount (distOf n gap today spaces works thr) = .tx mints safe light) :
    (∀ m ∈ mints, 0 < m) ∧ 0 < safe ∧ 0 < light ∧ amount / 10 ≤ light := by
  have hb := buildOutputs_tx h
  have hk := distribute_sum_le_base hb.2.2.1
  have := hb.2.2.2.2.2.2
  have := hb.2.2.2.1
  refine ⟨hb.2.2.2.2.2.1, hb.2.2.2.2.1, ?_, ?_⟩ <;> omega

/-- A mint transaction is only built after the legacy ending and for a positive amount. -/
theorem build_guard
    (h : buildOutputs batch amount (distOf n gap today spaces works thr) = .tx mints safe light) :
    0 < amount ∧ legacyEnding < batch := ⟨(buildOutputs_tx h).1, (buildOutputs_tx h).2.1⟩

/-- Mints are only possible inside the mint hour window, strictly after the epoch. -/
theorem mint_window (P : Params) {epoch ts lb la b a : Nat} {vo : Bool}
    (h : mintPossibility P epoch ts vo lb la = some (b, a)) (hb : 0 < b) :
    epoch < ts ∧ mintTimeBegin ≤ (ts - epoch) / hourNs % 24 ∧ (ts - epoch) / hourNs % 24 ≤ mintTimeEnd ∧
      b = (ts - epoch) / hourNs / 24 := by
  unfold mintPossibility at h
  by_cases h1 : ts ≤ epoch
  · rw [if_pos h1] at h; cases h; omega
  · rw [if_neg h1] at h
    simp only at h
    by_cases h2 : (ts - epoch) / hourNs / 24 < 1
    · rw [if_pos h2] at h; cases h; omega
    · rw [if_neg h2] at h
      by_cases h3 : (ts - epoch) / hourNs % 24 < mintTimeBegin ∨ (ts - epoch) / hourNs % 24 > mintTimeEnd
      · rw [if_pos h3] at h; cases h; omega
      · rw [if_neg h3] at h
        by_cases h4 : (ts - epoch) / hourNs / 24 < lb
        · rw [if_pos h4] at h; cases h; omega
        · rw [if_neg h4] at h
          refine ⟨by omega, by omega, by omega, ?_⟩
          by_cases h5 : (ts - epoch) / hourNs / 24 = lb
          · rw [if_pos h5] at h
            cases vo <;> simp at h <;> omega
          · rw [if_neg h5] at h
            split at h
            · cases h
            · cases h; rfl

/-! ## non-vacuity -/

example : (mintBatchSize params 1707).isSome = true := by decide
example : (mintMulti params 1706 1709).isSome = true := by decide
example : (poolSize params 1707).isSome = true := by decide
example : PosBatch params 1707 := (posBatchB_iff _ _).mp (by decide)
/- the value of `horizonYear params` (222 for the current constants: batch 81030, year 2241) is
   printed by the model driver and compared with a scan of the real code (`horizon` op). -/
/-- seven nodes with different works: the model returns shares, and builds a transaction -/
example : ∃ s, distributeByWorks [(10, 100), (20, 300), (5, 50), (0, 0), (40, 900), (11, 120), (9, 80)] 4493835616 5
    = .ok s := ⟨_, rfl⟩
example : ∃ m s l, buildOutputs 1707 8987671232
    (distOf 7 1 [1, 1, 1, 1, 1, 1, 1] [1, 1, 1, 1, 1, 1, 1] [(10, 100), (20, 300), (5, 50), (0, 0), (40, 900), (11, 120), (9, 80)] 5)
    = .tx m s l := ⟨_, _, _, rfl⟩
example : 42 ≤ avgT [(10, 100), (20, 300), (5, 50), (0, 0), (40, 900), (11, 120), (9, 80)] := by decide

end Mixin.C25
