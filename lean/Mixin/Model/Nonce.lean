import Mixin.Model.Cosi
/-
  Model of crypto/nonce.go (property C12) and of the per-chain nonce bookkeeping in
  kernel/cosi.go (`cosiRetrieveRandom`, `retainUsedCosiNonce`).

  `nonce.respond` computes the challenge from its (immutable) arguments, then takes the
  mutex and runs to the end under it: the guarded section is one atomic step `respond`.
  Copies of a `CosiNonce` handle share the `*nonce` pointer, hence one state.
-/
namespace Mixin.Nonce
open Mixin.Cosi

structure State where
  used : Bool
  challenge : Nat          -- [32]byte, canonical scalar bytes
  response : Nat           -- [32]byte
  random : Option Nat      -- *Key, wiped and set to nil after the first answer
  deriving Repr, DecidableEq

inductive Outcome where
  | err                    -- `Challenge`/`Response` failed (bad key vector); state untouched
  | reuse                  -- ErrCosiNonceReuse
  | ok (s : Nat)
  deriving Repr, DecidableEq

/-- `newCosiNonce(random)` -/
def fresh (z : Nat) : State := { used := false, challenge := 0, response := 0, random := some z }

/-- `nonce.respond`: `x` is the challenge of this call (`none`: `signature.Challenge` failed,
    which returns before the lock), `y` the caller's private scalar. -/
def respond (st : State) (x : Option Nat) (y : Nat) : State × Outcome :=
  match x with
  | none => (st, .err)
  | some c =>
    if st.used then
      if st.challenge ≠ c then (st, .reuse) else (st, .ok st.response)
    else
      match st.random with
      | none => (st, .err)      -- unreachable: `used = false` implies the random is present
      | some z =>
        match response (some c) y z with
        | none => (st, .err)
        | some s => ({ used := true, challenge := c, response := s, random := none }, .ok s)

/-- a sequence of calls (any interleaving of goroutines and handle copies, one atomic step each) -/
def run : State → List (Option Nat × Nat) → State × List Outcome
  | st, [] => (st, [])
  | st, (x, y) :: rest =>
    let (st1, o) := respond st x y
    let (st2, os) := run st1 rest
    (st2, o :: os)

/-! ## Chain bookkeeping (kernel/cosi.go)

  `CosiRandoms : commitment ↦ nonce`, `UsedRandoms : snapshot hash ↦ nonce`,
  `usedRandomsOrder` FIFO with bound `maxRetained`. Nonces are named by their commitment
  (the map key under which they were stored), snapshot hashes by numbers. -/

structure Book where
  randoms : List Nat               -- keys of CosiRandoms (commitments of unused nonces)
  used : List (Nat × Nat)          -- UsedRandoms: snapshot ↦ commitment of the retained nonce
  order : List Nat                 -- usedRandomsOrder
  deriving Repr, DecidableEq

def assocSet (k v : Nat) : List (Nat × Nat) → List (Nat × Nat)
  | [] => [(k, v)]
  | (k', v') :: t => if k' = k then (k, v) :: t else (k', v') :: assocSet k v t

def assocDel (k : Nat) (l : List (Nat × Nat)) : List (Nat × Nat) := l.filter (fun p => p.1 ≠ k)

/-- tail of `retainUsedCosiNonce`: drop the oldest retained snapshot when the FIFO is over its bound -/
def evict (maxRetained : Nat) (randoms : List Nat) (used : List (Nat × Nat)) (order : List Nat) : Book :=
  if order.length ≤ maxRetained then { randoms := randoms, used := used, order := order }
  else
    match order with
    | [] => { randoms := randoms, used := used, order := order }
    | oldest :: rest => { randoms := randoms, used := assocDel oldest used, order := rest }

/-- `retainUsedCosiNonce` -/
def retain (maxRetained : Nat) (b : Book) (snap nonce : Nat) : Book :=
  evict maxRetained b.randoms (assocSet snap nonce b.used)
    (if (b.used.lookup snap).isNone then b.order ++ [snap] else b.order)

/-- `cosiRetrieveRandom(snap, _, challenge)`: the nonce handed out (by commitment) -/
def retrieve (maxRetained : Nat) (b : Book) (snap commitment : Nat) : Book × Option Nat :=
  if b.used.lookup snap = some commitment then (b, some commitment)
  else if b.randoms.contains commitment then
    let b1 := retain maxRetained b snap commitment
    ({ b1 with randoms := b1.randoms.filter (· ≠ commitment) }, some commitment)
  else (b, none)

end Mixin.Nonce
