import Mixin.Prelude.BytesSnap
import Mixin.Facts.Generated
/-
  Model of the snapshot codec (property C07):
    common/encoding.go  encodeSnapshotPayload / EncodeSnapshotWithTopo / EncodeSnapshotPayload
    common/decoding.go  DecodeSnapshotWithTopo, ReadRoundReferences, ReadCosiSignature
    common/snapshot.go  UnmarshalVersionedSnapshot, VersionedMarshal, versionedPayload
    common/version.go   checkSnapVersion

  `none` from an encoder stands for "the Go code panics", `none` from a decoder for "error".
  Hashes, node ids and signatures are byte lists; the Go arrays have fixed sizes (32, 32, 64),
  which the decoder enforces by reading exactly that many octets and which the property
  theorems carry as a well-formedness hypothesis for encoder inputs.
-/
namespace Mixin.SnapCodec
open Mixin.BytesSnap

/-- `SnapshotVersionCommonEncoding` (regenerated from the source) -/
def verCommon : Nat := Mixin.Facts.Gen.common_SnapshotVersionCommonEncoding
/-- `SnapshotTransactionsMaximum` (regenerated from the source) -/
def txMax : Nat := Mixin.Facts.Gen.common_SnapshotTransactionsMaximum

def magic : Bytes := [0x77, 0x77]

structure RoundLink where
  self : Bytes
  ext : Bytes
deriving DecidableEq, Repr

structure CosiSig where
  mask : Nat
  sig : Bytes
deriving DecidableEq, Repr

structure Snapshot where
  version : Nat
  nodeId : Bytes
  round : Nat
  refs : Option RoundLink
  txs : List Bytes
  ts : Nat
  sig : Option CosiSig
deriving DecidableEq, Repr

/-! ## encoder -/

/-- `EncodeRoundReferences` -/
def encRefs : Option RoundLink → Bytes
  | none => beBytes 2 0
  | some r => beBytes 2 2 ++ (r.self ++ r.ext)

/-- `EncodeCosiSignature`; panics on a non-nil signature with an empty mask -/
def encSig : Option CosiSig → Option Bytes
  | none => some (beBytes 8 0)
  | some s => if s.mask = 0 then none else some (beBytes 8 s.mask ++ s.sig)

/-- the adjacent-duplicate scan after sorting -/
def hasAdjDup : List Bytes → Bool
  | a :: b :: rest => a == b || hasAdjDup (b :: rest)
  | _ => false

/-- `slices.SortFunc(s.Transactions, bytes.Compare)` -/
def sortTxs (txs : List Bytes) : List Bytes := txs.mergeSort bytesLe

/-- `encodeSnapshotPayload(s, withSig)`: the bytes up to and including the signature field -/
def encodeSnapshotPayload (s : Snapshot) (withSig : Bool) : Option Bytes :=
  if s.version < verCommon then none
  else if s.round = 0 ∧ s.txs.length ≠ 1 then none
  else if s.txs.length < 1 ∨ s.txs.length > txMax then none
  else if withSig = false ∧ s.sig.isSome then none
  else
    let txs := sortTxs s.txs
    if hasAdjDup txs then none
    else match encSig s.sig with
      | none => none
      | some sg =>
        some (magic ++ ([0, UInt8.ofNat s.version] ++ (s.nodeId ++ (beBytes 8 s.round ++
          (encRefs s.refs ++ (beBytes 2 txs.length ++ (txs.flatten ++ (beBytes 8 s.ts ++ sg))))))))

/-- `EncodeSnapshotWithTopo` -/
def encodeSnapshotWithTopo (s : Snapshot) (topo : Nat) : Option Bytes :=
  match encodeSnapshotPayload s true with
  | none => none
  | some b => some (b ++ beBytes 8 topo)

/-- `SnapshotWithTopologicalOrder.VersionedMarshal` -/
def versionedMarshal (s : Snapshot) (topo : Nat) : Option Bytes :=
  if s.version = verCommon then encodeSnapshotWithTopo s topo else none

/-- `Snapshot.versionedPayload`: the signature is dropped, the local topology never enters -/
def versionedPayload (s : Snapshot) : Option Bytes :=
  if s.version = verCommon then
    encodeSnapshotPayload { s with sig := none } false
  else none

/-! ## decoder -/

/-- `checkSnapVersion` -/
def checkSnapVersion (val : Bytes) : Nat :=
  if val.length < 4 then 0
  else if val.take 4 = magic ++ [0, UInt8.ofNat verCommon] then verCommon
  else 0

/-- `ReadRoundReferences` -/
def readRoundReferences (b : Bytes) : Option (Option RoundLink × Bytes) :=
  match readU 2 b with
  | none => none
  | some (rc, r) =>
    if rc = 0 then some (none, r)
    else if rc ≠ 2 then none
    else match readN 32 r with
      | none => none
      | some (self, r1) =>
        match readN 32 r1 with
        | none => none
        | some (ext, r2) => some (some ⟨self, ext⟩, r2)

/-- `ReadCosiSignature` -/
def readCosiSignature (b : Bytes) : Option (Option CosiSig × Bytes) :=
  match readU 8 b with
  | none => none
  | some (m, r) =>
    if m = 0 then some (none, r)
    else match readN 64 r with
      | none => none
      | some (sg, r1) => some (some ⟨m, sg⟩, r1)

/-- the loop reading `tl` transaction hashes -/
def readHashes : Nat → Bytes → Option (List Bytes × Bytes)
  | 0, b => some ([], b)
  | n + 1, b =>
    match readN 32 b with
    | none => none
    | some (h, r) =>
      match readHashes n r with
      | none => none
      | some (hs, r') => some (h :: hs, r')

/-- the canonical-order scan: `bytes.Compare(tx[i-1], tx[i]) >= 0` rejects -/
def strictlyIncreasing : List Bytes → Bool
  | a :: b :: rest => bytesLt a b && strictlyIncreasing (b :: rest)
  | _ => true

/-- The end of `DecodeSnapshotWithTopo`, after the signature, on the remaining input `b`:

      num, err := dec.ReadUint64()
      if err == io.EOF && num == 0 { return topo, nil }
      if err != nil { return nil, err }
      topo.TopologicalOrder = num
      es, err := dec.buf.ReadByte()
      if err != io.EOF || es != 0 { return nil, … }

    * nothing left: `ReadUint64` fails with `io.EOF` → accepted, topology 0;
    * 1..7 octets left: `Read` consumes them and fails with "data short" (not `io.EOF`)
      → rejected (before the `fix:` commit the error was overwritten and this was accepted
      with topology 0 — finding C07:partial-topo-suffix);
    * exactly 8: the topology; `ReadByte` sees `io.EOF` → accepted;
    * more: `ReadByte` returns a byte without error → rejected. -/
def readTail (b : Bytes) : Option Nat :=
  if b.length = 0 then some 0
  else if b.length < 8 then none
  else if b.length = 8 then some (beNat b)
  else none

/-- `DecodeSnapshotWithTopo` -/
def decodeSnapshotWithTopo (b : Bytes) : Option (Snapshot × Nat) :=
  match readN 4 b with
  | none => none
  | some (hdr, b1) =>
    let version := checkSnapVersion hdr
    if version < verCommon then none else
    match readN 32 b1 with
    | none => none
    | some (node, b2) =>
    match readU 8 b2 with
    | none => none
    | some (rn, b3) =>
    match readRoundReferences b3 with
    | none => none
    | some (rl, b4) =>
    match readU 2 b4 with
    | none => none
    | some (tl, b5) =>
    if tl < 1 ∨ tl > txMax then none else
    match readHashes tl b5 with
    | none => none
    | some (txs, b6) =>
    if strictlyIncreasing txs = false then none else
    if rn = 0 ∧ (txs.length ≠ 1 ∨ rl.isSome) then none else
    if rn ≠ 0 ∧ rl.isNone then none else
    match readU 8 b6 with
    | none => none
    | some (ts, b7) =>
    match readCosiSignature b7 with
    | none => none
    | some (cs, b8) =>
    match readTail b8 with
    | none => none
    | some topo =>
      some ({ version := version, nodeId := node, round := rn, refs := rl, txs := txs,
              ts := ts, sig := cs }, topo)

/-- `UnmarshalVersionedSnapshot` -/
def unmarshalVersionedSnapshot (b : Bytes) : Option (Snapshot × Nat) :=
  if checkSnapVersion b < verCommon then none else decodeSnapshotWithTopo b

end Mixin.SnapCodec
