import Mixin.Facts.Generated
/-
  Model of kernel/election.go, kernel/slash.go and the hour gate of kernel/custodian.go
  (property C29): the node lists (`NodesListWithoutState` over the state sequences built by
  `LoadConsensusNodes`), `electSnapshotNode`, `checkRemovePossibility`, the hour windows,
  `prepareNodeRemovalTime`, `removingOrSlashingNodeAt`, and the leading gates of the pledge,
  cancel and custodian-update snapshot validators.

  Node ids and transaction hashes are 32-byte values, modelled as `Nat` (the Go code orders ids
  by their fixed-length hex text, which is the numeric order). Timestamps are `uint64`: every
  subtraction the Go code performs unguarded is modelled modulo 2^64.
-/
namespace Mixin.Election
open Mixin.Facts

def minNodes : Nat := Gen.config_KernelMinimumNodesCount
def mintBegin : Nat := Gen.config_KernelMintTimeBegin
def mintEnd : Nat := Gen.config_KernelMintTimeEnd
def acceptBegin : Nat := Gen.config_KernelNodeAcceptTimeBegin
def acceptEnd : Nat := Gen.config_KernelNodeAcceptTimeEnd
def pledgePeriodMin : Nat := Gen.config_KernelNodePledgePeriodMinimum
def acceptPeriodMin : Nat := Gen.config_KernelNodeAcceptPeriodMinimum
def acceptPeriodMax : Nat := Gen.config_KernelNodeAcceptPeriodMaximum
def hourNs : Nat := 3600000000000
def oneDay : Nat := Gen.kernel_OneDay
def two64 : Nat := 18446744073709551616

/-- the operation codes `electSnapshotNode` elects for -/
def electOps : List Nat :=
  [Gen.common_TransactionTypeMint, Gen.common_TransactionTypeNodeRemove, Gen.common_TransactionTypeNodePledge,
   Gen.common_TransactionTypeCustodianUpdateNodes, Gen.common_TransactionTypeCustodianSlashNodes]

inductive NState where
  | pledging | accepted | removed | cancelled
deriving DecidableEq, Repr

/-- one record of `allNodesSortedWithState` -/
structure Rec where
  id : Nat
  tx : Nat
  ts : Nat
  state : NState
deriving DecidableEq, Repr

/-- `a - b` on `uint64` -/
def usub (a b : Nat) : Nat := (a + two64 - b % two64) % two64

/-- `time.Duration(x)` of a `uint64`: reinterpretation as `int64` -/
def asInt64 (x : Nat) : Int := if x < two64 / 2 then (x : Int) else (x : Int) - (two64 : Int)

/-- order of `sort.Slice` in `nodeSequenceWithoutState`: timestamp, then id -/
def recLe (a b : Rec) : Bool := a.ts < b.ts || (a.ts == b.ts && a.id ≤ b.id)

/-- insertion into a sorted list (the result of `sort.Slice` is determined by the order: the
    keys `(timestamp, id)` of one list are pairwise distinct) -/
def insertRec (r : Rec) : List Rec → List Rec
  | [] => [r]
  | x :: xs => if recLe r x then r :: x :: xs else x :: insertRec r xs

def sortRecs : List Rec → List Rec
  | [] => []
  | x :: xs => insertRec x (sortRecs xs)

/-- the `filter` map of `nodeSequenceWithoutState`: the last record of every id -/
def latest (recs : List Rec) : List Rec :=
  recs.foldl (fun acc r => acc.filter (fun x => x.id != r.id) ++ [r]) []

/-- `nodeSequenceWithoutState(threshold, acceptedOnly)`: records are scanned in order until the
    first with `Timestamp >= threshold` -/
def nodeSeq (hist : List Rec) (threshold : Nat) (acceptedOnly : Bool) : List Rec :=
  sortRecs ((latest (hist.takeWhile (fun r => r.ts < threshold))).filter
    (fun r => !acceptedOnly || r.state == .accepted))

/-- `NodesListWithoutState(threshold, acceptedOnly)`: the sequence of the last record (in
    list order) whose timestamp is below the threshold; sequence `i` is
    `nodeSequenceWithoutState(hist[i].Timestamp + 1, ·)` -/
def nodesList (hist : List Rec) (threshold : Nat) (acceptedOnly : Bool) : List Rec :=
  match hist.reverse.find? (fun r => r.ts < threshold) with
  | none => []
  | some r => nodeSeq hist (r.ts + 1) acceptedOnly

inductive ElectOut where
  | zero
  | panic
  | id (n : Nat)
deriving DecidableEq, Repr

/-- `accepted[1 : len(accepted)-1]` -/
def inner (l : List Rec) : List Rec := (l.drop 1).take (l.length - 2)

/-- day index used by the election -/
def electDay (epoch now : Nat) : Nat := usub now epoch / (hourNs * 24)

/-- `electSnapshotNode(operation, now)` -/
def elect (hist : List Rec) (epoch : Nat) (op now : Nat) : ElectOut :=
  if !electOps.contains op then .zero else
  let accepted := nodesList hist now true
  if accepted.length < minNodes then .panic else
  let inn := inner accepted
  match inn[(electDay epoch now + op) % inn.length]? with
  | some r => .id r.id
  | none => .panic

def hourOf (epoch ts : Nat) : Nat := usub ts epoch / hourNs % 24

/-- `checkConsensusAcceptHour` -/
def acceptHour (epoch ts : Nat) : Bool :=
  let h := hourOf epoch ts
  h ≥ acceptBegin && h ≤ acceptEnd

/-- `checkConsensusPledgeHour` -/
def pledgeHour (epoch ts : Nat) : Bool :=
  let h := hourOf epoch ts
  let isMint := h ≥ mintBegin && h ≤ mintEnd
  let isAccept := h ≥ acceptBegin && h ≤ acceptEnd
  !isMint && !isAccept

/-- hour gate of `validateCustodianUpdateNodes` (after `timestamp >= Epoch`) -/
def custodianHourOk (epoch ts : Nat) : Bool :=
  let h := (ts - epoch) / hourNs % 24
  !(h + 1 ≥ mintBegin && h ≤ mintEnd + 1)

/-- `PledgingNode(timestamp)` -/
def pledgingNode (hist : List Rec) (ts : Nat) : Option Rec :=
  match (nodesList hist ts false).getLast? with
  | some r => if r.state = .pledging then some r else none
  | none => none

/-- the loop of `checkRemovePossibility`; `none` = an error return -/
def removeLoop (now : Nat) (old : Option Nat) : List Rec → Option Rec → List Rec → Option (Option Rec × List Rec)
  | [], candi, acc => some (candi, acc)
  | cn :: rest, candi, acc =>
    if old = some cn.tx then removeLoop now old rest (some cn) acc
    else if now < cn.ts then none
    else if asInt64 (usub now cn.ts) < (pledgePeriodMin : Int) then none
    else match cn.state with
      | .accepted => removeLoop now old rest candi (acc ++ [cn])
      | .cancelled => removeLoop now old rest candi acc
      | .removed => removeLoop now old rest candi acc
      | .pledging => none

/-- `checkRemovePossibility(nodeId, now, old)`; `none` = an error return -/
def checkRemove (hist : List Rec) (epoch : Nat) (nodeId now : Nat) (old : Option Nat) : Option Rec :=
  if (pledgingNode hist now).isSome then none
  else if now < epoch then none
  else if !acceptHour epoch now then none
  else match removeLoop now old (nodesList hist now false) none [] with
    | none => none
    | some (candi, accepted) =>
      if accepted.length ≤ minNodes then none else
      match (match candi with | some c => some c | none => accepted.head?) with
      | none => none
      | some c => if c.id = nodeId then none else some c

/-- `prepareNodeRemovalTime(now, epoch)` -/
def prepareRemovalTime (now epoch : Nat) : Option Nat :=
  if now < epoch then none else
  let since := now - epoch
  let h := since / hourNs % 24
  if h ≤ acceptEnd ∧ h + 12 < acceptBegin then none
  else if h > acceptEnd ∧ h < acceptBegin + 12 then none
  else some ((epoch + (since / oneDay * oneDay + acceptBegin * hourNs)) % two64)

/-- `removingOrSlashingNodeAt(timestamp)` -/
def removingAt (hist : List Rec) (epoch ts : Nat) : Option Rec :=
  if ts < epoch || !acceptHour epoch ts then none else
  let start := (epoch + (ts - epoch) / oneDay * oneDay + acceptBegin * hourNs) % two64
  checkRemove hist epoch 0 start none

inductive Gate where
  | reject
  | pass
  | panic
deriving DecidableEq, Repr

/-- lift an election outcome into a gate on the proposer -/
def electedIs (hist : List Rec) (epoch op ts proposer : Nat) : Gate :=
  match elect hist epoch op ts with
  | .panic => .panic
  | .zero => if proposer = 0 then .pass else .reject
  | .id x => if x = proposer then .pass else .reject

/-- leading gates of `validateNodePledgeSnapshot`: election, epoch, pledge hour -/
def pledgeGate (hist : List Rec) (epoch ts proposer : Nat) : Gate :=
  match electedIs hist epoch Gen.common_TransactionTypeNodePledge ts proposer with
  | .pass => if ts < epoch then .reject else if !pledgeHour epoch ts then .reject else .pass
  | g => g

/-- leading gates of `validateCustodianUpdateNodes` (finalized): election, epoch, hour -/
def custodianGate (hist : List Rec) (epoch ts proposer : Nat) : Gate :=
  match electedIs hist epoch Gen.common_TransactionTypeCustodianUpdateNodes ts proposer with
  | .pass => if ts < epoch then .reject else if !custodianHourOk epoch ts then .reject else .pass
  | g => g

/-- gates of `validateNodeCancelSnapshot` (finalized) before the store is written -/
def cancelGate (hist : List Rec) (epoch ts : Nat) : Gate :=
  if ts < epoch then .reject else
  match pledgingNode hist ts with
  | none => .reject
  | some p =>
    if !acceptHour epoch ts then .reject
    else if ts < p.ts then .reject
    else
      let elapse := asInt64 (ts - p.ts)
      if elapse < (acceptPeriodMin : Int) then .reject
      else if elapse > (acceptPeriodMax : Int) then .reject
      else .pass

/-- the election and candidate part of `validateNodeRemoveSnapshot` for a fresh removal:
    the proposer must be the elected node and `checkRemovePossibility(proposer, …)` must name a
    candidate -/
def removeBy (hist : List Rec) (epoch ts proposer : Nat) (old : Option Nat) : Option Rec :=
  match electedIs hist epoch Gen.common_TransactionTypeNodeRemove ts proposer with
  | .pass => checkRemove hist epoch proposer ts old
  | _ => none

/-! ## the time a snapshot is validated at -/

/-- The first statement of all six operation-snapshot validators (`validateMintSnapshot`,
    `validateNodePledgeSnapshot`, `validateNodeCancelSnapshot`, `validateNodeAcceptSnapshot`,
    `validateNodeRemoveSnapshot`, `validateCustodianUpdateNodes`):
    `timestamp := s.Timestamp; if s.Timestamp == 0 && s.NodeId == node.IdForNetwork { timestamp = clock.NowUnixNano() }`.
    `self` is the validating node's id, `clock` its wall clock. -/
def opTime (self clock snapNode snapTs : Nat) : Nat :=
  if snapTs = 0 ∧ snapNode = self then clock else snapTs

/-- `validateNodePledgeSnapshot` up to its gates, on a snapshot `(snapNode, snapTs)` -/
def pledgeGateSnap (self clock : Nat) (hist : List Rec) (epoch snapNode snapTs : Nat) : Gate :=
  pledgeGate hist epoch (opTime self clock snapNode snapTs) snapNode

/-- `validateCustodianUpdateNodes` up to its gates, on a snapshot `(snapNode, snapTs)` -/
def custodianGateSnap (self clock : Nat) (hist : List Rec) (epoch snapNode snapTs : Nat) : Gate :=
  custodianGate hist epoch (opTime self clock snapNode snapTs) snapNode

/-- `validateNodeCancelSnapshot` (finalized) up to its gates, on a snapshot `(snapNode, snapTs)` -/
def cancelGateSnap (self clock : Nat) (hist : List Rec) (epoch snapNode snapTs : Nat) : Gate :=
  cancelGate hist epoch (opTime self clock snapNode snapTs)

end Mixin.Election
