import Mixin.Prelude.Proto
/-!
# Model of `p2p/handle.go`: `parseNetworkMessage`, `parseTransactionsPayload`,
`unmarshalSyncPoints` and the `build*Message` functions (property C08).

Byte strings are `List UInt8`.  Every Go slice expression `data[a:b]` / `data[a:]` is the
bounds-checked `slice` / `sliceFrom` below, which answers `none` exactly when Go would panic
with "slice bounds out of range"; the parser turns that into the outcome `Res.panic`.
`copy(dst[:], src)` into a fixed array is `copyN` (copies `min`, never panics, zero fill).

Not modelled here (other properties model these codecs): the snapshot and transaction
decoders.  They enter through an `Oracle`:

* `tx b`    — `common.UnmarshalVersionedTransaction(b)` succeeds.  That decoder only accepts
              canonical encodings, so the decoded value is identified with `b` itself.
* `snap b`  — `common.UnmarshalVersionedSnapshot(b)`: `none` = error, `some info` = the decoded
              snapshot, identified by the canonical encoding of its body (signature cleared)
              and its collective signature `(signature, mask)` if present.
* `checkKey k` — `crypto.Key.CheckKey` (the 32 bytes decode to a curve point).
-/
namespace Mixin.PeerMsg
open Mixin.Proto (Bytes)

/-- outcome of running a piece of Go code: value, returned error, or run-time panic -/
inductive Res (α : Type) where
  | ok : α → Res α
  | reject : Res α
  | panic : Res α
deriving Repr, DecidableEq

/-- `b[lo:hi]` -/
def slice (b : Bytes) (lo hi : Nat) : Option Bytes :=
  if lo ≤ hi ∧ hi ≤ b.length then some ((b.drop lo).take (hi - lo)) else none

/-- `b[lo:]` -/
def sliceFrom (b : Bytes) (lo : Nat) : Option Bytes :=
  if lo ≤ b.length then some (b.drop lo) else none

def zeros (n : Nat) : Bytes := List.replicate n 0

/-- `var a [n]byte; copy(a[:], src)` -/
def copyN (n : Nat) (src : Bytes) : Bytes := src.take n ++ zeros (n - src.length)

/-- big-endian value of a byte string (`binary.BigEndian.UintXX`) -/
def beNat (b : Bytes) : Nat := b.foldl (fun a x => a * 256 + x.toNat) 0

/-- `n` big-endian bytes of `v` (`binary.BigEndian.AppendUintXX(uintXX(v))`, truncating) -/
def beBytes : Nat → Nat → Bytes
  | 0, _ => []
  | n + 1, v => beBytes n (v / 256) ++ [UInt8.ofNat (v % 256)]

structure SnapInfo where
  /-- canonical encoding of the decoded snapshot with its signature cleared -/
  body : Bytes
  /-- collective signature (64 bytes) and mask, when the snapshot carries one -/
  cosi : Option (Bytes × Nat)
deriving Repr, DecidableEq

structure Oracle where
  checkKey : Bytes → Bool
  tx : Bytes → Bool
  snap : Bytes → Option SnapInfo

structure SyncPoint where
  nodeId : Bytes
  number : Nat
  hash : Bytes
deriving Repr, DecidableEq

/-- `PeerMessage` with the zero values Go gives to untouched fields -/
structure Msg where
  type : UInt8
  version : UInt8
  snapshot : Option SnapInfo := none
  snapshotHash : Bytes := zeros 32
  transactions : List Bytes := []
  transactionHash : Bytes := zeros 32
  cosiSig : Bytes := zeros 64
  cosiMask : Nat := 0
  commitment : Bytes := zeros 32
  challenge : Bytes := zeros 32
  response : Bytes := zeros 32
  wantTxs : List Bytes := []
  commitments : List Bytes := []
  graph : List SyncPoint := []
  data : Bytes := []
  unsigned : Bytes := []
  signature : Option Bytes := none
deriving Repr, DecidableEq

/-! ## message type codes (pinned against the source by `Facts/ExpectedC08.lean`) -/
def tPing : UInt8 := 1
def tAuthentication : UInt8 := 3
def tGraph : UInt8 := 4
def tSnapshotConfirm : UInt8 := 5
def tTransactionRequest : UInt8 := 6
def tTransaction : UInt8 := 7
def tTransactionBundle : UInt8 := 8
def tFinalizedTransactionBundle : UInt8 := 9
def tPreCommitments : UInt8 := 15
def tAnnouncement : UInt8 := 20
def tCommitment : UInt8 := 21
def tTransactionChallenge : UInt8 := 22
def tResponse : UInt8 := 23
def tFullChallenge : UInt8 := 24
def tFinalization : UInt8 := 25
def tRelay : UInt8 := 200
def tConsumers : UInt8 := 201

def snapshotTransactionsMaximum : Nat := 255
def authenticationMessageSize : Nat := 138
def maximumEncodingInt : Nat := 0xFFFF
/-- `magic ++ {0, MinimumEncodingVersion}` -/
def minimumHeader : Bytes := [0x77, 0x77, 0x00, 0x01]

/-! ## `parseTransactionsPayload` -/

/-- the loop `for i := range txs` over the remaining `data`, `n` iterations left -/
def parseTxLoop (O : Oracle) : Nat → Bytes → Res (List Bytes)
  | 0, data => if data.length > 0 then .reject else .ok []
  | n + 1, data =>
    if data.length < 4 then .reject else
    match slice data 0 4 with
    | none => .panic
    | some h =>
    let size := beNat h
    match sliceFrom data 4 with
    | none => .panic
    | some rest =>
    if rest.length < size then .reject else
    match slice data 4 (4 + size) with
    | none => .panic
    | some txb =>
    if !O.tx txb then .reject else
    match sliceFrom data (4 + size) with
    | none => .panic
    | some data' =>
      match parseTxLoop O n data' with
      | .ok l => .ok (txb :: l)
      | .reject => .reject
      | .panic => .panic

def parseTransactionsPayload (O : Oracle) (data : Bytes) : Res (List Bytes) :=
  match data with
  | [] => .reject
  | c :: _ =>
    match sliceFrom data 1 with
    | none => .panic
    | some rest => parseTxLoop O c.toNat rest

/-! ## `unmarshalSyncPoints` (a `common.Decoder` over `bytes.Reader`) -/

/-- `dec.Read(b)` with `len(b) = n > 0`: error at end of input or on a short read -/
def readN (n : Nat) (d : Bytes) : Option (Bytes × Bytes) :=
  if d.length < n then none else some (d.take n, d.drop n)

def readPoints : Nat → Bytes → Option (List SyncPoint)
  | 0, _ => some []
  | n + 1, d =>
    match readN 32 d with
    | none => none
    | some (node, d1) =>
    match readN 8 d1 with
    | none => none
    | some (num, d2) =>
    match readN 32 d2 with
    | none => none
    | some (h, d3) =>
      match readPoints n d3 with
      | none => none
      | some l => some ({ nodeId := node, number := beNat num, hash := h } :: l)

def unmarshalSyncPoints (b : Bytes) : Res (List SyncPoint) :=
  if b.length < 4 then .reject else
  match slice b 0 4 with
  | none => .panic
  | some hd =>
  if hd ≠ minimumHeader then .reject else
  match sliceFrom b 4 with
  | none => .panic
  | some d =>
  match readN 2 d with
  | none => .reject
  | some (cb, d1) =>
  let count := beNat cb
  if count > maximumEncodingInt then .reject else
  match readPoints count d1 with
  | none => .reject
  | some l => .ok l

/-! ## `parseNetworkMessage`, one function per `case` -/

def u16 (n : Nat) : Nat := n % 65536

/-- `for i := range count { copy(key[:], data[67+32*i:]); CheckKey }` — `i` is a `uint16`,
    so is the offset expression -/
def preCommitLoop (O : Oracle) (data : Bytes) : Nat → Nat → Res (List Bytes)
  | 0, _ => .ok []
  | n + 1, i =>
    match sliceFrom data (u16 (67 + u16 (32 * i))) with
    | none => .panic
    | some s =>
    let key := copyN 32 s
    if !O.checkKey key then .reject else
    match preCommitLoop O data n (i + 1) with
    | .ok l => .ok (key :: l)
    | .reject => .reject
    | .panic => .panic

def parsePreCommitments (O : Oracle) (msg : Msg) (data : Bytes) : Res Msg :=
  if data.length < 80 then .reject else
  match slice data 1 65 with
  | none => .panic
  | some sb =>
  match slice data 65 67 with
  | none => .panic
  | some cb =>
  let count := beNat cb
  if count > 1024 then .reject else
  match sliceFrom data 67 with
  | none => .panic
  | some rest =>
  if rest.length ≠ count * 32 then .reject else
  match preCommitLoop O data count 0 with
  | .reject => .reject
  | .panic => .panic
  | .ok keys =>
  match sliceFrom data 65 with
  | none => .panic
  | some u => .ok { msg with commitments := keys, signature := some (copyN 64 sb), unsigned := u }

def parseGraph (msg : Msg) (data : Bytes) : Res Msg :=
  if data.length < 71 then .reject else
  match sliceFrom data 1 with
  | none => .panic
  | some sb =>
  match sliceFrom data 65 with
  | none => .panic
  | some u =>
  match unmarshalSyncPoints u with
  | .reject => .reject
  | .panic => .panic
  | .ok points => .ok { msg with graph := points, signature := some (copyN 64 sb), unsigned := u }

def parsePing (msg : Msg) (data : Bytes) : Res Msg :=
  if data.length ≠ 1 then .reject else .ok msg

def parseAuthentication (msg : Msg) (data : Bytes) : Res Msg :=
  if data.length ≠ authenticationMessageSize then .reject else
  match sliceFrom data 1 with
  | none => .panic
  | some d => .ok { msg with data := d }

def parseSnapshotConfirm (msg : Msg) (data : Bytes) : Res Msg :=
  if data.length ≠ 33 then .reject else
  match sliceFrom data 1 with
  | none => .panic
  | some d => .ok { msg with snapshotHash := copyN 32 d }

def parseTransaction (O : Oracle) (msg : Msg) (data : Bytes) : Res Msg :=
  match sliceFrom data 1 with
  | none => .panic
  | some d => if O.tx d then .ok { msg with transactions := [d] } else .reject

def parseBundle (O : Oracle) (msg : Msg) (data : Bytes) : Res Msg :=
  match sliceFrom data 1 with
  | none => .panic
  | some d =>
    match parseTransactionsPayload O d with
    | .ok txs => .ok { msg with transactions := txs }
    | .reject => .reject
    | .panic => .panic

def parseTransactionRequest (msg : Msg) (data : Bytes) : Res Msg :=
  if data.length ≠ 33 then .reject else
  match sliceFrom data 1 with
  | none => .panic
  | some d => .ok { msg with transactionHash := copyN 32 d }

def parseAnnouncement (O : Oracle) (msg : Msg) (data : Bytes) : Res Msg :=
  match sliceFrom data 1 with
  | none => .panic
  | some d1 =>
  if d1.length ≤ 99 then .reject else
  match slice data 1 65 with
  | none => .panic
  | some sb =>
  match sliceFrom data 65 with
  | none => .panic
  | some cb =>
  let commitment := copyN 32 cb
  if !O.checkKey commitment then .reject else
  match sliceFrom data 97 with
  | none => .panic
  | some snb =>
  match O.snap snb with
  | none => .reject
  | some info => .ok { msg with commitment := commitment, snapshot := some info, signature := some (copyN 64 sb) }

/-- `for i := range len(txs)/32 { copy(tx[:], txs[i*32:]) }` -/
def wantLoop (txs : Bytes) : Nat → Nat → Res (List Bytes)
  | 0, _ => .ok []
  | n + 1, i =>
    match sliceFrom txs (i * 32) with
    | none => .panic
    | some s =>
      match wantLoop txs n (i + 1) with
      | .ok l => .ok (copyN 32 s :: l)
      | .reject => .reject
      | .panic => .panic

def parseCommitment (O : Oracle) (msg : Msg) (data : Bytes) : Res Msg :=
  match sliceFrom data 1 with
  | none => .panic
  | some d1 =>
  if d1.length < 128 then .reject else
  match slice data 1 65 with
  | none => .panic
  | some sb =>
  match sliceFrom data 65 with
  | none => .panic
  | some hb =>
  match sliceFrom data 97 with
  | none => .panic
  | some cb =>
  let commitment := copyN 32 cb
  if !O.checkKey commitment then .reject else
  match sliceFrom data 129 with
  | none => .panic
  | some txs =>
  let msg' : Msg := { msg with snapshotHash := copyN 32 hb, commitment := commitment,
                               signature := some (copyN 64 sb), unsigned := hb }
  if txs.length > 0 then
    if txs.length % 32 ≠ 0 then .reject else
    match wantLoop txs (txs.length / 32) 0 with
    | .ok w => .ok { msg' with wantTxs := w }
    | .reject => .reject
    | .panic => .panic
  else .ok msg'

def parseFullChallenge (O : Oracle) (msg : Msg) (data : Bytes) : Res Msg :=
  match sliceFrom data 1 with
  | none => .panic
  | some d1 =>
  if d1.length < 256 then .reject else
  match slice data 1 5 with
  | none => .panic
  | some szb =>
  let size := beNat szb
  match sliceFrom data 5 with
  | none => .panic
  | some r5 =>
  if r5.length < size then .reject else
  match slice data 5 (5 + size) with
  | none => .panic
  | some snb =>
  match O.snap snb with
  | none => .reject
  | some info =>
  match info.cosi with
  | none => .reject
  | some (csig, cmask) =>
  let offset := 5 + size
  match sliceFrom data offset with
  | none => .panic
  | some r =>
  if r.length < 65 then .reject else
  match slice data offset (offset + 32) with
  | none => .panic
  | some cb =>
  let commitment := copyN 32 cb
  if !O.checkKey commitment then .reject else
  match slice data (offset + 32) (offset + 64) with
  | none => .panic
  | some hb =>
  let challenge := copyN 32 hb
  if !O.checkKey challenge then .reject else
  match sliceFrom data (offset + 64) with
  | none => .panic
  | some pl =>
  match parseTransactionsPayload O pl with
  | .reject => .reject
  | .panic => .panic
  | .ok txs =>
    .ok { msg with snapshot := some { body := info.body, cosi := none }, cosiSig := csig, cosiMask := cmask,
                   commitment := commitment, challenge := challenge, transactions := txs }

def parseTransactionChallenge (O : Oracle) (msg : Msg) (data : Bytes) : Res Msg :=
  match sliceFrom data 1 with
  | none => .panic
  | some d1 =>
  if d1.length < 105 then .reject else
  match sliceFrom data 33 with
  | none => .panic
  | some sgb =>
  match slice data 97 105 with
  | none => .panic
  | some mb =>
  match sliceFrom data 105 with
  | none => .panic
  | some pl =>
  match parseTransactionsPayload O pl with
  | .reject => .reject
  | .panic => .panic
  | .ok txs =>
    .ok { msg with snapshotHash := copyN 32 d1, cosiSig := copyN 64 sgb, cosiMask := beNat mb, transactions := txs }

def parseResponse (msg : Msg) (data : Bytes) : Res Msg :=
  match sliceFrom data 1 with
  | none => .panic
  | some d1 =>
  if d1.length ≠ 64 then .reject else
  match sliceFrom data 33 with
  | none => .panic
  | some rb => .ok { msg with snapshotHash := copyN 32 d1, response := copyN 32 rb }

def parseFinalization (O : Oracle) (msg : Msg) (data : Bytes) : Res Msg :=
  match sliceFrom data 1 with
  | none => .panic
  | some d1 =>
  match O.snap d1 with
  | none => .reject
  | some info => .ok { msg with snapshot := some info }

def parseRelay (msg : Msg) (data : Bytes) : Res Msg :=
  if data.length < 65 then .reject else .ok { msg with data := data }

def parseConsumers (msg : Msg) (data : Bytes) : Res Msg :=
  match sliceFrom data 1 with
  | none => .panic
  | some d => .ok { msg with data := d }

/-- the `switch msg.Type` of `parseNetworkMessage` -/
def dispatch (O : Oracle) (msg : Msg) (t : UInt8) (data : Bytes) : Res Msg :=
  if t = tPreCommitments then parsePreCommitments O msg data
  else if t = tGraph then parseGraph msg data
  else if t = tPing then parsePing msg data
  else if t = tAuthentication then parseAuthentication msg data
  else if t = tSnapshotConfirm then parseSnapshotConfirm msg data
  else if t = tTransaction then parseTransaction O msg data
  else if t = tTransactionBundle ∨ t = tFinalizedTransactionBundle then parseBundle O msg data
  else if t = tTransactionRequest then parseTransactionRequest msg data
  else if t = tAnnouncement then parseAnnouncement O msg data
  else if t = tCommitment then parseCommitment O msg data
  else if t = tFullChallenge then parseFullChallenge O msg data
  else if t = tTransactionChallenge then parseTransactionChallenge O msg data
  else if t = tResponse then parseResponse msg data
  else if t = tFinalization then parseFinalization O msg data
  else if t = tRelay then parseRelay msg data
  else if t = tConsumers then parseConsumers msg data
  else .ok msg

/-- `parseNetworkMessage(version, data)` -/
def parse (O : Oracle) (version : UInt8) (data : Bytes) : Res Msg :=
  match data with
  | [] => .reject
  | t :: _ => dispatch O { type := t, version := version } t data

/-! ## builders.  Signatures and the encodings of snapshots / transactions are inputs:
the signature is whatever `SignData` / `Key.Sign` returned (64 bytes), a snapshot is its
`VersionedMarshal()` bytes, a transaction its `Marshal()` bytes. -/

/-- `buildTransactionsPayload`: panics above `SnapshotTransactionsMaximum`; the length prefix
    is `uint32(len(pl))` -/
def buildTransactionsPayload (txs : List Bytes) : Option Bytes :=
  if txs.length > snapshotTransactionsMaximum then none else
  some (UInt8.ofNat txs.length :: (txs.map (fun pl => beBytes 4 pl.length ++ pl)).flatten)

def buildAuthenticationMessage (d : Bytes) : Bytes := tAuthentication :: d

def buildAnnouncement (sig R snap : Bytes) : Bytes := tAnnouncement :: (sig ++ (R ++ snap))

def buildCommitment (sig snapHash R : Bytes) (wantTxs : List Bytes) : Bytes :=
  tCommitment :: (sig ++ (snapHash ++ (R ++ wantTxs.flatten)))

def buildTransactionChallenge (snapHash cosiSig : Bytes) (mask : Nat) (txs : List Bytes) : Option Bytes :=
  match buildTransactionsPayload txs with
  | none => none
  | some pl => some (tTransactionChallenge :: (snapHash ++ (cosiSig ++ (beBytes 8 mask ++ pl))))

def buildFullChallenge (snap commitment challenge : Bytes) (txs : List Bytes) : Option Bytes :=
  match buildTransactionsPayload txs with
  | none => none
  | some pl => some (tFullChallenge :: (beBytes 4 snap.length ++ (snap ++ (commitment ++ (challenge ++ pl)))))

def buildResponse (snapHash si : Bytes) : Bytes := tResponse :: (snapHash ++ si)

def buildFinalization (snap : Bytes) : Bytes := tFinalization :: snap

def buildSnapshotConfirm (snapHash : Bytes) : Bytes := tSnapshotConfirm :: snapHash

def buildTransaction (tx : Bytes) : Bytes := tTransaction :: tx

def buildTransactions (txs : List Bytes) (typ : UInt8) : Option Bytes :=
  match buildTransactionsPayload txs with
  | none => none
  | some pl => some (typ :: pl)

def buildTransactionRequest (h : Bytes) : Bytes := tTransactionRequest :: h

def encodePoint (p : SyncPoint) : Bytes := p.nodeId ++ (beBytes 8 p.number ++ p.hash)

/-- `marshalSyncPoints`: `WriteInt` panics above `MaximumEncodingInt` -/
def marshalSyncPoints (points : List SyncPoint) : Option Bytes :=
  if points.length > maximumEncodingInt then none else
  some (minimumHeader ++ (beBytes 2 points.length ++ (points.map encodePoint).flatten))

def buildGraph (sig : Bytes) (points : List SyncPoint) : Option Bytes :=
  match marshalSyncPoints points with
  | none => none
  | some d => some (tGraph :: (sig ++ d))

/-- `buildCommitmentsMessage`: panics above 1024 -/
def buildCommitments (sig : Bytes) (keys : List Bytes) : Option Bytes :=
  if keys.length > 1024 then none else
  some (tPreCommitments :: (sig ++ (beBytes 2 keys.length ++ keys.flatten)))

end Mixin.PeerMsg
