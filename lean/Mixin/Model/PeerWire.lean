import Mixin.Model.PeerMsg
import Mixin.Model.Batch
/-!
# The transport in front of the peer-message parser (property C08, anchor `p2p/quic.go`)

`QuicClient.Send` writes a 6-byte header (version, 0, big-endian uint32 size) and the message;
`QuicClient.Receive` reads the header, then *exactly* `size` bytes (`io.ReadFull`), and hands
`(header[0], data)` to `parseNetworkMessage`.  The framing functions are the ones of
`Mixin.Batch` (C31); here they are composed with the parser, and the stream that is given to
`receive` is everything the sender managed to write before the stream ended — so a sender that
dies in the middle of a frame is the case "`receive` on a strict prefix of the frame".
-/
namespace Mixin.PeerWire
open Mixin.Proto (Bytes)
open Mixin.PeerMsg

/-- what `Send(d)` puts on the stream (`none`: `Send` returns an error and writes nothing) -/
def sendFrame (d : Bytes) : Option Bytes := Mixin.Batch.frame Mixin.Batch.maxSize Mixin.Batch.frameVersion d

/-- `Receive()` on a stream that ends after `s` -/
def receiveFrame (s : Bytes) : Mixin.Batch.Recv :=
  Mixin.Batch.receive Mixin.Batch.maxSize Mixin.Batch.frameVersion Mixin.Batch.maxSize s

/-- `tm, err := client.Receive(); if err != nil { … }; parseNetworkMessage(tm.Version, tm.Data)`:
    a transport error is an error, never a message -/
def receiveParse (O : Oracle) (s : Bytes) : Res Msg :=
  match receiveFrame s with
  | .ok d _ => parse O (UInt8.ofNat Mixin.Batch.frameVersion) d
  | _ => .reject

end Mixin.PeerWire
