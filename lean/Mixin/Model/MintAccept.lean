import Mixin.Model.Mint
import Mixin.Model.Election
/-
  Acceptance of a mint snapshot (property C25, on top of C29): model of
  `kernel/mint.go:validateMintSnapshot`, i.e. the election of the proposer, the rebuilding of
  the universal mint transaction at the snapshot's timestamp
  (`buildUniversalMintTransaction(cur, timestamp, validateOnly = true)`) and the comparison of
  payload hashes.

  A mint transaction is modelled by the fields the property speaks about — batch, amount and
  the output amounts in order — plus `rest`, one opaque value standing for every other byte of
  the payload (version, asset, mint group, keys, masks, scripts, references, extra). Two
  payload hashes are equal iff all of these agree (hash collision-freeness is the trusted part).
  The `rest` of the transaction the kernel builds is an input (`canonRest`): the harness takes
  it from the real builder.

  Store reads the validator trusts, all inputs of the model (`MintEnv`): the last mint
  distribution (after the legacy default), the lead/sign works of the previous day, today's
  lead works and the aggregated space checkpoints of the accepted nodes (in accepted-list
  order), the consensus threshold (C10), the node-state history (C11), and through `canonRest`
  the custodian account and the last consensus snapshot.
-/
namespace Mixin.MintAccept
open Mixin.Mint Mixin.Election

structure MintTx where
  batch : Nat
  amount : Nat
  outputs : List Nat
  rest : Nat
deriving DecidableEq, Repr

structure MintEnv where
  hist : List Rec
  epoch : Nat
  lastBatch : Nat
  lastAmount : Nat
  today : List Nat
  spaces : List Nat
  works : List (Nat × Nat)
  thr : Nat
  canonRest : Nat

def mintOp : Nat := Mixin.Facts.Gen.common_TransactionTypeMint

/-- number of accepted nodes at `ts` and the day gap `timestamp/OneDay - Epoch/OneDay` -/
def acceptedCount (env : MintEnv) (ts : Nat) : Nat := (nodesList env.hist ts true).length
def dayGap (env : MintEnv) (ts : Nat) : Int := ((ts / Election.oneDay : Nat) : Int) - ((env.epoch / Election.oneDay : Nat) : Int)

/-- the distribution `buildUniversalMintTransaction` applies at `ts` -/
def distAt (env : MintEnv) (ts : Nat) : Nat → DistOut :=
  fun k => distribute (acceptedCount env ts) (dayGap env ts) env.today env.spaces env.works k env.thr

inductive Built where
  | tx (t : MintTx)
  | nil
  | panic
deriving DecidableEq, Repr

/-- `buildUniversalMintTransaction(cur, ts, validateOnly)` -/
def buildMint (env : MintEnv) (ts : Nat) (validateOnly : Bool) : Built :=
  match mintPossibility params env.epoch ts validateOnly env.lastBatch env.lastAmount with
  | none => .panic
  | some (batch, amount) =>
    match buildOutputs batch amount (distAt env ts) with
    | .nil => .nil
    | .panic => .panic
    | .tx k s l => .tx ⟨batch, amount, k ++ [s, l], env.canonRest⟩

inductive Decision where
  | accept
  | reject
  | panic
deriving DecidableEq, Repr

/-- `validateMintSnapshot(snap, tx)` for a snapshot of `proposer` with timestamp `ts ≠ 0` -/
def validateMint (env : MintEnv) (proposer ts : Nat) (tx : MintTx) : Decision :=
  match electedIs env.hist env.epoch mintOp ts proposer with
  | .panic => .panic
  | .reject => .reject
  | .pass =>
    match buildMint env ts true with
    | .panic => .panic
    | .nil => .reject
    | .tx b => if tx = b then .accept else .reject

/-- the ledger-side effect the next validation relies on: an accepted mint becomes the last
    mint distribution -/
def record (env : MintEnv) (tx : MintTx) : MintEnv := { env with lastBatch := tx.batch, lastAmount := tx.amount }

/-- `validateMintSnapshot(snap, tx)` as run by the node `self` whose clock shows `clock`, on a
    snapshot of `snapNode` with timestamp `snapTs` (zero only before the proposer announces it) -/
def validateMintSnap (self clock : Nat) (env : MintEnv) (snapNode snapTs : Nat) (tx : MintTx) : Decision :=
  validateMint env snapNode (opTime self clock snapNode snapTs) tx

end Mixin.MintAccept
