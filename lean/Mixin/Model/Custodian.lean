import Mixin.Prelude.Proto
/-!
# Model of custodian updates (core Lean only)

`common/custodian.go`: `parseCustodianNode`, `CustodianNode.validate`,
`ParseCustodianUpdateNodesExtra`, `EncodeCustodianNode`,
`Transaction.validateCustodianUpdateNodes`, byte for byte.

* Signatures: `V key msg sig` stands for `key.Verify(crypto.Blake3Hash(msg), sig)`; its
  answers come from the real code in the correspondence runs and are a parameter in the theorems.
* An address is its 64 bytes `PublicSpendKey ‖ PublicViewKey`. The Go code compares
  `Address.String()` texts; the text is an injective function of these 64 bytes
  (`Mixin.C32.address_print_injective`), so comparing the bytes is the same decision.
* Amounts are `Nat` in units of 10^-8 (`common.Integer`).
* `sort.Slice` is not stable; it is only reached when all custodian spend keys are distinct
  (the uniqueness filter runs first), where every correct sort returns the same list. The
  model sorts by insertion.
-/
namespace Mixin.Custodian
open Mixin.Proto

def nodeExtraSize : Nat := 353
def actionUpdate : UInt8 := 1
def nodesMinimumCount : Nat := 7
/-- `NewInteger(custodianNodeNewPrice)` = 100 · 10^8 -/
def newPrice : Nat := 100 * 10 ^ 8
/-- `NewInteger(custodianNodeUpdatePrice)` = 1 · 10^8 -/
def updatePrice : Nat := 1 * 10 ^ 8
def txVersionHashSignature : Nat := 5
def outputTypeCustodianUpdateNodes : Nat := 0xb1
/-- `out.Script.String() == "fffe40"` -/
def scriptFFFE40 : Bytes := [0xff, 0xfe, 0x40]

abbrev Verifier := Bytes → Bytes → Bytes → Bool

/-- `bytes.Compare(a, b) < 0` -/
def bytesLt : Bytes → Bytes → Bool
  | [], [] => false
  | [], _ :: _ => true
  | _ :: _, [] => false
  | a :: as, b :: bs =>
    if a.toNat < b.toNat then true else if b.toNat < a.toNat then false else bytesLt as bs

/-- `extra[lo:hi]` -/
def slice (b : Bytes) (lo hi : Nat) : Bytes := (b.drop lo).take (hi - lo)

/-- a parsed `CustodianNode`: all fields are slices of `Extra` -/
structure Node where
  extra : Bytes
deriving DecidableEq, Repr

namespace Node
def custSpend (n : Node) : Bytes := slice n.extra 1 33
def custView (n : Node) : Bytes := slice n.extra 33 65
def payeeSpend (n : Node) : Bytes := slice n.extra 65 97
def payeeView (n : Node) : Bytes := slice n.extra 97 129
def nodeId (n : Node) : Bytes := slice n.extra 129 161
/-- the signed part `Extra[:161]` -/
def signed (n : Node) : Bytes := n.extra.take 161
def signerSig (n : Node) : Bytes := slice n.extra 161 225
def payeeSig (n : Node) : Bytes := slice n.extra 225 289
def custSig (n : Node) : Bytes := slice n.extra 289 nodeExtraSize
/-- custodian address `spend ‖ view` -/
def custAddr (n : Node) : Bytes := slice n.extra 1 65
/-- payee address `spend ‖ view` -/
def payeeAddr (n : Node) : Bytes := slice n.extra 65 129

/-- `CustodianNode.validate() == nil` -/
def valid (V : Verifier) (n : Node) : Bool :=
  n.payeeSpend != n.custSpend &&
  V n.payeeSpend n.signed n.payeeSig &&
  V n.custSpend n.signed n.custSig
end Node

/-- `parseCustodianNode` -/
def parseNode (V : Verifier) (genesis : Bool) (extra : Bytes) : Option Node :=
  if extra.length ≠ nodeExtraSize then none
  else if extra.head? ≠ some actionUpdate then none
  else
    let cn : Node := ⟨extra⟩
    if !cn.valid V && !genesis then none else some cn

/-- `nodesExtra[i*353:(i+1)*353]` for `i < count` -/
def chunks : Nat → Bytes → List Bytes
  | 0, _ => []
  | n + 1, b => b.take nodeExtraSize :: chunks n (b.drop nodeExtraSize)

/-- the loop over the entries with the `uniqueKeys` map (`seen`) -/
def parseNodes (V : Verifier) (genesis : Bool) : List Bytes → List Bytes → Option (List Node)
  | [], _ => some []
  | c :: rest, seen =>
    match parseNode V genesis c with
    | none => none
    | some cn =>
      if seen.contains cn.payeeSpend || seen.contains cn.custSpend then none
      else
        match parseNodes V genesis rest
            (cn.payeeSpend :: cn.payeeView :: cn.custSpend :: cn.custView :: seen) with
        | none => none
        | some ns => some (cn :: ns)

/-- insertion by `less(i, j) = bytes.Compare(custSpend_i, custSpend_j) < 0` -/
def insertNode (n : Node) : List Node → List Node
  | [] => [n]
  | m :: r => if bytesLt m.custSpend n.custSpend then m :: insertNode n r else n :: m :: r

def sortNodes : List Node → List Node
  | [] => []
  | n :: r => insertNode n (sortNodes r)

def flattenExtras (ns : List Node) : Bytes := (ns.map (·.extra)).flatten

/-- `CustodianUpdateRequest` -/
structure Request where
  custodian : Bytes      -- 64 bytes: spend ‖ view
  nodes : List Node
  signature : Bytes      -- 64 bytes
deriving DecidableEq, Repr

/-- `ParseCustodianUpdateNodesExtra` -/
def parseExtra (V : Verifier) (genesis : Bool) (extra : Bytes) : Option Request :=
  if extra.length < 64 + nodeExtraSize * nodesMinimumCount + 64 then none else
  let custodian := extra.take 64
  let prevSig := extra.drop (extra.length - 64)
  let nodesExtra := slice extra 64 (extra.length - 64)
  if nodesExtra.length % nodeExtraSize ≠ 0 then none else
  match parseNodes V genesis (chunks (nodesExtra.length / nodeExtraSize) nodesExtra) [] with
  | none => none
  | some nodes =>
    let sorted := sortNodes nodes
    if flattenExtras sorted ≠ nodesExtra then none
    else some { custodian := custodian, nodes := sorted, signature := prevSig }

/-- `EncodeCustodianNode` with the three signatures as inputs -/
def encodeNode (custodian payee nodeId signerSig payeeSig custodianSig : Bytes) : Bytes :=
  [actionUpdate] ++ custodian ++ payee ++ nodeId ++ signerSig ++ payeeSig ++ custodianSig

/-! ## validation -/

structure Output where
  type : Nat
  amount : Nat
  keys : Nat          -- `len(out.Keys)`
  script : Bytes
deriving DecidableEq, Repr

structure Tx where
  version : Nat
  asset : Bytes
  outputs : List Output
  extra : Bytes
deriving DecidableEq, Repr

/-- what `store.ReadCustodian(now)` returned: the custodian address and for every node
    (custodian address, payee address) -/
structure Prev where
  custodian : Bytes
  nodes : List (Bytes × Bytes)
deriving DecidableEq, Repr

inductive StoreRead
  | error
  | none
  | found (p : Prev)
deriving DecidableEq, Repr

inductive Outcome
  | accept
  | reject
  | panic
deriving DecidableEq, Repr

/-- the pricing loop: `filter` is the map custodian ↦ payee of the previous nodes still present;
    returns the total and the remaining filter -/
def priceLoop : List Node → List (Bytes × Bytes) → Nat → Nat × List (Bytes × Bytes)
  | [], filter, total => (total, filter)
  | n :: rest, filter, total =>
    let total' :=
      match filter.lookup n.custAddr with
      | none => total + newPrice
      | some old => if old != n.payeeAddr then total + updatePrice else total
    priceLoop rest (filter.filter (fun kv => kv.1 != n.custAddr)) total'

/-- distinct keys of `prev.Nodes` = `len(filter)` -/
def distinctKeys : List (Bytes × Bytes) → Bool
  | [] => true
  | kv :: r => !(r.any (fun x => x.1 == kv.1)) && distinctKeys r

/-- `Transaction.validateCustodianUpdateNodes` -/
def validate (V : Verifier) (xin : Bytes) (tx : Tx) (store : StoreRead) : Outcome :=
  if tx.version < txVersionHashSignature then .reject else
  if tx.asset ≠ xin then .reject else
  match tx.outputs with
  | [out] =>
    if out.type ≠ outputTypeCustodianUpdateNodes then .reject else
    if out.keys ≠ 1 ∨ out.script ≠ scriptFFFE40 then .reject else
    match parseExtra V false tx.extra with
    | none => .reject
    | some curs =>
      if curs.nodes.length < nodesMinimumCount then .reject else
      match store with
      | .error => .reject
      | .none => .reject
      | .found prev =>
        if !V (prev.custodian.take 32) (tx.extra.take (tx.extra.length - 64)) curs.signature then .reject else
        if !distinctKeys prev.nodes then .panic else
        let (total, remaining) := priceLoop curs.nodes prev.nodes 0
        if out.amount < total then .reject else
        if curs.custodian ≠ prev.custodian then .accept else
        if remaining.length ≠ 0 ∨ prev.nodes.length ≠ curs.nodes.length then .reject else .accept
  | _ => .reject

end Mixin.Custodian
