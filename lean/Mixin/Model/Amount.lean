/-
  Model of common/integer.go and common/ration.go (property C33).

  `common.Integer` wraps a non-negative `big.Int` counting 10⁻⁸ units: the model uses `Nat`.
  Every operation returns `Option`: `none` stands for "the Go code panics".
  Strings are `List Char` (ASCII in every case the harness produces).
-/
import Mixin.Facts.Generated
namespace Mixin.Amount

/-- `common.Precision`, regenerated from the source tree on every run -/
def precision : Nat := Mixin.Facts.Gen.common_Precision
def maxInt32 : Int := 2147483647
def minInt32 : Int := -2147483648

/-- value of a list of ASCII digits, most significant first -/
def digitsVal (ds : List Char) : Nat := Nat.ofDigitChars 10 ds 0

/-- `strconv.ParseInt(s, 10, _)` and `big.Int.SetString(s, 10)`: optional sign, then one or
    more ASCII digits (no underscores in base 10). Range checks are done by the caller. -/
def parseSigned (s : List Char) : Option Int :=
  let body (neg : Bool) (ds : List Char) : Option Int :=
    if ds.isEmpty || !ds.all Char.isDigit then none
    else some (if neg then - (digitsVal ds : Int) else (digitsVal ds : Int))
  match s with
  | '-' :: r => body true r
  | '+' :: r => body false r
  | r => body false r

def isE (c : Char) : Bool := c == 'e' || c == 'E'

/-- mantissa text and exponent of `decimal.NewFromString`'s first step -/
def splitExp (s : List Char) : Option (List Char × Int) :=
  let m := s.takeWhile (fun c => !isE c)
  match s.dropWhile (fun c => !isE c) with
  | [] => some (m, 0)
  | _ :: e =>
    match parseSigned e with
    | none => none
    | some x => if x < minInt32 ∨ x > maxInt32 then none else some (m, x)

/-- `NewIntegerFromString`: `none` when the Go code panics (parse error, negative value,
    exponent overflow). -/
def parseDecimal (s : List Char) : Option Nat :=
  match splitExp s with
  | none => none
  | some (mant, exp0) =>
    if mant.count '.' > 1 then none else
    let ip := mant.takeWhile (fun c => c != '.')
    let fp := (mant.dropWhile (fun c => c != '.')).drop 1
    let exp : Int := exp0 - (fp.length : Int)
    match parseSigned (ip ++ fp) with
    | none => none
    | some v =>
      if exp < minInt32 ∨ exp > maxInt32 then none
      else if v < 0 then none
      else
        let e8 : Int := exp + (precision : Int)
        if e8 > maxInt32 then none
        else if e8 ≥ 0 then some (v.toNat * 10 ^ e8.toNat)
        else some (v.toNat / 10 ^ (-e8).toNat)

/-- `Integer.String()` -/
def printAmount (n : Nat) : List Char :=
  let s := Nat.toDigits 10 n
  if s.length > precision then
    s.take (s.length - precision) ++ '.' :: s.drop (s.length - precision)
  else
    '0' :: '.' :: (List.replicate (precision - s.length) '0' ++ s)

/-- `NewInteger(x)` -/
def ofUint (x : Nat) : Nat := x * 10 ^ precision

def add (x y : Nat) : Option Nat := if y = 0 then none else some (x + y)
def sub (x y : Nat) : Option Nat := if y = 0 ∨ x < y then none else some (x - y)
def mul (x : Nat) (k : Int) : Option Nat := if k ≤ 0 then none else some (x * k.toNat)
def div (x : Nat) (k : Int) : Option Nat := if k ≤ 0 then none else some (x / k.toNat)
def count (x y : Nat) : Option Nat :=
  if x = 0 ∨ y = 0 ∨ x < y then none
  else if x / y ≥ 2 ^ 64 then none else some (x / y)
def cmp (x y : Nat) : Int := if x < y then -1 else if x = y then 0 else 1
def sign (x : Nat) : Int := if x = 0 then 0 else 1

structure Ratio where
  x : Nat
  y : Nat
deriving Repr, DecidableEq

def ration (x y : Nat) : Option Ratio := if y = 0 then none else some ⟨x, y⟩
def Ratio.product (r : Ratio) (z : Nat) : Nat := z * r.x / r.y
def Ratio.cmp (r s : Ratio) : Int := Amount.cmp (r.x * s.y) (r.y * s.x)

end Mixin.Amount
