import Mixin.Prelude.Proto
import Mixin.Model.Custodian
/-!
# Model of the custodian history in storage and of the kernel-level validator (core Lean only)

`storage/badger_custodian.go`: the key space `CUSTODIANUPDATE ‖ timestamp ↦ transaction hash`
(key-ordered), `readCustodianAccount` / `ReadCustodian` with the genesis exemption flag of the
first record and the parse cache keyed by (transaction, genesis flag), `writeCustodianNodes` with
its guards; `storage/badger_transaction.go:finalizeTransaction` as far as a custodian update is
concerned (written once per transaction hash, the whole Badger transaction is discarded on a
panic or an error). The lookup side mirrors `Mixin.CustodianLookup` (C11) with the byte-level
parser of `Mixin.Custodian` in place of the parse oracle.

`kernel/custodian.go`: `Node.validateCustodianUpdateNodes` after its leading gates (election,
epoch, hour window — `Mixin.Election.custodianGateSnap`, C29; their verdict is the input `gate`).

Not distinguished: an error return and a nil-pointer panic of `readTransaction` on a missing
transaction are both `none` in the lookup (the writers always store the transaction first).
-/
namespace Mixin.CustodianStore
open Mixin.Proto Mixin.Custodian

structure Entry where
  ts : Nat
  tx : Bytes
deriving DecidableEq, Repr

/-- `cloneCustodianUpdate(cur, hash, ts)` -/
structure Found where
  req : Request
  tx : Bytes
  ts : Nat
deriving DecidableEq, Repr

abbrev Cache := List ((Bytes × Bool) × Request)

structure Store where
  /-- `CUSTODIANUPDATE ‖ ts ↦ hash`, in key order -/
  entries : List Entry
  /-- `writeTransaction`: hash ↦ `Extra` of the stored transaction -/
  txs : List (Bytes × Bytes)
  /-- `graphFinalizationKey(hash)` present -/
  finalized : List Bytes
deriving Repr

def Store.empty : Store := ⟨[], [], []⟩

/-- `parseCustodianUpdateItem`; `cache = none` is the `nil` cache of `writeCustodianNodes` -/
def parseItem (V : Verifier) (txs : List (Bytes × Bytes)) (cache : Option Cache) (e : Entry) (genesis : Bool) :
    Option (Found × Option Cache) :=
  let parse : Option Request :=
    match txs.lookup e.tx with
    | none => none
    | some extra => parseExtra V genesis extra
  match cache with
  | some c =>
    match c.lookup (e.tx, genesis) with
    | some v => some (⟨v, e.tx, e.ts⟩, some c)
    | none =>
      match parse with
      | none => none
      | some cur => some (⟨cur, e.tx, e.ts⟩, some (c ++ [((e.tx, genesis), cur)]))
  | none =>
    match parse with
    | none => none
    | some cur => some (⟨cur, e.tx, e.ts⟩, none)

/-- the iteration of `readCustodianAccount` over the key-ordered records -/
def readLoop (V : Verifier) (txs : List (Bytes × Bytes)) (ts : Nat) :
    List Entry → Bool → Option Found → Option Cache → Option (Option Found × Option Cache)
  | [], _, found, cache => some (found, cache)
  | e :: rest, genesis, found, cache =>
    if e.ts > ts then some (found, cache)
    else match parseItem V txs cache e genesis with
      | none => none
      | some (cur, cache') => readLoop V txs ts rest false (some cur) cache'

/-- `readCustodianAccount(txn, ts, cache)`; outer `none` = error -/
def readCustodian (V : Verifier) (s : Store) (ts : Nat) (cache : Option Cache) :
    Option (Option Found × Option Cache) :=
  readLoop V s.txs ts s.entries true none cache

/-- `txn.Set(graphCustodianUpdateKey(ts), hash)` on the key-ordered records -/
def insertKey (e : Entry) : List Entry → List Entry
  | [] => [e]
  | x :: xs => if e.ts < x.ts then e :: x :: xs else if e.ts = x.ts then e :: xs else x :: insertKey e xs

inductive WriteOutcome
  | written      -- a record was set
  | unchanged    -- `return nil` without a record (same custodian at the same timestamp; already finalized)
  | error        -- error return: the Badger transaction is not committed
  | panic        -- panic: the Badger transaction is discarded
deriving DecidableEq, Repr

/-- `len(now.Nodes) > 50` -/
def maxStoredNodes : Nat := 50

/-- `writeCustodianNodes(txn, snapTime, utxo, extra, genesis)`; returns the new records -/
def writeCustodianNodes (V : Verifier) (s : Store) (snapTime : Nat) (hash extra : Bytes) (genesis : Bool) :
    WriteOutcome × List Entry :=
  match parseExtra V genesis extra with
  | none => (.panic, s.entries)
  | some now =>
    if now.nodes.length > maxStoredNodes then (.panic, s.entries) else
    match readCustodian V s snapTime none with
    | none => (.error, s.entries)
    | some (none, _) => (.written, insertKey ⟨snapTime, hash⟩ s.entries)
    | some (some prev, _) =>
      if prev.ts > snapTime then (.panic, s.entries)
      else if prev.ts = snapTime then
        if now.custodian = prev.req.custodian then (.unchanged, s.entries) else (.panic, s.entries)
      else (.written, insertKey ⟨snapTime, hash⟩ s.entries)

/-- one Badger write transaction: `writeTransaction(ver)` then `finalizeTransaction(ver, snap)` of a
    transaction whose only unspent output is the custodian update output -/
def finalize (V : Verifier) (s : Store) (hash extra : Bytes) (genesis : Bool) (ts : Nat) : WriteOutcome × Store :=
  let s1 : Store := { s with txs := (hash, extra) :: s.txs }
  if s.finalized.contains hash then (.unchanged, s1)
  else
    let s2 : Store := { s1 with finalized := hash :: s1.finalized }
    match writeCustodianNodes V s2 ts hash extra genesis with
    | (.written, es) => (.written, { s2 with entries := es })
    | (.unchanged, _) => (.unchanged, s2)
    | (.error, _) => (.error, s)
    | (.panic, _) => (.panic, s)

/-! ## kernel/custodian.go -/

/-- what `ReadAllNodes(timestamp, false)` contributes: node id for the network, signer spend key,
    payee address (64 bytes) -/
structure KNode where
  id : Bytes
  signer : Bytes
  payee : Bytes
deriving DecidableEq, Repr

/-- `filter[n.IdForNetwork(networkId)] = n` over all nodes: the last one wins -/
def nodeFilter (all : List KNode) (id : Bytes) : Option KNode :=
  (all.reverse.find? (fun n => n.id == id))

/-- the loop over `curs.Nodes` -/
def checkNodes (V : Verifier) (all : List KNode) : List Node → Bool
  | [] => true
  | n :: rest =>
    match nodeFilter all n.nodeId with
    | none => false
    | some cn =>
      if cn.payee != n.payeeAddr then false
      else if !V cn.signer n.signed n.signerSig then false
      else checkNodes V all rest

/-- `Node.validateCustodianUpdateNodes(s, tx, finalized)`. `gate` = the election / epoch / hour gates
    passed; `timestamp` = the time the snapshot is validated at; `store` = `ReadCustodian(timestamp)`.
    A missing custodian is a nil dereference. -/
def kernelValidate (V : Verifier) (gate finalized : Bool) (timestamp graphTs threshold : Nat)
    (extra : Bytes) (store : StoreRead) (all : List KNode) : Outcome :=
  if !gate then .reject else
  if !finalized ∧ timestamp + threshold * 2 < graphTs then .reject else
  match parseExtra V false extra with
  | none => .reject
  | some curs =>
    if curs.nodes.length < 7 then .reject else
    match store with
    | .error => .reject
    | .none => .panic
    | .found prev =>
      if !V (prev.custodian.take 32) (extra.take (extra.length - 64)) curs.signature then .reject
      else if checkNodes V all curs.nodes then .accept else .reject

/-- the `Prev` that `validateCustodianUpdateNodes` (common) and the kernel validator see for a
    lookup result -/
def prevOf (f : Found) : Prev :=
  { custodian := f.req.custodian, nodes := f.req.nodes.map (fun n => (n.custAddr, n.payeeAddr)) }

def storeReadOf : Option (Option Found × Option Cache) → StoreRead
  | none => .error
  | some (none, _) => .none
  | some (some f, _) => .found (prevOf f)

end Mixin.CustodianStore
