/-
  Model of storage/badger_cache.go (property C23): the transaction cache of a node.

  Three key spaces of the cache database, with their real key structure:

    CACHETRANSACTIONQUEUE   ‖ ts(8, big endian) ‖ hash   ↦ ""      `queue`   (iterated in key order)
    CACHETRANSACTIONORDER   ‖ hash                       ↦ ""      `order`   (de-duplication index)
    CACHETRANSACTIONPAYLOAD ‖ hash                       ↦ body    `payload`

  * A hash is a `Nat` (the harness numbers its transactions in the byte order of their payload
    hashes, so `<` on `Nat` is the Badger key order of equal-timestamp keys).
  * A body is a `Nat` naming one *signed variant* of the payload: differently signed bodies of one
    payload share the hash key.
  * `ts` is the reading of `time.Now().UnixNano()` taken by `cacheQueueTransaction`; it is an
    argument of the op (the harness supplies the value the real code used), so nothing is assumed
    about the clock: equal and decreasing readings are covered.
  * Every storage method is one Badger transaction = one atomic step. A conflicting
    transaction (ErrConflict) commits nothing: it is a no-op and is not modelled as a step.
  * TTL expiry of entries (CacheTTL, two hours by default) is outside the model.
-/
namespace Mixin.CacheQueue

abbrev Hash := Nat
abbrev Body := Nat
abbrev QKey := Nat × Hash

structure S where
  queue : List QKey
  order : List Hash
  payload : List (Hash × Body)
  deriving Repr, DecidableEq

def empty : S := { queue := [], order := [], payload := [] }

/-- byte order of `ts ‖ hash` keys -/
def keyLt (a b : QKey) : Prop := a.1 < b.1 ∨ (a.1 = b.1 ∧ a.2 < b.2)

instance (a b : QKey) : Decidable (keyLt a b) := by unfold keyLt; exact inferInstance

/-- `txn.SetEntry(queueKey)`: sorted insert, an equal key is overwritten (value is empty) -/
def insertKey (k : QKey) : List QKey → List QKey
  | [] => [k]
  | x :: xs => if keyLt k x then k :: x :: xs else if k = x then x :: xs else x :: insertKey k xs

def lookup (h : Hash) : List (Hash × Body) → Option Body
  | [] => none
  | (k, v) :: r => if k = h then some v else lookup h r

def erase (h : Hash) (m : List (Hash × Body)) : List (Hash × Body) := m.filter (fun e => e.1 ≠ h)

def put (h : Hash) (v : Body) (m : List (Hash × Body)) : List (Hash × Body) := (h, v) :: erase h m

/-- `cacheStoreTransaction`: body written only when no body is stored under the hash. -/
def store (s : S) (h : Hash) (v : Body) : S :=
  match lookup h s.payload with
  | some _ => s
  | none => { s with payload := put h v s.payload }

/-- `cacheQueueTransaction`: nothing at all when the order key exists; otherwise order key,
    body (overwriting a stored one) and a new queue key `ts ‖ hash`. -/
def enqueue (s : S) (h : Hash) (v : Body) (ts : Nat) : S :=
  if h ∈ s.order then s
  else { queue := insertKey (ts, h) s.queue, order := h :: s.order, payload := put h v s.payload }

/-- The iteration of `CacheRetrieveTransactions` over the queue keys in key order.
    `room` = `limit - len(txs)`, `seen` = `filter`. Returns the number of queue keys put on the
    `processed` list (always a prefix of the queue) and the bodies appended to `txs`. -/
def scan (pl : List (Hash × Body)) (room : Nat) (seen : List Hash) : List QKey → Nat × List (Hash × Body)
  | [] => (0, [])
  | k :: rest =>
    match room with
    | 0 => (0, [])
    | r + 1 =>
      if k.2 ∈ seen then
        let x := scan pl (r + 1) seen rest
        (x.1 + 1, x.2)
      else
        match lookup k.2 pl with
        | some v =>
          let x := scan pl r (k.2 :: seen) rest
          (x.1 + 1, (k.2, v) :: x.2)
        | none =>
          let x := scan pl (r + 1) (k.2 :: seen) rest
          (x.1 + 1, x.2)

/-- `CacheRetrieveTransactions(limit)`: every processed queue key and the order key of its hash
    are deleted; bodies stay. -/
def retrieve (s : S) (limit : Nat) : S × List (Hash × Body) :=
  let x := scan s.payload limit [] s.queue
  let processed := s.queue.take x.1
  ({ queue := s.queue.filter (fun k => k ∉ processed),
     order := s.order.filter (fun h => h ∉ processed.map (·.2)),
     payload := s.payload }, x.2)

/-- `CacheRemoveTransactions`: body and order key deleted, queue keys stay. (The Go code works in
    batches of 101 hashes, one transaction each; the batches are consecutive steps with the same
    total effect.) -/
def remove (s : S) (hs : List Hash) : S :=
  { queue := s.queue,
    order := s.order.filter (fun h => h ∉ hs),
    payload := s.payload.filter (fun e => e.1 ∉ hs) }

inductive Op where
  | store (h : Hash) (v : Body)
  | queue (h : Hash) (v : Body) (ts : Nat)
  | retrieve (limit : Nat)
  | remove (hs : List Hash)
  | get (h : Hash)
  deriving Repr, DecidableEq

inductive Out where
  | unit
  | txs (l : List (Hash × Body))
  | body (b : Option Body)
  deriving Repr, DecidableEq

def step (s : S) : Op → S × Out
  | .store h v => (store s h v, .unit)
  | .queue h v ts => (enqueue s h v ts, .unit)
  | .retrieve limit => let r := retrieve s limit; (r.1, .txs r.2)
  | .remove hs => (remove s hs, .unit)
  | .get h => (s, .body (lookup h s.payload))

/-- state after a history -/
def final (s : S) : List Op → S
  | [] => s
  | op :: ops => final (step s op).1 ops

/-- outputs of a history -/
def outs (s : S) : List Op → List Out
  | [] => []
  | op :: ops => (step s op).2 :: outs (step s op).1 ops

/-! ## specification-level counters -/

/-- number of unconsumed queueings of `h`: queue keys carrying `h` -/
def cnt (h : Hash) : List QKey → Nat
  | [] => 0
  | k :: r => (if k.2 = h then 1 else 0) + cnt h r

/-- occurrences of `h` in a retrieval result -/
def occ (h : Hash) : List (Hash × Body) → Nat
  | [] => 0
  | e :: r => (if e.1 = h then 1 else 0) + occ h r

def retOcc (h : Hash) : Out → Nat
  | .txs l => occ h l
  | _ => 0

/-- 1 when `op` is a queueing of `h` that takes effect in `s` (its order key is absent) -/
def effQ (h : Hash) (s : S) : Op → Nat
  | .queue h' _ _ => if h' = h ∧ h ∉ s.order then 1 else 0
  | _ => 0

/-- over a history from `s`: how often `h` was returned by retrievals, how many queueings of `h`
    took effect -/
def tally (h : Hash) : S → List Op → Nat × Nat
  | _, [] => (0, 0)
  | s, op :: ops =>
    let t := tally h (step s op).1 ops
    (retOcc h (step s op).2 + t.1, effQ h s op + t.2)

end Mixin.CacheQueue
