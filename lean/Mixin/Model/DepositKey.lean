/-!
# The text hashed by `DepositData.UniqueKey` (C03)

`fmt.Sprintf("%s:%s:%d", d.Chain, d.Transaction, d.Index)`: the chain id prints as 64 hex
characters (`crypto.Hash.String`), the external transaction id is an arbitrary string, the
index a decimal `uint64`.  The key itself is `Sha256(text).ForNetwork(chain)`; the hashes are
opaque (collision resistance is an assumption, not a theorem).
-/
namespace Mixin.DepositKey

def text (chain : List Char) (tx : List Char) (index : Nat) : List Char :=
  chain ++ ':' :: (tx ++ ':' :: Nat.toDigits 10 index)

end Mixin.DepositKey
