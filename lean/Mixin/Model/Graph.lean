/-
  Model of the round graph transitions of a chain — property C20.

    storage/badger_round.go  StartNewRound (with its config.Debug asserts, Debug is the constant
                             `true`), startNewRound, UpdateEmptyHeadRound, readRound/writeRound,
                             readLink/writeLink
    kernel/graph.go          startNewRoundAndPersist, validateNewRound (incl. the dummy-external
                             branch of the finalized path), updateEmptyHeadRoundAndPersist,
                             updateExternal

  Durable state: the ROUND records (`graphRoundKey(hash)`; the live "head" round of a node is
  stored under the node id with `Hash = NodeId`, every closed ("final") round under its round
  hash) and the LINK records (`graphLinkKey(from,to)`, a missing link reads as 0).  Both are
  total functions here (core Lean, executable); a Badger transaction is one function
  `Store → Option Store`, `none` = the Go code panics (the transaction is discarded).

  In-memory state of a chain: final round, cache round (number, references, and — instead of the
  snapshot list — what `asFinal()` returns for it: `closing = none` for an empty round, else the
  round hash and start computed by `ComputeRoundHash`, supplied by the harness from the real
  code: property C18/C19 territory), and `RoundLinks`.

  Not modelled: `RoundHistory`/`assignNewGraphRound`'s bookkeeping panics (unreachable: they
  compare numbers that the callers construct), Badger I/O errors, and the strict-mode checks of
  `updateExternal` (`checkReferenceSanity`, `determineBestRound` "too early"), which enter as
  one oracle boolean answered by the real code.  One call is one atomic step (the callers hold
  the chain's CoSi loop; the store call is one Badger transaction).
-/
namespace Mixin.Graph

structure Refs where
  self : Nat
  ext : Nat
  deriving DecidableEq, Repr

/-- `common.Round` as stored -/
structure RoundRec where
  hash : Nat
  node : Nat
  number : Nat
  ts : Nat
  refs : Option Refs
  deriving DecidableEq, Repr

structure Store where
  rounds : Nat → Option RoundRec
  links : Nat → Nat → Nat

def writeRound (s : Store) (k : Nat) (r : RoundRec) : Store :=
  { s with rounds := fun x => if x = k then some r else s.rounds x }

def writeLink (s : Store) (a b n : Nat) : Store :=
  { s with links := fun x y => if x = a ∧ y = b then n else s.links x y }

/-- `readRound` panics on a stored record whose hash is zero -/
def badRec (s : Store) (k : Nat) : Bool :=
  match s.rounds k with
  | some r => r.hash == 0
  | none => false

def headRec (node number : Nat) (refs : Refs) : RoundRec :=
  { hash := node, node := node, number := number, ts := 0, refs := some refs }

/-- `BadgerStore.StartNewRound` (asserts + `startNewRound`); `none` = panic -/
def storeStartNewRound (s : Store) (node number : Nat) (refs : Refs) (finalStart : Nat) :
    Option Store :=
  if number = 0 then some (writeRound s node (headRec node number refs))
  else if badRec s node || badRec s refs.ext || badRec s refs.self then none
  else
    match s.rounds node, s.rounds refs.ext with
    | some self, some external =>
      if self.number + 1 ≠ number ∨ external.node = self.node ∨ (s.rounds refs.self).isSome ∨
          s.links node external.node > external.number then none
      else
        let s1 := writeLink s node external.node external.number
        let s2 := writeRound s1 refs.self { self with ts := finalStart, hash := refs.self }
        some (writeRound s2 node (headRec node number refs))
    | _, _ => none

/-- `BadgerStore.UpdateEmptyHeadRound`; `none` = panic (asserts and nil dereferences).
    The "round not empty" assert reads the snapshot index, which these transitions never write:
    the kernel caller has already checked `len(cache.Snapshots) == 0`. -/
def storeUpdateEmptyHead (s : Store) (node number : Nat) (refs : Refs) : Option Store :=
  if badRec s node || badRec s refs.ext then none
  else
    match s.rounds node, s.rounds refs.ext with
    | some self, some external =>
      match self.refs with
      | none => none
      | some sr =>
        if self.number ≠ number ∨ sr.self ≠ refs.self ∨ external.node = self.node then none
        else some (writeRound (writeLink s node external.node external.number) node
                    (headRec node number refs))
    | _, _ => none

/-! ## kernel level -/

structure Chain where
  finalNumber : Nat
  finalHash : Nat
  finalStart : Nat
  cacheNumber : Nat
  cacheRefs : Refs
  /-- `asFinal()` of the cache round: `none` = no snapshots, else (round hash, start) -/
  closing : Option (Nat × Nat)
  links : Nat → Nat

structure World where
  store : Store
  chains : Nat → Chain

inductive Fail where
  | panic
  | err
  deriving DecidableEq, Repr

def setChain (w : World) (cid : Nat) (c : Chain) (s : Store) : World :=
  { store := s, chains := fun x => if x = cid then c else w.chains x }

/-- `Chain.updateExternal`; `oracle` answers the strict-mode sanity checks -/
def updateExternal (s : Store) (cid : Nat) (ch : Chain) (external : RoundRec)
    (strict oracle : Bool) : Except Fail Chain :=
  if cid = external.node then .error .err
  else if external.number < ch.links external.node then .error .err
  else if s.links cid external.node ≠ ch.links external.node then .error .panic
  else if strict ∧ ¬ oracle then .error .err
  else .ok { ch with links := fun x => if x = external.node then external.number else ch.links x }

/-- the references the new cache round stores: in the dummy branch the previous external -/
def dummyRefs (ch : Chain) (refs : Refs) (dummy : Bool) : Refs :=
  if dummy then { self := refs.self, ext := ch.cacheRefs.ext } else refs

/-- `assignNewGraphRound(final, cache)` after a round start: `ch'` carries the updated links -/
def advance (ch ch' : Chain) (nrefs : Refs) (fh fstart : Nat) : Chain :=
  { finalNumber := ch.cacheNumber, finalHash := fh, finalStart := fstart,
    cacheNumber := ch.cacheNumber + 1, cacheRefs := nrefs, closing := none, links := ch'.links }

/-- the persist half of `startNewRoundAndPersist` -/
def persistNewRound (w : World) (cid : Nat) (ch ch' : Chain) (refs : Refs) (fh fstart : Nat)
    (dummy : Bool) : Except Fail (World × Bool) :=
  match storeStartNewRound w.store cid (ch.cacheNumber + 1) (dummyRefs ch refs dummy) fstart with
  | none => .error .panic
  | some s' => .ok (setChain w cid (advance ch ch' (dummyRefs ch refs dummy) fh fstart) s', dummy)

/-- `Chain.startNewRoundAndPersist` = `validateNewRound` + `StartNewRound` + assignment;
    the boolean of a success is the `dummy` flag -/
def startNewRound (w : World) (cid : Nat) (refs : Refs) (finalized oracle : Bool) :
    Except Fail (World × Bool) :=
  let ch := w.chains cid
  match ch.closing with
  | none => .error .err
  | some (fh, fstart) =>
    if refs.self ≠ fh then .error .err
    else if badRec w.store refs.ext then .error .panic
    else
      match w.store.rounds refs.ext with
      | none => if finalized then persistNewRound w cid ch ch refs fh fstart true else .error .err
      | some external =>
        if external.hash ≠ refs.ext then .error .panic
        else
          match updateExternal w.store cid ch external (!finalized) oracle with
          | .error e => .error e
          | .ok ch' => persistNewRound w cid ch ch' refs fh fstart false

/-- `Chain.updateEmptyHeadRoundAndPersist` -/
def updateEmptyHead (w : World) (cid : Nat) (refs : Refs) (strict oracle : Bool) :
    Except Fail World :=
  let ch := w.chains cid
  if ch.closing.isSome then .error .err
  else if refs.self ≠ ch.cacheRefs.self then .error .err
  else if badRec w.store refs.ext then .error .panic
  else
    match w.store.rounds refs.ext with
    | none => .error .err
    | some external =>
      if external.hash ≠ refs.ext then .error .panic
      else
        match updateExternal w.store cid ch external strict oracle with
        | .error e => .error e
        | .ok ch' =>
          match storeUpdateEmptyHead w.store cid ch.cacheNumber refs with
          | none => .error .panic
          | some s' => .ok (setChain w cid { ch' with cacheRefs := refs } s')

/-- snapshots were added to the cache round of `cid`; `asFinal()` now returns `(h, start)` -/
def addSnapshots (w : World) (cid h start : Nat) : World :=
  setChain w cid { w.chains cid with closing := some (h, start) } w.store

/-! ## histories -/

inductive Op where
  | snap (cid h start : Nat)
  | start (cid : Nat) (refs : Refs) (finalized oracle : Bool)
  | empty (cid : Nat) (refs : Refs) (strict oracle : Bool)
  deriving Repr

def Op.cid : Op → Nat
  | .snap c _ _ => c
  | .start c _ _ _ => c
  | .empty c _ _ _ => c

/-- the external reference an op presents (none for `snap`) -/
def Op.ext : Op → Option Nat
  | .snap _ _ _ => none
  | .start _ r _ _ => some r.ext
  | .empty _ r _ _ => some r.ext

/-- one step of a history: a rejected transition (and, for the purpose of histories, a panicking
    one — the process dies) leaves the world as it was -/
def apply (w : World) : Op → World
  | .snap c h st => addSnapshots w c h st
  | .start c r f o =>
    match startNewRound w c r f o with
    | .ok (w', _) => w'
    | .error _ => w
  | .empty c r st o =>
    match updateEmptyHead w c r st o with
    | .ok w' => w'
    | .error _ => w

def applyAll (w : World) (ops : List Op) : World := ops.foldl apply w

end Mixin.Graph
