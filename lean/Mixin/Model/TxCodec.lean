import Mixin.Prelude.Bytes
/-!
# Model of the transaction codec (C06)

Sources modelled, statement by statement where a decision is made:

* `common/encoding.go`  `Encoder.EncodeTransaction / EncodeInput / EncodeOutput /
  EncodeSignatures / EncodeAggregatedSignature / WriteInt / WriteInteger`, `validateAggregatedSigners`
* `common/decoding.go`  `Decoder.DecodeTransaction / ReadInput / ReadOutput / ReadSignatures /
  ReadAggregatedSignature / Read / ReadBytes / ReadInteger / ReadMagic`
* `common/version.go`   `unmarshalVersionedTransaction` (size gate, decode, canonical re-encoding
  comparison), `payloadMarshal` (encoding with the authorization data stripped),
  `Marshal` / `PayloadMarshal` (encode, then — `config.Debug` is the constant `true` — unmarshal
  the result and panic when that fails).

Representation choices (see also `rep` below):
* fixed-size arrays (`crypto.Hash`, `crypto.Key`, `crypto.Signature`) are `Bytes` with a length
  invariant; `uint64`/`uint16` fields are `Nat` with a range invariant; `common.Integer` is a
  `Nat` (non-negative `big.Int`); Go `string`s are their bytes.
* a Go `map[uint16]*crypto.Signature` is the list of its entries in strictly increasing key
  order (the extensional content of the map); `EncodeSignatures` sorts the entries by key, which
  on this representation is the identity; `ReadSignatures` inserts entry by entry (`sigInsert`,
  a later duplicate overwrites) and then compares `len(sm)` with the announced count.
* `nil` and empty slices are identified (the encoder does not distinguish them either).
* encoder panics: `encodeTx` is total and `guards` is the conjunction of the encoder's panic
  guards; `encodeChecked` combines them.  The correspondence stream `enc` ties both to the code.
-/
namespace Mixin.TxCodec
open Mixin.Bytes

/-! ## constants (pinned to the source by `Mixin/Facts/ExpectedC06.lean`) -/

def txVersion : UInt8 := 5                  -- common.TxVersionHashSignature
def sliceCountLimit : Nat := 256            -- common.SliceCountLimit
def inputIndexLimit : Nat := 1024           -- common.InputIndexLimit
def extraCapacity : Nat := 4194304          -- common.ExtraSizeStorageCapacity
def maxEncodingInt : Nat := 65535           -- common.MaximumEncodingInt
def aggPrefix : Nat := 65281                -- common.AggregatedSignaturePrefix 0xFF01
def txMaxSize : Nat := 4194304              -- config.TransactionMaximumSize
def magic : Bytes := [0x77, 0x77]
def null : Bytes := [0x00, 0x00]

/-! ## structures (common/transaction.go, deposit.go, mint.go, withdrawal.go, encoding.go) -/

structure Deposit where
  chain : Bytes
  assetKey : Bytes
  transaction : Bytes
  index : Nat
  amount : Nat
  deriving DecidableEq, Repr

structure Mint where
  group : Bytes
  batch : Nat
  amount : Nat
  deriving DecidableEq, Repr

structure Input where
  hash : Bytes
  index : Nat
  genesis : Bytes
  deposit : Option Deposit
  mint : Option Mint
  deriving DecidableEq, Repr

structure Withdrawal where
  address : Bytes
  tag : Bytes
  deriving DecidableEq, Repr

structure Output where
  type : UInt8
  amount : Nat
  keys : List Bytes
  mask : Bytes
  script : Bytes
  withdrawal : Option Withdrawal
  deriving DecidableEq, Repr

/-- entries of a `map[uint16]*crypto.Signature` in strictly increasing key order -/
abbrev SigMap := List (Nat × Bytes)

structure AggSig where
  signers : List Nat
  sig : Bytes
  deriving DecidableEq, Repr

/-- `common.Transaction` (the payload: everything `PayloadHash` commits to) -/
structure Payload where
  version : UInt8
  asset : Bytes
  inputs : List Input
  outputs : List Output
  references : List Bytes
  extra : Bytes
  deriving DecidableEq, Repr

/-- `common.SignedTransaction` = payload + authorization data -/
structure Tx extends Payload where
  agg : Option AggSig
  sigs : List SigMap
  deriving DecidableEq, Repr

/-! ## encoder -/

def encDeposit (d : Deposit) : Bytes :=
  magic ++ d.chain ++ writeBytes d.assetKey ++ writeBytes d.transaction ++
    writeU64 d.index ++ writeInteger d.amount

def encMint (m : Mint) : Bytes :=
  magic ++ writeBytes m.group ++ writeU64 m.batch ++ writeInteger m.amount

def encOptDeposit : Option Deposit → Bytes
  | none => null
  | some d => encDeposit d

def encOptMint : Option Mint → Bytes
  | none => null
  | some m => encMint m

/-- `Encoder.EncodeInput` -/
def encInput (i : Input) : Bytes :=
  i.hash ++ writeU16 i.index ++ writeBytes i.genesis ++ encOptDeposit i.deposit ++ encOptMint i.mint

def encOptWithdrawal : Option Withdrawal → Bytes
  | none => null
  | some w => magic ++ writeBytes w.address ++ writeBytes w.tag

/-- `Encoder.EncodeOutput` -/
def encOutput (o : Output) : Bytes :=
  [0x00, o.type] ++ writeInteger o.amount ++ writeU16 o.keys.length ++ o.keys.flatten ++
    o.mask ++ writeBytes o.script ++ encOptWithdrawal o.withdrawal

def encSigEntry (e : Nat × Bytes) : Bytes := writeU16 e.1 ++ e.2

/-- `Encoder.EncodeSignatures` (entries already in key order, see the header) -/
def encSigs (m : SigMap) : Bytes := writeU16 m.length ++ m.flatMap encSigEntry

/-- `masks[m/8] = masks[m/8] ^ (1 << (m % 8))` -/
def xorBit (masks : Bytes) (m : Nat) : Bytes :=
  masks.modify (m / 8) (fun b => b ^^^ ((1 : UInt8) <<< UInt8.ofNat (m % 8)))

/-- the ordinary mask: `make([]byte, n)` then one xor per signer -/
def maskBytes (signers : List Nat) (n : Nat) : Bytes :=
  signers.foldl xorBit (List.replicate n 0)

/-- `validateAggregatedSigners`: at most 65535 signers, strictly increasing from -1, each ≤ 65535 -/
def validSignersFrom : Option Nat → List Nat → Bool
  | _, [] => true
  | prev, s :: r =>
    (match prev with | none => true | some p => p < s) && s ≤ maxEncodingInt && validSignersFrom (some s) r

def validSigners (signers : List Nat) : Bool :=
  signers.length ≤ maxEncodingInt && validSignersFrom none signers

def lastOr0 : List Nat → Nat
  | [] => 0
  | [x] => x
  | _ :: r => lastOr0 r

/-- the mask kind `EncodeAggregatedSignature` chooses -/
def useSparse (signers : List Nat) : Bool :=
  lastOr0 signers / 8 + 1 > signers.length * 2

/-- the mask part of `EncodeAggregatedSignature`: kind byte, then the ordinary mask
    (`WriteInt(len(masks)); Write(masks)`) or the sparse list (`WriteInt(len); WriteInt(m)…`) -/
def encMask (signers : List Nat) : Bytes :=
  if signers.isEmpty then [0x00] ++ writeU16 0
  else if useSparse signers then
    [0x01] ++ writeU16 signers.length ++ signers.flatMap writeU16
  else
    [0x00] ++ writeU16 (lastOr0 signers / 8 + 1) ++ maskBytes signers (lastOr0 signers / 8 + 1)

/-- `Encoder.EncodeAggregatedSignature` -/
def encAgg (a : AggSig) : Bytes :=
  writeU16 maxEncodingInt ++ writeU16 aggPrefix ++ a.sig ++ encMask a.signers

def encAuth (agg : Option AggSig) (sigs : List SigMap) : Bytes :=
  match agg with
  | some a => encAgg a
  | none => writeU16 sigs.length ++ sigs.flatMap encSigs

def encPayload (p : Payload) : Bytes :=
  magic ++ [0x00, p.version] ++ p.asset ++
    writeU16 p.inputs.length ++ p.inputs.flatMap encInput ++
    writeU16 p.outputs.length ++ p.outputs.flatMap encOutput ++
    writeU16 p.references.length ++ p.references.flatten ++
    writeU32 p.extra.length ++ p.extra

/-- `Encoder.EncodeTransaction` (bytes written when no guard panics) -/
def encodeTx (tx : Tx) : Bytes :=
  encPayload tx.toPayload ++ encAuth tx.agg tx.sigs

/-- `payloadMarshal`: `EncodeTransaction(&SignedTransaction{Transaction: ver.Transaction})` -/
def payloadBytes (tx : Tx) : Bytes :=
  encodeTx { tx with agg := none, sigs := [] }

/-! ### the encoder's panic guards -/

def guardsDeposit (d : Deposit) : Bool :=
  d.assetKey.length ≤ maxEncodingInt && d.transaction.length ≤ maxEncodingInt &&
    byteLen d.amount ≤ maxEncodingInt

def guardsMint (m : Mint) : Bool :=
  m.group.length ≤ maxEncodingInt && byteLen m.amount ≤ maxEncodingInt

def guardsInput (i : Input) : Bool :=
  i.index ≤ inputIndexLimit && i.genesis.length ≤ maxEncodingInt &&
    i.deposit.all guardsDeposit &&
    i.mint.all guardsMint

def guardsWithdrawal (w : Withdrawal) : Bool :=
  w.address.length ≤ maxEncodingInt && w.tag.length ≤ maxEncodingInt

def guardsOutput (o : Output) : Bool :=
  byteLen o.amount ≤ maxEncodingInt && o.keys.length ≤ maxEncodingInt &&
    o.script.length ≤ maxEncodingInt &&
    o.withdrawal.all guardsWithdrawal

def guardsAgg (a : AggSig) : Bool :=
  a.signers.isEmpty || validSigners a.signers

def guardsAuth (agg : Option AggSig) (sigs : List SigMap) : Bool :=
  match agg with
  | some a => guardsAgg a
  | none => sigs.length < maxEncodingInt && sigs.all (fun m => m.length ≤ maxEncodingInt)

def guardsBody (p : Payload) : Bool :=
  p.inputs.length ≤ sliceCountLimit && p.inputs.all guardsInput &&
    p.outputs.length ≤ sliceCountLimit && p.outputs.all guardsOutput &&
    p.references.length ≤ maxEncodingInt &&
    p.extra.length ≤ extraCapacity

/-- `marshalWithCapacity` switches on `Version == 5` (anything else panics) -/
def guardsPayload (p : Payload) : Bool :=
  p.version == txVersion && guardsBody p

/-- no panic in `marshalWithCapacity` -/
def guards (tx : Tx) : Bool :=
  guardsPayload tx.toPayload && guardsAuth tx.agg tx.sigs

/-- no panic in a direct `Encoder.EncodeTransaction` call, which only requires
    `Version >= TxVersionHashSignature` -/
def guardsEncoder (tx : Tx) : Bool :=
  tx.version ≥ txVersion && guardsBody tx.toPayload && guardsAuth tx.agg tx.sigs

def encoderChecked (tx : Tx) : Option Bytes :=
  if guardsEncoder tx then some (encodeTx tx) else none

def encodeChecked (tx : Tx) : Option Bytes :=
  if guards tx then some (encodeTx tx) else none

/-! ### representation invariants (what the Go types enforce by construction) -/

def sortedKeysFrom : Option Nat → SigMap → Bool
  | _, [] => true
  | prev, (k, _) :: r =>
    (match prev with | none => true | some p => p < k) && sortedKeysFrom (some k) r

def repSigMap (m : SigMap) : Bool :=
  sortedKeysFrom none m && m.all (fun e => e.1 < 65536 && e.2.length == 64)

def repDeposit (d : Deposit) : Bool := d.chain.length == 32 && d.index < 18446744073709551616
def repMint (m : Mint) : Bool := m.batch < 18446744073709551616

def repInput (i : Input) : Bool :=
  i.hash.length == 32 &&
    i.deposit.all repDeposit &&
    i.mint.all repMint

def repOutput (o : Output) : Bool :=
  o.keys.all (fun k => k.length == 32) && o.mask.length == 32

def repAuth (agg : Option AggSig) (sigs : List SigMap) : Bool :=
  agg.all (fun a => a.sig.length == 64) && sigs.all repSigMap

def repPayload (p : Payload) : Bool :=
  p.asset.length == 32 && p.inputs.all repInput && p.outputs.all repOutput &&
    p.references.all (fun r => r.length == 32)

def rep (tx : Tx) : Bool := repPayload tx.toPayload && repAuth tx.agg tx.sigs

/-- well-formed value: representable in the Go types and the encoder does not panic on it -/
def WF (tx : Tx) : Prop := rep tx = true ∧ guards tx = true

instance (tx : Tx) : Decidable (WF tx) := by unfold WF; exact inferInstance

/-- The decoder's own limits, i.e. what separates "the encoder does not panic" from "the
    decoder accepts the encoder's output": at most `SliceCountLimit` references, keys per
    output and signature maps; not both kinds of authorization data (the encoder drops the
    maps when an aggregate is present); total size within `TransactionMaximumSize`.
    (Minimal-length integers, sorted map entries and the mask kind are canonical by
    construction of the representation / of `encMask`.) -/
def canon (tx : Tx) : Bool :=
  tx.references.length ≤ sliceCountLimit &&
    tx.outputs.all (fun o => o.keys.length ≤ sliceCountLimit) &&
    tx.sigs.length ≤ sliceCountLimit &&
    (tx.agg.isNone || tx.sigs.isEmpty)

def Canon (tx : Tx) : Prop := canon tx = true ∧ (encodeTx tx).length ≤ txMaxSize

instance (tx : Tx) : Decidable (Canon tx) := by unfold Canon; exact inferInstance

/-! ## decoder -/

/-- `Decoder.ReadMagic` -/
def readMagic (s : Bytes) : Option (Bool × Bytes) :=
  match readN 2 s with
  | none => none
  | some (b, s) => if b = magic then some (true, s) else if b = null then some (false, s) else none

/-- generic `for i := range n { x, err := f(); … }` -/
def readMany {α : Type} (f : Bytes → Option (α × Bytes)) : Nat → Bytes → Option (List α × Bytes)
  | 0, s => some ([], s)
  | n + 1, s =>
    match f s with
    | none => none
    | some (x, s) =>
      match readMany f n s with
      | none => none
      | some (xs, s) => some (x :: xs, s)

def readDeposit (s : Bytes) : Option (Deposit × Bytes) := do
  let (chain, s) ← readN 32 s
  let (ak, s) ← readBytes s
  let (th, s) ← readBytes s
  let (oi, s) ← readU64 s
  let (amt, s) ← readInteger s
  some ({ chain := chain, assetKey := ak, transaction := th, index := oi, amount := amt }, s)

def readMint (s : Bytes) : Option (Mint × Bytes) := do
  let (gb, s) ← readBytes s
  let (bi, s) ← readU64 s
  let (amt, s) ← readInteger s
  some ({ group := gb, batch := bi, amount := amt }, s)

def readOptDeposit (s : Bytes) : Option (Option Deposit × Bytes) := do
  let (hd, s) ← readMagic s
  if hd then
    let (d, s) ← readDeposit s
    some (some d, s)
  else some (none, s)

def readOptMint (s : Bytes) : Option (Option Mint × Bytes) := do
  let (hm, s) ← readMagic s
  if hm then
    let (m, s) ← readMint s
    some (some m, s)
  else some (none, s)

/-- `Decoder.ReadInput` -/
def readInput (s : Bytes) : Option (Input × Bytes) := do
  let (hash, s) ← readN 32 s
  let (ii, s) ← readU16 s
  if ii > inputIndexLimit then none else
  let (gb, s) ← readBytes s
  let (d, s) ← readOptDeposit s
  let (m, s) ← readOptMint s
  some ({ hash := hash, index := ii, genesis := gb, deposit := d, mint := m }, s)

def readOptWithdrawal (s : Bytes) : Option (Option Withdrawal × Bytes) := do
  let (hw, s) ← readMagic s
  if hw then
    let (ab, s) ← readBytes s
    let (tb, s) ← readBytes s
    some (some { address := ab, tag := tb }, s)
  else some (none, s)

/-- the two type bytes of an output: the first must be zero -/
def readOutputType (s : Bytes) : Option (UInt8 × Bytes) :=
  match readN 2 s with
  | some ([t0, t1], s) => if t0 ≠ 0 then none else some (t1, s)
  | _ => none

/-- `Decoder.ReadOutput`; the count limit is a parameter (`lim = SliceCountLimit` in the code)
    so that theorems about the byte format itself can be stated for any limit -/
def readOutputL (lim : Nat) (s : Bytes) : Option (Output × Bytes) := do
  let (t, s) ← readOutputType s
  let (amt, s) ← readInteger s
  let (kc, s) ← readU16 s
  if kc > lim then none else
  let (keys, s) ← readMany (readN 32) kc s
  let (mask, s) ← readN 32 s
  let (sb, s) ← readBytes s
  let (w, s) ← readOptWithdrawal s
  some ({ type := t, amount := amt, keys := keys, mask := mask, script := sb, withdrawal := w }, s)

def readOutput : Bytes → Option (Output × Bytes) := readOutputL sliceCountLimit

/-- `sm[si] = &sig` on the sorted-entries representation -/
def sigInsert (k : Nat) (v : Bytes) : SigMap → SigMap
  | [] => [(k, v)]
  | (k', v') :: r =>
    if k < k' then (k, v) :: (k', v') :: r
    else if k = k' then (k, v) :: r
    else (k', v') :: sigInsert k v r

def readSigEntries : Nat → SigMap → Bytes → Option (SigMap × Bytes)
  | 0, m, s => some (m, s)
  | n + 1, m, s =>
    match readU16 s with
    | none => none
    | some (si, s) =>
      match readN 64 s with
      | none => none
      | some (sig, s) => readSigEntries n (sigInsert si sig m) s

/-- `Decoder.ReadSignatures`: `sc` entries, then `len(sm) != sc` rejects duplicates -/
def readSignatures (s : Bytes) : Option (SigMap × Bytes) := do
  let (sc, s) ← readU16 s
  let (m, s) ← readSigEntries sc [] s
  if m.length ≠ sc then none else some (m, s)

/-- signers announced by mask byte number `i` with value `c`, ascending -/
def byteBits (i : Nat) (c : UInt8) : List Nat :=
  (List.range 8).filterMap (fun j => if c.toNat.testBit j then some (i * 8 + j) else none)

def maskSignersFrom : Nat → Bytes → List Nat
  | _, [] => []
  | i, c :: r => byteBits i c ++ maskSignersFrom (i + 1) r

/-- `Decoder.ReadAggregatedSignature` -/
def readAgg (s : Bytes) : Option (AggSig × Bytes) := do
  let (sig, s) ← readN 64 s
  let (typ, s) ← readByte s
  let (signers, s) ←
    (if typ = 0x01 then do
      let (l, s) ← readU16 s
      readMany readU16 l s
    else if typ = 0x00 then do
      let (masks, s) ← readBytes s
      some (maskSignersFrom 0 masks, s)
    else none : Option (List Nat × Bytes))
  if validSigners signers then some ({ signers := signers, sig := sig }, s) else none

/-- the authorization part of `DecodeTransaction` -/
def readAuth (s : Bytes) : Option ((Option AggSig × List SigMap) × Bytes) := do
  let (sl, s) ← readU16 s
  if sl = maxEncodingInt then
    let (pre, s) ← readU16 s
    if pre = aggPrefix then
      let (js, s) ← readAgg s
      some ((some js, []), s)
    else none
  else if sl > 0 then
    let (sms, s) ← readMany readSignatures (min sl sliceCountLimit) s
    some ((none, sms), s)
  else some ((none, []), s)

/-- `checkTxVersion` on the first four bytes -/
def readVersion (s : Bytes) : Option (UInt8 × Bytes) :=
  match readN 4 s with
  | none => none
  | some (b, s) => if b = magic ++ [0x00, txVersion] then some (txVersion, s) else none

def readExtra (s : Bytes) : Option (Bytes × Bytes) :=
  match readU32 s with
  | none => none
  | some (el, s) =>
    if el > extraCapacity then none
    else if el > 0 then readN el s
    else some ([], s)

/-- `n, err := dec.ReadInt(); if n > limit { error }; for i := range n { … }` -/
def readCounted {α : Type} (lim : Nat) (f : Bytes → Option (α × Bytes)) (s : Bytes) : Option (List α × Bytes) :=
  match readU16 s with
  | none => none
  | some (n, s) => if n > lim then none else readMany f n s

/-- the payload part of `DecodeTransaction` with count limit `lim` -/
def readPayloadL (lim : Nat) (s : Bytes) : Option (Payload × Bytes) := do
  let (v, s) ← readVersion s
  let (asset, s) ← readN 32 s
  let (ins, s) ← readCounted lim readInput s
  let (outs, s) ← readCounted lim (readOutputL lim) s
  let (refs, s) ← readCounted lim (readN 32) s
  let (extra, s) ← readExtra s
  some ({ version := v, asset := asset, inputs := ins, outputs := outs, references := refs, extra := extra }, s)

def readPayload : Bytes → Option (Payload × Bytes) := readPayloadL sliceCountLimit

/-- `Decoder.DecodeTransaction`, including the final "nothing may follow" check -/
def decodeRaw (b : Bytes) : Option Tx := do
  let (p, s) ← readPayload b
  let ((agg, sigs), s) ← readAuth s
  if s.isEmpty then some { toPayload := p, agg := agg, sigs := sigs } else none

/-- `unmarshalVersionedTransaction`: size gate, decode, canonical re-encoding comparison.
    (The re-encoding cannot panic: theorem `decode_wf`.) -/
def decodeTx (b : Bytes) : Option Tx :=
  if b.length > txMaxSize then none
  else
    match decodeRaw b with
    | none => none
    | some tx => if encodeTx tx == b then some tx else none

/-! ## `Marshal` / `PayloadMarshal` with `config.Debug = true` -/

/-- `VersionedTransaction.Marshal`: `none` = panic (an encoder guard, or the debug self-check) -/
def marshal (tx : Tx) : Option Bytes :=
  match encodeChecked tx with
  | none => none
  | some b => if (decodeTx b).isSome then some b else none

def payloadMarshal (tx : Tx) : Option Bytes :=
  marshal { tx with agg := none, sigs := [] }

end Mixin.TxCodec
