import Mixin.Facts.Generated
/-!
  C24 — model of the local-proposal bookkeeping of `kernel/cosi.go`
  (`abandonCosiSnapshot`, `retryCosiSnapshot`, `expireCosiAggregators`,
  `resetCosiStateForNewRound`, the duplicate guard and the installation step of
  `cosiSendAnnouncement`) and of `kernel/queue.go: requeueTransactions`.  Core Lean only.

  Hashes (snapshot hashes and transaction hashes share the key space of the verifier map) are
  natural numbers. A verifier is an identity (the Go code compares pointers) plus the round
  and timestamp of the snapshot it observes. The cache queue is the set of eligible
  transactions (`CacheQueueTransaction` is idempotent while the order key exists).
-/
namespace Mixin.Requeue
open Mixin.Facts

def roundGap : Nat := Gen.config_SnapshotRoundGap

structure Snap where
  hash : Nat
  round : Nat
  ts : Nat
  txs : List Nat
deriving Repr, DecidableEq, Inhabited

structure Agg where
  snap : Snap
  commitments : Nat     -- len(agg.Commitments)
  responses : Nat       -- len(agg.Responses)
  base : Nat            -- node.ConsensusThreshold(snap.ts, false)
deriving Repr, DecidableEq, Inhabited

structure Ver where
  id : Nat              -- pointer identity of the *CosiVerifier
  round : Nat           -- v.Snapshot.RoundNumber
  ts : Nat              -- v.Snapshot.Timestamp
deriving Repr, DecidableEq, Inhabited

structure St where
  aggs : List Agg := []             -- chain.CosiAggregators (key = snap.hash)
  vers : List (Nat × Ver) := []     -- chain.CosiVerifiers
  finalized : List Nat := []        -- transactions ReadTransaction reports as finalized
  bodies : List Nat := []           -- transactions whose body is in the store or the cache
  queue : List Nat := []            -- eligible transactions (cache queue)
deriving Repr, Inhabited

def lookup (m : List (Nat × Ver)) (k : Nat) : Option Ver := (m.find? (·.1 == k)).map (·.2)
def erase (m : List (Nat × Ver)) (k : Nat) : List (Nat × Ver) := m.filter (fun e => !(e.1 == k))
def insert (m : List (Nat × Ver)) (k : Nat) (v : Ver) : List (Nat × Ver) := (k, v) :: erase m k

/-- `requeueTransactions`: finalized → skip; no body in store or cache → skip; else
    `CacheQueueTransaction` (no-op when already queued) -/
def requeue1 (fin bodies : List Nat) (q : List Nat) (h : Nat) : List Nat :=
  if fin.contains h then q
  else if !bodies.contains h then q
  else if q.contains h then q
  else q ++ [h]

def requeue (st : St) (hs : List Nat) : St :=
  { st with queue := hs.foldl (requeue1 st.finalized st.bodies) st.queue }

/-- the loop of `abandonCosiSnapshot` over `s.Transactions` -/
def dropOwn (v : Option Nat) (m : List (Nat × Ver)) (txs : List Nat) : List (Nat × Ver) :=
  txs.foldl (fun m tx => if (lookup m tx).map (·.id) == v then erase m tx else m) m

/-- `abandonCosiSnapshot(s)` -/
def abandon (st : St) (s : Snap) : St :=
  let v := (lookup st.vers s.hash).map (·.id)
  { st with aggs := st.aggs.filter (fun a => !(a.snap.hash == s.hash)),
            vers := dropOwn v (erase st.vers s.hash) s.txs }

/-- `retryCosiSnapshot(s)` -/
def retry (st : St) (s : Snap) : St := requeue (abandon st s) s.txs

/-- the test `expireCosiAggregators` makes on one aggregator -/
def expirable (now gap : Nat) (a : Agg) : Bool :=
  !(decide (now < a.snap.ts + gap)) && !(decide (a.commitments ≥ a.base) && a.responses == a.commitments)

/-- `expireCosiAggregators(now)`: the aggregators are visited in the order of `order` (Go map
    iteration order is unspecified; the theorems hold for every order) -/
def expireOver (now gap : Nat) (order : List Agg) (st : St) : St :=
  order.foldl (fun st a => if expirable now gap a then retry st a.snap else st) st

def expire (now gap : Nat) (st : St) : St := expireOver now gap st.aggs st

/-- the `retry` list of `resetCosiStateForNewRound(owned)` -/
def resetList (owned : List Nat) (aggs : List Agg) : List Nat :=
  (aggs.foldl (fun acc a => a.snap.txs.foldl
      (fun acc tx => if !owned.contains tx && !acc.contains tx then acc ++ [tx] else acc) acc) [])

/-- `resetCosiStateForNewRound(owned)` -/
def resetRound (st : St) (owned : List Nat) : St :=
  requeue { st with aggs := [], vers := [] } (resetList owned st.aggs)

/-- the duplicate guard of `cosiSendAnnouncement` on one transaction -/
def guarded (gap : Nat) (m : List (Nat × Ver)) (s : Snap) (tx : Nat) : Bool :=
  match lookup m tx with
  | some ov => decide (s.round > 0) && ov.round == s.round && decide (s.ts < ov.ts + gap)
  | none => false

/-- `cosiSendAnnouncement` after `prepareAnnouncement` said valid and all bodies were found:
    with a guarded transaction only the unguarded companions are requeued; otherwise the
    aggregator (with the proposer's own commitment) and the verifier entries are installed.
    `vid` is the identity of the verifier that would be created. -/
def announce (gap : Nat) (st : St) (s : Snap) (vid base : Nat) : St :=
  if s.txs.any (guarded gap st.vers s) then
    requeue st (s.txs.filter (fun tx => !guarded gap st.vers s tx))
  else
    let v : Ver := { id := vid, round := s.round, ts := s.ts }
    { st with vers := s.txs.foldl (fun m tx => insert m tx v) (insert st.vers s.hash v),
              aggs := { snap := s, commitments := 1, responses := 0, base := base } ::
                      st.aggs.filter (fun a => !(a.snap.hash == s.hash)) }

/-- `kernel.OneDay` in nanoseconds -/
def oneDay : Nat := 86400000000000

/-- `cosiSendAnnouncement` including the early returns of `prepareAnnouncement` for an open round
    that already has a finalized snapshot (first one stamped `cft`, round timestamp `roundTs`) and
    a proposal inside the round gap (`s.ts < cft + gap`, so no round transition): a proposal not
    after the round timestamp, after the 4/5 cutoff, or on another UTC day than the round's first
    snapshot is deferred and ALL its transactions are handed to `requeueTransactions`; otherwise
    the guard / installation step runs. -/
def announceAt (gap : Nat) (st : St) (s : Snap) (vid base roundTs cft : Nat) : St :=
  if s.ts ≤ roundTs then requeue st s.txs
  else if s.ts > cft + gap * 4 / 5 then requeue st s.txs
  else if s.ts / oneDay ≠ cft / oneDay then requeue st s.txs
  else announce gap st s vid base

/-- `cosiHandleAction` for a self announcement whose sanity check fails in
    `validateSnapshotTransaction`: the error class "the first transaction it looks at is finalized
    in another snapshot" makes `shouldRequeueSelfAnnouncement` answer true and the whole batch goes
    to `requeueTransactions`; nothing is installed. -/
def sanityFinalizedElsewhere (st : St) (txs : List Nat) : Option St :=
  match txs with
  | x :: _ => if st.finalized.contains x then some (requeue st txs) else none
  | [] => none

end Mixin.Requeue
