/-
  Model of the live ("cache") round of a chain — property C19.

    kernel/round.go   CacheRound.validateSnapshot / ValidateSnapshot / Gap / asFinal
    common/round.go   ComputeRoundHash (only its start/end computation and the closing assertion;
                      the hash chain itself is property C18)

  The model follows the Go code statement by statement where a decision is made:

  * `validateSnapshot` first panics on a wrong round number / zero hash, then walks the stored
    snapshots (duplicate hash or timestamp, different day, overlapping transaction), then calls
    `Gap()` — which returns the sentinel `(MaxUint64/2, 0)` for an empty round, and *panics* when
    the stored snapshots already span a gap — and only measures the candidate when `start ≤ end`.
  * uint64 arithmetic wraps: `ts + gap` is computed modulo 2^64 (`u64`), exactly as in Go.
    The theorems of `Props/C19.lean` carry the explicit hypothesis that no `ts + gap` wraps.
  * `sort.Slice` inside `Gap`/`ComputeRoundHash` reorders `c.Snapshots` in place; no decision
    depends on the order (only on the minimum and maximum timestamp), so the model keeps
    arrival order and the driver prints the content in a canonical order.

  Hashes are opaque: a 32-byte hash is the natural number of its big-endian bytes
  (`HasValue` = non-zero).  `gap` and `day` are parameters; the driver instantiates them with
  the constants regenerated from the source tree (`config.SnapshotRoundGap`, `kernel.OneDay`).
-/
namespace Mixin.Round

structure Snap where
  hash : Nat
  ts : Nat
  txs : List Nat
  round : Nat
  deriving DecidableEq, Repr

structure Round where
  number : Nat
  snaps : List Snap
  deriving DecidableEq, Repr

inductive Outcome where
  | panic
  | reject
  | ok (r : Round)
  deriving DecidableEq, Repr

def two64 : Nat := 18446744073709551616

/-- uint64 truncation -/
def u64 (x : Nat) : Nat := x % two64

/-- `(^uint64(0))/2` -/
def sentinelStart : Nat := (two64 - 1) / 2

/-- smallest timestamp of a non-empty list (0 for the empty list, never used) -/
def minTs : List Snap → Nat
  | [] => 0
  | [s] => s.ts
  | s :: t => min s.ts (minTs t)

def maxTs : List Snap → Nat
  | [] => 0
  | [s] => s.ts
  | s :: t => max s.ts (maxTs t)

/-- the per-stored-snapshot checks of the loop in `validateSnapshot`; `true` = reject -/
def conflicts (day : Nat) (s cs : Snap) : Bool :=
  cs.hash == s.hash || cs.ts == s.ts || cs.ts / day != s.ts / day ||
    s.txs.any (fun t => cs.txs.contains t)

/-- `CacheRound.Gap()`: `none` = the Go code panics -/
def gapOf (gap : Nat) (snaps : List Snap) : Option (Nat × Nat) :=
  if snaps.isEmpty then some (sentinelStart, 0)
  else
    let start := minTs snaps
    let end_ := maxTs snaps
    if end_ ≥ u64 (start + gap) then none else some (start, end_)

/-- `CacheRound.validateSnapshot(s, add)` -/
def validateSnapshot (gap day : Nat) (r : Round) (s : Snap) (add : Bool) : Outcome :=
  if s.round ≠ r.number ∨ s.hash = 0 then .panic
  else if r.snaps.any (conflicts day s) then .reject
  else
    match gapOf gap r.snaps with
    | none => .panic
    | some (start, end_) =>
      if start ≤ end_ ∧
          ((s.ts < start ∧ u64 (s.ts + gap) ≤ end_) ∨ (s.ts > end_ ∧ u64 (start + gap) ≤ s.ts))
      then .reject
      else .ok (if add then { r with snaps := r.snaps ++ [s] } else r)

inductive Final where
  | nil
  | panic
  | ok (start end_ : Nat)
  deriving DecidableEq, Repr

/-- `CacheRound.asFinal()` → `common.ComputeRoundHash`: start, end and the closing assertion
    `end < start + gap` (the other two panics of `ComputeRoundHash` — version above the maximum
    version, timestamp above the last sorted timestamp — are unreachable by construction). -/
def asFinal (gap : Nat) (r : Round) : Final :=
  if r.snaps.isEmpty then .nil
  else
    let start := minTs r.snaps
    let end_ := maxTs r.snaps
    if end_ ≥ u64 (start + gap) then .panic else .ok start end_

/-- one candidate offered to a live round with `add = true`; anything but acceptance leaves the
    round as it was (the Go caller only appends on a nil error) -/
def offer (gap day : Nat) (r : Round) (s : Snap) : Round :=
  match validateSnapshot gap day r s true with
  | .ok r' => r'
  | _ => r

/-- a whole candidate sequence -/
def offerAll (gap day : Nat) (r : Round) (cands : List Snap) : Round :=
  cands.foldl (offer gap day) r

end Mixin.Round
