import Mixin.Model.Cosi
/-
  Model of crypto/aggregation.go (property C14): `collectAggregateSigners` (in
  `Mixin.Cosi.collectGo`), the transcript bytes, the weighted aggregate key,
  `AggregateSign`, `AggregateVerify`.

  Points are discrete logs as in `Mixin.Cosi`.  The per-signer coefficients
  `w_i = H(domain ‖ transcript ‖ index ‖ key)`, the challenge `x = H(R ‖ A ‖ message)` and
  the sum `z` of the derived nonces are hash values: parameters supplied from the real code.
-/
namespace Mixin.AggSig
open Mixin.Cosi

abbrev Bytes := List UInt8  -- same as Mixin.Proto.Bytes

/-- `binary.BigEndian.AppendUint32(nil, uint32(n))` -/
def be32 (n : Nat) : Bytes :=
  [(n / 2 ^ 24 % 256).toUInt8, (n / 2 ^ 16 % 256).toUInt8, (n / 2 ^ 8 % 256).toUInt8, (n % 256).toUInt8]

/-- the transcript built by `collectAggregateSigners` (only meaningful when it succeeds):
    count, then for every signer its index and the 32 key bytes -/
def transcriptBody (keyBytes : List Bytes) : List Int → Bytes
  | [] => []
  | i :: rest => be32 i.toNat ++ keyBytes.getD i.toNat [] ++ transcriptBody keyBytes rest

def transcript (publics : List Pt) (keyBytes : List Bytes) (signers : List Int) : Option Bytes :=
  match collectSigners publics signers with
  | none => none
  | some _ => some (be32 signers.length ++ transcriptBody keyBytes signers)

/-- Σ wᵢ·aᵢ over the selected signers -/
def weightedSum : List (Nat × Nat) → List Nat → Nat
  | (_, a) :: sel, w :: ws => (w * a + weightedSum sel ws) % ell
  | _, _ => 0

/-- `aggregateWeightedPublicKey` (key only); `w` are the coefficients in signer order -/
def weightedKey (publics : List Pt) (signers : List Int) (w : List Nat) : Option Pt :=
  (collectSigners publics signers).map (fun sel => Pt.dl (weightedSum sel w))

/-- per-signer checks of the signing loop; returns the private scalars -/
def signLoop (publics : List Pt) : List Int → List (Option Nat) → Option (List Nat)
  | [], _ => some []
  | _ :: _, [] => none
  | i :: rest, p :: ps =>
    if i > 0xFFFF then none
    else
      match p with
      | none => none
      | some y =>
        if y ≥ ell then none
        else if (publics.getD i.toNat Pt.bad).decode ≠ some y then none
        else (signLoop publics rest ps).map (y :: ·)

def dot : List Nat → List Nat → Nat
  | w :: ws, y :: ys => (w * y + dot ws ys) % ell
  | _, _ => 0

/-- `AggregateSign`: `z` is the sum of the derived nonces (discrete log of `R`), `x` the
    challenge. Returns `(R, S)`. -/
def sign (privs : List (Option Nat)) (publics : List Pt) (signers : List Int) (seedLen : Nat)
    (w : List Nat) (z x : Nat) : Option (Pt × Nat) :=
  if privs.length ≠ signers.length then none
  else if seedLen < 32 then none
  else
    match collectSigners publics signers with
    | none => none
    | some _ =>
      match signLoop publics signers privs with
      | none => none
      | some ys => some (Pt.dl (z % ell), (x * dot w ys + z) % ell)

/-- `AggregateVerify` for a non-nil signature `R ‖ S` -/
def verify (R : Pt) (S : Nat) (publics : List Pt) (signers : List Int) (w : List Nat) (x : Nat) : Bool :=
  match weightedKey publics signers w with
  | none => false
  | some A => verifyWithChallenge A R S x

end Mixin.AggSig
