import Mixin.Facts.Generated
/-!
# Membership history and the time-indexed consensus views (C09, C10, C11)

Executable model of `kernel/node.go` (`LoadConsensusNodes`, `buildNodeStateSequences`,
`NodesListWithoutState`, `nodeSequenceWithoutState`, `PledgingNode`, `ConsensusReady`,
`ConsensusThreshold`), `kernel/graph.go` (`consensusNodes`, `ConsensusKeys`),
`kernel/slash.go` (`removingOrSlashingNodeAt`, `usePredictiveNodeRemovalSignerSet`),
`kernel/election.go` (`checkRemovePossibility` with `old = nil`, `electSnapshotNode`,
`checkConsensusAcceptHour`) and `kernel/chain.go` (`loadIdentity`, `IsPledging`).

A membership history is a list of records `(ts, id, signer, payee, state, tx)`; node ids,
keys and transaction hashes are natural numbers (the 32 bytes read big-endian, so that `<`
on ids is the order of the hexadecimal strings the Go code compares).
The functions follow the Go code statement by statement; constants come in through
`Consts` (instantiated from the regenerated facts by `genConsts`).
-/
namespace Mixin.Membership

/-- `common.NodeState*`; `unset` is the empty string of a bare `CNode` built by
    `Chain.loadIdentity` for the local node before it has any ledger record. -/
inductive NState where
  | pledging | accepted | removed | cancelled | unset
deriving DecidableEq, Repr, Inhabited

structure Rec where
  ts : Nat
  id : Nat
  signer : Nat
  payee : Nat
  state : NState
  tx : Nat
deriving DecidableEq, Repr, Inhabited

/-- `kernel.CNode`: a record plus its consensus index. -/
structure CNode where
  rc : Rec
  idx : Nat
deriving DecidableEq, Repr, Inhabited

structure Consts where
  roundGap : Nat       -- config.SnapshotRoundGap
  refThr : Nat         -- config.SnapshotReferenceThreshold
  minNodes : Nat       -- config.KernelMinimumNodesCount
  acceptMin : Nat      -- config.KernelNodeAcceptPeriodMinimum
  pledgeMin : Nat      -- config.KernelNodePledgePeriodMinimum
  acceptBegin : Nat    -- config.KernelNodeAcceptTimeBegin
  acceptEnd : Nat      -- config.KernelNodeAcceptTimeEnd
  hour : Nat           -- time.Hour
  oneDay : Nat         -- kernel.OneDay
  forkAt : Nat         -- kernel.mainnetConsensusNodeRemovalSignerSetForkAt

open Mixin.Facts.Gen in
def genConsts : Consts :=
  { roundGap := config_SnapshotRoundGap, refThr := config_SnapshotReferenceThreshold,
    minNodes := config_KernelMinimumNodesCount, acceptMin := config_KernelNodeAcceptPeriodMinimum,
    pledgeMin := config_KernelNodePledgePeriodMinimum, acceptBegin := config_KernelNodeAcceptTimeBegin,
    acceptEnd := config_KernelNodeAcceptTimeEnd, hour := 3600000000000, oneDay := kernel_OneDay,
    forkAt := kernel_mainnetConsensusNodeRemovalSignerSetForkAt }

/-- the `less` of both `sort.Slice` calls: by timestamp, then by id (hex string order) -/
def recLt (a b : Rec) : Bool := a.ts < b.ts || (a.ts == b.ts && a.id < b.id)

def insertRec (r : Rec) : List Rec → List Rec
  | [] => [r]
  | x :: xs => if recLt r x then r :: x :: xs else x :: insertRec r xs

/-- `sort.Slice(nodes, less)`; keys `(ts, id)` are pairwise distinct in every list the code
    sorts (Badger key = timestamp ‖ signer, id = hash of signer), so the result does not
    depend on the (unstable) algorithm. -/
def sortRecs (l : List Rec) : List Rec := l.foldr insertRec []

/-- `filter[n.IdForNetwork] = n` on a map kept as an association list in first-insertion order -/
def upsert (m : List Rec) (n : Rec) : List Rec :=
  match m with
  | [] => [n]
  | x :: xs => if x.id = n.id then n :: xs else x :: upsert xs n

/-- first loop of `nodeSequenceWithoutState` (with its `break`) -/
def filterLoop (thr : Nat) : List Rec → List Rec → List Rec
  | [], m => m
  | n :: rest, m => if n.ts ≥ thr then m else filterLoop thr rest (upsert m n)

def countsIndex (s : NState) : Bool :=
  match s with
  | .accepted => true
  | .pledging => true
  | _ => false

/-- last loop of `nodeSequenceWithoutState`: consensus index assignment -/
def assignIdx (index : Nat) : List Rec → List CNode
  | [] => []
  | r :: rs => ⟨r, index⟩ :: assignIdx (if countsIndex r.state then index + 1 else index) rs

/-- `Node.nodeSequenceWithoutState(threshold, acceptedOnly)` over `allNodesSortedWithState = all` -/
def nodeSeq (all : List Rec) (thr : Nat) (acceptedOnly : Bool) : List CNode :=
  let m := filterLoop thr all []
  let nodes := m.filter (fun n => !acceptedOnly || n.state == .accepted)
  assignIdx 0 (sortRecs nodes)

/-- `Node.buildNodeStateSequences` -/
def buildSeqs (all : List Rec) (acceptedOnly : Bool) : List (Nat × List CNode) :=
  all.map (fun n => (n.ts, nodeSeq all (n.ts + 1) acceptedOnly))

/-- the reverse scan of `Node.NodesListWithoutState` over pre-built sequences -/
def scanSeqs (seqs : List (Nat × List CNode)) (thr : Nat) : List CNode :=
  match seqs.reverse.find? (fun s => s.1 < thr) with
  | some s => s.2
  | none => []

/-- `Node.NodesListWithoutState(threshold, acceptedOnly)` computing only the sequence the scan
    selects (`Mixin.C11.scan_build` proves it equal to `scanSeqs (buildSeqs all acc) thr`). -/
def nodesList (all : List Rec) (thr : Nat) (acceptedOnly : Bool) : List CNode :=
  match all.reverse.find? (fun n => n.ts < thr) with
  | some n => nodeSeq all (n.ts + 1) acceptedOnly
  | none => []

/-- the part of `kernel.Node` the views read -/
structure Node where
  epoch : Nat
  mainnet : Bool            -- networkId.String() == config.KernelNetworkId
  self : Nat                -- node.IdForNetwork
  selfSigner : Nat
  genesis : List Nat        -- keys of genesisNodesMap
  all : List Rec            -- allNodesSortedWithState
deriving Inhabited

/-- `Node.LoadConsensusNodes`: sort what the store returned -/
def Node.load (n : Node) (recs : List Rec) : Node := { n with all := sortRecs recs }

def Node.list (n : Node) (thr : Nat) (acc : Bool) : List CNode := nodesList n.all thr acc

/-- `Node.PledgingNode` -/
def pledgingNode (n : Node) (ts : Nat) : Option CNode :=
  match (n.list ts false).getLast? with
  | some cn => if cn.rc.state = .pledging then some cn else none
  | none => none

/-- `Node.checkConsensusAcceptHour` (callers have established `epoch ≤ ts`) -/
def acceptHour (c : Consts) (epoch ts : Nat) : Bool :=
  let hour := (ts - epoch) / c.hour % 24
  hour ≥ c.acceptBegin && hour ≤ c.acceptEnd

/-- the loop of `checkRemovePossibility` with `old = nil`: `none` = an error return.
    `time.Duration(now - cn.Timestamp)` is modelled on naturals (timestamps < 2^63). -/
def removeLoop (c : Consts) (now : Nat) : List CNode → List CNode → Option (List CNode)
  | [], acc => some acc
  | cn :: rest, acc =>
    if now < cn.rc.ts then none
    else if now - cn.rc.ts < c.pledgeMin then none
    else match cn.rc.state with
      | .accepted => removeLoop c now rest (acc ++ [cn])
      | .cancelled => removeLoop c now rest acc
      | .removed => removeLoop c now rest acc
      | _ => none

/-- `Node.checkRemovePossibility(nodeId, now, nil)`; `none` = error -/
def checkRemovePossibility (c : Consts) (n : Node) (nodeId now : Nat) : Option CNode :=
  if (pledgingNode n now).isSome then none
  else if now < n.epoch then none
  else if !acceptHour c n.epoch now then none
  else match removeLoop c now (n.list now false) [] with
    | none => none
    | some accepted =>
      if accepted.length ≤ c.minNodes then none
      else match accepted.head? with
        | none => none
        | some candi => if candi.rc.id = nodeId then none else some candi

/-- `Node.removingOrSlashingNodeAt` (`crypto.Hash{}` is id 0) -/
def removingAt (c : Consts) (n : Node) (ts : Nat) : Option CNode :=
  if ts < n.epoch || !acceptHour c n.epoch ts then none
  else
    let since := ts - n.epoch
    let start := n.epoch + since / c.oneDay * c.oneDay + c.acceptBegin * c.hour
    checkRemovePossibility c n 0 start

/-- `Node.usePredictiveNodeRemovalSignerSet` -/
def usePredictive (c : Consts) (n : Node) (ts : Nat) : Bool := !n.mainnet || ts ≥ c.forkAt

/-- the `removing` variable of `ConsensusThreshold` and `consensusNodes` -/
def removingFor (c : Consts) (n : Node) (ts : Nat) : Option CNode :=
  if usePredictive c n ts then removingAt c n ts else none

def isRemoving (removing : Option CNode) (cn : CNode) : Bool :=
  match removing with
  | some r => cn.rc.id == r.rc.id
  | none => false

/-- `Node.ConsensusReady` -/
def consensusReady (c : Consts) (n : Node) (cn : CNode) (ts : Nat) : Bool :=
  if cn.rc.state ≠ .accepted then false
  else if n.genesis.contains cn.rc.id then true
  else if cn.rc.ts + c.acceptMin < ts then true
  else false

/-- body of the loop of `ConsensusThreshold`: does this node increment `consensusBase`?
    (the two constant-only `panic`s need `refThr·roundGap ≤ 3 min` and `hour ≤ acceptMin`,
    pinned in `Facts/ExpectedC10.lean`) -/
def countedInBase (c : Consts) (n : Node) (removing : Option CNode) (ts : Nat) (final : Bool)
    (cn : CNode) : Bool :=
  if isRemoving removing cn then false
  else
    let threshold := c.refThr * c.roundGap
    match cn.rc.state with
    | .pledging =>
      let t := c.acceptMin - threshold * 3
      !final && cn.rc.ts + t < ts
    | .accepted => n.genesis.contains cn.rc.id || cn.rc.ts + threshold < ts
    | _ => false

def baseNodes (c : Consts) (n : Node) (ts : Nat) (final : Bool) : List CNode :=
  (n.list ts false).filter (countedInBase c n (removingFor c n ts) ts final)

def consensusBase (c : Consts) (n : Node) (ts : Nat) (final : Bool) : Nat :=
  (baseNodes c n ts final).length

/-- `Node.ConsensusThreshold` -/
def consensusThreshold (c : Consts) (n : Node) (ts : Nat) (final : Bool) : Nat :=
  let base := consensusBase c n ts final
  if base < c.minNodes then 1000 else base * 2 / 3 + 1

/-- what `consensusNodes` reads of a `Chain`: `pledging = some ci` iff
    `chain.State == nil && chain.ConsensusInfo != nil` (`Chain.IsPledging`) -/
structure Chain where
  pledging : Option CNode
deriving Inhabited

def reindex (i : Nat) : List CNode → List CNode
  | [] => []
  | cn :: rest => ⟨cn.rc, i⟩ :: reindex (i + 1) rest

def readyNodes (c : Consts) (n : Node) (ts : Nat) : List CNode :=
  (n.list ts false).filter (fun cn => !isRemoving (removingFor c n ts) cn && consensusReady c n cn ts)

/-- `Chain.consensusNodes(round, timestamp)` -/
def consensusNodes (c : Consts) (n : Node) (ch : Chain) (round ts : Nat) : List CNode :=
  let participants := reindex 0 (readyNodes c n ts)
  match ch.pledging with
  | some ci => if round = 0 then participants ++ [⟨ci.rc, participants.length⟩] else participants
  | none => participants

/-- `Chain.ConsensusKeys`: (ids, public spend keys) -/
def consensusKeys (c : Consts) (n : Node) (ch : Chain) (round ts : Nat) : List (Nat × Nat) :=
  (consensusNodes c n ch round ts).map (fun cn => (cn.rc.id, cn.rc.signer))

/-- `Chain.loadIdentity` at clock reading `now` -/
def loadIdentity (n : Node) (chainId now : Nat) : Option CNode :=
  match (n.list now false).find? (fun cn => cn.rc.id == chainId) with
  | some cn => some cn
  | none =>
    if n.self = chainId then
      some ⟨{ ts := 0, id := chainId, signer := n.selfSigner, payee := 0, state := .unset, tx := 0 }, 0⟩
    else none

/-- a `Chain` whose `ConsensusInfo` was loaded at `now`; `hasState` = `chain.State != nil` -/
def loadChain (n : Node) (chainId now : Nat) (hasState : Bool) : Chain :=
  if hasState then ⟨none⟩ else ⟨loadIdentity n chainId now⟩

open Mixin.Facts.Gen in
/-- the `switch operation` of `electSnapshotNode` -/
def electOp (op : Nat) : Bool :=
  op == common_TransactionTypeMint || op == common_TransactionTypeNodeRemove ||
  op == common_TransactionTypeNodePledge || op == common_TransactionTypeCustodianUpdateNodes ||
  op == common_TransactionTypeCustodianSlashNodes

/-- `Node.electSnapshotNode(operation, now)`: `none` = panic, id 0 = `crypto.Hash{}`.
    `now - node.Epoch` is a `uint64` subtraction (wraps). -/
def electSnapshotNode (c : Consts) (n : Node) (operation now : Nat) : Option Nat :=
  if !electOp operation then some 0
  else
    let accepted := n.list now true
    if accepted.length < c.minNodes then none
    else
      let inner := (accepted.drop 1).take (accepted.length - 2)
      let day := ((now + 2 ^ 64 - n.epoch) % 2 ^ 64) / (c.hour * 24)
      if inner.length = 0 then none
      else
        match inner[(day + operation) % inner.length]? with
        | some cn => some cn.rc.id
        | none => none

end Mixin.Membership
