import Mixin.Model.Amount
/-
  Abstract ledger model shared by C15, C16, C17 (core Lean only).

  Badger's snapshot database is a record of association lists, one per key family
  (UTXO, GHOST, DEPOSIT, MINTUNIVERSAL, TRANSACTION, FINALIZATION, ASSETINFO, ASSETTOTAL,
  WITHDRAWAL, UNIQUE, SNAPSHOT, TOPOLOGY, SNAPTOPO, WORKSNAPSHOT; node/custodian families are an
  append-only log). Hashes and keys are opaque identifiers (`Nat`). A Badger write transaction is a
  function `State → Except Fail State`: it is committed (`ok`) or discarded as a whole
  (`err` = the Go function returned an error, `panic` = it panicked; the deferred
  `txn.Discard()` runs in both cases).

  The functions follow storage/badger_transaction.go (finalizeTransaction, writeUTXO,
  WriteTransaction), storage/badger_asset.go (writeAssetInfo, verifyAssetInfo, writeTotalInAsset),
  storage/badger_graph.go (WriteSnapshot, writeSnapshot), storage/badger_topology.go
  (writeTopology), storage/badger_utxo.go / badger_deposit.go / badger_mint.go (locks),
  common/utxo.go (UnspentOutputs), common/transaction.go (TransactionType),
  common/validation.go + deposit.go + withdrawal.go + mint.go (Validate) statement by
  statement where a decision is made.
-/
namespace Mixin.Ledger

abbrev Id := Nat

/-! ### association lists -/

def aget {α β : Type} [DecidableEq α] : List (α × β) → α → Option β
  | [], _ => none
  | (k, v) :: r, x => if k = x then some v else aget r x

def aset {α β : Type} [DecidableEq α] : List (α × β) → α → β → List (α × β)
  | [], x, v => [(x, v)]
  | (k, w) :: r, x, v => if k = x then (k, v) :: r else (k, w) :: aset r x v

def adel {α β : Type} [DecidableEq α] : List (α × β) → α → List (α × β)
  | [], _ => []
  | (k, w) :: r, x => if k = x then r else (k, w) :: adel r x

/-! ### transactions -/

inductive OutType
  | script | withdrawalSubmit | withdrawalClaim | nodePledge | nodeAccept | nodeCancel
  | nodeRemove | custodianUpdate | custodianSlash | unknown
deriving DecidableEq, Repr

inductive TxType
  | script | mint | deposit | withdrawalSubmit | withdrawalClaim | nodePledge | nodeAccept
  | nodeRemove | nodeCancel | custodianUpdate | custodianSlash | unknown
deriving DecidableEq, Repr

structure Output where
  typ : OutType
  amount : Nat
  keys : List Id
deriving DecidableEq, Repr

inductive Input
  | utxo (hash : Id) (index : Nat)
  | deposit (key : Id) (chain : Id) (assetKey : Id) (amount : Nat)
  | mint (batch : Nat) (amount : Nat)
  | genesis
deriving DecidableEq, Repr

structure Tx where
  id : Id
  asset : Id
  inputs : List Input
  outputs : List Output
  refs : List Id
  /-- oracle: the spend signatures of the inputs verify (real `crypto` answers, via the harness) -/
  sigOk : Bool
  /-- oracle: the custodian signature (deposit / withdrawal claim) verifies -/
  custOk : Bool
deriving DecidableEq, Repr

/-- first loop of `TransactionType()`: mint, deposit or genesis input decides -/
def inputsType : List Input → Option TxType
  | [] => none
  | .mint _ _ :: _ => some .mint
  | .deposit _ _ _ _ :: _ => some .deposit
  | .genesis :: _ => some .unknown
  | .utxo _ _ :: r => inputsType r

/-- second loop of `TransactionType()`: the first special output decides -/
def outputsType : List Output → Bool → TxType
  | [], isScript => if isScript then .script else .unknown
  | o :: r, isScript =>
    match o.typ with
    | .withdrawalSubmit => .withdrawalSubmit
    | .withdrawalClaim => .withdrawalClaim
    | .nodePledge => .nodePledge
    | .nodeCancel => .nodeCancel
    | .nodeAccept => .nodeAccept
    | .nodeRemove => .nodeRemove
    | .custodianUpdate => .custodianUpdate
    | .custodianSlash => .custodianSlash
    | .script => outputsType r isScript
    | .unknown => outputsType r false

def txType (tx : Tx) : TxType :=
  match inputsType tx.inputs with
  | some t => t
  | none => outputsType tx.outputs true

/-- `UnspentOutputs()` case table: is an output of this type written to the UTXO family?
    `none` = the Go code panics. -/
def materialised : OutType → Option Bool
  | .script | .nodePledge | .nodeCancel | .nodeAccept | .nodeRemove | .withdrawalClaim
  | .custodianUpdate => some true
  | .withdrawalSubmit | .custodianSlash => some false
  | .unknown => none

/-! ### state -/

inductive Fail | err | panic
deriving DecidableEq, Repr

structure UTXO where
  asset : Id
  typ : OutType
  amount : Nat
  keys : List Id
  lock : Option Id
deriving DecidableEq, Repr

structure Snap where
  id : Id
  node : Id
  round : Nat
  ts : Nat
  topo : Nat
  txs : List Id
deriving DecidableEq, Repr

structure State where
  utxo : List ((Id × Nat) × UTXO) := []
  ghost : List (Id × Id) := []
  deposit : List (Id × Id) := []
  mint : List (Nat × (Nat × Id)) := []
  txs : List (Id × Tx) := []
  fin : List (Id × Id) := []
  assetInfo : List (Id × (Id × Id)) := []
  total : List (Id × Nat) := []
  withdrawal : List (Id × Id) := []
  unique : List ((Id × Id) × Unit) := []
  snaps : List (Id × Snap) := []
  topo : List (Nat × Id) := []
  snapTopo : List (Id × Nat) := []
  work : List ((Id × Nat × Nat) × (Id × Nat)) := []
  /-- node / custodian families, as the append-only record of the writes made to them -/
  nodeLog : List (OutType × Id × Nat) := []
deriving Repr

def State.empty : State := {}

def readTotal (st : State) (a : Id) : Nat := (aget st.total a).getD 0

def finalized (st : State) (t : Id) : Bool := (aget st.fin t).isSome

/-! ### storage/badger_asset.go -/

/-- `writeAssetInfo` -/
def writeAssetInfo (st : State) (a : Id) (info : Id × Id) : Except Fail State :=
  match aget st.assetInfo a with
  | none => .ok { st with assetInfo := aset st.assetInfo a info }
  | some old => if old = info then .ok st else .error .err

/-- `verifyAssetInfo` -/
def verifyAssetInfo (st : State) (a : Id) (info : Id × Id) : Bool :=
  match aget st.assetInfo a with
  | none => true
  | some old => old = info

def liftAmount (x : Option Nat) : Except Fail Nat :=
  match x with
  | some v => .ok v
  | none => .error .panic

/-- the loop of the withdrawal-submit branch: `total = total.Sub(o.Amount)` for submit outputs -/
def subSubmits : List Output → Nat → Except Fail Nat
  | [], total => .ok total
  | o :: r, total =>
    if o.typ = .withdrawalSubmit then
      match Amount.sub total o.amount with
      | some t => subSubmits r t
      | none => .error .panic
    else subSubmits r total

/-- the loop of the genesis branch: `total = total.Add(out.Amount)` -/
def addOutputs : List Output → Nat → Except Fail Nat
  | [], total => .ok total
  | o :: r, total =>
    match Amount.add total o.amount with
    | some t => addOutputs r t
    | none => .error .panic

/-- the `switch` of `writeTotalInAsset`: new total, `none` for the `default: return nil` branch -/
def newTotal (tx : Tx) (total : Nat) : Except Fail (Option Nat) :=
  match txType tx with
  | .withdrawalSubmit => (subSubmits tx.outputs total).map some
  | .deposit =>
    match tx.inputs with
    | [.deposit _ _ _ amount] => (liftAmount (Amount.add total amount)).map some
    | _ => .error .panic            -- DepositData() is nil unless there is exactly one input
  | .mint =>
    match tx.inputs with
    | .mint _ amount :: _ => (liftAmount (Amount.add total amount)).map some
    | _ => .error .panic            -- Inputs[0].Mint is nil
  | _ =>
    match tx.inputs with
    | .genesis :: _ => (addOutputs tx.outputs total).map some
    | [] => .error .panic
    | _ => .ok none

/-- `writeTotalInAsset` -/
def writeTotal (cap : Id → Nat) (st : State) (tx : Tx) : Except Fail State :=
  match aget st.assetInfo tx.asset with
  | none => .error .panic
  | some _ =>
    match newTotal tx (readTotal st tx.asset) with
    | .error e => .error e
    | .ok none => .ok st
    | .ok (some t) =>
      if t > cap tx.asset then .error .panic
      else .ok { st with total := aset st.total tx.asset t }

/-! ### storage/badger_transaction.go -/

/-- `lockGhostKey(txn, k, tx, fork)`; the three grandfathered mainnet hashes are not modelled -/
def lockGhostKey (st : State) (k : Id) (t : Id) : Except Fail State :=
  match aget st.ghost k with
  | none => .ok { st with ghost := aset st.ghost k t }
  | some by_ => if by_ = t then .ok st else .error .err

def lockGhostKeys : List Id → State → Id → Except Fail State
  | [], st, _ => .ok st
  | k :: r, st, t =>
    match lockGhostKey st k t with
    | .ok st' => lockGhostKeys r st' t
    | .error e => .error e

/-- `writeWithdrawalClaim(txn, ver.References[0], ver.PayloadHash())` -/
def writeWithdrawalClaim (st : State) (tx : Tx) : Except Fail State :=
  match tx.refs with
  | [] => .error .panic
  | r :: _ =>
    match aget st.txs r, aget st.fin r with
    | some _, some _ => .ok { st with withdrawal := aset st.withdrawal r tx.id }
    | _, _ => .error .panic

/-- `writeUTXO` for output number `idx` -/
def writeUTXO (st : State) (tx : Tx) (ts : Nat) (idx : Nat) (o : Output) : Except Fail State :=
  match lockGhostKeys o.keys st tx.id with
  | .error e => .error e
  | .ok st1 =>
    let u : UTXO := ⟨tx.asset, o.typ, o.amount, o.keys, none⟩
    let st2 := { st1 with utxo := aset st1.utxo (tx.id, idx) u }
    match o.typ with
    | .nodePledge | .nodeCancel | .nodeAccept | .nodeRemove | .custodianUpdate =>
      .ok { st2 with nodeLog := st2.nodeLog ++ [(o.typ, tx.id, ts)] }
    | .withdrawalClaim => writeWithdrawalClaim st2 tx
    | _ => .ok st2

/-- does `UnspentOutputs()` panic? -/
def outputsKnown (outs : List Output) : Bool := outs.all (fun o => (materialised o.typ).isSome)

/-- the loop over `ver.UnspentOutputs()` -/
def writeOutputs : List Output → Nat → State → Tx → Nat → Except Fail State
  | [], _, st, _, _ => .ok st
  | o :: r, idx, st, tx, ts =>
    if materialised o.typ = some true then
      match writeUTXO st tx ts idx o with
      | .ok st' => writeOutputs r (idx + 1) st' tx ts
      | .error e => .error e
    else writeOutputs r (idx + 1) st tx ts

/-- `finalizeTransaction` -/
def finalizeTransaction (cap : Id → Nat) (st : State) (tx : Tx) (snap : Id) (ts : Nat) : Except Fail State :=
  match aget st.fin tx.id with
  | some _ => .ok st
  | none =>
    let st1 := { st with fin := aset st.fin tx.id snap }
    match tx.inputs with
    | [] => .error .panic
    | in0 :: _ =>
      let r2 : Except Fail State :=
        match in0 with
        | .deposit _ chain key _ => writeAssetInfo st1 tx.asset (chain, key)
        | _ => .ok st1
      match r2 with
      | .error e => .error e
      | .ok st2 =>
        if !outputsKnown tx.outputs then .error .panic else
        match writeOutputs tx.outputs 0 st2 tx ts with
        | .error e => .error e
        | .ok st3 => writeTotal cap st3 tx

/-- `verifyAssetInfo(txn, ver.Asset, d.Asset())` when the first input is a deposit -/
def depositInfoOk (st : State) (tx : Tx) : Bool :=
  match tx.inputs with
  | .deposit _ chain key _ :: _ => verifyAssetInfo st tx.asset (chain, key)
  | _ => true

/-- inner `writeTransaction` -/
def writeTransactionInner (st : State) (tx : Tx) : Except Fail State :=
  match aget st.txs tx.id with
  | some _ => .ok st
  | none => if depositInfoOk st tx then .ok { st with txs := aset st.txs tx.id tx } else .error .err

/-- the `config.Debug` assertion of `WriteTransaction`: every input is locked for this transaction -/
def inputLockedFor (st : State) (tx : Tx) : Input → Bool
  | .genesis => true
  | .deposit key _ _ _ => aget st.deposit key = some tx.id
  | .mint batch amount => aget st.mint batch = some (amount, tx.id)
  | .utxo h i =>
    match aget st.utxo (h, i) with
    | some u => u.lock = some tx.id
    | none => false

/-- `WriteTransaction` as one atomic step -/
def writeTransactionTxn (st : State) (tx : Tx) : Except Fail State :=
  if tx.inputs.isEmpty then .error .panic            -- ver.Inputs[0] in writeTransaction
  else if !tx.inputs.all (inputLockedFor st tx) then .error .panic
  else writeTransactionInner st tx

/-! ### storage/badger_graph.go, badger_topology.go, badger_work.go -/

/-- the loop of `writeSnapshot` over `snap.Transactions` -/
def finalizeAll (cap : Id → Nat) : List Id → State → Snap → Except Fail State
  | [], st, _ => .ok st
  | txh :: r, st, snap =>
    match aget st.txs txh with
    | none => .error .panic            -- readTransaction returns nil; finalizeTransaction dereferences it
    | some tx =>
      match finalizeTransaction cap st tx snap.id snap.ts with
      | .error e => .error e
      | .ok st' => finalizeAll cap r { st' with unique := aset st'.unique (txh, snap.node) () } snap

/-- `writeSnapshot` + `writeTopology` -/
def writeSnapshotInner (cap : Id → Nat) (st : State) (snap : Snap) : Except Fail State :=
  match finalizeAll cap snap.txs st snap with
  | .error e => .error e
  | .ok st1 =>
    let st2 := { st1 with snaps := aset st1.snaps snap.id snap }
    match aget st2.topo snap.topo with
    | some _ => .error .panic
    | none => .ok { st2 with topo := aset st2.topo snap.topo snap.id,
                             snapTopo := aset st2.snapTopo snap.id snap.topo }

def writeSnapshotWork (st : State) (snap : Snap) (signers : Nat) : State :=
  { st with work := aset st.work (snap.node, snap.round, snap.ts) (snap.id, signers) }

/-- the `config.Debug` assertions of `WriteSnapshot` (the round-number assertion is not modelled:
    the harness always writes into the current cache round) -/
def debugAsserts (st : State) (snap : Snap) : Bool :=
  (aget st.snaps snap.id).isNone &&
  snap.txs.all (fun txh => (aget st.txs txh).isSome && (aget st.unique (txh, snap.node)).isNone)

/-- body of `WriteSnapshot` between `NewTransaction(true)` and `Commit()` -/
def writeSnapshotTxn (cap : Id → Nat) (st : State) (snap : Snap) (signers : Nat) : Except Fail State :=
  if !debugAsserts st snap then .error .panic else
  match writeSnapshotInner cap st snap with
  | .error e => .error e
  | .ok st1 => .ok (writeSnapshotWork st1 snap signers)

/-- a Badger write transaction: committed as a whole or discarded as a whole -/
def atomic (st : State) (r : Except Fail State) : Option Fail × State :=
  match r with
  | .ok st' => (none, st')
  | .error e => (some e, st)

/-- `BadgerStore.WriteSnapshot` -/
def WriteSnapshot (cap : Id → Nat) (st : State) (snap : Snap) (signers : Nat) : Option Fail × State :=
  atomic st (writeSnapshotTxn cap st snap signers)

/-- `BadgerStore.WriteTransaction` -/
def WriteTransaction (st : State) (tx : Tx) : Option Fail × State :=
  atomic st (writeTransactionTxn st tx)

/-! ### locks: storage/badger_utxo.go, badger_deposit.go, badger_mint.go -/

/-- `pruneTransaction` -/
def pruneTransaction (st : State) (t : Id) : Except Fail State :=
  if finalized st t then .error .err else .ok { st with txs := adel st.txs t }

/-- `lockUTXO` -/
def lockUTXO (st : State) (h : Id) (i : Nat) (t : Id) (fork : Bool) : Except Fail State :=
  match aget st.utxo (h, i) with
  | none => .error .err
  | some u =>
    let u' : UTXO := ⟨u.asset, u.typ, u.amount, u.keys, some t⟩
    let set (s : State) : State := { s with utxo := aset s.utxo (h, i) u' }
    match u.lock with
    | none => .ok (set st)
    | some l =>
      if l = t then .ok (set st)
      else if !fork then .error .err
      else match pruneTransaction st l with
        | .ok st' => .ok (set st')
        | .error e => .error e

def lockUTXOs : List Input → State → Id → Bool → Except Fail State
  | [], st, _, _ => .ok st
  | .utxo h i :: r, st, t, fork =>
    match lockUTXO st h i t fork with
    | .ok st' => lockUTXOs r st' t fork
    | .error e => .error e
  | _ :: _, _, _, _ => .error .err        -- zero hash: no such UTXO key

/-- `LockDepositInput` -/
def lockDeposit (st : State) (key : Id) (t : Id) (fork : Bool) : Except Fail State :=
  match aget st.deposit key with
  | none => .ok { st with deposit := aset st.deposit key t }
  | some l =>
    if l = t then .ok st
    else if !fork then .error .err
    else match pruneTransaction st l with
      | .ok st' => .ok { st' with deposit := aset st'.deposit key t }
      | .error e => .error e

/-- `LockMintInput` -/
def lockMint (st : State) (batch amount : Nat) (t : Id) (fork : Bool) : Except Fail State :=
  match aget st.mint batch with
  | none => .ok { st with mint := aset st.mint batch (amount, t) }
  | some (a, l) =>
    if l = t ∧ a = amount then .ok st
    else if !fork then .error .err
    else match pruneTransaction st l with
      | .ok st' => .ok { st' with mint := aset st'.mint batch (amount, t) }
      | .error e => .error e

/-- `VersionedTransaction.LockInputs` (each branch is one Badger `Update`) -/
def lockInputsTxn (st : State) (tx : Tx) (fork : Bool) : Except Fail State :=
  match txType tx with
  | .mint =>
    match tx.inputs with
    | .mint b a :: _ => lockMint st b a tx.id fork
    | _ => .error .panic
  | .deposit =>
    match tx.inputs with
    | .deposit k _ _ _ :: _ => lockDeposit st k tx.id fork
    | _ => .error .panic
  | _ => lockUTXOs tx.inputs st tx.id fork

def LockInputs (st : State) (tx : Tx) (fork : Bool) : Option Fail × State :=
  atomic st (lockInputsTxn st tx fork)

/-! ### common/validation.go (the parts C16 speaks about) -/

structure Params where
  cap : Id → Nat
  xin : Id
  claimFee : Nat
  /-- oracle (real `Asset.Verify`, through the harness): is this asset key well formed, i.e. non-empty and
      without surrounding white space? The chain rule of `Asset.Verify` is `chain ≠ 0` (0 = the zero hash). -/
  akeyOk : Id → Bool := fun _ => true
  /-- oracle: is the deposit's transaction string well formed (non-empty, no surrounding white space)? -/
  depTxOk : Id → Bool := fun _ => true

/-- `validateReferences` -/
def refsFinalized (st : State) (tx : Tx) : Bool :=
  tx.refs.all (fun r => (aget st.txs r).isSome && finalized st r)

/-- `validateUTXO`, with the signature checks answered by the oracle -/
def utxoTypeAllowed (ty : TxType) : OutType → Bool
  | .script | .nodeRemove => true
  | .nodePledge => ty = .nodeAccept || ty = .nodeCancel
  | .nodeAccept => ty = .nodeRemove
  | _ => false

/-- loop of `validateInputs`: `none` = rejected; `some (amount, utxos)`.
    A mint or deposit input ends the loop at once (`return … in.Mint.Amount, nil`). -/
def validateInputsLoop (st : State) (tx : Tx) (ty : TxType) (fork : Bool) :
    List Input → List (Id × Nat) → Nat → List UTXO → Option (Nat × List UTXO × Bool)
  | [], _, amt, us => some (amt, us, true)
  | .genesis :: _, _, _, _ => none
  | .mint _ a :: _, _, _, us => some (a, us, false)
  | .deposit _ _ _ a :: _, _, _, us => some (a, us, false)
  | .utxo h i :: r, seen, amt, us =>
    if (h, i) ∈ seen then none else
    match aget st.utxo (h, i) with
    | none => none
    | some u =>
      if u.asset ≠ tx.asset then none
      else if (match u.lock with | some l => l ≠ tx.id && !fork | none => false) then none
      else if !utxoTypeAllowed ty u.typ then none
      else validateInputsLoop st tx ty fork r ((h, i) :: seen) (amt + u.amount) (us ++ [u])

/-- keys of all outputs, in order -/
def ghostKeys (tx : Tx) : List Id := tx.outputs.flatMap (·.keys)

/-- per-output checks of `validateOutputs` that the model can see -/
def outputShapeOk (o : Output) : Bool :=
  o.amount > 0 &&
  (match o.typ with
   | .withdrawalSubmit | .withdrawalClaim | .nodePledge | .nodeCancel | .nodeAccept => o.keys.isEmpty
   | _ => true)

def nodup : List Id → Bool
  | [] => true
  | k :: r => !(r.contains k) && nodup r

def outSum (outs : List Output) : Nat := (outs.map (·.amount)).foldr (· + ·) 0

/-- `validateMint` after the structural checks -/
def mintBatchOk (st : State) (tx : Tx) (batch amount : Nat) : Bool :=
  -- ReadLastMintDistribution(max): the finalized distribution with the greatest batch
  let fin := st.mint.filter (fun e => finalized st e.2.2)
  match fin.foldl (fun (best : Option (Nat × Nat × Id)) e =>
      match best with
      | none => some (e.1, e.2.1, e.2.2)
      | some b => if e.1 > b.1 then some (e.1, e.2.1, e.2.2) else some b) none with
  | none => true
  | some (b, a, t) =>
    if batch < b then false else if batch > b then true else t = tx.id && a = amount

/-- everything `Validate` does up to and including `LockGhostKeys`: `none` = rejected (state
    untouched), `some (st1, us)` = the ghost keys are now held and `us` are the spent outputs -/
def validateCore (st : State) (tx : Tx) (fork : Bool) : Option (State × List UTXO) :=
  let ty := txType tx
  if ty = .unknown then none else
  if tx.inputs.isEmpty || tx.outputs.isEmpty then none else
  if !refsFinalized st tx then none else
  match validateInputsLoop st tx ty fork tx.inputs [] 0 [] with
  | none => none
  | some (inAmt, us, needSig) =>
    if needSig && !tx.sigOk then none else
    if inAmt = 0 then none else
    if !tx.outputs.all outputShapeOk then none else
    if !nodup (ghostKeys tx) then none else
    if inAmt ≠ outSum tx.outputs then none else
    match lockGhostKeys (ghostKeys tx) st tx.id with
    | .error _ => none
    | .ok st1 => some (st1, us)

/-- the type-specific tail of `Validate` (reads only) -/
def validateType (P : Params) (st1 : State) (tx : Tx) (us : List UTXO) : Bool :=
  match txType tx with
  | .script => us.all (fun u => u.typ = .script || u.typ = .nodeRemove)
  | .mint =>
    (match tx.inputs with
     | [.mint b a] => tx.outputs.all (·.typ = .script) && tx.asset = P.xin && mintBatchOk st1 tx b a
     | _ => false)
  | .deposit =>
    (match tx.inputs, tx.outputs with
     | [.deposit key chain akey amount], [o] =>
       o.typ = .script &&
       -- verifyDepositData, in the order of the code: the format of the deposit's own data is checked
       -- before anything is read from the store, hence also for the first deposit of an unseen asset
       (chain ≠ 0 && P.akeyOk akey) && P.depTxOk key &&
       (match aget st1.assetInfo tx.asset with
        | none => true
        | some old => readTotal st1 tx.asset + amount < P.cap tx.asset && old = (chain, akey)) &&
       tx.custOk &&
       (match aget st1.deposit key with
        | none => true
        | some l => l = tx.id)
     | _, _ => false)
  | .withdrawalSubmit =>
    us.all (·.typ = .script) &&
    (match tx.outputs with
     | o :: r => r.all (·.typ = .script) && o.typ = .withdrawalSubmit
     | [] => false)
  | .withdrawalClaim =>
    us.all (·.typ = .script) && tx.asset = P.xin &&
    (match tx.outputs, tx.refs with
     | o :: r, [ref] =>
       r.all (·.typ = .script) && o.typ = .withdrawalClaim && o.amount ≥ P.claimFee &&
       (match aget st1.txs ref with
        | some sub => (match sub.outputs with
                       | so :: _ => so.typ = .withdrawalSubmit
                       | [] => false)
        | none => false) && tx.custOk
     | _, _ => false)
  | _ => false

/-- `Validate(store, snapTime, fork)`: decision and the state after it (validation takes the
    ghost-key locks as a side effect, before the type-specific checks). Node and custodian
    transaction types are outside this model (`false`, never generated). -/
def validate (P : Params) (st : State) (tx : Tx) (fork : Bool) : Bool × State :=
  match validateCore st tx fork with
  | none => (false, st)
  | some (st1, us) => (validateType P st1 tx us, st1)

/-! ### kernel/self.go: validateSnapshotTransaction -/

/-- `IsSnapshotBatchable` -/
def batchable (tx : Tx) : Bool :=
  match txType tx with
  | .script | .deposit | .withdrawalSubmit | .withdrawalClaim => true
  | _ => false

/-- `validateKernelSnapshot` for the transaction classes of this model: several transactions in one
    snapshot must all be batchable; a single script / deposit / withdrawal transaction has no extra rule.
    Mint, node and custodian transactions (a single one per snapshot) have kernel rules outside this
    model: `false`, never generated. -/
def kernelSnapshotRule (multi : Bool) (tx : Tx) : Bool := batchable tx

/-- one iteration of the loop of `validateSnapshotTransaction`. `some .err` = the snapshot is refused;
    the state keeps what the iteration already wrote (ghost locks, input locks, the persisted body).
    * a body found in the persistent store is trusted: no `Validate`, no locking;
    * a cached body goes through `Validate`, the batch rule, `LockInputs`, `WriteTransaction`. -/
def kernelValidateTx (P : Params) (st : State) (snap : Id) (multi finalized : Bool) (tx : Tx) :
    Option Fail × State :=
  match aget st.txs tx.id with
  | some _ =>
    if !finalized && (match aget st.fin tx.id with | some s => s ≠ snap | none => false) then (some .err, st)
    else if kernelSnapshotRule multi tx then (none, st) else (some .err, st)
  | none =>
    match validate P st tx finalized with
    | (false, st1) => (some .err, st1)
    | (true, st1) =>
      if !kernelSnapshotRule multi tx then (some .err, st1) else
      match LockInputs st1 tx finalized with
      | (some .panic, st2) => (some .panic, st2)
      | (some .err, st2) => (some .err, st2)
      | (none, st2) =>
        match WriteTransaction st2 tx with
        | (none, st3) => (none, st3)
        | (some e, st3) => (some e, st3)

/-- `validateSnapshotTransaction(s, finalized)` with every member available in the cache store -/
def kernelValidate (P : Params) (snap : Id) (multi finalized : Bool) : List Tx → State → Option Fail × State
  | [], st => (none, st)
  | tx :: r, st =>
    match kernelValidateTx P st snap multi finalized tx with
    | (none, st1) => kernelValidate P snap multi finalized r st1
    | (some e, st1) => (some e, st1)

/-! ### what C17 observes -/

/-- is this UTXO entry consumed by a finalized transaction? -/
def consumed (st : State) (u : UTXO) : Bool :=
  match u.lock with
  | none => false
  | some t => finalized st t

def sumIf (f : UTXO → Bool) : List ((Id × Nat) × UTXO) → Nat
  | [] => 0
  | (_, u) :: r => (if f u then u.amount else 0) + sumIf f r

/-- value of asset `a` held in outputs not consumed by any finalized transaction -/
def unspent (st : State) (a : Id) : Nat :=
  sumIf (fun u => u.asset = a && !consumed st u) st.utxo

end Mixin.Ledger
