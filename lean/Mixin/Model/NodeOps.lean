import Mixin.Model.Election
import Mixin.Model.Amount
/-
  Acceptance of node-operation snapshots (property C29): models of the kernel validators
  `validateNodePledgeSnapshot`, `validateNodeCancelSnapshot`, `validateNodeAcceptSnapshot`
  (with `checkNodeAcceptPossibility` / `buildNodeAcceptTransaction`) and
  `validateNodeRemoveSnapshot` (with `buildNodeRemoveTransaction`) of kernel/election.go, and of
  the node-operation lock `storage.AddNodeOperation` they end in.

  A transaction is modelled by what the validators read — payload hash, amount of output 0,
  hash of input 0, the extra (a digest, its first 32 bytes as a key, the node id of the signer
  it names) — plus `rest`, one opaque value for every other payload byte. Comparing payload
  hashes with a kernel-built transaction is comparing (input, amount, extra, rest); the `rest`
  of the kernel-built one is an input (`canonRest`, taken from the real builder by the harness).

  Store reads the validators trust (inputs): the node-state history (C11), the stored
  pledge / accept transactions (`ReadTransaction`), the last node operation (lock), the graph
  timestamp, and for the accept validator the chain identity derived at the clock's "now".
-/
namespace Mixin.NodeOps
open Mixin.Election Mixin.Facts

def pledgeAmount : Nat := Mixin.Amount.ofUint Gen.common_KernelNodePledgeAmount_NewInteger
def maxNodes : Nat := Gen.config_KernelMaximumNodesCount
/-- `config.SnapshotRoundGap * config.SnapshotReferenceThreshold * 2` -/
def staleGap : Nat := Gen.config_SnapshotRoundGap * Gen.config_SnapshotReferenceThreshold * 2

inductive Decision where
  | accept
  | reject
  | panic
deriving DecidableEq, Repr

structure OpTx where
  hash : Nat
  amount : Nat
  input : Nat
  extra : Nat      -- digest of the extra bytes
  key1 : Nat       -- extra[0:32] (zero padded) as a key
  signerId : Nat   -- node id of the signer address derived from extra[0:32]
  rest : Nat
deriving DecidableEq, Repr

/-- spend keys of a node's signer and payee -/
structure Keys where
  id : Nat
  signer : Nat
  payee : Nat

/-- a transaction the store returns for a hash (`ReadTransaction`) -/
structure Stored where
  hash : Nat
  amount : Nat     -- amount of output 0
  extra : Nat      -- digest of the extra bytes
  extraLen : Nat
  key1 : Nat       -- extra[0:32]
  key2 : Nat       -- extra[32:64]

/-- the newest entry of the node-operation table: kind 1 = PLEDGE, 2 = CANCEL -/
structure OpLock where
  kind : Nat
  hash : Nat
  ts : Nat
deriving DecidableEq, Repr

structure OpsEnv where
  hist : List Rec
  epoch : Nat
  keys : List Keys
  stored : List Stored
  graphTs : Nat

def keysOf (env : OpsEnv) (id : Nat) : Keys :=
  match env.keys.find? (fun k => k.id == id) with
  | some k => k
  | none => ⟨id, 0, 0⟩

def storedOf (env : OpsEnv) (h : Nat) : Option Stored := env.stored.find? (fun s => s.hash == h)

/-- `storage.AddNodeOperation(tx, timestamp, threshold, finalized)`: `none` = error, otherwise
    the newest entry afterwards -/
def addNodeOp (lock : Option OpLock) (kind hash ts threshold : Nat) (finalized : Bool) : Option (Option OpLock) :=
  let l : OpLock := match lock with | some l => l | none => ⟨0, 0, 0⟩
  let write : Option OpLock := if ts ≥ l.ts then some ⟨kind, hash, ts⟩ else lock
  if (l.ts + threshold) % two64 ≥ ts then
    if l.kind = kind ∧ l.hash = hash then some lock
    else if !finalized then none
    else some write
  else some write

/-- the loop of `validateNodePledgeSnapshot` over `NodesListWithoutState(ts + PledgePeriodMinimum, false)`:
    `some true` = accept at once (the pledge is already recorded), `some false` = go on, `none` = reject -/
def pledgeLoop (env : OpsEnv) (ts : Nat) (tx : OpTx) : List Rec → Nat → Option (Bool × Nat)
  | [], total => some (false, total)
  | cn :: rest, total =>
    if cn.tx = tx.hash then some (true, total)
    else if cn.ts > ts then none
    else if asInt64 (usub ts cn.ts) < (pledgePeriodMin : Int) then none
    else if (keysOf env cn.id).signer = tx.key1 then none
    else if (keysOf env cn.id).payee = tx.key1 then none
    else match cn.state with
      | .accepted => pledgeLoop env ts tx rest (total + 1)
      | .removed => pledgeLoop env ts tx rest total
      | .cancelled => pledgeLoop env ts tx rest total
      | .pledging => none

/-- `validateNodePledgeSnapshot(s, tx, finalized)`; the second component is the node-operation
    lock afterwards -/
def validatePledge (env : OpsEnv) (lock : Option OpLock) (proposer ts : Nat) (finalized : Bool) (tx : OpTx) :
    Decision × Option OpLock :=
  match pledgeGate env.hist env.epoch ts proposer with
  | .panic => (.panic, lock)
  | .reject => (.reject, lock)
  | .pass =>
    if tx.amount ≠ pledgeAmount then (.reject, lock) else
    match pledgeLoop env ts tx (nodesList env.hist ((ts + pledgePeriodMin) % two64) false) 0 with
    | none => (.reject, lock)
    | some (true, _) => (.accept, lock)
    | some (false, total) =>
      if total ≥ maxNodes then (.reject, lock) else
      match addNodeOp lock 1 tx.hash ts (pledgePeriodMin * 2) finalized with
      | none => (.reject, lock)
      | some l => (.accept, l)

/-- `validateNodeCancelSnapshot(s, tx, finalized)` -/
def validateCancel (env : OpsEnv) (lock : Option OpLock) (ts : Nat) (finalized : Bool) (tx : OpTx) :
    Decision × Option OpLock :=
  if ts < env.epoch then (.reject, lock) else
  match pledgingNode env.hist ts with
  | none => (.reject, lock)
  | some p =>
    if !acceptHour env.epoch ts then (.reject, lock)
    else if !finalized ∧ (ts + staleGap) % two64 < env.graphTs then (.reject, lock)
    else if ts < p.ts then (.reject, lock)
    else if asInt64 (ts - p.ts) < (acceptPeriodMin : Int) then (.reject, lock)
    else if asInt64 (ts - p.ts) > (acceptPeriodMax : Int) then (.reject, lock)
    else match addNodeOp lock 2 tx.hash ts (pledgePeriodMin * 2) finalized with
      | none => (.reject, lock)
      | some l => (.accept, l)

/-- what `getOrCreateChain(id)` yields: no chain, or a chain with an optional `ConsensusInfo`
    (the node record at the clock's now) and the flag `State != nil` -/
structure ChainView where
  exists_ : Bool
  info : Option Rec
  hasState : Bool

/-- `validateNodeAcceptSnapshot(s, tx, finalized)` for the chain `s.NodeId` -/
def validateAccept (env : OpsEnv) (chain : ChainView) (round ts : Nat) (future finalized : Bool)
    (canonRest : Nat) (tx : OpTx) : Decision :=
  if round ≠ 0 then .reject
  else if !chain.exists_ then .panic   -- nil chain: the first error message dereferences it
  else if future then .reject
  else if chain.hasState then .reject
  else match pledgingNode env.hist ts with
    | none => .reject
    | some p =>
      match chain.info with
      | none => .panic
      | some ci =>
        if p.id ≠ ci.id then .reject
        else if ts < env.epoch then .reject
        else if !acceptHour env.epoch ts then .reject
        else if !finalized ∧ (ts + staleGap) % two64 < env.graphTs then .reject
        else if ts < p.ts then .reject
        else if asInt64 (ts - p.ts) < (acceptPeriodMin : Int) then .reject
        else if asInt64 (ts - p.ts) > (acceptPeriodMax : Int) then .reject
        else match storedOf env ci.tx with
          | none => .reject
          | some pledge =>
            if pledge.extraLen ≠ 64 then .reject
            else if (keysOf env ci.id).signer ≠ pledge.key1 then .reject
            else if tx.input = ci.tx ∧ tx.amount = pledge.amount ∧ tx.extra = pledge.extra ∧ tx.rest = canonRest
              then .accept else .reject

/-- `validateNodeRemoveSnapshot(s, tx, finalized)` -/
def validateRemove (env : OpsEnv) (proposer ts : Nat) (finalized : Bool) (canonRest : Nat) (tx : OpTx) : Decision :=
  match electedIs env.hist env.epoch Gen.common_TransactionTypeNodeRemove ts proposer with
  | .panic => .panic
  | .reject => .reject
  | .pass =>
    if env.hist.any (fun cn => cn.state == .removed && cn.id == tx.signerId && finalized && cn.tx == tx.hash) then .accept
    else match checkRemove env.hist env.epoch proposer ts (some tx.hash) with
      | none => .reject
      | some candi =>
        if candi.tx = tx.hash then .accept
        else match storedOf env candi.tx with
          | none => .reject
          | some acc =>
            if acc.extraLen ≠ 64 then .reject
            else if (keysOf env candi.id).signer ≠ acc.key1 ∨ (keysOf env candi.id).payee ≠ acc.key2 then .reject
            else if tx.input = candi.tx ∧ tx.amount = acc.amount ∧ tx.extra = acc.extra ∧ tx.rest = canonRest
              then .accept else .reject

/-! ## the validators on a snapshot `(snapNode, snapTs)`, as run by the node `self` whose clock shows `clock` -/

def validatePledgeSnap (self clock : Nat) (env : OpsEnv) (lock : Option OpLock) (snapNode snapTs : Nat)
    (finalized : Bool) (tx : OpTx) : Decision × Option OpLock :=
  validatePledge env lock snapNode (opTime self clock snapNode snapTs) finalized tx

def validateCancelSnap (self clock : Nat) (env : OpsEnv) (lock : Option OpLock) (snapNode snapTs : Nat)
    (finalized : Bool) (tx : OpTx) : Decision × Option OpLock :=
  validateCancel env lock (opTime self clock snapNode snapTs) finalized tx

/-- `chain`, `future` and `canonRest` are the reads at the time used (see `validateAccept`) -/
def validateAcceptSnap (self clock : Nat) (env : OpsEnv) (chain : ChainView) (round snapNode snapTs : Nat)
    (future finalized : Bool) (canonRest : Nat) (tx : OpTx) : Decision :=
  validateAccept env chain round (opTime self clock snapNode snapTs) future finalized canonRest tx

def validateRemoveSnap (self clock : Nat) (env : OpsEnv) (snapNode snapTs : Nat) (finalized : Bool)
    (canonRest : Nat) (tx : OpTx) : Decision :=
  validateRemove env snapNode (opTime self clock snapNode snapTs) finalized canonRest tx

end Mixin.NodeOps
