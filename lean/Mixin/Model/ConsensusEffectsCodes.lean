import Mixin.Model.ConsensusEffects
import Mixin.Model.ConsensusChainCodes
/-! Numeric codes of classes and output types, from the regenerated constants. -/
namespace Mixin.ConsensusEffects
open Mixin.Facts

def Class.code : Class → Nat
  | .script => Gen.common_TransactionTypeScript
  | .mint => Gen.common_TransactionTypeMint
  | .deposit => Gen.common_TransactionTypeDeposit
  | .wSubmit => Gen.common_TransactionTypeWithdrawalSubmit
  | .wClaim => Gen.common_TransactionTypeWithdrawalClaim
  | .pledge => Gen.common_TransactionTypeNodePledge
  | .accept => Gen.common_TransactionTypeNodeAccept
  | .remove => Gen.common_TransactionTypeNodeRemove
  | .cancel => Gen.common_TransactionTypeNodeCancel
  | .custUpdate => Gen.common_TransactionTypeCustodianUpdateNodes
  | .custSlash => Gen.common_TransactionTypeCustodianSlashNodes
  | .unknown => Gen.common_TransactionTypeUnknown

def OType.ofCode (n : Nat) : OType :=
  if n == Gen.common_OutputTypeScript then .script
  else if n == Gen.common_OutputTypeWithdrawalSubmit then .wSubmit
  else if n == Gen.common_OutputTypeWithdrawalClaim then .wClaim
  else if n == Gen.common_OutputTypeNodePledge then .pledge
  else if n == Gen.common_OutputTypeNodeCancel then .cancel
  else if n == Gen.common_OutputTypeNodeAccept then .accept
  else if n == Gen.common_OutputTypeNodeRemove then .remove
  else if n == Gen.common_OutputTypeCustodianUpdateNodes then .custUpdate
  else if n == Gen.common_OutputTypeCustodianSlashNodes then .custSlash
  else .other n

end Mixin.ConsensusEffects
