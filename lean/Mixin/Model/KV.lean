/-!
# Badger key space touched by the lock / prune / finalize code (C03, C04)

Badger is modelled as one association list per key family (`Map`), the whole database as
the record `Store`.  A storage call is one *atomic transaction*: a function
`Store → Res`, whose result store replaces the old one only when the call returns `ok`
(`Res.err` = the Go call returned an error and Badger discarded the transaction,
`Res.panic` = the Go code panicked; the deferred `Discard` drops the writes as well).

Identifiers (transaction hashes, output keys, deposit ids) are natural numbers chosen
by the harness; `0` is the all-zero hash (`crypto.Hash{}`, `HasValue() = false`).
-/
namespace Mixin.KV

/-- association list; `get` returns the first binding, `set` replaces the first binding in
    place (or appends), `del` removes every binding of the key. -/
abbrev Map (κ ν : Type) := List (κ × ν)

namespace Map
variable {κ ν : Type} [DecidableEq κ]

def get : Map κ ν → κ → Option ν
  | [], _ => none
  | (k', v) :: r, k => if k' = k then some v else get r k

def set : Map κ ν → κ → ν → Map κ ν
  | [], k, v => [(k, v)]
  | (k', v') :: r, k, v => if k' = k then (k, v) :: r else (k', v') :: set r k v

def del : Map κ ν → κ → Map κ ν
  | [], _ => []
  | (k', v) :: r, k => if k' = k then del r k else (k', v) :: del r k

end Map

/-- The key families.  Values keep only what the lock code reads or changes:
  * `utxo (h,i) ↦ LockHash` (0 = not locked; the other UTXO fields never change),
  * `deposit d ↦ tx`, `mint batch ↦ (tx, amount)`, `ghost key ↦ tx`,
  * `tx h`, `fin h`, `unique (node,h)` are presence markers
    (TRANSACTION body, FINALIZATION record, UNIQUE per-node record). -/
structure Store where
  utxo : Map (Nat × Nat) Nat := []
  deposit : Map Nat Nat := []
  mint : Map Nat (Nat × Nat) := []
  tx : Map Nat Unit := []
  fin : Map Nat Unit := []
  ghost : Map Nat Nat := []
  unique : Map (Nat × Nat) Unit := []
  deriving DecidableEq, Repr

def Store.empty : Store := {}

/-- result of one atomic storage call -/
inductive Res where
  | ok (s : Store)
  | err
  | panic
  deriving DecidableEq, Repr

def Res.isOk : Res → Bool
  | .ok _ => true
  | _ => false

end Mixin.KV
