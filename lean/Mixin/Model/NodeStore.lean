/-!
# Model of the durable membership history (C27)

Source: `storage/badger_node.go` — `readAllNodes`, `writeNodePledge`, `writeNodeAccept`,
`writeNodeCancel`, `writeNodeRemove`.

The `NODESTATEQUEUE` key space maps `(timestamp, signer)` to `(payee, transaction, state)`.
Badger iterates keys in byte order: big-endian timestamp first, then the 32 signer bytes;
keys are modelled as `Nat` (the big-endian value of the 32 bytes), so key order is the order
on `(ts, signer)`. A write to an existing `(ts, signer)` key replaces the value.

Every writer runs inside one Badger write transaction that is committed only when the
writer returned `nil`; a panic or an error leaves the store as it was (`Outcome`).
-/
namespace Mixin.NodeStore

inductive NState where
  | pledging | accepted | removed | cancelled
  deriving DecidableEq, Repr

structure Rec where
  ts : Nat
  signer : Nat
  payee : Nat
  tx : Nat
  state : NState
  deriving DecidableEq, Repr

/-- the key space, kept in key order `(ts, signer)` with unique keys -/
abbrev Store := List Rec

def keyLt (a b : Rec) : Bool := a.ts < b.ts || (a.ts == b.ts && a.signer < b.signer)
def sameKey (a b : Rec) : Bool := a.ts == b.ts && a.signer == b.signer

/-- `txn.Set(nodeStateQueueKey(signer, ts), value)` -/
def put : Store → Rec → Store
  | [], r => [r]
  | x :: xs, r =>
    if sameKey x r then r :: xs
    else if keyLt r x then r :: x :: xs
    else x :: put xs r

def u64 : Nat := 2 ^ 64

/-- `timestamp + uint64(period)` in `uint64` arithmetic -/
def offset (ts period : Nat) : Nat := (ts + period) % u64

/-- the de-duplication of `readAllNodes(…, withState=false)`: the `filter` map keeps, per
    signer, the record visited last; the result is then sorted by timestamp. Here: the last
    record of every signer, in key order (the Go order among equal timestamps is the
    iteration order of a map, the harness sorts by key). -/
def dedup : List Rec → List Rec
  | [] => []
  | r :: rest => if rest.any (fun x => x.signer == r.signer) then dedup rest else r :: dedup rest

/-- `readAllNodes(txn, threshold, withState)`; `none` = panic (a record with timestamp 0 is
    hit by the iteration before the threshold test). The "malformed order" panic cannot fire:
    records are visited in key order. -/
def readAll (s : Store) (threshold : Nat) (withState : Bool) : Option (List Rec) :=
  if s.any (fun r => r.ts == 0) then none
  else
    let nodes := s.filter (fun r => r.ts ≤ threshold)
    some (if withState then nodes else dedup nodes)

inductive Outcome where
  | ok (s : Store)
  | reject
  | panic
  deriving DecidableEq, Repr

structure Cfg where
  pledgePeriod : Nat   -- config.KernelNodePledgePeriodMinimum
  acceptPeriod : Nat   -- config.KernelNodeAcceptPeriodMinimum

def isSettled (st : NState) : Bool :=
  match st with
  | .accepted | .removed | .cancelled => true
  | .pledging => false

/-- `writeNodePledge` -/
def writePledge (c : Cfg) (s : Store) (signer payee tx ts : Nat) : Outcome :=
  match readAll s (offset ts c.pledgePeriod) false with
  | none => .panic
  | some nodes =>
    if !(nodes.all (fun n => isSettled n.state)) then .reject
    else if nodes.any (fun n => n.signer == signer || n.tx == tx) then .reject
    else .ok (put s ⟨ts, signer, payee, tx, .pledging⟩)

/-- the common guard of `writeNodeAccept` (non-genesis) and `writeNodeCancel` on the list read -/
def pledgingGuardOn (nodes : List Rec) (signer payee : Nat) : Option Bool :=
  match nodes.getLast? with
  | none => none                       -- nodes[len(nodes)-1] on an empty slice
  | some last =>
    if last.state != .pledging then some false
    else if last.signer != signer || last.payee != payee then some false
    else some true

def pledgingGuard (c : Cfg) (s : Store) (signer payee ts : Nat) : Option Bool :=
  match readAll s (offset ts c.acceptPeriod) true with
  | none => none
  | some nodes => pledgingGuardOn nodes signer payee

/-- `writeNodeCancel` -/
def writeCancel (c : Cfg) (s : Store) (signer payee tx ts : Nat) : Outcome :=
  match pledgingGuard c s signer payee ts with
  | none => .panic
  | some false => .reject
  | some true => .ok (put s ⟨ts, signer, payee, tx, .cancelled⟩)

/-- `writeNodeAccept` -/
def writeAccept (c : Cfg) (s : Store) (signer payee tx ts : Nat) (genesis : Bool) : Outcome :=
  if genesis then .ok (put s ⟨ts, signer, payee, tx, .accepted⟩)
  else
    match pledgingGuard c s signer payee ts with
    | none => .panic
    | some false => .reject
    | some true => .ok (put s ⟨ts, signer, payee, tx, .accepted⟩)

/-- the record of `signer` visited last (the `for … { if … { node = n } }` loop) -/
def lastOf (signer : Nat) : List Rec → Option Rec
  | [] => none
  | r :: rest =>
    match lastOf signer rest with
    | some x => some x
    | none => if r.signer == signer then some r else none

/-- the checks of `writeNodeRemove` on the list read; `new` is the store after the write -/
def removeOn (nodes : List Rec) (signer payee : Nat) (new : Store) : Outcome :=
  match nodes.getLast? with
  | none => .panic
  | some last =>
    if !(isSettled last.state) then .reject
    else
      match lastOf signer nodes with
      | none => .reject
      | some node =>
        if node.payee != payee then .reject
        else if node.state != .accepted then .reject
        else .ok new

/-- `writeNodeRemove` -/
def writeRemove (c : Cfg) (s : Store) (signer payee tx ts : Nat) : Outcome :=
  match readAll s (offset ts c.acceptPeriod) true with
  | none => .panic
  | some nodes => removeOn nodes signer payee (put s ⟨ts, signer, payee, tx, .removed⟩)

inductive OpKind where
  | pledge | accept | cancel | remove | genesis
  deriving DecidableEq, Repr

structure Op where
  kind : OpKind
  signer : Nat
  payee : Nat
  tx : Nat
  ts : Nat
  deriving DecidableEq, Repr

def write (c : Cfg) (s : Store) (o : Op) : Outcome :=
  match o.kind with
  | .pledge => writePledge c s o.signer o.payee o.tx o.ts
  | .accept => writeAccept c s o.signer o.payee o.tx o.ts false
  | .cancel => writeCancel c s o.signer o.payee o.tx o.ts
  | .remove => writeRemove c s o.signer o.payee o.tx o.ts
  | .genesis => writeAccept c s o.signer o.payee o.tx o.ts true

/-- one operation inside its own Badger transaction: committed only on success -/
def step (c : Cfg) (s : Store) (o : Op) : Store :=
  match write c s o with
  | .ok s' => s'
  | _ => s

def run (c : Cfg) (s : Store) (ops : List Op) : Store := ops.foldl (step c) s

end Mixin.NodeStore
