import Mixin.Model.ConsensusChain
import Mixin.Facts.Generated
/-! The transaction / output type codes of `common/transaction.go`, from the regenerated facts. -/
namespace Mixin.ConsensusChain
open Mixin.Facts

def realCodes : Codes :=
  { tScript := Gen.common_TransactionTypeScript
    tMint := Gen.common_TransactionTypeMint
    tDeposit := Gen.common_TransactionTypeDeposit
    tWithdrawalSubmit := Gen.common_TransactionTypeWithdrawalSubmit
    tWithdrawalClaim := Gen.common_TransactionTypeWithdrawalClaim
    tNodePledge := Gen.common_TransactionTypeNodePledge
    tNodeAccept := Gen.common_TransactionTypeNodeAccept
    tNodeRemove := Gen.common_TransactionTypeNodeRemove
    tNodeCancel := Gen.common_TransactionTypeNodeCancel
    tCustodianUpdate := Gen.common_TransactionTypeCustodianUpdateNodes
    tCustodianSlash := Gen.common_TransactionTypeCustodianSlashNodes
    oNodePledge := Gen.common_OutputTypeNodePledge
    oNodeCancel := Gen.common_OutputTypeNodeCancel
    oNodeAccept := Gen.common_OutputTypeNodeAccept
    oNodeRemove := Gen.common_OutputTypeNodeRemove
    oCustodianUpdate := Gen.common_OutputTypeCustodianUpdateNodes
    oCustodianSlash := Gen.common_OutputTypeCustodianSlashNodes }

end Mixin.ConsensusChain
