import Mixin.Model.Membership
/-!
# Finalization certificates (C09)

Model of `crypto/cosi.go` (`Keys`, `ThresholdVerify`, `FullVerify`), `crypto/aggregation.go`
(`collectAggregateSigners`: index checks), and `kernel/graph.go` (`cacheVerifyCosi`,
`verifyFinalization`). Signature validity is an oracle: `O ks hash sig` stands for
"decode the selected public keys `ks`, add them up to `A`, and `A.Verify(hash, sig)`"; the harness
supplies the answers of the real code. The ristretto cache is an association list; entries can be
missing at any time (eviction, dropped `Set`s), which the theorems cover by quantifying over tables.
-/
namespace Mixin.Finality
open Mixin.Membership

abbrev Oracle := List Nat → Nat → Nat → Bool

/-- `CosiSignature.Keys()`: positions of the set bits of the 64-bit mask, ascending -/
def maskKeys (mask : Nat) : List Nat := (List.range 64).filter (fun i => mask.testBit i)

/-- `collectAggregateSigners`: `none` when empty or an index is out of range (the order check
    cannot fail on the ascending output of `Keys()`) -/
def selectKeys (publics : List Nat) : List Nat → Option (List Nat)
  | [] => some []
  | i :: rest =>
    match publics[i]?, selectKeys publics rest with
    | some k, some ks => some (k :: ks)
    | _, _ => none

/-- `CosiSignature.FullVerify(publics, threshold, message)`: `true` = `nil` error -/
def fullVerify (O : Oracle) (publics : List Nat) (thr : Nat) (hash mask sig : Nat) : Bool :=
  if thr = 0 then false                                   -- threshold <= 0
  else if (maskKeys mask).length < thr then false         -- !ThresholdVerify
  else if (maskKeys mask).isEmpty then false              -- empty aggregation signers
  else match selectKeys publics (maskKeys mask) with
    | none => false
    | some ks => O ks hash sig

/-- what `cacheVerifyCosi` computes on a miss -/
def freshVerify (O : Oracle) (cids publics : List Nat) (thr hash mask sig : Nat) : List Nat × Bool :=
  if fullVerify O publics thr hash mask sig then ((maskKeys mask).map (fun k => cids.getD k 0), true)
  else ([], false)

/-- the cache key: snapshot hash, signature, all public keys, threshold, mask -/
structure CKey where
  hash : Nat
  sig : Nat
  publics : List Nat
  thr : Nat
  mask : Nat
deriving DecidableEq, Repr

/-- cached value: `none` is the one-byte failure marker, `some ids` the concatenated signer ids -/
abbrev Table := List (CKey × Option (List Nat))

def tableGet (t : Table) (k : CKey) : Option (Option (List Nat)) :=
  match t.find? (fun e => e.1 == k) with
  | some e => some e.2
  | none => none

/-- the hit branch: `convertBytesToSigners` and the two length tests -/
def decodeHit (mask : Nat) (v : Option (List Nat)) : List Nat × Bool :=
  match v with
  | none => ([], false)
  | some ids =>
    if ids.length ≠ (maskKeys mask).length then ([], false)
    else (ids, decide (ids.length > 0))

/-- `Node.cacheVerifyCosi` -/
def cacheVerifyCosi (O : Oracle) (t : Table) (hash sig mask : Nat) (cids publics : List Nat) (thr : Nat) :
    (List Nat × Bool) × Table :=
  let key : CKey := ⟨hash, sig, publics, thr, mask⟩
  match tableGet t key with
  | some v => (decodeHit mask v, t)
  | none =>
    let r := freshVerify O cids publics thr hash mask sig
    (r, (key, if r.2 then some r.1 else none) :: t)

structure Snap where
  version : Nat
  hasSig : Bool        -- s.Signature != nil
  mask : Nat
  sig : Nat
  hash : Nat
  hack : Bool          -- s.Hash.String() == mainnetNodeRemovalHackSnapshotHash
  ts : Nat
  round : Nat
deriving Repr, Inhabited

structure FConsts where
  version : Nat        -- common.SnapshotVersionCommonEncoding
  minute : Nat         -- time.Minute

def genFConsts : FConsts := { version := Mixin.Facts.Gen.common_SnapshotVersionCommonEncoding, minute := 60000000000 }

/-- the timestamp the certificate is checked at (the one hard-coded mainnet exception) -/
def certTs (fc : FConsts) (s : Snap) : Nat := if s.hack then s.ts - fc.minute else s.ts

/-- timestamp of the legacy retry (mainnet before the signer-set fork) -/
def legacyTs (c : Consts) (n : Node) (timestamp : Nat) : Nat :=
  let hour := (timestamp - n.epoch) / c.hour % 24
  timestamp - (hour + 1 - c.acceptBegin) * c.hour

/-- `Chain.verifyFinalization` -/
def verifyFinalization (c : Consts) (fc : FConsts) (O : Oracle) (n : Node) (ch : Chain) (t : Table) (s : Snap) :
    (List Nat × Bool) × Table :=
  if s.version ≠ fc.version then (([], false), t)
  else if !s.hasSig || s.mask = 0 then (([], false), t)
  else
    let timestamp := certTs fc s
    if timestamp < n.epoch then (([], false), t)
    else
      let keys := consensusKeys c n ch s.round timestamp
      let base := consensusThreshold c n timestamp true
      let (r, t1) := cacheVerifyCosi O t s.hash s.sig s.mask (keys.map Prod.fst) (keys.map Prod.snd) base
      if r.2 || usePredictive c n timestamp then (r, t1)
      else
        let hour := (timestamp - n.epoch) / c.hour % 24
        if hour < c.acceptBegin || hour > c.acceptEnd then (r, t1)
        else
          let lts := legacyTs c n timestamp
          let lkeys := consensusKeys c n ch s.round lts
          if lkeys.length ≤ keys.length then (r, t1)
          else
            cacheVerifyCosi O t1 s.hash s.sig s.mask (lkeys.map Prod.fst) (lkeys.map Prod.snd)
              (consensusThreshold c n lts true)

/-- The (key vector, threshold) pairs `verifyFinalization` hands to `cacheVerifyCosi` for a snapshot
    of the given round whose certificate timestamp (`certTs`) is `timestamp`, listed as if no attempt
    succeeded: the primary attempt, and in legacy mode inside the node-operation window, when the
    vector of the hour before the window is longer, the retry — with the threshold of that vector. -/
def finalizationAttempts (c : Consts) (n : Node) (ch : Chain) (round timestamp : Nat) :
    List (List (Nat × Nat) × Nat) :=
  if timestamp < n.epoch then []
  else
    let keys := consensusKeys c n ch round timestamp
    let primary := (keys, consensusThreshold c n timestamp true)
    if usePredictive c n timestamp then [primary]
    else
      let hour := (timestamp - n.epoch) / c.hour % 24
      if hour < c.acceptBegin || hour > c.acceptEnd then [primary]
      else
        let lts := legacyTs c n timestamp
        let lkeys := consensusKeys c n ch round lts
        if lkeys.length ≤ keys.length then [primary]
        else [primary, (lkeys, consensusThreshold c n lts true)]

end Mixin.Finality
