import Mixin.Prelude.Proto
/-!
# Model of peer authentication (property C30)

`kernel/node.go`: `BuildAuthenticationMessage`, `AuthenticateAs`.  The message is 137 bytes:

    [0,8)    big-endian uint64(clock.Now().Unix())
    [8,40)   id of the node the message is addressed to
    [40,72)  public spend key of the sender
    [72]     1 if the sender is a relayer, else 0
    [73,137) signature by that key over Blake3(bytes [0,73))

Not modelled, supplied by an `Oracle` (answers come from the real code in the harness):
`idOf key` — `Address{key, key.DeterministicHashDerive().Public()}.Hash().ForNetwork(networkId)`;
`verify key prefix sig` — `key.Verify(Blake3Hash(prefix), sig)`.

The freshness test of the Go code is `math.Abs(float64(now) - float64(ts)) > float64(timeout)`.
`roundF64` is the exact integer → float64 conversion (round to nearest, ties to even, 53-bit
significand); every quantity involved is an integer of magnitude < 2^65, so float64 arithmetic
on them is exact integer arithmetic followed by `roundF64`, and the model follows the Go
expression literally.  `Props/C30` proves it equals the integer comparison below 2^53.
-/
namespace Mixin.Auth
open Mixin.Proto (Bytes)

def beNat (b : Bytes) : Nat := b.foldl (fun a x => a * 256 + x.toNat) 0

def beBytes : Nat → Nat → Bytes
  | 0, _ => []
  | n + 1, v => beBytes n (v / 256) ++ [UInt8.ofNat (v % 256)]

/-- nearest float64 to the integer `x`, as an integer -/
def roundF64 (x : Int) : Int :=
  let a := x.natAbs
  if a < 2 ^ 53 then x else
  let e := Nat.log2 a - 52
  let q := a / 2 ^ e
  let r := a % 2 ^ e
  let half := 2 ^ (e - 1)
  let q' := if r > half ∨ (r = half ∧ q % 2 = 1) then q + 1 else q
  if x < 0 then - ((q' * 2 ^ e : Nat) : Int) else ((q' * 2 ^ e : Nat) : Int)

/-- `math.Abs(float64(now) - float64(ts)) > float64(timeout)` -/
def skewExceeds (now : Int) (ts : Nat) (timeout : Int) : Bool :=
  decide ((roundF64 (roundF64 now - roundF64 (ts : Int))).natAbs > roundF64 timeout)

structure Oracle where
  idOf : Bytes → Bytes
  verify : Bytes → Bytes → Bytes → Bool

structure Token where
  peerId : Bytes
  timestamp : Nat
  isRelayer : Bool
  data : Bytes
deriving Repr, DecidableEq

def tsOf (msg : Bytes) : Nat := beNat (msg.take 8)
def recipientOf (msg : Bytes) : Bytes := (msg.drop 8).take 32
def keyOf (msg : Bytes) : Bytes := (msg.drop 40).take 32
def flagOf (msg : Bytes) : UInt8 := (msg.drop 72).headD 0
def prefixOf (msg : Bytes) : Bytes := msg.take 73
def sigOf (msg : Bytes) : Bytes := (msg.drop 73).take 64

/-- `node.AuthenticateAs(recipientId, msg, timeoutSec)` with the clock reading `now`;
    `none` = an error is returned -/
def authenticateAs (O : Oracle) (recipient msg : Bytes) (timeout now : Int) : Option Token :=
  if msg.length ≠ 137 then none else
  if timeout > 0 ∧ skewExceeds now (tsOf msg) timeout = true then none else
  if recipientOf msg ≠ recipient then none else
  if O.idOf (keyOf msg) = recipient then none else
  if O.verify (keyOf msg) (prefixOf msg) (sigOf msg) = false then none else
  some { peerId := O.idOf (keyOf msg), timestamp := tsOf msg, isRelayer := flagOf msg == 1, data := msg }

/-- the 73 bytes that are hashed and signed -/
def signedPrefix (now : Int) (recipient key : Bytes) (relayer : Bool) : Bytes :=
  beBytes 8 (now % 2 ^ 64).toNat ++ (recipient ++ (key ++ [if relayer then 1 else 0]))

/-- `node.BuildAuthenticationMessage(relayerId)`; `sig` is what `PrivateSpendKey.Sign` returned -/
def buildAuth (now : Int) (recipient key : Bytes) (relayer : Bool) (sig : Bytes) : Bytes :=
  signedPrefix now recipient key relayer ++ sig

end Mixin.Auth
