/-
  Model of crypto/cosi.go (+ the pieces of crypto/aggregation.go, crypto/signature.go and
  crypto/point.go it calls) for properties C12 / C13 / C14.

  The group is modelled algebraically.  A 32-byte string offered as a curve point is
  either `Pt.bad` (nil pointer, not a canonical encoding, or not in the prime-order
  subgroup: everything `decodePoint` refuses for encoding reasons) or `Pt.dl d`, the
  canonical encoding of `d • B` (B the edwards25519 base point, `d` taken mod ℓ).  The
  harness knows the discrete log of every honestly generated key / nonce, so it can name
  points this way.  `decodePoint` also refuses the identity (`isPrimeOrderPoint` is false
  for it), hence `decode (dl 0) = none`.

  Scalars are `Nat`; a 32-byte little-endian scalar string `s` is canonical iff `s < ℓ`.
  Hash-to-scalar values (challenges, coefficients) are not computed here: they are
  parameters whose values the harness takes from the real code.

  Go maps are association lists with distinct keys (the harness emits them that way);
  iteration order is list order.  Every error return of the Go code is `none`; which of
  several failing checks fires first is not observable.
-/
namespace Mixin.Cosi

/-- order of the edwards25519 prime-order subgroup -/
def ell : Nat := 2 ^ 252 + 27742317777372353535851937790883648493

inductive Pt where
  | bad : Pt
  | dl (d : Nat) : Pt
  deriving Repr, DecidableEq, Inhabited

/-- `decodePoint`: the discrete log of an accepted point (never 0). -/
def Pt.decode : Pt → Option Nat
  | .bad => none
  | .dl d => if d % ell = 0 then none else some (d % ell)

/-- `Key.VerifyWithChallenge(sig = R‖s, x)`: decodes the key and `R`, requires a canonical
    `s`, and checks `s•B − x•A = R`. -/
def verifyWithChallenge (A R : Pt) (s x : Nat) : Bool :=
  match A.decode, R.decode with
  | some a, some r => decide (s < ell) && decide (s % ell = (r + x * a) % ell)
  | _, _ => false

/-! ## signer collection (crypto/aggregation.go, shared with C14) -/

/-- loop of `collectAggregateSigners`; returns `(index, discrete log)` of the selected keys -/
def collectGo (publics : List Pt) : Int → List Int → Option (List (Nat × Nat))
  | _, [] => some []
  | prev, i :: rest =>
    if i ≤ prev then none
    else if i ≥ (publics.length : Int) then none
    else
      match (publics.getD i.toNat Pt.bad).decode with
      | none => none
      | some d =>
        match collectGo publics i rest with
        | none => none
        | some sel => some ((i.toNat, d) :: sel)

def collectSigners (publics : List Pt) (signers : List Int) : Option (List (Nat × Nat)) :=
  if signers.isEmpty then none else collectGo publics (-1) signers

def sumDl (sel : List (Nat × Nat)) : Nat := sel.foldl (fun acc p => (acc + p.2) % ell) 0

/-- `aggregatePublicKey`: the (unweighted) sum of the selected keys, as a key string. It is
    not decoded here, so it may be the identity. -/
def aggregatePublicKey (publics : List Pt) (signers : List Int) : Option Pt :=
  (collectSigners publics signers).map (fun sel => Pt.dl (sumDl sel))

/-! ## CosiSignature -/

structure Sig where
  R : Pt                          -- Signature[:32]
  S : Nat                         -- Signature[32:] little endian
  mask : Nat                      -- uint64
  commitments : List (Int × Pt)   -- map[int]*Key
  deriving Repr, DecidableEq

/-- `CosiSignature.Keys` -/
def keys (mask : Nat) : List Nat := (List.range 64).filter (fun i => mask.testBit i)

def keysInt (mask : Nat) : List Int := (keys mask).map Int.ofNat

/-- loop of `CosiAggregateCommitment`: accumulated point, mask, commitments -/
def commitLoop : List (Int × Pt) → Nat → Nat → List (Int × Pt) → Option (Nat × Nat × List (Int × Pt))
  | [], p, m, cs => some (p, m, cs)
  | (i, R) :: rest, p, m, cs =>
    match R.decode with
    | none => none
    | some r =>
      if i ≥ 64 ∨ i < 0 then none
      else commitLoop rest ((p + r) % ell) (m ^^^ (1 <<< i.toNat)) (cs ++ [(i, R)])

/-- `CosiAggregateCommitment` -/
def commit (randoms : List (Int × Pt)) : Option Sig :=
  if randoms.isEmpty then none
  else
    match commitLoop randoms 0 0 [] with
    | none => none
    | some (p, m, cs) => some { R := Pt.dl p, S := 0, mask := m, commitments := cs }

/-- does `CosiSignature.Challenge` return a value (the value itself is a hash)? -/
def challengeOk (c : Sig) (publics : List Pt) : Bool :=
  (aggregatePublicKey publics (keysInt c.mask)).isSome

/-- `CosiSignature.Response` for canonical private key `y` and nonce `z`; `x` is the
    challenge (`none` when `Challenge` fails). -/
def response (x : Option Nat) (y z : Nat) : Option Nat :=
  x.map (fun x => (x * y + z) % ell)

/-- second loop of `AggregateResponse` -/
def respLoop (c : Sig) (publics : List Pt) (x : Nat) (strict : Bool) :
    List (Int × Option Nat) → Nat → Option Nat
  | [], acc => some acc
  | (_, none) :: _, _ => none      -- unreachable after the first loop (nil would be dereferenced)
  | (i, some s) :: rest, acc =>
    match c.commitments.lookup i with
    | none => none
    | some R =>
      if strict && !verifyWithChallenge (publics.getD i.toNat Pt.bad) R s x then none
      else if s ≥ ell then none
      else respLoop c publics x strict rest ((acc + s) % ell)

/-- is there a non-nil response for signer `i`? -/
def hasResponse (responses : List (Int × Option Nat)) (i : Nat) : Bool :=
  match responses.lookup (Int.ofNat i) with
  | some (some _) => true
  | _ => false

/-- first loop of `AggregateResponse`: every mask bit is inside the key vector and has a response -/
def responsesPresent (mask : Nat) (publics : List Pt) (responses : List (Int × Option Nat)) : Bool :=
  (keys mask).all (fun i => decide (i < publics.length) && hasResponse responses i)

/-- loop of `VerifyResponse`: every mask bit is inside the key vector -/
def keysInVector (mask : Nat) (publics : List Pt) : Bool :=
  (keys mask).all (fun k => decide (k < publics.length))

/-- `AggregateResponse`; `x` is the value of `c.Challenge(publics, message)` when that succeeds -/
def aggregateResponse (c : Sig) (publics : List Pt) (responses : List (Int × Option Nat))
    (x : Nat) (strict : Bool) : Option Sig :=
  if !(responsesPresent c.mask publics responses) then none
  else if (keys c.mask).length ≠ responses.length then none
  else if !(challengeOk c publics) then none
  else
    match respLoop c publics x strict responses 0 with
    | none => none
    | some S => some { c with S := S }

/-- `VerifyResponse` -/
def verifyResponse (c : Sig) (publics : List Pt) (signer : Int) (s : Option Nat) (x : Nat) : Bool :=
  match s with
  | none => false
  | some s =>
    if !(keysInVector c.mask publics) then false
    else if !((keys c.mask).any (fun k => Int.ofNat k == signer)) then false
    else
      match c.commitments.lookup signer with
      | none => false
      | some R =>
        if !(challengeOk c publics) then false
        else verifyWithChallenge (publics.getD signer.toNat Pt.bad) R s x

/-- `FullVerify`; `x` is the hash `H(R ‖ A ‖ message)` computed by `Key.Verify` -/
def fullVerify (c : Sig) (publics : List Pt) (threshold : Int) (x : Nat) : Bool :=
  if threshold ≤ 0 then false
  else if ((keys c.mask).length : Int) < threshold then false
  else
    match aggregatePublicKey publics (keysInt c.mask) with
    | none => false
    | some A => verifyWithChallenge A c.R c.S x

end Mixin.Cosi
