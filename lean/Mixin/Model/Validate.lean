import Mixin.Model.Amount
import Mixin.Facts.Generated
/-
  Model of `VersionedTransaction.Validate` (common/validation.go) and the type validators it
  dispatches to (common/{transaction,deposit,mint,node,withdrawal,custodian}.go), properties
  C01, C02, C05.

  Abstraction. A transaction is its decoded *fields*, not bytes. Every 32-byte value (hash, key,
  mask, signature) and every string that is only compared for equality (address strings, extras)
  is an interned identifier `Id : Nat`; `0` is the all-zero value (`HasValue() = false`) and `1`
  is `XINAssetId`. Amounts are `Nat` (base units). Cryptography enters through `Oracle`, whose
  answers the harness fills from the real `crypto` package. The outcome is accept / reject /
  panic at a named Go function (`Site`): every statement of the Go code that can panic is an
  explicit `pan …` here, so "never panics" is a theorem about this function (C05).
  Statement order is the order of the Go code, because a rejecting check that comes before a
  panicking statement masks it.
-/
namespace Mixin.Validate
open Mixin.Facts.Gen

abbrev Id := Nat
def xin : Id := 1

/-- the Go function (package common) whose statement panics -/
inductive Site
  | GetExtraLimit | Validate | validateUTXO | validateInputs | validateMint
  | verifyDepositData | validateDeposit | validateWithdrawalClaim | validateNodeCancel
  | validateNodeAccept | validateNodeRemove | validateCustodianUpdateNodes
  | NodeTransactionExtraAsSigner | validateWithdrawalSubmit | validateNodePledge
deriving DecidableEq, Repr

inductive Err
  | reject
  | panic (s : Site)
deriving DecidableEq, Repr

abbrev M := Except Err
def rej {α} : M α := .error .reject
def pan {α} (s : Site) : M α := .error (.panic s)
/-- `if c { return err }` -/
def guardRej (c : Bool) : M Unit := if c then rej else pure ()
/-- a statement that panics when `c` holds -/
def guardPan (c : Bool) (s : Site) : M Unit := if c then pan s else pure ()

inductive Outcome
  | accept (inSum outSum : Nat)
  | reject
  | panic (s : Site)
deriving DecidableEq, Repr

-- constants (regenerated from the source tree on every run)
def sliceCountLimit : Nat := common_SliceCountLimit
def inputIndexLimit : Nat := common_InputIndexLimit
def referencesCountLimit : Nat := common_ReferencesCountLimit
def extraGeneral : Nat := common_ExtraSizeGeneralLimit
def extraStep : Nat := common_ExtraSizeStorageStep
def extraCapacity : Nat := common_ExtraSizeStorageCapacity
def txMaxSize : Nat := config_TransactionMaximumSize
def maxEncInt : Nat := common_MaximumEncodingInt
/-- `NewIntegerFromString("0.0001")` (ExtraStoragePriceStep and WithdrawalClaimFee) -/
def priceStep : Nat := 10000
def one : Nat := 100000000

def otScript := common_OutputTypeScript
def otWithdrawalSubmit := common_OutputTypeWithdrawalSubmit
def otWithdrawalClaim := common_OutputTypeWithdrawalClaim
def otNodePledge := common_OutputTypeNodePledge
def otNodeCancel := common_OutputTypeNodeCancel
def otNodeAccept := common_OutputTypeNodeAccept
def otNodeRemove := common_OutputTypeNodeRemove
def otCustodianUpdate := common_OutputTypeCustodianUpdateNodes
def otCustodianSlash := common_OutputTypeCustodianSlashNodes

def ttScript := common_TransactionTypeScript
def ttMint := common_TransactionTypeMint
def ttDeposit := common_TransactionTypeDeposit
def ttWithdrawalSubmit := common_TransactionTypeWithdrawalSubmit
def ttWithdrawalClaim := common_TransactionTypeWithdrawalClaim
def ttNodePledge := common_TransactionTypeNodePledge
def ttNodeAccept := common_TransactionTypeNodeAccept
def ttNodeRemove := common_TransactionTypeNodeRemove
def ttNodeCancel := common_TransactionTypeNodeCancel
def ttCustodianUpdate := common_TransactionTypeCustodianUpdateNodes
def ttCustodianSlash := common_TransactionTypeCustodianSlashNodes
def ttUnknown := common_TransactionTypeUnknown

structure Deposit where
  chain : Id
  assetKeyOk : Bool   -- TrimSpace(k) == k && len(k) > 0
  assetKey : Id
  txOk : Bool         -- the same for the Transaction string
  uniq : Id           -- UniqueKey(), the deposit-lock key
  amount : Nat
deriving Repr, DecidableEq

structure Mint where
  universal : Bool    -- Group == "UNIVERSAL"
  batch : Nat
  amount : Nat
deriving Repr, DecidableEq

structure Input where
  hash : Id
  index : Nat
  genesis : Bool      -- len(Genesis) > 0  (decoded: Genesis != nil)
  deposit : Option Deposit
  mint : Option Mint
deriving Repr, DecidableEq

structure Output where
  type : Nat
  amount : Nat
  keys : List Id
  mask : Id
  script : List Nat
  withdrawal : Bool   -- Withdrawal != nil
deriving Repr, DecidableEq

structure Tx where
  version : Nat
  asset : Id
  inputs : List Input
  outputs : List Output
  references : List Id
  extraLen : Nat
  extraId : Id        -- the whole Extra
  extra64 : Id        -- Extra[:64]
  extraSpend : Id     -- Extra[:32] as a key
  sigs : Option (List (List (Nat × Id)))   -- SignaturesMap; `none` = nil
  agg : Option (List Nat × Id)             -- AggregatedSignature: signers, signature
  hash : Id           -- PayloadHash()
  payloadSize : Nat   -- len(PayloadMarshal())
  cap : Nat           -- GetAssetCapacity(Asset)
deriving Repr

structure Utxo where
  hash : Id
  index : Nat
  type : Nat
  asset : Id
  amount : Nat
  keys : List Id
  mask : Id
  script : List Nat
  lock : Id
deriving Repr, DecidableEq

/-- what `ReadTransaction` returns, restricted to the fields the validators read -/
structure StoredTx where
  hash : Id           -- key it is stored under
  payloadHash : Id    -- its own PayloadHash()
  finalized : Bool    -- snapshot hash string non-empty
  txType : Nat        -- its TransactionType()
  extraId : Id        -- its whole Extra (byte strings are interned by content)
  signerAddr : Id     -- NodeTransactionExtraAsSigner().String()
  signerSpend : Id
  inputs : List (Id × Nat)
  outputs : List Output
deriving Repr

structure NodeRec where
  signerAddr : Id
  signerSpend : Id
  payeeSpend : Id
  state : Nat         -- 0 PLEDGING, 1 ACCEPTED, 2 REMOVED, 3 CANCELLED, other = unknown text
  tx : Id
deriving Repr

structure Custodian where
  key : Id                   -- Custodian.PublicSpendKey
  addr : Id                  -- Custodian.String()
  nodes : List (Id × Id)     -- (Custodian.String(), Payee.String()) of every node
deriving Repr

structure AssetRec where
  id : Id
  chain : Id
  assetKey : Id
  balance : Nat
deriving Repr

/-- the reads `Validate` performs on the store, at the given snapshot time -/
structure Ledger where
  utxos : List Utxo := []
  txs : List StoredTx := []
  nodes : List NodeRec := []
  custodian : Option Custodian := none          -- ReadCustodian(snapTime)
  mintDist : Option (Nat × Nat × Id) := none     -- batch, amount, transaction
  assets : List AssetRec := []
  depositLocks : List (Id × Id) := []
  ghostLocks : List (Id × Id) := []
deriving Repr

structure UpdParse where
  custodian : Id               -- curs.Custodian.String()
  nodes : List (Id × Id)       -- (Custodian.String(), Payee.String())
deriving Repr

structure Oracle where
  checkKey : Id → Bool
  verify : Id → Id → Bool                       -- key.Verify(payloadHash, sig)
  aggVerify : List Id → List Nat → Id → Bool    -- AggregateVerify(sig, keys, signers, payloadHash) == nil
  claimSig : Bool        -- custodian key verifies Extra[:64] over Blake3(Extra[64:])
  updParse : Option UpdParse   -- ParseCustodianUpdateNodesExtra(Extra, false)
  updSig : Bool          -- previous custodian verifies the approval signature
  scalarOk : Bool        -- Extra[64:96] is a canonical scalar
  ghostEq : Bool         -- the two ViewGhostOutputKey results of validateNodeCancel are equal

def Ledger.utxo (L : Ledger) (h : Id) (i : Nat) : Option Utxo :=
  L.utxos.find? (fun u => u.hash == h && u.index == i)
def Ledger.tx (L : Ledger) (h : Id) : Option StoredTx := L.txs.find? (fun t => t.hash == h)
def Ledger.asset (L : Ledger) (a : Id) : Option AssetRec := L.assets.find? (fun r => r.id == a)
def lookupId (l : List (Id × Id)) (k : Id) : Option Id := (l.find? (fun p => p.1 == k)).map (·.2)

def isSpecialOutput (t : Nat) : Bool :=
  t == otWithdrawalSubmit || t == otWithdrawalClaim || t == otNodePledge || t == otNodeCancel ||
  t == otNodeAccept || t == otNodeRemove || t == otCustodianUpdate || t == otCustodianSlash

def outputTxType (t : Nat) : Nat :=
  if t == otWithdrawalSubmit then ttWithdrawalSubmit
  else if t == otWithdrawalClaim then ttWithdrawalClaim
  else if t == otNodePledge then ttNodePledge
  else if t == otNodeCancel then ttNodeCancel
  else if t == otNodeAccept then ttNodeAccept
  else if t == otNodeRemove then ttNodeRemove
  else if t == otCustodianUpdate then ttCustodianUpdate
  else ttCustodianSlash

def typeOfOutputs : List Output → Bool → Nat
  | [], isScript => if isScript then ttScript else ttUnknown
  | o :: os, isScript =>
    if isSpecialOutput o.type then outputTxType o.type
    else typeOfOutputs os (isScript && o.type == otScript)

def typeOfInputs : List Input → Option Nat
  | [] => none
  | i :: is =>
    if i.mint.isSome then some ttMint
    else if i.deposit.isSome then some ttDeposit
    else if i.genesis then some ttUnknown
    else typeOfInputs is

/-- `SignedTransaction.TransactionType` -/
def txType (tx : Tx) : Nat :=
  match typeOfInputs tx.inputs with
  | some t => t
  | none => typeOfOutputs tx.outputs true

def storageScript : List Nat := [255, 254, 64]

/-- `findStorageOutput`: the first output of maximal amount among the one-key `fffe40` outputs -/
def findStorage : List Output → Option Output → Option Output
  | [], so => so
  | o :: os, so =>
    if o.keys.length != 1 || o.script != storageScript then findStorage os so
    else match so with
      | none => findStorage os (some o)
      | some s => findStorage os (if o.amount > s.amount then some o else some s)

/-- `GetExtraLimit` as repaired (amounts that buy the full capacity never reach `Count`) -/
def getExtraLimit (tx : Tx) : M Nat :=
  if tx.version < common_TxVersionHashSignature then pan .GetExtraLimit
  else if tx.asset != xin then pure extraGeneral
  else match findStorage tx.outputs none with
    | none => pure extraGeneral
    | some out =>
      if out.type == otCustodianUpdate then pure extraCapacity
      else if out.type != otScript then pure extraGeneral
      else if out.amount < priceStep then pure extraGeneral
      else if out.amount ≥ priceStep * (extraCapacity / extraStep) then pure extraCapacity
      else match Amount.count out.amount priceStep with
        | none => pan .GetExtraLimit
        | some cells =>
          let limit := cells * extraStep % 2 ^ 64
          if limit > extraCapacity then pure extraCapacity else pure limit

def scriptFormatOk (s : List Nat) : Bool :=
  match s with
  | [a, b, t] => a == common_OperatorCmp && b == common_OperatorSum && t ≤ common_Operator64
  | _ => false

def scriptThreshold (s : List Nat) : Nat := s.getD 2 0

/-- `Script.Validate(sum)` -/
def scriptValidate (s : List Nat) (sum : Nat) : M Unit :=
  guardRej (!scriptFormatOk s || sum < scriptThreshold s)

/-- `validateAggregatedSigners` -/
def incFrom : Option Nat → List Nat → Bool
  | _, [] => true
  | none, m :: ms => m ≤ maxEncInt && incFrom (some m) ms
  | some p, m :: ms => p < m && m ≤ maxEncInt && incFrom (some m) ms

def signersOk (s : List Nat) : Bool := s.length ≤ maxEncInt && incFrom none s

/-- the signer loop of `validateUTXO` (aggregate branch): stops at the first signer beyond this
    input's key range, skips signers before it, collects the keys in range -/
def aggCollect (keys : List Id) (offset : Nat) : List Nat → List Id
  | [] => []
  | m :: ms =>
    if m ≥ offset + keys.length then []
    else if m < offset then aggCollect keys offset ms
    else keys.getD (m - offset) 0 :: aggCollect keys offset ms

abbrev KeySigs := List (Id × Option Id)

/-- `validateUTXO`; returns the `keySigs` entries it adds -/
def validateUTXO (index : Nat) (u : Utxo) (tx : Tx) (tt : Nat) (offset : Nat) : M KeySigs :=
  if u.type == otScript || u.type == otNodeRemove then
    match tx.agg with
    | some (signers, _) => do
      guardRej (!signersOk signers)
      let ks := aggCollect u.keys offset signers
      scriptValidate u.script ks.length
      pure (ks.map (fun k => (k, none)))
    | none =>
      match (tx.sigs.getD [])[index]? with
      | none => rej          -- repaired: was `sigs[index]` out of range → panic
      | some m => do
        guardRej (m.any (fun p => p.1 ≥ u.keys.length))
        scriptValidate u.script m.length
        pure (m.map (fun p => (u.keys.getD p.1 0, some p.2)))
  else if u.type == otNodePledge then
    if tt == ttNodeAccept || tt == ttNodeCancel then pure [] else rej
  else if u.type == otNodeAccept then
    if tt == ttNodeRemove then pure [] else rej
  else rej

abbrev Filter := List ((Id × Nat) × Utxo)

structure InAcc where
  filter : Filter := []
  amount : Nat := 0
  allKeys : List Id := []
  keySigs : KeySigs := []

inductive LoopRes
  | early (f : Filter) (amount : Nat)
  | full (a : InAcc)

/-- the input loop of `validateInputs` -/
def inputsLoop (L : Ledger) (tx : Tx) (tt : Nat) (fork : Bool) :
    Nat → List Input → InAcc → M LoopRes
  | _, [], a => pure (.full a)
  | i, inp :: rest, a =>
    if inp.genesis then rej
    else match inp.mint with
    | some m => pure (.early a.filter m.amount)
    | none =>
    match inp.deposit with
    | some d => pure (.early a.filter d.amount)
    | none =>
      if (a.filter.find? (fun e => e.1 == (inp.hash, inp.index))).isSome then rej
      else match L.utxo inp.hash inp.index with
      | none => rej
      | some u =>
        if u.asset != tx.asset then rej
        else if u.lock != 0 && u.lock != tx.hash && !fork then rej
        else do
          let ks ← validateUTXO i u tx tt a.allKeys.length
          match Amount.add a.amount u.amount with
          | none => pan .validateInputs
          | some s =>
            inputsLoop L tx tt fork (i + 1) rest
              { filter := a.filter ++ [((inp.hash, inp.index), u)], amount := s,
                allKeys := a.allKeys ++ u.keys, keySigs := a.keySigs ++ ks }

/-- `validateInputs` -/
def validateInputs (L : Ledger) (O : Oracle) (tx : Tx) (tt : Nat) (fork : Bool) : M (Filter × Nat) := do
  match ← inputsLoop L tx tt fork 0 tx.inputs {} with
  | .early f amt => pure (f, amt)
  | .full a =>
    if a.keySigs.length == 0 && (tt == ttNodeAccept || tt == ttNodeRemove) then pure (a.filter, a.amount)
    else if a.keySigs.length < tx.inputs.length then rej
    else match tx.agg with
      | some (signers, sig) =>
        if O.aggVerify a.allKeys signers sig then pure (a.filter, a.amount) else rej
      | none =>
        -- BatchVerify == every collected pair verifies (compared on the real code by the harness)
        if a.keySigs.all (fun p => match p.2 with | some s => O.verify p.1 s | none => false)
        then pure (a.filter, a.amount) else rej

def isKernelMultisigOutput (t : Nat) : Bool :=
  t == otWithdrawalSubmit || t == otWithdrawalClaim || t == otNodePledge || t == otNodeCancel ||
  t == otNodeAccept

/-- the key loop of `validateOutputs`: duplicate / malformed keys reject, others are appended -/
def keysLoop (O : Oracle) : List Id → List Id → M (List Id)
  | [], g => pure g
  | k :: ks, g => if g.contains k then rej else if !O.checkKey k then rej else keysLoop O ks (g ++ [k])

/-- the per-type shape test of `validateOutputs` (kernel multisig outputs carry no keys, script
    or mask; every other output needs a well-formed script, a valid mask and no withdrawal) -/
def outputShapeBad (O : Oracle) (o : Output) : Bool :=
  if isKernelMultisigOutput o.type then
    o.keys.length != 0 || o.script.length != 0 || o.mask != 0
  else
    !scriptFormatOk o.script || o.mask == 0 || !O.checkKey o.mask || o.withdrawal

/-- the output loop of `validateOutputs`: returns the output sum and the ghost keys -/
def outputsLoop (O : Oracle) : List Output → Nat → List Id → M (Nat × List Id)
  | [], sum, ghosts => pure (sum, ghosts)
  | o :: os, sum, ghosts => do
    guardRej (o.keys.length > sliceCountLimit)
    guardRej (o.amount == 0)
    let ghosts ← keysLoop O o.keys ghosts
    guardRej (outputShapeBad O o)
    match Amount.add sum o.amount with
    | none => rej   -- unreachable: the amount was checked positive (kept total)
    | some s => outputsLoop O os s ghosts

/-- `validateOutputs` -/
def validateOutputs (L : Ledger) (O : Oracle) (tx : Tx) (inputAmount : Nat) : M Nat := do
  let (sum, ghosts) ← outputsLoop O tx.outputs 0 []
  guardRej (inputAmount != sum)
  guardRej (ghosts.any (fun k => match lookupId L.ghostLocks k with
    | some by_ => by_ != tx.hash | none => false))
  pure sum

def filterAll (f : Filter) (p : Nat → Bool) : Bool := f.all (fun e => p e.2.type)

def validateScript (f : Filter) : M Unit :=
  guardRej (!filterAll f (fun t => t == otScript || t == otNodeRemove))

def validateMint (L : Ledger) (tx : Tx) : M Unit :=
  match tx.inputs with
  | [inp] => do
    guardRej (tx.outputs.any (fun o => o.type != otScript))
    guardRej (tx.asset != xin)
    match inp.mint with
    | none => pan .validateMint
    | some m =>
      guardRej (!m.universal)
      match L.mintDist with
      | none => pure ()
      | some (batch, amount, t) =>
        if m.batch < batch then rej
        else if m.batch > batch then pure ()
        else guardRej (t != tx.hash || amount != m.amount)
  | _ => rej

def verifyDepositData (L : Ledger) (tx : Tx) : M Unit :=
  match tx.inputs.head? with
  | none => pan .verifyDepositData
  | some inp =>
    match inp.deposit with
    | none => pan .verifyDepositData
    | some d => do
      guardRej (d.chain == 0 || !d.assetKeyOk)
      guardRej (d.amount == 0)
      guardRej (!d.txOk)
      match L.asset tx.asset with
      | none => pure ()
      | some old =>
        match Amount.add old.balance d.amount with
        | none => pan .verifyDepositData
        | some total =>
          guardRej (total ≥ tx.cap)
          guardRej (!(old.chain == d.chain && old.assetKey == d.assetKey))

/-- `sigs[0][0]` under the shape test `len(sigs) == 1 && len(sigs[0]) == 1` -/
def soleSig (tx : Tx) : Option (Option Id) :=
  match tx.sigs.getD [] with
  | [[p]] => some (if p.1 == 0 then some p.2 else none)
  | _ => none

def validateDeposit (L : Ledger) (O : Oracle) (tx : Tx) : M Unit := do
  guardRej (tx.inputs.length != 1)
  guardRej (tx.outputs.length != 1)
  guardRej ((tx.outputs.head?.map (·.type)) != some otScript)
  match soleSig tx with
  | none => rej
  | some s0 =>
    verifyDepositData L tx
    match s0 with
    | none => rej
    | some sig =>
      match L.custodian with
      | none => pan .validateDeposit
      | some c =>
        guardRej (!O.verify c.key sig)
        match tx.inputs.head?.bind (·.deposit) with
        | none => pan .validateDeposit
        | some d =>
          match lookupId L.depositLocks d.uniq with
          | some locked => guardRej (locked != 0 && locked != tx.hash)
          | none => pure ()

def validateWithdrawalSubmit (tx : Tx) (f : Filter) : M Unit := do
  guardRej (!filterAll f (· == otScript))
  guardRej ((tx.outputs.drop 1).any (fun o => o.type != otScript))
  match tx.outputs.head? with
  | none => pan .validateWithdrawalSubmit   -- unreachable: len(Outputs) ≥ 1 was checked
  | some submit =>
    guardRej (submit.type != otWithdrawalSubmit)
    guardRej (!submit.withdrawal)
    guardRej (submit.keys.length != 0 || submit.script.length != 0 || submit.mask != 0)

def validateWithdrawalClaim (L : Ledger) (O : Oracle) (tx : Tx) (f : Filter) : M Unit := do
  guardRej (!filterAll f (· == otScript))
  guardRej (tx.asset != xin)
  guardRej ((tx.outputs.drop 1).any (fun o => o.type != otScript))
  match tx.references with
  | [r] =>
    match tx.outputs.head? with
    | none => pan .validateWithdrawalClaim
    | some claim =>
      guardRej (claim.type != otWithdrawalClaim)
      guardRej (claim.amount < priceStep)
      match L.tx r with
      | none => rej
      | some submit =>
        match submit.outputs.head? with
        | none => pan .validateWithdrawalClaim
        | some so =>
          guardRej (!so.withdrawal || so.type != otWithdrawalSubmit)
          guardRej (tx.extraLen < 64)
          match L.custodian with
          | none => pan .validateWithdrawalClaim
          | some _ => guardRej (!O.claimSig)
  | _ => rej

def stAccepted : Nat := 1
def stRemoved : Nat := 2
def stCancelled : Nat := 3
def stPledging : Nat := 0
def settled (s : Nat) : Bool := s == stAccepted || s == stCancelled || s == stRemoved

def validateNodePledge (L : Ledger) (O : Oracle) (tx : Tx) (f : Filter) : M Unit := do
  guardRej (tx.asset != xin)
  guardRej (tx.outputs.length != 1)
  guardRej (tx.inputs.length != 1 || f.length != tx.inputs.length)
  match tx.inputs.head? with
  | none => pan .validateNodePledge  -- unreachable
  | some inp =>
    match f.find? (fun e => e.1 == (inp.hash, inp.index)) with
    | none => pan .validateNodePledge  -- `inputs[fk].Type` on a missing entry; unreachable
    | some e =>
      guardRej (e.2.type != otScript && e.2.type != otNodeRemove)
      guardRej (tx.extraLen != 64)
      guardRej (!O.checkKey tx.extraSpend)
      guardRej (L.nodes.any (fun n => !settled n.state || n.signerSpend == tx.extraSpend ||
        n.payeeSpend == tx.extraSpend))

/-- the node scan shared by validateNodeCancel / validateNodeAccept: the single pledging node.
    `pledging.Signer.String()` in the error path dereferences nil when the first unsettled node
    has an unknown state text. -/
def findPledging (site : Site) : List NodeRec → Option NodeRec → M (Option NodeRec)
  | [], p => pure p
  | n :: ns, p =>
    if settled n.state then findPledging site ns p
    else if n.state == stPledging && p.isNone then findPledging site ns (some n)
    else if p.isNone then pan site else rej

/-- `filter[acc.String()]`: the state of the *last* node with that signer -/
def nodeStateOf (nodes : List NodeRec) (addr : Id) : Option Nat :=
  (nodes.reverse.find? (fun n => n.signerAddr == addr)).map (·.state)

def sigShapeOk (tx : Tx) : Option Id :=
  match soleSig tx with
  | some (some s) => some s
  | _ => none

def validateNodeCancel (L : Ledger) (O : Oracle) (tx : Tx) : M Unit := do
  guardRej (tx.asset != xin)
  guardRej (tx.outputs.length != 2)
  guardRej (tx.inputs.length != 1)
  match sigShapeOk tx, tx.outputs, tx.inputs with
  | some sig, [cancel, script], [inp] =>
    guardRej (tx.extraLen != 96)
    guardRej (cancel.type != otNodeCancel || script.type != otScript)
    guardRej (script.keys.length != 1)
    guardRej (script.script != [255, 254, 1])
    match ← findPledging .validateNodeCancel L.nodes none with
    | none => rej
    | some pledging =>
      guardRej (pledging.tx != inp.hash)
      match L.tx inp.hash with
      | none => pan .validateNodeCancel
      | some lastPledge =>
        match lastPledge.outputs with
        | [po] =>
          guardRej (po.type != otNodePledge)
          match Amount.div po.amount 100 with
          | none => pan .validateNodeCancel
          | some q =>
            guardRej (cancel.amount != q)
            if !(lastPledge.txType == ttNodePledge || lastPledge.txType == ttNodeAccept ||
                 lastPledge.txType == ttNodeRemove) then pan .NodeTransactionExtraAsSigner
            else do
              guardRej (nodeStateOf L.nodes lastPledge.signerAddr != some stPledging)
              match lastPledge.inputs.head? with
              | none => pan .validateNodeCancel
              | some (ph, pidx) =>
                match L.tx ph with
                | none => rej
                | some pit =>
                  match pit.outputs[pidx]? with
                  | none => pan .validateNodeCancel
                  | some pi =>
                    guardRej (pi.keys.length != 1)
                    -- ViewGhostOutputKey → KeyMultPubPriv panics on an invalid point or a
                    -- non-canonical scalar
                    if !O.checkKey pi.mask || !O.scalarOk || !O.checkKey (pi.keys.headD 0)
                       || !O.checkKey script.mask || !O.checkKey (script.keys.headD 0) then
                      pan .validateNodeCancel
                    else do
                      guardRej (lastPledge.extraId != tx.extra64)
                      guardRej (!O.ghostEq)
                      guardRej (!O.verify (pi.keys.headD 0) sig)
        | _ => rej
  | _, _, _ => rej

def validateNodeAccept (L : Ledger) (O : Oracle) (tx : Tx) : M Unit := do
  guardRej (tx.asset != xin)
  guardRej (tx.outputs.length != 1)
  guardRej (tx.inputs.length != 1)
  match sigShapeOk tx, tx.inputs with
  | some sig, [inp] =>
    match ← findPledging .validateNodeAccept L.nodes none with
    | none => rej
    | some pledging =>
      guardRej (pledging.tx != inp.hash)
      match L.tx inp.hash with
      | none => pan .validateNodeAccept
      | some lastPledge =>
        match lastPledge.outputs with
        | [po] =>
          guardRej (po.type != otNodePledge)
          if !(lastPledge.txType == ttNodePledge || lastPledge.txType == ttNodeAccept ||
               lastPledge.txType == ttNodeRemove) then pan .NodeTransactionExtraAsSigner
          else do
            guardRej (nodeStateOf L.nodes lastPledge.signerAddr != some stPledging)
            guardRej (lastPledge.extraId != tx.extraId)
            guardRej (!O.verify lastPledge.signerSpend sig)
        | _ => rej
  | _, _ => rej

def validateNodeRemove (L : Ledger) (tx : Tx) : M Unit := do
  guardRej (tx.asset != xin)
  guardRej (tx.outputs.length != 1)
  guardRej (tx.inputs.length != 1)
  match tx.inputs with
  | [inp] =>
    match L.tx inp.hash with
    | none => pan .validateNodeRemove
    | some accept =>
      guardRej (accept.payloadHash != inp.hash)
      match accept.outputs with
      | [ao] =>
        guardRej (ao.type != otNodeAccept)
        guardRej (accept.extraId != tx.extraId)
      | _ => rej
  | _ => rej

/-- the price loop of validateCustodianUpdateNodes: (remaining filter, total) -/
def custodianPrice : List (Id × Id) → List (Id × Id) → Nat → List (Id × Id) × Nat
  | [], filter, total => (filter, total)
  | (c, p) :: ns, filter, total =>
    let total' := match lookupId filter c with
      | none => total + common_custodianNodeNewPrice * one
      | some old => if old != p then total + common_custodianNodeUpdatePrice * one else total
    custodianPrice ns (filter.filter (fun e => e.1 != c)) total'

/-- a Go map built by assignment: later entries overwrite earlier ones with the same key -/
def mapOf : List (Id × Id) → List (Id × Id)
  | [] => []
  | (k, v) :: r => (k, v) :: (mapOf r).filter (fun e => e.1 != k)

def mapOfLast (l : List (Id × Id)) : List (Id × Id) := (mapOf l.reverse)

def validateCustodianUpdateNodes (L : Ledger) (O : Oracle) (tx : Tx) : M Unit := do
  guardRej (tx.version < common_TxVersionHashSignature)
  guardRej (tx.asset != xin)
  match tx.outputs with
  | [out] =>
    guardRej (out.type != otCustodianUpdate)
    guardRej (out.keys.length != 1 || out.script != storageScript)
    match O.updParse with
    | none => rej
    | some curs =>
      guardRej (curs.nodes.length < common_custodianNodesMinimumCount)
      match L.custodian with
      | none => rej
      | some prev =>
        guardRej (!O.updSig)
        let filter := mapOfLast prev.nodes
        if filter.length != prev.nodes.length then pan .validateCustodianUpdateNodes
        else
          let (rest, total) := custodianPrice curs.nodes filter 0
          guardRej (out.amount < total)
          if curs.custodian != prev.addr then pure ()
          else guardRej (rest.length != 0 || prev.nodes.length != curs.nodes.length)
  | _ => rej

def dispatch (L : Ledger) (O : Oracle) (tx : Tx) (tt : Nat) (f : Filter) : M Unit :=
  if tt == ttScript then validateScript f
  else if tt == ttMint then validateMint L tx
  else if tt == ttDeposit then validateDeposit L O tx
  else if tt == ttWithdrawalSubmit then validateWithdrawalSubmit tx f
  else if tt == ttWithdrawalClaim then validateWithdrawalClaim L O tx f
  else if tt == ttNodePledge then validateNodePledge L O tx f
  else if tt == ttNodeCancel then validateNodeCancel L O tx
  else if tt == ttNodeAccept then validateNodeAccept L O tx
  else if tt == ttNodeRemove then validateNodeRemove L tx
  else if tt == ttCustodianUpdate then validateCustodianUpdateNodes L O tx
  else rej

def validateReferences (L : Ledger) (tx : Tx) : M Unit := do
  guardRej (tx.references.length > referencesCountLimit)
  guardRej (tx.references.any (fun r => match L.tx r with
    | some t => !t.finalized | none => true))

/-- the checks of `Validate` that read the transaction only -/
def structural (tx : Tx) : M Unit := do
  guardRej (tx.version != common_TxVersionHashSignature)
  guardRej (txType tx == ttUnknown)
  guardRej (tx.inputs.length < 1 || tx.outputs.length < 1)
  guardRej (tx.inputs.length > sliceCountLimit || tx.outputs.length > sliceCountLimit ||
    tx.references.length > sliceCountLimit)
  guardRej (tx.inputs.any (fun i => i.index > inputIndexLimit))
  let limit ← getExtraLimit tx
  guardRej (tx.extraLen > limit)
  -- PayloadMarshal: config.Debug (const true) re-decodes the payload and panics on failure;
  -- the re-decode refuses more than TransactionMaximumSize bytes
  guardPan (tx.payloadSize > txMaxSize) .Validate
  guardRej (tx.payloadSize > txMaxSize)

/-- aggregate signature excludes a signature map; otherwise one map per input (node remove aside) -/
def sigPresence (tx : Tx) (tt : Nat) : M Unit :=
  match tx.agg with
  | some _ => guardRej tx.sigs.isSome
  | none => guardRej (tx.inputs.length != (tx.sigs.getD []).length && tt != ttNodeRemove)

/-- `VersionedTransaction.Validate`, result = (input amount, output amount) -/
def validateM (L : Ledger) (O : Oracle) (tx : Tx) (fork : Bool) : M (Nat × Nat) := do
  structural tx
  sigPresence tx (txType tx)
  validateReferences L tx
  let r ← validateInputs L O tx (txType tx) fork
  guardRej (r.2 == 0)
  let outAmt ← validateOutputs L O tx r.2
  dispatch L O tx (txType tx) r.1
  pure (r.2, outAmt)

def validate (L : Ledger) (O : Oracle) (tx : Tx) (fork : Bool) : Outcome :=
  match validateM L O tx fork with
  | .ok (i, o) => .accept i o
  | .error .reject => .reject
  | .error (.panic s) => .panic s

end Mixin.Validate
