/-
  Model of storage/badger_work.go: WriteRoundWork, ReadWorkOffset, ListNodeWorks (property C26).

    WORKOFFSET ‖ node          ↦ round(8) ‖ hash ‖ hash …     `off`   (checkpoint: round + seen set)
    WORKLEAD   ‖ node ‖ day(4) ↦ uint64                        `lead`
    WORKSIGN   ‖ node ‖ day(4) ↦ uint64                        `sign`

  Node ids and snapshot hashes are `Nat` (numbered by the harness, 0 = the all-zero hash, for which
  `Hash.HasValue()` is false). Key/value maps are association lists in which the first binding of
  a key is the current one (a `Set` prepends). `WriteRoundWork` is a single `snapshotsDB.Update`
  transaction: one atomic step; a panic inside it discards the transaction (`none`, state
  unchanged). Counters are `uint64` in Go and `Nat` here (no wrap-around below 2^64 credits).
  The deletion of the previous round's WORKSNAPSHOT records (`removeSnapshotWorksForRound`) does
  not touch the three key spaces above and is not modelled.
-/
namespace Mixin.Work

abbrev Hash := Nat

structure Snap where
  hash : Hash
  ts : Nat
  signers : List Hash
  deriving Repr, DecidableEq

structure S where
  off : List (Hash × (Nat × List Hash))
  lead : List ((Hash × Nat) × Nat)
  sign : List ((Hash × Nat) × Nat)
  deriving Repr, DecidableEq

def empty : S := { off := [], lead := [], sign := [] }

/-- `DAY_U64 = uint64(time.Hour) * 24` nanoseconds -/
def dayLen : Nat := 86400000000000

def day (w : Snap) : Nat := w.ts / dayLen

/-- `graphReadUint64`: 0 when the key is absent -/
def getC (k : Hash × Nat) : List ((Hash × Nat) × Nat) → Nat
  | [] => 0
  | e :: r => if e.1 = k then e.2 else getC k r

def addC (k : Hash × Nat) (n : Nat) (m : List ((Hash × Nat) × Nat)) : List ((Hash × Nat) × Nat) :=
  (k, getC k m + n) :: m

/-- `graphReadWorkOffset`: round 0 and no hashes when the key is absent -/
def readOff (node : Hash) : List (Hash × (Nat × List Hash)) → Nat × List Hash
  | [] => (0, [])
  | e :: r => if e.1 = node then e.2 else readOff node r

/-- the `for _, w := range fresh` guard loop: timestamp, same day as the first, hash has a value -/
def badWork (d : Nat) (w : Snap) : Prop := w.ts = 0 ∨ day w ≠ d ∨ w.hash = 0

instance (d : Nat) (w : Snap) : Decidable (badWork d w) := by unfold badWork; exact inferInstance

/-- `wm[si] += 1` over all signers of all fresh works, read at `x` -/
def signerCount (x : Hash) (fresh : List Snap) : Nat :=
  (fresh.map (fun w => w.signers.count x)).sum

/-- the sign-credit loop: every signer other than the node gets `wm[signer]` added for the day.
    (Go iterates the distinct keys of `wm` and adds the multiplicity once; adding 1 per
    occurrence is the same sum.) -/
def creditSigners (node : Hash) (d : Nat) (signers : List Hash) (m : List ((Hash × Nat) × Nat)) :
    List ((Hash × Nat) × Nat) :=
  signers.foldl (fun m si => if si = node then m else addC (si, d) 1 m) m

def allSigners (fresh : List Snap) : List Hash := (fresh.map (·.signers)).flatten

/-- the snapshots of the call that are not in the checkpoint; `none` = panic
    ("WriteRoundWork missing snapshot": a checkpointed hash is absent from the call) -/
def freshOf (off : Nat) (osm : List Hash) (round : Nat) (snaps : List Snap) : Option (List Snap) :=
  if round = off then
    if ∀ id ∈ osm, id ∈ snaps.map (·.hash) then some (snaps.filter (fun ss => ss.hash ∉ osm))
    else none
  else some snaps

/-- everything after `graphWriteWorkOffset`: the credit section; `none` = panic -/
def creditStep (s1 : S) (node : Hash) (fresh : List Snap) (credit : Bool) : Option S :=
  match fresh with
  | [] => some s1
  | f0 :: _ =>
    if f0.signers = [] ∨ credit = false then some s1
    else if ∃ w ∈ fresh, badWork (day f0) w then none
    else if signerCount node fresh ≠ fresh.length then none
    else some { s1 with
      sign := creditSigners node (day f0) (allSigners fresh) s1.sign,
      lead := addC (node, day f0) (signerCount node fresh) s1.lead }

/-- `WriteRoundWork(nodeId, round, snapshots, credit)`; `none` = panic. -/
def writeRoundWork (s : S) (node : Hash) (round : Nat) (snaps : List Snap) (credit : Bool) : Option S :=
  let off := (readOff node s.off).1
  let osm := (readOff node s.off).2
  if off > round then some s
  else if round > off + 1 then none
  else
    match freshOf off osm round snaps with
    | none => none
    | some fresh =>
      creditStep { s with off := (node, (round, snaps.map (·.hash))) :: s.off } node fresh credit

inductive Op where
  | submit (node : Hash) (round : Nat) (snaps : List Snap) (credit : Bool)
  | works (node : Hash) (d : Nat)      -- ListNodeWorks for one node
  | offset (node : Hash)               -- ReadWorkOffset
  deriving Repr, DecidableEq

inductive Out where
  | ok
  | panic
  | pair (l s : Nat)
  | num (n : Nat)
  deriving Repr, DecidableEq

def step (s : S) : Op → S × Out
  | .submit node round snaps credit =>
    match writeRoundWork s node round snaps credit with
    | some s' => (s', .ok)
    | none => (s, .panic)
  | .works node d => (s, .pair (getC (node, d) s.lead) (getC (node, d) s.sign))
  | .offset node => (s, .num (readOff node s.off).1)

def final (s : S) : List Op → S
  | [] => s
  | op :: ops => final (step s op).1 ops

/-! ## the read-back path of `kernel.AggregateMintWork`

    WORKSNAPSHOT ‖ node ‖ round(8) ‖ timestamp(8) ↦ hash ‖ signer ‖ signer …      `recs`

  `writeSnapshotWork` (called by `WriteSnapshot`) sets one record; `ReadSnapshotWorksForNodeRound`
  lists the records of a (node, round) in key order = timestamp order, each with its own hash,
  timestamp and signer list; `WriteRoundWork` deletes the records of the round it leaves
  (`removeSnapshotWorksForRound(off)` when `round = off + 1`). -/

abbrev RecKey := Hash × Nat × Nat

structure SR where
  s : S
  recs : List (RecKey × (Hash × List Hash))
  deriving Repr, DecidableEq

def emptySR : SR := { s := empty, recs := [] }

def recLt (a b : RecKey) : Prop :=
  a.1 < b.1 ∨ (a.1 = b.1 ∧ (a.2.1 < b.2.1 ∨ (a.2.1 = b.2.1 ∧ a.2.2 < b.2.2)))

instance (a b : RecKey) : Decidable (recLt a b) := by unfold recLt; exact inferInstance

/-- `txn.Set`: sorted insert, an equal key is overwritten -/
def insertRec (k : RecKey) (v : Hash × List Hash) :
    List (RecKey × (Hash × List Hash)) → List (RecKey × (Hash × List Hash))
  | [] => [(k, v)]
  | x :: xs => if recLt k x.1 then (k, v) :: x :: xs else if k = x.1 then (k, v) :: xs
      else x :: insertRec k v xs

/-- `writeSnapshotWork` -/
def writeWork (x : SR) (node : Hash) (round ts : Nat) (hash : Hash) (signers : List Hash) : SR :=
  { x with recs := insertRec (node, round, ts) (hash, signers) x.recs }

/-- `ReadSnapshotWorksForNodeRound`: the reader is the identity on what was written -/
def readWorks (x : SR) (node : Hash) (round : Nat) : List Snap :=
  (x.recs.filter (fun e => e.1.1 = node ∧ e.1.2.1 = round)).map
    (fun e => { hash := e.2.1, ts := e.1.2.2, signers := e.2.2 })

/-- read the round's works and submit them, as `AggregateMintWork` does -/
def submitRead (x : SR) (node : Hash) (round : Nat) (credit : Bool) : Option SR :=
  let off := (readOff node x.s.off).1
  match writeRoundWork x.s node round (readWorks x node round) credit with
  | none => none
  | some s' =>
    some { s := s',
           recs := if round = off + 1 then
               x.recs.filter (fun e => ¬ (e.1.1 = node ∧ e.1.2.1 = off))
             else x.recs }

/-- a direct `WriteRoundWork` on the layered state (also deletes the records of the round left) -/
def submitSR (x : SR) (node : Hash) (round : Nat) (snaps : List Snap) (credit : Bool) : Option SR :=
  let off := (readOff node x.s.off).1
  match writeRoundWork x.s node round snaps credit with
  | none => none
  | some s' =>
    some { s := s',
           recs := if round = off + 1 then
               x.recs.filter (fun e => ¬ (e.1.1 = node ∧ e.1.2.1 = off))
             else x.recs }

end Mixin.Work
