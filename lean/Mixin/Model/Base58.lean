import Mixin.Prelude.Proto
/-!
# Model of `util/base58/base58.go` (core Lean only)

`Encode`/`Decode` are followed statement by statement, including the ten-digits-at-a-time
optimisation (`bigRadix`, `bigRadix10`), the `'1'` ↔ leading-zero-byte handling and the
quirk that `Decode` answers the *empty* byte string for every input that contains a byte
outside the alphabet (Go ranges over the string by rune: a byte ≥ 0x80 becomes a rune that
is either > 255 or has `b58[v] = 255`, so it is rejected like any other foreign byte).

Strings are byte lists (`Bytes`); big integers are `Nat`. Loops carry an explicit fuel
argument which is always large enough (proved in `Props/C32.lean`).
-/
namespace Mixin.Base58
open Mixin.Proto

/-- `alphabet` of util/base58/alphabet.go as character codes -/
def alphabetNat : List Nat :=
  [49, 50, 51, 52, 53, 54, 55, 56, 57, 65, 66, 67, 68, 69, 70, 71, 72, 74, 75, 76, 77, 78, 80,
   81, 82, 83, 84, 85, 86, 87, 88, 89, 90, 97, 98, 99, 100, 101, 102, 103, 104, 105, 106, 107,
   109, 110, 111, 112, 113, 114, 115, 116, 117, 118, 119, 120, 121, 122]

/-- `alphabetIdx0` -/
def idx0 : UInt8 := 49

/-- `alphabet[d]` -/
def alpha (d : Nat) : UInt8 := (alphabetNat.getD d 0).toUInt8

/-- the `b58` table: position in the alphabet, 255 for every other byte -/
def b58 (c : UInt8) : Nat :=
  let i := alphabetNat.idxOf c.toNat
  if i < 58 then i else 255

/-- little-endian digits of `n` in base `b` (`fuel ≥ n` is always enough) -/
def digitsAux (b : Nat) : Nat → Nat → List Nat
  | 0, _ => []
  | f + 1, n => if n = 0 then [] else n % b :: digitsAux b f (n / b)

def digitsLE (b n : Nat) : List Nat := digitsAux b n n

/-- big-endian positional value -/
def ofBE (b : Nat) (ds : List Nat) : Nat := ds.foldl (fun a d => a * b + d) 0

/-- number of leading occurrences of `z` -/
def leadingCount (z : UInt8) : Bytes → Nat
  | [] => 0
  | c :: r => if c = z then leadingCount z r + 1 else 0

/-- `big.Int.SetBytes` -/
def bytesToNat (b : Bytes) : Nat := b.foldl (fun a x => a * 256 + x.toNat) 0

/-- `big.Int.Bytes`: big-endian, no leading zero byte, empty for 0 -/
def natToBytes (n : Nat) : Bytes := (digitsLE 256 n).reverse.map Nat.toUInt8

/-! ## Encode -/

/-- `bigRadix10` -/
def radix10 : Nat := 58 ^ 10

/-- `for m > 0 { answer = append(answer, alphabet[m%58]); m /= 58 }` -/
def emitWhile : Nat → Nat → Bytes
  | 0, _ => []
  | f + 1, m => if m = 0 then [] else alpha (m % 58) :: emitWhile f (m / 58)

/-- `for range k { answer = append(answer, alphabet[m%58]); m /= 58 }` -/
def emitN : Nat → Nat → Bytes
  | 0, _ => []
  | k + 1, m => alpha (m % 58) :: emitN k (m / 58)

/-- the `for x.Sign() > 0` loop; the result is `answer` before the reversal -/
def encodeLoop : Nat → Nat → Bytes
  | 0, _ => []
  | f + 1, x =>
    if x = 0 then [] else
    let q := x / radix10
    let m := x % radix10
    if q = 0 then emitWhile m m else emitN 10 m ++ encodeLoop f q

def encode (b : Bytes) : Bytes :=
  let x := bytesToNat b
  (encodeLoop x x ++ List.replicate (leadingCount 0 b) idx0).reverse

/-! ## Decode -/

/-- `bigRadix[n]` -/
def bigRadix (n : Nat) : Nat := if n = 0 then 0 else 58 ^ n

/-- inner loop over one chunk: `total = total*58 + b58[v]`, `none` on a foreign byte -/
def chunkTotal (total : Nat) : Bytes → Option Nat
  | [] => some total
  | v :: r => if b58 v = 255 then none else chunkTotal (total * 58 + b58 v) r

/-- outer loop `for t := b; len(t) > 0; { … t = t[n:] }` -/
def decodeLoop : Nat → Bytes → Nat → Option Nat
  | 0, _, answer => some answer
  | f + 1, t, answer =>
    match t with
    | [] => some answer
    | _ :: _ =>
      let n := min t.length 10
      match chunkTotal 0 (t.take n) with
      | none => none
      | some total => decodeLoop f (t.drop n) (answer * bigRadix n + total)

/-- `none` = the early `return []byte("")` -/
def decode? (s : Bytes) : Option Bytes :=
  match decodeLoop s.length s 0 with
  | none => none
  | some answer => some (List.replicate (leadingCount idx0 s) 0 ++ natToBytes answer)

/-- `base58.Decode` -/
def decode (s : Bytes) : Bytes := (decode? s).getD []

end Mixin.Base58
