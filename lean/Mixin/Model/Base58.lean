import Mixin.Prelude.Proto
/-!
# Model of `util/base58/base58.go` (core Lean only)

`Encode`/`Decode` are followed statement by statement, including the ten-digits-at-a-time
optimisation (`bigRadix`, `bigRadix10`), the `'1'` ↔ leading-zero-byte handling and the
quirk that `Decode` answers the *empty* byte string for every input that contains a byte
outside the alphabet. Go ranges over each ten-*byte* chunk by *rune*; the model decodes
UTF-8 the same way (`decodeRune`). That a non-ASCII byte always ends in the early return
(its rune is ≥ 0x80, so it is > 255 or has `b58[v] = 255`) is a theorem, not an assumption.

Strings are byte lists (`Bytes`); big integers are `Nat`. Loops carry an explicit fuel
argument which is always large enough (proved in `Props/C32.lean`).
-/
namespace Mixin.Base58
open Mixin.Proto

/-- `alphabet` of util/base58/alphabet.go as character codes -/
def alphabetNat : List Nat :=
  [49, 50, 51, 52, 53, 54, 55, 56, 57, 65, 66, 67, 68, 69, 70, 71, 72, 74, 75, 76, 77, 78, 80,
   81, 82, 83, 84, 85, 86, 87, 88, 89, 90, 97, 98, 99, 100, 101, 102, 103, 104, 105, 106, 107,
   109, 110, 111, 112, 113, 114, 115, 116, 117, 118, 119, 120, 121, 122]

/-- `alphabetIdx0` -/
def idx0 : UInt8 := 49

/-- `alphabet[d]` -/
def alpha (d : Nat) : UInt8 := (alphabetNat.getD d 0).toUInt8

/-- the `b58` table: position in the alphabet, 255 for every other byte -/
def b58 (c : UInt8) : Nat :=
  let i := alphabetNat.idxOf c.toNat
  if i < 58 then i else 255

/-- little-endian digits of `n` in base `b` (`fuel ≥ n` is always enough) -/
def digitsAux (b : Nat) : Nat → Nat → List Nat
  | 0, _ => []
  | f + 1, n => if n = 0 then [] else n % b :: digitsAux b f (n / b)

def digitsLE (b n : Nat) : List Nat := digitsAux b n n

/-- big-endian positional value -/
def ofBE (b : Nat) (ds : List Nat) : Nat := ds.foldl (fun a d => a * b + d) 0

/-- number of leading occurrences of `z` -/
def leadingCount (z : UInt8) : Bytes → Nat
  | [] => 0
  | c :: r => if c = z then leadingCount z r + 1 else 0

/-- `big.Int.SetBytes` -/
def bytesToNat (b : Bytes) : Nat := b.foldl (fun a x => a * 256 + x.toNat) 0

/-- `big.Int.Bytes`: big-endian, no leading zero byte, empty for 0 -/
def natToBytes (n : Nat) : Bytes := (digitsLE 256 n).reverse.map Nat.toUInt8

/-! ## Encode -/

/-- `bigRadix10` -/
def radix10 : Nat := 58 ^ 10

/-- `for m > 0 { answer = append(answer, alphabet[m%58]); m /= 58 }` -/
def emitWhile : Nat → Nat → Bytes
  | 0, _ => []
  | f + 1, m => if m = 0 then [] else alpha (m % 58) :: emitWhile f (m / 58)

/-- `for range k { answer = append(answer, alphabet[m%58]); m /= 58 }` -/
def emitN : Nat → Nat → Bytes
  | 0, _ => []
  | k + 1, m => alpha (m % 58) :: emitN k (m / 58)

/-- the `for x.Sign() > 0` loop; the result is `answer` before the reversal -/
def encodeLoop : Nat → Nat → Bytes
  | 0, _ => []
  | f + 1, x =>
    if x = 0 then [] else
    let q := x / radix10
    let m := x % radix10
    if q = 0 then emitWhile m m else emitN 10 m ++ encodeLoop f q

def encode (b : Bytes) : Bytes :=
  let x := bytesToNat b
  (encodeLoop x x ++ List.replicate (leadingCount 0 b) idx0).reverse

/-! ## Decode -/

/-- `bigRadix[n]` -/
def bigRadix (n : Nat) : Nat := if n = 0 then 0 else 58 ^ n

/-- `utf8.DecodeRuneInString` for a lead byte `s0 ≥ 0x80` followed by `rest`:
    (rune, width). Invalid or truncated encodings give `(RuneError, 1)`; over-long forms and
    surrogates are invalid (the `acceptRanges` of unicode/utf8). Bytes are numbers here. -/
def decodeRune (s0 : Nat) (rest : List Nat) : Nat × Nat :=
  let err : Nat × Nat := (0xFFFD, 1)
  if s0 < 0xC2 ∨ 0xF4 < s0 then err
  else if s0 < 0xE0 then
    match rest with
    | s1 :: _ => if 0x80 ≤ s1 ∧ s1 ≤ 0xBF then ((s0 % 32) * 64 + s1 % 64, 2) else err
    | _ => err
  else if s0 < 0xF0 then
    let lo := if s0 = 0xE0 then 0xA0 else 0x80
    let hi := if s0 = 0xED then 0x9F else 0xBF
    match rest with
    | s1 :: s2 :: _ =>
      if lo ≤ s1 ∧ s1 ≤ hi ∧ 0x80 ≤ s2 ∧ s2 ≤ 0xBF then
        ((s0 % 16) * 4096 + (s1 % 64) * 64 + s2 % 64, 3) else err
    | _ => err
  else
    let lo := if s0 = 0xF0 then 0x90 else 0x80
    let hi := if s0 = 0xF4 then 0x8F else 0xBF
    match rest with
    | s1 :: s2 :: s3 :: _ =>
      if lo ≤ s1 ∧ s1 ≤ hi ∧ 0x80 ≤ s2 ∧ s2 ≤ 0xBF ∧ 0x80 ≤ s3 ∧ s3 ≤ 0xBF then
        ((s0 % 8) * 262144 + (s1 % 64) * 4096 + (s2 % 64) * 64 + s3 % 64, 4) else err
    | _ => err

/-- `b58[v]` for a rune `v ≤ 255` -/
def b58Rune (v : Nat) : Nat := b58 v.toUInt8

/-- inner loop over one chunk `for _, v := range t[:n]`: Go ranges over the *runes* of the
    byte string: a byte < 0x80 is its own rune, otherwise the UTF-8 decoder runs (invalid →
    U+FFFD, width 1). `if v > 255 → return ""`, `if b58[v] == 255 → return ""`,
    `total = total*58 + b58[v]`. `none` = the early return. Fuel ≥ length suffices. -/
def chunkRunes : Nat → Nat → Bytes → Option Nat
  | 0, total, _ => some total
  | _ + 1, total, [] => some total
  | f + 1, total, c :: r =>
    let (v, w) := if c.toNat < 0x80 then (c.toNat, 1) else decodeRune c.toNat (r.map UInt8.toNat)
    if v > 255 then none
    else if b58Rune v = 255 then none
    else chunkRunes f (total * 58 + b58Rune v) (r.drop (w - 1))

/-- the same loop when every byte is its own rune (what `chunkRunes` amounts to, see
    `Mixin.Base58.chunkRunes_eq`): `none` on a byte outside the alphabet -/
def chunkTotal (total : Nat) : Bytes → Option Nat
  | [] => some total
  | v :: r => if b58 v = 255 then none else chunkTotal (total * 58 + b58 v) r

/-- outer loop `for t := b; len(t) > 0; { … t = t[n:] }` -/
def decodeLoop : Nat → Bytes → Nat → Option Nat
  | 0, _, answer => some answer
  | f + 1, t, answer =>
    match t with
    | [] => some answer
    | _ :: _ =>
      let n := min t.length 10
      match chunkRunes n 0 (t.take n) with
      | none => none
      | some total => decodeLoop f (t.drop n) (answer * bigRadix n + total)

/-- `none` = the early `return []byte("")` -/
def decode? (s : Bytes) : Option Bytes :=
  match decodeLoop s.length s 0 with
  | none => none
  | some answer => some (List.replicate (leadingCount idx0 s) 0 ++ natToBytes answer)

/-- `base58.Decode` -/
def decode (s : Bytes) : Bytes := (decode? s).getD []

end Mixin.Base58
