/-!
# Model of the consensus-operation chain (C28)

Sources: `common/transaction.go` (`IsSnapshotBatchable`), `kernel/self.go`
(`validateKernelSnapshot`, `validateConsensusTransactionReferences`), `kernel/graph.go`
(`ReadLastConsensusSnapshotWithHack`, `WriteConsensusSnapshotWithHack`),
`storage/badger_graph.go` (`writeConsensusSnapshot`, `readLastConsensusSnapshot`).

Hashes are `Nat` (big-endian value of the 32 bytes). Transaction type codes and output type
codes are the numeric constants of `common/transaction.go`; they come in through `Codes`, which
the driver fills from the regenerated facts.
-/
namespace Mixin.ConsensusChain

structure Codes where
  tScript : Nat
  tMint : Nat
  tDeposit : Nat
  tWithdrawalSubmit : Nat
  tWithdrawalClaim : Nat
  tNodePledge : Nat
  tNodeAccept : Nat
  tNodeRemove : Nat
  tNodeCancel : Nat
  tCustodianUpdate : Nat
  tCustodianSlash : Nat
  oNodePledge : Nat
  oNodeCancel : Nat
  oNodeAccept : Nat
  oNodeRemove : Nat
  oCustodianUpdate : Nat
  oCustodianSlash : Nat

/-- `SignedTransaction.IsSnapshotBatchable` as a function of `TransactionType()` -/
def isBatchable (c : Codes) (t : Nat) : Bool :=
  t == c.tScript || t == c.tDeposit || t == c.tWithdrawalSubmit || t == c.tWithdrawalClaim

/-- the type list of `validateConsensusTransactionReferences` / `WriteConsensusSnapshotWithHack` -/
def isConsensusType (c : Codes) (t : Nat) : Bool :=
  t == c.tMint || t == c.tNodePledge || t == c.tNodeCancel || t == c.tNodeAccept ||
  t == c.tNodeRemove || t == c.tCustodianUpdate || t == c.tCustodianSlash

/-- the output-type list of `writeConsensusSnapshot` -/
def isConsensusOutput (c : Codes) (o : Nat) : Bool :=
  o == c.oNodePledge || o == c.oNodeCancel || o == c.oNodeAccept || o == c.oNodeRemove ||
  o == c.oCustodianUpdate || o == c.oCustodianSlash

/-- what the checks read of a transaction -/
structure Tx where
  hash : Nat
  ttype : Nat              -- `TransactionType()`
  mintSole : Bool          -- `len(Inputs) == 1 && Inputs[0].Mint != nil`
  out0 : Option Nat        -- `Outputs[0].Type`
  isGenesis : Bool         -- `len(Inputs) == 1 && Inputs[0].Genesis != nil`
  refs : List Nat          -- `References`
  deriving DecidableEq, Repr

/-- what the checks read of a snapshot -/
structure Snap where
  hash : Nat               -- `PayloadHash()`
  ts : Nat
  txs : List Nat
  deriving DecidableEq, Repr

/-- one `CONSENSUSSNAPSHOT` record: key `(ts, snapshot hash)`, value empty or a transaction hash -/
structure CRec where
  ts : Nat
  snap : Nat
  val : Option Nat
  deriving DecidableEq, Repr

structure Store where
  bodies : List Snap       -- snapshots readable through `readSnapshotWithTopo`
  recs : List CRec         -- in key order `(ts, snap)`, unique keys
  deriving DecidableEq, Repr

def keyLt (a b : CRec) : Bool := a.ts < b.ts || (a.ts == b.ts && a.snap < b.snap)
def sameKey (a b : CRec) : Bool := a.ts == b.ts && a.snap == b.snap

def put : List CRec → CRec → List CRec
  | [], r => [r]
  | x :: xs, r =>
    if sameKey x r then r :: xs
    else if keyLt r x then r :: x :: xs
    else x :: put xs r

def maxU64 : Nat := 2 ^ 64 - 1

/-- a record is found by the reverse seek from `(^uint64(0), Hash{})` -/
def seekable (r : CRec) : Bool := r.ts < maxU64 || r.snap == 0

def findBody (bodies : List Snap) (h : Nat) : Option Snap := bodies.find? (fun b => b.hash == h)

inductive ReadLast where
  | none                 -- no record
  | some (s : Snap)
  | panic
  deriving DecidableEq, Repr

/-- `readLastConsensusSnapshot` -/
def readLast (st : Store) : ReadLast :=
  match (st.recs.filter seekable).getLast? with
  | none => .none
  | some r =>
    match findBody st.bodies r.snap with
    | none => .panic                                   -- nil snapshot dereferenced
    | some b =>
      if b.ts != r.ts then .panic
      else if r.val.isSome then .panic
      else .some b

inductive Decision where
  | accept | reject | panic
  deriving DecidableEq, Repr

/-- `ReadLastConsensusSnapshotWithHack`: `hack` is what the mainnet fallback computes from the
    node list and the mint distributions (a historical exception, kept as a parameter);
    `none` for every other network, where the missing record panics. -/
def readLastWithHack (st : Store) (hack : Option Snap) : Option (Snap × Bool) :=
  match readLast st with
  | .panic => none
  | .some s => some (s, false)
  | .none => match hack with
    | some h => some (h, true)
    | none => none

/-- `validateConsensusTransactionReferences` -/
def validateRefs (c : Codes) (st : Store) (hack : Option Snap) (sts : Nat) (tx : Tx) : Decision :=
  if !(isConsensusType c tx.ttype) then .accept
  else if tx.refs.length < 1 then .reject
  else
    match readLastWithHack st hack with
    | none => .panic
    | some (last, _) =>
      if last.txs.length > 1 then .reject
      else
        match last.txs.head? with
        | none => .panic
        | some ltx =>
          if ltx == tx.hash then .accept
          else if tx.refs.head? != some ltx then .reject
          else if sts ≤ last.ts then .reject
          else .accept

/-- the environment of `validateKernelSnapshot` that is not the store -/
structure Env where
  mainnet : Bool           -- `node.networkId.String() == config.KernelNetworkId`
  forkAt : Nat             -- `mainnetConsensusReferenceForkAt`
  hack : Option Snap

inductive KDecision where
  | accept | reject | panic
  | typeCheck              -- all generic rules passed; the per-type validator decides
  deriving DecidableEq, Repr

/-- transaction types that have a validator of their own after the reference rule -/
def hasTypeValidator (c : Codes) (t : Nat) : Bool :=
  t == c.tMint || t == c.tNodePledge || t == c.tNodeCancel || t == c.tNodeAccept ||
  t == c.tNodeRemove || t == c.tCustodianUpdate

/-- `validateKernelSnapshot(s, found, finalized)`; `self` = `s.NodeId == node.IdForNetwork`.
    `found` is the map of transaction bodies found so far. -/
def validateKernel (c : Codes) (e : Env) (st : Store) (s : Snap) (self : Bool) (round : Nat)
    (found : List Tx) (finalized : Bool) : KDecision :=
  if s.txs.length > 1 then
    if found.all (fun t => isBatchable c t.ttype) then .accept else .reject
  else if finalized && e.mainnet && s.ts < e.forkAt then .accept
  else
    match s.txs.head? with
    | none => .panic
    | some h =>
      match found.find? (fun t => t.hash == h) with
      | none => .panic                                  -- nil transaction dereferenced
      | some tx =>
        if !self && round == 0 && tx.ttype != c.tNodeAccept then .reject
        else
          match validateRefs c st e.hack s.ts tx with
          | .panic => .panic
          | .reject => .reject
          | .accept =>
            if tx.ttype == c.tCustodianSlash then .reject
            else if hasTypeValidator c tx.ttype then .typeCheck
            else .accept

inductive WOutcome where
  | ok (st : Store)
  | panic
  deriving DecidableEq, Repr

/-- the class assertion of `writeConsensusSnapshot`: a sole mint input, or `Outputs[0]` of a
    consensus output type (`none` = no output: index panic) -/
def shapeOk (c : Codes) (tx : Tx) : Bool :=
  tx.mintSole || (match tx.out0 with | some o => isConsensusOutput c o | none => false)

/-- `writeConsensusSnapshot(txn, snap, tx, hack)` inside `WriteConsensusSnapshot`; the
    assertions are `panic`. The snapshot body itself is written elsewhere (`WriteSnapshot`). -/
def writeConsensus (c : Codes) (st : Store) (snap : Snap) (tx : Tx) (hack : Option Snap) : WOutcome :=
  if snap.txs.length != 1 then .panic
  else if snap.txs.head? != some tx.hash then .panic
  else if !(shapeOk c tx) then .panic
  else
    match readLast st with
    | .panic => .panic
    | rl =>
      let last? : Option (Option Snap) :=     -- outer none = panic
        match hack, rl with
        | some _, .some _ => none
        | some h, _ => some (some h)
        | none, .some l => some (some l)
        | none, _ => some none
      match last? with
      | none => .panic
      | some last =>
        if tx.isGenesis then
          .ok { st with recs := put st.recs ⟨snap.ts, snap.hash, none⟩ }
        else
          match last with
          | none => .panic                              -- nil snapshot dereferenced
          | some l =>
            if l.txs.length != 1 then .panic
            else
              match l.txs.head? with
              | none => .panic
              | some sole =>
                if sole == tx.hash then .ok st
                else if tx.refs.head? != some sole then .panic
                else if l.ts ≥ snap.ts then .panic
                else
                  let recs1 := put st.recs ⟨l.ts, l.hash, some tx.hash⟩
                  .ok { st with recs := put recs1 ⟨snap.ts, snap.hash, none⟩ }

/-- `WriteConsensusSnapshotWithHack`; `none` = panic -/
def writeWithHack (c : Codes) (e : Env) (st : Store) (snap : Snap) (tx : Tx) : WOutcome :=
  if !(isConsensusType c tx.ttype) then .panic
  else
    match readLastWithHack st e.hack with
    | none => .panic
    | some (_, false) => writeConsensus c st snap tx none
    | some (last, true) =>
      if !e.mainnet then .panic
      else if tx.refs.length == 0 then .ok st
      else writeConsensus c st snap tx (some last)

/-- `WriteSnapshot` as far as this property is concerned: the body becomes readable -/
def addBody (st : Store) (s : Snap) : Store :=
  if (findBody st.bodies s.hash).isSome then st else { st with bodies := st.bodies ++ [s] }

/-- One snapshot carrying one transaction reaches finalization on a node: it is validated
    (`validateSnapshotTransaction(s, true)` → `validateKernelSnapshot`), its per-type validator
    answers `typeOk`, the snapshot is written, then `reloadConsensusState` records it. The
    store is left unchanged when validation fails. `none` = a panic. -/
def finalizeOp (c : Codes) (e : Env) (st : Store) (s : Snap) (self : Bool) (round : Nat) (tx : Tx)
    (typeOk : Bool) : Option Store :=
  match validateKernel c e st s self round [tx] true with
  | .panic => none
  | .reject => some st
  | d =>
    if d == .typeCheck && !typeOk then some st
    else
      let st1 := addBody st s
      if isConsensusType c tx.ttype then
        match writeWithHack c e st1 s tx with
        | .ok st2 => some st2
        | .panic => none
      else some st1

/-! ## `validateSnapshotTransaction` (kernel/self.go)

The outer validation of a snapshot's transactions. For every hash, in the order of
`s.Transactions`, the body is looked up in the persistent store (`ReadTransaction`), then in
the cache (`CacheGetTransaction`). A persisted body is trusted as a *transaction* (it is not
validated again) but the kernel snapshot rule is run again on it; a cached body is validated
(`tx.Validate`), run through the kernel snapshot rule, then locked and persisted. -/

/-- where `validateSnapshotTransaction` finds a body -/
inductive Loc where
  | persisted (finIn : Option Nat)   -- in the persistent store; finalized in this snapshot, if any
  | cached                           -- only in the cache store
  | absent
  deriving DecidableEq, Repr

/-- what one iteration of the loop sees -/
structure Item where
  tx : Tx
  loc : Loc
  valid : Bool       -- answer of `tx.Validate(store, s.Timestamp, finalized)` (cached branch only)
  vpanic : Bool      -- `tx.Validate` panicked (cached branch only)
  lockOk : Bool      -- `lockAndPersistTransaction` succeeded (cached branch only)
  deriving DecidableEq, Repr

structure VResult where
  decision : Decision
  found : List Tx
  missing : Nat
  newly : List Nat   -- hashes persisted by this call (also when it fails later)
  deriving DecidableEq, Repr

/-- `validateKernelSnapshot` inside the loop; `typeOk` answers the per-type validator -/
def kernelStep (c : Codes) (e : Env) (st : Store) (s : Snap) (self : Bool) (round : Nat)
    (found : List Tx) (fin typeOk : Bool) : Decision :=
  match validateKernel c e st s self round found fin with
  | .accept => .accept
  | .typeCheck => if typeOk then .accept else .reject
  | .reject => .reject
  | .panic => .panic

def vstLoop (c : Codes) (e : Env) (st : Store) (s : Snap) (self : Bool) (round : Nat)
    (fin typeOk : Bool) : List Item → List Tx → Nat → List Nat → VResult
  | [], found, missing, newly => ⟨.accept, found, missing, newly⟩
  | it :: rest, found, missing, newly =>
    match it.loc with
    | .absent => vstLoop c e st s self round fin typeOk rest found (missing + 1) newly
    | .persisted finIn =>
      if !fin && finIn.isSome && finIn != some s.hash then ⟨.reject, found, missing, newly⟩
      else
        match kernelStep c e st s self round (found ++ [it.tx]) fin typeOk with
        | .accept => vstLoop c e st s self round fin typeOk rest (found ++ [it.tx]) missing newly
        | d => ⟨d, found ++ [it.tx], missing, newly⟩
    | .cached =>
      if it.vpanic then ⟨.panic, found, missing, newly⟩
      else if !it.valid then ⟨.reject, found, missing, newly⟩
      else
        match kernelStep c e st s self round (found ++ [it.tx]) fin typeOk with
        | .accept =>
          if !it.lockOk then ⟨.reject, found ++ [it.tx], missing, newly⟩
          else vstLoop c e st s self round fin typeOk rest (found ++ [it.tx]) missing (newly ++ [it.tx.hash])
        | d => ⟨d, found ++ [it.tx], missing, newly⟩

/-- `validateSnapshotTransaction(s, finalized)`; `items` are the lookups for `s.Transactions`
    in order -/
def validateSnapshotTx (c : Codes) (e : Env) (st : Store) (s : Snap) (self : Bool) (round : Nat)
    (fin typeOk : Bool) (items : List Item) : VResult :=
  vstLoop c e st s self round fin typeOk items [] 0 []

/-- NOT the code: the loop with the kernel snapshot rule skipped for persisted bodies ("it
    was validated before it was persisted"). Used only to show that the rule is load-bearing
    in that branch (`Mixin.C28.persisted_branch_must_revalidate`). -/
def vstLoopTrusting (c : Codes) (e : Env) (st : Store) (s : Snap) (self : Bool) (round : Nat)
    (fin typeOk : Bool) : List Item → List Tx → Nat → List Nat → VResult
  | [], found, missing, newly => ⟨.accept, found, missing, newly⟩
  | it :: rest, found, missing, newly =>
    match it.loc with
    | .absent => vstLoopTrusting c e st s self round fin typeOk rest found (missing + 1) newly
    | .persisted finIn =>
      if !fin && finIn.isSome && finIn != some s.hash then ⟨.reject, found, missing, newly⟩
      else vstLoopTrusting c e st s self round fin typeOk rest (found ++ [it.tx]) missing newly
    | .cached =>
      if it.vpanic then ⟨.panic, found, missing, newly⟩
      else if !it.valid then ⟨.reject, found, missing, newly⟩
      else
        match kernelStep c e st s self round (found ++ [it.tx]) fin typeOk with
        | .accept =>
          if !it.lockOk then ⟨.reject, found ++ [it.tx], missing, newly⟩
          else vstLoopTrusting c e st s self round fin typeOk rest (found ++ [it.tx]) missing (newly ++ [it.tx.hash])
        | d => ⟨d, found ++ [it.tx], missing, newly⟩

end Mixin.ConsensusChain
