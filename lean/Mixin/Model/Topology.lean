/-
  Model of storage/badger_topology.go, the topology part of storage/badger_graph.go:WriteSnapshot
  and kernel/topology.go:TopoWrite / getTopologyCounter (property C35).

    TOPOLOGY ‖ order(8, big endian) ↦ snapshot key      `topo`  (kept in key order = numeric order)
    SNAPTOPO ‖ snapshot hash        ↦ TOPOLOGY key      `rev`
    TopologicalSequence.seq                              `seq`   (in memory, `none` = no node running)

  The snapshot key `SNAPSHOT ‖ node ‖ round ‖ hash` and the snapshot record stored under it are
  written in the same Badger transaction as the two index records; the model identifies the
  snapshot key, the record and its payload hash (`Hash := Nat`, numbered by the harness).
  `WriteSnapshot` is one Badger transaction under the store mutex = one atomic step; `TopoWrite`
  runs under the `TopoCounter` mutex = one atomic step. A panic leaves the store unchanged — the
  counter increment of `TopoWrite` happens *before* the write and survives a (recovered) panic.
-/
namespace Mixin.Topology

abbrev Hash := Nat

structure S where
  topo : List (Nat × Hash)
  rev : List (Hash × Nat)
  seq : Option Nat
  deriving Repr, DecidableEq

def empty : S := { topo := [], rev := [], seq := none }

def hasOrder (o : Nat) (t : List (Nat × Hash)) : Bool := t.any (fun e => e.1 == o)
def hasHash (h : Hash) (r : List (Hash × Nat)) : Bool := r.any (fun e => e.1 == h)

/-- `txn.Set(TOPOLOGY ‖ order, …)` for an absent key: insertion in key order -/
def insertTopo (o : Nat) (h : Hash) : List (Nat × Hash) → List (Nat × Hash)
  | [] => [(o, h)]
  | x :: xs => if o < x.1 then (o, h) :: x :: xs else x :: insertTopo o h xs

def lookupRev (h : Hash) : List (Hash × Nat) → Option Nat
  | [] => none
  | e :: r => if e.1 = h then some e.2 else lookupRev h r

def lookupTopo (o : Nat) : List (Nat × Hash) → Option Hash
  | [] => none
  | e :: r => if e.1 = o then some e.2 else lookupTopo o r

/-- `BadgerStore.WriteSnapshot` restricted to the topology records: `none` = panic
    ("snapshot duplication" assert of the debug build, or an occupied TOPOLOGY key in
    `writeTopology`), store unchanged. -/
def writeSnapshot (s : S) (o : Nat) (h : Hash) : Option S :=
  if hasHash h s.rev then none
  else if hasOrder o s.topo then none
  else some { s with topo := insertTopo o h s.topo, rev := (h, o) :: s.rev }

/-- `readLastTopology`: the largest TOPOLOGY key, 0 when there is none -/
def lastOrder : List (Nat × Hash) → Nat
  | [] => 0
  | [e] => e.1
  | _ :: r => lastOrder r

/-- `readSnapshotsSinceTopology`: seek to the first key ≥ `off`, then up to `count` entries -/
def readSince (t : List (Nat × Hash)) (off count : Nat) : List (Nat × Hash) :=
  (t.dropWhile (fun e => e.1 < off)).take count

def maxCount : Nat := 500

inductive Op where
  | raw (o : Nat) (h : Hash)       -- store.WriteSnapshot with a caller-chosen order (genesis load)
  | boot                           -- getTopologyCounter: seq := order of LastSnapshot()
  | write (h : Hash)               -- node.TopoWrite
  | stop                           -- process exit / store reopened: the counter is gone
  | since (off count : Nat)        -- ReadSnapshotsSinceTopology
  | lookup (h : Hash)              -- ReadSnapshot
  | last                           -- LastSnapshot().TopologicalOrder
  | nsince (off count : Nat)       -- node.ReadSnapshotsSinceTopology (kernel/node.go, used by p2p sync)
  | tick                           -- one statistics tick of TopologicalSequence.TopoStats
  deriving Repr, DecidableEq

inductive Out where
  | ok
  | panic
  | nonode
  | err
  | order (o : Nat)
  | list (l : List (Nat × Hash))
  | found (r : Option (Nat × Hash))
  deriving Repr, DecidableEq

def step (s : S) : Op → S × Out
  | .raw o h =>
    match writeSnapshot s o h with
    | some s' => (s', .ok)
    | none => (s, .panic)
  | .boot =>
    if s.topo.isEmpty then (s, .panic)           -- LastSnapshot: `len(snaps) != 1`
    else ({ s with seq := some (lastOrder s.topo) }, .order (lastOrder s.topo))
  | .write h =>
    match s.seq with
    | none => (s, .nonode)
    | some n =>
      let s1 := { s with seq := some (n + 1) }   -- `node.TopoCounter.seq += 1`
      match writeSnapshot s1 (n + 1) h with
      | some s' => (s', .order (n + 1))
      | none => (s1, .panic)
  | .stop => ({ s with seq := none }, .ok)
  | .since off count =>
    if count > maxCount then (s, .err) else (s, .list (readSince s.topo off count))
  | .lookup h =>
    match lookupRev h s.rev with
    | none => (s, .found none)
    | some o =>
      match lookupTopo o s.topo with
      | none => (s, .err)
      | some h' => (s, .found (some (o, h')))
  | .last =>
    if s.topo.isEmpty then (s, .panic) else (s, .order (lastOrder s.topo))
  | .nsince off count =>
    -- the node-level wrapper is the identity on the storage listing (inclusive cursor)
    match s.seq with
    | none => (s, .nonode)
    | some _ => if count > maxCount then (s, .err) else (s, .list (readSince s.topo off count))
  | .tick =>
    -- TopoStats reads `seq` to compute rates and moves its own checkpoints; `seq` is not written
    match s.seq with
    | none => (s, .nonode)
    | some n => (s, .order n)

def final (s : S) : List Op → S
  | [] => s
  | op :: ops => final (step s op).1 ops

def outs (s : S) : List Op → List Out
  | [] => []
  | op :: ops => (step s op).2 :: outs (step s op).1 ops

end Mixin.Topology
