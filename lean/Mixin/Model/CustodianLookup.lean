/-!
# Custodian history lookup (C11)

Model of `storage/badger_custodian.go`: `readCustodianAccount`, `parseCustodianUpdateItem` with its
`sync.Map` cache keyed by `(transaction hash, genesis flag)`, and the key-ordered store of
`CUSTODIANUPDATE ‖ timestamp ↦ transaction hash` entries. Parsing the transaction extra
(`common.ParseCustodianUpdateNodesExtra(extra, genesis)`) is an oracle `parse tx genesis`
(`none` = error); the harness supplies the real answers.
-/
namespace Mixin.CustodianLookup

structure Entry where
  ts : Nat
  tx : Nat
deriving DecidableEq, Repr, Inhabited

/-- what `ReadCustodian` returns: parsed content with `Transaction` and `Timestamp` filled in by
    `cloneCustodianUpdate` -/
structure Found where
  content : Nat
  tx : Nat
  ts : Nat
deriving DecidableEq, Repr, Inhabited

abbrev Parse := Nat → Bool → Option Nat
abbrev Cache := List ((Nat × Bool) × Nat)

def cacheLoad (c : Cache) (k : Nat × Bool) : Option Nat :=
  match c.find? (fun e => e.1 == k) with
  | some e => some e.2
  | none => none

/-- `cache.LoadOrStore(k, v)`: returns the value now associated with `k` -/
def cacheLoadOrStore (c : Cache) (k : Nat × Bool) (v : Nat) : Nat × Cache :=
  match cacheLoad c k with
  | some old => (old, c)
  | none => (v, c ++ [(k, v)])

/-- `parseCustodianUpdateItem`; `cache = none` is the `nil` cache of `writeCustodianNodes`.
    `none` result = error return. -/
def parseItem (parse : Parse) (cache : Option Cache) (e : Entry) (genesis : Bool) :
    Option (Found × Option Cache) :=
  match cache with
  | some c =>
    match cacheLoad c (e.tx, genesis) with
    | some v => some (⟨v, e.tx, e.ts⟩, some c)
    | none =>
      match parse e.tx genesis with
      | none => none
      | some cur =>
        let (v, c') := cacheLoadOrStore c (e.tx, genesis) cur
        some (⟨v, e.tx, e.ts⟩, some c')
  | none =>
    match parse e.tx genesis with
    | none => none
    | some cur => some (⟨cur, e.tx, e.ts⟩, none)

/-- the iteration of `readCustodianAccount` over the key-ordered entries -/
def readLoop (parse : Parse) (ts : Nat) :
    List Entry → Bool → Option Found → Option Cache → Option (Option Found × Option Cache)
  | [], _, found, cache => some (found, cache)
  | e :: rest, genesis, found, cache =>
    if e.ts > ts then some (found, cache)
    else match parseItem parse cache e genesis with
      | none => none
      | some (cur, cache') => readLoop parse ts rest false (some cur) cache'

/-- `readCustodianAccount(txn, ts, cache)` -/
def readCustodian (parse : Parse) (store : List Entry) (ts : Nat) (cache : Option Cache) :
    Option (Option Found × Option Cache) :=
  readLoop parse ts store true none cache

/-- `txn.Set(graphCustodianUpdateKey(ts), hash)` on the key-ordered store -/
def insertKey (e : Entry) : List Entry → List Entry
  | [] => [e]
  | x :: xs => if e.ts < x.ts then e :: x :: xs else if e.ts = x.ts then e :: xs else x :: insertKey e xs

end Mixin.CustodianLookup
