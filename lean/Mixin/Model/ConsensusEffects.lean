/-!
# Class of a transaction vs. effects of its outputs (C28)

Sources: `common/transaction.go` (`TransactionType`), the per-class validators of
`common/validation.go` as far as they constrain the *output types* (`validateDeposit`,
`validateWithdrawalSubmit`, `validateWithdrawalClaim`; a script-class transaction is all
script outputs by the definition of its class), `common/utxo.go` (`UnspentOutputs`) and
`storage/badger_transaction.go` (`writeUTXO`: membership / custodian state is applied per
OUTPUT type).

The kernel decides batchability and the consensus reference rule on the *class* of a
transaction, which is decided by its first special output; storage applies state per output.
The two agree only because the validators pin the remaining outputs.
-/
namespace Mixin.ConsensusEffects

/-- output types -/
inductive OType where
  | script | wSubmit | wClaim | pledge | cancel | accept | remove | custUpdate | custSlash
  | other (code : Nat)
  deriving DecidableEq, Repr

/-- transaction classes (`TransactionType()`) -/
inductive Class where
  | script | mint | deposit | wSubmit | wClaim | pledge | accept | remove | cancel
  | custUpdate | custSlash | unknown
  deriving DecidableEq, Repr

inductive InKind where
  | utxo | deposit | mint | genesis
  deriving DecidableEq, Repr

/-- the loop over the inputs of `TransactionType()` -/
def classOfIns : List InKind → Option Class
  | [] => none
  | .mint :: _ => some .mint
  | .deposit :: _ => some .deposit
  | .genesis :: _ => some .unknown
  | .utxo :: rest => classOfIns rest

/-- the loop over the outputs of `TransactionType()`: the first special output decides -/
def classOfOuts : List OType → Bool → Class
  | [], isScript => if isScript then .script else .unknown
  | o :: rest, isScript =>
    match o with
    | .wSubmit => .wSubmit
    | .wClaim => .wClaim
    | .pledge => .pledge
    | .cancel => .cancel
    | .accept => .accept
    | .remove => .remove
    | .custUpdate => .custUpdate
    | .custSlash => .custSlash
    | .script => classOfOuts rest isScript
    | .other _ => classOfOuts rest false

/-- `TransactionType()` -/
def classOf (ins : List InKind) (outs : List OType) : Class :=
  match classOfIns ins with
  | some c => c
  | none => classOfOuts outs true

/-- `IsSnapshotBatchable()` on classes -/
def Class.batchable : Class → Bool
  | .script | .deposit | .wSubmit | .wClaim => true
  | _ => false

/-- the classes of `validateConsensusTransactionReferences` / `WriteConsensusSnapshotWithHack` -/
def Class.consensus : Class → Bool
  | .mint | .pledge | .cancel | .accept | .remove | .custUpdate | .custSlash => true
  | _ => false

/-- `writeUTXO` applies membership / custodian state for these output types (every one of
    them is materialised by `UnspentOutputs`) -/
def OType.consensusEffect : OType → Bool
  | .pledge | .cancel | .accept | .remove | .custUpdate => true
  | _ => false

/-- what the validator of a batchable class requires of the output types, for a transaction
    that is valid in every other respect (funding, signatures, amounts, references):
    * script: nothing more (the class itself means all outputs are script outputs);
    * deposit (`validateDeposit`): exactly one output, a script output;
    * withdrawal submit / claim: the first output is the submit / claim output and every
      further output is a script output. -/
def shapeValid (cls : Class) (outs : List OType) : Bool :=
  match cls with
  | .script => !outs.isEmpty
  | .deposit => outs == [.script]
  | .wSubmit => outs.head? == some .wSubmit && outs.tail.all (· == .script)
  | .wClaim => outs.head? == some .wClaim && outs.tail.all (· == .script)
  | _ => false

end Mixin.ConsensusEffects
