import Mixin.Model.Amount
import Mixin.Facts.Generated
/-
  Model of kernel/mint.go (property C25): the mint schedule (`mintBatchSize`,
  `mintMultiBatchesSize`, `poolSizeUniversal`), the mint window
  (`checkUniversalMintPossibility`), the work based distribution
  (`distributeKernelMintByWorks`, `validateWorksAndSpacesAggregator`) and the split of
  `buildUniversalMintTransaction`.

  Amounts are `Nat` (10⁻⁸ units), the operations are those of `Mixin.Amount`, which return
  `none` exactly where `common.Integer` panics. The schedule functions take the constants as a
  `Params` record, so that the theorems hold for every tuning; `params` is the record read
  from the source tree (`Mixin.Facts.Gen`).
-/
namespace Mixin.Mint
open Mixin.Amount

structure Params where
  pool : Nat      -- MintPool
  num : Nat       -- MintYearPercent = num / den
  den : Nat
  days : Nat      -- MintYearDays
  maxYears : Nat  -- the literal 10000 of mintBatchSize
deriving Repr

/-- the constants of the tree under test -/
def params : Params :=
  { pool := ofUint Mixin.Facts.Gen.kernel_MintPool_NewInteger
    num := ofUint Mixin.Facts.Gen.kernel_MintYearPercent_num
    den := ofUint Mixin.Facts.Gen.kernel_MintYearPercent_den
    days := Mixin.Facts.Gen.kernel_MintYearDays
    maxYears := 10000 }

def legacyEnding : Nat := Mixin.Facts.Gen.kernel_KernelNetworkLegacyEnding
def mintTimeBegin : Nat := Mixin.Facts.Gen.config_KernelMintTimeBegin
def mintTimeEnd : Nat := Mixin.Facts.Gen.config_KernelMintTimeEnd
def hourNs : Nat := 3600000000000

/-- `MintYearPercent.Product(pool)` -/
def yearOf (P : Params) (pool : Nat) : Nat := (Ratio.mk P.num P.den).product pool

/-- the year loop of `mintBatchSize`: `pool = pool.Sub(year)` repeated `n` times -/
def poolAfter (P : Params) : Nat → Nat → Option Nat
  | 0, pool => some pool
  | n + 1, pool =>
    match sub pool (yearOf P pool) with
    | none => none
    | some p => poolAfter P n p

/-- `mintBatchSize(batch)` -/
def mintBatchSize (P : Params) (batch : Nat) : Option Nat :=
  let years := batch / P.days
  if years > P.maxYears then none else
  match poolAfter P years P.pool with
  | none => none
  | some pool => div (yearOf P pool) (P.days : Int)

/-- the loop of `mintMultiBatchesSize`: `cnt` iterations starting at batch `i` -/
def multiLoop (P : Params) : Nat → Nat → Nat → Option Nat
  | 0, _, acc => some acc
  | cnt + 1, i, acc =>
    match mintBatchSize P i with
    | none => none
    | some x =>
      match add acc x with
      | none => none
      | some a => multiLoop P cnt (i + 1) a

/-- `mintMultiBatchesSize(old, batch)` -/
def mintMulti (P : Params) (old batch : Nat) : Option Nat :=
  if old ≥ batch then none else multiLoop P (batch - old) (old + 1) 0

/-- the year loop of `poolSizeUniversal`, state `(mint, pool)` -/
def poolSizeLoop (P : Params) : Nat → Nat → Nat → Option (Nat × Nat)
  | 0, mint, pool => some (mint, pool)
  | n + 1, mint, pool =>
    let year := yearOf P pool
    match add mint year, sub pool year with
    | some m, some p => poolSizeLoop P n m p
    | _, _ => none

/-- `poolSizeUniversal(batch)` for `batch ≥ 0` -/
def poolSize (P : Params) (batch : Nat) : Option Nat :=
  match poolSizeLoop P (batch / P.days) 0 P.pool with
  | none => none
  | some (mint, pool) =>
    match div (yearOf P pool) (P.days : Int) with
    | none => none
    | some day =>
      let count := batch % P.days
      let mint' : Option Nat :=
        if count > 0 then
          match mul day (count : Int) with
          | none => none
          | some dc => add mint dc
        else some mint
      match mint' with
      | none => none
      | some m => if m > 0 then sub P.pool m else some P.pool

/-- `checkUniversalMintPossibility(timestamp, validateOnly)` given the epoch and the last
    distribution `(lastBatch, lastAmount)`; `none` = panic -/
def mintPossibility (P : Params) (epoch ts : Nat) (validateOnly : Bool) (lastBatch lastAmount : Nat) :
    Option (Nat × Nat) :=
  if ts ≤ epoch then some (0, 0) else
  let hours := (ts - epoch) / hourNs
  let batch := hours / 24
  if batch < 1 then some (0, 0)
  else if hours % 24 < mintTimeBegin ∨ hours % 24 > mintTimeEnd then some (0, 0)
  else if batch < lastBatch then some (0, 0)
  else if batch = lastBatch then (if validateOnly then some (batch, lastAmount) else some (0, 0))
  else match mintMulti P lastBatch batch with
    | none => none
    | some a => some (batch, a)

/-! ## the horizon of the schedule -/

/-- first `z ≥ y` (searching at most `fuel` steps) at which `p` fails -/
def firstFalse (p : Nat → Bool) : Nat → Nat → Nat
  | 0, y => y
  | fuel + 1, y => if p y then firstFalse p fuel (y + 1) else y

/-- batch `b` is defined and positive (Boolean form) -/
def posBatchB (P : Params) (b : Nat) : Bool :=
  match mintBatchSize P b with
  | some x => decide (0 < x)
  | none => false

/-- The first year whose daily amount is zero or whose computation panics: from batch
    `horizonYear · days` on nothing can be minted. -/
def horizonYear (P : Params) : Nat := firstFalse (fun y => posBatchB P (y * P.days)) (P.maxYears + 1) 0

/-! ## distribution -/

inductive DistOut where
  | ok (shares : List Nat)
  | err
  | panic
deriving Repr, DecidableEq

/-- `NewInteger(lead).Mul(120).Div(100)` plus `NewInteger(sign)` when positive
    (`NewInteger(sign).Sign() > 0` is written `sign > 0`: the two are the same test, and the
    latter does not make Lean's evaluator multiply a variable by the literal 10⁸) -/
def workOf (lead sign : Nat) : Option Nat :=
  match mul (ofUint lead) 120 with
  | none => none
  | some a =>
    match div a 100 with
    | none => none
    | some w => if sign > 0 then add w (ofUint sign) else some w

def worksOf : List (Nat × Nat) → Option (List Nat)
  | [] => some []
  | (l, s) :: rest =>
    match workOf l s, worksOf rest with
    | some w, some ws => some (w :: ws)
    | _, _ => none

structure Stats where
  valid : Nat
  minW : Nat
  maxW : Nat
  totalW : Nat
deriving Repr

/-- one iteration of the statistics loop (after `m.Work` is computed) -/
def statStep (s : Stats) (w : Nat) : Option Stats :=
  if w = 0 then some s else
  let minW := if s.minW = 0 then w else if w < s.minW then w else s.minW
  let maxW := if w > s.maxW then w else s.maxW
  match add s.totalW w with
  | none => none
  | some t => some ⟨s.valid + 1, minW, maxW, t⟩

def statLoop : List Nat → Stats → Option Stats
  | [], s => some s
  | w :: ws, s =>
    match statStep s w with
    | none => none
    | some s' => statLoop ws s'

/-- the piecewise adjustment of one work value -/
def adjust (avg w : Nat) : Option Nat :=
  match mul avg 7, div avg 7 with
  | some upper, some lower =>
    if w ≥ upper then mul avg 2
    else if w ≥ avg then
      match div w 6, mul avg 5 with
      | some a, some b =>
        match div b 6 with
        | some c => add a c
        | none => none
      | _, _ => none
    else if w ≤ lower then div avg 7
    else some w
  | _, _ => none

/-- second loop: adjusted works and their running total (`totalW.Add(m.Work)`) -/
def adjustLoop (avg : Nat) : List Nat → Nat → Option (List Nat × Nat)
  | [], tot => some ([], tot)
  | w :: ws, tot =>
    match adjust avg w with
    | none => none
    | some a =>
      match add tot a with
      | none => none
      | some t =>
        match adjustLoop avg ws t with
        | none => none
        | some (as, t') => some (a :: as, t')

/-- third loop: `m.Work.Ration(totalW).Product(base)` -/
def shareLoop (base total : Nat) : List Nat → Option (List Nat)
  | [] => some []
  | a :: as =>
    match ration a total, shareLoop base total as with
    | some r, some ss => some (r.product base :: ss)
    | _, _ => none

/-- `distributeKernelMintByWorks` after the readiness check, on the raw `(lead, sign)` pairs of
    the previous day, with `thr = ConsensusThreshold(timestamp, false)` -/
def distributeByWorks (works : List (Nat × Nat)) (base thr : Nat) : DistOut :=
  match worksOf works with
  | none => .panic
  | some ws =>
    match statLoop ws ⟨0, 0, 0, 0⟩ with
    | none => .panic
    | some st =>
      if st.valid < thr then .err else
      match sub st.totalW st.minW with
      | none => .panic
      | some t1 =>
        match sub t1 st.maxW with
        | none => .panic
        | some t2 =>
          match div t2 ((st.valid : Int) - 2) with
          | none => .panic
          | some avg =>
            if avg = 0 then .err else
            match adjustLoop avg ws 0 with
            | none => .panic
            | some (adj, total) =>
              match shareLoop base total adj with
              | none => .panic
              | some shares => .ok shares

/-- `validateWorksAndSpacesAggregator`: today's lead works and the aggregated space
    checkpoints of the accepted nodes -/
def aggregatorsReady (todayLead spaceBatch : List Nat) (thr batch : Nat) : Bool :=
  let worksAgg := (todayLead.filter (· > 0)).length
  if worksAgg < thr then false else
  let spacesAgg := (spaceBatch.filter (· ≥ batch)).length
  if spacesAgg < thr ∨ worksAgg ≠ spacesAgg then false else true

/-- `distributeKernelMintByWorks(accepted, base, timestamp)`: `n` accepted nodes, `dayGap =
    timestamp/OneDay - Epoch/OneDay` as an `Int` (negative panics) -/
def distribute (n : Nat) (dayGap : Int) (todayLead spaceBatch : List Nat) (works : List (Nat × Nat))
    (base thr : Nat) : DistOut :=
  if dayGap < 0 then .panic
  else if dayGap = 0 then
    match div base (n : Int) with
    | none => .panic
    | some w => .ok (List.replicate n w)
  else if !aggregatorsReady todayLead spaceBatch thr dayGap.toNat then .err
  else distributeByWorks works base thr

/-! ## the split of `buildUniversalMintTransaction` -/

inductive BuildOut where
  | tx (kernel : List Nat) (safe light : Nat)
  | nil
  | panic
deriving Repr, DecidableEq

def sumLoop : List Nat → Nat → Option Nat
  | [], t => some t
  | m :: ms, t =>
    match add t m with
    | none => none
    | some t' => sumLoop ms t'

/-- `amount.Div(10).Mul(k)` -/
def tenths (amount : Nat) (k : Int) : Option Nat :=
  match div amount 10 with
  | none => none
  | some t => mul t k

/-- the body of `buildUniversalMintTransaction` once `(batch, amount)` is known; `dist` is the
    distribution applied to the kernel share -/
def buildOutputs (batch amount : Nat) (dist : Nat → DistOut) : BuildOut :=
  if amount = 0 ∨ batch ≤ legacyEnding then .nil else
  match tenths amount 5 with
  | none => .panic
  | some kernel =>
    match dist kernel with
    | .err => .nil
    | .panic => .panic
    | .ok mints =>
      match sumLoop mints 0 with
      | none => .panic
      | some total =>
        if total > amount then .panic else
        match tenths amount 4 with
        | none => .panic
        | some safe =>
          match add total safe with
          | none => .panic
          | some total2 =>
            if total2 > amount then .panic else
            match sub amount total2 with
            | none => .panic
            | some light => .tx mints safe light

end Mixin.Mint
