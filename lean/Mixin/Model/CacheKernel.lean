import Mixin.Model.CacheQueue
/-
  Model of the kernel callers of the transaction cache (property C23):
  kernel/node.go `Node.CacheQueueTransactions`, `Node.CacheStoreTransactions` and
  kernel/queue.go `Node.QueueTransaction`, on top of `Mixin.CacheQueue` (storage/badger_cache.go).

  Besides the cache `c`, the wrappers look at the persistent store through `ReadTransaction(hash)`,
  which returns the transaction as soon as it was written (`WriteTransaction`, done by
  `lockAndPersistTransaction` while a proposal is verified) and a finalization hash once a snapshot
  containing it was written. `persist` maps a hash to `false` (persisted, not finalized) or `true`
  (finalized); absent = never written.

    CacheQueueTransactions  skips a transaction iff it is FINALIZED; else `cacheQueueTransaction`
    CacheStoreTransactions  skips a transaction iff it is PERSISTED (finalized or not); else `cacheStoreTransaction`
    QueueTransaction        finalized → nothing; cached body → queue; else queue iff `Validate` passes
-/
namespace Mixin.CacheKernel
open Mixin.CacheQueue

structure K where
  c : S
  persist : List (Hash × Bool)
  deriving Repr, DecidableEq

def emptyK : K := { c := empty, persist := [] }

def pstate (h : Hash) : List (Hash × Bool) → Option Bool
  | [] => none
  | e :: r => if e.1 = h then some e.2 else pstate h r

def isFinalized (k : K) (h : Hash) : Bool := pstate h k.persist == some true
def isPersisted (k : K) (h : Hash) : Bool := (pstate h k.persist).isSome

/-- `WriteTransaction`: persisted, not finalized (a finalized one stays finalized) -/
def persistTx (k : K) (h : Hash) : K :=
  if isPersisted k h then k else { k with persist := (h, false) :: k.persist }

/-- a snapshot containing the transaction is written -/
def finalizeTx (k : K) (h : Hash) : K := { k with persist := (h, true) :: k.persist }

/-- `Node.CacheQueueTransactions`: one `(hash, body, clock reading)` per transaction -/
def kernelQueue (k : K) : List (Hash × Body × Nat) → K
  | [] => k
  | (h, v, ts) :: rest =>
    if isFinalized k h then kernelQueue k rest
    else kernelQueue { k with c := enqueue k.c h v ts } rest

/-- `Node.CacheStoreTransactions` -/
def kernelStore (k : K) : List (Hash × Body) → K
  | [] => k
  | (h, v) :: rest =>
    if isPersisted k h then kernelStore k rest
    else kernelStore { k with c := store k.c h v } rest

/-- `Node.QueueTransaction`; `valid` is the answer of `tx.Validate`, consulted only for a
    transaction that is neither finalized nor cached. Returns `false` for an error. -/
def rpcQueue (k : K) (h : Hash) (v : Body) (valid : Bool) (ts : Nat) : K × Bool :=
  if isFinalized k h then (k, true)
  else match lookup h k.c.payload with
    | some _ => ({ k with c := enqueue k.c h v ts }, true)
    | none => if valid then ({ k with c := enqueue k.c h v ts }, true) else (k, false)

end Mixin.CacheKernel
