import Mixin.Model.KV
/-!
# Lock slots, ghost keys, prune and finalization (C03, C04)

Statement-by-statement model of

* `storage/badger_utxo.go`   `LockUTXOs`/`lockUTXO`, `LockGhostKeys`/`lockGhostKey`
* `storage/badger_deposit.go` `LockDepositInput`
* `storage/badger_mint.go`    `LockMintInput`
* `storage/badger_transaction.go` `pruneTransaction`, `WriteTransaction` (with the
  `config.Debug` lock asserts, `Debug` is the constant `true`), `finalizeTransaction`, `writeUTXO`
* `storage/badger_graph.go`   `WriteSnapshot`/`writeSnapshot` (debug asserts + finalization loop)

Every exported call takes the store mutex and runs one Badger update: one atomic
`Store → Res`.  Errors of Badger itself (I/O, `ErrTxnTooBig`, `ErrConflict`) are not modelled.
-/
namespace Mixin.Locks
open Mixin.KV

/-- `pruneTransaction`: refuse (`none`) when FINALIZATION[h] exists, else delete TRANSACTION[h]. -/
def pruneTransaction (s : Store) (h : Nat) : Option Store :=
  match s.fin.get h with
  | some _ => none
  | none => some { s with tx := s.tx.del h }

/-- `graphUtxoKey` panics above this index. -/
def maxIndex : Nat := 1024

/-- `lockUTXO`: one input inside the `LockUTXOs` update. -/
def lockUTXO (s : Store) (x : Nat × Nat) (tx : Nat) (fork : Bool) : Res :=
  if x.2 > maxIndex then .panic else
  match s.utxo.get x with
  | none => .err                       -- txn.Get: ErrKeyNotFound is returned as the error
  | some cur =>
    if cur ≠ 0 ∧ cur ≠ tx then         -- out.LockHash.HasValue() && out.LockHash != tx
      if fork then
        match pruneTransaction s cur with
        | none => .err
        | some s' => .ok { s' with utxo := s'.utxo.set x tx }
      else .err
    else .ok { s with utxo := s.utxo.set x tx }

/-- `LockUTXOs`: all inputs in one update; the first failure aborts the whole update. -/
def lockUTXOs : List (Nat × Nat) → Nat → Bool → Store → Res
  | [], _, _, s => .ok s
  | x :: xs, tx, fork, s =>
    match lockUTXO s x tx fork with
    | .ok s' => lockUTXOs xs tx fork s'
    | r => r

/-- `LockDepositInput` -/
def lockDeposit (s : Store) (d tx : Nat) (fork : Bool) : Res :=
  match s.deposit.get d with
  | none => .ok { s with deposit := s.deposit.set d tx }
  | some cur =>
    if cur = tx then .ok s
    else if fork then
      match pruneTransaction s cur with
      | none => .err
      | some s' => .ok { s' with deposit := s'.deposit.set d tx }
    else .err

/-- `LockMintInput`: the stored distribution is (transaction, amount). -/
def lockMint (s : Store) (b amount tx : Nat) (fork : Bool) : Res :=
  match s.mint.get b with
  | none => .ok { s with mint := s.mint.set b (tx, amount) }
  | some cur =>
    if cur.1 = tx ∧ cur.2 = amount then .ok s
    else if fork then
      match pruneTransaction s cur.1 with
      | none => .err
      | some s' => .ok { s' with mint := s'.mint.set b (tx, amount) }
    else .err

/-- `lockGhostKey`; `exc` are the hard-coded fork exceptions (transaction ids). -/
def lockGhostKey (exc : List Nat) (s : Store) (k tx : Nat) (fork : Bool) : Option Store :=
  match s.ghost.get k with
  | none => some { s with ghost := s.ghost.set k tx }
  | some cur =>
    if cur = 0 then none                            -- "malformed lock": !by.HasValue()
    else if fork = true ∧ tx ∈ exc then some s
    else if cur ≠ tx then none
    else some s

/-- loop of `LockGhostKeys` with its duplicate filter (`seen`). -/
def lockGhostLoop (exc : List Nat) (tx : Nat) (fork : Bool) : List Nat → List Nat → Store → Option Store
  | [], _, s => some s
  | k :: ks, seen, s =>
    if k ∈ seen then none
    else match lockGhostKey exc s k tx fork with
      | none => none
      | some s' => lockGhostLoop exc tx fork ks (k :: seen) s'

def lockGhostKeys (exc : List Nat) (s : Store) (keys : List Nat) (tx : Nat) (fork : Bool) : Res :=
  match lockGhostLoop exc tx fork keys [] s with
  | none => .err
  | some s' => .ok s'

/-- transaction inputs as the storage code distinguishes them -/
inductive In where
  | genesis
  | deposit (d : Nat)
  | mint (b a : Nat)
  | utxo (h i : Nat)
  deriving DecidableEq, Repr

/-- one output as finalization sees it: its type byte and its one-time keys -/
structure OutSpec where
  typ : Nat
  keys : List Nat
  deriving DecidableEq, Repr

/-- what storage needs of a transaction body: its hash id, inputs and outputs (index = position) -/
structure Tx where
  id : Nat
  ins : List In
  outs : List OutSpec
  deriving DecidableEq, Repr

/-- Which output types finalization materialises, and which have a side effect in `writeUTXO`:
  * `materialized` — first case of `UnspentOutputs` (a UTXO is written, keys are relocked),
  * `skipped` — second case (`continue`: no UTXO, nothing relocked),
  * any other type makes `UnspentOutputs` panic,
  * `sideTypes` — labels of the switch in `writeUTXO` (node / custodian / withdrawal records).
  The lists come from the regenerated case tables. -/
structure OutKinds where
  materialized : List Nat
  skipped : List Nat
  sideTypes : List Nat

/-- outcome of the node / custodian / withdrawal-claim side effect of `writeUTXO`.  Those state
    machines are not part of this model (C27, C34): the harness reports how the real call went
    (`err` = returned an error that is not a ghost-key error, `panic`). -/
inductive Side where
  | ok
  | err
  | panic
  deriving DecidableEq, Repr

/-- the `config.Debug` assert of `WriteTransaction` for one input (false ⇒ panic) -/
def inputLocked (s : Store) (id : Nat) : In → Bool
  | .genesis => true
  | .deposit d => s.deposit.get d == some id
  | .mint b a => s.mint.get b == some (id, a)
  | .utxo h i => decide (i ≤ maxIndex) && s.utxo.get (h, i) == some id

/-- `WriteTransaction`: asserts, then `writeTransaction` (no-op when the body exists). -/
def writeTransaction (s : Store) (t : Tx) : Res :=
  if t.ins.all (inputLocked s t.id) then
    match s.tx.get t.id with
    | some _ => .ok s
    | none => if t.ins.isEmpty then .panic      -- ver.Inputs[0]
              else .ok { s with tx := s.tx.set t.id () }
  else .panic

/-- key loop of `writeUTXO`: `lockGhostKey(txn, k, utxo.Hash, true)` -/
def lockKeysFinal (exc : List Nat) (tx : Nat) : List Nat → Store → Option Store
  | [], s => some s
  | k :: ks, s =>
    match lockGhostKey exc s k tx true with
    | none => none
    | some s' => lockKeysFinal exc tx ks s'

/-- the side effect of an output type after its UTXO is written: `next` is the rest of the
    finalization, reached only when the side effect succeeded -/
def sideGate (side : Side) (isSide : Bool) (next : Res) : Res :=
  if isSide then
    match side with
    | .ok => next
    | .err => .err
    | .panic => .panic
  else next

/-- `writeUTXO` over `UnspentOutputs()`, output by output in index order: skipped types are not
    in the list; for the others relock the keys (`lockGhostKey(txn, k, utxo.Hash, true)`), `Set`
    a fresh UTXO (LockHash zero), then the side effect of the output type. -/
def writeUTXOs (exc : List Nat) (kd : OutKinds) (side : Side) (tx : Nat) : Nat → List OutSpec → Store → Res
  | _, [], s => .ok s
  | i, o :: rest, s =>
    if o.typ ∈ kd.skipped then writeUTXOs exc kd side tx (i + 1) rest s
    else match lockKeysFinal exc tx o.keys s with
      | none => .err
      | some s' =>
        sideGate side (decide (o.typ ∈ kd.sideTypes))
          (writeUTXOs exc kd side tx (i + 1) rest { s' with utxo := s'.utxo.set (tx, i) 0 })

/-- `finalizeTransaction`: no-op when FINALIZATION exists; `UnspentOutputs()` panics on an
    output type it does not know before anything is relocked. -/
def finalizeTransaction (exc : List Nat) (kd : OutKinds) (side : Side) (s : Store) (t : Tx) : Res :=
  match s.fin.get t.id with
  | some _ => .ok s
  | none =>
    if t.outs.all (fun o => decide (o.typ ∈ kd.materialized) || decide (o.typ ∈ kd.skipped)) then
      writeUTXOs exc kd side t.id 0 t.outs { s with fin := s.fin.set t.id () }
    else .panic

/-- loop of `writeSnapshot` -/
def snapshotLoop (exc : List Nat) (kd : OutKinds) (side : Side) (node : Nat) : List Tx → Store → Res
  | [], s => .ok s
  | t :: ts, s =>
    match finalizeTransaction exc kd side s t with
    | .ok s' => snapshotLoop exc kd side node ts { s' with unique := s'.unique.set (node, t.id) () }
    | r => r

/-- `WriteSnapshot`: debug asserts (round cache of the node exists; every listed body exists;
    no UNIQUE record of this node for it), then the loop, one update.  `nodes` = node ids that
    have a round cache. -/
def writeSnapshot (exc nodes : List Nat) (kd : OutKinds) (side : Side) (s : Store) (node : Nat) (txs : List Tx) : Res :=
  if node ∉ nodes then .panic
  else if txs.all (fun t => (s.tx.get t.id).isSome && (s.unique.get (node, t.id)).isNone) then
    snapshotLoop exc kd side node txs s
  else .panic

/-! ### `validateOutputs` (common/validation.go): the in-transaction duplicate filter -/

/-- what `validateOutputs` looks at in one output; `scriptOk`, `maskValid` are answers of the
    real `Script.VerifyFormat` / `Key.CheckKey` supplied by the harness -/
structure Out where
  typ : Nat
  amount : Nat
  keys : List Nat
  scriptOk : Bool
  scriptEmpty : Bool
  maskHas : Bool
  maskValid : Bool
  withdrawal : Bool
  deriving DecidableEq, Repr

/-- static part of the configuration of `validateOutputs` -/
structure OutCfg where
  limit : Nat              -- SliceCountLimit
  kernelTypes : List Nat   -- output types of "kernel multisig" outputs (no keys, script, mask)
  keyValid : Nat → Bool    -- Key.CheckKey

/-- the key loop: `ghostKeysFilter` (by value) and `CheckKey`; returns the extended filter -/
def scanKeys (valid : Nat → Bool) : List Nat → List Nat → Option (List Nat)
  | [], seen => some seen
  | k :: ks, seen =>
    if k ∈ seen then none
    else if valid k then scanKeys valid ks (k :: seen)
    else none

def shapeOk (oc : OutCfg) (o : Out) : Bool :=
  if o.typ ∈ oc.kernelTypes then o.keys.isEmpty && o.scriptEmpty && !o.maskHas
  else o.scriptOk && o.maskHas && o.maskValid && !o.withdrawal

/-- the output loop; `seen` is the filter = the collected ghost keys in reverse order -/
def scanOuts (oc : OutCfg) : List Out → List Nat → Option (List Nat)
  | [], seen => some seen
  | o :: os, seen =>
    if o.keys.length > oc.limit then none
    else if o.amount = 0 then none
    else match scanKeys oc.keyValid o.keys seen with
      | none => none
      | some seen' => if shapeOk oc o then scanOuts oc os seen' else none

/-- `validateOutputs`: every static rejection happens before the only store call -/
def validateOutputs (exc : List Nat) (oc : OutCfg) (s : Store) (outs : List Out) (tx inputAmount : Nat)
    (fork : Bool) : Res :=
  match scanOuts oc outs [] with
  | none => .err
  | some seen =>
    if inputAmount ≠ (outs.map (·.amount)).sum then .err
    else lockGhostKeys exc s seen.reverse tx fork

/-- the atomic calls -/
inductive Op where
  | lockUTXOs (ins : List (Nat × Nat)) (tx : Nat) (fork : Bool)
  | lockDeposit (d tx : Nat) (fork : Bool)
  | lockMint (b amount tx : Nat) (fork : Bool)
  | lockGhostKeys (keys : List Nat) (tx : Nat) (fork : Bool)
  | writeTx (t : Tx)
  | snapshot (node : Nat) (txs : List Tx) (side : Side)
  deriving DecidableEq, Repr

/-- static configuration: ghost-key fork exceptions and nodes with a round cache -/
structure Cfg where
  exc : List Nat
  nodes : List Nat
  kinds : OutKinds

def exec (c : Cfg) (s : Store) : Op → Res
  | .lockUTXOs ins tx fork => lockUTXOs ins tx fork s
  | .lockDeposit d tx fork => lockDeposit s d tx fork
  | .lockMint b a tx fork => lockMint s b a tx fork
  | .lockGhostKeys keys tx fork => lockGhostKeys c.exc s keys tx fork
  | .writeTx t => writeTransaction s t
  | .snapshot node txs side => writeSnapshot c.exc c.nodes c.kinds side s node txs

/-- a call that does not return `ok` leaves the database as it was -/
def step (c : Cfg) (s : Store) (op : Op) : Store :=
  match exec c s op with
  | .ok s' => s'
  | _ => s

/-- any interleaving of atomic calls is some list of them -/
def run (c : Cfg) (s : Store) (ops : List Op) : Store := ops.foldl (step c) s

def Op.isFork : Op → Bool
  | .lockUTXOs _ _ f => f
  | .lockDeposit _ _ f => f
  | .lockMint _ _ _ f => f
  | .lockGhostKeys _ _ f => f
  | .writeTx _ => false
  | .snapshot _ _ _ => false

end Mixin.Locks
