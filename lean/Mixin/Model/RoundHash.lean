import Mixin.Prelude.BytesSnap
import Mixin.Facts.Generated
/-
  Model of the round hash (property C18):
    common/round.go               ComputeRoundHash        (live node: kernel/round.go asFinal,
                                                           kernel/space.go, common/genesis.go)
    storage/badger_validation.go  computeRoundHash        (startup graph validator)

  The two Go functions have the same body over two element types (`*common.Snapshot`,
  `*common.SnapshotWithTopologicalOrder`, which embeds the former). The model is one
  definition over a `View` — the three fields the body reads — instantiated once per type.
  The hash function is a parameter `H` (blake3 in the code). `none` = the Go code panics.
-/
namespace Mixin.RoundHash
open Mixin.BytesSnap

/-- `config.SnapshotRoundGap` (regenerated from the source) -/
def roundGap : Nat := Mixin.Facts.Gen.config_SnapshotRoundGap

/-- the fields of the element type that the function body reads -/
structure View (α : Type) where
  version : α → Nat
  ts : α → Nat
  hash : α → Bytes

/-- sort key: (Timestamp, Hash) -/
def key {α : Type} (v : View α) (a : α) : Nat × Bytes := (v.ts a, v.hash a)

/-- the `sort.Slice` comparator: earlier timestamp first, ties by `bytes.Compare` of the hashes -/
def keyLess (a b : Nat × Bytes) : Bool :=
  if a.1 < b.1 then true
  else if a.1 > b.1 then false
  else bytesLt a.2 b.2

def keyLe (a b : Nat × Bytes) : Bool := !keyLess b a

def le {α : Type} (v : View α) (a b : α) : Bool := keyLe (key v a) (key v b)

/-- `sort.Slice(snapshots, less)`; elements with equal keys are indistinguishable to the rest
    of the function except through `Version`, which only feeds an unreachable panic -/
def sortSnaps {α : Type} (v : View α) (l : List α) : List α := l.mergeSort (le v)

/-- last element of the non-empty list `a :: l` -/
def lastOr {α : Type} : α → List α → α
  | a, [] => a
  | _, b :: l => lastOr b l

/-- the loop computing the maximal version -/
def maxVersion {α : Type} (v : View α) (v0 : Nat) (l : List α) : Nat :=
  l.foldl (fun m s => if v.version s > m then v.version s else m) v0

/-- the hashing loop with its two defensive panics -/
def chain {α : Type} (v : View α) (H : Bytes → Bytes) (version end_ : Nat) : Bytes → List α → Option Bytes
  | h, [] => some h
  | h, s :: rest =>
    if v.version s > version then none
    else if v.ts s > end_ then none
    else chain v H version end_ (H (h ++ v.hash s)) rest

/-- the body shared by `ComputeRoundHash` and `computeRoundHash`: (start, end, hash) -/
def computeRoundHashG {α : Type} (v : View α) (H : Bytes → Bytes) (node : Bytes) (number : Nat)
    (snapshots : List α) : Option (Nat × Nat × Bytes) :=
  match sortSnaps v snapshots with
  | [] => none                                   -- snapshots[0]: index out of range
  | first :: rest =>
    let start := v.ts first
    let end_ := v.ts (lastOr first rest)
    if end_ ≥ (start + roundGap) % 2 ^ 64 then none   -- uint64 addition wraps
    else
      let version := maxVersion v (v.version first) (first :: rest)
      match chain v H version end_ (H (node ++ beBytes 8 number)) (first :: rest) with
      | none => none
      | some h => some (start, end_, h)

/-- `common.Snapshot`: the three fields read, `rest` stands for all the others
    (node, round, references, transactions, signature) -/
structure Snap where
  version : Nat
  ts : Nat
  hash : Bytes
  rest : Nat := 0
deriving Repr, DecidableEq

/-- `common.SnapshotWithTopologicalOrder` -/
structure SnapTopo where
  snap : Snap
  topo : Nat
deriving Repr, DecidableEq

def snapView : View Snap := ⟨Snap.version, Snap.ts, Snap.hash⟩
def topoView : View SnapTopo := ⟨fun s => s.snap.version, fun s => s.snap.ts, fun s => s.snap.hash⟩

/-- `common.ComputeRoundHash` -/
def computeRoundHash (H : Bytes → Bytes) (node : Bytes) (number : Nat) (l : List Snap) :=
  computeRoundHashG snapView H node number l

/-- `storage.computeRoundHash` -/
def computeRoundHashStorage (H : Bytes → Bytes) (node : Bytes) (number : Nat) (l : List SnapTopo) :=
  computeRoundHashG topoView H node number l

/-- `kernel.CacheRound.asFinal`: nil for an empty round, otherwise the common computation -/
def asFinal (H : Bytes → Bytes) (node : Bytes) (number : Nat) (l : List Snap) :
    Option (Option (Nat × Nat × Bytes)) :=
  if l.length = 0 then some none
  else match computeRoundHash H node number l with
    | none => none
    | some r => some (some r)

end Mixin.RoundHash
