import Mixin.Facts.Generated
/-!
  C31 — model of the proposal batcher (`kernel/queue.go: popAndProcessCacheQueue`), of the
  message builders that wrap a batch (`p2p/handle.go: build*Message`, `buildRelayMessage`)
  and of the stream framing (`p2p/quic.go: Send / receiveWithLimit`).  Core Lean only.

  Sizes are byte counts.  A transaction is seen through the numbers the code looks at:
  `payload = len(PayloadMarshal()) = ValidatedSize()`, `env = len(Marshal())` (the signed
  envelope, which is what every bundle carries), and the outcome of the four tests the loop
  makes before it accounts the transaction.
-/
namespace Mixin.Batch
open Mixin.Facts

/-- the constants, taken from the regenerated facts -/
def maxSize : Nat := Gen.p2p_TransportMessageMaxSize
def headerSize : Nat := Gen.p2p_TransportMessageHeaderSize
def frameVersion : Nat := Gen.p2p_TransportMessageVersion
def txMax : Nat := Gen.config_TransactionMaximumSize
def snapTxMax : Nat := Gen.common_SnapshotTransactionsMaximum
/-- `p2p.TransportMessageMaxSize*2/3` (Go integer arithmetic) -/
def threshold (M : Nat) : Nat := M * 2 / 3

/-- One transaction as returned by `CacheRetrieveTransactions`. -/
structure QTx where
  id : Nat            -- payload hash
  payload : Nat       -- ValidatedSize()
  env : Nat           -- len(Marshal())
  batchable : Bool    -- IsSnapshotBatchable()
  finalized : Bool    -- ReadTransaction says finalized
  valid : Bool        -- Validate(...) == nil
  elected : Bool      -- electSnapshotNode(type) has a value
deriving Repr, DecidableEq, Inhabited

/-- what the loop adds to `batchSize`: the code as found used the unsigned payload size, the
    repaired code uses the length of the signed envelope -/
inductive Acct | payload | envelope
deriving Repr, DecidableEq

def acct : Acct → QTx → Nat
  | .payload, t => t.payload
  | .envelope, t => t.env

structure St where
  seen : List Nat := []
  batchSize : Nat := 0
  batch : List QTx := []
  sends : List (List QTx) := []     -- groups handed to sendTransactionsToNode, in order
  stale : List Nat := []
deriving Repr, Inhabited

/-- one iteration of `for _, tx := range txs` -/
def step (a : Acct) (T : Nat) (s : St) (tx : QTx) : St :=
  if s.seen.contains tx.id then s else
  let s := { s with seen := tx.id :: s.seen }
  if tx.finalized then { s with stale := s.stale ++ [tx.id] } else
  if !tx.valid then s else
  if tx.elected then { s with sends := s.sends ++ [[tx]] } else
  let bs := s.batchSize + acct a tx
  if tx.batchable && decide (bs < T) then { s with batchSize := bs, batch := s.batch ++ [tx] }
  else { s with batchSize := bs, sends := s.sends ++ [[tx]] }

def run (a : Acct) (T : Nat) (txs : List QTx) : St := txs.foldl (step a T) {}

/-- every group of transactions that is sent together by one pass: the singles in order,
    then the batch (if any). `cap` is the retrieval limit (`SnapshotTransactionsMaximum`). -/
def groups (a : Acct) (T cap : Nat) (txs : List QTx) : List (List QTx) :=
  let s := run a T (txs.take cap)
  s.sends ++ (if s.batch.isEmpty then [] else [s.batch])

def staleOf (a : Acct) (T cap : Nat) (txs : List QTx) : List Nat := (run a T (txs.take cap)).stale

/-- the batcher of the tree under test (after the `fix:` commit: envelope accounting) -/
def popGroups (txs : List QTx) : List (List QTx) := groups .envelope (threshold maxSize) snapTxMax txs

/-! ### builders -/

def sumEnv (envs : List Nat) : Nat := (envs.map (fun e => 4 + e)).foldl (· + ·) 0

/-- `buildTransactionsPayload`: one count byte, then (u32 length, envelope) per transaction;
    panics above 255 transactions -/
def txsPayload (cap : Nat) (envs : List Nat) : Option Nat :=
  if envs.length > cap then none else some (1 + sumEnv envs)

def snapshotSize (refs sig : Bool) (ntx : Nat) : Nat :=
  72 + (if refs then 64 else 0) + (if sig then 64 else 0) + 32 * ntx

def bundleMsg (cap : Nat) (envs : List Nat) : Option Nat := (txsPayload cap envs).map (1 + ·)
def challengeMsg (cap : Nat) (envs : List Nat) : Option Nat := (txsPayload cap envs).map (105 + ·)
def fullChallengeMsg (cap : Nat) (refs : Bool) (ntx : Nat) (envs : List Nat) : Option Nat :=
  (txsPayload cap envs).map (1 + 4 + snapshotSize refs true ntx + 64 + ·)
def announcementMsg (refs : Bool) (ntx : Nat) : Nat := 1 + 64 + 32 + snapshotSize refs false ntx
def commitmentMsg (nwant : Nat) : Nat := 1 + 64 + 32 + 32 + 32 * nwant
def responseMsg : Nat := 65
def finalizationMsg (refs : Bool) (ntx : Nat) : Nat := 1 + snapshotSize refs true ntx
/-- `buildRelayMessage`: panics when the inner message is above the maximum, else 65 + n -/
def relayMsg (M n : Nat) : Option Nat := if n > M then none else some (65 + n)

/-! ### framing (bytes) -/

abbrev Bytes := List UInt8

def be32 (n : Nat) : Bytes :=
  [(n / 16777216 % 256).toUInt8, (n / 65536 % 256).toUInt8, (n / 256 % 256).toUInt8, (n % 256).toUInt8]

def ofBe32 (a b c d : UInt8) : Nat := a.toNat * 16777216 + b.toNat * 65536 + c.toNat * 256 + d.toNat

/-- the size test of `QuicClient.Send` -/
def sendAccepts (M n : Nat) : Bool := !(n < 1 || n > M)

/-- `QuicClient.Send`: `none` = the error return (nothing is written) -/
def frame (M ver : Nat) (d : Bytes) : Option Bytes :=
  if d.length < 1 || d.length > M then none
  else some (ver.toUInt8 :: 0 :: be32 d.length ++ d)

inductive Recv
  | badLimit | shortHeader | badVersion | tooLarge (size : Nat) | shortBody (size : Nat)
  | ok (data rest : Bytes)
deriving Repr, DecidableEq

/-- `QuicClient.receiveWithLimit` on the bytes available on the stream; `allocs` lists the
    sizes of the buffers the function has made when it returns. -/
def receiveA (M ver limit : Nat) (s : Bytes) : Recv × List Nat :=
  if limit = 0 || limit > M then (.badLimit, []) else
  match s with
  | v :: _ :: a :: b :: c :: d :: rest =>
    if v.toNat ≠ ver then (.badVersion, [6]) else
    if ofBe32 a b c d > limit then (.tooLarge (ofBe32 a b c d), [6]) else
    if rest.length < ofBe32 a b c d then (.shortBody (ofBe32 a b c d), [6, ofBe32 a b c d])
    else (.ok (rest.take (ofBe32 a b c d)) (rest.drop (ofBe32 a b c d)), [6, ofBe32 a b c d])
  | _ => (.shortHeader, [6])

def receive (M ver limit : Nat) (s : Bytes) : Recv := (receiveA M ver limit s).1

end Mixin.Batch
