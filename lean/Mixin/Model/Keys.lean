import Mixin.Prelude.Proto
import Mixin.Model.Base58
/-!
# Model of the textual codecs and of one-time key derivation (core Lean only)

* hex: `encoding/hex.DecodeString` / `EncodeToString` as used by `crypto.KeyFromString`,
  `HashFromString`, `Signature.UnmarshalJSON`, `Key/Hash/Signature.String`
* `CosiSignature.String` / `UnmarshalJSON` (crypto/cosi.go)
* `Address.String` / `NewAddressFromString` (common/address.go); the checksum hash
  (`crypto.Sha256Hash`, really SHA3-256) is an opaque function `H`, `Key.CheckKey` an
  opaque predicate
* ghost keys (crypto/key.go) with points represented by their discrete logarithm to the
  base point, scalars as numbers modulo the group order `ell`; the value of `HashScalar`
  is an input (computed by the real code)
-/
namespace Mixin.Keys
open Mixin.Proto

/-! ## hex -/

/-- `reverseHexTable`: both cases are accepted -/
def fromHexChar (c : UInt8) : Option Nat :=
  let n := c.toNat
  if 48 ≤ n ∧ n ≤ 57 then some (n - 48)
  else if 97 ≤ n ∧ n ≤ 102 then some (n - 87)
  else if 65 ≤ n ∧ n ≤ 70 then some (n - 55)
  else none

/-- `hex.DecodeString`: `none` for an odd length or a foreign character -/
def hexDecode : Bytes → Option Bytes
  | [] => some []
  | [_] => none
  | p :: q :: r =>
    match fromHexChar p, fromHexChar q with
    | some a, some b =>
      match hexDecode r with
      | some t => some ((a * 16 + b).toUInt8 :: t)
      | none => none
    | _, _ => none

/-- `hextable = "0123456789abcdef"` -/
def hexDigit (n : Nat) : UInt8 := if n < 10 then (48 + n).toUInt8 else (87 + n).toUInt8

def hexEncode : Bytes → Bytes
  | [] => []
  | x :: r => hexDigit (x.toNat / 16) :: hexDigit (x.toNat % 16) :: hexEncode r

/-- `KeyFromString`, `HashFromString` (n = 32), `Signature.UnmarshalJSON` (n = 64) -/
def fixedParse (n : Nat) (s : Bytes) : Option Bytes :=
  match hexDecode s with
  | some b => if b.length = n then some b else none
  | none => none

/-! ## CosiSignature text form -/

/-- `fmt.Sprintf("%016x", mask)` -/
def fmt016x (m : Nat) : Bytes :=
  let ds := (Base58.digitsLE 16 m).reverse.map hexDigit
  List.replicate (16 - ds.length) 48 ++ ds

def cosiPrint (sig : Bytes) (mask : Nat) : Bytes := hexEncode sig ++ fmt016x mask

def hexVal (acc : Nat) : Bytes → Option Nat
  | [] => some acc
  | c :: r => match fromHexChar c with
    | some d => hexVal (acc * 16 + d) r
    | none => none

/-- `strconv.ParseUint(s, 16, 64)`: non-empty, hex digits of either case, value < 2^64 -/
def parseUintHex (s : Bytes) : Option Nat :=
  if s = [] then none else
  match hexVal 0 s with
  | some v => if v < 2 ^ 64 then some v else none
  | none => none

/-- `CosiSignature.UnmarshalJSON` after unquoting -/
def cosiParse (s : Bytes) : Option (Bytes × Nat) :=
  match hexDecode s with
  | none => none
  | some data =>
    if data.length ≠ 64 + 8 then none else
    match parseUintHex (s.drop (64 * 2)) with
    | none => none
    | some mask => some (data.take 64, mask)

/-! ## addresses -/

/-- `MainAddressPrefix = "XIN"` -/
def prefixXIN : Bytes := [88, 73, 78]

/-- `Address.String` -/
def addrPrint (H : Bytes → Bytes) (spend view : Bytes) : Bytes :=
  let checksum := H (prefixXIN ++ spend ++ view)
  prefixXIN ++ Base58.encode (spend ++ view ++ checksum.take 4)

/-- `NewAddressFromString`; the result is (public spend key, public view key) -/
def addrParse (H : Bytes → Bytes) (checkKey : Bytes → Bool) (s : Bytes) : Option (Bytes × Bytes) :=
  if ¬ (s.take 3 = prefixXIN) then none else
  let data := Base58.decode (s.drop 3)
  if data.length ≠ 68 then none else
  let checksum := H (prefixXIN ++ data.take 64)
  if checksum.take 4 ≠ data.drop 64 then none else
  let spend := data.take 32
  if ¬ checkKey spend then none else
  let view := (data.drop 32).take 32
  if ¬ checkKey view then none else
  some (spend, view)

/-! ## ghost keys over discrete logarithms -/

/-- order of the prime-order subgroup of edwards25519 -/
def ell : Nat := 2 ^ 252 + 27742317777372353535851937790883648493

/-- `DeriveGhostPublicKey(r, A, B, i)`: `B + Hs(r•A, i)•G`; `bv` = log of `B`, `hs` = the hash scalar -/
def derivePubDl (bv hs : Nat) : Nat := (bv + hs) % ell

/-- `DeriveGhostPrivateKey(R, a, b, i)`: `Hs(a•R, i) + b` -/
def derivePrivDl (hs b : Nat) : Nat := (hs + b) % ell

/-- `ViewGhostOutputKey(P, a, R, i)`: `P − Hs(a•R, i)•G` -/
def viewOutDl (p hs : Nat) : Nat := (p + (ell - hs % ell)) % ell

/-! The real functions decode their point arguments with `decodePoint`, which rejects the
identity (discrete log 0) — the callers then panic (`none`). -/

/-- `DeriveGhostPublicKey(r, A, B, i)` with `A = a•G`, `B = b•G` -/
def derivePub? (a b hs : Nat) : Option Nat :=
  if a % ell = 0 ∨ b % ell = 0 then none else some (derivePubDl b hs)

/-- `DeriveGhostPrivateKey(R, a, b, i)` with `R = rr•G` -/
def derivePriv? (rr hs b : Nat) : Option Nat :=
  if rr % ell = 0 then none else some (derivePrivDl hs b)

/-- `ViewGhostOutputKey(P, a, R, i)` with `P = p•G`, `R = rr•G` -/
def viewOut? (p rr hs : Nat) : Option Nat :=
  if rr % ell = 0 ∨ p % ell = 0 then none else some (viewOutDl p hs)

/-! ## `Transaction.ViewGhostKey` (common/transaction.go)

The outputs of a transaction as the viewer sees them: is it a script output, which mask does it
carry (masks are numbered by the harness), the discrete logs of its ghost keys. Every key of a
script output is viewed with the hash scalar of (that output's mask, the output's position `i`
in `tx.Outputs`) — the *real* index, not the position among the script outputs. `hs mask i` is
the real `HashScalar(a•R, i)`; `none` = the harness has no value for that (mask, index) pair. -/

structure TxOutDl where
  script : Bool
  mask : Nat
  keys : List Nat
deriving DecidableEq, Repr

def viewTxFrom (hs : Nat → Nat → Option Nat) : Nat → List TxOutDl → Option (List (List Nat))
  | _, [] => some []
  | i, o :: rest =>
    if !o.script then viewTxFrom hs (i + 1) rest
    else
      match hs o.mask i, viewTxFrom hs (i + 1) rest with
      | some h, some r => some (o.keys.map (fun p => viewOutDl p h) :: r)
      | _, _ => none

/-- the viewed script outputs, in order, each with the recovered spend keys (discrete logs) -/
def viewTx (hs : Nat → Nat → Option Nat) (outs : List TxOutDl) : Option (List (List Nat)) :=
  viewTxFrom hs 0 outs

end Mixin.Keys
