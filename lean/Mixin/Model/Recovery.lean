/-
  Model of the durable state of a kernel node and of the storage calls that change it
  (C21, C22). Core Lean only.

  The Badger key space is a record of association lists, one per key prefix used by
  storage/badger_graph.go; every storage method is ONE atomic commit (`Res.ok kv'`) or leaves
  the state untouched (`reject` = error returned, `panic` = the `config.Debug` asserts or a nil
  dereference). Hashes are structural: a transaction / snapshot is named by a number, a round
  hash by the triple (chain, number, snapshot ids in timestamp order) it is computed from.

  Modelled code:
    storage/badger_utxo.go     LockUTXOs            storage/badger_deposit.go LockDepositInput
    storage/badger_mint.go     LockMintInput        storage/badger_transaction.go WriteTransaction,
    storage/badger_round.go    StartNewRound          finalizeTransaction
    storage/badger_graph.go    WriteSnapshot, WriteConsensusSnapshot, ReadLastConsensusSnapshot
    storage/badger_topology.go LastSnapshot, writeTopology, readSnapshotWithTopo
    storage/badger_validation.go ValidateGraphEntries
    kernel/election.go         reloadConsensusState (type test + marker write)
    kernel/node.go             SetupNode (LastSnapshot, validation, marker repair, chain load)
-/
namespace Mixin.Recovery

structure Tx where
  id : Nat
  kind : Nat
  ref0 : Nat
  outs : Nat
  key : Nat
  inputs : List (Nat × Nat)
deriving Repr, DecidableEq, Inhabited

/-- transaction kinds of the harness: 0 deposit, 1 script, 2 mint, 3 pledge, 4 cancel,
    5 accept, 6 remove, 7 custodian update, 8 genesis input (`TransactionTypeUnknown`). -/
def consensusKind (k : Nat) : Bool :=
  k == 2 || k == 3 || k == 4 || k == 5 || k == 6 || k == 7

structure Snap where
  id : Nat
  node : Nat
  round : Nat
  ts : Nat
  txs : List Nat
deriving Repr, DecidableEq, Inhabited

inductive RKey where
  | head (node : Nat)
  | final (node number : Nat) (snaps : List Nat)
deriving Repr, DecidableEq, Inhabited

structure Round where
  node : Nat
  number : Nat
  self : Option RKey
  ext : Option RKey
deriving Repr, DecidableEq, Inhabited

/-- `CONSENSUSSNAPSHOT[ts,snap] = next` (next = 0: empty value, the newest entry). -/
structure Cons where
  ts : Nat
  snap : Nat
  next : Nat
deriving Repr, DecidableEq, Inhabited

structure KV where
  n : Nat                                  -- chains known to ReadAllNodes that can own rounds
  txs : List Tx                            -- TRANSACTION
  fins : List (Nat × Nat)                  -- FINALIZATION  tx ↦ snapshot
  utxos : List ((Nat × Nat) × Nat)         -- UTXO (tx,index) ↦ lock (0 = none); newest binding first
  deposits : List (Nat × Nat)              -- DEPOSIT key ↦ tx
  mints : List (Nat × Nat)                 -- MINTUNIVERSAL batch ↦ tx
  snaps : List Snap                        -- SNAPSHOT
  uniques : List (Nat × Nat)               -- UNIQUE (chain, tx)
  topo : List (Nat × Nat)                  -- TOPOLOGY order ↦ snapshot, ascending key order
  snaptopo : List (Nat × Nat)              -- SNAPTOPO snapshot ↦ order
  rounds : List (RKey × Round)             -- ROUND; newest binding first
  links : List ((Nat × Nat) × Nat)         -- LINK; newest binding first
  cons : List Cons                         -- CONSENSUSSNAPSHOT, ascending key order
deriving Repr, Inhabited

inductive Res where
  | ok (kv : KV)
  | reject
  | panic
deriving Repr, Inhabited

def findTx (kv : KV) (t : Nat) : Option Tx := kv.txs.find? (fun x => x.id == t)
def findSnap (kv : KV) (s : Nat) : Option Snap := kv.snaps.find? (fun x => x.id == s)

/-! ## locking and admission -/

def lockUTXOs (utxos : List ((Nat × Nat) × Nat)) (t : Nat) : List (Nat × Nat) → Option (List ((Nat × Nat) × Nat))
  | [] => some utxos
  | k :: rest =>
    match utxos.lookup k with
    | none => none
    | some l => if l != 0 && l != t then none else lockUTXOs ((k, t) :: utxos) t rest

/-- `VersionedTransaction.LockInputs(store, fork=false)` -/
def lockInputs (kv : KV) (t : Tx) : Res :=
  if t.kind == 2 then
    match kv.mints.lookup t.key with
    | none => .ok { kv with mints := (t.key, t.id) :: kv.mints }
    | some x => if x == t.id then .ok kv else .reject
  else if t.kind == 0 then
    match kv.deposits.lookup t.key with
    | none => .ok { kv with deposits := (t.key, t.id) :: kv.deposits }
    | some x => if x == t.id then .ok kv else .reject
  else
    match lockUTXOs kv.utxos t.id t.inputs with
    | none => .reject
    | some u => .ok { kv with utxos := u }

def inputsLockedBy (kv : KV) (t : Tx) : Bool :=
  if t.kind == 2 then kv.mints.lookup t.key == some t.id
  else if t.kind == 0 then kv.deposits.lookup t.key == some t.id
  else t.inputs.all (fun k => kv.utxos.lookup k == some t.id)

/-- `BadgerStore.WriteTransaction` with the `config.Debug` lock asserts -/
def writeTx (kv : KV) (t : Tx) : Res :=
  if !inputsLockedBy kv t then .panic
  else if (findTx kv t.id).isSome then .ok kv
  else .ok { kv with txs := kv.txs ++ [t] }

/-! ## rounds -/

def startNewRound (kv : KV) (c n : Nat) (self ext : RKey) : Res :=
  match kv.rounds.lookup (.head c), kv.rounds.lookup ext with
  | none, _ => .panic
  | _, none => .panic
  | some h, some e =>
    if h.number + 1 != n then .panic
    else if e.node == c then .panic
    else if (kv.rounds.lookup self).isSome then .panic
    else if (kv.links.lookup (c, e.node)).getD 0 > e.number then .panic
    else .ok { kv with
      links := ((c, e.node), e.number) :: kv.links,
      rounds := (.head c, { node := c, number := n, self := some self, ext := some ext }) ::
                (self, h) :: kv.rounds }

/-! ## finalization -/

def newUtxos (t : Nat) (outs : Nat) : List ((Nat × Nat) × Nat) :=
  (List.range outs).map (fun i => ((t, i), 0))

/-- `finalizeTransaction` + the UNIQUE key, for one transaction of snapshot `s` -/
def finalizeOne (kv : KV) (s : Snap) (t : Tx) : KV :=
  let kv1 :=
    if (kv.fins.lookup t.id).isSome then kv
    else { kv with fins := (t.id, s.id) :: kv.fins, utxos := newUtxos t.id t.outs ++ kv.utxos }
  { kv1 with uniques := (s.node, t.id) :: kv1.uniques }

def finalizeAll (kv : KV) (s : Snap) : List Nat → Option KV
  | [] => some kv
  | t :: rest =>
    match findTx kv t with
    | none => none
    | some tx => finalizeAll (finalizeOne kv s tx) s rest

def insertTopo (l : List (Nat × Nat)) (e : Nat × Nat) : List (Nat × Nat) :=
  match l with
  | [] => [e]
  | x :: rest => if e.1 < x.1 then e :: x :: rest else x :: insertTopo rest e

/-- `BadgerStore.WriteSnapshot` (asserts, `writeSnapshot`, `writeTopology`); the order `o` is the
    one `Node.TopoWrite` assigned. Node-state and asset-total side records are not modelled. -/
def writeSnapshot (kv : KV) (s : Snap) (o : Nat) : Res :=
  match kv.rounds.lookup (.head s.node) with
  | none => .panic
  | some h =>
    if h.number != s.round then .panic
    else if (findSnap kv s.id).isSome then .panic
    else if s.txs.any (fun t => (findTx kv t).isNone || kv.uniques.contains (s.node, t)) then .panic
    else if (kv.topo.lookup o).isSome then .panic
    else
      match finalizeAll kv s s.txs with
      | none => .panic
      | some kv1 =>
        .ok { kv1 with snaps := kv1.snaps ++ [s], topo := insertTopo kv1.topo (o, s.id),
                       snaptopo := (s.id, o) :: kv1.snaptopo }

/-! ## the consensus marker -/

def lastCons (kv : KV) : Option Cons := kv.cons.getLast?

def soleTx (kv : KV) (snap : Nat) : Option Nat :=
  match findSnap kv snap with
  | some sn => match sn.txs with | [t] => some t | _ => none
  | none => none

def setNext (l : List Cons) (next : Nat) : List Cons :=
  match l with
  | [] => []
  | [c] => [{ c with next := next }]
  | c :: rest => c :: setNext rest next

/-- `writeConsensusSnapshot(txn, snap, tx, nil)` for a non-genesis transaction -/
def writeConsensus (kv : KV) (s : Snap) (tx : Tx) : Res :=
  if s.txs != [tx.id] then .panic
  else if !consensusKind tx.kind then .panic
  else
    match lastCons kv with
    | none => .panic
    | some last =>
      match soleTx kv last.snap with
      | none => .panic
      | some sole =>
        if sole == tx.id then .ok kv
        else if sole != tx.ref0 then .panic
        else if last.ts ≥ s.ts then .panic
        else .ok { kv with cons := setNext kv.cons tx.id ++ [{ ts := s.ts, snap := s.id, next := 0 }] }

/-- `Node.reloadConsensusState`: the type test and the marker write (the in-memory reloads
    that follow are not durable state). -/
def reload (kv : KV) (s : Snap) (tx : Tx) : Res :=
  if s.txs.length != 1 then .panic
  else if consensusKind tx.kind then writeConsensus kv s tx
  else .ok kv

/-- the `mark s` step of the harness: what the kernel does after finalizing snapshot `s` -/
def markSnap (kv : KV) (s : Nat) : Res :=
  match findSnap kv s with
  | none => .panic
  | some sn =>
    match sn.txs with
    | [t] => match findTx kv t with
      | none => .panic
      | some tx => reload kv sn tx
    | _ => .ok kv   -- the kernel calls reloadConsensusState for single-transaction snapshots only

/-! ## bulk workload (harness `fill`): k one-output deposits, each locked, written and finalized
    in a single-transaction snapshot of the head round of its chain — a macro over the calls
    above, so that histories longer than the startup walk's page size stay affordable -/

def fillOne (kv : KV) (t s dep ts o c : Nat) : KV × Nat :=
  let tx : Tx := { id := t, kind := 0, ref0 := 0, outs := 1, key := dep, inputs := [] }
  match lockInputs kv tx with
  | .ok k1 =>
    match writeTx k1 tx with
    | .ok k2 =>
      match k2.rounds.lookup (.head c) with
      | none => (k2, 2)
      | some h =>
        match writeSnapshot k2 { id := s, node := c, round := h.number, ts := ts, txs := [t] } o with
        | .ok k3 => (k3, 0)
        | .reject => (k2, 1)
        | .panic => (k2, 2)
    | .reject => (k1, 1)
    | .panic => (k1, 2)
  | .reject => (kv, 1)
  | .panic => (kv, 2)

/-- status 0 = all committed, 1 = a call returned an error, 2 = a call panicked; the state is the
    one after the last committed call -/
def fill (kv : KV) (t0 s0 d0 ts0 o0 : Nat) (chains : List Nat) : Nat → Nat → KV × Nat
  | 0, _ => (kv, 0)
  | k + 1, j =>
    match fillOne kv (t0 + j) (s0 + j) (d0 + j) (ts0 + j) (o0 + j) (chains.getD (j % chains.length) 0) with
    | (k1, 0) => fill k1 t0 s0 d0 ts0 o0 chains k (j + 1)
    | r => r

/-! ## restart: the modelled fragment of `kernel.SetupNode` -/

/-- one step of the repair walk / of the final `LastSnapshot` test: snapshot at a topology entry -/
def reloadAt (kv : KV) (e : Nat × Nat) : Res :=
  match findSnap kv e.2 with
  | none => .panic
  | some sn =>
    match sn.txs with
    | [t] => match findTx kv t with
      | none => .panic
      | some tx => reload kv sn tx
    | _ => .ok kv

def reloadMany (kv : KV) : List (Nat × Nat) → Res
  | [] => .ok kv
  | e :: rest =>
    match reloadAt kv e with
    | .ok kv1 => reloadMany kv1 rest
    | r => r

def markerOrder (kv : KV) : Option Nat :=
  match lastCons kv with
  | none => none
  | some c => kv.snaptopo.lookup c.snap

/-- repaired `SetupNode`: replay `reloadConsensusState` over every topology entry above the
    recorded marker (`repairConsensusState`, entries strictly between the marker and the last
    one), then the pre-existing test of the last entry. -/
def setupRepair (kv : KV) : Res :=
  match kv.topo.getLast?, markerOrder kv with
  | none, _ => .panic
  | _, none => .panic
  | some last, some mo =>
    match reloadMany kv ((kv.topo.filter (fun e => mo < e.1 && e.1 < last.1))) with
    | .ok kv1 => reloadAt kv1 last
    | r => r

/-- `SetupNode` before the repair (the pinned tree): only the last topology entry is tested. -/
def setupRepairOld (kv : KV) : Res :=
  match kv.topo.getLast? with
  | none => .panic
  | some last => reloadAt kv last

/-! ## the graph validator -/

def insertByTs (s : Snap) : List Snap → List Snap
  | [] => [s]
  | x :: rest => if s.ts < x.ts then s :: x :: rest else x :: insertByTs s rest

def sortByTs (l : List Snap) : List Snap := l.foldr insertByTs []

def roundSnaps (kv : KV) (c i : Nat) : List Snap :=
  sortByTs (kv.snaps.filter (fun s => s.node == c && s.round == i))

/-- per transaction of a snapshot: `none` = the validator returns an error or dereferences nil
    (restart fails); `some b` = counted, `b` = counted invalid -/
def validateTx (kv : KV) (t : Nat) : Option Bool :=
  match findTx kv t, kv.fins.lookup t with
  | some _, some dup =>
    match kv.snaptopo.lookup dup with
    | none => none
    | some o =>
      match kv.topo.lookup o with
      | none => none
      | some sid =>
        match findSnap kv sid with
        | none => none
        | some sn => some (!sn.txs.contains t)
  | _, _ => none

def validateTxs (kv : KV) : List Nat → Option (Nat × Nat)
  | [] => some (0, 0)
  | t :: rest =>
    match validateTx kv t, validateTxs kv rest with
    | some b, some (tot, inv) => some (tot + 1, inv + (if b then 1 else 0))
    | _, _ => none

def validateRound (kv : KV) (c i : Nat) : Option (Nat × Nat) :=
  let ss := roundSnaps kv c i
  match validateTxs kv (ss.flatMap (·.txs)) with
  | none => none
  | some (tot, inv) =>
    if ss.isEmpty then none   -- computeRoundHash indexes snapshots[0]
    else
      match kv.rounds.lookup (.final c i (ss.map (·.id))) with
      | none => some (tot, inv + 1)
      | some r => some (tot, inv + (if r.node != c || r.number != i then 1 else 0))

def validateRounds (kv : KV) (c : Nat) : List Nat → Option (Nat × Nat)
  | [] => some (0, 0)
  | i :: rest =>
    match validateRound kv c i, validateRounds kv c rest with
    | some (a, b), some (x, y) => some (a + x, b + y)
    | _, _ => none

def validateChain (kv : KV) (depth c : Nat) : Option (Nat × Nat) :=
  match kv.rounds.lookup (.head c) with
  | none => some (0, 0)
  | some h => validateRounds kv c ((List.range h.number).filter (fun i => h.number ≤ i + depth))

def validateChains (kv : KV) (depth : Nat) : List Nat → Option (Nat × Nat)
  | [] => some (0, 0)
  | c :: rest =>
    match validateChain kv depth c, validateChains kv depth rest with
    | some (a, b), some (x, y) => some (a + x, b + y)
    | _, _ => none

/-- `ValidateGraphEntries(networkId, depth)`: (total, invalid) -/
def validateGraph (kv : KV) (depth : Nat) : Option (Nat × Nat) :=
  validateChains kv depth (List.range kv.n)

/-! ## restart -/

/-- `LastSnapshot()` succeeds: a last topology entry whose snapshot record is stored -/
def lastSnapshotOk (kv : KV) : Bool :=
  match kv.topo.getLast? with
  | none => false
  | some e => (findSnap kv e.2).isSome

/-- `Chain.loadState` for every chain: the round below the head holds snapshots -/
def chainsLoad (kv : KV) : Bool :=
  (List.range kv.n).all (fun c =>
    match kv.rounds.lookup (.head c) with
    | none => true
    | some h => h.number != 0 && !(roundSnaps kv c (h.number - 1)).isEmpty)

structure Restarted where
  kv : KV
  topoCounter : Nat
  total : Nat

/-- the modelled steps of `kernel.SetupNode` on a loaded store; `none` = the node does not start -/
def restart (kv : KV) : Option Restarted :=
  if !lastSnapshotOk kv then none
  else
    match validateGraph kv 10 with
    | some (total, 0) =>
      match setupRepair kv with
      | .ok kv1 =>
        if chainsLoad kv1 then
          some { kv := kv1, topoCounter := (kv.topo.getLast?.map (·.1)).getD 0, total := total }
        else none
      | _ => none
    | _ => none

/-! ## genesis -/

def genesisSnapIds (n c : Nat) : List Nat := if c == 0 then [1, n + 1] else [c + 1]

/-- the state `LoadGenesis` commits for `n` nodes: accept snapshot `c+1` of chain `c` at order
    `c`, the custodian snapshot `n+1` on chain 0 at order `n`; timestamps relative to the epoch -/
def genesis (n : Nat) : KV :=
  let ids := List.range n
  { n := n,
    txs := (List.range (n + 1)).map (fun i => { id := i + 1, kind := 8, ref0 := 0, outs := 1, key := 0, inputs := [] }),
    fins := (List.range (n + 1)).map (fun i => (i + 1, i + 1)),
    utxos := (List.range (n + 1)).map (fun i => ((i + 1, 0), 0)),
    deposits := [], mints := [],
    snaps := ids.map (fun c => { id := c + 1, node := c, round := 0, ts := 0, txs := [c + 1] }) ++
             [{ id := n + 1, node := 0, round := 0, ts := 1, txs := [n + 1] }],
    uniques := (0, n + 1) :: ids.map (fun c => (c, c + 1)),
    topo := (List.range (n + 1)).map (fun i => (i, i + 1)),
    snaptopo := (List.range (n + 1)).map (fun i => (i + 1, i)),
    rounds := ids.flatMap (fun c =>
      [(RKey.head c, { node := c, number := 1, self := some (.final c 0 (genesisSnapIds n c)),
                       ext := some (.final ((c + 1) % n) 0 (genesisSnapIds n ((c + 1) % n))) }),
       (RKey.final c 0 (genesisSnapIds n c), { node := c, number := 0, self := none, ext := none })]),
    links := [],
    cons := [{ ts := 1, snap := n + 1, next := 0 }] }

end Mixin.Recovery
