/-
  Line protocol shared by every model driver (core Lean only, so that the driver links
  as a `lean_exe`).  One operation per input line, one result per output line.
  Bytes travel as lowercase hex ("-" is the empty byte string), integers as decimal.
-/
namespace Mixin.Proto

abbrev Bytes := List UInt8

def hexVal (c : Char) : Option Nat :=
  if '0' ≤ c ∧ c ≤ '9' then some (c.toNat - '0'.toNat)
  else if 'a' ≤ c ∧ c ≤ 'f' then some (c.toNat - 'a'.toNat + 10)
  else none

def parseHexChars : List Char → Option Bytes
  | [] => some []
  | [_] => none
  | a :: b :: rest =>
    match hexVal a, hexVal b, parseHexChars rest with
    | some x, some y, some r => some ((x * 16 + y).toUInt8 :: r)
    | _, _, _ => none

def parseHex (s : String) : Option Bytes :=
  if s = "-" then some [] else parseHexChars s.toList

def hexChar (n : Nat) : Char :=
  if n < 10 then Char.ofNat ('0'.toNat + n) else Char.ofNat ('a'.toNat + (n - 10))

def toHex (b : Bytes) : String :=
  if b.isEmpty then "-" else
  String.ofList (b.foldr (fun x acc => hexChar (x.toNat / 16) :: hexChar (x.toNat % 16) :: acc) [])

def tokens (line : String) : List String :=
  (line.trimAscii.toString.splitOn " ").filter (· ≠ "")

/-- decimal integer with optional leading '-' -/
def parseInt (s : String) : Option Int :=
  match s.toList with
  | '-' :: rest => (String.ofList rest).toNat?.map (fun n => - (n : Int))
  | _ => s.toNat?.map (fun n => (n : Int))

/-- Generic driver loop: `step` consumes the tokens of one line. The token list of the
    line `reset` is passed to `step` as well (models decide what it means). -/
partial def runLoop {σ : Type} (init : σ) (step : σ → List String → σ × String) : IO Unit := do
  let stdin ← IO.getStdin
  let stdout ← IO.getStdout
  let rec go (s : σ) : IO Unit := do
    let line ← stdin.getLine
    if line.isEmpty then
      stdout.flush
      return ()
    let (s', out) := step s (tokens line)
    stdout.putStrLn out
    go s'
  go init

/-- Stateless variant. -/
def runPure (f : List String → String) : IO Unit :=
  runLoop () (fun _ t => ((), f t))

end Mixin.Proto
