/-
  Byte-string helpers for the snapshot codec (C07) and round hash (C18) models.
  Core Lean only. `Bytes` is a list of octets; integers are big-endian, fixed width.
  Lemmas about these definitions live in `Mixin/Proofs/BytesSnap.lean`.
-/
namespace Mixin.BytesSnap

abbrev Bytes := List UInt8

/-- `binary.BigEndian.AppendUintNN`: exactly `k` octets, most significant first
    (the value is reduced modulo `256^k`, as a Go conversion to the fixed-width type does). -/
def beBytes : Nat → Nat → Bytes
  | 0, _ => []
  | k + 1, n => UInt8.ofNat (n / 256 ^ k) :: beBytes k (n % 256 ^ k)

/-- `binary.BigEndian.UintNN` of a byte string (any length). -/
def beNat : Bytes → Nat
  | [] => 0
  | x :: xs => x.toNat * 256 ^ xs.length + beNat xs

/-- `Decoder.Read(buf)` with `len(buf) = n > 0`, successful case only: the next `n` octets
    and the rest. `none` covers both Go errors (`io.EOF` on empty input, "data short"). -/
def readN (n : Nat) (b : Bytes) : Option (Bytes × Bytes) :=
  if n ≤ b.length then some (b.take n, b.drop n) else none

/-- fixed-width big-endian unsigned read -/
def readU (k : Nat) (b : Bytes) : Option (Nat × Bytes) :=
  match readN k b with
  | some (x, r) => some (beNat x, r)
  | none => none

/-- `bytes.Compare(a, b) < 0` -/
def bytesLt : Bytes → Bytes → Bool
  | [], [] => false
  | [], _ :: _ => true
  | _ :: _, [] => false
  | a :: as, b :: bs =>
    if a.toNat < b.toNat then true
    else if b.toNat < a.toNat then false
    else bytesLt as bs

/-- `bytes.Compare(a, b) <= 0` -/
def bytesLe (a b : Bytes) : Bool := !bytesLt b a

end Mixin.BytesSnap
